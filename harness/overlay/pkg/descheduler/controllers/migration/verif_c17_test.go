//go:build verif

package migration

import (
	"context"
	"errors"
	"flag"
	"fmt"
	"io"
	"strconv"
	"strings"
	"testing"
	"time"

	gocache "github.com/patrickmn/go-cache"
	"golang.org/x/time/rate"
	corev1 "k8s.io/api/core/v1"
	apierrors "k8s.io/apimachinery/pkg/api/errors"
	metav1 "k8s.io/apimachinery/pkg/apis/meta/v1"
	"k8s.io/apimachinery/pkg/runtime/serializer"
	"k8s.io/apimachinery/pkg/types"
	clienttesting "k8s.io/client-go/testing"
	"k8s.io/klog/v2"
	fakeclock "k8s.io/utils/clock/testing"
	"k8s.io/utils/ptr"
	ctrl "sigs.k8s.io/controller-runtime"
	"sigs.k8s.io/controller-runtime/pkg/client"
	"sigs.k8s.io/controller-runtime/pkg/client/fake"
	"sigs.k8s.io/controller-runtime/pkg/client/interceptor"
	"sigs.k8s.io/controller-runtime/pkg/reconcile"

	"github.com/koordinator-sh/koordinator/apis/extension"
	sev1alpha1 "github.com/koordinator-sh/koordinator/apis/scheduling/v1alpha1"
	deschedulerconfig "github.com/koordinator-sh/koordinator/pkg/descheduler/apis/config"
	"github.com/koordinator-sh/koordinator/pkg/descheduler/controllers/migration/arbitrator"
	"github.com/koordinator-sh/koordinator/pkg/descheduler/controllers/migration/reservation"
	evictionsutil "github.com/koordinator-sh/koordinator/pkg/descheduler/evictions"
	"github.com/koordinator-sh/koordinator/pkg/descheduler/framework"
)

// C17 harness.  One case = one history of ONE PodMigrationJob driven through the real
// Reconciler.Reconcile (→ doMigrate) on the package's own fixture (newTestReconciler: args, scheme, fake
// arbitrator, recorder) with
//   * a controller-runtime fake client (status subresource for the job) behind an interceptor that counts
//     every write of the reconcile and fails the ones selected by the fault mask of the `rec` op,
//   * the REAL reservation interpreter (reservation/interpreter.go) on that client, wrapped only to script
//     Preemption()/NeedPreemption(),
//   * a fake clock, and a recording evictor that stamps every Evict call with the reservation and pod state
//     read from the (un-intercepted) client at that instant and evaluates clause 1 of the property on it.
// Environment events (reservation scheduled / unschedulable / expired / deleted / bound, pod deleted /
// replaced, time, pause, limiter, preemption script, controller restart) are ops between reconciles.

const (
	c17JobName  = "c17-job"
	c17ResvName = "c17-resv" // = job UID = name of a reservation the job creates
	c17PodName  = "c17-pod"
	c17BPodName = "c17-new"
	c17NS       = "default"
	c17AnnoNeed = "verif.c17/need-preempt"
)

var (
	c17T0          = time.Unix(1700000000, 0)
	c17ErrInjected = errors.New("c17: injected write failure")
)

type c17Pod struct {
	uid, node, sched, msg int
	pending               bool
}

type c17Resv struct {
	phase, node, sched, msg, owner                int
	expired, pendingMode, orderLabel, needPreempt bool
}

type c17World struct {
	h    *vHarness
	tmpl *Reconciler
	base client.WithWatch
	cl   client.WithWatch
	r    *Reconciler
	clk  *fakeclock.FakeClock

	// scripted environment (mirrors the op stream)
	direct   bool // effective mode by the documented rule (explicit Spec.Mode wins, else args.DefaultJobMode)
	dfltMode int
	ttl      int
	now     int
	limited bool
	preempt int
	ctrlUID int

	// per reconcile
	faults uint64
	nw     int
	acts   []int64

	evictFailed bool // the last reconcile's Evict call was failed by the fault mask
	nodeBefore  string // job.Status.NodeName as persisted when the running reconcile started

	// oracle bookkeeping
	anyFault   bool
	evictCalls int
	termPhase  string

	// ----- extended mode (read faults + scripted events inside one reconcile; harnesses readfaults / exhaustive) -----
	xmode  bool
	quiet  bool     // environment setters emit no op line (the event is part of the recx op)
	rfault uint64   // read-fault mask of the running reconcile, bit = index among its READ calls
	nr     int      // reads issued so far
	nc     int      // API calls (reads, writes, Evict) issued so far
	script []c17Ev  // events applied right before the k-th API call
	// oracle, extended mode
	midFired      bool // an environment event has been applied inside the running reconcile
	lookFailed    bool // a reservation lookup of the running reconcile failed or returned NotFound
	pendingNF     bool // the last API call was a reservation Get that returned NotFound (the interpreter retries once)
	podReadFailed bool // a Get of the target pod failed (injected) in the running reconcile
	arbCopy       *sev1alpha1.PodMigrationJob

	// the decidable restriction of theorem evict_node_differs_restricted (Proofs/C17ExtNode.lean `restricted`), evaluated on
	// every environment event of the history: once the job has recorded its node, no event puts the reservation or the
	// pod on a new node
	unrestricted bool
	xDisturbed   bool // some reconcile of the history had a read fault or an event inside it (outside that theorem's model)

	// ----- the job's own reservation template (ext3: what the controller WRITES when it creates the reservation) -----
	tm *c17Tmpl

	// ----- lagging informer (harness lagging): the job Get of a reconcile is served an OLDER version of the job -----
	lagMode   bool
	lagK      int                            // serve the version k writes back (clamped to the oldest recorded one)
	lagServed int                            // how many versions back the last job Get was actually served
	lagOp     bool                           // the running reconcile is a `lagrec` op
	versions  []*sev1alpha1.PodMigrationJob // every version of the job since the last controller (re)start, oldest first
	noJobEnv  bool                           // the environment never writes the job object (no pause / arbitration annotation)

	// ----- scavenger stream (ext5) -----
	stampJob bool // the Create interceptor plays the API server for a job created through Reconciler.Evict
	jobGone  bool // the scavenger has deleted the job object
}

// c17Tmpl: Spec.ReservationOptions.Template as a user may write it (no ReservationRef).
type c17Tmpl struct {
	ao        int  // Spec.AllocateOnce: 0 nil, 1 true, 2 false
	name      bool // ObjectMeta.Name set (to the name the controller would choose anyway) / empty
	ttl       int  // Spec.TTL: 0 nil, n+1 = n seconds
	expires   bool // Spec.Expires set
	userLabel bool // a label of the user's own
	createdBy bool // the user wrote a created-by label of his own (overwritten by the controller)
	podTmpl   bool // Spec.Template given (with a NodeName) / nil (copied from the pod)
}

func c17GenTmpl(r *vRand) *c17Tmpl {
	return &c17Tmpl{ao: r.Intn(3), name: r.Bool(), ttl: []int{0, 0, 1, 101}[r.Intn(4)], expires: r.Chance(1, 4),
		userLabel: r.Bool(), createdBy: r.Chance(1, 4), podTmpl: r.Chance(1, 3)}
}

const (
	c17UserLabel = "verif.c17/user"
	c17TmplLabel = "verif.c17/user-pod-template"
)

func (tm *c17Tmpl) build() *sev1alpha1.ReservationTemplateSpec {
	t := &sev1alpha1.ReservationTemplateSpec{}
	switch tm.ao {
	case 1:
		t.Spec.AllocateOnce = ptr.To(true)
	case 2:
		t.Spec.AllocateOnce = ptr.To(false)
	}
	if tm.name {
		t.Name = c17ResvName
	}
	if tm.ttl > 0 {
		t.Spec.TTL = &metav1.Duration{Duration: time.Duration(tm.ttl-1) * time.Second}
	}
	if tm.expires {
		t.Spec.Expires = &metav1.Time{Time: c17T0.Add(24 * time.Hour)}
	}
	if tm.userLabel || tm.createdBy {
		t.Labels = map[string]string{}
		if tm.userLabel {
			t.Labels[c17UserLabel] = "1"
		}
		if tm.createdBy {
			t.Labels[reservation.LabelCreatedBy] = "the-user"
		}
	}
	if tm.podTmpl {
		t.Spec.Template = &corev1.PodTemplateSpec{ObjectMeta: metav1.ObjectMeta{Labels: map[string]string{c17TmplLabel: "1"}},
			Spec: corev1.PodSpec{NodeName: "n9", SchedulerName: "koord-scheduler"}}
	}
	return t
}

// c17EffAO: the effective allocate-once of a Reservation object as the API defines it (nil defaults to true); written out
// here, not taken from the code under test.
func c17EffAO(r *sev1alpha1.Reservation) bool {
	return r.Spec.AllocateOnce == nil || *r.Spec.AllocateOnce
}

// consume: the scheduler's reservation controller, played faithfully (syncStatus): a sibling pod that was allocated from
// the (scheduled) reservation becomes its current owner; the phase becomes Succeeded only for an allocate-once
// reservation, a reusable one stays Available.
func (w *c17World) consume(uid int) {
	r := w.getResv()
	if r == nil || r.Status.NodeName == "" {
		w.h.Tag("env:consume-impossible(no scheduled reservation)")
		return
	}
	ao := c17EffAO(r)
	r.Status.CurrentOwners = []corev1.ObjectReference{{Namespace: c17NS, Name: c17BPodName, UID: types.UID(c17Name("u", uid))}}
	if ao {
		r.Status.Phase = sev1alpha1.ReservationSucceeded
		found := false
		for i := range r.Status.Conditions {
			if c := &r.Status.Conditions[i]; c.Type == sev1alpha1.ReservationConditionReady && c.Reason != sev1alpha1.ReasonReservationExpired {
				c.Status, c.Reason, found = sev1alpha1.ConditionStatusFalse, sev1alpha1.ReasonReservationSucceeded, true
			}
		}
		if !found {
			r.Status.Conditions = append(r.Status.Conditions, sev1alpha1.ReservationCondition{Type: sev1alpha1.ReservationConditionReady,
				Status: sev1alpha1.ConditionStatusFalse, Reason: sev1alpha1.ReasonReservationSucceeded})
		}
	}
	w.must(w.base.Update(context.TODO(), r), "consume reservation")
	w.h.Op("consume %d %d", uid, vB(ao))
	w.h.Tag(fmt.Sprintf("env:consumed-by-sibling/allocate-once=%v", ao))
}

func (w *c17World) nodeRecorded() bool {
	job := &sev1alpha1.PodMigrationJob{}
	if err := w.base.Get(context.TODO(), types.NamespacedName{Name: c17JobName}, job); err != nil {
		return false
	}
	_, c := utilGetCond(&job.Status, sev1alpha1.PodMigrationJobConditionReservationScheduled)
	return job.Status.NodeName != "" || (c != nil && c.Status == sev1alpha1.PodMigrationJobConditionStatusTrue)
}

// c17Ev: one scripted environment event inside a reconcile.
// kind 1 pod deleted, 2 pod set, 3 reservation deleted, 4 reservation set, 5 bound pod
type c17Ev struct {
	k, kind int
	pod     c17Pod
	resv    c17Resv
	bpod    int
}

func (e c17Ev) tokens() []int64 {
	out := []int64{int64(e.k), int64(e.kind)}
	switch e.kind {
	case 2:
		out = append(out, int64(e.pod.uid), int64(e.pod.node), int64(e.pod.sched), int64(e.pod.msg), int64(vB(e.pod.pending)))
	case 4:
		x := e.resv
		msg := x.msg
		if x.sched != 3 {
			msg = 0
		}
		out = append(out, int64(x.phase), int64(x.node), int64(x.sched), int64(msg), int64(vB(x.expired)), int64(x.owner),
			int64(vB(x.pendingMode)), int64(vB(x.orderLabel)), int64(vB(x.needPreempt)))
	case 5:
		out = append(out, int64(e.bpod))
	}
	return out
}

// hook runs right before every API call of a reconcile in extended mode.
func (w *c17World) hook() {
	if !w.xmode {
		return
	}
	k := w.nc
	w.nc++
	for _, e := range w.script {
		if e.k != k {
			continue
		}
		w.midFired = true
		w.quiet = true
		switch e.kind {
		case 1:
			w.setPod(nil)
		case 2:
			p := e.pod
			w.setPod(&p)
		case 3:
			w.setResv(nil)
		case 4:
			x := e.resv
			w.setResv(&x)
		case 5:
			w.setBPod(e.bpod)
		}
		w.quiet = false
		w.h.Tag(fmt.Sprintf("mid-event:kind=%d", e.kind))
	}
}

// noteCall keeps the "reservation lookup failed" bookkeeping of the oracle: a reservation Get that returns NotFound
// is retried once by the interpreter (APIReader); anything else after a NotFound means the lookup failed.
func (w *c17World) noteCall(resvGet bool, res int) {
	if !resvGet {
		if w.pendingNF {
			w.lookFailed, w.pendingNF = true, false
		}
		return
	}
	switch res {
	case 0:
		w.pendingNF = false
	case 1:
		if w.pendingNF {
			w.lookFailed, w.pendingNF = true, false
		} else {
			w.pendingNF = true
		}
	default:
		w.lookFailed, w.pendingNF = true, false
	}
}

// read accounts one Get of the running reconcile (extended mode): kind 8 job, 9 target pod, 10 reservation, 11 bound pod.
func (w *c17World) read(kind int64, do func() error) error {
	w.hook()
	idx := w.nr
	w.nr++
	res := 0
	var err error
	if idx < 64 && (w.rfault>>uint(idx))&1 == 1 {
		res, err = 2, c17ErrInjected
	} else if err = do(); apierrors.IsNotFound(err) {
		res = 1
	} else if err != nil {
		res = 2
	}
	w.acts = append(w.acts, kind, int64(vB(res == 0)), int64(res))
	w.noteCall(kind == 10, res)
	if kind == 9 && res == 2 {
		w.podReadFailed = true
	}
	return err
}

// failLast marks the last logged write as failed: the API server itself refused it (conflict / not found after a
// scripted event); only possible in extended mode.
func (w *c17World) failLast() {
	if n := len(w.acts); n >= 3 {
		w.acts[n-2] = 0
	}
}

// ---------- fixtures ----------

type c17Mgr struct {
	ctrl.Manager
	c client.Client
}

func (m *c17Mgr) GetClient() client.Client    { return m.c }
func (m *c17Mgr) GetAPIReader() client.Reader { return m.c }

type c17Interp struct {
	reservation.Interpreter
	w *c17World
}

type c17Obj struct{ reservation.Object }

func (o *c17Obj) NeedPreemption() bool {
	return o.Object.OriginObject().GetAnnotations()[c17AnnoNeed] == "1"
}

func (i *c17Interp) Preemption() reservation.Preemption {
	if i.w.preempt == 0 {
		return nil
	}
	return &c17Preemption{i.w}
}

func (i *c17Interp) GetReservation(ctx context.Context, ref *corev1.ObjectReference) (reservation.Object, error) {
	obj, err := i.Interpreter.GetReservation(ctx, ref)
	if obj == nil {
		return obj, err
	}
	return &c17Obj{Object: obj}, err
}

type c17Preemption struct{ w *c17World }

func (p *c17Preemption) Preempt(ctx context.Context, job *sev1alpha1.PodMigrationJob, obj reservation.Object) (bool, reconcile.Result, error) {
	w := p.w
	w.acts = append(w.acts, 7, int64(vB(w.preempt != 3)), 0)
	switch w.preempt {
	case 2:
		return true, reconcile.Result{}, nil
	case 3:
		return false, reconcile.Result{}, errors.New("c17: preemption failed")
	}
	return false, reconcile.Result{RequeueAfter: defaultRequeueAfter}, nil
}

type c17Evictor struct{ w *c17World }

func (e *c17Evictor) Evict(ctx context.Context, job *sev1alpha1.PodMigrationJob, pod *corev1.Pod) error {
	w := e.w
	ok := w.write(6, int64(c17Code(string(pod.UID), "u")))
	w.oracleEvict(job, pod)
	w.evictFailed = !ok
	if !ok {
		return c17ErrInjected
	}
	return nil
}

// write accounts one write call of the running reconcile and tells whether it may proceed.
func (w *c17World) write(kind int64, arg int64) bool {
	w.hook()
	w.noteCall(false, 0)
	ok := w.nw >= 64 || (w.faults>>uint(w.nw))&1 == 0
	w.nw++
	w.acts = append(w.acts, kind, int64(vB(ok)), arg)
	return ok
}

func (w *c17World) funcs() interceptor.Funcs {
	return interceptor.Funcs{
		Get: func(ctx context.Context, c client.WithWatch, key client.ObjectKey, obj client.Object, opts ...client.GetOption) error {
			if !w.xmode {
				if job, isJob := obj.(*sev1alpha1.PodMigrationJob); isJob && w.lagMode {
					// the informer cache the controller reads from may LAG: serve the version k writes back
					w.lagServed = 0
					if idx := len(w.versions) - 1 - w.lagK; w.lagK > 0 && len(w.versions) > 1 {
						if idx < 0 {
							idx = 0
						}
						w.lagServed = len(w.versions) - 1 - idx
						w.versions[idx].DeepCopyInto(job)
						return nil
					}
				}
				return c.Get(ctx, key, obj, opts...)
			}
			kind := int64(9)
			switch obj.(type) {
			case *sev1alpha1.PodMigrationJob:
				kind = 8
			case *sev1alpha1.Reservation:
				kind = 10
			default:
				if key.Name == c17BPodName {
					kind = 11
				}
			}
			return w.read(kind, func() error { return c.Get(ctx, key, obj, opts...) })
		},
		Create: func(ctx context.Context, c client.WithWatch, obj client.Object, opts ...client.CreateOption) error {
			if _, isResv := obj.(*sev1alpha1.Reservation); isResv {
				if !w.write(3, 0) {
					return c17ErrInjected
				}
			}
			if job, isJob := obj.(*sev1alpha1.PodMigrationJob); isJob && w.stampJob {
				// what the API server does on a create (the fake client does not): uid and creation timestamp
				job.UID = c17ResvName
				job.CreationTimestamp = metav1.Time{Time: w.clk.Now()}
			}
			return c.Create(ctx, obj, opts...)
		},
		Update: func(ctx context.Context, c client.WithWatch, obj client.Object, opts ...client.UpdateOption) error {
			switch obj.(type) {
			case *sev1alpha1.PodMigrationJob:
				if !w.write(1, 0) {
					return c17ErrInjected
				}
				if w.lagMode {
					err := c.Update(ctx, obj, opts...)
					w.jobWritten(err)
					return err
				}
			case *sev1alpha1.Reservation:
				if !w.write(4, 0) {
					return c17ErrInjected
				}
				err := c.Update(ctx, obj, opts...)
				if err != nil && w.xmode {
					w.failLast()
				}
				return err
			}
			return c.Update(ctx, obj, opts...)
		},
		Delete: func(ctx context.Context, c client.WithWatch, obj client.Object, opts ...client.DeleteOption) error {
			if _, isResv := obj.(*sev1alpha1.Reservation); isResv {
				if !w.write(5, 0) {
					return c17ErrInjected
				}
				err := c.Delete(ctx, obj, opts...)
				if err != nil && w.xmode {
					w.failLast()
				}
				return err
			}
			if _, isJob := obj.(*sev1alpha1.PodMigrationJob); isJob {
				// only the scavenger deletes a job (ext5): write kind 12
				if !w.write(12, 0) {
					return c17ErrInjected
				}
			}
			return c.Delete(ctx, obj, opts...)
		},
		SubResourceUpdate: func(ctx context.Context, c client.Client, sub string, obj client.Object, opts ...client.SubResourceUpdateOption) error {
			if _, isJob := obj.(*sev1alpha1.PodMigrationJob); isJob && sub == "status" {
				if !w.write(2, 0) {
					return c17ErrInjected
				}
				if w.lagMode {
					err := c.SubResource(sub).Update(ctx, obj, opts...)
					w.jobWritten(err)
					return err
				}
			}
			return c.SubResource(sub).Update(ctx, obj, opts...)
		},
	}
}

// jobWritten (lagging mode): a job write that reached the API server either made a new version (recorded: a lagging
// informer may serve any of them later) or was refused (conflict on a stale resourceVersion = a failed API call).
func (w *c17World) jobWritten(err error) {
	if err != nil {
		w.failLast()
		w.h.Tag("lag:job-write-refused-by-api-server")
		return
	}
	w.versions = append(w.versions, w.getJob())
}

// newReconciler = "controller (re)start": the template built by the package's newTestReconciler, with this
// world's client, interpreters and clock, a fresh assumed-cache and the given reconcilerUID.
func (w *c17World) newReconciler() {
	r := &Reconciler{}
	r.Client = w.cl
	args := *w.tmpl.args
	args.ObjectLimiters = deschedulerconfig.ObjectLimiterMap{
		deschedulerconfig.MigrationLimitObjectNamespace: {Duration: metav1.Duration{Duration: time.Hour}},
	}
	args.DefaultJobMode = string(c17Modes[w.dfltMode])
	r.args = &args
	r.eventRecorder = w.tmpl.eventRecorder
	r.controllerFinder = w.tmpl.controllerFinder
	r.arbitrator = w.tmpl.arbitrator
	r.reservationInterpreter = &c17Interp{Interpreter: reservation.NewInterpreter(&c17Mgr{c: w.cl}), w: w}
	r.evictorInterpreter = &c17Evictor{w}
	r.assumedCache = newAssumedCache()
	r.clock = w.clk
	r.limiterMap = map[deschedulerconfig.MigrationLimitObjectType]map[string]*rate.Limiter{
		deschedulerconfig.MigrationLimitObjectNamespace: {}}
	r.limiterCacheMap = map[deschedulerconfig.MigrationLimitObjectType]*gocache.Cache{
		deschedulerconfig.MigrationLimitObjectNamespace: gocache.New(time.Hour, 0)}
	r.reconcilerUID = types.UID(fmt.Sprintf("c%d", w.ctrlUID))
	w.r = r
	w.applyLimit()
	// a restarted controller LISTs: its cache starts from the current version
	w.versions = w.versions[:0]
	if w.lagMode {
		w.versions = append(w.versions, w.getJob())
	}
}

func (w *c17World) applyLimit() {
	m := w.r.limiterMap[deschedulerconfig.MigrationLimitObjectNamespace]
	if w.limited {
		m[c17NS] = rate.NewLimiter(rate.Limit(0), 0) // no token, ever
	} else {
		delete(m, c17NS)
	}
}

// ---------- canonical codes ----------

func c17Code(s, prefix string) int {
	if s == "" {
		return 0
	}
	if strings.HasPrefix(s, prefix) {
		if n, err := strconv.Atoi(s[len(prefix):]); err == nil {
			return n
		}
	}
	return 99
}

// c17Msg: messages are canonical only when they were chosen by the generator ("m<k>"); every other text is 0.
func c17Msg(s string) int {
	if strings.HasPrefix(s, "Failed to create Reservation caused by") && strings.Contains(s, "not found") {
		return 51 // CreateReservation: AlreadyExists, then the Get found nothing (the reservation vanished in between)
	}
	if c := c17Code(s, "m"); c != 99 {
		return c
	}
	return 0
}

func c17Name(prefix string, n int) string {
	if n == 0 {
		return ""
	}
	return fmt.Sprintf("%s%d", prefix, n)
}

var c17Phases = []sev1alpha1.PodMigrationJobPhase{"", sev1alpha1.PodMigrationJobPending, sev1alpha1.PodMigrationJobRunning,
	sev1alpha1.PodMigrationJobSucceeded, sev1alpha1.PodMigrationJobFailed, sev1alpha1.PodMigrationJobAborted}

func c17PhaseCode(p sev1alpha1.PodMigrationJobPhase) int {
	for i, x := range c17Phases {
		if x == p {
			return i
		}
	}
	return 9
}

var c17CondTypes = map[sev1alpha1.PodMigrationJobConditionType]int{
	sev1alpha1.PodMigrationJobConditionReservationCreated:             1,
	sev1alpha1.PodMigrationJobConditionReservationScheduled:           2,
	sev1alpha1.PodMigrationJobConditionPreemption:                     3,
	sev1alpha1.PodMigrationJobConditionEviction:                       4,
	sev1alpha1.PodMigrationJobConditionPodScheduled:                   5,
	sev1alpha1.PodMigrationJobConditionReservationPodBoundReservation: 6,
	sev1alpha1.PodMigrationJobConditionBoundPodReady:                  7,
	sev1alpha1.PodMigrationJobConditionReservationBound:               8,
}

func c17CondTypeOf(code int) sev1alpha1.PodMigrationJobConditionType {
	for k, v := range c17CondTypes {
		if v == code {
			return k
		}
	}
	return sev1alpha1.PodMigrationJobConditionType(fmt.Sprintf("t%d", code))
}

func c17StatusCode(s string) int {
	if s == "" {
		return 0
	}
	if s == "Complete" {
		return 100
	}
	if c, ok := c17CondTypes[sev1alpha1.PodMigrationJobConditionType(s)]; ok {
		return c
	}
	return 99
}

func c17StatusOf(code int) string {
	switch {
	case code == 0:
		return ""
	case code == 100:
		return "Complete"
	}
	return string(c17CondTypeOf(code))
}

var c17Reasons = map[string]int{
	"": 0, sev1alpha1.PodMigrationJobReasonTimeout: 1, sev1alpha1.PodMigrationJobReasonFailedCreateReservation: 2,
	sev1alpha1.PodMigrationJobReasonReservationExpired: 3, sev1alpha1.PodMigrationJobReasonUnschedulable: 4,
	sev1alpha1.PodMigrationJobReasonForbiddenMigratePod: 5, sev1alpha1.PodMigrationJobReasonMissingPod: 6,
	sev1alpha1.PodMigrationJobReasonMissingReservation: 7, sev1alpha1.PodMigrationJobReasonPreempting: 8,
	sev1alpha1.PodMigrationJobReasonPreemptComplete: 9, sev1alpha1.PodMigrationJobReasonEvicting: 10,
	sev1alpha1.PodMigrationJobReasonFailedEvict: 11, sev1alpha1.PodMigrationJobReasonEvictComplete: 12,
	sev1alpha1.PodMigrationJobReasonWaitForPodBindReservation: 13, sev1alpha1.PodMigrationJobReasonWaitForBoundPodReady: 14,
	"InvalidPodRef": 15,
}

func c17ReasonCode(s string) int {
	if c, ok := c17Reasons[s]; ok {
		return c
	}
	return 99
}

func c17ReasonOf(code int) string {
	for k, v := range c17Reasons {
		if v == code {
			return k
		}
	}
	return fmt.Sprintf("r%d", code)
}

var c17RPhases = []sev1alpha1.ReservationPhase{"", sev1alpha1.ReservationPending, sev1alpha1.ReservationAvailable,
	sev1alpha1.ReservationSucceeded, sev1alpha1.ReservationFailed, sev1alpha1.ReservationWaiting}

// ---------- environment ----------

func (w *c17World) must(err error, what string) {
	if err != nil {
		panic(fmt.Sprintf("c17 harness: %s: %v", what, err))
	}
}

func (w *c17World) getJob() *sev1alpha1.PodMigrationJob {
	job := &sev1alpha1.PodMigrationJob{}
	w.must(w.base.Get(context.TODO(), types.NamespacedName{Name: c17JobName}, job), "get job")
	return job
}

func (w *c17World) getResv() *sev1alpha1.Reservation {
	r := &sev1alpha1.Reservation{}
	err := w.base.Get(context.TODO(), types.NamespacedName{Name: c17ResvName}, r)
	if apierrors.IsNotFound(err) {
		return nil
	}
	w.must(err, "get reservation")
	return r
}

func (w *c17World) getPod(name string) *corev1.Pod {
	p := &corev1.Pod{}
	err := w.base.Get(context.TODO(), types.NamespacedName{Namespace: c17NS, Name: name}, p)
	if apierrors.IsNotFound(err) {
		return nil
	}
	w.must(err, "get pod")
	return p
}

func (w *c17World) setPod(p *c17Pod) {
	if p != nil && p.node != 0 && w.nodeRecorded() {
		if old := w.curPod(); old == nil || old.node != p.node {
			w.unrestricted = true
		}
	}
	if old := w.getPod(c17PodName); old != nil {
		w.must(w.base.Delete(context.TODO(), old), "delete pod")
	}
	if p == nil {
		if !w.quiet {
			w.h.Op("pod 0")
		}
		return
	}
	pod := &corev1.Pod{
		ObjectMeta: metav1.ObjectMeta{Namespace: c17NS, Name: c17PodName, UID: types.UID(c17Name("u", p.uid)),
			OwnerReferences: []metav1.OwnerReference{{APIVersion: "apps/v1", Controller: ptr.To(true), Kind: "StatefulSet", Name: "sts", UID: "sts-uid"}}},
		Spec:   corev1.PodSpec{NodeName: c17Name("n", p.node), SchedulerName: "koord-scheduler"},
		Status: corev1.PodStatus{Phase: corev1.PodRunning},
	}
	if p.pending {
		pod.Status.Phase = corev1.PodPending
	}
	switch p.sched {
	case 1:
		pod.Status.Conditions = []corev1.PodCondition{{Type: corev1.PodScheduled, Status: corev1.ConditionFalse, Reason: "Unschedulable", Message: c17Name("m", p.msg)}}
	case 2:
		pod.Status.Conditions = []corev1.PodCondition{{Type: corev1.PodScheduled, Status: corev1.ConditionTrue, Message: c17Name("m", p.msg)}}
	}
	w.must(w.base.Create(context.TODO(), pod), "create pod")
	if !w.quiet {
		w.h.Op("pod 1 %d %d %d %d %d", p.uid, p.node, p.sched, p.msg, vB(p.pending))
	}
}

func (w *c17World) setBPod(k int) {
	if old := w.getPod(c17BPodName); old != nil {
		w.must(w.base.Delete(context.TODO(), old), "delete bound pod")
	}
	if k != 0 {
		pod := &corev1.Pod{ObjectMeta: metav1.ObjectMeta{Namespace: c17NS, Name: c17BPodName, UID: "bound-uid"},
			Status: corev1.PodStatus{Phase: corev1.PodRunning}}
		if k == 2 {
			pod.Status.Conditions = []corev1.PodCondition{{Type: corev1.PodReady, Status: corev1.ConditionTrue}}
		}
		w.must(w.base.Create(context.TODO(), pod), "create bound pod")
	}
	if !w.quiet {
		w.h.Op("bpod %d", k)
	}
}

func (w *c17World) setResv(x *c17Resv) {
	if x != nil && x.node != 0 && w.nodeRecorded() {
		if old := w.curResv(); old == nil || old.node != x.node {
			w.unrestricted = true
		}
	}
	old := w.getResv()
	if x == nil {
		if old != nil {
			w.must(w.base.Delete(context.TODO(), old), "delete reservation")
		}
		if !w.quiet {
			w.h.Op("resv 0")
		}
		return
	}
	r := &sev1alpha1.Reservation{ObjectMeta: metav1.ObjectMeta{Name: c17ResvName, UID: c17ResvUID}}
	if old != nil {
		r = old
	}
	r.Labels = map[string]string{reservation.LabelCreatedBy: "someone"}
	if x.orderLabel {
		r.Labels[extension.LabelReservationOrder] = "1700000000000"
	}
	r.Annotations = nil
	if x.needPreempt {
		r.Annotations = map[string]string{c17AnnoNeed: "1"}
	}
	ctrlOwner := sev1alpha1.ReservationOwner{Controller: &sev1alpha1.ReservationControllerReference{Namespace: c17NS,
		OwnerReference: metav1.OwnerReference{APIVersion: "apps/v1", Controller: ptr.To(true), Kind: "StatefulSet", Name: "sts", UID: "sts-uid"}}}
	if x.pendingMode {
		r.Spec.Owners = []sev1alpha1.ReservationOwner{ctrlOwner, {Object: &corev1.ObjectReference{Kind: "Pod", Namespace: c17NS, Name: c17PodName}}}
	} else {
		r.Spec.Owners = []sev1alpha1.ReservationOwner{ctrlOwner}
	}
	if old == nil {
		r.Spec.AllocateOnce = ptr.To(true) // an environment-made reservation; one the controller wrote keeps what was written
	}
	r.Status = sev1alpha1.ReservationStatus{Phase: c17RPhases[x.phase], NodeName: c17Name("n", x.node)}
	switch x.sched {
	case 1:
		r.Status.Conditions = append(r.Status.Conditions, sev1alpha1.ReservationCondition{Type: sev1alpha1.ReservationConditionScheduled,
			Status: sev1alpha1.ConditionStatusTrue, Reason: sev1alpha1.ReasonReservationScheduled})
	case 2:
		r.Status.Conditions = append(r.Status.Conditions, sev1alpha1.ReservationCondition{Type: sev1alpha1.ReservationConditionScheduled,
			Status: sev1alpha1.ConditionStatusFalse, Reason: sev1alpha1.ReasonReservationScheduled})
	case 3:
		r.Status.Conditions = append(r.Status.Conditions, sev1alpha1.ReservationCondition{Type: sev1alpha1.ReservationConditionScheduled,
			Status: sev1alpha1.ConditionStatusFalse, Reason: sev1alpha1.ReasonReservationUnschedulable, Message: c17Name("m", x.msg)})
	}
	if x.expired {
		r.Status.Conditions = append(r.Status.Conditions, sev1alpha1.ReservationCondition{Type: sev1alpha1.ReservationConditionReady,
			Status: sev1alpha1.ConditionStatusFalse, Reason: sev1alpha1.ReasonReservationExpired})
	} else if x.phase == 2 {
		r.Status.Conditions = append(r.Status.Conditions, sev1alpha1.ReservationCondition{Type: sev1alpha1.ReservationConditionReady,
			Status: sev1alpha1.ConditionStatusTrue, Reason: sev1alpha1.ReasonReservationAvailable})
	}
	if x.owner != 0 {
		r.Status.CurrentOwners = []corev1.ObjectReference{{Namespace: c17NS, Name: c17BPodName, UID: types.UID(c17Name("u", x.owner))}}
	}
	if old != nil {
		w.must(w.base.Update(context.TODO(), r), "update reservation")
	} else {
		w.must(w.base.Create(context.TODO(), r), "create reservation")
	}
	msg := x.msg
	if x.sched != 3 {
		msg = 0
	}
	if w.quiet {
		return
	}
	w.h.Op("resv 1 %d %d %d %d %d %d %d %d %d", x.phase, x.node, x.sched, msg, vB(x.expired), x.owner, vB(x.pendingMode), vB(x.orderLabel), vB(x.needPreempt))
}

// curResv reads the reservation back into the generator's representation (the controller may have created,
// labelled or deleted it).
func (w *c17World) curResv() *c17Resv {
	r := w.getResv()
	if r == nil {
		return nil
	}
	x := &c17Resv{node: c17Code(r.Status.NodeName, "n")}
	for i, p := range c17RPhases {
		if p == r.Status.Phase {
			x.phase = i
		}
	}
	for _, c := range r.Status.Conditions {
		if c.Type == sev1alpha1.ReservationConditionScheduled {
			switch {
			case c.Reason == sev1alpha1.ReasonReservationUnschedulable:
				x.sched, x.msg = 3, c17Msg(c.Message)
			case c.Status == sev1alpha1.ConditionStatusTrue:
				x.sched = 1
			default:
				x.sched = 2
			}
		}
		if c.Type == sev1alpha1.ReservationConditionReady && c.Reason == sev1alpha1.ReasonReservationExpired {
			x.expired = true
		}
	}
	if len(r.Status.CurrentOwners) > 0 {
		x.owner = c17Code(string(r.Status.CurrentOwners[0].UID), "u")
	}
	for _, o := range r.Spec.Owners {
		if o.Object != nil && o.Controller == nil && o.LabelSelector == nil {
			x.pendingMode = true
		}
	}
	_, x.orderLabel = r.Labels[extension.LabelReservationOrder]
	x.needPreempt = r.Annotations[c17AnnoNeed] == "1"
	return x
}

func (w *c17World) curPod() *c17Pod {
	p := w.getPod(c17PodName)
	if p == nil {
		return nil
	}
	x := &c17Pod{uid: c17Code(string(p.UID), "u"), node: c17Code(p.Spec.NodeName, "n"), pending: p.Status.Phase == corev1.PodPending}
	for _, c := range p.Status.Conditions {
		if c.Type == corev1.PodScheduled {
			x.msg = c17Msg(c.Message)
			if c.Status == corev1.ConditionFalse {
				x.sched = 1
			} else {
				x.sched = 2
			}
		}
	}
	return x
}

// ---------- oracle ----------

// oracleEvict: clause 1 — evaluated from scratch on the objects as they are in the API server at the
// instant the evictor is called.
func (w *c17World) oracleEvict(job *sev1alpha1.PodMigrationJob, pod *corev1.Pod) {
	w.evictCalls++
	// clause 2, inside one reconcile: a job that is (being) marked Failed / Succeeded triggers no eviction
	if p := job.Status.Phase; p == sev1alpha1.PodMigrationJobFailed || p == sev1alpha1.PodMigrationJobSucceeded {
		w.h.Fail("C17:failed-job-evicts", "evictor called with a job whose phase is already %s (reason %q)", p, job.Status.Reason)
	} else if p := w.getJob().Status.Phase; p == sev1alpha1.PodMigrationJobFailed || p == sev1alpha1.PodMigrationJobSucceeded {
		w.h.Fail("C17:failed-job-evicts", "evictor called while the persisted job is already %s", p)
	}
	// "the eviction of the TARGET pod": the job names its target by PodRef.UID (recorded by the first reconcile); a same-name
	// replacement is not the target (repaired by df70d80: evictPod compares the uid before the Eviction condition exists too)
	if spec := string(job.Spec.PodRef.UID); spec != "" && spec != string(pod.UID) {
		w.h.Fail("C17:evicted-not-target", "evictor called for pod uid %q, the job's target is uid %q (same-name replacement)", pod.UID, spec)
	}
	if !w.anyFault && w.evictCalls > 1 {
		w.h.Fail("C17:evict-twice-no-faults", "evictor called %d times in a history without any injected failure", w.evictCalls)
	}
	if w.termPhase != "" {
		w.h.Fail("C17:terminal-acted:evict", "evictor called although the job was already %s", w.termPhase)
	}
	if w.direct {
		w.h.Tag("evict:direct")
		return
	}
	w.h.Tag("evict:reservation-first")
	if w.xmode && w.lookFailed {
		// clause 1 under read faults: the eviction decision needs every reservation lookup of this reconcile answered
		w.h.Fail("C17:evict-unsecured:lookup-failed", "Evict called in a reconcile in which a reservation lookup failed or returned NotFound")
	}
	if w.xmode && w.midFired {
		// the environment changed inside this reconcile: the state AT THIS INSTANT may legitimately differ from what the
		// lookups answered (check-then-act); the state clauses below are evaluated only when nothing changed in between
		w.h.Tag("evict:after-mid-event(state-clauses-skipped)")
		return
	}
	r := w.getResv()
	if r == nil {
		w.h.Fail("C17:evict-unsecured:missing", "Evict called while the reservation does not exist")
		return
	}
	has := func(t sev1alpha1.ReservationConditionType, reason string, st sev1alpha1.ConditionStatus) bool {
		for _, c := range r.Status.Conditions {
			if c.Type == t && c.Reason == reason && (st == "" || c.Status == st) {
				return true
			}
		}
		return false
	}
	if r.Status.Phase == "" || r.Status.Phase == sev1alpha1.ReservationPending {
		w.h.Fail("C17:evict-unsecured:pending", "Evict called while the reservation is pending (phase %q)", r.Status.Phase)
	}
	if r.Status.Phase == sev1alpha1.ReservationFailed && has(sev1alpha1.ReservationConditionReady, sev1alpha1.ReasonReservationExpired, "") {
		w.h.Fail("C17:evict-unsecured:expired", "Evict called while the reservation is expired")
	}
	scheduled := r.Status.NodeName != "" && has(sev1alpha1.ReservationConditionScheduled, sev1alpha1.ReasonReservationScheduled, sev1alpha1.ConditionStatusTrue)
	preempted := r.Annotations[c17AnnoNeed] == "1" && w.preempt == 2
	if !scheduled && !preempted {
		w.h.Fail("C17:evict-unsecured:unscheduled", "Evict called while the reservation is neither scheduled nor preempted-for (node %q)", r.Status.NodeName)
	}
	if preempted && !scheduled {
		w.h.Tag("evict:after-preemption")
	}
	if r.Status.NodeName != "" && r.Status.NodeName == pod.Spec.NodeName {
		if w.nodeBefore != "" && !w.unrestricted && !w.xDisturbed {
			// theorem evict_node_differs_restricted: impossible in a history whose environment events are restricted
			w.h.Fail("C17:evict-unsecured:same-node:restricted-history", "Evict called while the reservation sits on the pod's own node %q although no environment event moved the pod or the reservation after the node was recorded", pod.Spec.NodeName)
		} else if w.nodeBefore != "" {
			// the job recorded its target node in an EARLIER reconcile; pod or reservation changed since
			w.h.Fail("C17:evict-unsecured:same-node:node-check-stale", "Evict called while the reservation sits on the pod's own node %q (the same-node check was made in an earlier reconcile, job.Status.NodeName=%q)", pod.Spec.NodeName, w.nodeBefore)
			if !w.anyFault {
				w.h.Tag("note:node-check-stale-in-a-fault-free-history")
			}
		} else {
			// the job had no recorded node when this reconcile started: the same-node check belongs to this very reconcile
			// (also when a pod Get failed on the way: a failed read must not skip the gate — repaired by 5fb78f6)
			w.h.Fail("C17:evict-unsecured:same-node", "Evict called while the reservation sits on the pod's own node %q (pod Get failed in this reconcile: %v)", pod.Spec.NodeName, w.podReadFailed)
		}
	}
	if r.Status.Phase == sev1alpha1.ReservationSucceeded {
		if len(r.Status.CurrentOwners) == 0 || r.Status.CurrentOwners[0].UID != pod.UID {
			w.h.Fail("C17:evict-unsecured:bound-other", "Evict called while the reservation is consumed by another pod")
		}
	} else if len(r.Status.CurrentOwners) > 0 && r.Status.CurrentOwners[0].UID != pod.UID {
		// "bound to some other pod" read off the current owners, not only off the phase
		if !c17EffAO(r) {
			// a reusable reservation stays Available while a sibling pod holds it (syncStatus)
			w.h.Fail("C17:evict-unsecured:bound-other", "Evict called while the (reusable, allocateOnce=false) reservation is held by another pod %q (phase %q)", r.Status.CurrentOwners[0].UID, r.Status.Phase)
		} else {
			// an allocate-once reservation with a current owner that is not Succeeded: a state the scheduler's syncStatus never
			// writes (owners and Succeeded go in one status update); only the generator's odd-state events make it
			w.h.Tag("evict:owner-on-allocate-once-not-succeeded(unreachable-scheduler-state)")
		}
	}
}

// oracleWritten: the reservation a migration job creates must be allocate-once (a reusable one could be handed to a sibling
// pod and still look Available to the controller); evaluated on the object read back from the API server.
func (w *c17World) oracleWritten(created bool) {
	r := w.getResv()
	if r == nil || !created {
		return
	}
	if !c17EffAO(r) {
		w.h.Fail("C17:reservation-not-allocate-once", "the migration controller wrote Reservation %s with spec.allocateOnce=false (template allocateOnce code %d)", r.Name, w.tmplAO())
	}
}

func (w *c17World) tmplAO() int {
	if w.tm == nil {
		return -1
	}
	return w.tm.ao
}

// ---------- one reconcile ----------

func (w *c17World) reconcile(faults uint64) {
	w.reconcileOp(faults, fmt.Sprintf("rec %d", faults))
}

// reconcileX: one reconcile in extended mode: write-fault mask, read-fault mask, scripted events inside the reconcile.
func (w *c17World) reconcileX(faults, rfault uint64, script []c17Ev) {
	w.xmode = true
	w.rfault, w.nr, w.nc, w.script = rfault, 0, 0, script
	w.midFired, w.lookFailed, w.pendingNF, w.podReadFailed = false, false, false, false
	toks := []int64{int64(faults), int64(rfault), int64(len(script))}
	for _, e := range script {
		toks = append(toks, e.tokens()...)
	}
	if rfault != 0 || len(script) > 0 {
		w.xDisturbed = true
	}
	w.reconcileOp(faults, "recx "+vInts(toks))
	w.xmode = false
	if rfault != 0 {
		w.h.Tag("recx:read-fault-mask-set")
	}
}

// reconcileLag: one reconcile whose job Get is answered by a lagging informer cache (k versions back).
func (w *c17World) reconcileLag(k int, faults uint64) {
	w.lagK, w.lagServed, w.lagOp = k, 0, true
	w.reconcileOp(faults, fmt.Sprintf("lagrec %d %d", k, faults))
	w.lagK, w.lagOp = 0, false
}

func (w *c17World) reconcileOp(faults uint64, opLine string) {
	h := w.h
	before := w.getJob()
	resvBefore := w.getResv()
	podBefore := w.curPod()
	w.faults, w.nw, w.acts = faults, 0, w.acts[:0]
	w.evictFailed = false
	w.nodeBefore = before.Status.NodeName
	if _, c := utilGetCond(&before.Status, sev1alpha1.PodMigrationJobConditionReservationScheduled); c != nil && c.Status == sev1alpha1.PodMigrationJobConditionStatusTrue && w.nodeBefore == "" {
		w.nodeBefore = "(ReservationScheduled=True)"
	}
	h.Op("%s", opLine)
	panicked := h.Guard(func() {
		_, _ = w.r.Reconcile(context.TODO(), reconcile.Request{NamespacedName: types.NamespacedName{Name: c17JobName}})
	})
	if panicked {
		h.Obs("panic")
		return
	}
	faultHit := false
	for i := 1; i+1 < len(w.acts); i += 3 {
		switch k := w.acts[i-1]; {
		case k >= 8: // a read: NotFound is an answer, not a failure
			if w.acts[i+1] == 2 {
				faultHit = true
				h.Tag(fmt.Sprintf("rec:read-failed:kind=%d", k))
			}
		case k != 7 && w.acts[i] == 0:
			faultHit = true
		}
	}
	if w.midFired {
		h.Tag("rec:mid-event-fired")
	}
	job := w.getJob()
	st := job.Status
	h.Obs("job %d %d %d %d %d %d %d", c17PhaseCode(st.Phase), c17StatusCode(st.Status), c17ReasonCode(st.Reason),
		c17Code(st.NodeName, "n"), vB(st.PodRef != nil), c17Code(string(job.Spec.PodRef.UID), "u"),
		vB(job.Spec.ReservationOptions != nil && job.Spec.ReservationOptions.ReservationRef != nil))
	conds := make([]int64, 0, 4*len(st.Conditions))
	for _, c := range st.Conditions {
		conds = append(conds, int64(c17CondTypes[c.Type]), int64(vB(c.Status == sev1alpha1.PodMigrationJobConditionStatusTrue)),
			int64(c17ReasonCode(c.Reason)), int64(c17Msg(c.Message)))
	}
	h.Obs("%s", strings.TrimSpace("conds "+vInts(conds)))
	h.Obs("%s", strings.TrimSpace("acts "+vInts(w.acts)))
	rv := w.curResv()
	if rv == nil {
		h.Obs("resv 0 0 0")
	} else {
		h.Obs("resv 1 %d %d", vB(rv.pendingMode), vB(rv.orderLabel))
	}
	// the Reservation this reconcile WROTE (created), read back from the API server
	created := false
	if now := w.getResv(); resvBefore == nil && now != nil && now.Labels[reservation.LabelCreatedBy] == reservation.DefaultCreator {
		created = true
		h.Tag(fmt.Sprintf("created-reservation:template-allocate-once-code=%d", w.tmplAO()))
		if !w.xmode {
			ao, ttl, owners := 0, 0, 0
			if now.Spec.AllocateOnce != nil {
				ao = 2 - vB(*now.Spec.AllocateOnce)
			}
			if now.Spec.TTL != nil {
				ttl = int(now.Spec.TTL.Duration/time.Second) + 1
			}
			for _, o := range now.Spec.Owners {
				switch {
				case o.Object != nil && o.Controller == nil && o.LabelSelector == nil:
					owners = 2
				case o.Controller != nil && owners == 0:
					owners = 1
				}
			}
			nodeCleared, userTmpl, skip := false, false, false
			if t := now.Spec.Template; t != nil {
				nodeCleared = t.Spec.NodeName == ""
				userTmpl = t.Labels[c17TmplLabel] == "1"
				if a := t.Spec.Affinity; podBefore != nil && a != nil && a.NodeAffinity != nil && a.NodeAffinity.RequiredDuringSchedulingIgnoredDuringExecution != nil {
					for _, term := range a.NodeAffinity.RequiredDuringSchedulingIgnoredDuringExecution.NodeSelectorTerms {
						for _, m := range term.MatchFields {
							if m.Key == "metadata.name" && m.Operator == corev1.NodeSelectorOpNotIn && len(m.Values) == 1 && m.Values[0] == c17Name("n", podBefore.node) {
								skip = true
							}
						}
					}
				}
			}
			_, order := now.Labels[extension.LabelReservationOrder]
			h.Obs("wresv %d %d %d %d %d %d %d %d %d %d", ao, ttl, vB(now.Spec.Expires != nil), owners, 1, vB(order),
				vB(now.Labels[c17UserLabel] == "1"), vB(nodeCleared), vB(userTmpl), vB(skip))
		}
	}
	w.oracleWritten(created)
	if w.lagOp {
		h.Obs("lag %d", w.lagServed)
		if w.lagServed > 0 {
			h.Tag(fmt.Sprintf("lag:served-%d-back/acted=%v", w.lagServed, len(w.acts) > 0))
		}
	}
	if len(w.acts) > 0 {
		h.Nontrivial()
	}
	h.Tag(fmt.Sprintf("after-rec:phase=%s/status=%s/reason=%s", st.Phase, st.Status, st.Reason))
	if faultHit {
		h.Tag("rec:fault-hit")
	}
	if !w.direct && resvBefore == nil && refName0(before) != "" && !before.Spec.Paused && len(w.acts) == 0 &&
		(before.Status.Phase == sev1alpha1.PodMigrationJobRunning) && string(st.Phase) == string(before.Status.Phase) {
		h.Tag("note:referenced-reservation-missing-but-job-not-aborted(setReservationOrder-returns-NotFound-first)")
	}

	// ----- oracle, clauses 2 and 3 (clause 1 and 4 are evaluated inside the evictor) -----
	terminal := func(p sev1alpha1.PodMigrationJobPhase) bool {
		return p == sev1alpha1.PodMigrationJobSucceeded || p == sev1alpha1.PodMigrationJobFailed
	}
	if w.termPhase != "" {
		if string(st.Phase) != w.termPhase {
			h.Fail("C17:terminal-phase-changed", "job was %s, is %q after a later reconcile", w.termPhase, st.Phase)
		}
		for i := 0; i+2 < len(w.acts); i += 3 {
			if w.acts[i] == 3 {
				h.Fail("C17:terminal-acted:reservation", "a reservation was created although the job was already %s", w.termPhase)
			}
		}
	}
	ignored := false
	if by, ok := before.Annotations[AnnotationJobCreatedBy]; ok && by != string(w.r.reconcilerUID) {
		ignored = true
	}
	refName := func(j *sev1alpha1.PodMigrationJob) string {
		if j.Spec.ReservationOptions != nil && j.Spec.ReservationOptions.ReservationRef != nil {
			return j.Spec.ReservationOptions.ReservationRef.Name
		}
		return ""
	}
	wasLive := !terminal(before.Status.Phase) && before.Status.Phase != sev1alpha1.PodMigrationJobAborted
	becameTimeout := wasLive && st.Phase == sev1alpha1.PodMigrationJobFailed && st.Reason == sev1alpha1.PodMigrationJobReasonTimeout
	expiredNow := w.ttl > 0 && w.now >= w.ttl
	// (a reconcile that was served a stale job by a lagging informer and declined to act owes nothing: the requeue will)
	staleDeclined := w.lagOp && w.lagServed > 0 && len(w.acts) == 0
	if becameTimeout || (expiredNow && wasLive && !before.Spec.Paused && !ignored && !faultHit && !staleDeclined) {
		h.Tag("ttl:expired-reconciled")
		if w.midFired {
			// the environment (re-)created / changed the reservation inside this very reconcile: nothing to demand
			h.Tag("ttl:expired-reconciled-with-mid-event")
		} else if name := refName(job); name != "" && w.getResv() != nil {
			h.Fail("C17:expired-keeps-reservation", "job past its TTL (now %d >= ttl %d, phase %q reason %q) but its reservation %s still exists", w.now, w.ttl, st.Phase, st.Reason, name)
		}
		if rv := w.getResv(); refName(job) == "" && refName(before) == "" && !w.midFired && rv != nil && rv.Name == string(job.UID) &&
			rv.Labels[reservation.LabelCreatedBy] == reservation.DefaultCreator {
			// open known finding: the reservation was created by this job (named after the job UID, created-by label), the
			// write of the ReservationRef failed, and the TTL passed before the next reconcile could re-adopt it
			h.Fail("C17:expired-keeps-reservation:ref-write-failed", "job past its TTL (now %d >= ttl %d, phase %q reason %q) has no ReservationRef, the reservation %s it created still exists", w.now, w.ttl, st.Phase, st.Reason, rv.Name)
		}
		if !becameTimeout && !terminal(st.Phase) {
			h.Tag("note:ttl-passed-but-not-failed")
		}
	}
	if terminal(st.Phase) && w.termPhase == "" {
		w.termPhase = string(st.Phase)
	}
	if faultHit {
		w.anyFault = true
	}
}

// ---------- generator ----------

func c17GenFaults(r *vRand, faultFree bool) uint64 {
	if faultFree {
		return 0
	}
	switch r.Intn(10) {
	case 0, 1, 2, 3, 4, 5:
		return 0
	case 6, 7:
		return 1 << uint(r.Intn(4))
	case 8:
		return uint64(r.Intn(32))
	default:
		return 1<<uint(r.Intn(3)) | 1<<uint(r.Intn(6))
	}
}

func (w *c17World) envEvent(r *vRand, helpful bool) {
	h := w.h
	rv := w.curResv()
	pod := w.curPod()
	job := w.getJob()
	podNode := 1
	if pod != nil && pod.node != 0 {
		podNode = pod.node
	}
	otherNode := podNode%3 + 1
	if w.evictFailed && rv != nil && rv.node != 0 && r.Chance(1, 2) {
		// adversarial: the eviction call just failed; before the retry the pod is replaced by a same-name pod on the
		// reservation's node, or the reservation is re-scheduled onto the pod's node
		if r.Bool() || pod == nil {
			uid := 5
			if pod != nil {
				uid = pod.uid%6 + 1
			}
			w.setPod(&c17Pod{uid: uid, node: rv.node, sched: 2})
			h.Tag("env:pod-replaced-on-reservation-node")
		} else {
			rv.node = podNode
			w.setResv(rv)
			h.Tag("env:resv-moved-to-pod-node")
		}
		return
	}
	if helpful {
		// push the job forward along the happy path
		_, ev := utilGetCond(&job.Status, sev1alpha1.PodMigrationJobConditionEviction)
		switch {
		case rv != nil && (rv.phase == 0 || rv.phase == 1):
			rv.phase, rv.node, rv.sched, rv.msg = 2, otherNode, 1, 0
			w.setResv(rv)
			h.Tag("env:resv-scheduled")
			return
		case rv != nil && rv.sched == 3 && ev == nil && r.Chance(1, 2):
			rv.needPreempt, rv.phase = true, 2
			w.setResv(rv)
			w.preempt = 2
			if r.Chance(1, 4) {
				w.preempt = r.Range(1, 3)
			}
			h.Op("preempt %d", w.preempt)
			h.Tag("env:preempt")
			return
		case ev != nil && ev.Status == sev1alpha1.PodMigrationJobConditionStatusFalse && pod != nil:
			w.setPod(nil)
			h.Tag("env:pod-deleted")
			return
		case ev != nil && rv != nil && rv.owner == 0:
			rv.owner, rv.phase = 7, 3
			if r.Chance(1, 4) {
				rv.phase = 2
			}
			w.setResv(rv)
			w.setBPod(r.Range(0, 2))
			h.Tag("env:resv-bound")
			return
		case ev != nil && rv != nil && rv.owner != 0:
			w.setBPod(2)
			h.Tag("env:bound-pod-ready")
			return
		}
	}
	switch r.Intn(20) {
	case 0, 1: // time
		d := r.Range(1, 120)
		if w.ttl > 0 && r.Chance(1, 2) {
			d = w.ttl
		}
		w.now += d
		w.clk.Step(time.Duration(d) * time.Second)
		h.Op("tick %d", d)
		h.Tag("env:tick")
	case 2: // pod deleted
		w.setPod(nil)
		h.Tag("env:pod-deleted")
	case 3, 4: // pod replaced (same name, new uid) or re-created
		uid := r.Range(1, 4)
		if pod != nil && uid == pod.uid {
			uid = pod.uid + 1
		}
		np := &c17Pod{uid: uid, node: r.Range(0, 3), pending: r.Chance(1, 4)}
		if np.pending && r.Bool() {
			np.node, np.sched, np.msg = 0, 1, r.Range(0, 3)
		} else if r.Bool() {
			np.sched = 2
		}
		w.setPod(np)
		h.Tag("env:pod-replaced")
	case 5: // reservation deleted
		w.setResv(nil)
		h.Tag("env:resv-deleted")
	case 6, 7: // scheduled on some node (sometimes the pod's own)
		if rv == nil {
			rv = &c17Resv{orderLabel: r.Bool(), pendingMode: r.Chance(1, 5)}
		}
		rv.phase, rv.sched, rv.msg = 2, 1, 0
		rv.node = otherNode
		if r.Chance(1, 4) {
			rv.node = r.Range(1, 3)
		}
		if r.Chance(1, 10) {
			rv.phase = 5 // Waiting
		}
		w.setResv(rv)
		h.Tag("env:resv-scheduled")
	case 8, 9: // unschedulable
		if rv == nil {
			rv = &c17Resv{orderLabel: r.Bool()}
		}
		rv.sched, rv.msg, rv.node = 3, r.Range(0, 3), 0
		rv.phase = []int{1, 1, 4, 2}[r.Intn(4)]
		rv.needPreempt = r.Chance(1, 3)
		w.setResv(rv)
		h.Tag("env:resv-unschedulable")
	case 10: // expired
		if rv == nil {
			rv = &c17Resv{orderLabel: true}
		}
		rv.phase, rv.expired = 4, true
		if r.Chance(1, 6) {
			rv.phase = 2 // stale Expired condition on a non-failed reservation
		}
		w.setResv(rv)
		h.Tag("env:resv-expired")
	case 11, 12: // bound
		if rv == nil {
			rv = &c17Resv{orderLabel: true, node: otherNode, sched: 1}
		}
		rv.phase = 3
		rv.owner = r.Range(1, 7)
		if r.Chance(1, 5) {
			rv.phase = 2
		}
		if r.Chance(1, 8) {
			rv.owner = 0
		}
		w.setResv(rv)
		h.Tag("env:resv-bound")
	case 13: // odd reservation states: failed but not expired, scheduled cond false, node without condition ...
		if rv == nil {
			rv = &c17Resv{}
		}
		rv.phase = r.Range(0, 5)
		rv.sched = r.Range(0, 3)
		rv.node = r.Range(0, 3)
		rv.msg = r.Range(0, 3)
		rv.expired = r.Chance(1, 4)
		rv.orderLabel = r.Bool()
		w.setResv(rv)
		h.Tag("env:resv-odd")
	case 14:
		w.setBPod(r.Range(0, 2))
		h.Tag("env:bound-pod")
	case 15:
		if w.noJobEnv {
			w.consume(r.Range(7, 9))
			return
		}
		job.Spec.Paused = !job.Spec.Paused
		w.must(w.base.Update(context.TODO(), job), "pause job")
		h.Op("pause %d", vB(job.Spec.Paused))
		h.Tag("env:pause")
	case 16:
		w.limited = !w.limited
		w.applyLimit()
		h.Op("limit %d", vB(w.limited))
		h.Tag("env:limit")
	case 17, 18:
		w.preempt = r.Range(0, 3)
		if r.Bool() {
			w.preempt = 2
		}
		h.Op("preempt %d", w.preempt)
		if rv != nil && r.Bool() {
			rv.needPreempt = true
			w.setResv(rv)
		}
		h.Tag("env:preempt")
	default:
		if r.Chance(1, 3) {
			w.ctrlUID = r.Range(1, 2)
		}
		w.newReconciler()
		h.Op("restart %d", w.ctrlUID)
		h.Tag("env:restart")
	}
}

func refName0(j *sev1alpha1.PodMigrationJob) string {
	if j.Spec.ReservationOptions != nil && j.Spec.ReservationOptions.ReservationRef != nil {
		return j.Spec.ReservationOptions.ReservationRef.Name
	}
	return ""
}

// utilGetCond: local copy of the trivial lookup so that the generator does not depend on the code under test.
func utilGetCond(st *sev1alpha1.PodMigrationJobStatus, t sev1alpha1.PodMigrationJobConditionType) (int, *sev1alpha1.PodMigrationJobCondition) {
	for i := range st.Conditions {
		if st.Conditions[i].Type == t {
			return i, &st.Conditions[i]
		}
	}
	return -1, nil
}

var c17Modes = []sev1alpha1.PodMigrationJobMode{"", sev1alpha1.PodMigrationJobModeReservationFirst, sev1alpha1.PodMigrationJobModeEvictionDirectly}

func c17ModeCode(m sev1alpha1.PodMigrationJobMode) int {
	for i, x := range c17Modes {
		if x == m {
			return i
		}
	}
	return 1
}

// c17GenModes: Spec.Mode x args.DefaultJobMode (codes 0 "", 1 ReservationFirst, 2 EvictDirectly); a quarter of the
// jobs get their mode the way CreatePodMigrationJob does: the default, overridden by JobContext.Mode.
func c17GenModes(r *vRand) (specMode, dflt, ctxMode int, viaCtx bool) {
	dflt = []int{1, 1, 1, 0, 2, 2}[r.Intn(6)]
	if r.Chance(1, 4) {
		viaCtx, ctxMode = true, r.Intn(3)
		specMode = ctxMode
		if ctxMode == 0 {
			specMode = dflt
		}
		return
	}
	specMode = []int{0, 0, 1, 1, 1, 2}[r.Intn(6)]
	return
}

const c17ResvUID = "c17-resv-uid"

// c17Ref: the shapes a ReservationRef takes: name only (user-written), namespace+name, full reference with the
// live uid (what the controller writes), full reference with a stale uid.
func c17Ref(shape int) *corev1.ObjectReference {
	switch shape {
	case 1:
		return &corev1.ObjectReference{Namespace: c17NS, Name: c17ResvName}
	case 2:
		return &corev1.ObjectReference{Kind: "Reservation", APIVersion: "v1alpha1", Name: c17ResvName, UID: c17ResvUID}
	case 3:
		return &corev1.ObjectReference{Kind: "Reservation", APIVersion: "v1alpha1", Name: c17ResvName, UID: "c17-stale-uid"}
	}
	return &corev1.ObjectReference{Name: c17ResvName}
}

// c17InitCase builds one case: an empty fake API server, the job (mode x default mode, TTL, PodRef, ReservationRef
// shape, annotations, initial status), the reconciler, the initial pod and reservation.  `fix` (optional) pins
// choices for the directed / exhaustive streams.
type c17Fix struct {
	fresh    bool // reservation-first, explicit mode, TTL 300, valid PodRef, no ref, phase "", pod on node 1, no reservation
	midway   bool // like fresh but Running with a ReservationRef and an existing pending reservation
	refShape int
	tm       *c17Tmpl // the job's own reservation template (fresh only)
	lag      bool     // lagging-informer mode: job versions are recorded, the environment never writes the job
}

func c17InitCase(h *vHarness, r *vRand, tmpl *Reconciler, base client.WithWatch, fix *c17Fix) *c17World {
	w := &c17World{h: h, tmpl: tmpl}
	if fix != nil && fix.lag {
		w.lagMode, w.noJobEnv = true, true
		if !fix.fresh && !fix.midway {
			fix = nil
		}
	}
	// one fake API server for the whole run (building one costs ~20 ms); every case starts from an empty one
	w.base = base
	for _, o := range []client.Object{
		&sev1alpha1.PodMigrationJob{ObjectMeta: metav1.ObjectMeta{Name: c17JobName}},
		&sev1alpha1.Reservation{ObjectMeta: metav1.ObjectMeta{Name: c17ResvName}},
		&corev1.Pod{ObjectMeta: metav1.ObjectMeta{Namespace: c17NS, Name: c17PodName}},
		&corev1.Pod{ObjectMeta: metav1.ObjectMeta{Namespace: c17NS, Name: c17BPodName}},
	} {
		if err := base.Delete(context.TODO(), o); err != nil && !apierrors.IsNotFound(err) {
			panic(err)
		}
	}
	w.cl = interceptor.NewClient(w.base, w.funcs())
	w.clk = fakeclock.NewFakeClock(c17T0)

	// ----- the job -----
	specMode, dflt, ctxMode, viaCtx := c17GenModes(r)
	if r.Chance(2, 3) {
		w.ttl = r.Range(60, 600)
	}
	podRefValid := !r.Chance(1, 30)
	podUID := 0
	if r.Bool() {
		podUID = 1
	}
	resvRef := r.Chance(1, 6)
	refShape := r.Intn(4)
	evictAnno := r.Chance(1, 8)
	w.ctrlUID = 1
	createdBy := []int{0, 0, 0, 1, 1, 2}[r.Intn(6)]
	var tm *c17Tmpl
	if r.Chance(1, 4) {
		tm = c17GenTmpl(r)
	}
	if fix != nil && (fix.fresh || fix.midway) {
		tm = fix.tm
		specMode, dflt, viaCtx = 1, r.Range(0, 2), false
		w.ttl, podRefValid, podUID, resvRef, evictAnno, createdBy = 300, true, 0, fix.midway, false, 0
		refShape = fix.refShape
	}
	w.dfltMode = dflt
	// the documented rule: an explicit mode wins, an empty mode takes the configured default
	w.direct = specMode == 2 || (specMode == 0 && dflt == 2)
	job := &sev1alpha1.PodMigrationJob{
		ObjectMeta: metav1.ObjectMeta{Name: c17JobName, UID: c17ResvName, CreationTimestamp: metav1.Time{Time: c17T0}, Annotations: map[string]string{}},
		Spec: sev1alpha1.PodMigrationJobSpec{
			PodRef: &corev1.ObjectReference{Namespace: c17NS, Name: c17PodName, UID: types.UID(c17Name("u", podUID))},
		},
	}
	if !podRefValid {
		job.Spec.PodRef.Name = ""
	}
	if viaCtx {
		// a job created by the controller itself (CreatePodMigrationJob): the configured default, overridden by the JobContext
		job.Spec.Mode = c17Modes[dflt]
		if err := (&JobContext{Mode: c17Modes[ctxMode]}).ApplyTo(job); err != nil {
			panic(err)
		}
		h.Tag("init:mode-via-job-context")
	} else {
		job.Spec.Mode = c17Modes[specMode]
	}
	if w.ttl > 0 {
		job.Spec.TTL = &metav1.Duration{Duration: time.Duration(w.ttl) * time.Second}
	} else if r.Bool() {
		job.Spec.TTL = &metav1.Duration{}
	}
	if resvRef {
		tm = nil
		job.Spec.ReservationOptions = &sev1alpha1.PodMigrateReservationOptions{ReservationRef: c17Ref(refShape)}
		h.Tag(fmt.Sprintf("init:ref-shape=%d", refShape))
	} else if tm != nil {
		job.Spec.ReservationOptions = &sev1alpha1.PodMigrateReservationOptions{Template: tm.build()}
		h.Tag(fmt.Sprintf("init:template/allocate-once-code=%d", tm.ao))
	}
	w.tm = tm
	if evictAnno {
		job.Annotations[evictionsutil.EvictPodAnnotationKey] = "true"
	}
	if createdBy != 0 {
		job.Annotations[AnnotationJobCreatedBy] = fmt.Sprintf("c%d", createdBy)
	}
	w.must(w.base.Create(context.TODO(), job), "create job")
	// initial status: fresh, mid-flight, or already terminal
	var st sev1alpha1.PodMigrationJobStatus
	k := r.Intn(20)
	if fix != nil && fix.fresh {
		k = 0
	} else if fix != nil && fix.midway {
		k = 12
	}
	switch {
	case k < 12 && fix != nil && (fix.fresh || fix.midway):
	case k < 12:
		if r.Bool() && podRefValid {
			st.Phase = sev1alpha1.PodMigrationJobPending
		}
	case k < 18 && podRefValid:
		st.Phase = sev1alpha1.PodMigrationJobRunning
		// conditions a live job can carry (as the controller writes them).  Never ReservationScheduled=True /
		// Status.NodeName (they record a same-node check made against an environment this history does not
		// know) and never PodBoundReservation=True / PodScheduled=True (only written together with Succeeded).
		type tc struct {
			t      int
			st     bool
			reason string
			msg    int
		}
		menu := []tc{{1, true, "", 0}, {1, false, sev1alpha1.PodMigrationJobReasonFailedCreateReservation, 0},
			{2, false, sev1alpha1.PodMigrationJobReasonUnschedulable, r.Range(0, 3)},
			{4, false, sev1alpha1.PodMigrationJobReasonEvicting, 0}, {4, true, sev1alpha1.PodMigrationJobReasonEvictComplete, 0},
			{5, false, sev1alpha1.PodMigrationJobReasonUnschedulable, r.Range(0, 3)},
			{6, false, sev1alpha1.PodMigrationJobReasonWaitForPodBindReservation, 0}, {8, true, "", 0},
			{7, false, sev1alpha1.PodMigrationJobReasonWaitForBoundPodReady, 0}, {7, true, "", 0}}
		nc := r.Range(0, 3)
		if fix != nil && fix.midway {
			nc = 0
		}
		for i := 0; i < nc; i++ {
			m := menu[r.Intn(len(menu))]
			c := sev1alpha1.PodMigrationJobCondition{Type: c17CondTypeOf(m.t), Status: sev1alpha1.PodMigrationJobConditionStatusFalse,
				Reason: m.reason, Message: c17Name("m", m.msg)}
			if m.st {
				c.Status = sev1alpha1.PodMigrationJobConditionStatusTrue
			}
			if m.reason == sev1alpha1.PodMigrationJobReasonFailedCreateReservation {
				// the text the controller itself writes for the (only) create error of this harness
				c.Message = fmt.Sprintf("Failed to create Reservation caused by %v", c17ErrInjected)
			}
			if _, old := utilGetCond(&st, c.Type); old == nil {
				st.Conditions = append(st.Conditions, c)
			}
		}
		if len(st.Conditions) > 0 {
			st.Status = string(st.Conditions[len(st.Conditions)-1].Type)
			st.Reason = st.Conditions[len(st.Conditions)-1].Reason
		}
	case podRefValid:
		st.Phase = c17Phases[r.Range(3, 5)]
		st.Reason = c17ReasonOf(r.Range(0, 7))
	}
	job.Status = st
	w.must(w.base.Status().Update(context.TODO(), job), "init job status")
	job = w.getJob()
	if !job.CreationTimestamp.Time.Equal(c17T0) {
		panic("c17 harness: fake client did not keep the creation timestamp")
	}
	if sev1alpha1.PodMigrationJobPhase(st.Phase) == sev1alpha1.PodMigrationJobSucceeded || st.Phase == sev1alpha1.PodMigrationJobFailed {
		w.termPhase = string(st.Phase)
	}
	flat := []int64{}
	for _, c := range st.Conditions {
		flat = append(flat, int64(c17CondTypes[c.Type]), int64(vB(c.Status == sev1alpha1.PodMigrationJobConditionStatusTrue)),
			int64(c17ReasonCode(c.Reason)), int64(c17Msg(c.Message)))
	}
	h.Op("%s", strings.TrimSpace(fmt.Sprintf("init %d %d %d %d %d %d %d %d %d %d %d %d %d %d %s",
		0, 10+c17ModeCode(job.Spec.Mode)+3*dflt, w.ttl, vB(podRefValid), podUID, vB(resvRef), vB(evictAnno), createdBy,
		c17PhaseCode(st.Phase), c17StatusCode(st.Status), c17ReasonCode(st.Reason), c17Code(st.NodeName, "n"), 0, len(st.Conditions), vInts(flat))))
	if tm != nil {
		h.Op("tmpl %d %d %d %d %d %d %d", tm.ao, vB(tm.name), tm.ttl, vB(tm.expires), vB(tm.userLabel), vB(tm.createdBy), vB(tm.podTmpl))
	}
	w.newReconciler()
	h.Op("restart %d", w.ctrlUID)
	h.Tag(fmt.Sprintf("init:phase=%s", st.Phase))
	h.Tag(fmt.Sprintf("init:direct=%v", w.direct))
	h.Tag(fmt.Sprintf("init:mode=%q/default=%q", job.Spec.Mode, c17Modes[dflt]))
	w.arbCopy = w.getJob()

	// ----- initial environment -----
	if fix != nil && (fix.fresh || fix.midway) {
		w.setPod(&c17Pod{uid: 1, node: 1})
		if fix.midway {
			w.setResv(&c17Resv{phase: 1, orderLabel: true})
		}
		return w
	}
	if !r.Chance(1, 12) {
		p := &c17Pod{uid: 1, node: r.Range(1, 3)}
		if r.Chance(1, 6) {
			p.pending, p.node, p.sched, p.msg = true, 0, 1, r.Range(0, 3)
		}
		w.setPod(p)
	}
	if resvRef || r.Chance(1, 10) {
		if !r.Chance(1, 5) {
			w.setResv(&c17Resv{phase: r.Range(0, 1), orderLabel: r.Bool(), pendingMode: r.Chance(1, 6)})
		}
	}

	return w
}

// c17Setup: quiet klog, the package's own fixture, one fake API server with a status subresource for the job.
func c17Setup() (*Reconciler, client.WithWatch) {
	klog.LogToStderr(false)
	klog.SetOutput(io.Discard)
	fs := flag.NewFlagSet("klog", flag.ContinueOnError)
	klog.InitFlags(fs)
	_ = fs.Set("logtostderr", "false")
	_ = fs.Set("stderrthreshold", "FATAL")

	tmpl := newTestReconciler()
	scheme := tmpl.Client.Scheme()
	// plain object tracker: the default field-managed tracker rebuilds a REST mapper on every write (40% of the run
	// time) and managed fields are irrelevant here; update / status-subresource semantics are the fake client's own
	tracker := clienttesting.NewObjectTracker(scheme, serializer.NewCodecFactory(scheme).UniversalDecoder())
	base := fake.NewClientBuilder().WithStatusSubresource(&sev1alpha1.PodMigrationJob{}).WithScheme(scheme).WithObjectTracker(tracker).Build()
	return tmpl, base
}

func TestVerifC17(t *testing.T) {
	h := vOpen("C17")
	if h == nil {
		t.Skip("VERIF_OUT not set")
	}
	tmpl, base := c17Setup()
	n := h.N(6000, 120000)
	for idx := 0; idx < n; idx++ {
		r := h.Begin(idx)
		if r == nil {
			continue
		}
		var w *c17World
		faultFree := r.Bool()
		if idx%8 == 5 {
			// directed: a fresh job with its OWN reservation template; the controller creates the reservation, the scheduler
			// (played faithfully) schedules it on another node, and a SIBLING pod consumes it before / after the eviction
			w = c17InitCase(h, r, tmpl, base, &c17Fix{fresh: true, tm: c17GenTmpl(r)})
			w.reconcile(c17GenFaults(r, faultFree || r.Chance(2, 3)))
			if w.getResv() == nil {
				w.reconcile(0)
			}
			if rv := w.curResv(); rv != nil {
				rv.phase, rv.node, rv.sched, rv.msg = 2, 2, 1, 0
				w.setResv(rv)
				if r.Chance(2, 3) {
					w.consume(r.Range(7, 9))
				}
			}
			for s, steps := 0, r.Range(2, 7); s < steps; s++ {
				switch c := r.Intn(10); {
				case c < 6:
					w.reconcile(c17GenFaults(r, faultFree))
				case c < 8:
					w.consume(r.Range(7, 9))
				default:
					w.envEvent(r, r.Bool())
				}
			}
			h.Tag("stream:directed-template")
		} else {
			w = c17InitCase(h, r, tmpl, base, nil)

			// ----- the history -----
			helpful := r.Chance(2, 3)
			steps := r.Range(4, 16)
			for s := 0; s < steps; s++ {
				switch c := r.Intn(40); {
				case c < 22:
					w.reconcile(c17GenFaults(r, faultFree))
				case c < 24:
					w.consume(r.Range(7, 9))
				default:
					w.envEvent(r, helpful && r.Chance(3, 4))
				}
			}
		}
		w.reconcile(c17GenFaults(r, faultFree))
		if faultFree {
			h.Tag("history:fault-free")
		}
		h.Tag(fmt.Sprintf("history:evict-calls=%d", w.evictCalls))
		h.Tag(fmt.Sprintf("history:restricted-events=%v/evicted=%v", !w.unrestricted, w.evictCalls > 0))
		h.Tag("history:final-phase=" + string(w.getJob().Status.Phase))
		h.End()
	}
	h.Close("one history of one PodMigrationJob (direct / reservation-first, TTL, preset ref/uid/annotations, fresh / mid-flight / terminal initial status) of 5-17 steps: " +
		"Reconcile with a write-fault mask (job update, status update, reservation create/update/delete, evict; half of the histories fault-free) interleaved with environment events " +
		"(reservation scheduled on another/the same node, unschedulable, expired, deleted, bound, odd states; pod deleted/replaced/pending; bound pod readiness; clock past TTL; pause; limiter; preemption script; controller restart with same/new uid), " +
		"2/3 of the histories steered along the happy path; 1/4 of the jobs without a ReservationRef carry their OWN reservation template (allocateOnce nil/true/false, name, TTL, Expires, labels, pod template) and 1/8 of the cases are directed template histories " +
		"(the controller creates the reservation, the scheduler - played faithfully: owner + Succeeded iff allocate-once - schedules it and lets a sibling pod consume it before / after the eviction); the Reservation WRITTEN by a creating reconcile is read back and observed; " +
		"non-trivial = at least one reconcile issued a write; distinct by op lines")
}

// TestVerifC17Lag: the informer cache the controller reads the job from LAGS.  Every version of the job the controller
// writes is recorded; a `lagrec k f` reconcile is served the version k writes back (never older than the version the
// running controller instance started from: a restarted controller LISTs).  The environment never writes the job object.
func TestVerifC17Lag(t *testing.T) {
	h := vOpen("C17")
	if h == nil {
		t.Skip("VERIF_OUT not set")
	}
	tmpl, base := c17Setup()
	n := h.N(3000, 40000)
	genK := func(r *vRand) int { return []int{0, 0, 0, 1, 1, 2, 3}[r.Intn(7)] }
	for idx := 0; idx < n; idx++ {
		r := h.Begin(idx)
		if r == nil {
			continue
		}
		var w *c17World
		faultFree := r.Chance(2, 3)
		switch idx % 3 {
		case 0:
			// directed: a job half way, its reservation just scheduled on another node: the evicting pass makes up to three
			// status writes (ReservationCreated, ReservationScheduled + node, Evicting); the next reconciles are served 1..3 back
			w = c17InitCase(h, r, tmpl, base, &c17Fix{midway: true, refShape: r.Intn(4), lag: true})
			if r.Chance(1, 3) {
				w.reconcileLag(0, 0) // ReservationCreated written in a pass of its own (reservation still pending)
			}
			w.setResv(&c17Resv{phase: 2, node: 2, sched: 1, orderLabel: r.Chance(3, 4)})
			w.reconcileLag(0, c17GenFaults(r, faultFree))
			for s, steps := 0, r.Range(1, 3); s < steps; s++ {
				w.reconcileLag(r.Range(1, 3), 0)
			}
			h.Tag("stream:directed-lag-after-evicting-pass")
		case 1:
			// directed: a fresh job (with or without its own template): create, schedule, evict, each followed by lagging reads
			fx := &c17Fix{fresh: true, lag: true}
			if r.Bool() {
				fx.tm = c17GenTmpl(r)
			}
			w = c17InitCase(h, r, tmpl, base, fx)
			w.reconcileLag(0, c17GenFaults(r, faultFree))
			w.reconcileLag(genK(r), 0)
			if rv := w.curResv(); rv != nil {
				rv.phase, rv.node, rv.sched, rv.msg = 2, 2, 1, 0
				w.setResv(rv)
			}
			w.reconcileLag(genK(r), c17GenFaults(r, faultFree))
			w.reconcileLag(r.Range(1, 3), 0)
			h.Tag("stream:directed-lag-fresh")
		default:
			w = c17InitCase(h, r, tmpl, base, &c17Fix{lag: true})
			h.Tag("stream:random-lag")
		}
		helpful := r.Chance(3, 4)
		for s, steps := 0, r.Range(2, 12); s < steps; s++ {
			if r.Chance(11, 20) {
				w.reconcileLag(genK(r), c17GenFaults(r, faultFree))
			} else {
				w.envEvent(r, helpful && r.Chance(3, 4))
			}
		}
		w.reconcileLag(genK(r), 0)
		if faultFree {
			h.Tag("history:fault-free")
		}
		h.Tag(fmt.Sprintf("history:evict-calls=%d/any-api-call-failed=%v", w.evictCalls, w.anyFault))
		h.End()
	}
	h.Close("histories as in TestVerifC17 (1/3 a job half way whose reservation was just scheduled, 1/3 a fresh job with or without its own reservation template, 1/3 random initial job), every reconcile reading the job through a LAGGING informer cache: " +
		"served the version k = 0..3 controller writes back (k>0 in 4/7 of the reconciles; never older than the version the running controller instance started from), write-fault masks in 1/3 of the histories, " +
		"environment events without job writes (no pause / arbitration annotation), controller restarts; oracle: evictor calls per job <= 1 while no API call failed; non-trivial = a reconcile issued a write; distinct by op lines")
}

// ---------- extended streams: read faults, events inside a reconcile, arbitration hand-off, small-scope exhaustive ----------

// arb = the arbitration hand-off (arbitrator.updatePassedJob): the arbitrator updates ITS copy of the job (taken when
// the job was added) with the passed-arbitration annotation; a stale copy is refused by the API server (conflict).
func (w *c17World) arb() {
	j := w.arbCopy.DeepCopy()
	if j.Annotations == nil {
		j.Annotations = map[string]string{}
	}
	j.Annotations[arbitrator.AnnotationPassedArbitration] = "true"
	err := w.base.Update(context.TODO(), j)
	switch {
	case err == nil:
		w.h.Tag("env:arbitration-passed")
		w.arbCopy = w.getJob()
	case apierrors.IsConflict(err):
		w.h.Tag("env:arbitration-update-conflict(stale-copy)")
	default:
		w.must(err, "arbitration update")
	}
	w.h.Op("arb")
}

func c17GenEv(r *vRand, w *c17World, k int) c17Ev {
	rv := w.curResv()
	pod := w.curPod()
	podNode := 1
	if pod != nil && pod.node != 0 {
		podNode = pod.node
	}
	other := podNode%3 + 1
	e := c17Ev{k: k}
	base := c17Resv{orderLabel: true}
	if rv != nil {
		base = *rv
	}
	switch c := r.Intn(20); {
	case c < 6:
		e.kind = 3 // reservation deleted
	case c < 8: // (re-)scheduled on the pod's node
		e.kind, e.resv = 4, base
		e.resv.phase, e.resv.sched, e.resv.msg, e.resv.node = 2, 1, 0, podNode
	case c < 10: // (re-)scheduled on another node
		e.kind, e.resv = 4, base
		e.resv.phase, e.resv.sched, e.resv.msg, e.resv.node = 2, 1, 0, other
	case c < 11: // back to pending
		e.kind, e.resv = 4, base
		e.resv.phase, e.resv.sched, e.resv.node = 1, 0, 0
	case c < 12: // expired
		e.kind, e.resv = 4, base
		e.resv.phase, e.resv.expired = 4, true
	case c < 14: // consumed by another pod
		e.kind, e.resv = 4, base
		e.resv.phase, e.resv.owner = 3, 9
		if e.resv.node == 0 {
			e.resv.node, e.resv.sched = other, 1
		}
	case c < 15: // label dropped / touched only (resourceVersion bump)
		e.kind, e.resv = 4, base
		e.resv.orderLabel = r.Bool()
	case c < 16:
		e.kind = 1 // pod deleted
	case c < 19: // pod replaced (same name)
		e.kind = 2
		uid := 2
		if pod != nil {
			uid = pod.uid%6 + 1
		}
		e.pod = c17Pod{uid: uid, node: r.Range(1, 3), sched: 2}
		if rv != nil && rv.node != 0 && r.Bool() {
			e.pod.node = rv.node
		}
	default:
		e.kind, e.bpod = 5, r.Range(0, 2)
	}
	return e
}

func c17GenScript(r *vRand, w *c17World) (uint64, []c17Ev) {
	var rf uint64
	switch r.Intn(8) {
	case 0, 1, 2:
	case 3, 4, 5:
		rf = 1 << uint(r.Intn(9))
	case 6:
		rf = 1<<uint(r.Intn(6)) | 1<<uint(r.Intn(10))
	default:
		rf = uint64(r.Intn(128))
	}
	var evs []c17Ev
	n := []int{0, 0, 0, 1, 1, 2}[r.Intn(6)]
	last := -1
	for i := 0; i < n; i++ {
		k := last + 1 + r.Intn(6)
		last = k
		evs = append(evs, c17GenEv(r, w, k))
	}
	return rf, evs
}

func TestVerifC17Read(t *testing.T) {
	h := vOpen("C17")
	if h == nil {
		t.Skip("VERIF_OUT not set")
	}
	tmpl, base := c17Setup()
	n := h.N(5000, 40000)
	for idx := 0; idx < n; idx++ {
		r := h.Begin(idx)
		if r == nil {
			continue
		}
		switch {
		case idx%40 == 1:
			// directed: a fresh job whose reservation gets created but whose ReservationRef write fails (4th write of the first
			// reconcile); then the TTL passes (or not) before the next reconcile can re-adopt the reservation
			w := c17InitCase(h, r, tmpl, base, &c17Fix{fresh: true})
			w.reconcile(8)
			if r.Chance(1, 4) {
				w.reconcile(c17GenFaults(r, false)) // re-adopts: Create answers AlreadyExists, the ref is written
			}
			if r.Chance(3, 4) {
				w.now += 300
				w.clk.Step(300 * time.Second)
				h.Op("tick 300")
			}
			for s, steps := 0, r.Range(1, 3); s < steps; s++ {
				rf, evs := c17GenScript(r, w)
				w.reconcileX(c17GenFaults(r, true), rf, evs)
			}
			w.reconcile(0)
			h.Tag("stream:directed-ref-write-failed")
		case idx%3 == 0:
			// directed: a job half way (Running, ReservationRef, reservation just scheduled on another node, pod on node 1);
			// ONE read fault or ONE scripted event swept over every call position of the reconcile that would evict
			w := c17InitCase(h, r, tmpl, base, &c17Fix{midway: true, refShape: r.Intn(4)})
			w.setResv(&c17Resv{phase: 2, node: []int{2, 2, 2, 1}[r.Intn(4)], sched: 1, orderLabel: r.Chance(3, 4)})
			pos := (idx / 3) % 14
			if r.Chance(1, 4) {
				w.reconcileX(0, 0, nil) // first reconcile clean: the node is recorded and the pod evicted; then disturb the retry
				w.setPod(&c17Pod{uid: 1, node: 1})
			}
			switch (idx / 42) % 4 {
			case 0:
				w.reconcileX(0, 1<<uint(pos), nil)
			case 1:
				w.reconcileX(0, 0, []c17Ev{{k: pos, kind: 3}})
			case 2:
				w.reconcileX(uint64(c17GenFaults(r, false)), 1<<uint(pos), []c17Ev{c17GenEv(r, w, r.Intn(12))})
			default:
				ev := c17GenEv(r, w, pos)
				w.reconcileX(0, 0, []c17Ev{ev})
			}
			for s, steps := 0, r.Range(1, 4); s < steps; s++ {
				if r.Bool() {
					w.envEvent(r, true)
				}
				rf, evs := c17GenScript(r, w)
				w.reconcileX(c17GenFaults(r, false), rf, evs)
			}
			h.Tag("stream:directed-sweep")
			h.Tag(fmt.Sprintf("history:evict-calls=%d", w.evictCalls))
		default:
			w := c17InitCase(h, r, tmpl, base, nil)
			noWriteFaults := r.Bool()
			helpful := r.Chance(3, 4)
			steps := r.Range(4, 14)
			for s := 0; s < steps; s++ {
				switch c := r.Intn(20); {
				case c < 10:
					rf, evs := c17GenScript(r, w)
					w.reconcileX(c17GenFaults(r, noWriteFaults), rf, evs)
				case c < 11:
					w.reconcile(c17GenFaults(r, noWriteFaults)) // the same world, through the write-fault-only model
				case c < 12:
					w.arb()
				default:
					w.envEvent(r, helpful && r.Chance(3, 4))
				}
			}
			rf, evs := c17GenScript(r, w)
			w.reconcileX(0, rf, evs)
			h.Tag("stream:random")
			h.Tag(fmt.Sprintf("history:evict-calls=%d", w.evictCalls))
			h.Tag("history:final-phase=" + string(w.getJob().Status.Phase))
		}
		h.End()
	}
	h.Close("histories as in TestVerifC17, but every reconcile carries a write-fault mask, a READ-fault mask (any Get of job / pod / reservation incl. the APIReader retry and the lookup inside evictPod / bound pod, by call index) " +
		"and 0-2 scripted environment events applied right before the k-th API call of that reconcile (reservation deleted / re-scheduled on the pod's or another node / pending / expired / consumed / touched, pod deleted / replaced, bound pod); " +
		"1/3 directed: a job half way with its reservation just scheduled, one read fault or one event swept over every call position; arbitration hand-off and controller restart as events; non-trivial = at least one reconcile issued an API call; distinct by op lines")
}

// TestVerifC17Exhaustive: ALL histories of at most 4 events over a 15-letter alphabet, from two start states
// (a fresh reservation-first job / a job half way with a pending reservation).
func TestVerifC17Exhaustive(t *testing.T) {
	h := vOpen("C17")
	if h == nil {
		t.Skip("VERIF_OUT not set")
	}
	tmpl, base := c17Setup()
	const A = 15
	total := 0
	for l, p := 0, 1; l <= 4; l, p = l+1, p*A {
		total += p
	}
	n := 2 * total
	if vEnvInt("VERIF_C17_EXH_MAX", 0) > 0 && n > vEnvInt("VERIF_C17_EXH_MAX", 0) {
		n = vEnvInt("VERIF_C17_EXH_MAX", 0)
	}
	for idx := 0; idx < n; idx++ {
		r := h.Begin(idx)
		if r == nil {
			continue
		}
		// decode idx -> (start state, length, letters)
		start, code := idx%2, idx/2
		length, p := 0, 1
		for code >= p {
			code -= p
			p *= A
			length++
		}
		letters := make([]int, length)
		for i := range letters {
			letters[i] = code % A
			code /= A
		}
		w := c17InitCase(h, r, tmpl, base, &c17Fix{fresh: start == 0, midway: start == 1, refShape: 2})
		for _, a := range letters {
			rv := w.curResv()
			if rv == nil {
				rv = &c17Resv{orderLabel: true}
			}
			switch a {
			case 0:
				w.reconcile(0)
			case 1:
				w.reconcile(4)
			case 2:
				w.reconcile(8)
			case 3:
				w.reconcileX(0, 0, []c17Ev{{k: 5, kind: 3}})
			case 4:
				w.reconcileX(0, 1<<5, nil)
			case 5:
				rv.phase, rv.sched, rv.msg, rv.node = 2, 1, 0, 2
				w.setResv(rv)
			case 6:
				rv.phase, rv.sched, rv.msg, rv.node = 2, 1, 0, 1
				w.setResv(rv)
			case 7:
				w.setResv(nil)
			case 8:
				rv.phase, rv.owner = 3, 9
				w.setResv(rv)
			case 9:
				w.setPod(&c17Pod{uid: 2, node: 2, sched: 2})
			case 10:
				w.setPod(nil)
			case 11:
				w.now += 300
				w.clk.Step(300 * time.Second)
				h.Op("tick 300")
			case 12:
				w.newReconciler()
				h.Op("restart %d", w.ctrlUID)
			case 13:
				w.arb()
			default:
				rv.phase, rv.expired = 4, true
				w.setResv(rv)
			}
		}
		h.Tag(fmt.Sprintf("exhaustive:len=%d", length))
		h.Tag(fmt.Sprintf("history:restricted-events=%v/evicted=%v", !w.unrestricted && !w.xDisturbed, w.evictCalls > 0))
		h.Tag(fmt.Sprintf("history:evict-calls=%d", w.evictCalls))
		h.End()
	}
	h.Extra("exhaustive", fmt.Sprintf("all %d histories of <= 4 events over %d letters x 2 start states", n, A))
	h.Close("EXHAUSTIVE small scope: every history of at most 4 events over {reconcile clean / 3rd write fails / 4th write fails / reservation deleted before the 6th API call / 6th read fails, " +
		"reservation scheduled on another node / on the pod's node / deleted / consumed by another pod / expired, pod replaced / deleted, clock +TTL, controller restart, arbitration hand-off} " +
		"from a fresh reservation-first job and from a job half way with a pending reservation; non-trivial = a reconcile issued an API call")
}

// TestVerifC17LagExhaustive: ALL histories of at most 5 events over a 9-letter alphabet of lagging reconciles and
// environment events, from three start states (fresh job / fresh job whose own template says allocateOnce=false / a job
// half way with a pending reservation).
func TestVerifC17LagExhaustive(t *testing.T) {
	h := vOpen("C17")
	if h == nil {
		t.Skip("VERIF_OUT not set")
	}
	tmpl, base := c17Setup()
	const A, L, S = 9, 5, 3
	total := 0
	for l, p := 0, 1; l <= L; l, p = l+1, p*A {
		total += p
	}
	n := S * total
	if vEnvInt("VERIF_C17_EXH_MAX", 0) > 0 && n > vEnvInt("VERIF_C17_EXH_MAX", 0) {
		n = vEnvInt("VERIF_C17_EXH_MAX", 0)
	}
	for idx := 0; idx < n; idx++ {
		r := h.Begin(idx)
		if r == nil {
			continue
		}
		start, code := idx%S, idx/S
		length, p := 0, 1
		for code >= p {
			code -= p
			p *= A
			length++
		}
		letters := make([]int, length)
		for i := range letters {
			letters[i] = code % A
			code /= A
		}
		fx := &c17Fix{fresh: start < 2, midway: start == 2, refShape: 2, lag: true}
		if start == 1 {
			fx.tm = &c17Tmpl{ao: 2, userLabel: true}
		}
		w := c17InitCase(h, r, tmpl, base, fx)
		for _, a := range letters {
			switch a {
			case 0, 1, 2, 3:
				w.reconcileLag(a, 0)
			case 4:
				w.reconcileLag(0, 4)
			case 5:
				rv := w.curResv()
				if rv == nil {
					rv = &c17Resv{orderLabel: true}
				}
				rv.phase, rv.sched, rv.msg, rv.node = 2, 1, 0, 2
				w.setResv(rv)
			case 6:
				w.consume(7)
			case 7:
				w.setPod(nil)
			default:
				w.newReconciler()
				h.Op("restart %d", w.ctrlUID)
			}
		}
		h.Tag(fmt.Sprintf("exhaustive-lag:len=%d", length))
		h.Tag(fmt.Sprintf("history:evict-calls=%d/any-api-call-failed=%v", w.evictCalls, w.anyFault))
		h.End()
	}
	h.Extra("exhaustive-lag", fmt.Sprintf("all %d histories of <= %d events over %d letters x %d start states", n, L, A, S))
	h.Close("EXHAUSTIVE small scope: every history of at most 5 events over {reconcile served the newest / 1 / 2 / 3 versions back, reconcile whose 3rd write fails, " +
		"reservation scheduled on another node, reservation consumed by a sibling pod (scheduler played faithfully), pod deleted, controller restart} " +
		"from a fresh reservation-first job, a fresh job whose own template says allocateOnce=false, and a job half way with a pending reservation; non-trivial = a reconcile issued a write")
}

// ---------- ext5: the scavenger, jobs created through Reconciler.Evict, restart = a NEW Reconciler instance ----------

// c17ScavSlack: how long after its TTL the oracle gives the controller to have returned an expired job's reservation
// (the scavenger's own grace is 5 minutes and its period 1 minute; the oracle only knows "half an hour is plenty").
const c17ScavSlack = 1800

func (w *c17World) tryJob() *sev1alpha1.PodMigrationJob {
	job := &sev1alpha1.PodMigrationJob{}
	err := w.base.Get(context.TODO(), types.NamespacedName{Name: c17JobName}, job)
	if apierrors.IsNotFound(err) {
		return nil
	}
	w.must(err, "get job")
	return job
}

func (w *c17World) tick(d int) {
	w.now += d
	w.clk.Step(time.Duration(d) * time.Second)
	w.h.Op("tick %d", d)
	w.h.Tag("env:tick")
}

// c17InitViaEvict: the job is created by the REAL Reconciler.Evict (→ CreatePodMigrationJob) of the first controller
// instance: it stamps the created-by annotation with that instance's uid, takes mode and TTL from the args and the pod's
// uid for Spec.PodRef.  The Create interceptor plays the API server (uid, creation timestamp = now).
func c17InitViaEvict(h *vHarness, r *vRand, tmpl *Reconciler, base client.WithWatch, fixed bool) *c17World {
	w := &c17World{h: h, tmpl: tmpl, base: base}
	for _, o := range []client.Object{
		&sev1alpha1.PodMigrationJob{ObjectMeta: metav1.ObjectMeta{Name: c17JobName}},
		&sev1alpha1.Reservation{ObjectMeta: metav1.ObjectMeta{Name: c17ResvName}},
		&corev1.Pod{ObjectMeta: metav1.ObjectMeta{Namespace: c17NS, Name: c17PodName}},
		&corev1.Pod{ObjectMeta: metav1.ObjectMeta{Namespace: c17NS, Name: c17BPodName}},
	} {
		if err := base.Delete(context.TODO(), o); err != nil && !apierrors.IsNotFound(err) {
			panic(err)
		}
	}
	w.cl = interceptor.NewClient(w.base, w.funcs())
	w.clk = fakeclock.NewFakeClock(c17T0)
	w.dfltMode = []int{0, 1, 1, 1, 1, 2}[r.Intn(6)]
	w.direct = w.dfltMode == 2
	if !r.Chance(1, 6) {
		w.ttl = r.Range(60, 600)
	}
	w.ctrlUID = r.Range(1, 2)
	if fixed {
		// exhaustive stream: instance 1, reservation-first by explicit default, TTL 300 s
		w.dfltMode, w.direct, w.ttl, w.ctrlUID = 1, false, 300, 1
	}
	w.newReconciler()
	w.r.args.DefaultJobTTL = metav1.Duration{Duration: time.Duration(w.ttl) * time.Second} // 0 = a job without TTL
	p := &c17Pod{uid: 1, node: r.Range(1, 3)}
	if r.Chance(1, 8) {
		p.pending, p.node, p.sched, p.msg = true, 0, 1, r.Range(0, 3)
	}
	if fixed {
		p = &c17Pod{uid: 1, node: 1}
	}
	w.quiet = true
	w.setPod(p)
	w.quiet = false
	h.Op("evictjob %d %d %d %d %d %d %d %d", w.ctrlUID, w.dfltMode, w.ttl, p.uid, p.node, p.sched, p.msg, vB(p.pending))
	pod := w.getPod(c17PodName)
	saved := UUIDGenerateFn
	UUIDGenerateFn = func() types.UID { return c17JobName }
	w.stampJob = true
	ok := false
	panicked := h.Guard(func() {
		ok = w.r.Evict(context.TODO(), pod, framework.EvictOptions{PluginName: "verif", Reason: "c17"})
	})
	UUIDGenerateFn = saved
	w.stampJob = false
	if panicked || !ok {
		panic("c17 harness: Reconciler.Evict did not create the job")
	}
	job := w.getJob()
	ttl := 0
	if job.Spec.TTL != nil {
		ttl = int(job.Spec.TTL.Duration / time.Second)
	}
	direct := job.Spec.Mode == sev1alpha1.PodMigrationJobModeEvictionDirectly || (job.Spec.Mode == "" && w.dfltMode == 2)
	h.Obs("created 1 %d %d %d %d %d %d", c17Code(job.Annotations[AnnotationJobCreatedBy], "c"), vB(direct), ttl,
		c17Code(string(job.Spec.PodRef.UID), "u"), c17PhaseCode(job.Status.Phase),
		vB(job.Spec.ReservationOptions != nil && job.Spec.ReservationOptions.ReservationRef != nil))
	if by := job.Annotations[AnnotationJobCreatedBy]; by != string(w.r.reconcilerUID) {
		h.Fail("C17:created-by-not-stamped", "Reconciler.Evict created a job whose %s annotation is %q, the creating instance is %q", AnnotationJobCreatedBy, by, w.r.reconcilerUID)
	}
	h.Tag(fmt.Sprintf("init:via-evict/mode=%q/ttl>0=%v", job.Spec.Mode, w.ttl > 0))
	h.Tag(fmt.Sprintf("init:direct=%v", w.direct))
	w.arbCopy = job
	return w
}

// scavenge: one round of the REAL doScavenge of the running instance, with a write-fault mask over its calls
// (reservation Delete = kind 5, job Delete = kind 12).
func (w *c17World) scavenge(faults uint64) {
	h := w.h
	before := w.tryJob()
	w.faults, w.nw, w.acts = faults, 0, w.acts[:0]
	h.Op("scav %d", faults)
	if h.Guard(func() { w.r.doScavenge() }) {
		h.Obs("panic")
		return
	}
	job := w.tryJob()
	w.jobGone = job == nil
	rv := w.getResv()
	h.Obs("scav %d %d", vB(job != nil), vB(rv != nil))
	flat := []int64{}
	faultHit := false
	for i := 0; i+2 < len(w.acts); i += 3 {
		flat = append(flat, w.acts[i], w.acts[i+1])
		if w.acts[i+1] == 0 {
			faultHit = true
		}
	}
	h.Obs("%s", strings.TrimSpace("sacts "+vInts(flat)))
	if len(flat) > 0 {
		h.Nontrivial()
	}
	if before == nil {
		h.Tag("scav:job-already-gone")
		return
	}
	foreign := false
	if by, ok := before.Annotations[AnnotationJobCreatedBy]; ok && by != string(w.r.reconcilerUID) {
		foreign = true
	}
	live := before.Status.Phase == "" || before.Status.Phase == sev1alpha1.PodMigrationJobPending || before.Status.Phase == sev1alpha1.PodMigrationJobRunning
	h.Tag(fmt.Sprintf("scav:foreign=%v/phase=%s/job-deleted=%v/writes=%d/fault-hit=%v", foreign, before.Status.Phase, job == nil, len(flat)/2, faultHit))
	if faultHit {
		w.anyFault = true
	}
	// ----- oracle, under ANY faults: an expired job that the scavenger removes has returned its reservation first (once the job
	// object is gone nothing will ever delete the reservation it referenced) -----
	if name := refName0(before); job == nil && w.ttl > 0 && w.now >= w.ttl && name != "" && rv != nil && rv.Name == name {
		h.Fail("C17:expired-keeps-reservation:job-deleted-first", "the scavenger deleted the expired job (phase %q, %d s past its TTL of %d s) while the reservation %s it references still exists (failed call in this round: %v)",
			before.Status.Phase, w.now-w.ttl, w.ttl, name, faultHit)
	}
	// ----- oracle: "an expired job deletes its reservation" — whoever created the job, whichever instance runs now -----
	if w.ttl > 0 && w.now >= w.ttl+c17ScavSlack && live && !faultHit {
		h.Tag(fmt.Sprintf("ttl:expired-scavenged/foreign=%v", foreign))
		name := refName0(before)
		if name != "" && rv != nil && rv.Name == name {
			h.Fail("C17:expired-keeps-reservation", "job (phase %q, created-by %q, running instance %q) is %d s past its TTL of %d s and a full scavenger round ran without a failed call, but its reservation %s still exists (job deleted: %v)",
				before.Status.Phase, before.Annotations[AnnotationJobCreatedBy], w.r.reconcilerUID, w.now-w.ttl, w.ttl, name, job == nil)
		}
		if name == "" && rv != nil && rv.Name == string(before.UID) && rv.Labels[reservation.LabelCreatedBy] == reservation.DefaultCreator {
			h.Fail("C17:expired-keeps-reservation:ref-write-failed", "job %d s past its TTL of %d s was scavenged (deleted: %v) without a ReservationRef, the reservation %s it created still exists", w.now-w.ttl, w.ttl, job == nil, rv.Name)
		}
	}
}

// reconcileGone: a reconcile request for the job after the scavenger deleted it (Get answers NotFound).
func (w *c17World) reconcileGone() {
	h := w.h
	w.faults, w.nw, w.acts = 0, 0, w.acts[:0]
	h.Op("recg")
	if h.Guard(func() {
		_, _ = w.r.Reconcile(context.TODO(), reconcile.Request{NamespacedName: types.NamespacedName{Name: c17JobName}})
	}) {
		h.Obs("panic")
		return
	}
	h.Obs("recg %d", len(w.acts)/3)
}

// TestVerifC17Scav: histories with the scavenger and controller restarts.  3/4 of the jobs are created through the real
// Reconciler.Evict of instance #1 (stamped created-by annotation), 1/4 come from the general generator (user jobs, jobs
// stamped by uid 1 / 2, any initial status).  Phase A: the creating instance reconciles (reservation created, scheduled, ...);
// then in 3/4 of the cases a RESTART = a new Reconciler instance with a fresh uid over the same API server; phase B: time
// passes (up to and far beyond TTL + the scavenger's grace), the running instance reconciles and scavenges (with faults);
// the history ends far past the TTL with a fault-free scavenger round.
func TestVerifC17Scav(t *testing.T) {
	h := vOpen("C17")
	if h == nil {
		t.Skip("VERIF_OUT not set")
	}
	tmpl, base := c17Setup()
	n := h.N(1500, 20000)
	for idx := 0; idx < n; idx++ {
		r := h.Begin(idx)
		if r == nil {
			continue
		}
		var w *c17World
		if idx%4 != 3 {
			w = c17InitViaEvict(h, r, tmpl, base, false)
			h.Tag("stream:job-created-through-Evict")
		} else {
			w = c17InitCase(h, r, tmpl, base, nil)
			h.Tag("stream:general-job")
		}
		faultFree := r.Bool()
		scavFaults := func() uint64 {
			if faultFree || r.Bool() {
				return 0
			}
			return uint64(r.Range(1, 3))
		}
		// phase A: the creating instance works on the job
		for s, steps := 0, r.Range(0, 5); s < steps && !w.jobGone; s++ {
			switch c := r.Intn(10); {
			case c < 6:
				w.reconcile(c17GenFaults(r, faultFree))
			case c < 7:
				w.scavenge(scavFaults())
			default:
				w.envEvent(r, true)
			}
		}
		// restart: a NEW instance with a fresh uid
		restarted := false
		if r.Chance(3, 4) {
			restarted = true
			old := w.ctrlUID
			w.ctrlUID = r.Range(1, 3)
			if w.ctrlUID == old && r.Chance(3, 4) {
				w.ctrlUID = old%3 + 1
			}
			w.newReconciler()
			h.Op("restart %d", w.ctrlUID)
			h.Tag(fmt.Sprintf("env:restart/new-uid=%v", w.ctrlUID != old))
		}
		// phase B: time passes; the running instance reconciles and scavenges
		for s, steps := 0, r.Range(2, 8); s < steps; s++ {
			c := r.Intn(12)
			switch {
			case c < 3:
				d := []int{w.ttl, 300, 1800, r.Range(1, 2000), r.Range(1, 100)}[r.Intn(5)]
				if d == 0 {
					d = 1800
				}
				w.tick(d)
			case c < 6 && w.jobGone:
				w.reconcileGone()
			case c < 6:
				w.reconcile(c17GenFaults(r, faultFree))
			case c < 9 || w.jobGone:
				w.scavenge(scavFaults())
			default:
				w.envEvent(r, false)
			}
		}
		// the end: far past the TTL, a fault-free scavenger round
		end := w.ttl + c17ScavSlack + r.Range(0, 600)
		if w.now < end {
			w.tick(end - w.now)
		}
		w.scavenge(0)
		if w.jobGone {
			w.reconcileGone()
		} else {
			w.reconcile(0)
			w.scavenge(0)
		}
		h.Tag(fmt.Sprintf("history:restarted=%v/job-gone-at-end=%v/reservation-at-end=%v", restarted, w.jobGone, w.getResv() != nil))
		h.End()
	}
	h.Close("scavenger histories: 3/4 of the jobs created through the real Reconciler.Evict (created-by annotation stamped with the creating instance's uid, mode / TTL from the args), 1/4 general jobs; " +
		"phase A 0-5 steps of the creating instance (reconciles with write faults, helpful environment events, early scavenger rounds), then in 3/4 a restart = NEW Reconciler instance (fresh uid in most) over the same fake API server, " +
		"phase B 2-8 steps (ticks up to / beyond TTL + grace, reconciles, scavenger rounds with a fault mask over reservation Delete / job Delete, environment events), " +
		"the end: clock >= TTL + 30 min, a fault-free scavenger round, a reconcile; oracle: an expired live job's referenced reservation is gone after that round whoever created the job; non-trivial = a scavenger round issued a write; distinct by op lines")
}

// TestVerifC17ScavExhaustive: ALL histories of at most 5 events over an 8-letter alphabet from the job that instance 1
// creates through Reconciler.Evict (reservation-first, TTL 300 s, pod on node 1).
func TestVerifC17ScavExhaustive(t *testing.T) {
	h := vOpen("C17")
	if h == nil {
		t.Skip("VERIF_OUT not set")
	}
	tmpl, base := c17Setup()
	const A = 8
	n := 0
	for l, p := 0, 1; l <= 5; l, p = l+1, p*A {
		n += p
	}
	if vEnvInt("VERIF_C17_EXH_MAX", 0) > 0 && n > vEnvInt("VERIF_C17_EXH_MAX", 0) {
		n = vEnvInt("VERIF_C17_EXH_MAX", 0)
	}
	for idx := 0; idx < n; idx++ {
		r := h.Begin(idx)
		if r == nil {
			continue
		}
		code := idx
		length, p := 0, 1
		for code >= p {
			code -= p
			p *= A
			length++
		}
		letters := make([]int, length)
		for i := range letters {
			letters[i] = code % A
			code /= A
		}
		w := c17InitViaEvict(h, r, tmpl, base, true)
		rec := func(f uint64) {
			if w.jobGone {
				w.reconcileGone()
			} else {
				w.reconcile(f)
			}
		}
		for _, a := range letters {
			switch a {
			case 0:
				rec(0)
			case 1:
				rec(8) // in the creating reconcile: the write of the ReservationRef fails
			case 2:
				w.ctrlUID = w.ctrlUID%3 + 1
				w.newReconciler()
				h.Op("restart %d", w.ctrlUID)
			case 3:
				w.tick(300)
			case 4:
				w.tick(1800)
			case 5:
				w.scavenge(0)
			case 6:
				w.scavenge(1)
			default:
				rv := w.curResv()
				if rv == nil {
					rv = &c17Resv{orderLabel: true}
				}
				rv.phase, rv.sched, rv.msg, rv.node = 2, 1, 0, 2
				w.setResv(rv)
			}
		}
		h.Tag(fmt.Sprintf("exhaustive:len=%d", length))
		h.Tag(fmt.Sprintf("history:job-gone-at-end=%v/reservation-at-end=%v", w.jobGone, w.getResv() != nil))
		h.End()
	}
	h.Extra("exhaustive", fmt.Sprintf("all %d histories of <= 5 events over %d letters", n, A))
	h.Close("EXHAUSTIVE small scope: every history of at most 5 events over {reconcile clean / with the ReservationRef write failing, restart with a fresh uid, clock +300 s / +1800 s, " +
		"scavenger round clean / first write fails, reservation scheduled on another node} from the job instance 1 creates through Reconciler.Evict; non-trivial = an API write was issued")
}
