//go:build verif

package descheduler

import (
	"context"
	"flag"
	"fmt"
	"io"
	"sort"
	"strings"
	"sync"
	"testing"
	"time"

	corev1 "k8s.io/api/core/v1"
	policyv1 "k8s.io/api/policy/v1"
	apierrors "k8s.io/apimachinery/pkg/api/errors"
	metav1 "k8s.io/apimachinery/pkg/apis/meta/v1"
	"k8s.io/apimachinery/pkg/labels"
	k8sruntime "k8s.io/apimachinery/pkg/runtime"
	"k8s.io/client-go/informers"
	"k8s.io/client-go/kubernetes/fake"
	clienttesting "k8s.io/client-go/testing"
	"k8s.io/client-go/tools/cache"
	"k8s.io/client-go/tools/events"
	"k8s.io/klog/v2"

	deschedulerconfig "github.com/koordinator-sh/koordinator/pkg/descheduler/apis/config"
	"github.com/koordinator-sh/koordinator/pkg/descheduler/evictions"
	"github.com/koordinator-sh/koordinator/pkg/descheduler/framework"
	frameworkruntime "github.com/koordinator-sh/koordinator/pkg/descheduler/framework/runtime"
)

// C16 harness "cycle": histories of whole descheduling cycles through a REAL Descheduler built by New() (real
// profile.Map / frameworkImpl / evictorProxy, real evictions.EvictionLimiter shared by all profiles, client-go fake
// clientset + started node informer).  One cycle = one call of Descheduler.deschedulerOnce: Reset() once, then the
// Deschedule phase of every profile, then the Balance phase of every profile.  Three tiny plugins are registered
// out-of-tree: a Deschedule and a Balance plugin that evict a scripted list of pods through handle.Evictor(), and
// an Evict plugin that issues the eviction through the fake clientset (pods/eviction subresource); a reactor on
// the clientset is the record of the evictions actually issued.
//
// d.Profiles is a Go map, so which profile runs first inside a phase is random.  To keep a case deterministic
// (replayable from seed + case index) the script of a phase is a list of segments and the k-th plugin invoked in
// that phase takes the k-th segment, whichever profile it belongs to; the op line is nevertheless written from the
// attempts as they were actually executed.

const (
	c16cyDescheduleName = "c16cy-deschedule"
	c16cyBalanceName    = "c16cy-balance"
	c16cyEvictName      = "c16cy-evict"
)

const c16cyNodes, c16cyNss = 3, 3 // node ids 0..3 (0 = ""), namespace ids 0..2

func c16cyNodeName(k int) string {
	if k == 0 {
		return ""
	}
	return fmt.Sprintf("n%d", k)
}
func c16cyNsName(k int) string { return fmt.Sprintf("s%d", k) }

func c16cyPodName(seq int) string { return fmt.Sprintf("p%d", seq) }

func c16cyPod(seq, node, ns int) *corev1.Pod {
	return &corev1.Pod{
		ObjectMeta: metav1.ObjectMeta{Name: c16cyPodName(seq), Namespace: c16cyNsName(ns), UID: "u"},
		Spec:       corev1.PodSpec{NodeName: c16cyNodeName(node)},
	}
}

// same value set as c16Cap of the proxy harness; 0 is rarer (1/12) because a zero cap makes whole cycles evict nothing
func c16cyCap(r *vRand) int {
	switch r.Intn(12) {
	case 0, 1:
		return -1 // nil pointer
	case 2:
		return 0
	default:
		return r.Range(1, 3)
	}
}

func c16cyPtr(c int) *uint {
	if c < 0 {
		return nil
	}
	u := uint(c)
	return &u
}

// ---- scripted world shared by the plugins of one case

type c16cySpec struct {
	seq, node, ns int
	apiOk         bool // scripted answer of the fake API server to the eviction request
	fresh         bool // evict through a fresh handle.Evictor() instead of the proxy kept from construction
}

type c16cyAttempt struct {
	spec      c16cySpec
	phase     int // 1 = Deschedule, 2 = Balance
	profile   int
	ok        bool // what Evictor.Evict returned
	plugCalls int  // invocations of the evict plugin during this attempt
}

type c16cyAPIReq struct {
	name string
	ok   bool
}

type c16cyWorld struct {
	mu        sync.Mutex
	script    [3][][]c16cySpec // [phase] -> segments (one per plugin invocation of that phase)
	taken     [3]int
	attempts  []c16cyAttempt // in execution order
	api       []c16cyAPIReq  // eviction requests received by the fake API server, in order
	apiOk     map[string]bool
	plugCalls int
	handles   []framework.Handle // handle identity -> profile index (profiles are built in slice order)
	crashAt   int                // the process is killed just before attempt number crashAt of the cycle (-1: never)
	errPhase1 bool               // the first Deschedule plugin invoked in the cycle returns an error status after its evictions
}

// c16cyCrash is the panic value that stands for the descheduler process being killed between two evictions
type c16cyCrash struct{}

func (w *c16cyWorld) profileOf(hd framework.Handle) int {
	w.mu.Lock()
	defer w.mu.Unlock()
	for i, x := range w.handles {
		if x == hd {
			return i
		}
	}
	w.handles = append(w.handles, hd)
	return len(w.handles) - 1
}

func (w *c16cyWorld) take(phase int) []c16cySpec {
	w.mu.Lock()
	defer w.mu.Unlock()
	i := w.taken[phase]
	w.taken[phase]++
	if i >= len(w.script[phase]) {
		return nil
	}
	return w.script[phase][i]
}

func (w *c16cyWorld) beginCycle(script [3][][]c16cySpec) {
	w.mu.Lock()
	defer w.mu.Unlock()
	w.script = script
	w.taken = [3]int{}
	w.attempts = nil
	w.api = nil
	w.crashAt = -1
	w.errPhase1 = false
	for ph := 1; ph <= 2; ph++ {
		for _, seg := range script[ph] {
			for _, s := range seg {
				w.apiOk[c16cyPodName(s.seq)] = s.apiOk
			}
		}
	}
}

// ---- the plugins

type c16cyActor struct {
	w       *c16cyWorld
	phase   int
	profile int
	handle  framework.Handle
	kept    framework.Evictor
}

func (a *c16cyActor) run(ctx context.Context) *framework.Status {
	a.w.mu.Lock()
	first := a.w.taken[a.phase] == 0
	a.w.mu.Unlock()
	for _, s := range a.w.take(a.phase) {
		a.w.mu.Lock()
		crash := a.w.crashAt >= 0 && len(a.w.attempts) == a.w.crashAt
		a.w.mu.Unlock()
		if crash {
			panic(c16cyCrash{})
		}
		pod := c16cyPod(s.seq, s.node, s.ns)
		ev := a.kept
		if s.fresh {
			ev = a.handle.Evictor()
		}
		a.w.mu.Lock()
		before := a.w.plugCalls
		a.w.mu.Unlock()
		ok := ev.Evict(ctx, pod, framework.EvictOptions{Reason: "verif"})
		a.w.mu.Lock()
		a.w.attempts = append(a.w.attempts, c16cyAttempt{spec: s, phase: a.phase, profile: a.profile, ok: ok, plugCalls: a.w.plugCalls - before})
		a.w.mu.Unlock()
	}
	if a.phase == 1 && first && a.w.errPhase1 {
		return &framework.Status{Err: fmt.Errorf("verif: scripted plugin error")}
	}
	return &framework.Status{}
}

type c16cyDeschedule struct{ c16cyActor }

func (p *c16cyDeschedule) Name() string { return c16cyDescheduleName }
func (p *c16cyDeschedule) Deschedule(ctx context.Context, nodes []*corev1.Node) *framework.Status {
	return p.run(ctx)
}

type c16cyBalance struct{ c16cyActor }

func (p *c16cyBalance) Name() string { return c16cyBalanceName }
func (p *c16cyBalance) Balance(ctx context.Context, nodes []*corev1.Node) *framework.Status {
	return p.run(ctx)
}

type c16cyEvict struct {
	w      *c16cyWorld
	handle framework.Handle
}

func (p *c16cyEvict) Name() string { return c16cyEvictName }
func (p *c16cyEvict) Evict(ctx context.Context, pod *corev1.Pod, opts framework.EvictOptions) bool {
	p.w.mu.Lock()
	p.w.plugCalls++
	p.w.mu.Unlock()
	err := p.handle.ClientSet().CoreV1().Pods(pod.Namespace).EvictV1(ctx, &policyv1.Eviction{
		ObjectMeta: metav1.ObjectMeta{Name: pod.Name, Namespace: pod.Namespace}})
	return err == nil
}

var (
	_ framework.DeschedulePlugin = &c16cyDeschedule{}
	_ framework.BalancePlugin    = &c16cyBalance{}
	_ framework.EvictPlugin      = &c16cyEvict{}
)

// ---- independent tally of what the fake API server granted

type c16cyTally struct {
	node  map[int]int
	ns    map[int]int
	total int
}

func c16cyNewTally() *c16cyTally { return &c16cyTally{node: map[int]int{}, ns: map[int]int{}} }
func (t *c16cyTally) add(node, ns int) {
	if node != 0 {
		t.node[node]++
	}
	t.ns[ns]++
	t.total++
}

func c16cyShowMap(m map[int]int) string {
	ks := []int{}
	for k, v := range m {
		if v != 0 {
			ks = append(ks, k)
		}
	}
	sort.Ints(ks)
	var b strings.Builder
	for _, k := range ks {
		fmt.Fprintf(&b, " %d %d", k, m[k])
	}
	return b.String()
}

func c16cyCtr(total int, node, ns map[int]int) string {
	return fmt.Sprintf("t %d n%s s%s", total, c16cyShowMap(node), c16cyShowMap(ns))
}

func c16cySameMap(a, b map[int]int) bool {
	for k, v := range a {
		if b[k] != v {
			return false
		}
	}
	for k, v := range b {
		if a[k] != v {
			return false
		}
	}
	return true
}

func c16cyReported(el *evictions.EvictionLimiter) (int, map[int]int, map[int]int) {
	node, ns := map[int]int{}, map[int]int{}
	for k := 0; k <= c16cyNodes; k++ {
		node[k] = int(el.NodeEvicted(c16cyNodeName(k)))
	}
	for k := 0; k < c16cyNss; k++ {
		ns[k] = int(el.NamespaceEvicted(c16cyNsName(k)))
	}
	return int(el.TotalEvicted()), node, ns
}

// oracle: evictions issued in ONE cycle (both phases together) within the caps
func c16cyCheckCaps(h *vHarness, tl, p1, p2 *c16cyTally, capNode, capNs, capTotal int) {
	const fp = "C16:cycle-cap-exceeded"
	for k, v := range tl.node {
		if capNode >= 0 && v > capNode {
			h.Fail(fp, "node %d: %d evictions issued in one cycle (%d in the Deschedule phase + %d in the Balance phase), cap %d",
				k, v, p1.node[k], p2.node[k], capNode)
		}
	}
	for k, v := range tl.ns {
		if capNs >= 0 && v > capNs {
			h.Fail(fp, "namespace %d: %d evictions issued in one cycle (%d in the Deschedule phase + %d in the Balance phase), cap %d",
				k, v, p1.ns[k], p2.ns[k], capNs)
		}
	}
	if capTotal >= 0 && tl.total > capTotal {
		h.Fail(fp, "total: %d evictions issued in one cycle (%d in the Deschedule phase + %d in the Balance phase), cap %d",
			tl.total, p1.total, p2.total, capTotal)
	}
}

// ---- generation

func c16cyRandSpec(r *vRand) c16cySpec {
	node, ns := r.Intn(c16cyNodes+1), r.Intn(c16cyNss)
	if r.Chance(1, 2) {
		node, ns = 1, 0
	}
	return c16cySpec{node: node, ns: ns, apiOk: !r.Chance(1, 6), fresh: r.Bool()}
}

// c16cyGenCycle scripts one cycle.  bind/mx = smallest/largest configured (non-nil) cap, -1 if none.
//
//	mode 0: 0..5 random pods per (profile, phase)
//	mode 1: each phase additionally gets bind+1 (sometimes mx+1) healthy pods on node 1 / namespace 0, so each
//	        phase alone would use up the caps
//	mode 2: the Deschedule phase gets 1..bind-1 such pods (stays below the caps; on node 2 / namespace 1 when bind = 1),
//	        the Balance phase bind+1
func c16cyGenCycle(r *vRand, nprof, bind, mx int, seq *int) ([3][][]c16cySpec, int) {
	mode := 0
	if bind >= 1 {
		switch r.Intn(8) {
		case 0, 1:
			mode = 0
		case 2, 3, 4:
			mode = 1
		default:
			mode = 2
		}
	}
	var bite [3]int
	switch mode {
	case 1:
		need := bind + 1
		if r.Chance(1, 3) {
			need = mx + 1
		}
		bite[1], bite[2] = need, need
	case 2:
		hi := bind - 1
		if hi < 1 {
			hi = 1
		}
		bite[1], bite[2] = r.Range(1, hi), bind+1
	}
	var script [3][][]c16cySpec
	for ph := 1; ph <= 2; ph++ {
		segs := make([][]c16cySpec, nprof)
		for b := 0; b < bite[ph]; b++ {
			s := r.Intn(nprof)
			sp := c16cySpec{node: 1, ns: 0, apiOk: true, fresh: r.Bool()}
			if mode == 2 && ph == 1 && bind == 1 {
				sp.node, sp.ns = 2, 1 // a cap of 1 on node 1 / namespace 0 must be left for the Balance phase
			}
			segs[s] = append(segs[s], sp)
		}
		for s := range segs {
			k := r.Intn(6)
			if mode != 0 {
				k = r.Intn(3)
			}
			if mode == 2 && ph == 1 && r.Bool() {
				k = 0 // nothing else that could use up the caps before the Balance phase
			}
			for j := 0; j < k; j++ {
				segs[s] = append(segs[s], c16cyRandSpec(r))
			}
			sh := make([]c16cySpec, 0, len(segs[s]))
			for _, j := range r.Perm(len(segs[s])) {
				sh = append(sh, segs[s][j])
			}
			segs[s] = sh
		}
		script[ph] = segs
	}
	for ph := 1; ph <= 2; ph++ {
		for s := range script[ph] {
			for j := range script[ph][s] {
				*seq++
				script[ph][s][j].seq = *seq
			}
		}
	}
	return script, mode
}

// ---- the test

func TestVerifC16Cycle(t *testing.T) {
	h := vOpen("C16")
	if h == nil {
		t.Skip("VERIF_OUT not set")
	}
	c16cyQuiet()
	n := h.N(300, 3000)
	for idx := 0; idx < n; idx++ {
		r := h.Begin(idx)
		if r == nil {
			continue
		}
		c16cyCase(h, r, nil)
		h.End()
	}
	h.Close("one case = one history of 2-5 descheduling cycles (Descheduler.deschedulerOnce) of a real Descheduler built by New() with 1 or 2 (1/3) profiles " +
		"sharing one real EvictionLimiter (caps node/namespace/total in {nil,0,1,2,3}, total also 2..6), dry-run 1/8, fake clientset with 3 ready nodes; " +
		"per cycle every (profile, phase) evicts a scripted list of pods (4 node names x 3 namespaces, half on node 1/ns 0, API failures 1/6) through " +
		"handle.Evictor() -> evict plugin -> clientset pods/eviction; 3/4 of the cycles (when a positive cap exists) give the Deschedule and the Balance " +
		"phase enough healthy pods on node 1/ns 0 to reach the caps in each phase / across the two phases. " +
		"1/6 of the cycles are cut short by a process kill between two evictions, followed by a restart (new Descheduler, new limiter, new informers over the same " +
		"API server; the killed cycle and every later cycle are checked on their own, the sum over the kill is only tagged); in 1/10 the first Deschedule plugin " +
		"returns an error status, which ends the cycle before the Balance phase. " +
		"Non-trivial = some cycle issued evictions in both phases and refused at least one eviction")
}

// c16cyForced fixes caps and the attempts of both phases (exhaustive small-scope stream): one profile, no dry-run, the same
// cycle run twice so that the Reset at the start of a cycle is exercised with non-zero counters
type c16cyForced struct {
	capNode, capNs, capTotal int
	ph                       [3][]int // [phase] -> pod kinds: 0 (n1,s0) 1 (n2,s0) 2 (n1,s1) 3 (n1,s0) with a failing API call
}

// TestVerifC16CycleExhaustive: every cap setting in {nil,1,2}^3 x every pair of attempt lists of length <= 2 over four pod kinds
func TestVerifC16CycleExhaustive(t *testing.T) {
	h := vOpen("C16")
	if h == nil {
		t.Skip("VERIF_OUT not set")
	}
	c16cyQuiet()
	var lists [][]int
	lists = append(lists, nil)
	for a := 0; a < 4; a++ {
		lists = append(lists, []int{a})
		for b := 0; b < 4; b++ {
			lists = append(lists, []int{a, b})
		}
	}
	caps := []int{-1, 1, 2}
	idx := 0
	for _, cn := range caps {
		for _, cs := range caps {
			for _, ct := range caps {
				for _, l1 := range lists {
					for _, l2 := range lists {
						r := h.Begin(idx)
						idx++
						if r == nil {
							continue
						}
						c16cyCase(h, r, &c16cyForced{capNode: cn, capNs: cs, capTotal: ct, ph: [3][]int{nil, l1, l2}})
						h.End()
					}
				}
			}
		}
	}
	h.Close("exhaustive small scope: caps (node, namespace, total) in {nil,1,2}^3 x Deschedule-phase and Balance-phase attempt lists of length 0..2 over " +
		"the pod kinds (n1,s0) (n2,s0) (n1,s1) and (n1,s0)-with-failing-API-call; one profile, the cycle is run twice. " +
		"Non-trivial = a cycle issued evictions in both phases and refused at least one")
}

func c16cyCase(h *vHarness, r *vRand, fx *c16cyForced) { c16cyCaseSrc(h, r, fx, nil) }

// src != nil (harness "config", verif_c16_config_test.go): dry-run and the three caps are what a generated configuration
// file DECLARES; the limiter and the dry-run switch of every (re)started Descheduler are built from that file by the
// start-up path of cmd/koord-descheduler (src.start), and the oracle keeps judging against the declared values
func c16cyCaseSrc(h *vHarness, r *vRand, fx *c16cyForced, src *c16cfSrc) {
	dry := r.Chance(1, 8)
	capNode, capNs, capTotal := c16cyCap(r), c16cyCap(r), c16cyCap(r)
	if r.Bool() {
		capTotal = r.Range(2, 6)
	}
	nprof := 1
	if r.Chance(1, 3) {
		nprof = 2
	}
	if fx != nil {
		dry, nprof, capNode, capNs, capTotal = false, 1, fx.capNode, fx.capNs, fx.capTotal
	}
	if src != nil {
		dry, capNode, capNs, capTotal = src.dry, src.declared(0), src.declared(1), src.declared(2)
		if !src.opStart(h) {
			return // the file is rejected at start-up: no descheduler, nothing evicts
		}
	}
	bind, mx := -1, -1
	for _, c := range []int{capNode, capNs, capTotal} {
		if c >= 0 && c <= 10 { // a huge cap never binds: the generator treats it as none
			if bind < 0 || c < bind {
				bind = c
			}
			if c > mx {
				mx = c
			}
		}
	}

	w := &c16cyWorld{apiOk: map[string]bool{}, crashAt: -1}

	// fake API server: 3 ready nodes + the record of eviction requests
	var objs []k8sruntime.Object
	for k := 1; k <= c16cyNodes; k++ {
		objs = append(objs, &corev1.Node{
			ObjectMeta: metav1.ObjectMeta{Name: c16cyNodeName(k)},
			Status:     corev1.NodeStatus{Conditions: []corev1.NodeCondition{{Type: corev1.NodeReady, Status: corev1.ConditionTrue}}},
		})
	}
	cs := fake.NewSimpleClientset(objs...)
	cs.PrependReactor("create", "pods", func(action clienttesting.Action) (bool, k8sruntime.Object, error) {
		if action.GetSubresource() != "eviction" {
			return false, nil, nil
		}
		name := "?"
		if ca, ok := action.(clienttesting.CreateAction); ok {
			if ev, ok := ca.GetObject().(*policyv1.Eviction); ok {
				name = ev.Name
			}
		}
		w.mu.Lock()
		answer, known := w.apiOk[name]
		answer = answer && known
		w.api = append(w.api, c16cyAPIReq{name: name, ok: answer})
		w.mu.Unlock()
		if !answer {
			return true, nil, apierrors.NewTooManyRequests("verif: cannot evict pod as it would violate the pod's disruption budget", 0)
		}
		return true, nil, nil
	})

	reg := frameworkruntime.Registry{}
	_ = reg.Register(c16cyDescheduleName, func(ctx context.Context, args k8sruntime.Object, hd framework.Handle) (framework.Plugin, error) {
		return &c16cyDeschedule{c16cyActor{w: w, phase: 1, profile: w.profileOf(hd), handle: hd, kept: hd.Evictor()}}, nil
	})
	_ = reg.Register(c16cyBalanceName, func(ctx context.Context, args k8sruntime.Object, hd framework.Handle) (framework.Plugin, error) {
		return &c16cyBalance{c16cyActor{w: w, phase: 2, profile: w.profileOf(hd), handle: hd, kept: hd.Evictor()}}, nil
	})
	_ = reg.Register(c16cyEvictName, func(ctx context.Context, args k8sruntime.Object, hd framework.Handle) (framework.Plugin, error) {
		return &c16cyEvict{w: w, handle: hd}, nil
	})
	var profiles []deschedulerconfig.DeschedulerProfile
	for i := 0; i < nprof; i++ {
		profiles = append(profiles, deschedulerconfig.DeschedulerProfile{
			Name: fmt.Sprintf("c16cy-%d", i),
			Plugins: &deschedulerconfig.Plugins{
				Deschedule: deschedulerconfig.PluginSet{Enabled: []deschedulerconfig.Plugin{{Name: c16cyDescheduleName}}},
				Balance:    deschedulerconfig.PluginSet{Enabled: []deschedulerconfig.Plugin{{Name: c16cyBalanceName}}},
				Evict:      deschedulerconfig.PluginSet{Enabled: []deschedulerconfig.Plugin{{Name: c16cyEvictName}}},
			},
		})
	}

	// (re)start of the descheduler process: a new Descheduler with a new EvictionLimiter (as cmd/koord-descheduler builds
	// them) and new informers over the SAME API server
	var stops []chan struct{}
	defer func() {
		for _, c := range stops {
			close(c)
		}
	}()
	build := func() (*Descheduler, *evictions.EvictionLimiter) {
		w.mu.Lock()
		w.handles = nil
		w.mu.Unlock()
		el, dryRun := evictions.NewEvictionLimiter(c16cyPtr(capNode), c16cyPtr(capNs), c16cyPtr(capTotal)), dry
		if src != nil {
			el, dryRun = src.start()
		}
		informerFactory := informers.NewSharedInformerFactory(cs, 0)
		stop := make(chan struct{})
		stops = append(stops, stop)
		d, err := New(cs, informerFactory, nil, func(string) events.EventRecorder { return &events.FakeRecorder{} }, stop,
			WithEvictionLimiter(el), WithDryRun(dryRun), WithProfiles(profiles...), WithFrameworkOutOfTreeRegistry(reg))
		if err != nil {
			panic(fmt.Sprintf("c16cy: descheduler.New: %v", err))
		}
		if len(d.Profiles) != nprof {
			panic(fmt.Sprintf("c16cy: %d profiles built, want %d", len(d.Profiles), nprof))
		}
		informerFactory.Start(stop)
		c16cyWaitSynced(informerFactory, stop)
		if nodes, _ := d.nodeInformer.Lister().List(labels.Everything()); len(nodes) != c16cyNodes {
			panic(fmt.Sprintf("c16cy: node informer has %d nodes, want %d", len(nodes), c16cyNodes))
		}
		return d, el
	}
	d, el := build()

	if src == nil {
		h.Op("cy %d %d %d %d", vB(dry), capNode, capNs, capTotal)
	}
	h.Tag(fmt.Sprintf("profiles=%d", nprof))
	h.Tag(fmt.Sprintf("dry=%d", vB(dry)))

	seq := 0
	cycles := r.Range(2, 5)
	if fx != nil {
		cycles = 2
	}
	h.Tag(fmt.Sprintf("cycles=%d", cycles))
	var prev *c16cyTally // evictions issued by a cycle that was cut short by a process kill, until the next cycle has run
	for c := 0; c < cycles; c++ {
		script, mode := c16cyGenCycle(r, nprof, bind, mx, &seq)
		if fx != nil {
			script, mode = [3][][]c16cySpec{}, 9
			for ph := 1; ph <= 2; ph++ {
				var seg []c16cySpec
				for _, kind := range fx.ph[ph] {
					seq++
					sp := c16cySpec{seq: seq, node: 1, ns: 0, apiOk: kind != 3, fresh: seq%2 == 0}
					if kind == 1 {
						sp.node = 2
					} else if kind == 2 {
						sp.ns = 1
					}
					seg = append(seg, sp)
				}
				script[ph] = [][]c16cySpec{seg}
			}
		}
		h.Tag(fmt.Sprintf("cyc:mode=%d", mode))
		w.beginCycle(script)
		// 1/6 of the cycles: the process is killed in the middle of the cycle (between two evictions) and restarted;
		// 1/10: the first Deschedule plugin reports an error, which ends the cycle before the Balance phase
		scripted := 0
		for ph := 1; ph <= 2; ph++ {
			for _, seg := range script[ph] {
				scripted += len(seg)
			}
		}
		if fx != nil {
			// no kill, no plugin error
		} else if scripted >= 2 && r.Chance(1, 6) {
			w.crashAt = r.Range(1, scripted-1)
		} else if r.Chance(1, 10) {
			w.errPhase1 = true
		}
		wantErr := w.errPhase1
		var cerr error
		crashed := false
		panicked := h.Guard(func() {
			defer func() {
				if x := recover(); x != nil {
					if _, ok := x.(c16cyCrash); !ok {
						panic(x)
					}
					crashed = true
				}
			}()
			cerr = d.deschedulerOnce(context.TODO())
		})

		w.mu.Lock()
		attempts := append([]c16cyAttempt(nil), w.attempts...)
		api := append([]c16cyAPIReq(nil), w.api...)
		taken := w.taken
		w.mu.Unlock()

		// ---- op line from the ACTUAL attempt order
		n1, n2, interleaved := 0, 0, false
		var ob strings.Builder
		for _, a := range attempts {
			if a.phase == 1 {
				n1++
				if n2 > 0 {
					interleaved = true
				}
			} else {
				n2++
			}
			fmt.Fprintf(&ob, " %d %d %d", a.spec.node, a.spec.ns, vB(a.spec.apiOk))
		}
		h.Op("cyc %d %d%s", n1, n2, ob.String())
		if panicked {
			h.Obs("panic")
			h.Fail("C16:panic", "deschedulerOnce panicked in cycle %d after %d attempts", c, len(attempts))
			return
		}
		if interleaved {
			h.Tag("cyc:interleaved-phases")
		}
		if taken[1] != nprof || taken[2] != nprof {
			h.Tag("cyc:plugin-invocations-unexpected")
		}

		// ---- observations
		reqs, succ := map[string]int{}, map[string]int{}
		for _, q := range api {
			reqs[q.name]++
			if q.ok {
				succ[q.name]++
			}
		}
		for _, a := range attempts {
			h.Obs("a %d %d", vB(a.ok), vB(reqs[c16cyPodName(a.spec.seq)] > 0))
		}
		rt, rn, rs := c16cyReported(el)
		h.Obs("ctr %s", c16cyCtr(rt, rn, rs))

		// ---- oracle (from the API record and the script only)
		nfails := len(h.fails)
		if cerr != nil && !wantErr {
			h.Fail("C16:cycle-error", "deschedulerOnce returned an error in cycle %d: %v", c, cerr)
		}
		if wantErr {
			h.Tag(fmt.Sprintf("cyc:plugin-error,returned=%d,balance-ran=%d", vB(cerr != nil), vB(n2 > 0)))
		}
		tl, p1, p2 := c16cyNewTally(), c16cyNewTally(), c16cyNewTally()
		refused := 0
		attempted := map[string]bool{}
		for i, a := range attempts {
			name := c16cyPodName(a.spec.seq)
			attempted[name] = true
			nreq, nsucc := reqs[name], succ[name]
			h.Tag(fmt.Sprintf("a:ok=%d,called=%d", vB(a.ok), vB(nreq > 0)))
			if dry && nreq > 0 {
				h.Fail("C16:cycle-dryrun-call", "dry-run sent %d eviction requests for attempt %d (%s)", nreq, i, name)
			}
			if nreq > 1 || a.plugCalls > 1 {
				h.Fail("C16:cycle-double-call", "attempt %d (%s): %d evict plugin calls, %d API eviction requests for one eviction", i, name, a.plugCalls, nreq)
			}
			if !a.ok && a.plugCalls == 0 {
				refused++
				if nreq > 0 {
					h.Fail("C16:cycle-result-wrong", "attempt %d (%s) was refused without calling the evict plugin but %d API eviction requests were received", i, name, nreq)
				}
			}
			if !dry {
				if a.ok && nsucc != 1 {
					h.Fail("C16:cycle-result-wrong", "attempt %d (%s): Evict returned true but %d successful API eviction requests were received", i, name, nsucc)
				}
				if !a.ok && nsucc > 0 {
					h.Fail("C16:cycle-result-wrong", "attempt %d (%s): Evict returned false but the eviction was issued (%d successful API requests)", i, name, nsucc)
				}
			}
			issued := nsucc > 0
			if dry && a.ok {
				issued = true // dry-run: the would-be eviction counts against the caps (nothing is issued)
			}
			if issued {
				tl.add(a.spec.node, a.spec.ns)
				if a.phase == 1 {
					p1.add(a.spec.node, a.spec.ns)
				} else {
					p2.add(a.spec.node, a.spec.ns)
				}
			}
		}
		for name, k := range reqs {
			if !attempted[name] {
				h.Fail("C16:cycle-result-wrong", "%d API eviction requests for pod %s which no plugin tried to evict in this cycle", k, name)
			}
		}
		c16cyCheckCaps(h, tl, p1, p2, capNode, capNs, capTotal)
		if rt != tl.total || !c16cySameMap(rn, tl.node) || !c16cySameMap(rs, tl.ns) {
			h.Fail("C16:cycle-counter-mismatch", "cycle %d: limiter reports %s, issued in this cycle %s (Deschedule phase %s; Balance phase %s)",
				c, c16cyCtr(rt, rn, rs), c16cyCtr(tl.total, tl.node, tl.ns), c16cyCtr(p1.total, p1.node, p1.ns), c16cyCtr(p2.total, p2.node, p2.ns))
		}

		if len(h.fails) > nfails {
			return // keep the failing history short: later cycles of this case add nothing
		}
		// informational (no property clause: the caps are per cycle, and a restarted process starts a new cycle with a
		// new limiter): evictions of a killed cycle + the first cycle after the restart, against the caps
		if prev != nil {
			over := (capTotal >= 0 && prev.total+tl.total > capTotal)
			for k, v := range tl.node {
				over = over || (capNode >= 0 && prev.node[k]+v > capNode)
			}
			for k, v := range tl.ns {
				over = over || (capNs >= 0 && prev.ns[k]+v > capNs)
			}
			h.Tag(fmt.Sprintf("restart:killed-cycle+next-cycle-over-cap=%d", vB(over)))
			prev = nil
		}
		if crashed {
			h.Tag(fmt.Sprintf("cyc:killed-after=%s", c16cyBucket(len(attempts))))
			prev = tl
			d, el = build()
			if src != nil {
				src.opStart(h) // the restarted process reads its configuration file again
			} else {
				h.Op("cy %d %d %d %d", vB(dry), capNode, capNs, capTotal)
			}
			h.Tag("op:restart")
		}

		// ---- distribution
		switch {
		case refused == 0:
			h.Tag("cyc:refused=0")
		case refused == 1:
			h.Tag("cyc:refused=1")
		default:
			h.Tag("cyc:refused=2+")
		}
		h.Tag(fmt.Sprintf("cyc:p1issued=%d", p1.total))
		h.Tag(fmt.Sprintf("cyc:p2issued=%d", p2.total))
		h.Tag(fmt.Sprintf("cyc:attempts=%s", c16cyBucket(len(attempts))))
		if p1.total > 0 && p2.total > 0 {
			h.Tag("cyc:both-phases-issued")
			if refused > 0 {
				h.Tag("cyc:both-phases-issued+refusal")
				h.Nontrivial()
			}
		}
	}
}

// the limiter logs every refusal with klog.ErrorS; keep the run quiet
func c16cyQuiet() {
	kfs := flag.NewFlagSet("c16cy-klog", flag.ContinueOnError)
	klog.InitFlags(kfs)
	_ = kfs.Set("logtostderr", "false")
	_ = kfs.Set("alsologtostderr", "false")
	_ = kfs.Set("stderrthreshold", "FATAL")
	klog.LogToStderr(false)
	klog.SetOutput(io.Discard)
}

func c16cyBucket(n int) string {
	switch {
	case n == 0:
		return "0"
	case n <= 4:
		return "1-4"
	case n <= 9:
		return "5-9"
	case n <= 19:
		return "10-19"
	default:
		return "20+"
	}
}

// c16cyWaitSynced waits for the informers New() created.  informerFactory.WaitForCacheSync polls every 100 ms,
// which would dominate the run time, so the HasSynced flags are polled tightly first.
func c16cyWaitSynced(f informers.SharedInformerFactory, stop <-chan struct{}) {
	infs := []cache.SharedIndexInformer{
		f.Core().V1().Nodes().Informer(),
		f.Core().V1().Pods().Informer(),
		f.Core().V1().Namespaces().Informer(),
		f.Scheduling().V1().PriorityClasses().Informer(),
	}
	deadline := time.Now().Add(30 * time.Second)
	for {
		all := true
		for _, inf := range infs {
			if !inf.HasSynced() {
				all = false
				break
			}
		}
		if all {
			break
		}
		if time.Now().After(deadline) {
			panic("c16cy: informers did not sync")
		}
		time.Sleep(100 * time.Microsecond)
	}
	for typ, ok := range f.WaitForCacheSync(stop) {
		if !ok {
			panic(fmt.Sprintf("c16cy: informer %v did not sync", typ))
		}
	}
}
