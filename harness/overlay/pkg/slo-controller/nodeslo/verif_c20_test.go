//go:build verif

package nodeslo

import (
	"bytes"
	"encoding/json"
	"fmt"
	"hash/fnv"
	"sort"
	"strings"
	"testing"

	corev1 "k8s.io/api/core/v1"
	"k8s.io/apimachinery/pkg/api/resource"
	"k8s.io/client-go/tools/record"

	"github.com/koordinator-sh/koordinator/apis/configuration"
	"github.com/koordinator-sh/koordinator/apis/extension"
	slov1alpha1 "github.com/koordinator-sh/koordinator/apis/slo/v1alpha1"
	"github.com/koordinator-sh/koordinator/pkg/util/sloconfig"
)

// C20 harness: one case = a history of slo-controller ConfigMap events on ONE real
// SLOCfgHandlerForConfigMapEvent, with getNodeSLOSpec probes for a few label sets after every
// event.  Strategies cross the boundary as flattened (path, value) lists of their JSON form.
// The oracle keeps the raw generated JSON trees and evaluates the layering statement path by path.

// ---------------------------------------------------------------- JSON key numbering

// key 0 is the object/array marker, key 1 must be totalNetworkBandwidth (Model/C20.lean tnbPath).
var c20KeyNames = []string{"totalNetworkBandwidth",
	"enable", "cpuSuppressThresholdPercent", "cpuSuppressMinPercent", "cpuSuppressPolicy", "memoryEvictThresholdPercent",
	"memoryEvictLowerPercent", "memoryAllocatableEvictThresholdPercent", "memoryAllocatableEvictLowerPercent",
	"cpuEvictBESatisfactionUpperPercent", "cpuEvictBESatisfactionLowerPercent", "cpuEvictBEUsageThresholdPercent",
	"cpuEvictTimeWindowSeconds", "cpuEvictThresholdPercent", "cpuEvictLowerPercent", "cpuAllocatableEvictThresholdPercent",
	"cpuAllocatableEvictLowerPercent", "cpuEvictPolicy", "evictEnabledPriorityThreshold", "allocatableEvictPriorityThreshold",
	"policy", "cpuBurstPercent", "cfsQuotaBurstPercent", "cfsQuotaBurstPeriodSeconds", "sharePoolThresholdPercent",
	"minFreeKbytesFactor", "watermarkScaleFactor", "memcgReapBackGround", "schedGroupIdentityEnabled", "schedIdleSaverWmark",
	"schedFeatures", "pageCacheLimitEnabled", "fa", "fb", "fc",
	"policies", "cpuPolicy", "netQOSPolicy", "lsrClass", "lsClass", "beClass", "systemClass", "cgroupRoot",
	"cpuQOS", "memoryQOS", "blkioQOS", "resctrlQOS", "networkQOS",
	"groupIdentity", "schedIdle", "coreExpeller",
	"minLimitPercent", "lowLimitPercent", "throttlingPercent", "wmarkRatio", "wmarkScalePermill", "wmarkMinAdj",
	"priorityEnable", "priority", "oomKillGroup", "pageCacheEnable", "pageCacheLimitPercent", "pageCacheLimitSize", "pageCacheReclaimSync",
	"blocks", "name", "type", "ioCfg", "readIOPS", "writeIOPS", "readBPS", "writeBPS", "ioWeightPercent",
	"catRangeStartPercent", "catRangeEndPercent", "mbaPercent",
	"ingressRequest", "ingressLimit", "egressRequest", "egressLimit",
	"qos", "cgroupPath", "base", "parentDir", "relativePath", "strategy",
}

var c20KeyID = func() map[string]int {
	m := map[string]int{}
	for i, n := range c20KeyNames {
		m[n] = i + 1
	}
	return m
}()

func c20Hash(s string) uint32 {
	f := fnv.New32a()
	f.Write([]byte(s))
	return f.Sum32()
}

func c20Key(name string) int {
	if id, ok := c20KeyID[name]; ok {
		return id
	}
	return 100000 + int(c20Hash(name)%800000)
}

func c20KeyName(id int) string {
	if id >= 1 && id <= len(c20KeyNames) {
		return c20KeyNames[id-1]
	}
	return fmt.Sprintf("k%d", id)
}

func c20StrCode(s string) int64 { return 1000000 + int64(c20Hash(s)%1000000000) }

// ---------------------------------------------------------------- flattening of a JSON value

type c20Entry struct {
	path []int
	v    int64
}

func c20PathLess(a, b []int) bool {
	for i := 0; i < len(a) && i < len(b); i++ {
		if a[i] != b[i] {
			return a[i] < b[i]
		}
	}
	return len(a) < len(b)
}

func c20PathStr(p []int) string { return vIntsI(p) }

func c20Cat(p []int, k int) []int {
	q := make([]int, len(p)+1)
	copy(q, p)
	q[len(p)] = k
	return q
}

// c20Flatten: objects -> marker (path+[0], -1), arrays -> marker (path+[0], len) and elements under i+1,
// scalars -> integer code.  JSON null is skipped.
func c20Flatten(v interface{}, path []int, key string, out *[]c20Entry) {
	switch x := v.(type) {
	case map[string]interface{}:
		*out = append(*out, c20Entry{c20Cat(path, 0), -1})
		for k, c := range x {
			c20Flatten(c, c20Cat(path, c20Key(k)), k, out)
		}
	case []interface{}:
		*out = append(*out, c20Entry{c20Cat(path, 0), int64(len(x))})
		for i, c := range x {
			c20Flatten(c, c20Cat(path, i+1), "", out)
		}
	case json.Number:
		if n, err := x.Int64(); err == nil {
			*out = append(*out, c20Entry{path, n})
		} else {
			*out = append(*out, c20Entry{path, c20StrCode(x.String())})
		}
	case int:
		*out = append(*out, c20Entry{path, int64(x)})
	case int64:
		*out = append(*out, c20Entry{path, x})
	case bool:
		*out = append(*out, c20Entry{path, int64(vB(x))})
	case string:
		if key == "totalNetworkBandwidth" {
			if q, err := resource.ParseQuantity(x); err == nil {
				*out = append(*out, c20Entry{path, q.Value()})
				return
			}
		}
		*out = append(*out, c20Entry{path, c20StrCode(x)})
	case nil:
	default:
		*out = append(*out, c20Entry{path, c20StrCode(fmt.Sprint(x))})
	}
}

func c20FlatSorted(v interface{}) []c20Entry {
	var out []c20Entry
	c20Flatten(v, nil, "", &out)
	sort.Slice(out, func(i, j int) bool { return c20PathLess(out[i].path, out[j].path) })
	return out
}

// c20FlatOfGo: JSON form (json.Marshal of the repo's own type) of a Go value, flattened.
func c20FlatOfGo(x interface{}) []c20Entry {
	b, err := json.Marshal(x)
	if err != nil {
		panic(err)
	}
	d := json.NewDecoder(bytes.NewReader(b))
	d.UseNumber()
	var v interface{}
	if err := d.Decode(&v); err != nil {
		panic(err)
	}
	return c20FlatSorted(v)
}

func c20Line(e c20Entry) string {
	if len(e.path) == 0 {
		return fmt.Sprintf("%d", e.v)
	}
	return fmt.Sprintf("%d %s", e.v, vIntsI(e.path))
}

// ---------------------------------------------------------------- schema-driven generator of raw JSON trees

const (
	c20Int = iota
	c20Bool
	c20Enum
	c20Obj
	c20Arr    // array of objects (sub = element fields)
	c20Map    // map[string]bool with keys fa, fb, fc
	c20IntStr // intstr.IntOrString
	c20Qty    // resource.Quantity
	c20Str    // free string from a small pool
)

type c20F struct {
	name string
	kind int
	sub  []c20F
	enum []string
}

func c20Ints(names ...string) []c20F {
	fs := make([]c20F, len(names))
	for i, n := range names {
		fs[i] = c20F{name: n, kind: c20Int}
	}
	return fs
}

var c20ThrSchema = append([]c20F{
	{name: "enable", kind: c20Bool},
	{name: "cpuSuppressPolicy", kind: c20Enum, enum: []string{"cpuset", "cfsQuota"}},
	{name: "cpuEvictPolicy", kind: c20Enum, enum: []string{"evictByRealLimit", "evictByAllocatable"}},
}, c20Ints("cpuSuppressThresholdPercent", "cpuSuppressMinPercent", "memoryEvictThresholdPercent", "memoryEvictLowerPercent",
	"memoryAllocatableEvictThresholdPercent", "memoryAllocatableEvictLowerPercent", "cpuEvictBESatisfactionUpperPercent",
	"cpuEvictBESatisfactionLowerPercent", "cpuEvictBEUsageThresholdPercent", "cpuEvictTimeWindowSeconds", "cpuEvictThresholdPercent",
	"cpuEvictLowerPercent", "cpuAllocatableEvictThresholdPercent", "cpuAllocatableEvictLowerPercent",
	"evictEnabledPriorityThreshold", "allocatableEvictPriorityThreshold")...)

var c20BurstSchema = append([]c20F{
	{name: "policy", kind: c20Enum, enum: []string{"none", "cpuBurstOnly", "cfsQuotaBurstOnly", "auto"}},
}, c20Ints("cpuBurstPercent", "cfsQuotaBurstPercent", "cfsQuotaBurstPeriodSeconds", "sharePoolThresholdPercent")...)

var c20SysSchema = append([]c20F{
	{name: "totalNetworkBandwidth", kind: c20Qty},
	{name: "schedFeatures", kind: c20Map},
}, c20Ints("minFreeKbytesFactor", "watermarkScaleFactor", "memcgReapBackGround", "schedGroupIdentityEnabled", "schedIdleSaverWmark",
	"pageCacheLimitEnabled")...)

var c20ResQOS = []c20F{
	{name: "cpuQOS", kind: c20Obj, sub: append([]c20F{{name: "enable", kind: c20Bool}, {name: "coreExpeller", kind: c20Bool}},
		c20Ints("groupIdentity", "schedIdle")...)},
	{name: "memoryQOS", kind: c20Obj, sub: append([]c20F{{name: "enable", kind: c20Bool}, {name: "pageCacheEnable", kind: c20Bool},
		{name: "pageCacheReclaimSync", kind: c20Bool}},
		c20Ints("minLimitPercent", "lowLimitPercent", "throttlingPercent", "wmarkRatio", "wmarkScalePermill", "wmarkMinAdj",
			"priorityEnable", "priority", "oomKillGroup", "pageCacheLimitPercent", "pageCacheLimitSize")...)},
	{name: "blkioQOS", kind: c20Obj, sub: []c20F{{name: "enable", kind: c20Bool},
		{name: "blocks", kind: c20Arr, sub: []c20F{
			{name: "name", kind: c20Str, enum: []string{"sda", "sdb", "vg0"}},
			{name: "type", kind: c20Enum, enum: []string{"device", "volumegroup", "podvolume"}},
			{name: "ioCfg", kind: c20Obj, sub: c20Ints("readIOPS", "writeIOPS", "readBPS", "writeBPS", "ioWeightPercent")},
		}}}},
	{name: "resctrlQOS", kind: c20Obj, sub: append([]c20F{{name: "enable", kind: c20Bool}},
		c20Ints("catRangeStartPercent", "catRangeEndPercent", "mbaPercent")...)},
	{name: "networkQOS", kind: c20Obj, sub: []c20F{{name: "enable", kind: c20Bool},
		{name: "ingressRequest", kind: c20IntStr}, {name: "ingressLimit", kind: c20IntStr},
		{name: "egressRequest", kind: c20IntStr}, {name: "egressLimit", kind: c20IntStr}}},
}

var c20QOSSchema = []c20F{
	{name: "policies", kind: c20Obj, sub: []c20F{
		{name: "cpuPolicy", kind: c20Enum, enum: []string{"groupIdentity", "coreSched"}},
		{name: "netQOSPolicy", kind: c20Enum, enum: []string{"tc", "terway-qos"}}}},
	{name: "lsrClass", kind: c20Obj, sub: c20ResQOS},
	{name: "lsClass", kind: c20Obj, sub: c20ResQOS},
	{name: "beClass", kind: c20Obj, sub: c20ResQOS},
	{name: "systemClass", kind: c20Obj, sub: c20ResQOS},
	{name: "cgroupRoot", kind: c20Obj, sub: c20ResQOS},
}

var c20AppSchema = []c20F{
	{name: "name", kind: c20Str, enum: []string{"nginx", "redis", "agent"}},
	{name: "priority", kind: c20Enum, enum: []string{"koord-prod", "koord-mid", "koord-batch"}},
	{name: "qos", kind: c20Enum, enum: []string{"LS", "BE", "LSR"}},
	{name: "cgroupPath", kind: c20Obj, sub: []c20F{
		{name: "base", kind: c20Enum, enum: []string{"CgroupRoot", "Kubepods", "KubepodsBurstable"}},
		{name: "parentDir", kind: c20Str, enum: []string{"host-latency-sensitive/", "host-best-effort/"}},
		{name: "relativePath", kind: c20Str, enum: []string{"nginx/", "redis/"}}}},
}

var c20SecSchemas = [][]c20F{c20ThrSchema, c20QOSSchema, c20BurstSchema, c20SysSchema}
var c20SecNames = []string{"thr", "qos", "burst", "system", "host"}
var c20SecKeys = []string{configuration.ResourceThresholdConfigKey, configuration.ResourceQOSConfigKey,
	configuration.CPUBurstConfigKey, configuration.SystemConfigKey, configuration.HostApplicationConfigKey}

type c20J = map[string]interface{}

var c20IntPool = []int64{0, 1, 2, 3, 50, 65, 100}

// c20GenObj: each field present with probability pct/100; `degen` allows the degenerate spellings
// (null, "", [], {} map, unknown key) that must all behave as "not set".
func c20GenObj(r *vRand, fs []c20F, pct int, degen bool, depth int) c20J {
	o := c20J{}
	for _, f := range fs {
		if !r.Chance(pct, 100) {
			continue
		}
		if degen && r.Chance(1, 14) {
			switch f.kind {
			case c20Enum, c20Str:
				if r.Bool() {
					o[f.name] = ""
				} else {
					o[f.name] = nil
				}
			case c20Arr:
				o[f.name] = []interface{}{}
			case c20Map:
				o[f.name] = c20J{}
			default:
				o[f.name] = nil
			}
			continue
		}
		switch f.kind {
		case c20Int:
			o[f.name] = r.Pick(c20IntPool)
		case c20Bool:
			o[f.name] = r.Bool()
		case c20Enum, c20Str:
			o[f.name] = f.enum[r.Intn(len(f.enum))]
		case c20Obj:
			sub := pct
			if depth == 0 && len(f.sub) > 4 {
				sub = pct * 2 / 3
			}
			o[f.name] = c20GenObj(r, f.sub, sub, degen, depth+1)
		case c20Arr:
			n := r.Range(1, 3)
			arr := make([]interface{}, n)
			for i := range arr {
				arr[i] = c20GenObj(r, f.sub, 60, false, depth+1)
			}
			o[f.name] = arr
		case c20Map:
			m := c20J{}
			for _, k := range []string{"fa", "fb", "fc"} {
				if r.Bool() {
					m[k] = r.Bool()
				}
			}
			o[f.name] = m
		case c20IntStr:
			if r.Bool() {
				o[f.name] = int64(r.Range(0, 100))
			} else {
				o[f.name] = []string{"50M", "100M", "1G"}[r.Intn(3)]
			}
		case c20Qty:
			o[f.name] = []string{"0", "1000M", "1G", "10G", "500", "100M"}[r.Intn(6)]
		}
	}
	if degen && r.Chance(1, 20) {
		o["x_unknown"] = r.Pick(c20IntPool)
	}
	return o
}

func c20GenApps(r *vRand) []interface{} {
	n := r.Range(0, 3)
	arr := make([]interface{}, n)
	for i := range arr {
		arr[i] = c20GenObj(r, c20AppSchema, 70, false, 1)
	}
	return arr
}

// ---- selectors

type c20Req struct {
	key, op int // op: 0 In, 1 NotIn, 2 Exists, 3 DoesNotExist
	vals    []int
}

type c20Sel struct {
	kind int // 0 nil, 1 invalid, 2 requirements
	reqs []c20Req
	json interface{} // the nodeSelector value; nil = omit the key
}

var c20LabelKeys = []string{"", "la", "lb", "lc"}
var c20LabelVals = []string{"", "x", "y", "z"}
var c20OpNames = []string{"In", "NotIn", "Exists", "DoesNotExist"}

func c20GenSel(r *vRand) c20Sel {
	switch r.Intn(12) {
	case 0:
		return c20Sel{kind: 0}
	case 1:
		bad := []interface{}{
			c20J{"matchExpressions": []interface{}{c20J{"key": "la", "operator": "Bad", "values": []interface{}{"x"}}}},
			c20J{"matchExpressions": []interface{}{c20J{"key": "la", "operator": "In", "values": []interface{}{}}}},
			c20J{"matchExpressions": []interface{}{c20J{"key": "la", "operator": "Exists", "values": []interface{}{"x"}}}},
			c20J{"matchLabels": c20J{"la": "not a valid value!"}},
		}
		return c20Sel{kind: 1, json: bad[r.Intn(len(bad))]}
	}
	s := c20Sel{kind: 2}
	j := c20J{}
	nl := r.Intn(3)
	if r.Chance(1, 8) {
		nl = 0
	}
	ml := c20J{}
	for _, ki := range r.Perm(3)[:nl] {
		k, v := ki+1, r.Range(1, 2)
		ml[c20LabelKeys[k]] = c20LabelVals[v]
		s.reqs = append(s.reqs, c20Req{key: k, op: 0, vals: []int{v}})
	}
	if len(ml) > 0 || r.Bool() {
		j["matchLabels"] = ml
	}
	if r.Chance(1, 4) {
		k, op := r.Range(1, 3), r.Intn(4)
		e := c20J{"key": c20LabelKeys[k], "operator": c20OpNames[op]}
		q := c20Req{key: k, op: op}
		if op <= 1 {
			vs := []interface{}{}
			for _, vi := range r.Perm(3)[:r.Range(1, 2)] {
				vs = append(vs, c20LabelVals[vi+1])
				q.vals = append(q.vals, vi+1)
			}
			e["values"] = vs
		}
		j["matchExpressions"] = []interface{}{e}
		s.reqs = append(s.reqs, q)
	}
	s.json = j
	return s
}

// the oracle's own reading of label selectors (conjunction; NotIn/DoesNotExist hold for a missing key)
func c20SelMatches(s c20Sel, labels map[int]int) bool {
	if s.kind != 2 {
		return false
	}
	for _, q := range s.reqs {
		v, ok := labels[q.key]
		in := false
		for _, x := range q.vals {
			if ok && x == v {
				in = true
			}
		}
		switch q.op {
		case 0:
			if !in {
				return false
			}
		case 1:
			if in {
				return false
			}
		case 2:
			if !ok {
				return false
			}
		case 3:
			if ok {
				return false
			}
		}
	}
	return true
}

// ---- one section of a ConfigMap as generated

type c20NodeRaw struct {
	sel   c20Sel
	strat c20J          // strategy fields (inline); nil = none
	apps  []interface{} // host section
	name  string        // the entry's profile name (NodeCfgProfile.Name)
	named bool          // false: the entry carries no "name" key at all (name == "")
}

// c20GenNames: the profile names of a section's n node entries.  Names are documentation only ("like ID ... useful for
// console"): the statement selects the first matching entry in DOCUMENT order whatever the names are.  Modes: 0 no names,
// 1 all named in lexical order, 2 all named, out of lexical order, 3 all named with duplicates, 4 partly named
// (some entries without the key or with ""), 5 the legacy e0,e1,.. numbering.
func c20GenNames(r *vRand, n int) ([]c20NodeRaw, int) {
	out := make([]c20NodeRaw, n)
	mode := r.Intn(6)
	pool := []string{"a", "b", "c", "d", "B", "a1", "z", "node-pool-1", "10", "9"}
	sorted := append([]string{}, pool...)
	sort.Strings(sorted)
	switch mode {
	case 0:
	case 1:
		start := r.Intn(len(sorted) - n + 1)
		for i := range out {
			out[i].name, out[i].named = sorted[start+i], true
		}
	case 2:
		start := r.Intn(len(sorted) - n + 1)
		for i := range out { // strictly descending: every pair is out of order
			out[i].name, out[i].named = sorted[start+n-1-i], true
		}
		if n > 2 && r.Bool() { // or some other non-sorted arrangement
			pm := r.Perm(n)
			for i := range out {
				out[i].name = sorted[start+pm[i]]
			}
		}
	case 3:
		for i := range out {
			out[i].name, out[i].named = []string{"dup", "a"}[r.Intn(2)], true
		}
		if n > 1 {
			out[n-1].name = out[0].name
		}
	case 4:
		for i := range out {
			switch r.Intn(3) {
			case 0:
				out[i].name, out[i].named = pool[r.Intn(len(pool))], true
			case 1:
				out[i].name, out[i].named = "", true // explicit ""
			}
		}
		if n > 0 {
			k := r.Intn(n)
			out[k].name, out[k].named = "", r.Bool()
		}
	default:
		for i := range out {
			out[i].name, out[i].named = fmt.Sprintf("e%d", i), true
		}
	}
	return out, mode
}

// c20NameClass: how the profile names of a section's entries relate to their document order.
func c20NameClass(nodes []c20NodeRaw) string {
	unnamed, dup, asc := 0, false, true
	seen := map[string]bool{}
	for i, n := range nodes {
		if n.name == "" {
			unnamed++
			continue
		}
		if seen[n.name] {
			dup = true
		}
		seen[n.name] = true
		if i > 0 && !(nodes[i-1].name < n.name) {
			asc = false
		}
	}
	switch {
	case unnamed == len(nodes):
		return "absent"
	case unnamed > 0:
		return "partly"
	case dup:
		return "duplicates"
	case asc:
		return "in-order"
	}
	return "out-of-order"
}

// c20NameSortedFirst: which of the matching entries a reading "smallest profile name first" (stable) would take, given the
// section's entries; -1 when that reading does not apply (some entry unnamed).  Only used to TAG inputs on which document
// order and name order disagree.
func c20NameSortedFirst(nodes []c20NodeRaw, matching []int) int {
	for _, n := range nodes {
		if n.name == "" {
			return -1
		}
	}
	best := -1
	for _, i := range matching {
		if best < 0 || nodes[i].name < nodes[best].name {
			best = i
		}
	}
	return best
}

type c20SecRaw struct {
	state   int // 0 absent, 1 malformed, 2 parsed
	cluster c20J
	apps    []interface{}
	nodes   []c20NodeRaw
	text    string
}

func c20Marshal(v interface{}) string {
	b, err := json.Marshal(v)
	if err != nil {
		panic(err)
	}
	return string(b)
}

func c20GenSection(r *vRand, sec int) c20SecRaw {
	s := c20SecRaw{state: 2}
	switch r.Intn(20) {
	case 0, 1, 2:
		s.state = 0
		return s
	case 3:
		s.text = []string{"{}", "null", " {} "}[r.Intn(3)]
		return s
	}
	pct := []int{12, 30, 60, 95}[r.Intn(4)]
	if sec == 1 { // the QoS tree is large; keep cases readable
		pct = []int{8, 15, 30, 60}[r.Intn(4)]
	}
	degen := r.Chance(1, 3)
	top := c20J{}
	if sec == 4 {
		if r.Chance(4, 5) {
			s.apps = c20GenApps(r)
			top["applications"] = s.apps
		}
	} else if r.Chance(5, 6) {
		s.cluster = c20GenObj(r, c20SecSchemas[sec], pct, degen, 0)
		top["clusterStrategy"] = s.cluster
	} else if r.Chance(1, 3) {
		top["clusterStrategy"] = nil
	}
	nn := r.Intn(4)
	var nodes []interface{}
	names, _ := c20GenNames(r, nn)
	overlap := nn > 1 && r.Chance(1, 3) // overlapping selectors on purpose: a later entry repeats (or widens to match-all) an earlier selector
	for i := 0; i < nn; i++ {
		n := c20NodeRaw{sel: c20GenSel(r), name: names[i].name, named: names[i].named}
		if overlap && i > 0 && s.nodes[0].sel.kind == 2 {
			if r.Bool() {
				n.sel = s.nodes[0].sel
			} else {
				n.sel = c20Sel{kind: 2, json: c20J{}}
			}
		}
		e := c20J{}
		if sec == 4 {
			if r.Chance(5, 6) {
				n.apps = c20GenApps(r)
				e["applications"] = n.apps
			}
		} else if r.Chance(7, 8) {
			n.strat = c20GenObj(r, c20SecSchemas[sec], pct, degen, 0)
			for k, v := range n.strat {
				e[k] = v
			}
		}
		if n.named {
			e["name"] = n.name
		}
		if n.sel.json != nil {
			e["nodeSelector"] = n.sel.json
		} else if r.Bool() {
			e["nodeSelector"] = nil
		}
		nodes = append(nodes, e)
		s.nodes = append(s.nodes, n)
	}
	if nn > 0 || r.Chance(1, 4) {
		key := "nodeStrategies"
		if sec == 4 {
			key = "nodeConfigs"
		}
		if nodes == nil {
			nodes = []interface{}{}
		}
		top[key] = nodes
	}
	s.text = c20Marshal(top)
	if r.Chance(3, 20) { // malformed stream: the section must keep its previously effective settings
		s.state = 1
		if r.Chance(2, 5) { // not ONE JSON value, but the text STARTS with a complete one (a lenient stream decoder would apply it)
			s.text = c20PrefixValidMalformed(r, s.text)
			return s
		}
		switch r.Intn(6) {
		case 0:
			s.text = s.text[:len(s.text)-1-r.Intn(len(s.text)/2+1)]
			if s.text == "" {
				s.text = "{"
			}
		case 1:
			s.text = "invalid_content"
		case 2:
			s.text = []string{"[]", "\"str\"", "3", "true"}[r.Intn(4)]
		case 3:
			s.text = ""
		case 4: // well-formed JSON, wrong type in the cluster part
			if sec == 4 {
				s.text = `{"applications":{"name":"x"}}`
			} else {
				s.text = `{"clusterStrategy":[1,2],"nodeStrategies":[]}`
			}
		default: // well-formed JSON, wrong type deep inside a node entry (after valid parts)
			bad := c20J{"name": "bad", "nodeSelector": c20J{}}
			switch sec {
			case 0:
				bad["cpuSuppressThresholdPercent"] = "abc"
			case 1:
				bad["beClass"] = "abc"
			case 2:
				bad["cpuBurstPercent"] = c20J{}
			case 3:
				bad["schedFeatures"] = c20J{"fa": 3}
			default:
				bad["applications"] = "abc"
			}
			key := "nodeStrategies"
			if sec == 4 {
				key = "nodeConfigs"
			}
			top[key] = append(append([]interface{}{}, nodes...), bad)
			s.text = c20Marshal(top)
		}
	} else if r.Chance(1, 8) { // surrounding JSON whitespace: still exactly one JSON value, must be APPLIED
		s.text = []string{" ", "\n", "\t \r\n"}[r.Intn(3)] + s.text + []string{" ", "\n", " \r\n\t"}[r.Intn(3)]
	}
	return s
}

// c20PrefixValidMalformed: a text that is not exactly one JSON value although its PREFIX `valid` (or `{}` / `null`) is a
// complete JSON value: one closing brace too many, two pasted documents, a leading `{}`, trailing junk, a byte-order mark.
func c20PrefixValidMalformed(r *vRand, valid string) string {
	switch r.Intn(9) {
	case 0:
		return valid + "}"
	case 1:
		return valid + valid
	case 2:
		return "{}" + valid
	case 3:
		return valid + " \n junk"
	case 4:
		return "null" + []string{"x", " " + valid, "}"}[r.Intn(3)]
	case 5:
		return valid + "\n" + `{"clusterStrategy":null}`
	case 6:
		return valid + []string{",", "]", "0", "\"\"", "\x00"}[r.Intn(5)]
	case 7:
		return " " + valid + " }"
	default:
		return "\ufeff" + valid // byte-order mark: not JSON whitespace
	}
}

// c20StrictValid is the oracle's own reading of "the section can be parsed": the WHOLE text is exactly one JSON value
// (optionally surrounded by JSON whitespace) - decided on the text alone, never from what the code under test accepted.
func c20StrictValid(text string) bool { return json.Valid([]byte(text)) }

// c20ValidPrefix: the text is NOT one JSON value, but it starts with one (what a stream decoder would take and apply).
func c20ValidPrefix(text string) bool {
	if c20StrictValid(text) {
		return false
	}
	var v interface{}
	return json.NewDecoder(strings.NewReader(text)).Decode(&v) == nil
}

// ---------------------------------------------------------------- oracle helpers (raw trees, path by path)

// c20Norm: the statement's "sets the field": JSON null, "", [] and unknown keys set nothing; a zero
// totalNetworkBandwidth (the one non-pointer scalar) sets nothing either.
func c20Norm(v interface{}, key string) (interface{}, bool) {
	switch x := v.(type) {
	case nil:
		return nil, false
	case string:
		if x == "" && key != "cpuPolicy" && key != "netQOSPolicy" {
			// plain string fields with omitempty: "" is "not set"; the two *string policy fields keep ""
			return nil, false
		}
		if key == "totalNetworkBandwidth" {
			if q, err := resource.ParseQuantity(x); err == nil && q.IsZero() {
				return nil, false
			}
		}
		return x, true
	case []interface{}:
		if len(x) == 0 {
			return nil, false
		}
		out := make([]interface{}, len(x))
		for i, e := range x {
			ne, ok := c20Norm(e, "")
			if !ok {
				ne = c20J{}
			}
			out[i] = ne
		}
		return out, true
	case map[string]interface{}:
		out := c20J{}
		for k, c := range x {
			if strings.HasPrefix(k, "x_") {
				continue
			}
			if nc, ok := c20Norm(c, k); ok {
				out[k] = nc
			}
		}
		return out, true
	}
	return v, true
}

// fields of a layer: leaf values and array lengths, keyed by path string (object markers dropped)
type c20Layer map[string]int64

func c20LayerOf(es []c20Entry) c20Layer {
	l := c20Layer{}
	for _, e := range es {
		if len(e.path) > 0 && e.path[len(e.path)-1] == 0 && e.v < 0 {
			continue
		}
		l[c20PathStr(e.path)] = e.v
	}
	return l
}

func c20LayerOfRaw(v interface{}) c20Layer {
	if v == nil {
		return c20Layer{}
	}
	n, ok := c20Norm(v, "")
	if !ok {
		return c20Layer{}
	}
	return c20LayerOf(c20FlatSorted(n))
}

func c20LayerOfApps(apps []interface{}) c20Layer {
	if len(apps) == 0 {
		return c20Layer{"0": 0}
	}
	return c20LayerOf(c20FlatSorted(apps))
}

func c20ParsePath(s string) []int {
	var p []int
	for _, t := range strings.Fields(s) {
		var x int
		fmt.Sscanf(t, "%d", &x)
		p = append(p, x)
	}
	return p
}

// a layer that sets an array hides, for the less specific layers, the elements beyond its length
func c20Hides(l c20Layer, p []int) bool {
	for i := 0; i < len(p); i++ {
		if n, ok := l[c20PathStr(c20Cat(p[:i], 0))]; ok && n >= 0 && int64(p[i]) > n {
			return true
		}
	}
	return false
}

// the statement: most specific layer that sets the field wins
func c20Expect(layers []c20Layer, p []int) (int64, bool) {
	ps := c20PathStr(p)
	for _, l := range layers {
		if v, ok := l[ps]; ok {
			return v, true
		}
		if c20Hides(l, p) {
			return 0, false
		}
	}
	return 0, false
}

func c20ExpectAll(layers []c20Layer) c20Layer {
	out := c20Layer{}
	for _, l := range layers {
		for ps := range l {
			if _, done := out[ps]; done {
				continue
			}
			if v, ok := c20Expect(layers, c20ParsePath(ps)); ok {
				out[ps] = v
			}
		}
	}
	return out
}

func c20LayerEq(a, b c20Layer) bool {
	if len(a) != len(b) {
		return false
	}
	for k, v := range a {
		if w, ok := b[k]; !ok || w != v {
			return false
		}
	}
	return true
}

// differing fields (sorted by path) between observed and expected
type c20Dif struct {
	p    []int
	what string
}

func c20Diffs(obs, exp c20Layer) []c20Dif {
	keys := map[string]bool{}
	for k := range obs {
		keys[k] = true
	}
	for k := range exp {
		keys[k] = true
	}
	var ps [][]int
	for k := range keys {
		ps = append(ps, c20ParsePath(k))
	}
	sort.Slice(ps, func(i, j int) bool { return c20PathLess(ps[i], ps[j]) })
	var out []c20Dif
	for _, p := range ps {
		o, ook := obs[c20PathStr(p)]
		e, eok := exp[c20PathStr(p)]
		if ook != eok || o != e {
			out = append(out, c20Dif{p, fmt.Sprintf("delivered %v(%d) expected %v(%d)", ook, o, eok, e)})
		}
	}
	return out
}

func c20PathNames(p []int) string {
	var ss []string
	for i, k := range p {
		if k == 0 {
			ss = append(ss, "#len")
		} else if i > 0 && k < 20 && p[i-1] == c20KeyID["blocks"] {
			ss = append(ss, fmt.Sprintf("[%d]", k-1))
		} else {
			ss = append(ss, c20KeyName(k))
		}
	}
	return strings.Join(ss, ".")
}

// ---------------------------------------------------------------- the harness

type c20Good struct { // the oracle's memory of the last parsable (or absent) content of a section
	absent bool
	sec    c20SecRaw
}

func TestVerifC20(t *testing.T) {
	h := vOpen("C20")
	if h == nil {
		t.Skip("VERIF_OUT not set")
	}
	// built-in defaults per section, as the oracle and the model receive them (pkg/util/sloconfig; the
	// slo-controller's built-in resource-QoS default is the empty strategy)
	defFlats := [][]c20Entry{
		c20FlatOfGo(sloconfig.DefaultResourceThresholdStrategy()),
		c20FlatOfGo(&slov1alpha1.ResourceQOSStrategy{}),
		c20FlatOfGo(sloconfig.DefaultCPUBurstStrategy()),
		c20FlatOfGo(sloconfig.DefaultSystemStrategy()),
	}
	defLayers := make([]c20Layer, 4)
	for i := range defFlats {
		defLayers[i] = c20LayerOf(defFlats[i])
	}

	n := h.N(3000, 40000)
	for idx := 0; idx < n; idx++ {
		r := h.Begin(idx)
		if r == nil {
			continue
		}
		for s, fl := range defFlats {
			for _, e := range fl {
				h.Op("def %d %s", s, c20Line(e))
			}
		}
		handler := NewSLOCfgHandlerForConfigMapEvent(nil, DefaultSLOCfg(), record.NewFakeRecorder(1024))
		rec := &NodeSLOReconciler{sloCfgCache: handler}

		good := make([]c20Good, 5)
		for s := range good {
			good[s] = c20Good{absent: true}
		}
		secBroken := make([]bool, 5) // report only the first failing probe of a section per case
		cur := make([]c20SecRaw, 5)  // the ConfigMap content as it evolves
		for s := range cur {
			cur[s] = c20SecRaw{state: 0}
		}
		oldSpecs := map[string]*slov1alpha1.NodeSLOSpec{}
		failed := map[string]bool{}
		fail := func(fp, format string, a ...interface{}) {
			if !failed[fp] {
				failed[fp] = true
				h.Fail(fp, format, a...)
			}
		}

		nEv := r.Range(1, 4)
		if r.Chance(1, 10) {
			nEv = r.Range(5, 7)
		}
		h.Tag(fmt.Sprintf("events:%d", nEv))
		for ev := 0; ev < nEv; ev++ {
			deleted := ev > 0 && r.Chance(1, 12)
			malformedNow := make([]bool, 5)
			probes := c20GenProbes(r)
			var pre [][]c20Layer // per probe, per section: what was delivered BEFORE the event (only if a section is unparsable)
			if deleted {
				h.Op("ev 0")
				h.Tag("ev:deleted")
				handler.syncNodeSLOSpecIfChanged(nil)
				for s := range good {
					good[s] = c20Good{absent: true}
					cur[s] = c20SecRaw{state: 0}
				}
			} else {
				h.Op("ev 1")
				data := map[string]string{}
				for s := 0; s < 5; s++ {
					if ev == 0 || r.Chance(1, 2) {
						cur[s] = c20GenSection(r, s)
					}
					if cur[s].state != 0 {
						data[c20SecKeys[s]] = cur[s].text
					}
				}
				if r.Chance(1, 6) {
					data["colocation-config"] = `{"enable":true}` // unrelated key
				}
				cm := &corev1.ConfigMap{Data: data}
				cm.Name, cm.Namespace = sloconfig.SLOCtrlConfigMap, sloconfig.ConfigNameSpace
				if len(data) == 0 && r.Bool() {
					cm.Data = nil
				}
				// ---- ops: what the repo's own config types + encoding/json read from each section text
				for s := 0; s < 5; s++ {
					// 'parsable' is decided by the strict reading of the text (exactly one JSON value), not by the code under test
					switch st := c20EmitSection(h, s, cur[s], fail); {
					case st == 0:
						good[s] = c20Good{absent: true}
					case st == 2 && cur[s].state == 2:
						good[s] = c20Good{sec: cur[s]}
					default:
						malformedNow[s] = true
					}
					h.Tag(fmt.Sprintf("sec-%s:%s", c20SecNames[s], []string{"absent", "malformed", "parsed"}[cur[s].state]))
				}
				h.Op("end")
				for s := range malformedNow {
					if malformedNow[s] && pre == nil {
						pre = make([][]c20Layer, len(probes))
						for pr := range probes {
							var before *slov1alpha1.NodeSLOSpec
							if !h.Guard(func() { before, _ = rec.getNodeSLOSpec(probes[pr].node, nil) }) && before != nil {
								fls, _ := c20SectionFlats(before)
								pre[pr] = make([]c20Layer, 5)
								for i := range fls {
									pre[pr][i] = c20LayerOf(fls[i])
								}
							}
						}
					}
				}
				if h.Guard(func() { handler.syncNodeSLOSpecIfChanged(cm) }) {
					h.Obs("panic sync")
					fail("C20:panic", "syncConfig panicked")
				}
			}

			// ---- probes
			for pr := range probes {
				labels, kv, node, bw := probes[pr].labels, probes[pr].kv, probes[pr].node, probes[pr].bw
				h.Op("node %d %d %s", bw, len(labels), vIntsI(kv))
				if bw != -1 {
					h.Tag("probe:bandwidth-annotation")
				}
				lkey := vIntsI(kv)
				var oldSpec *slov1alpha1.NodeSLOSpec
				if r.Bool() {
					oldSpec = oldSpecs[lkey]
				}
				var spec *slov1alpha1.NodeSLOSpec
				if h.Guard(func() { spec, _ = rec.getNodeSLOSpec(node, oldSpec) }) || spec == nil {
					h.Obs("panic probe")
					fail("C20:panic", "getNodeSLOSpec panicked or returned nil")
					continue
				}
				oldSpecs[lkey] = spec
				flats, isNil := c20SectionFlats(spec)
				allLayers := false
				for s := 0; s < 5; s++ {
					if isNil[s] {
						h.Obs("o %d nil", s)
						if s == 3 && bw == -2 {
							continue // unparsable bandwidth annotation: outside the property (the system strategy is withheld)
						}
						if !secBroken[s] {
							secBroken[s] = true
							fail("C20:nil-section:"+c20SecNames[s], "section %s delivered as nil", c20SecNames[s])
						}
						continue
					}
					fl := flats[s]
					for _, e := range fl {
						h.Obs("o %d %s", s, c20Line(e))
					}
					if secBroken[s] || (s == 3 && bw == -2) {
						continue
					}
					// ---- oracle: layering of the raw trees, path by path
					obs := c20LayerOf(fl)
					if malformedNow[s] && pre != nil && pre[pr] != nil && !c20LayerEq(obs, pre[pr][s]) {
						secBroken[s] = true
						d := c20Diffs(obs, pre[pr][s])[0]
						fp, why := "C20:malformed-not-kept:", "unparsable section"
						if c20ValidPrefix(cur[s].text) {
							fp, why = "C20:malformed-section-applied:", fmt.Sprintf("section text %q is not one JSON value (only its prefix is) and", cur[s].text)
						}
						fail(fp+c20SecNames[s], "%s did not keep the previously effective settings: section %s field %s: %s [expected = before the event] (event %d, labels %v)",
							why, c20SecNames[s], c20PathNames(d.p), d.what, ev, node.Labels)
						continue
					}
					g := good[s]
					matching := []int{}
					if !g.absent {
						for i, ne := range g.sec.nodes {
							if c20SelMatches(ne.sel, labels) {
								matching = append(matching, i)
							}
						}
					}
					expectWith := func(entry int) c20Layer {
						if s == 4 {
							var apps []interface{}
							if !g.absent {
								apps = g.sec.apps
								if entry >= 0 {
									apps = g.sec.nodes[entry].apps
								}
							}
							if len(apps) == 0 {
								return c20Layer{"0": 0}
							}
							return c20LayerOf(c20FlatSorted(apps))
						}
						var layers []c20Layer
						if !g.absent {
							if entry >= 0 && g.sec.nodes[entry].strat != nil {
								layers = append(layers, c20LayerOfRaw(g.sec.nodes[entry].strat))
							}
							if g.sec.cluster != nil {
								layers = append(layers, c20LayerOfRaw(g.sec.cluster))
							}
						}
						layers = append(layers, defLayers[s])
						if len(layers) == 3 && len(layers[0]) > 0 && len(layers[1]) > 0 {
							allLayers = true
						}
						out := c20ExpectAll(layers)
						if s == 3 && bw >= 0 {
							out["1"] = bw // the node's own bandwidth annotation takes precedence (outside the layering statement)
						}
						return out
					}
					first := -1
					if len(matching) > 0 {
						first = matching[0]
					}
					exp := expectWith(first)
					h.Tag(fmt.Sprintf("probe-%s:%s", c20SecNames[s], map[bool]string{true: "node-entry", false: "cluster"}[first >= 0]))
					if len(matching) > 1 {
						h.Tag("probe:overlapping-selectors")
						if k := c20NameSortedFirst(g.sec.nodes, matching); k >= 0 && k != first {
							h.Tag("probe:overlap-first-in-document-is-not-smallest-name")
						}
					}
					if c20LayerEq(obs, exp) {
						continue
					}
					secBroken[s] = true
					difs := c20Diffs(obs, exp)
					whereOf := func(d c20Dif) string {
						return fmt.Sprintf("section %s field %s: %s (event %d, labels %v)", c20SecNames[s], c20PathNames(d.p), d.what, ev, node.Labels)
					}
					where := whereOf(difs[0])
					switch {
					case g.absent:
						fail("C20:absent-not-default:"+c20SecNames[s], "absent section is not the built-in default; %s", where)
					default:
						cls := ""
						for _, alt := range matching { // what a later matching entry would give
							if alt != first && c20LayerEq(obs, expectWith(alt)) {
								cls = "C20:first-match:" + c20SecNames[s]
								break
							}
						}
						for _, alt := range append([]int{-1}, c20Range(len(g.sec.nodes))...) {
							if cls == "" && alt != first && c20LayerEq(obs, expectWith(alt)) {
								cls = "C20:wrong-entry:" + c20SecNames[s]
							}
						}
						if cls != "" {
							fail(cls, "%s", where)
							break
						}
						for _, d := range difs { // one fingerprint per top-level field that is wrong
							top := "applications"
							if s != 4 && len(d.p) > 0 {
								top = c20KeyName(d.p[0])
							}
							fail("C20:layering:"+c20SecNames[s]+":"+top, "%s", whereOf(d))
						}
					}
				}
				if allLayers {
					h.Nontrivial()
				}
			}
		}
		h.End()
	}
	h.Close("history of 1-7 slo-controller ConfigMap events (each of the 5 sections absent/empty/partial/full/malformed, kept or regenerated per event, " +
		"0-3 node entries with nil/invalid/empty/matchLabels/matchExpressions selectors over 3 label keys, degenerate null/\"\"/[]/{}/unknown-key spellings, ConfigMap deletion) " +
		"on one real SLOCfgHandlerForConfigMapEvent, 2-3 getNodeSLOSpec probes (random label sets, with/without old spec) after every event; " +
		"non-trivial = some probe where a matching node entry, the cluster strategy and the default all set fields; distinct by op lines")
}

type c20Probe struct {
	labels map[int]int
	kv     []int
	node   *corev1.Node
	bw     int64 // node bandwidth annotation: -1 none, -2 unparsable, else its value
}

func c20GenProbes(r *vRand) []c20Probe {
	ps := make([]c20Probe, r.Range(2, 3))
	for pr := range ps {
		labels := map[int]int{}
		for k := 1; k <= 3; k++ {
			if r.Chance(3, 5) {
				labels[k] = r.Range(1, 2)
			}
		}
		if r.Chance(1, 10) {
			labels[r.Range(1, 3)] = 3
		}
		var kv []int
		node := &corev1.Node{}
		node.Name = "n"
		node.Labels = map[string]string{}
		for k := 1; k <= 3; k++ {
			if v, ok := labels[k]; ok {
				kv = append(kv, k, v)
				node.Labels[c20LabelKeys[k]] = c20LabelVals[v]
			}
		}
		if len(labels) == 0 && r.Bool() {
			node.Labels = nil
		}
		bw := int64(-1)
		if r.Chance(1, 8) {
			switch r.Intn(3) {
			case 0:
				node.Annotations = map[string]string{extension.AnnotationNodeBandwidth: "abc"}
				bw = -2
			case 1:
				node.Annotations = map[string]string{extension.AnnotationNodeBandwidth: "5G"}
				bw = 5000000000
			default:
				node.Annotations = map[string]string{extension.AnnotationNodeBandwidth: "0"}
				bw = 0
			}
		} else if r.Chance(1, 8) {
			node.Annotations = map[string]string{"other": "x"}
		}
		ps[pr] = c20Probe{labels, kv, node, bw}
	}
	return ps
}

// flattened JSON form of the five delivered sections
func c20SectionFlats(spec *slov1alpha1.NodeSLOSpec) ([][]c20Entry, []bool) {
	isNil := []bool{spec.ResourceUsedThresholdWithBE == nil, spec.ResourceQOSStrategy == nil,
		spec.CPUBurstStrategy == nil, spec.SystemStrategy == nil, false}
	delivered := []interface{}{spec.ResourceUsedThresholdWithBE, spec.ResourceQOSStrategy, spec.CPUBurstStrategy, spec.SystemStrategy}
	flats := make([][]c20Entry, 5)
	for s := 0; s < 4; s++ {
		if !isNil[s] {
			flats[s] = c20FlatOfGo(delivered[s])
		}
	}
	if len(spec.HostApplications) == 0 {
		flats[4] = []c20Entry{{[]int{0}, 0}}
	} else {
		flats[4] = c20FlatOfGo(spec.HostApplications)
	}
	return flats, isNil
}

func c20Range(n int) []int {
	xs := make([]int, n)
	for i := range xs {
		xs[i] = i
	}
	return xs
}

// c20DropZeroTnb: the user-level strategy: json.Marshal always prints totalNetworkBandwidth ("0" when
// unset); the model re-adds it (emitTnb), so a zero value is not sent.
func c20DropZeroTnb(fl []c20Entry) []c20Entry {
	var out []c20Entry
	for _, e := range fl {
		if len(e.path) == 1 && e.path[0] == 1 && e.v == 0 {
			continue
		}
		out = append(out, e)
	}
	return out
}

// c20EmitSection parses the section text with the repo's own config type (encoding/json only, none of
// the merge code) and emits it as ops; cross-checks the generator's intent (parsable or not).
// Returns the section's state by the STRICT reading (0 absent, 1 not parsable, 2 parsable): the whole text must be exactly
// one JSON value (c20StrictValid) that the section's config type accepts.
func c20EmitSection(h *vHarness, s int, raw c20SecRaw, fail func(string, string, ...interface{})) int {
	if raw.state == 0 {
		h.Op("sec %d 0 0", s)
		return 0
	}
	strict := c20StrictValid(raw.text)
	if c20ValidPrefix(raw.text) {
		h.Tag("malformed:valid-prefix")
	}
	type nodeOut struct {
		has bool
		fl  []c20Entry
	}
	var cluster []c20Entry
	hasCluster := false
	var nodes []nodeOut
	var pnames []string // the profile names as parsed, in the order of the parsed slice
	var err error
	switch s {
	case 0:
		var c configuration.ResourceThresholdCfg
		if err = json.Unmarshal([]byte(raw.text), &c); err == nil {
			if c.ClusterStrategy != nil {
				hasCluster, cluster = true, c20FlatOfGo(c.ClusterStrategy)
			}
			for _, ns := range c.NodeStrategies {
				pnames = append(pnames, ns.Name)
				if ns.ResourceThresholdStrategy != nil {
					nodes = append(nodes, nodeOut{true, c20FlatOfGo(ns.ResourceThresholdStrategy)})
				} else {
					nodes = append(nodes, nodeOut{})
				}
			}
		}
	case 1:
		var c configuration.ResourceQOSCfg
		if err = json.Unmarshal([]byte(raw.text), &c); err == nil {
			if c.ClusterStrategy != nil {
				hasCluster, cluster = true, c20FlatOfGo(c.ClusterStrategy)
			}
			for _, ns := range c.NodeStrategies {
				pnames = append(pnames, ns.Name)
				if ns.ResourceQOSStrategy != nil {
					nodes = append(nodes, nodeOut{true, c20FlatOfGo(ns.ResourceQOSStrategy)})
				} else {
					nodes = append(nodes, nodeOut{})
				}
			}
		}
	case 2:
		var c configuration.CPUBurstCfg
		if err = json.Unmarshal([]byte(raw.text), &c); err == nil {
			if c.ClusterStrategy != nil {
				hasCluster, cluster = true, c20FlatOfGo(c.ClusterStrategy)
			}
			for _, ns := range c.NodeStrategies {
				pnames = append(pnames, ns.Name)
				if ns.CPUBurstStrategy != nil {
					nodes = append(nodes, nodeOut{true, c20FlatOfGo(ns.CPUBurstStrategy)})
				} else {
					nodes = append(nodes, nodeOut{})
				}
			}
		}
	case 3:
		var c configuration.SystemCfg
		if err = json.Unmarshal([]byte(raw.text), &c); err == nil {
			if c.ClusterStrategy != nil {
				hasCluster, cluster = true, c20DropZeroTnb(c20FlatOfGo(c.ClusterStrategy))
			}
			for _, ns := range c.NodeStrategies {
				pnames = append(pnames, ns.Name)
				if ns.SystemStrategy != nil {
					nodes = append(nodes, nodeOut{true, c20DropZeroTnb(c20FlatOfGo(ns.SystemStrategy))})
				} else {
					nodes = append(nodes, nodeOut{})
				}
			}
		}
	default:
		var c configuration.HostApplicationCfg
		if err = json.Unmarshal([]byte(raw.text), &c); err == nil {
			hasCluster = true
			if len(c.Applications) == 0 {
				cluster = []c20Entry{{[]int{0}, 0}}
			} else {
				cluster = c20FlatOfGo(c.Applications)
			}
			for _, ns := range c.NodeConfigs {
				pnames = append(pnames, ns.Name)
				if len(ns.Applications) == 0 {
					nodes = append(nodes, nodeOut{true, []c20Entry{{[]int{0}, 0}}})
				} else {
					nodes = append(nodes, nodeOut{true, c20FlatOfGo(ns.Applications)})
				}
			}
		}
	}
	if !strict && err == nil {
		fail("C20:json-glue-assumption", "section %s text %q is not exactly one JSON value but json.Unmarshal accepted it", c20SecNames[s], raw.text)
		err = fmt.Errorf("not exactly one JSON value")
	}
	if (err != nil) != (raw.state == 1) {
		fail("C20:json-glue-assumption", "section %s text %q: generator intent state=%d but encoding/json says err=%v", c20SecNames[s], raw.text, raw.state, err)
	}
	if err != nil {
		h.Op("sec %d 1 0", s)
		return 1
	}
	if raw.state == 2 && len(nodes) != len(raw.nodes) {
		fail("C20:json-glue-assumption", "section %s: %d node entries parsed, %d generated", c20SecNames[s], len(nodes), len(raw.nodes))
		h.Op("sec %d 1 0", s)
		return 1
	}
	// the parsed entries are the generated ones in DOCUMENT order (checked on their profile names)
	if raw.state == 2 {
		for i := range pnames {
			if pnames[i] != raw.nodes[i].name {
				fail("C20:json-glue-assumption", "section %s: parsed entry %d is named %q, generated %q (document order not kept by encoding/json?)", c20SecNames[s], i, pnames[i], raw.nodes[i].name)
			}
		}
		if len(raw.nodes) >= 2 {
			h.Tag("names:" + c20NameClass(raw.nodes))
		}
	}
	// the statement's "sets the field" (c20Norm on the raw tree) must be what the repo's types + encoding/json
	// read from the text, layer by layer (also for entries that never get selected)
	if raw.state == 2 {
		glue := func(who string, got []c20Entry, want c20Layer) {
			g := c20LayerOf(c20DropZeroTnb(got))
			if s == 4 && len(want) == 0 {
				want = c20Layer{"0": 0}
			}
			if !c20LayerEq(g, want) {
				ds := c20Diffs(g, want)
				fail("C20:json-glue-assumption", "section %s %s: parsed form and raw tree disagree on which fields are set: %s %s",
					c20SecNames[s], who, c20PathNames(ds[0].p), ds[0].what)
			}
		}
		if s == 4 {
			glue("applications", cluster, c20LayerOfApps(raw.apps))
			for i, no := range nodes {
				glue(fmt.Sprintf("entry %d", i), no.fl, c20LayerOfApps(raw.nodes[i].apps))
			}
		} else {
			if hasCluster {
				glue("clusterStrategy", cluster, c20LayerOfRaw(raw.cluster))
			} else if len(c20LayerOfRaw(raw.cluster)) > 0 {
				fail("C20:json-glue-assumption", "section %s: clusterStrategy sets fields but parsed as nil", c20SecNames[s])
			}
			for i, no := range nodes {
				if no.has {
					glue(fmt.Sprintf("entry %d", i), no.fl, c20LayerOfRaw(raw.nodes[i].strat))
				} else if len(c20LayerOfRaw(raw.nodes[i].strat)) > 0 {
					fail("C20:json-glue-assumption", "section %s entry %d sets fields but parsed as nil", c20SecNames[s], i)
				}
			}
		}
	}
	h.Op("sec %d 2 %d", s, vB(hasCluster))
	for _, e := range cluster {
		h.Op("c %d %s", s, c20Line(e))
	}
	for i, no := range nodes {
		sel := c20Sel{kind: 0}
		if raw.state == 2 {
			sel = raw.nodes[i].sel
		} else {
			sel = c20Sel{kind: 2} // (only reachable if the glue assumption failed)
		}
		var sb strings.Builder
		for _, q := range sel.reqs {
			fmt.Fprintf(&sb, " %d %d %d", q.key, q.op, len(q.vals))
			for _, v := range q.vals {
				fmt.Fprintf(&sb, " %d", v)
			}
		}
		h.Op("n %d %d %d %d%s", s, sel.kind, vB(no.has), len(sel.reqs), sb.String())
		for _, e := range no.fl {
			h.Op("ne %d %s", s, c20Line(e))
		}
		h.Tag(fmt.Sprintf("sel:%s", []string{"nil", "invalid", "reqs"}[sel.kind]))
	}
	return 2
}
