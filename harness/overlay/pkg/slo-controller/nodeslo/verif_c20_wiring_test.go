//go:build verif

package nodeslo

import (
	"context"
	"fmt"
	"net/http"
	"sort"
	"strconv"
	"strings"
	"sync"
	"sync/atomic"
	"testing"
	"time"

	"github.com/go-logr/logr"
	corev1 "k8s.io/api/core/v1"
	"k8s.io/apimachinery/pkg/api/meta"
	"k8s.io/apimachinery/pkg/runtime/schema"
	"k8s.io/apimachinery/pkg/types"
	"k8s.io/client-go/rest"
	toolscache "k8s.io/client-go/tools/cache"
	"k8s.io/client-go/tools/record"
	"k8s.io/utils/ptr"
	ctrl "sigs.k8s.io/controller-runtime"
	"sigs.k8s.io/controller-runtime/pkg/cache"
	"sigs.k8s.io/controller-runtime/pkg/cache/informertest"
	"sigs.k8s.io/controller-runtime/pkg/client"
	"sigs.k8s.io/controller-runtime/pkg/client/apiutil"
	ctrlconfig "sigs.k8s.io/controller-runtime/pkg/config"
	"sigs.k8s.io/controller-runtime/pkg/controller/controllertest"
	ctrllog "sigs.k8s.io/controller-runtime/pkg/log"
	metricsserver "sigs.k8s.io/controller-runtime/pkg/metrics/server"

	slov1alpha1 "github.com/koordinator-sh/koordinator/apis/slo/v1alpha1"
	"github.com/koordinator-sh/koordinator/pkg/util/sloconfig"
)

// C20 WIRING harness (round-5 extension): the delivery property through the controller's REAL wiring.
// One case = one real controller-runtime manager (cache = informertest.FakeInformers, client = the fake API of the hist
// harness) on which the REAL NodeSLOReconciler.SetupWithManager registers its watches (with whatever predicates the source
// puts on them), started for real (work queue + worker of controller-runtime).  The harness changes the fake API and hands
// the matching informer events (ConfigMap Add, then Updates whose metadata.generation never changes - as the API server
// does for ConfigMaps -, foreign ConfigMaps, Node add / relabel / annotation-only update / delete) to the fake informers,
// i.e. to the handlers and predicates the manager registered.  After each batch of 1-3 changes it waits (bounded) until
// the NodeSLO objects read back from the API carry what the statement demands for the LATEST ConfigMap text and the
// current node labels (eventual delivery; every reconcile after the last event computes from the final cache, so once
// reached the state is stable) and then evaluates the same from-scratch oracle as the hist harness.
// Model ops: hmode 1; the events; hmode 0 (the model reconciles whatever it has queued: at quiescence the order of the
// reconciles does not matter, quiescent_delivery_over_interleavings); hobs.

// c20wInformer: controllertest.FakeInformer + a lock (handlers are registered by the controller's start goroutines while
// the harness waits) + a registration counter.
type c20wInformer struct {
	*controllertest.FakeInformer
	mu sync.Mutex
	n  int
}

func (i *c20wInformer) AddEventHandler(h toolscache.ResourceEventHandler) (toolscache.ResourceEventHandlerRegistration, error) {
	i.mu.Lock()
	defer i.mu.Unlock()
	i.n++
	return i.FakeInformer.AddEventHandler(h)
}

func (i *c20wInformer) AddEventHandlerWithResyncPeriod(h toolscache.ResourceEventHandler, d time.Duration) (toolscache.ResourceEventHandlerRegistration, error) {
	i.mu.Lock()
	defer i.mu.Unlock()
	i.n++
	return i.FakeInformer.AddEventHandlerWithResyncPeriod(h, d)
}

func (i *c20wInformer) AddEventHandlerWithOptions(h toolscache.ResourceEventHandler, o toolscache.HandlerOptions) (toolscache.ResourceEventHandlerRegistration, error) {
	i.mu.Lock()
	defer i.mu.Unlock()
	i.n++
	return i.FakeInformer.AddEventHandlerWithOptions(h, o)
}

func (i *c20wInformer) registered() int {
	i.mu.Lock()
	defer i.mu.Unlock()
	return i.n
}

func (i *c20wInformer) send(f func(fi *controllertest.FakeInformer)) {
	i.mu.Lock()
	defer i.mu.Unlock()
	f(i.FakeInformer)
}

type c20wWire struct {
	cm, node, slo *c20wInformer
	cancel        context.CancelFunc
	done          chan error
	cmLive        *corev1.ConfigMap    // the ConfigMap as the API returned it for the last event (the next Update's old object)
	nodeLive      map[string]*corev1.Node
	setupErr      string
	flushes       int
}

var c20wLogOnce sync.Once

// settle bounds: generous for the first failing waits of a run (a replay runs one case, so it always gets the long bound),
// short afterwards so that a tree that never delivers does not take hours.
var c20wSlowWaits = 0

func c20wBound() time.Duration {
	if c20wSlowWaits >= 2 {
		return 400 * time.Millisecond
	}
	return 15 * time.Second
}

// startWired: a real manager + the real SetupWithManager; returns when the controller's three watches are registered.
func (w *c20xWorld) startWired(c *c20xCase) {
	c20wLogOnce.Do(func() { ctrllog.SetLogger(logr.Discard()) })
	wi := &c20wWire{nodeLive: map[string]*corev1.Node{}, done: make(chan error, 1)}
	w.wire = wi
	w.q = &c20xQueue{}
	mk := func() *c20wInformer { return &c20wInformer{FakeInformer: &controllertest.FakeInformer{Synced: true}} }
	wi.cm, wi.node, wi.slo = mk(), mk(), mk()
	byGVK := map[schema.GroupVersionKind]toolscache.SharedIndexInformer{}
	for obj, inf := range map[client.Object]*c20wInformer{&corev1.ConfigMap{}: wi.cm, &corev1.Node{}: wi.node, &slov1alpha1.NodeSLO{}: wi.slo} {
		gvk, err := apiutil.GVKForObject(obj, w.scheme)
		if err != nil {
			wi.setupErr = "gvk: " + err.Error()
			return
		}
		byGVK[gvk] = inf
	}
	informers := &informertest.FakeInformers{Scheme: w.scheme, InformersByGVK: byGVK}
	mgr, err := ctrl.NewManager(&rest.Config{Host: "http://127.0.0.1:1"}, ctrl.Options{
		Scheme:                 w.scheme,
		Logger:                 logr.Discard(),
		Metrics:                metricsserver.Options{BindAddress: "0"},
		HealthProbeBindAddress: "0",
		LeaderElection:         false,
		NewCache:               func(*rest.Config, cache.Options) (cache.Cache, error) { return informers, nil },
		NewClient:              func(*rest.Config, client.Options) (client.Client, error) { return w.cl, nil },
		MapperProvider: func(*rest.Config, *http.Client) (meta.RESTMapper, error) {
			return meta.NewDefaultRESTMapper(nil), nil
		},
		Controller: ctrlconfig.Controller{SkipNameValidation: ptr.To(true)}, // one manager per case in one process
	})
	if err != nil {
		wi.setupErr = "new manager: " + err.Error()
		return
	}
	// as nodeslo.Add does, with a recorder that drops events (the manager's own would try to reach an API server)
	w.rec = &NodeSLOReconciler{Client: mgr.GetClient(), Scheme: mgr.GetScheme(), Recorder: &record.FakeRecorder{}}
	if err := w.rec.SetupWithManager(mgr); err != nil {
		wi.setupErr = "SetupWithManager: " + err.Error()
		return
	}
	w.handler, _ = w.rec.sloCfgCache.(*SLOCfgHandlerForConfigMapEvent)
	ctx, cancel := context.WithCancel(context.Background())
	wi.cancel = cancel
	go func() { wi.done <- mgr.Start(ctx) }()
	deadline := time.Now().Add(c20wBound())
	for wi.cm.registered() == 0 || wi.node.registered() == 0 || wi.slo.registered() == 0 {
		if time.Now().After(deadline) {
			c20wSlowWaits++
			c.h.Tag("wiring:watch-not-registered")
			c.h.Extra("wiring_watches_registered", fmt.Sprintf("configmap=%d node=%d nodeslo=%d", wi.cm.registered(), wi.node.registered(), wi.slo.registered()))
			break // the events go to whatever is registered; the oracle speaks
		}
		select {
		case err := <-wi.done:
			wi.setupErr = fmt.Sprintf("manager stopped early: %v", err)
			wi.done <- err
			return
		case <-time.After(200 * time.Microsecond):
		}
	}
}

func (wi *c20wWire) stop(c *c20xCase) {
	if wi.setupErr != "" {
		c.h.Extra("wiring_setup_error", wi.setupErr)
		c.fail("C20:hist:harness-setup", "could not run the controller in a manager: %s", wi.setupErr)
	}
	if wi.cancel == nil {
		return
	}
	wi.cancel()
	select {
	case <-wi.done:
	case <-time.After(20 * time.Second):
		c.h.Tag("wiring:manager-did-not-stop")
	}
}

var c20wCMKey = types.NamespacedName{Namespace: sloconfig.ConfigNameSpace, Name: sloconfig.SLOCtrlConfigMap}

// evCM: the informer event for the slo-controller ConfigMap, with the objects as the API holds them (resourceVersion
// assigned by the API, metadata.generation untouched: the API server never changes it for a ConfigMap).
func (wi *c20wWire) evCM(c *c20xCase, kind int, obj *corev1.ConfigMap) {
	if kind == 3 {
		old := wi.cmLive
		wi.cmLive = nil
		if old == nil {
			old = obj.DeepCopy()
		}
		wi.cm.send(func(fi *controllertest.FakeInformer) { fi.Delete(old) })
		return
	}
	live := &corev1.ConfigMap{}
	c.w.must(c.w.cl.Get(c.ctx, c20wCMKey, live), "get cm for event")
	old := wi.cmLive
	wi.cmLive = live.DeepCopy()
	if old != nil && old.Generation != live.Generation {
		c.fail("C20:hist:harness-api", "the fake API changed the ConfigMap's metadata.generation (%d -> %d)", old.Generation, live.Generation)
	}
	if old != nil && old.ResourceVersion == live.ResourceVersion {
		c.fail("C20:hist:harness-api", "the fake API did not assign a new resourceVersion to the updated ConfigMap (%q)", live.ResourceVersion)
	}
	if kind == 1 || old == nil {
		wi.cm.send(func(fi *controllertest.FakeInformer) { fi.Add(live) })
	} else {
		wi.cm.send(func(fi *controllertest.FakeInformer) { fi.Update(old, live) })
	}
}

func (wi *c20wWire) evForeign(f *corev1.ConfigMap, create bool) {
	f.ResourceVersion = "7"
	if create {
		wi.cm.send(func(fi *controllertest.FakeInformer) { fi.Add(f) })
		return
	}
	g := f.DeepCopy()
	g.Data = map[string]string{}
	g.ResourceVersion = "6"
	wi.cm.send(func(fi *controllertest.FakeInformer) { fi.Update(g, f) })
}

func (wi *c20wWire) evNode(c *c20xCase, kind int, obj *corev1.Node) {
	if kind == 3 {
		old := wi.nodeLive[obj.Name]
		delete(wi.nodeLive, obj.Name)
		if old == nil {
			old = obj
		}
		wi.node.send(func(fi *controllertest.FakeInformer) { fi.Delete(old) })
		return
	}
	live := &corev1.Node{}
	c.w.must(c.w.cl.Get(c.ctx, types.NamespacedName{Name: obj.Name}, live), "get node for event")
	old := wi.nodeLive[obj.Name]
	wi.nodeLive[obj.Name] = live.DeepCopy()
	if old != nil && (old.Generation != live.Generation || old.ResourceVersion == live.ResourceVersion) {
		c.fail("C20:hist:harness-api", "the fake API changed the Node's metadata.generation (%d -> %d) or kept its resourceVersion (%q -> %q)",
			old.Generation, live.Generation, old.ResourceVersion, live.ResourceVersion)
	}
	if kind == 1 || old == nil {
		wi.node.send(func(fi *controllertest.FakeInformer) { fi.Add(live) })
	} else {
		wi.node.send(func(fi *controllertest.FakeInformer) { fi.Update(old, live) })
	}
}

// delivered: the quiescence criterion of the model (stored_eq_recomputed_*): every node has a NodeSLO whose spec is exactly
// what the cache delivers for the node's current labels now, and there is no NodeSLO without a node.  All events have been
// handled (synchronously) before this is asked, so the cache is final: every reconcile that STARTS from now on recomputes
// exactly this spec and writes nothing; only a reconcile that was already running when the last event arrived can still
// write an older spec - settle() flushes it out before it trusts the criterion.  Whether the stable state is the RIGHT one is
// the oracle's business afterwards.
func (c *c20xCase) delivered() bool {
	sl := &slov1alpha1.NodeSLOList{}
	if err := c.w.cl.List(c.ctx, sl); err != nil {
		return false
	}
	stored := map[int]*slov1alpha1.NodeSLO{}
	for i := range sl.Items {
		nm, err := strconv.Atoi(strings.TrimPrefix(sl.Items[i].Name, "n"))
		if err != nil || c.nodes[nm] == nil {
			return false
		}
		stored[nm] = &sl.Items[i]
	}
	for nm, labels := range c.nodes {
		o, ok := stored[nm]
		if !ok {
			return false
		}
		var spec *slov1alpha1.NodeSLOSpec
		if c.h.Guard(func() { spec, _ = c.w.rec.getNodeSLOSpec(c20xNodeObj(nm, labels, false), nil) }) || spec == nil {
			return false
		}
		fl, isNil := c20SectionFlats(&o.Spec)
		view, viewNil := c20SectionFlats(spec)
		for s := range isNil {
			if isNil[s] != viewNil[s] {
				return false
			}
		}
		if !c20xFlatsEq(fl, view) {
			return false
		}
	}
	return true
}

const c20wFlushPrefix = "c20w-flush-"

// flush: a reconcile that was already running when the last event was handled may still write a spec computed from the
// cache BEFORE that event (and is then queued again).  To get past it, a request for a name that has neither Node nor
// NodeSLO goes through the node watch (Add event of an object that is not in the API; its reconcile reads both, finds
// nothing, does nothing); the controller has ONE worker and a FIFO queue, so when that request is being reconciled (seen by
// the client hook) every reconcile that started before it is over.  Returns false if the worker did not get there in time.
func (c *c20xCase) flush(deadline time.Time) bool {
	wi := c.w.wire
	wi.flushes++
	obj := &corev1.Node{}
	obj.Name = fmt.Sprintf("%s%d", c20wFlushPrefix, wi.flushes)
	obj.ResourceVersion = "1"
	before := atomic.LoadInt64(&c.w.flushSeen)
	wi.node.send(func(fi *controllertest.FakeInformer) { fi.Add(obj) })
	for atomic.LoadInt64(&c.w.flushSeen) == before {
		if time.Now().After(deadline) {
			return false
		}
		time.Sleep(100 * time.Microsecond)
	}
	return true
}

// settle: bounded wait for the delivery, then the quiescent observation + oracle.
func (c *c20xCase) settle(round int) {
	bound := c20wBound()
	start := time.Now()
	deadline := start.Add(bound)
	ok := false
	for {
		// delivered, no reconcile from before the last event left, and still delivered: stable from here on
		if ok = c.delivered() && c.flush(deadline) && c.delivered(); ok || time.Now().After(deadline) {
			break
		}
		time.Sleep(300 * time.Microsecond)
	}
	if !ok {
		c20wSlowWaits++
		c.h.Tag("wiring:not-delivered-within-bound")
		c.h.Extra("wiring_wait", fmt.Sprintf("round %d: not delivered after %v", round, bound))
	} else if time.Since(start) > time.Second {
		c.h.Tag("wiring:slow-delivery>1s")
	}
	c.h.Op("hmode 0")
	c.hold = false
	c.observe("wiring")
}

func TestVerifC20Wiring(t *testing.T) {
	h := vOpen("C20")
	if h == nil {
		t.Skip("VERIF_OUT not set")
	}
	env := c20xNewEnv()
	n := h.N(300, 2000)
	for idx := 0; idx < n; idx++ {
		r := h.Begin(idx)
		if r == nil {
			continue
		}
		c := env.newCaseW(h, true)
		if c.w.wire.setupErr == "" {
			c20wRandomHistory(c, r)
		}
		c.finish()
	}
	h.Close("one REAL controller-runtime manager per case (informertest.FakeInformers as cache, fake client as API) with the REAL NodeSLOReconciler.SetupWithManager; " +
		"2-4 rounds of 1-3 API changes + informer events through the registered watches (round 1: ConfigMap Add and a node Add in either order; then ConfigMap Updates " +
		"(generation never changes; all update variations of the hist harness incl. renamed/reordered entries), ConfigMap delete, foreign ConfigMaps, node add/relabel/touch/delete); " +
		"after each round a bounded wait for the manager's worker, then all NodeSLO specs read back from the API and the from-scratch oracle on the LATEST ConfigMap text; " +
		"non-trivial = a field delivered to a node goes from set to unset; distinct by op lines")
}

func c20wRandomHistory(c *c20xCase, r *vRand) {
	h := c.h
	rounds := r.Range(2, 4)
	h.Tag(fmt.Sprintf("wrounds:%d", rounds))
	for round := 0; round < rounds; round++ {
		h.Op("hmode 1")
		c.hold = true
		var kinds []string
		if round == 0 {
			kinds = [][]string{{"cm", "node"}, {"node", "cm"}, {"node", "cm", "node"}, {"cm", "node", "node"}, {"node", "node", "cm"}}[r.Intn(5)]
		} else {
			for i, k := 0, r.Range(1, 3); i < k; i++ {
				x := r.Intn(100)
				switch {
				case x < 55:
					kinds = append(kinds, "cm")
				case x < 60:
					kinds = append(kinds, "cmdel")
				case x < 64:
					kinds = append(kinds, "foreign")
				case x < 74:
					kinds = append(kinds, "node")
				case x < 90:
					kinds = append(kinds, "relabel")
				case x < 93:
					kinds = append(kinds, "touch")
				default:
					kinds = append(kinds, "nodedel")
				}
			}
		}
		for _, kind := range kinds {
			if (kind == "relabel" || kind == "touch" || kind == "nodedel") && len(c.nodes) == 0 {
				kind = "node"
			}
			if kind == "node" && len(c.nodes) >= 3 {
				kind = "relabel"
			}
			if kind == "cmdel" && c.w.cmObj == nil {
				kind = "cm"
			}
			names := c.names()
			sort.Ints(names)
			h.Tag("wstep:" + kind)
			switch kind {
			case "cm":
				c20xRandomCMStep(c, r)
			case "cmdel":
				c.stepCMDelete()
			case "foreign":
				c.stepForeign(r.Bool(), r.Bool())
			case "node":
				nm := 1
				for c.nodes[nm] != nil {
					nm++
				}
				c.stepNodeAdd(nm, c20xGenLabels(r))
			case "relabel", "touch":
				c20xRandomRelabel(c, r, kind, names)
			case "nodedel":
				c.stepNodeDelete(names[r.Intn(len(names))])
			}
		}
		c.settle(round)
	}
}
