//go:build verif

package nodeslo

import (
	"context"
	"fmt"
	"sort"
	"strconv"
	"strings"
	"sync/atomic"
	"testing"
	"time"

	corev1 "k8s.io/api/core/v1"
	"k8s.io/apimachinery/pkg/runtime"
	"k8s.io/apimachinery/pkg/types"
	"k8s.io/client-go/tools/record"
	"k8s.io/client-go/util/workqueue"
	"sigs.k8s.io/controller-runtime/pkg/client"
	"sigs.k8s.io/controller-runtime/pkg/client/fake"
	"sigs.k8s.io/controller-runtime/pkg/client/interceptor"
	"sigs.k8s.io/controller-runtime/pkg/event"
	"sigs.k8s.io/controller-runtime/pkg/reconcile"

	slov1alpha1 "github.com/koordinator-sh/koordinator/apis/slo/v1alpha1"
	"github.com/koordinator-sh/koordinator/pkg/slo-controller/nodemetric"
	"github.com/koordinator-sh/koordinator/pkg/util/sloconfig"
)

// C20 history harness (extension): one case = a history of API changes + the events an informer would
// deliver for them, on ONE fake API (controller-runtime fake client) with the REAL event handlers
// (SLOCfgHandlerForConfigMapEvent.{Create,Update,Delete} = config.EnqueueRequestForConfigMap,
// nodemetric.EnqueueRequestForNode) and the REAL NodeSLOReconciler.Reconcile for every enqueued request.
// Observation after every step: the spec of every NodeSLO object read back from the API, per field; and,
// per node, what the cache would deliver now (getNodeSLOSpec).  The oracle evaluates the layering statement
// from scratch on the CURRENT ConfigMap texts + CURRENT node labels for every field of every node.

type c20xQueue struct {
	workqueue.TypedRateLimitingInterface[reconcile.Request]
	items []reconcile.Request
}

// Add: like the real work queue, a request that is already queued is not queued twice.
func (q *c20xQueue) Add(r reconcile.Request) {
	for _, x := range q.items {
		if x == r {
			return
		}
	}
	q.items = append(q.items, r)
}

func c20xCopy(v interface{}) interface{} {
	switch x := v.(type) {
	case map[string]interface{}:
		if x == nil {
			return c20J(nil)
		}
		o := c20J{}
		for k, c := range x {
			o[k] = c20xCopy(c)
		}
		return o
	case []interface{}:
		if x == nil {
			return []interface{}(nil)
		}
		o := make([]interface{}, len(x))
		for i, c := range x {
			o[i] = c20xCopy(c)
		}
		return o
	}
	return v
}

func c20xCopySec(s c20SecRaw) c20SecRaw {
	o := c20SecRaw{state: s.state, text: s.text}
	if s.cluster != nil {
		o.cluster = c20xCopy(s.cluster).(c20J)
	}
	if s.apps != nil {
		o.apps = c20xCopy(s.apps).([]interface{})
	}
	for _, n := range s.nodes {
		m := c20NodeRaw{sel: n.sel, name: n.name, named: n.named}
		if n.strat != nil {
			m.strat = c20xCopy(n.strat).(c20J)
		}
		if n.apps != nil {
			m.apps = c20xCopy(n.apps).([]interface{})
		}
		o.nodes = append(o.nodes, m)
	}
	return o
}

// c20xRender: the section text of a (mutated) parsed section.
func c20xRender(sec int, raw c20SecRaw) string {
	top := c20J{}
	if sec == 4 {
		if raw.apps != nil {
			top["applications"] = raw.apps
		}
	} else if raw.cluster != nil {
		top["clusterStrategy"] = raw.cluster
	}
	var nodes []interface{}
	for _, n := range raw.nodes {
		e := c20J{}
		if sec == 4 {
			if n.apps != nil {
				e["applications"] = n.apps
			}
		} else {
			for k, v := range n.strat {
				e[k] = v
			}
		}
		if n.named {
			e["name"] = n.name
		}
		if n.sel.json != nil {
			e["nodeSelector"] = n.sel.json
		}
		nodes = append(nodes, e)
	}
	if len(nodes) > 0 {
		if sec == 4 {
			top["nodeConfigs"] = nodes
		} else {
			top["nodeStrategies"] = nodes
		}
	}
	return c20Marshal(top)
}

func c20xSortedKeys(m c20J) []string {
	ks := make([]string, 0, len(m))
	for k := range m {
		ks = append(ks, k)
	}
	sort.Strings(ks)
	return ks
}

// c20xDropField removes one key of m (sometimes one level deeper); false if there is nothing to drop.
func c20xDropField(r *vRand, m c20J) bool {
	ks := c20xSortedKeys(m)
	if len(ks) == 0 {
		return false
	}
	k := ks[r.Intn(len(ks))]
	if sub, ok := m[k].(map[string]interface{}); ok && len(sub) > 0 && r.Chance(2, 3) {
		return c20xDropField(r, sub)
	}
	delete(m, k)
	return true
}

// c20xChangeField changes one integer/bool leaf of m; false if none.
func c20xChangeField(r *vRand, m c20J) bool {
	for _, k := range c20xSortedKeys(m) {
		switch x := m[k].(type) {
		case int64:
			m[k] = x + 1 + int64(r.Intn(3))
			return true
		case bool:
			m[k] = !x
			return true
		case map[string]interface{}:
			if r.Bool() && c20xChangeField(r, x) {
				return true
			}
		}
	}
	return false
}

// c20xMutate: a small edit of a parsed section (mostly edits that UNSET something); returns a tag, "" if no edit applied.
func c20xMutate(r *vRand, sec int, raw *c20SecRaw) string {
	if raw.state != 2 {
		return ""
	}
	switch r.Intn(12) {
	case 9, 10: // the same entries in another document order (names travel with their entries)
		if len(raw.nodes) < 2 {
			return ""
		}
		i := r.Intn(len(raw.nodes) - 1)
		j := i + 1 + r.Intn(len(raw.nodes)-1-i)
		raw.nodes = append([]c20NodeRaw{}, raw.nodes...)
		raw.nodes[i], raw.nodes[j] = raw.nodes[j], raw.nodes[i]
		return "swap-entries"
	case 11: // rename one entry (or all of them, descending): names are labels, selection must not move
		if len(raw.nodes) == 0 {
			return ""
		}
		raw.nodes = append([]c20NodeRaw{}, raw.nodes...)
		if r.Bool() {
			for i := range raw.nodes {
				raw.nodes[i].name, raw.nodes[i].named = string(rune('a'+len(raw.nodes)-1-i)), true
			}
			return "rename-descending"
		}
		i := r.Intn(len(raw.nodes))
		raw.nodes[i].name, raw.nodes[i].named = []string{"", "a", "0", "zz"}[r.Intn(4)], true
		return "rename-entry"
	case 0: // drop the whole cluster layer
		if sec == 4 {
			if len(raw.apps) == 0 {
				return ""
			}
			raw.apps = nil
		} else {
			if raw.cluster == nil {
				return ""
			}
			raw.cluster = nil
		}
		return "drop-cluster"
	case 1: // remove a node entry
		if len(raw.nodes) == 0 {
			return ""
		}
		i := r.Intn(len(raw.nodes))
		raw.nodes = append(append([]c20NodeRaw{}, raw.nodes[:i]...), raw.nodes[i+1:]...)
		return "drop-entry"
	case 2, 3: // drop a field of a node entry
		if len(raw.nodes) == 0 {
			return ""
		}
		n := &raw.nodes[r.Intn(len(raw.nodes))]
		if sec == 4 {
			if len(n.apps) == 0 {
				return ""
			}
			if r.Bool() {
				n.apps = n.apps[:len(n.apps)-1]
			} else if a, ok := n.apps[0].(map[string]interface{}); !ok || !c20xDropField(r, a) {
				return ""
			}
			return "drop-entry-field"
		}
		if n.strat == nil || !c20xDropField(r, n.strat) {
			return ""
		}
		return "drop-entry-field"
	case 4, 5: // drop a field of the cluster layer
		if sec == 4 {
			if len(raw.apps) == 0 {
				return ""
			}
			if r.Bool() {
				raw.apps = raw.apps[:len(raw.apps)-1]
			} else if a, ok := raw.apps[0].(map[string]interface{}); !ok || !c20xDropField(r, a) {
				return ""
			}
			return "drop-cluster-field"
		}
		if raw.cluster == nil || !c20xDropField(r, raw.cluster) {
			return ""
		}
		return "drop-cluster-field"
	default: // change one value
		if sec == 4 {
			return ""
		}
		if raw.cluster != nil && r.Bool() && c20xChangeField(r, raw.cluster) {
			return "change-value"
		}
		for i := range raw.nodes {
			if raw.nodes[i].strat != nil && c20xChangeField(r, raw.nodes[i].strat) {
				return "change-value"
			}
		}
		return ""
	}
}

// the statement, from scratch, for one section of one node: first matching entry, else cluster, else default
func c20xExpect(s int, g c20Good, labels map[int]int, defLayer c20Layer) c20Layer {
	first := -1
	if !g.absent {
		for i, ne := range g.sec.nodes {
			if c20SelMatches(ne.sel, labels) {
				first = i // the first matching entry in DOCUMENT order, whatever the entries are named
				break
			}
		}
	}
	return c20xExpectEntry(s, g, first, defLayer)
}

// c20xLaterMatch: does the observation equal what a LATER matching entry (not the first in document order) would give?
func c20xLaterMatch(s int, g c20Good, labels map[int]int, defLayer c20Layer, obs c20Layer) int {
	if g.absent {
		return -1
	}
	seen := false
	for i, ne := range g.sec.nodes {
		if !c20SelMatches(ne.sel, labels) {
			continue
		}
		if seen && c20LayerEq(obs, c20xExpectEntry(s, g, i, defLayer)) {
			return i
		}
		seen = true
	}
	return -1
}

// c20xExpectEntry: entry `first` (-1: none) over cluster over default.
func c20xExpectEntry(s int, g c20Good, first int, defLayer c20Layer) c20Layer {
	if s == 4 {
		var apps []interface{}
		if !g.absent {
			apps = g.sec.apps
			if first >= 0 {
				apps = g.sec.nodes[first].apps
			}
		}
		return c20LayerOfApps(apps)
	}
	var layers []c20Layer
	if !g.absent {
		if first >= 0 && g.sec.nodes[first].strat != nil {
			layers = append(layers, c20LayerOfRaw(g.sec.nodes[first].strat))
		}
		if g.sec.cluster != nil {
			layers = append(layers, c20LayerOfRaw(g.sec.cluster))
		}
	}
	layers = append(layers, defLayer)
	return c20ExpectAll(layers)
}

var c20xExtraKeys = []string{"colocation-config", "x-other"}

type c20xWorld struct {
	t                   *testing.T
	cl                  client.Client
	handler             *SLOCfgHandlerForConfigMapEvent
	rec                 *NodeSLOReconciler
	nodeH               *nodemetric.EnqueueRequestForNode
	q                   *c20xQueue
	scheme              *runtime.Scheme
	cmObj               *corev1.ConfigMap // the object last written to the API (nil: does not exist)
	apiError            string
	failArmed, failUsed bool   // injected failure of the next NodeSLO write (Create/Update/Delete)
	afterCMRead         func() // one-shot hook: runs right after the next read of the slo-controller ConfigMap through the client
	flushSeen           int64     // wiring harness: number of flush requests the manager's worker has reconciled (atomic)
	wire                *c20wWire // non-nil: the controller runs inside a real manager (verif_c20_wiring_test.go); events go through its watches
}

// evCM hands a ConfigMap event (1 Create, 2 Update, 3 Delete) to the controller: directly to the real handler, or - wired -
// through the manager's ConfigMap watch as the informer would (objects as the API returns them).
func (c *c20xCase) evCM(kind int, old, obj *corev1.ConfigMap) {
	w := c.w
	if w.wire != nil {
		w.wire.evCM(c, kind, obj)
		return
	}
	switch kind {
	case 1:
		w.handler.Create(c.ctx, event.TypedCreateEvent[client.Object]{Object: obj.DeepCopy()}, w.q)
	case 2:
		w.handler.Update(c.ctx, event.TypedUpdateEvent[client.Object]{ObjectOld: old.DeepCopy(), ObjectNew: obj.DeepCopy()}, w.q)
	default:
		w.handler.Delete(c.ctx, event.TypedDeleteEvent[client.Object]{Object: obj.DeepCopy()}, w.q)
	}
}

// evNode: the same for a Node event.
func (c *c20xCase) evNode(kind int, old, obj *corev1.Node) {
	w := c.w
	if w.wire != nil {
		w.wire.evNode(c, kind, obj)
		return
	}
	switch kind {
	case 1:
		w.nodeH.Create(c.ctx, event.TypedCreateEvent[client.Object]{Object: obj}, w.q)
	case 2:
		w.nodeH.Update(c.ctx, event.TypedUpdateEvent[client.Object]{ObjectOld: old, ObjectNew: obj}, w.q)
	default:
		w.nodeH.Delete(c.ctx, event.TypedDeleteEvent[client.Object]{Object: obj}, w.q)
	}
}

// c20xInject fails the next write of a NodeSLO object when armed.
func (w *c20xWorld) c20xInject(obj client.Object) error {
	if _, ok := obj.(*slov1alpha1.NodeSLO); ok && w.failArmed {
		w.failArmed, w.failUsed = false, true
		return fmt.Errorf("injected API failure")
	}
	return nil
}

func (w *c20xWorld) newClient() client.Client {
	return fake.NewClientBuilder().WithScheme(w.scheme).WithInterceptorFuncs(interceptor.Funcs{
		Get: func(ctx context.Context, cl client.WithWatch, key client.ObjectKey, obj client.Object, opts ...client.GetOption) error {
			if _, ok := obj.(*slov1alpha1.NodeSLO); ok && strings.HasPrefix(key.Name, c20wFlushPrefix) {
				atomic.AddInt64(&w.flushSeen, 1) // wiring harness: the worker has reached the flush request (see settle)
			}
			err := cl.Get(ctx, key, obj, opts...)
			if _, ok := obj.(*corev1.ConfigMap); ok && w.afterCMRead != nil && key.Name == sloconfig.SLOCtrlConfigMap && key.Namespace == sloconfig.ConfigNameSpace {
				f := w.afterCMRead
				w.afterCMRead = nil
				f() // the caller has read the object and not used it yet
			}
			return err
		},
		Create: func(ctx context.Context, cl client.WithWatch, obj client.Object, opts ...client.CreateOption) error {
			if err := w.c20xInject(obj); err != nil {
				return err
			}
			return cl.Create(ctx, obj, opts...)
		},
		Update: func(ctx context.Context, cl client.WithWatch, obj client.Object, opts ...client.UpdateOption) error {
			if err := w.c20xInject(obj); err != nil {
				return err
			}
			return cl.Update(ctx, obj, opts...)
		},
		Delete: func(ctx context.Context, cl client.WithWatch, obj client.Object, opts ...client.DeleteOption) error {
			if err := w.c20xInject(obj); err != nil {
				return err
			}
			return cl.Delete(ctx, obj, opts...)
		},
	}).Build()
}

func (w *c20xWorld) start() {
	w.handler = NewSLOCfgHandlerForConfigMapEvent(w.cl, DefaultSLOCfg(), record.NewFakeRecorder(4096))
	w.rec = &NodeSLOReconciler{Client: w.cl, sloCfgCache: w.handler, Scheme: w.scheme, Recorder: record.NewFakeRecorder(4096)}
	w.nodeH = &nodemetric.EnqueueRequestForNode{Client: w.cl}
	w.q = &c20xQueue{}
}

func (w *c20xWorld) must(err error, what string) {
	if err != nil && w.apiError == "" {
		w.apiError = what + ": " + err.Error()
	}
}

func (w *c20xWorld) drain() {
	for len(w.q.items) > 0 {
		req := w.q.items[0]
		w.q.items = w.q.items[1:]
		_, err := w.rec.Reconcile(context.TODO(), req)
		w.must(err, "reconcile "+req.Name)
	}
}

func c20xNodeName(n int) string { return fmt.Sprintf("n%d", n) }

func c20xNodeObj(n int, labels map[int]int, annot bool) *corev1.Node {
	node := &corev1.Node{}
	node.Name = c20xNodeName(n)
	node.Labels = map[string]string{}
	for k, v := range labels {
		node.Labels[c20LabelKeys[k]] = c20LabelVals[v]
	}
	if annot {
		node.Annotations = map[string]string{"other": "x"}
	}
	return node
}

func c20xGenLabels(r *vRand) map[int]int {
	labels := map[int]int{}
	for k := 1; k <= 3; k++ {
		if r.Chance(3, 5) {
			labels[k] = r.Range(1, 2)
		}
	}
	if r.Chance(1, 10) {
		labels[r.Range(1, 3)] = 3
	}
	return labels
}

func c20xLabelsKV(labels map[int]int) []int {
	var kv []int
	for k := 1; k <= 3; k++ {
		if v, ok := labels[k]; ok {
			kv = append(kv, k, v)
		}
	}
	return kv
}

func c20xFlatsEq(a, b [][]c20Entry) bool {
	if len(a) != len(b) {
		return false
	}
	for s := range a {
		if len(a[s]) != len(b[s]) {
			return false
		}
		for i := range a[s] {
			if a[s][i].v != b[s][i].v || c20PathStr(a[s][i].path) != c20PathStr(b[s][i].path) {
				return false
			}
		}
	}
	return true
}

func TestVerifC20Hist(t *testing.T) {
	h := vOpen("C20")
	if h == nil {
		t.Skip("VERIF_OUT not set")
	}
	env := c20xNewEnv()
	n := h.N(1500, 12000)
	for idx := 0; idx < n; idx++ {
		r := h.Begin(idx)
		if r == nil {
			continue
		}
		if idx%6 == 2 { // round-7: the whole case runs under NON-DEFAULT --slo-config-name / --config-namespace
			c20xFlagsCase(env, h, r)
			continue
		}
		c := env.newCase(h)
		c20xRandomHistory(c, r, idx%6 == 5)
		c.finish()
	}
	h.Close("history of 3-12 steps on one fake API + real handlers + real Reconcile: slo-controller ConfigMap create / update (nothing, unrelated key only, " +
		"remove key(s) only, add a key only, edit that unsets a layer/entry/field or changes a value, break a section, regenerate sections) / delete, foreign ConfigMap events, " +
		"node add / relabel (random or one label flipped) / annotation-only update / delete, controller restart (ConfigMap event before or after the node list); " +
		"after each step every enqueued request is reconciled and all NodeSLO specs are read back; in 1/3 of the cases a burst of 2-4 steps only ENQUEUES " +
		"(requests reconciled one by one in random order in between and afterwards, some with an injected failure of the NodeSLO write, some spurious; oracle at quiescence); " +
		"every 6th case contains a LAZY-INIT RACE step: restart whose ConfigMap Create event is late, the first Reconcile's IsCfgAvailable reads the ConfigMap and a client hook " +
		"updates it and hands Create+Update to the real handler (other goroutine, bounded wait) before the sync, then all requests are reconciled, oracle = specs of the LATEST ConfigMap; " +
		"every 6th case (idx%6==2) runs with sloconfig.SLOCtrlConfigMap and/or sloconfig.ConfigNameSpace set to NON-DEFAULT values for the whole case (the ConfigMap is stored and its events carry that name; in half of them a decoy ConfigMap with the DEFAULT name/namespace and other content sits in the API) " +
		"and contains 1-2 restart steps whose ConfigMap Create event is LATE: every queued request is reconciled BEFORE any ConfigMap event (lazy first read of IsCfgAvailable), the oracle speaks there (specs of the STORED ConfigMap), then the late Create event; non-trivial = some step where a field delivered to a node goes from set to unset; distinct by op lines")
}

// ---------------------------------------------------------------- one case: world + oracle memory + step methods

type c20xEnv struct {
	defFlats  [][]c20Entry
	defLayers []c20Layer
	scheme    *runtime.Scheme
}

func c20xNewEnv() *c20xEnv {
	e := &c20xEnv{}
	e.defFlats = [][]c20Entry{
		c20FlatOfGo(sloconfig.DefaultResourceThresholdStrategy()),
		c20FlatOfGo(&slov1alpha1.ResourceQOSStrategy{}),
		c20FlatOfGo(sloconfig.DefaultCPUBurstStrategy()),
		c20FlatOfGo(sloconfig.DefaultSystemStrategy()),
	}
	e.defLayers = make([]c20Layer, 5)
	for i := range e.defFlats {
		e.defLayers[i] = c20LayerOf(e.defFlats[i])
	}
	e.scheme = runtime.NewScheme()
	_ = corev1.AddToScheme(e.scheme) // (not the whole client-go scheme: the fake tracker rebuilds a REST mapper from it on every write)
	_ = slov1alpha1.AddToScheme(e.scheme)
	return e
}

type c20xCase struct {
	env    *c20xEnv
	h      *vHarness
	w      *c20xWorld
	ctx    context.Context
	failed map[string]bool

	// the ConfigMap as it evolves, and the oracle's memory
	cur      []c20SecRaw
	extra    map[string]string
	dataNil  bool
	good     []c20Good // last parsable (or absent) content per section since the controller started
	goodAlt  []c20Good // same, reading a ConfigMap deletion as "all sections absent"
	textIDs  map[string]int
	nodes    map[int]map[int]int // node -> labels
	prevExp  map[int][]c20Layer
	prevObs  map[int][]c20Layer // what the cache delivered to the node at the previous observation
	raceOld  []c20Good          // during the observation that ends a race step: the oracle's memory for the SUPERSEDED ConfigMap (T1)
	stepNo   int
	sawUnset bool
	hold     bool // events only enqueue (Model/C20HistQ.lean); requests are reconciled one by one by reconcileOne
	goodHist [][]c20Good // the oracle's memory before each ConfigMap write of the case (to NAME a stale cache; never to excuse one)
	lateRestarts int // > 0: the random history contains that many stepRestartLateObserved (c20xFlagsCase)
	holdOracle bool // the observation is taken in hold mode but at quiescence (queue empty): the oracle speaks (stepRestartLateObserved)
	wired    bool // the controller runs in a real manager: reconciles happen on its worker, observations only after settle()
}

func (e *c20xEnv) newCase(h *vHarness) *c20xCase { return e.newCaseW(h, false) }

func (e *c20xEnv) newCaseW(h *vHarness, wired bool) *c20xCase {
	for s, fl := range e.defFlats {
		for _, x := range fl {
			h.Op("def %d %s", s, c20Line(x))
		}
	}
	c := &c20xCase{env: e, h: h, ctx: context.TODO(), failed: map[string]bool{}, cur: make([]c20SecRaw, 5), extra: map[string]string{},
		good: make([]c20Good, 5), goodAlt: make([]c20Good, 5), textIDs: map[string]int{}, nodes: map[int]map[int]int{}, prevExp: map[int][]c20Layer{}, prevObs: map[int][]c20Layer{}}
	c.w = &c20xWorld{scheme: e.scheme}
	c.w.cl = c.w.newClient()
	if wired {
		c.wired = true
		c.w.startWired(c)
	} else {
		c.w.start()
	}
	for s := range c.good {
		c.good[s], c.goodAlt[s] = c20Good{absent: true}, c20Good{absent: true}
	}
	return c
}

func (c *c20xCase) fail(fp, format string, a ...interface{}) {
	if c.wired {
		fp = strings.Replace(fp, "C20:hist:", "C20:wiring:", 1)
		format += " [events delivered through the watches registered by the real SetupWithManager on a real controller-runtime manager]"
	}
	if !c.failed[fp] {
		c.failed[fp] = true
		c.h.Fail(fp, format, a...)
	}
}

func (c *c20xCase) finish() {
	if c.w.wire != nil {
		c.w.wire.stop(c)
	}
	if c.w.apiError != "" {
		c.h.Tag("hapi-error")
		c.h.Extra("last_api_error", c.w.apiError)
		c.fail("C20:hist:harness-api", "fake API call failed: %s", c.w.apiError)
	}
	if c.sawUnset {
		c.h.Nontrivial()
	}
	c.h.End()
}

func (c *c20xCase) names() []int {
	names := []int{}
	for nm := range c.nodes {
		names = append(names, nm)
	}
	sort.Ints(names)
	return names
}

func (c *c20xCase) buildData() (map[string]string, []int) {
	data := map[string]string{}
	for s := 0; s < 5; s++ {
		if c.cur[s].state != 0 {
			data[c20SecKeys[s]] = c.cur[s].text
		}
	}
	for k, v := range c.extra {
		data[k] = v
	}
	ident := []int{0}
	if len(data) == 0 && c.dataNil {
		data = nil
		ident[0] = 1
	}
	for _, k := range append(append([]string{}, c20SecKeys...), c20xExtraKeys...) {
		txt, ok := data[k]
		if !ok {
			ident = append(ident, 0)
			continue
		}
		id, seen := c.textIDs[k+"\x00"+txt]
		if !seen {
			id = len(c.textIDs) + 1
			c.textIDs[k+"\x00"+txt] = id
		}
		ident = append(ident, id)
	}
	return data, ident
}

func c20xNewCMObj(data map[string]string) *corev1.ConfigMap {
	cm := &corev1.ConfigMap{Data: data}
	cm.Name, cm.Namespace = sloconfig.SLOCtrlConfigMap, sloconfig.ConfigNameSpace
	return cm
}

// stepCMWrite: the ConfigMap (c.cur / c.extra / c.dataNil as just edited) is created or updated in the API and the
// matching Create / Update event (old = the object before) is delivered to the real handler.
func (c *c20xCase) stepCMWrite(variation string) {
	h, w := c.h, c.w
	data, ident := c.buildData()
	kind := 1
	old := w.cmObj
	if old == nil {
		w.must(w.cl.Create(c.ctx, c20xNewCMObj(data)), "create cm")
	} else {
		kind = 2
		got := &corev1.ConfigMap{}
		w.must(w.cl.Get(c.ctx, types.NamespacedName{Namespace: sloconfig.ConfigNameSpace, Name: sloconfig.SLOCtrlConfigMap}, got), "get cm")
		got.Data = data
		w.must(w.cl.Update(c.ctx, got), "update cm")
	}
	w.cmObj = c20xNewCMObj(data)
	// the event's sections as ops; the oracle's memory follows the texts
	c.goodHist = append(c.goodHist, append([]c20Good{}, c.good...))
	h.Op("hev %d %s", kind, vIntsI(ident))
	for s := 0; s < 5; s++ {
		// 'parsable' by the strict reading of the text (exactly one JSON value), not by what the code under test accepted
		switch st := c20EmitSection(h, s, c.cur[s], c.fail); {
		case st == 0:
			c.good[s], c.goodAlt[s] = c20Good{absent: true}, c20Good{absent: true}
		case st == 2 && c.cur[s].state == 2:
			cp := c20xCopySec(c.cur[s])
			c.good[s], c.goodAlt[s] = c20Good{sec: cp}, c20Good{sec: cp}
		}
		h.Tag(fmt.Sprintf("hsec-%s:%s", c20SecNames[s], []string{"absent", "malformed", "parsed"}[c.cur[s].state]))
	}
	h.Op("end")
	if kind == 1 {
		h.Tag("hstep:cm-create")
		c.evCM(1, nil, w.cmObj)
	} else {
		h.Tag("hstep:cm-update")
		h.Tag("hcmupd:" + variation)
		c.evCM(2, old, w.cmObj)
	}
	c.observe("cm")
}

func (c *c20xCase) stepCMDelete() {
	h, w := c.h, c.w
	h.Op("hdel")
	h.Tag("hstep:cm-delete")
	w.must(w.cl.Delete(c.ctx, c20xNewCMObj(nil)), "delete cm")
	old := w.cmObj
	w.cmObj = nil
	for s := range c.goodAlt {
		c.goodAlt[s] = c20Good{absent: true}
		c.cur[s] = c20SecRaw{state: 0}
	}
	c.extra = map[string]string{}
	c.evCM(3, nil, old)
	c.observe("cmdel")
}

func (c *c20xCase) stepForeign(otherName, create bool) {
	h, w := c.h, c.w
	h.Op("hforeign")
	h.Tag("hstep:cm-foreign")
	f := &corev1.ConfigMap{Data: map[string]string{c20SecKeys[2]: `{"clusterStrategy":{"cpuBurstPercent":1}}`}}
	f.Name, f.Namespace = sloconfig.SLOCtrlConfigMap, "default"
	if otherName {
		f.Name, f.Namespace = "other-config", sloconfig.ConfigNameSpace
	}
	if w.wire != nil {
		w.wire.evForeign(f, create)
	} else if create {
		w.handler.Create(c.ctx, event.TypedCreateEvent[client.Object]{Object: f}, w.q)
	} else {
		g := f.DeepCopy()
		g.Data = map[string]string{}
		w.handler.Update(c.ctx, event.TypedUpdateEvent[client.Object]{ObjectOld: g, ObjectNew: f}, w.q)
	}
	c.observe("foreign")
}

func (c *c20xCase) stepNodeAdd(nm int, labels map[int]int) {
	h, w := c.h, c.w
	c.nodes[nm] = labels
	h.Op("hnode 0 %d %d %s", nm, len(labels), vIntsI(c20xLabelsKV(labels)))
	h.Tag("hstep:node-add")
	obj := c20xNodeObj(nm, labels, false)
	w.must(w.cl.Create(c.ctx, obj.DeepCopy()), "create node")
	c.evNode(1, nil, obj)
	c.observe("node")
}

func (c *c20xCase) stepNodeUpdate(nm int, labels map[int]int, touch bool) {
	h, w := c.h, c.w
	oldLabels := c.nodes[nm]
	c.nodes[nm] = labels
	h.Op("hnode 1 %d %d %s", nm, len(labels), vIntsI(c20xLabelsKV(labels)))
	kind := "relabel"
	if touch {
		kind = "touch"
	}
	h.Tag("hstep:node-" + kind)
	got := &corev1.Node{}
	w.must(w.cl.Get(c.ctx, types.NamespacedName{Name: c20xNodeName(nm)}, got), "get node")
	newObj := c20xNodeObj(nm, labels, touch)
	got.Labels, got.Annotations = newObj.Labels, newObj.Annotations
	w.must(w.cl.Update(c.ctx, got), "update node")
	c.evNode(2, c20xNodeObj(nm, oldLabels, false), newObj)
	c.observe(kind)
}

func (c *c20xCase) stepNodeDelete(nm int) {
	h, w := c.h, c.w
	oldLabels := c.nodes[nm]
	delete(c.nodes, nm)
	delete(c.prevExp, nm)
	delete(c.prevObs, nm)
	h.Op("hnode 2 %d 0", nm)
	h.Tag("hstep:node-delete")
	w.must(w.cl.Delete(c.ctx, c20xNodeObj(nm, nil, false)), "delete node")
	c.evNode(3, nil, c20xNodeObj(nm, oldLabels, false))
	c.observe("nodedel")
}

func (c *c20xCase) stepRestart(cmFirst bool) {
	h, w := c.h, c.w
	h.Op("hrestart %d", vB(cmFirst))
	h.Tag("hstep:restart")
	w.start()
	// the new process knows nothing of earlier texts: unparsable sections fall back to the default
	for s := range c.good {
		c.good[s], c.goodAlt[s] = c20Good{absent: true}, c20Good{absent: true}
		if w.cmObj != nil && c.cur[s].state == 2 {
			cp := c20xCopySec(c.cur[s])
			c.good[s], c.goodAlt[s] = c20Good{sec: cp}, c20Good{sec: cp}
		}
	}
	cmEv := func() {
		if w.cmObj != nil {
			w.handler.Create(c.ctx, event.TypedCreateEvent[client.Object]{Object: w.cmObj.DeepCopy()}, w.q)
			c.drain()
		}
	}
	listEv := func() {
		for _, nm := range c.names() {
			w.nodeH.Create(c.ctx, event.TypedCreateEvent[client.Object]{Object: c20xNodeObj(nm, c.nodes[nm], false)}, w.q)
		}
		sl := &slov1alpha1.NodeSLOList{}
		w.must(w.cl.List(c.ctx, sl), "list nodeslo")
		for i := range sl.Items {
			w.q.Add(reconcile.Request{NamespacedName: types.NamespacedName{Name: sl.Items[i].Name}})
		}
		c.drain()
	}
	if c.hold { // the initial events only enqueue; the ConfigMap's Create event comes first
		if w.cmObj != nil {
			w.handler.Create(c.ctx, event.TypedCreateEvent[client.Object]{Object: w.cmObj.DeepCopy()}, w.q)
		}
		for _, nm := range c.names() {
			w.nodeH.Create(c.ctx, event.TypedCreateEvent[client.Object]{Object: c20xNodeObj(nm, c.nodes[nm], false)}, w.q)
		}
		sl := &slov1alpha1.NodeSLOList{}
		w.must(w.cl.List(c.ctx, sl), "list nodeslo")
		for i := range sl.Items {
			w.q.Add(reconcile.Request{NamespacedName: types.NamespacedName{Name: sl.Items[i].Name}})
		}
	} else if cmFirst {
		cmEv()
		listEv()
	} else {
		listEv()
		cmEv()
	}
	c.observe("restart")
}

func (c *c20xCase) drain() {
	if c.h.Guard(func() { c.w.drain() }) {
		c.h.Obs("panic")
		c.fail("C20:panic", "Reconcile panicked")
		c.w.q.items = nil
	}
}

// observe: reconcile everything that was enqueued, then read back every NodeSLO and the cache's view per node, and
// evaluate the layering statement from scratch on the current texts + labels for every field of every node.
func (c *c20xCase) observe(kind string) {
	h, w := c.h, c.w
	if c.wired && c.hold {
		return // the manager's worker is reconciling concurrently: nothing canonical to observe before settle()
	}
	if !c.hold {
		c.drain()
	}
	stp := c.stepNo
	c.stepNo++
	h.Op("hobs")
	sl := &slov1alpha1.NodeSLOList{}
	w.must(w.cl.List(c.ctx, sl), "list nodeslo")
	stored := map[int][][]c20Entry{}
	var sloNames []int
	for i := range sl.Items {
		nm, err := strconv.Atoi(strings.TrimPrefix(sl.Items[i].Name, "n"))
		if err != nil {
			nm = 999
		}
		fl, isNil := c20SectionFlats(&sl.Items[i].Spec)
		for s := range isNil {
			if isNil[s] {
				fl[s] = []c20Entry{{[]int{999999}, -1}} // a nil section: never equal to anything expected
			}
		}
		stored[nm] = fl
		sloNames = append(sloNames, nm)
	}
	sort.Ints(sloNames)
	for _, nm := range sloNames {
		for s, fl := range stored[nm] {
			for _, e := range fl {
				h.Obs("s %d %d %s", nm, s, c20Line(e))
			}
		}
	}
	names := c.names()
	h.Tag(fmt.Sprintf("hnodes:%d", len(names)))
	for _, nm := range names {
		labels := c.nodes[nm]
		var spec *slov1alpha1.NodeSLOSpec
		if h.Guard(func() { spec, _ = w.rec.getNodeSLOSpec(c20xNodeObj(nm, labels, false), nil) }) || spec == nil {
			h.Obs("g %d panic", nm)
			c.fail("C20:panic", "getNodeSLOSpec panicked or returned nil")
			continue
		}
		view, isNil := c20SectionFlats(spec)
		for s := range isNil {
			if isNil[s] {
				view[s] = []c20Entry{{[]int{999999}, -1}}
			}
		}
		sto, have := stored[nm]
		if have && c20xFlatsEq(sto, view) {
			h.Obs("g %d same", nm)
		} else {
			for s, fl := range view {
				for _, e := range fl {
					h.Obs("g %d %d %s", nm, s, c20Line(e))
				}
			}
		}
		// ---- oracle (at quiescence only: while requests are pending a NodeSLO may legitimately be stale)
		if c.hold && !c.holdOracle {
			continue
		}
		if !have {
			c.fail("C20:hist:nodeslo-missing", "node n%d exists and was reconciled but has no NodeSLO (step %d %s)", nm, stp, kind)
			continue
		}
		exps := make([]c20Layer, 5)
		viewLayers := make([]c20Layer, 5)
		for s := range viewLayers {
			viewLayers[s] = c20LayerOf(view[s])
		}
		prevObs := c.prevObs[nm]
		c.prevObs[nm] = viewLayers
		anyUnset, anyOther := false, false
		for s := 0; s < 5; s++ {
			exp := c20xExpect(s, c.good[s], labels, c.env.defLayers[s])
			exps[s] = exp
			if pe, ok := c.prevExp[nm]; ok {
				for p, v := range pe[s] {
					if nv, ok := exp[p]; !ok {
						anyUnset = true
					} else if nv != v {
						anyOther = true
					}
				}
				for p := range exp {
					if _, ok := pe[s][p]; !ok {
						anyOther = true
					}
				}
			}
			alt := c20xExpect(s, c.goodAlt[s], labels, c.env.defLayers[s])
			if !c.good[s].absent {
				var matching []int
				for i, ne := range c.good[s].sec.nodes {
					if c20SelMatches(ne.sel, labels) {
						matching = append(matching, i)
					}
				}
				if len(matching) > 1 {
					h.Tag("hprobe:overlapping-selectors")
					if k := c20NameSortedFirst(c.good[s].sec.nodes, matching); k >= 0 && k != matching[0] {
						h.Tag("hprobe:overlap-first-in-document-is-not-smallest-name")
					}
				}
			}
			obsS, obsV := c20LayerOf(sto[s]), c20LayerOf(view[s])
			if c20LayerEq(obsS, exp) || c20LayerEq(obsS, alt) {
				continue
			}
			staleOf := -1 // is the cache's view what an EARLIER ConfigMap content of this case demands?
			viewOK := c20LayerEq(obsV, exp) || c20LayerEq(obsV, alt)
			for k := len(c.goodHist) - 1; k >= 0 && staleOf < 0 && c.raceOld == nil && !viewOK; k-- {
				if c20LayerEq(obsV, c20xExpect(s, c.goodHist[k][s], labels, c.env.defLayers[s])) {
					staleOf = k
				}
			}
			if kind == "restart-before-cm-event" && !viewOK {
				// restart path: the cache was initialised by IsCfgAvailable's own read of the ConfigMap, no event handled yet
				d := c20Diffs(obsV, exp)[0]
				what := "is not the merge of the ConfigMap stored in the API"
				if c20LayerEq(obsV, c20xExpect(s, c20Good{absent: true}, labels, c.env.defLayers[s])) {
					what = "holds the BUILT-IN DEFAULTS although the ConfigMap is stored in the API"
				}
				c.fail("C20:hist:restart-lazy-init-missed-configmap:"+c20SecNames[s], "after a restart, reconciled before any ConfigMap event, the cache initialised by IsCfgAvailable %s (ConfigMap %s/%s) for n%d: section %s field %s: %s (after step %d %s, labels %v)",
					what, sloconfig.ConfigNameSpace, sloconfig.SLOCtrlConfigMap, nm, c20SecNames[s], c20PathNames(d.p), d.what, stp, kind, labels)
			} else if staleOf >= 0 {
				d := c20Diffs(obsV, exp)[0]
				c.fail("C20:hist:cache-stale:"+c20SecNames[s], "the cached config does not follow the current ConfigMap for n%d (it is what the ConfigMap said %d write(s) ago): section %s field %s: %s (after step %d %s, labels %v)",
					nm, len(c.goodHist)-staleOf, c20SecNames[s], c20PathNames(d.p), d.what, stp, kind, labels)
			} else if k := c20xLaterMatch(s, c.good[s], labels, c.env.defLayers[s], obsV); k >= 0 && !viewOK {
				d := c20Diffs(obsV, exp)[0]
				c.fail("C20:hist:first-match:"+c20SecNames[s], "n%d is served by node entry #%d (name %q) although an EARLIER entry of the section matches its labels: section %s field %s: %s (after step %d %s, labels %v)",
					nm, k, c.good[s].sec.nodes[k].name, c20SecNames[s], c20PathNames(d.p), d.what, stp, kind, labels)
			} else if c20LayerEq(obsV, exp) || c20LayerEq(obsV, alt) {
				d := c20Diffs(obsS, exp)[0]
				c.fail("C20:hist:nodeslo-stale:"+c20SecNames[s], "the NodeSLO of n%d does not carry the recomputed spec: section %s field %s: %s (after step %d %s, labels %v)",
					nm, c20SecNames[s], c20PathNames(d.p), d.what, stp, kind, labels)
			} else if c.raceOld != nil && c20LayerEq(obsV, c20xExpect(s, c.raceOld[s], labels, c.env.defLayers[s])) {
				// the cache holds what the ConfigMap said BEFORE the update that raced the lazy initialisation
				d := c20Diffs(obsV, exp)[0]
				c.fail("C20:hist:lazy-init-overwrote-newer-configmap:"+c20SecNames[s], "after a restart whose first reconcile initialised the cache while the ConfigMap was updated, the cache (and every NodeSLO) keeps the SUPERSEDED ConfigMap for n%d: section %s field %s: %s (after step %d %s, labels %v)",
					nm, c20SecNames[s], c20PathNames(d.p), d.what, stp, kind, labels)
			} else if kind == "cm" && c.cur[s].state == 1 && c20ValidPrefix(c.cur[s].text) && prevObs != nil && !c20LayerEq(obsV, prevObs[s]) {
				// the text written by this step is not parsable (strict reading), yet what the cache delivers changed with it
				d := c20Diffs(obsV, exp)[0]
				c.fail("C20:hist:malformed-section-applied:"+c20SecNames[s], "section text %q is not one JSON value (only its prefix is) but the previously effective settings were not kept for n%d: section %s field %s: %s (after step %d %s, labels %v)",
					c.cur[s].text, nm, c20SecNames[s], c20PathNames(d.p), d.what, stp, kind, labels)
			} else {
				d := c20Diffs(obsV, exp)[0]
				c.fail("C20:hist:cache-stale:"+c20SecNames[s], "the cached config does not follow the current ConfigMap for n%d: section %s field %s: %s (after step %d %s, labels %v)",
					nm, c20SecNames[s], c20PathNames(d.p), d.what, stp, kind, labels)
			}
		}
		c.prevExp[nm] = exps
		if anyUnset {
			h.Tag("hdelivery:set-to-unset")
			c.sawUnset = true
			if !anyOther {
				h.Tag("hdelivery:unset-only")
			}
		}
	}
}

// ---- lazy initialisation of the cache racing a ConfigMap update (Model/C20Race.lean)

// c20xRaceWait: how long the hook waits for the event handler.  On a tree whose IsCfgAvailable holds the cache lock over
// check-read-sync the handler cannot run before the lazy init is over, so the hook always waits this long there.
const c20xRaceWait = 25 * time.Millisecond

// stepRace: controller restart whose FIRST reconcile initialises the cache lazily (IsCfgAvailable: the ConfigMap's initial
// Create event has not been handled yet) while the ConfigMap is updated.  The client hook fires when IsCfgAvailable has read
// the ConfigMap (text T1) and has not synced it yet: the ConfigMap is updated in the API (T2 = c.cur as edited by the
// caller) and the informer's events - the late initial Create(T1), then Update(T1 -> T2) - are handed to the real handler on
// another goroutine; the hook gives the handler c20xRaceWait to finish (it cannot, if the lazy init holds the lock), then
// lets IsCfgAvailable continue.  After that Reconcile has returned and the handler is done, every queued request is
// reconciled, and the oracle demands the NodeSLO specs of the LATEST ConfigMap (T2).
// Model ops (the atomic lazy init of the pinned source): hrestartlate; hrec n; hcmlate; hev 2 T2; reconcile all.
func (c *c20xCase) stepRace(r *vRand, t1Secs []c20SecRaw) {
	h, w := c.h, c.w
	c.enterHold()
	h.Op("hrestartlate")
	h.Tag("hstep:race-lazy-init")
	t1 := w.cmObj
	w.start()
	for s := range c.good { // the new process knows nothing of earlier texts; it will see T1 (read or late Create event), then T2
		c.good[s], c.goodAlt[s] = c20Good{absent: true}, c20Good{absent: true}
		if t1 != nil && t1Secs[s].state == 2 {
			cp := c20xCopySec(t1Secs[s])
			c.good[s], c.goodAlt[s] = c20Good{sec: cp}, c20Good{sec: cp}
		}
	}
	for _, nm := range c.names() {
		w.nodeH.Create(c.ctx, event.TypedCreateEvent[client.Object]{Object: c20xNodeObj(nm, c.nodes[nm], false)}, w.q)
	}
	sl := &slov1alpha1.NodeSLOList{}
	w.must(w.cl.List(c.ctx, sl), "list nodeslo")
	for i := range sl.Items {
		w.q.Add(reconcile.Request{NamespacedName: types.NamespacedName{Name: sl.Items[i].Name}})
	}
	raceOld := append([]c20Good{}, c.good...)
	data, ident := c.buildData()
	t2 := c20xNewCMObj(data)
	writeT2 := func() {
		if t1 == nil { // no ConfigMap so far: the racing change is its creation
			w.must(w.cl.Create(c.ctx, c20xNewCMObj(data)), "create cm")
		} else {
			got := &corev1.ConfigMap{}
			w.must(w.cl.Get(c.ctx, types.NamespacedName{Namespace: sloconfig.ConfigNameSpace, Name: sloconfig.SLOCtrlConfigMap}, got), "get cm")
			got.Data = data
			w.must(w.cl.Update(c.ctx, got), "update cm")
		}
		w.cmObj = t2
	}
	handlerPanicked := false
	events := func() {
		defer func() {
			if recover() != nil {
				handlerPanicked = true
			}
		}()
		if t1 == nil {
			w.handler.Create(c.ctx, event.TypedCreateEvent[client.Object]{Object: t2.DeepCopy()}, w.q)
			return
		}
		w.handler.Create(c.ctx, event.TypedCreateEvent[client.Object]{Object: t1.DeepCopy()}, w.q)
		w.handler.Update(c.ctx, event.TypedUpdateEvent[client.Object]{ObjectOld: t1.DeepCopy(), ObjectNew: t2.DeepCopy()}, w.q)
	}
	// the first request of the new process
	k := r.Intn(len(w.q.items))
	req := w.q.items[k]
	w.q.items = append(append([]reconcile.Request{}, w.q.items[:k]...), w.q.items[k+1:]...)
	nm, err := strconv.Atoi(strings.TrimPrefix(req.Name, "n"))
	if err != nil {
		nm = 999
	}
	fired, between := false, false
	done := make(chan struct{})
	w.afterCMRead = func() {
		fired = true
		writeT2()
		go func() {
			defer close(done)
			events()
		}()
		select {
		case <-done:
			between = true
		case <-time.After(c20xRaceWait):
		}
	}
	var rerr error
	panicked := h.Guard(func() { _, rerr = w.rec.Reconcile(c.ctx, req) })
	w.afterCMRead = nil
	switch {
	case !fired: // the availability check did not read the ConfigMap through the client: the update simply comes afterwards
		h.Tag("hrace:configmap-not-read")
		writeT2()
		events()
	case between:
		<-done
		h.Tag("hrace:event-handled-between-read-and-sync")
	default:
		<-done
		h.Tag("hrace:event-handled-after-lazy-init")
	}
	w.must(rerr, "reconcile "+req.Name)
	h.Op("hrec %d", nm)
	if t1 == nil {
		h.Tag("hrace:configmap-created")
		h.Op("hev 1 %s", vIntsI(ident))
	} else {
		h.Tag("hrace:configmap-updated")
		h.Op("hcmlate")
		h.Op("hev 2 %s", vIntsI(ident))
	}
	for s := 0; s < 5; s++ {
		switch st := c20EmitSection(h, s, c.cur[s], c.fail); {
		case st == 0:
			c.good[s], c.goodAlt[s] = c20Good{absent: true}, c20Good{absent: true}
		case st == 2 && c.cur[s].state == 2:
			cp := c20xCopySec(c.cur[s])
			c.good[s], c.goodAlt[s] = c20Good{sec: cp}, c20Good{sec: cp}
		}
		h.Tag(fmt.Sprintf("hsec-%s:%s", c20SecNames[s], []string{"absent", "malformed", "parsed"}[c.cur[s].state]))
	}
	h.Op("end")
	if panicked || handlerPanicked {
		h.Obs("panic")
		c.fail("C20:panic", "Reconcile or the ConfigMap handler panicked")
	}
	c.raceOld = raceOld
	c.leaveHold(r)
	c.raceOld = nil
}

// ---- restart path under non-default flags (round 7)

// stepRestartLateObserved: controller restart whose initial ConfigMap Create event is LATE.  The informers' initial Node /
// NodeSLO events are queued and EVERY request is reconciled before any ConfigMap event: the first Reconcile's IsCfgAvailable
// initialises the cache by its own read of the ConfigMap (config.GetConfigMapForCache).  The queue is empty then, so the
// oracle speaks (specs of the ConfigMap STORED in the API, or the defaults when there is none).  Then the late Create event.
// Model ops: hmode 1; hrestartlate; hrec n ...; hobs; hcmlate; hmode 0; hobs.
func (c *c20xCase) stepRestartLateObserved(r *vRand) {
	h, w := c.h, c.w
	c.enterHold()
	h.Op("hrestartlate")
	h.Tag("hstep:restart-late-observed")
	w.start()
	for s := range c.good { // the new process knows nothing of earlier texts
		c.good[s], c.goodAlt[s] = c20Good{absent: true}, c20Good{absent: true}
		if w.cmObj != nil && c.cur[s].state == 2 {
			cp := c20xCopySec(c.cur[s])
			c.good[s], c.goodAlt[s] = c20Good{sec: cp}, c20Good{sec: cp}
		}
	}
	for _, nm := range c.names() {
		w.nodeH.Create(c.ctx, event.TypedCreateEvent[client.Object]{Object: c20xNodeObj(nm, c.nodes[nm], false)}, w.q)
	}
	sl := &slov1alpha1.NodeSLOList{}
	w.must(w.cl.List(c.ctx, sl), "list nodeslo")
	for i := range sl.Items {
		w.q.Add(reconcile.Request{NamespacedName: types.NamespacedName{Name: sl.Items[i].Name}})
	}
	if len(w.q.items) > 0 {
		h.Tag("hlate:reconciled-before-cm-event")
	}
	for len(w.q.items) > 0 {
		c.reconcileOne(r.Intn(len(w.q.items)), false)
	}
	c.holdOracle = true
	c.observe("restart-before-cm-event")
	c.holdOracle = false
	if w.cmObj != nil {
		h.Tag("hlate:configmap-stored")
		h.Op("hcmlate")
		if h.Guard(func() {
			w.handler.Create(c.ctx, event.TypedCreateEvent[client.Object]{Object: w.cmObj.DeepCopy()}, w.q)
		}) {
			h.Obs("panic")
			c.fail("C20:panic", "the ConfigMap handler panicked")
		}
	} else {
		h.Tag("hlate:no-configmap")
	}
	c.leaveHold(r)
}

// stepDecoy: a ConfigMap with the DEFAULT name and namespace is created in the API while the controller runs with other
// flags: it is a foreign object (its Create event must be ignored, and no read of "the" ConfigMap may return it).
func (c *c20xCase) stepDecoy(name, ns string) {
	h, w := c.h, c.w
	h.Op("hforeign")
	h.Tag("hstep:cm-decoy-default-name")
	f := &corev1.ConfigMap{Data: map[string]string{
		c20SecKeys[2]: `{"clusterStrategy":{"cpuBurstPercent":1}}`,
		c20SecKeys[0]: `{"clusterStrategy":{"cpuSuppressThresholdPercent":1}}`,
	}}
	f.Name, f.Namespace = name, ns
	w.must(w.cl.Create(c.ctx, f.DeepCopy()), "create decoy cm")
	w.handler.Create(c.ctx, event.TypedCreateEvent[client.Object]{Object: f}, w.q)
	c.observe("foreign")
}

// c20xFlagsCase: one history with the package variables behind --slo-config-name / --config-namespace set to non-default
// values from before the controller is constructed until the case ends (restored afterwards; the harness is serial).
func c20xFlagsCase(env *c20xEnv, h *vHarness, r *vRand) {
	defName, defNS := sloconfig.SLOCtrlConfigMap, sloconfig.ConfigNameSpace
	defer func() { sloconfig.SLOCtrlConfigMap, sloconfig.ConfigNameSpace = defName, defNS }()
	switch r.Intn(3) {
	case 0:
		sloconfig.SLOCtrlConfigMap = "verif-slo-config"
		h.Tag("hflags:name")
	case 1:
		sloconfig.ConfigNameSpace = "verif-system"
		h.Tag("hflags:namespace")
	default:
		sloconfig.SLOCtrlConfigMap, sloconfig.ConfigNameSpace = "verif-slo-config", "verif-system"
		h.Tag("hflags:name+namespace")
	}
	c := env.newCase(h)
	if r.Bool() {
		c.stepDecoy(defName, defNS)
	}
	c.lateRestarts = r.Range(1, 2)
	c20xRandomHistory(c, r, false)
	c.finish()
}

// ---- hold mode: events only enqueue; queued requests are reconciled one at a time, in any order

func (c *c20xCase) enterHold() {
	c.h.Op("hmode 1")
	c.h.Tag("hhold:enter")
	c.hold = true
}

// reconcileOne takes the k-th queued request; with `inject` the NodeSLO write of this reconcile (if it makes one) fails.
func (c *c20xCase) reconcileOne(k int, inject bool) {
	w := c.w
	req := w.q.items[k]
	w.q.items = append(append([]reconcile.Request{}, w.q.items[:k]...), w.q.items[k+1:]...)
	nm, err := strconv.Atoi(strings.TrimPrefix(req.Name, "n"))
	if err != nil {
		nm = 999
	}
	w.failArmed, w.failUsed = inject, false
	var res reconcile.Result
	var rerr error
	panicked := c.h.Guard(func() { res, rerr = w.rec.Reconcile(c.ctx, req) })
	w.failArmed = false
	if w.failUsed {
		// the write failed: nothing may be stored, and the controller must see the request again (error or Requeue)
		c.h.Op("hrecfail %d", nm)
		c.h.Tag("hhold:reconcile-write-fails")
		if rerr != nil || res.Requeue || res.RequeueAfter > 0 {
			w.q.Add(req)
		} else {
			c.h.Tag("hhold:failed-write-not-requeued")
		}
	} else {
		c.h.Op("hrec %d", nm)
		c.h.Tag("hhold:reconcile-one")
		w.must(rerr, "reconcile "+req.Name)
	}
	if panicked {
		c.h.Obs("panic")
		c.fail("C20:panic", "Reconcile panicked")
	}
}

// reconcileSpurious: a request for a name that need not be queued (resync, the NodeSLO's own event).
func (c *c20xCase) reconcileSpurious(nm int) {
	w := c.w
	req := reconcile.Request{NamespacedName: types.NamespacedName{Name: c20xNodeName(nm)}}
	for k, x := range w.q.items {
		if x == req {
			c.reconcileOne(k, false)
			return
		}
	}
	c.h.Op("hrec %d", nm)
	c.h.Tag("hhold:reconcile-spurious")
	if c.h.Guard(func() {
		_, err := w.rec.Reconcile(c.ctx, req)
		w.must(err, "reconcile "+req.Name)
	}) {
		c.h.Obs("panic")
		c.fail("C20:panic", "Reconcile panicked")
	}
}

func (c *c20xCase) leaveHold(r *vRand) {
	for len(c.w.q.items) > 0 {
		c.reconcileOne(r.Intn(len(c.w.q.items)), false)
	}
	c.h.Op("hmode 0")
	c.hold = false
	c.observe("release")
}

// ---------------------------------------------------------------- random histories

// c20xRaceEdit turns the current ConfigMap content (T1) into T2 for stepRace: 1-3 sections edited or regenerated.  A section
// that T1 has parsable is never made unparsable: "previously effective" would then depend on whether the new process has
// seen T1 at all (lazy init before the event: T1's settings; event before a re-checking lazy init: the default) - both legal.
func c20xRaceEdit(c *c20xCase, r *vRand) {
	for i, s := range r.Perm(5) {
		if i > 0 && !r.Chance(1, 3) {
			continue
		}
		if c.cur[s].state == 2 && r.Bool() {
			cp := c20xCopySec(c.cur[s])
			if tag := c20xMutate(r, s, &cp); tag != "" {
				cp.text = c20xRender(s, cp)
				c.cur[s] = cp
				continue
			}
		}
		next := c20SecRaw{state: 0}
		for try := 0; try < 8; try++ {
			if g := c20GenSection(r, s); g.state != 1 {
				next = g
				break
			}
		}
		c.cur[s] = next
	}
}

// c20xRandomCMStep: one random write of the slo-controller ConfigMap (create if it does not exist, else one of the update
// variations) + its event.
func c20xRandomCMStep(c *c20xCase, r *vRand) {
	w := c.w
	if w.cmObj == nil { // ---- create
		for s := 0; s < 5; s++ {
			c.cur[s] = c20SecRaw{state: 0}
			if r.Bool() {
				c.cur[s] = c20GenSection(r, s)
			}
		}
		c.extra = map[string]string{}
		if r.Chance(1, 5) {
			c.extra[c20xExtraKeys[0]] = `{"enable":true}`
		}
		c.dataNil = r.Bool()
		c.stepCMWrite("create")
		return
	}
	variation := ""
	present, absent := []int{}, []int{}
	for s := 0; s < 5; s++ {
		if c.cur[s].state != 0 {
			present = append(present, s)
		} else {
			absent = append(absent, s)
		}
	}
	switch x := r.Intn(20); {
	case x < 2:
		variation = "nothing"
	case x < 4:
		variation = "other-key"
		k := c20xExtraKeys[r.Intn(2)]
		if _, ok := c.extra[k]; ok && r.Bool() {
			delete(c.extra, k)
		} else {
			c.extra[k] = fmt.Sprintf(`{"v":%d}`, r.Intn(3))
		}
	case x < 7 && len(present) > 0:
		variation = "remove-key"
		for i, s := range r.Perm(len(present)) {
			if i == 0 || r.Chance(1, 4) {
				c.cur[present[s]] = c20SecRaw{state: 0}
			}
		}
	case x < 9 && len(absent) > 0:
		variation = "add-key"
		s := absent[r.Intn(len(absent))]
		c.cur[s] = c20GenSection(r, s)
		if c.cur[s].state == 0 {
			c.cur[s] = c20SecRaw{state: 2, text: "{}"}
		}
	case x < 15 && len(present) > 0:
		s := present[r.Intn(len(present))]
		cp := c20xCopySec(c.cur[s])
		if tag := c20xMutate(r, s, &cp); tag != "" {
			cp.text = c20xRender(s, cp)
			c.cur[s] = cp
			variation = "edit:" + tag
		} else {
			c.cur[s] = c20GenSection(r, s)
			variation = "regen"
		}
	case x < 16 && len(present) > 0:
		variation = "break"
		s := present[r.Intn(len(present))]
		c.cur[s] = c20SecRaw{state: 1, text: []string{"invalid_content", "{", "[]", ""}[r.Intn(4)]}
		if r.Bool() { // not one JSON value, but a PREFIX of the text is a complete (and different) section
			variation = "break-valid-prefix"
			for try := 0; try < 8; try++ {
				if g := c20GenSection(r, s); g.state == 2 {
					c.cur[s] = c20SecRaw{state: 1, text: c20PrefixValidMalformed(r, g.text)}
					break
				}
			}
		}
	default:
		variation = "regen"
		for i, s := range r.Perm(5) {
			if i == 0 || r.Chance(1, 5) {
				c.cur[s] = c20GenSection(r, s)
			}
		}
	}
	if r.Chance(1, 10) {
		c.dataNil = !c.dataNil
	}
	c.stepCMWrite(variation)
}

// c20xRandomRelabel: a node update: new random labels / one label flipped (kind "relabel") or an annotation-only touch.
func c20xRandomRelabel(c *c20xCase, r *vRand, kind string, names []int) {
	nm := names[r.Intn(len(names))]
	oldLabels := c.nodes[nm]
	labels := oldLabels
	if kind == "relabel" {
		labels = c20xGenLabels(r)
		if r.Chance(1, 3) { // flip exactly one label: moves between selector layers
			labels = map[int]int{}
			for k, v := range oldLabels {
				labels[k] = v
			}
			k := r.Range(1, 3)
			if _, ok := labels[k]; ok && r.Bool() {
				delete(labels, k)
			} else {
				labels[k] = 1 + (labels[k] % 2)
			}
		}
	}
	c.stepNodeUpdate(nm, labels, kind == "touch")
}

func c20xRandomHistory(c *c20xCase, r *vRand, race bool) {
	h, w := c.h, c.w
	nSteps := r.Range(3, 8)
	if r.Chance(1, 12) {
		nSteps = r.Range(9, 12)
	}
	h.Tag(fmt.Sprintf("hsteps:%d", nSteps))
	forced := []string{}
	late := c.lateRestarts
	if !r.Chance(1, 8) || race || late > 0 {
		switch r.Intn(4) {
		case 0:
			forced = []string{"cm", "node"}
		case 1:
			forced = []string{"node", "cm"}
		case 2:
			forced = []string{"node", "cm", "node"}
		default:
			forced = []string{"cm", "node", "node"}
		}
	}
	holdAt, holdLen := -1, 0
	if late == 0 && r.Chance(1, 3) && !race { // a burst of changes whose requests stay queued, reconciled in random order in between and after
		holdAt, holdLen = r.Range(1, nSteps-1), r.Range(2, 4)
	}
	raced := false
	if race && nSteps <= len(forced) {
		nSteps = len(forced) + 1
	}
	if late > 0 && nSteps < len(forced)+late {
		nSteps = len(forced) + late
	}
	for stp := 0; stp < nSteps; stp++ {
		if stp == holdAt {
			c.enterHold()
		}
		if c.hold {
			if stp >= holdAt+holdLen {
				c.leaveHold(r)
			} else if len(w.q.items) > 0 && r.Chance(1, 2) {
				c.reconcileOne(r.Intn(len(w.q.items)), r.Bool())
			} else if r.Chance(1, 8) {
				c.reconcileSpurious(r.Range(1, 3))
			}
		}
		kind := ""
		if stp < len(forced) {
			kind = forced[stp]
		} else {
			x := r.Intn(100)
			switch {
			case x < 45:
				kind = "cm"
			case x < 50:
				kind = "cmdel"
			case x < 53:
				kind = "foreign"
			case x < 65:
				kind = "node"
			case x < 85:
				kind = "relabel"
			case x < 88:
				kind = "touch"
			case x < 93:
				kind = "nodedel"
			default:
				kind = "restart"
			}
		}
		if (kind == "relabel" || kind == "touch" || kind == "nodedel") && len(c.nodes) == 0 {
			kind = "node"
		}
		if kind == "node" && len(c.nodes) >= 3 {
			kind = "relabel"
		}
		if kind == "cmdel" && w.cmObj == nil {
			kind = "cm"
		}
		if race && !raced && stp >= len(forced) && len(c.nodes) > 0 && (stp == nSteps-1 || r.Chance(1, 2)) {
			kind = "race"
			if w.cmObj != nil && r.Chance(1, 6) { // the ConfigMap is deleted first: the racing change will be its creation
				c.stepCMDelete()
			}
		}
		if late > 0 && stp >= len(forced) && len(c.nodes) > 0 && (nSteps-stp <= late || r.Chance(1, 3)) {
			kind = "restartlate"
			late--
			if w.cmObj != nil && r.Chance(1, 8) { // no ConfigMap at all at the restart: the built-in defaults are right
				c.stepCMDelete()
			}
		}
		names := c.names()
		switch kind {
		case "restartlate":
			c.stepRestartLateObserved(r)
		case "race":
			raced = true
			t1 := make([]c20SecRaw, 5)
			for s := range t1 {
				t1[s] = c20xCopySec(c.cur[s])
			}
			c20xRaceEdit(c, r)
			c.stepRace(r, t1)
		case "cm":
			c20xRandomCMStep(c, r)
		case "cmdel":
			c.stepCMDelete()
		case "foreign":
			c.stepForeign(r.Bool(), r.Bool())
		case "node":
			nm := 1
			for c.nodes[nm] != nil {
				nm++
			}
			c.stepNodeAdd(nm, c20xGenLabels(r))
		case "relabel", "touch":
			c20xRandomRelabel(c, r, kind, names)
		case "nodedel":
			c.stepNodeDelete(names[r.Intn(len(names))])
		case "restart":
			c.stepRestart(c.hold || r.Bool())
		}
	}
	if c.hold {
		c.leaveHold(r)
	}
}

// ---------------------------------------------------------------- exhaustive small scope (thorough tier)

// Every history of <= 4 steps over a 10-letter alphabet, for each of three sections whose built-in default leaves
// fields unset (qos, system, host applications): ConfigMap texts T1 (cluster sets a field), T2 (cluster + an entry named "b" for la=x
// that sets another field + a SECOND entry named "a" with the same selector and other values: first in the document wins), T3 (unparsable), T0 (the key removed), ConfigMap deletion, one node added with la=x / relabelled
// x<->y / deleted, restart.  Set -> unset transitions of every kind occur in all orders.
func TestVerifC20HistExhaustive(t *testing.T) {
	h := vOpen("C20")
	if h == nil {
		t.Skip("VERIF_OUT not set")
	}
	env := c20xNewEnv()
	selX := c20Sel{kind: 2, reqs: []c20Req{{key: 1, op: 0, vals: []int{1}}}, json: c20J{"matchLabels": c20J{"la": "x"}}}
	app := func(name string) []interface{} {
		return []interface{}{c20J{"name": name, "qos": "LS"}}
	}
	texts := func(sec, k int) c20SecRaw {
		switch k {
		case 0:
			return c20SecRaw{state: 0}
		case 3:
			return c20SecRaw{state: 1, text: "{"}
		case 4: // T4: not one JSON value, but its prefix is a complete section that sets the cluster field to ANOTHER value
			raw := c20SecRaw{state: 2}
			switch sec {
			case 1:
				raw.cluster = c20J{"lsClass": c20J{"cpuQOS": c20J{"groupIdentity": int64(1)}}}
			case 3:
				raw.cluster = c20J{"schedIdleSaverWmark": int64(7)}
			default:
				raw.apps = app("agent")
			}
			return c20SecRaw{state: 1, text: c20xRender(sec, raw) + []string{"}", "{}", " x"}[sec%3]}
		}
		raw := c20SecRaw{state: 2}
		switch sec {
		case 1:
			raw.cluster = c20J{"lsClass": c20J{"cpuQOS": c20J{"groupIdentity": int64(2)}}}
			if k == 2 {
				raw.nodes = []c20NodeRaw{{sel: selX, name: "b", named: true, strat: c20J{"beClass": c20J{"memoryQOS": c20J{"wmarkRatio": int64(50)}}}},
					{sel: selX, name: "a", named: true, strat: c20J{"beClass": c20J{"memoryQOS": c20J{"wmarkRatio": int64(65)}}, "lsClass": c20J{"cpuQOS": c20J{"groupIdentity": int64(1)}}}}}
			}
		case 3:
			raw.cluster = c20J{"schedIdleSaverWmark": int64(3)}
			if k == 2 {
				raw.nodes = []c20NodeRaw{{sel: selX, name: "b", named: true, strat: c20J{"schedGroupIdentityEnabled": int64(1), "totalNetworkBandwidth": "1G"}},
					{sel: selX, name: "a", named: true, strat: c20J{"schedGroupIdentityEnabled": int64(0), "minFreeKbytesFactor": int64(65), "schedIdleSaverWmark": int64(2)}}}
			}
		default:
			raw.apps = app("nginx")
			if k == 2 {
				raw.nodes = []c20NodeRaw{{sel: selX, name: "b", named: true, apps: append(app("redis"), app("agent")...)},
					{sel: selX, name: "a", named: true, apps: app("agent")}}
			}
		}
		raw.text = c20xRender(sec, raw)
		return raw
	}
	const letters = 11
	idx := 0
	var run func(sec int, hist []int)
	run = func(sec int, hist []int) {
		if len(hist) > 0 {
			r := h.Begin(idx)
			idx++
			if r != nil {
				c := env.newCase(h)
				h.Tag(fmt.Sprintf("xsec:%s", c20SecNames[sec]))
				h.Tag(fmt.Sprintf("xlen:%d", len(hist)))
				for _, l := range hist {
					switch {
					case l <= 3: // write text l
						c.cur[sec] = texts(sec, l)
						c.stepCMWrite(fmt.Sprintf("x-text%d", l))
					case l == 4:
						if c.w.cmObj != nil {
							c.stepCMDelete()
						} else {
							c.stepForeign(true, true)
						}
					case l == 5, l == 6: // node present with la=x (5) / la=y (6): add or relabel
						labels := map[int]int{1: l - 4}
						if c.nodes[1] == nil {
							c.stepNodeAdd(1, labels)
						} else {
							c.stepNodeUpdate(1, labels, false)
						}
					case l == 7:
						if c.nodes[1] != nil {
							c.stepNodeDelete(1)
						} else if c.nodes[2] == nil {
							c.stepNodeAdd(2, map[int]int{2: 1})
						} else {
							c.stepNodeDelete(2)
						}
					case l == 10: // write text T4 (valid prefix + junk)
						c.cur[sec] = texts(sec, 4)
						c.stepCMWrite("x-text4")
					default:
						c.stepRestart(l == 8)
					}
				}
				c.finish()
			}
		}
		if len(hist) == 4 {
			return
		}
		for l := 0; l < letters; l++ {
			run(sec, append(append([]int{}, hist...), l))
		}
	}
	for _, sec := range []int{1, 3, 4} {
		run(sec, nil)
	}
	// every lazy-init race in the same scope: the superseded ConfigMap (none / T0..T4) x the racing update to a parsable
	// text (T0 / T1 / T2) x one node with la=x or la=y
	for _, sec := range []int{1, 3, 4} {
		for a := -1; a <= 4; a++ {
			for b := 0; b <= 2; b++ {
				for lab := 1; lab <= 2; lab++ {
					r := h.Begin(idx)
					idx++
					if r == nil {
						continue
					}
					c := env.newCase(h)
					h.Tag(fmt.Sprintf("xsec:%s", c20SecNames[sec]))
					h.Tag("xrace")
					if a >= 0 {
						c.cur[sec] = texts(sec, a)
						c.stepCMWrite(fmt.Sprintf("x-text%d", a))
					}
					c.stepNodeAdd(1, map[int]int{1: lab})
					t1 := make([]c20SecRaw, 5)
					for s := range t1 {
						t1[s] = c20xCopySec(c.cur[s])
					}
					c.cur[sec] = texts(sec, b)
					c.stepRace(r, t1)
					c.finish()
				}
			}
		}
	}
	h.Close("EXHAUSTIVE: every history of 1-4 steps over {write text T0 (key removed) / T1 (cluster field) / T2 (cluster + la=x entry named b + a second la=x entry named a that must never be selected) / T3 (unparsable) / T4 (a complete section + trailing junk: not one JSON value), delete ConfigMap, " +
		"node la=x, node la=y, node delete (or second node), restart cm-first / nodes-first} for each of the sections qos, system, host; " +
		"plus every lazy-init race {no ConfigMap / T0..T4} -> {T0, T1, T2} with one node la=x / la=y (108 cases); non-trivial = a delivered field goes from set to unset")
}
