//go:build verif

package batchresource

import (
	"encoding/json"
	"fmt"
	"math"
	"strconv"
	"testing"
	"time"

	topov1alpha1 "github.com/k8stopologyawareschedwg/noderesourcetopology-api/pkg/apis/topology/v1alpha1"
	corev1 "k8s.io/api/core/v1"
	"k8s.io/apimachinery/pkg/api/resource"
	metav1 "k8s.io/apimachinery/pkg/apis/meta/v1"
	"k8s.io/apimachinery/pkg/runtime"
	clientgoscheme "k8s.io/client-go/kubernetes/scheme"
	fakeclock "k8s.io/utils/clock/testing"
	"sigs.k8s.io/controller-runtime/pkg/client/fake"

	"github.com/koordinator-sh/koordinator/apis/configuration"
	"github.com/koordinator-sh/koordinator/apis/extension"
	slov1alpha1 "github.com/koordinator-sh/koordinator/apis/slo/v1alpha1"
	"github.com/koordinator-sh/koordinator/pkg/slo-controller/noderesource/framework"
)

// C09 harness (batch tier): one generated scenario = strategy + node + pods + NodeMetric (+ NRT zones);
// the REAL Plugin.Calculate is called (fake controller-runtime client for the NRT, fake clock), the
// integer projection of the scenario is emitted as ops, the published quantities as observations.
// Then one consumption input is raised and the run repeated (monotonicity pair).
// The oracle (c09Oracle) recomputes the bounds of the property statement from scratch.

const c09Now = int64(1700000000)

type c09Pod struct {
	key       int
	phase     int // 0 Running 1 Pending 2 Succeeded 3 Failed 4 Unknown
	prioLabel int // -1 absent, 0 prod 1 mid 2 batch 3 free, 4 unknown string
	hasPrio   bool
	prioVal   int32
	qosLabel  int  // -1 absent, 0 LSE 1 LSR 2 LS 3 BE 4 SYSTEM, 5 unknown string
	kubeSet   bool // Status.QOSClass set explicitly
	kube      int  // 0 Guaranteed 1 Burstable 2 BestEffort (explicit, or implied by the container form)
	ctrs      [][2]int64
	limEq     bool // limits == requests on every container
	hasAnno   bool
	numa      []int32
	hasOvh    bool     // spec.overhead declared (sandboxed RuntimeClass)
	ovh       [2]int64 // cpu milli, memory bytes; -1 = the key is absent from spec.overhead
	// term: metadata.deletionTimestamp is set (graceful termination / a finalizer holds the pod) while the pod is still
	// Running or Pending. The plugins and their helpers never read DeletionTimestamp, so such a pod is charged like any
	// other pod of its phase: the flag is NOT part of the ops (the model does not know it) and NOT read by the oracle.
	term bool
}

type c09Met struct {
	key      int
	prio     int // 0 prod 1 mid 2 batch 3 free 4 "" 5 unknown string
	cpu, mem int64
	extra    bool
}

type c09Host struct {
	prio     int
	cpu, mem int64
}

type c09Zone struct {
	hasC, hasM bool
	cpu, mem   int64
}

type c09Scn struct {
	cpuThr, memThr   int64
	cpuPol, memPol   int // 0 usage 1 request 2 maxUsageRequest 3 nil 4 unknown string
	cpuCap, memCap   int64
	degradeMin       int64
	capC, capM       int64 // -1 = key absent
	allocC, allocM   int64
	annoKind         int // 0 none 1 resources 2 reservedCPUs(+resources) 3 garbage
	annoC, annoM     int64
	annoCPUs         int
	annoPolicy       int // applyPolicy of the reservation annotation: 0 absent 1 "" 2 Default 3 ReservedCPUsOnly 4 unknown string
	sysC, sysM       int64
	sysExtra         bool
	hasUpd           bool
	upd              int64
	pods             []c09Pod
	mets             []c09Met
	hosts            []c09Host
	nrt              int // 0 not found, 1 present
	zones            []c09Zone
	capExtra, useNil bool
}

var c09Scheme = func() *runtime.Scheme {
	s := runtime.NewScheme()
	_ = clientgoscheme.AddToScheme(s)
	_ = slov1alpha1.AddToScheme(s)
	_ = topov1alpha1.AddToScheme(s)
	return s
}()

var c09PrioNames = []string{string(extension.PriorityProd), string(extension.PriorityMid), string(extension.PriorityBatch),
	string(extension.PriorityFree), "", "koord-whatever"}
var c09QoSNames = []string{string(extension.QoSLSE), string(extension.QoSLSR), string(extension.QoSLS), string(extension.QoSBE),
	string(extension.QoSSystem), "WEIRD"}
var c09PolNames = []string{string(configuration.CalculateByPodUsage), string(configuration.CalculateByPodRequest),
	string(configuration.CalculateByPodMaxUsageRequest), "", "somethingElse"}

func c09RL(cpu, mem int64, extra bool) corev1.ResourceList {
	rl := corev1.ResourceList{}
	if cpu >= 0 {
		rl[corev1.ResourceCPU] = *resource.NewMilliQuantity(cpu, resource.DecimalSI)
	}
	if mem >= 0 {
		rl[corev1.ResourceMemory] = *resource.NewQuantity(mem, resource.BinarySI)
	}
	if extra {
		rl[corev1.ResourceEphemeralStorage] = *resource.NewQuantity(123456, resource.BinarySI)
	}
	return rl
}

func c09P0(x int64) int64 {
	if x < 0 {
		return 0
	}
	return x
}

// ---------- building the real objects ----------

func c09Build(s *c09Scn) (*configuration.ColocationStrategy, *corev1.Node, *corev1.PodList, *framework.ResourceMetrics, *topov1alpha1.NodeResourceTopology) {
	st := &configuration.ColocationStrategy{
		CPUReclaimThresholdPercent:    &s.cpuThr,
		MemoryReclaimThresholdPercent: &s.memThr,
		DegradeTimeMinutes:            &s.degradeMin,
	}
	if s.cpuPol != 3 {
		p := configuration.CalculatePolicy(c09PolNames[s.cpuPol])
		st.CPUCalculatePolicy = &p
	}
	if s.memPol != 3 {
		p := configuration.CalculatePolicy(c09PolNames[s.memPol])
		st.MemoryCalculatePolicy = &p
	}
	if s.cpuCap >= 0 {
		st.BatchCPUThresholdPercent = &s.cpuCap
	}
	if s.memCap >= 0 {
		st.BatchMemoryThresholdPercent = &s.memCap
	}
	node := &corev1.Node{ObjectMeta: metav1.ObjectMeta{Name: "n0"}}
	node.Status.Capacity = c09RL(s.capC, s.capM, s.capExtra)
	node.Status.Allocatable = c09RL(s.allocC, s.allocM, s.capExtra)
	switch s.annoKind {
	case 1, 2:
		nr := extension.NodeReservation{Resources: c09RL(s.annoC, s.annoM, false)}
		if s.annoKind == 2 {
			nr.ReservedCPUs = fmt.Sprintf("0-%d", s.annoCPUs-1)
		}
		b, _ := json.Marshal(nr)
		node.Annotations = map[string]string{extension.AnnotationNodeReservation: c09ApplyPolicy(string(b), s.annoPolicy)}
	case 3:
		node.Annotations = map[string]string{extension.AnnotationNodeReservation: "{not json"}
	}
	pl := &corev1.PodList{}
	phases := []corev1.PodPhase{corev1.PodRunning, corev1.PodPending, corev1.PodSucceeded, corev1.PodFailed, corev1.PodUnknown}
	kubes := []corev1.PodQOSClass{corev1.PodQOSGuaranteed, corev1.PodQOSBurstable, corev1.PodQOSBestEffort}
	for _, p := range s.pods {
		pod := corev1.Pod{ObjectMeta: metav1.ObjectMeta{Namespace: "ns", Name: fmt.Sprintf("p%d", p.key)}}
		if p.prioLabel >= 0 || p.qosLabel >= 0 {
			pod.Labels = map[string]string{}
			if p.prioLabel >= 0 {
				pod.Labels[extension.LabelPodPriorityClass] = c09PrioNames[map[int]int{0: 0, 1: 1, 2: 2, 3: 3, 4: 5}[p.prioLabel]]
			}
			if p.qosLabel >= 0 {
				pod.Labels[extension.LabelPodQoS] = c09QoSNames[p.qosLabel]
			}
		}
		if p.hasPrio {
			v := p.prioVal
			pod.Spec.Priority = &v
		}
		pod.Status.Phase = phases[p.phase]
		if p.term {
			grace := int64(3600)
			pod.DeletionTimestamp = &metav1.Time{Time: time.Unix(c09Now-30, 0)}
			pod.DeletionGracePeriodSeconds = &grace
			pod.Finalizers = []string{"verif.koordinator.sh/hold"}
		}
		if p.kubeSet {
			pod.Status.QOSClass = kubes[p.kube]
		}
		for i, c := range p.ctrs {
			ctr := corev1.Container{Name: fmt.Sprintf("c%d", i)}
			ctr.Resources.Requests = c09RL(c[0], c[1], false)
			if p.limEq {
				ctr.Resources.Limits = c09RL(c[0], c[1], false)
			}
			pod.Spec.Containers = append(pod.Spec.Containers, ctr)
		}
		if p.hasOvh {
			pod.Spec.Overhead = c09RL(p.ovh[0], p.ovh[1], false)
		}
		if p.hasAnno {
			rs := extension.ResourceStatus{}
			for _, id := range p.numa {
				rs.NUMANodeResources = append(rs.NUMANodeResources, extension.NUMANodeResource{Node: id})
			}
			b, _ := json.Marshal(rs)
			pod.Annotations = map[string]string{extension.AnnotationResourceStatus: string(b)}
		}
		pl.Items = append(pl.Items, pod)
	}
	nm := &slov1alpha1.NodeMetric{ObjectMeta: metav1.ObjectMeta{Name: "n0"}}
	if s.hasUpd {
		nm.Status.UpdateTime = &metav1.Time{Time: time.Unix(s.upd, 0)}
	}
	nm.Status.NodeMetric = &slov1alpha1.NodeMetricInfo{}
	if !(s.useNil && s.sysC < 0 && s.sysM < 0) {
		nm.Status.NodeMetric.SystemUsage.ResourceList = c09RL(s.sysC, s.sysM, s.sysExtra)
	}
	for _, m := range s.mets {
		nm.Status.PodsMetric = append(nm.Status.PodsMetric, &slov1alpha1.PodMetricInfo{
			Namespace: "ns", Name: fmt.Sprintf("p%d", m.key), Priority: extension.PriorityClass(c09PrioNames[m.prio]),
			PodUsage: slov1alpha1.ResourceMap{ResourceList: c09RL(m.cpu, m.mem, m.extra)}})
	}
	for i, a := range s.hosts {
		nm.Status.HostApplicationMetric = append(nm.Status.HostApplicationMetric, &slov1alpha1.HostApplicationMetricInfo{
			Name: fmt.Sprintf("h%d", i), Priority: extension.PriorityClass(c09PrioNames[a.prio]),
			Usage: slov1alpha1.ResourceMap{ResourceList: c09RL(a.cpu, a.mem, false)}})
	}
	var nrt *topov1alpha1.NodeResourceTopology
	if s.nrt == 1 {
		nrt = &topov1alpha1.NodeResourceTopology{ObjectMeta: metav1.ObjectMeta{Name: "n0"}, TopologyPolicies: []string{string(topov1alpha1.None)}}
		for i, z := range s.zones {
			zone := topov1alpha1.Zone{Name: fmt.Sprintf("node-%d", i), Type: "Node"}
			if z.hasC {
				q := *resource.NewMilliQuantity(z.cpu, resource.DecimalSI)
				zone.Resources = append(zone.Resources, topov1alpha1.ResourceInfo{Name: "cpu", Capacity: q, Allocatable: q, Available: q})
			}
			if z.hasM {
				q := *resource.NewQuantity(z.mem, resource.BinarySI)
				zone.Resources = append(zone.Resources, topov1alpha1.ResourceInfo{Name: "memory", Capacity: q, Allocatable: q, Available: q})
			}
			zone.Resources = append(zone.Resources, topov1alpha1.ResourceInfo{Name: "pods", Capacity: resource.MustParse("110"),
				Allocatable: resource.MustParse("110"), Available: resource.MustParse("110")})
			nrt.Zones = append(nrt.Zones, zone)
		}
	}
	return st, node, pl, &framework.ResourceMetrics{NodeMetric: nm}, nrt
}

// ---------- integer projection (ops) ----------

// req is the pod's request read from the DECLARED pod object, independently of util.GetPodRequest: the sum of the
// containers' requests (no init containers are generated) plus spec.overhead.
func (p *c09Pod) req() (int64, int64) {
	var c, m int64
	for _, x := range p.ctrs {
		c += c09P0(x[0])
		m += c09P0(x[1])
	}
	if p.hasOvh {
		c += c09P0(p.ovh[0])
		m += c09P0(p.ovh[1])
	}
	return c, m
}

// c09ApplyPolicy writes the applyPolicy key into a marshalled reservation annotation.  The policy says how the SCHEDULER
// treats the reservation (trim allocatable or only exclude the cpus); the slo-controller's batch / mid formulas subtract
// the declared amounts under every policy (annoProj does not look at it).
var c09ApplyPolicies = []string{"", "", "Default", "ReservedCPUsOnly", "SomethingElse"}

func c09ApplyPolicy(js string, policy int) string {
	if policy <= 0 || len(js) < 2 || js[len(js)-1] != '}' {
		return js
	}
	sep := ","
	if js == "{}" {
		sep = ""
	}
	return js[:len(js)-1] + sep + fmt.Sprintf("%q:%q}", "applyPolicy", c09ApplyPolicies[policy])
}

func (s *c09Scn) annoProj() (int64, int64) {
	switch s.annoKind {
	case 1:
		return c09P0(s.annoC), c09P0(s.annoM)
	case 2:
		return int64(s.annoCPUs) * 1000, c09P0(s.annoM)
	}
	return 0, 0
}

func c09PolTok(p int) int {
	if p >= 3 {
		return 3
	}
	return p
}

func c09PrioTok(p int) int {
	if p >= 4 {
		return 4
	}
	return p
}

func c09Emit(h *vHarness, s *c09Scn) {
	h.Op("cfg %d %d %d %d %d %d %d", s.cpuThr, s.memThr, c09PolTok(s.cpuPol), c09PolTok(s.memPol), s.cpuCap, s.memCap, s.degradeMin)
	ac, am := s.annoProj()
	h.Op("node %d %d %d %d %d %d %d %d", c09P0(s.capC), c09P0(s.capM), c09P0(s.allocC), c09P0(s.allocM), ac, am, c09P0(s.sysC), c09P0(s.sysM))
	h.Op("time %d %d %d", vB(s.hasUpd), c09Now, s.upd)
	for i := range s.pods {
		p := &s.pods[i]
		rc, rm := p.req()
		ql := p.qosLabel
		if ql == 5 {
			ql = -1
		}
		pv := int64(0)
		if p.hasPrio {
			pv = int64(p.prioVal)
		}
		ids := make([]int64, 0, len(p.numa))
		if p.hasAnno {
			for _, id := range p.numa {
				ids = append(ids, int64(id))
			}
		}
		line := fmt.Sprintf("pod %d %d %d %d %d %d %d %d %d %d", p.key, vB(p.phase <= 1), p.prioLabel, vB(p.hasPrio), pv, ql, p.kube, rc, rm, len(ids))
		if len(ids) > 0 {
			line += " " + vInts(ids)
		}
		h.Op("%s", line)
	}
	for _, m := range s.mets {
		h.Op("met %d %d %d %d", m.key, c09PrioTok(m.prio), c09P0(m.cpu), c09P0(m.mem))
	}
	for _, a := range s.hosts {
		h.Op("host %d %d %d", c09PrioTok(a.prio), c09P0(a.cpu), c09P0(a.mem))
	}
	if s.nrt == 1 {
		for _, z := range s.zones {
			zc, zm := int64(0), int64(0)
			if z.hasC {
				zc = z.cpu
			}
			if z.hasM {
				zm = z.mem
			}
			h.Op("zone %d %d %d %d", vB(z.hasC), vB(z.hasM), zc, zm)
		}
	}
	h.Op("calc")
}

// ---------- running the real code ----------

type c09Res struct {
	panicked bool
	err      bool
	kind     int // 0 batch, 1 degraded (all Reset, no quantity), 2 mixed/unexpected
	cpu, mem int64
	hasZones bool
	zc, zm   []int64 // milli
	resets   []bool
}

func c09Run(h *vHarness, s *c09Scn) c09Res {
	st, node, pl, rm, nrt := c09Build(s)
	b := fake.NewClientBuilder().WithScheme(c09Scheme)
	if nrt != nil {
		b = b.WithObjects(nrt)
	}
	oldClient, oldClock := client, Clock
	client = b.Build()
	Clock = fakeclock.NewFakeClock(time.Unix(c09Now, 0))
	defer func() { client, Clock = oldClient, oldClock }()
	var res c09Res
	var items []framework.ResourceItem
	var err error
	if h.Guard(func() { items, err = (&Plugin{}).Calculate(st, node, pl, rm) }) {
		res.panicked = true
		return res
	}
	if err != nil {
		res.err = true
		return res
	}
	var ci, mi *framework.ResourceItem
	for i := range items {
		res.resets = append(res.resets, items[i].Reset)
		switch items[i].Name {
		case extension.BatchCPU:
			ci = &items[i]
		case extension.BatchMemory:
			mi = &items[i]
		}
	}
	if ci == nil || mi == nil || len(items) != 2 {
		res.kind = 2
		return res
	}
	if ci.Reset && mi.Reset && ci.Quantity == nil && mi.Quantity == nil {
		res.kind = 1
		return res
	}
	if ci.Reset || mi.Reset || ci.Quantity == nil || mi.Quantity == nil {
		res.kind = 2
		return res
	}
	res.cpu = ci.Quantity.Value()
	res.mem = mi.Quantity.Value()
	if ci.ZoneQuantity != nil || mi.ZoneQuantity != nil {
		res.hasZones = true
		for i := range s.zones {
			name := fmt.Sprintf("node-%d", i)
			qc, ok1 := ci.ZoneQuantity[name]
			qm, ok2 := mi.ZoneQuantity[name]
			if !ok1 || !ok2 {
				res.kind = 2
				return res
			}
			res.zc = append(res.zc, qc.Value())
			res.zm = append(res.zm, qm.MilliValue())
		}
		if len(ci.ZoneQuantity) != len(s.zones) || len(mi.ZoneQuantity) != len(s.zones) {
			res.kind = 2
		}
	}
	return res
}

func c09Obs(h *vHarness, r *c09Res) {
	switch {
	case r.panicked:
		h.Obs("panic")
	case r.err:
		h.Obs("error")
	case r.kind == 1:
		h.Obs("deg")
	case r.kind == 2:
		h.Obs("mixed")
	default:
		h.Obs("batch %d %d", r.cpu, r.mem)
		if !r.hasZones {
			h.Obs("zones none")
		} else {
			for i := range r.zc {
				h.Obs("zone %d %d %d", i, r.zc[i], r.zm[i])
			}
		}
	}
}

// ---------- the oracle: the property statement, from scratch ----------

// high priority = koordinator priority class is neither batch nor free; class from the label, else the
// priority value band, else the QoS (LSE/LSR/LS/SYSTEM -> prod, BE -> batch; QoS from the label else kube QoS).
func (p *c09Pod) class() (hp bool, lse bool) {
	qos := -1 // 0 LSE 1 LSR 2 LS 3 BE 4 SYSTEM
	if p.qosLabel >= 0 && p.qosLabel <= 4 {
		qos = p.qosLabel
	} else {
		qos = []int{1, 2, 3}[p.kube]
	}
	lse = qos == 0
	pc := 4 // none
	if p.prioLabel >= 0 {
		if p.prioLabel <= 3 {
			pc = p.prioLabel
		}
	} else if p.hasPrio {
		v := p.prioVal
		switch {
		case v >= 9000 && v <= 9999:
			pc = 0
		case v >= 7000 && v <= 7999:
			pc = 1
		case v >= 5000 && v <= 5999:
			pc = 2
		case v >= 3000 && v <= 3999:
			pc = 3
		}
	}
	if pc == 4 {
		if qos == 3 {
			pc = 2
		} else {
			pc = 0
		}
	}
	return pc != 2 && pc != 3, lse
}

func c09MulPct(v, k int64) int64 { return int64(float64(v) * (float64(k) / 100)) }

func c09CeilDiv(x int64, n int64) int64 {
	if x <= 0 {
		return -((-x) / n)
	}
	return (x + n - 1) / n
}

func c09Max(a, b int64) int64 {
	if a > b {
		return a
	}
	return b
}

// consumption of one dimension (0 cpu, 1 mem), literal reading of the statement
type c09Cons struct {
	sys, reserved       int64 // system usage (+ HP host applications), node reservation
	use, req, mx        int64 // HP pods: usage (no-metric pods at request), request, larger of both; dangling HP metrics in use/mx
	useNoMet0, mxNoMet0 int64 // the same but pods without metrics not charged (diagnosis only)
	anyNoMetric         bool
}

type c09Share func(p *c09Pod, x int64) int64 // share of a pod-level amount that is charged (node: identity)

func (s *c09Scn) consumption(d int, unit int64, share c09Share, dangShare func(x int64) int64, nodeShare func(x int64) int64) c09Cons {
	var c c09Cons
	pick := func(a, b int64) int64 {
		if d == 0 {
			return c09P0(a)
		}
		return c09P0(b) * unit
	}
	sys := pick(s.sysC, s.sysM)
	for _, a := range s.hosts {
		if a.prio == 0 || a.prio == 1 { // prod and mid host applications consume like the system
			sys += pick(a.cpu, a.mem)
		}
	}
	c.sys = nodeShare(sys)
	ac, am := s.annoProj()
	kub := c09Max(pick(s.capC, s.capM)-pick(s.allocC, s.allocM), 0)
	c.reserved = nodeShare(c09Max(kub, pick(ac, am)))
	// last metric of a key wins
	met := map[int]c09Met{}
	for _, m := range s.mets {
		met[m.key] = m
	}
	listed := map[int]bool{}
	for i := range s.pods {
		p := &s.pods[i]
		if p.phase > 1 {
			continue
		}
		listed[p.key] = true
		hp, _ := p.class()
		if !hp {
			continue
		}
		rc, rm := p.req()
		req := share(p, pick(rc, rm))
		c.req += req
		if m, ok := met[p.key]; ok {
			used := share(p, pick(m.cpu, m.mem))
			c.use += used
			c.mx += c09Max(used, req)
			c.useNoMet0 += used
			c.mxNoMet0 += c09Max(used, req)
		} else {
			c.use += req
			c.mx += req
			if req > 0 {
				c.anyNoMetric = true
			}
		}
	}
	for k, m := range met {
		if listed[k] || m.prio == 2 || m.prio == 3 {
			continue
		}
		u := dangShare(pick(m.cpu, m.mem))
		c.use += u
		c.mx += u
		c.useNoMet0 += u
		c.mxNoMet0 += u
	}
	return c
}

// c09TermNote is appended to the text of the unclassified upper-bound failures (set by c09Oracle for the scenario at hand).
var c09TermNote string

// checkDim evaluates the bounds for one published amount.
func c09CheckDim(h *vHarness, where string, d int, pol int, thr, capPct int64, capV, marginV int64, limit int64, c c09Cons, out int64) {
	if out < 0 {
		h.Fail("C09:negative", "%s dim %d published %d < 0", where, d, out)
	}
	if capPct >= 0 && out > limit {
		h.Fail("C09:pct-cap", "%s dim %d published %d > %d%% of capacity = %d", where, d, out, capPct, limit)
	}
	hpOf := func(pol int, nomet0 bool) int64 {
		switch pol {
		case 1:
			return c.req
		case 2:
			if nomet0 {
				return c.mxNoMet0
			}
			return c.mx
		}
		if nomet0 {
			return c.useNoMet0
		}
		return c.use
	}
	base := capV - marginV - c09Max(c.sys, c.reserved)
	bound := c09Max(base-hpOf(pol, false), 0)
	if out <= bound {
		return
	}
	// classify the excess
	if d == 1 && pol == 1 && out <= c09Max(capV-marginV-c.reserved-c.req, 0) {
		h.Fail("C09:request-policy-ignores-system-usage", "%s memory policy=request: published %d > cap %d - margin %d - max(sys %d, reserved %d) - HPrequest %d",
			where, out, capV, marginV, c.sys, c.reserved, c.req)
		return
	}
	if d == 0 && pol == 1 && out <= c09Max(base-c.use, 0) {
		h.Fail("C09:cpu-request-policy-falls-back-to-usage", "%s cpu policy=request: published %d > request-based bound %d (obeys the usage-based bound %d)",
			where, out, bound, c09Max(base-c.use, 0))
		return
	}
	alt := c09Max(base-hpOf(pol, true), 0) // the amount if HP pods without metrics were not charged at all
	if c.anyNoMetric && pol != 1 && out == alt && (capPct < 0 || alt < limit) {
		h.Fail("C09:no-metric-not-charged", "%s dim %d policy %d: published %d > bound %d; explained by not charging the request of HP pods without metrics%s",
			where, d, pol, out, bound, c09TermNote)
		return
	}
	h.Fail("C09:batch-upper", "%s dim %d policy %d: published %d > cap %d - margin %d - max(sys %d, reserved %d) - HP %d%s",
		where, d, pol, out, capV, marginV, c.sys, c.reserved, hpOf(pol, false), c09TermNote)
}

func c09EffPol(p int) int { // 3 (nil) and 4 (unknown string) mean the default "usage"
	if p >= 3 {
		return 0
	}
	return p
}

func c09Stale(s *c09Scn) bool {
	return !s.hasUpd || c09Now > s.upd+s.degradeMin*60
}

func c09Oracle(h *vHarness, s *c09Scn, r *c09Res) {
	if r.panicked || r.err {
		return // not part of the statement; the model must agree (it never predicts these)
	}
	if c09Stale(s) {
		if r.kind != 1 {
			h.Fail("C09:stale-not-reset", "node metric stale/missing (hasUpdate=%v age=%ds degrade=%dmin) but the resources were not reset", s.hasUpd, c09Now-s.upd, s.degradeMin)
		}
		return
	}
	if r.kind != 0 {
		return
	}
	thr := [2]int64{s.cpuThr, s.memThr}
	capPct := [2]int64{s.cpuCap, s.memCap}
	pol := [2]int{c09EffPol(s.cpuPol), c09EffPol(s.memPol)}
	out := [2]int64{r.cpu, r.mem}
	capN := [2]int64{c09P0(s.capC), c09P0(s.capM)}
	id := func(x int64) int64 { return x }
	c09TermNote = s.termNote()
	defer func() { c09TermNote = "" }()
	for d := 0; d < 2; d++ {
		margin := c09MulPct(capN[d], 100-thr[d])
		if thr[d] >= 0 && thr[d] <= 100 && !(margin >= 0 && margin <= capN[d]) {
			h.Fail("C09:float-assumption", "margin %d of cap %d thr %d outside [0,cap]", margin, capN[d], thr[d])
		}
		limit := int64(0)
		if capPct[d] >= 0 {
			limit = c09MulPct(capN[d], capPct[d])
			if limit < 0 {
				h.Fail("C09:float-assumption", "mulPct(%d,%d)=%d < 0", capN[d], capPct[d], limit)
			}
		}
		c := s.consumption(d, 1, func(_ *c09Pod, x int64) int64 { return x }, id, id)
		c09CheckDim(h, "node", d, pol[d], thr[d], capPct[d], capN[d], margin, limit, c, out[d])
	}
	if !r.hasZones {
		return
	}
	zn := int64(len(s.zones))
	for i, z := range s.zones {
		zi := int32(i)
		share := func(p *c09Pod, x int64) int64 {
			valid := int64(0)
			in := false
			if p.hasAnno {
				for _, idn := range p.numa {
					if idn >= 0 && int64(idn) < zn {
						valid++
					}
					if idn == zi {
						in = true
					}
				}
			}
			var n int64
			if valid == 0 {
				n = zn
			} else if in {
				n = valid
			} else {
				return 0
			}
			v := c09CeilDiv(x, n)
			if f := int64(math.Ceil(float64(x) / float64(n))); f != v {
				h.Fail("C09:float-assumption", "ceil(%d/%d): float %d exact %d", x, n, f, v)
			}
			return v
		}
		div := func(x int64) int64 { return c09CeilDiv(x, zn) }
		zcap := [2]int64{0, 0}
		if z.hasC {
			zcap[0] = z.cpu
		}
		if z.hasM {
			zcap[1] = z.mem
		}
		zout := [2]int64{r.zc[i], r.zm[i]}
		for d := 0; d < 2; d++ {
			unit := int64(1)
			if d == 1 {
				unit = 1000
			}
			margin := c09MulPct(zcap[d], 100-thr[d]) * unit
			limit := int64(0)
			if capPct[d] >= 0 {
				limit = c09MulPct(zcap[d], capPct[d]) * unit
			}
			c := s.consumption(d, unit, share, div, div)
			c09CheckDim(h, fmt.Sprintf("zone%d", i), d, pol[d], thr[d], capPct[d], zcap[d]*unit, margin, limit, c, zout[d])
		}
	}
}

// ---------- generator ----------

func c09Amount(r *vRand, hi int64) int64 {
	switch r.Intn(8) {
	case 0:
		return -1 // key absent
	case 1:
		return 0
	default:
		return r.Int63n(hi + 1)
	}
}

func c09Gen(r *vRand) *c09Scn {
	s := &c09Scn{}
	thr := func() int64 {
		switch r.Intn(8) {
		case 0:
			return 100
		case 1:
			return 0
		case 2:
			return int64(r.Range(101, 130)) // allowed by IsColocationStrategyValid (only >= 0 is checked)
		default:
			return int64(r.Range(1, 99))
		}
	}
	s.cpuThr, s.memThr = thr(), thr()
	s.cpuPol, s.memPol = r.Intn(5), r.Intn(5)
	s.cpuCap, s.memCap = -1, -1
	if r.Chance(2, 5) {
		s.cpuCap = int64(r.Range(0, 120))
	}
	if r.Chance(2, 5) {
		s.memCap = int64(r.Range(0, 120))
	}
	s.degradeMin = int64(r.Range(1, 30))
	// node
	small := r.Chance(1, 2) // small readable numbers in half of the cases
	cpuHi, memHi := int64(128000), int64(1)<<38
	if small {
		cpuHi, memHi = 1000, 1000
	}
	s.capC, s.capM = cpuHi/2+r.Int63n(cpuHi/2+1), memHi/2+r.Int63n(memHi/2+1)
	if r.Chance(1, 25) {
		s.capC = -1
	}
	if r.Chance(1, 25) {
		s.capM = -1
	}
	s.capExtra = r.Chance(1, 4)
	alloc := func(c int64) int64 {
		if c < 0 {
			return c09Amount(r, 100)
		}
		switch r.Intn(6) {
		case 0:
			return -1
		case 1:
			return c + r.Int63n(c/10+1) // allocatable above capacity: kubelet reservation clamps at 0
		case 2:
			return c
		default:
			return c - r.Int63n(c/8+1)
		}
	}
	s.allocC, s.allocM = alloc(s.capC), alloc(s.capM)
	s.annoKind = []int{0, 0, 0, 1, 1, 2, 3}[r.Intn(7)]
	s.annoC, s.annoM = c09Amount(r, cpuHi/8), c09Amount(r, memHi/8)
	s.annoCPUs = r.Range(1, 8)
	s.annoPolicy = []int{0, 0, 1, 2, 3, 3, 3, 4}[r.Intn(8)]
	s.sysC, s.sysM = c09Amount(r, cpuHi/6), c09Amount(r, memHi/6)
	s.sysExtra = r.Chance(1, 4)
	s.useNil = r.Bool()
	// time
	s.hasUpd = !r.Chance(1, 15)
	lim := s.degradeMin * 60
	switch r.Intn(8) {
	case 0:
		s.upd = c09Now - lim
	case 1:
		s.upd = c09Now - lim - 1
	case 2:
		s.upd = c09Now - lim + 1
	case 3:
		s.upd = c09Now - r.Int63n(3*lim)
	case 4:
		s.upd = c09Now + r.Int63n(100)
	default:
		s.upd = c09Now - r.Int63n(lim)
	}
	// zones
	if r.Chance(3, 5) {
		s.nrt = 1
		zn := r.Range(1, 4)
		if r.Chance(1, 20) {
			zn = 0
		}
		none := r.Chance(1, 20)
		for i := 0; i < zn; i++ {
			z := c09Zone{hasC: !r.Chance(1, 12) && !none, hasM: !r.Chance(1, 12) && !none}
			z.cpu = c09P0(s.capC)/int64(zn) + r.Int63n(cpuHi/20+1)
			z.mem = c09P0(s.capM)/int64(zn) + r.Int63n(memHi/20+1)
			if r.Chance(1, 6) {
				z.cpu, z.mem = r.Int63n(cpuHi/4+1), r.Int63n(memHi/4+1)
			}
			s.zones = append(s.zones, z)
		}
	}
	// pods
	np := r.Range(0, 6)
	for i := 0; i < np; i++ {
		p := c09Pod{key: i + 1, prioLabel: -1, qosLabel: -1}
		if r.Chance(1, 30) && i > 0 {
			p.key = i // duplicate key (two pods with one name): never happens in a cluster, allowed by the code
		}
		p.phase = []int{0, 0, 0, 0, 0, 0, 1, 2, 3, 4}[r.Intn(10)]
		if r.Chance(2, 5) {
			p.prioLabel = []int{0, 0, 1, 2, 3, 4}[r.Intn(6)]
		}
		if r.Chance(3, 5) {
			p.hasPrio = true
			p.prioVal = int32(r.Pick([]int64{9000, 9999, 9500, 10000, 8999, 7000, 7999, 7500, 6999, 6000, 5999, 5000, 5500, 4999, 4000, 3999, 3000, 2999, 0, 100, -1}))
		}
		if r.Chance(3, 5) {
			p.qosLabel = []int{0, 0, 1, 2, 2, 3, 4, 5}[r.Intn(8)]
		}
		nc := r.Range(1, 2)
		form := r.Intn(5) // 0: kube qos set explicitly ... 1 guaranteed 2 best effort, 3,4 burstable by containers
		if form == 0 {
			p.kubeSet = true
			p.kube = r.Intn(3)
		}
		for c := 0; c < nc; c++ {
			cc, cm := c09Amount(r, cpuHi/6), c09Amount(r, memHi/6)
			switch form {
			case 1:
				cc, cm = 1+r.Int63n(cpuHi/6), 1+r.Int63n(memHi/6)
			case 2:
				cc, cm = -1, -1
				if r.Bool() {
					cc = 0
				}
			}
			p.ctrs = append(p.ctrs, [2]int64{cc, cm})
		}
		switch form {
		case 1:
			p.limEq, p.kube = true, 0
		case 2:
			p.kube = 2
		case 3, 4:
			p.kube = 1
			if rc, rm := p.req(); rc == 0 && rm == 0 {
				p.ctrs[0][0] = 1 + r.Int63n(cpuHi/6)
			}
		}
		if r.Chance(1, 3) { // spec.overhead: both dimensions, or only one
			p.hasOvh = true
			p.ovh = [2]int64{1 + r.Int63n(cpuHi/16), 1 + r.Int63n(memHi/16)}
			switch r.Intn(4) {
			case 0:
				p.ovh[0] = -1
			case 1:
				p.ovh[1] = -1
			}
		}
		if r.Chance(2, 5) {
			p.hasAnno = true
			zn := len(s.zones)
			k := r.Range(0, 2)
			perm := r.Perm(zn + 2)
			for j := 0; j < k && j < len(perm); j++ {
				p.numa = append(p.numa, int32(perm[j]-1)) // ids -1 .. zn (both ends invalid)
			}
		}
		s.pods = append(s.pods, p)
	}
	// metrics: most pods report, plus dangling entries
	for i := range s.pods {
		p := &s.pods[i]
		if !r.Chance(7, 10) {
			continue
		}
		rc, rm := p.req()
		m := c09Met{key: p.key, prio: r.Intn(6), extra: r.Chance(1, 5)}
		m.cpu, m.mem = c09Amount(r, 2*rc+10), c09Amount(r, 2*rm+10)
		s.mets = append(s.mets, m)
	}
	nd := r.Range(0, 2)
	for i := 0; i < nd; i++ {
		m := c09Met{key: 100 + i, prio: r.Intn(6), cpu: c09Amount(r, cpuHi/8), mem: c09Amount(r, memHi/8)}
		if r.Chance(1, 6) && len(s.mets) > 0 { // duplicate entry for a key: the later one wins
			m.key = s.mets[r.Intn(len(s.mets))].key
		}
		s.mets = append(s.mets, m)
	}
	nh := r.Range(0, 2)
	for i := 0; i < nh; i++ {
		s.hosts = append(s.hosts, c09Host{prio: r.Intn(6), cpu: c09Amount(r, cpuHi/10), mem: c09Amount(r, memHi/10)})
	}
	// an LSE pod runs on its exclusive cores: its cpu usage never exceeds its request (physical assumption)
	for i := range s.mets {
		for j := range s.pods {
			if _, lse := s.pods[j].class(); lse && s.pods[j].key == s.mets[i].key {
				if rc, _ := s.pods[j].req(); s.mets[i].cpu > rc {
					s.mets[i].cpu = rc
				}
			}
		}
	}
	if r.Chance(1, 3) { // mostly fresh metrics, so that the calculation is reached
		s.hasUpd = true
		s.upd = c09Now - r.Int63n(lim)
	}
	// ~15 % of the Running/Pending pods (all priority classes) are terminating: deletionTimestamp set, still in their
	// phase. Drawn from a side generator derived from r's state so that every other choice of the stream (and of the
	// monotonicity bump that follows) stays bit-identical to the earlier rounds.
	tr := &vRand{s: r.s ^ 0xD6E8FEB86659FD93}
	tr.next()
	for i := range s.pods {
		if s.pods[i].phase <= 1 && tr.Chance(3, 20) {
			s.pods[i].term = true
		}
	}
	return s
}

// termNote names the terminating Running/Pending pods of the scenario (diagnosis text of a failure only).
func (s *c09Scn) termNote() string {
	var hpN, lpN []string
	for i := range s.pods {
		p := &s.pods[i]
		if !p.term || p.phase > 1 {
			continue
		}
		if hp, _ := p.class(); hp {
			hpN = append(hpN, fmt.Sprintf("p%d", p.key))
		} else {
			lpN = append(lpN, fmt.Sprintf("p%d", p.key))
		}
	}
	if len(hpN)+len(lpN) == 0 {
		return ""
	}
	return fmt.Sprintf(" [pods with deletionTimestamp set, still Running/Pending and charged like any other: HP %v LP %v]", hpN, lpN)
}

func (s *c09Scn) clone() *c09Scn {
	t := *s
	t.pods = make([]c09Pod, len(s.pods))
	for i, p := range s.pods {
		p.ctrs = append([][2]int64(nil), p.ctrs...)
		p.numa = append([]int32(nil), p.numa...)
		t.pods[i] = p
	}
	t.mets = append([]c09Met(nil), s.mets...)
	t.hosts = append([]c09Host(nil), s.hosts...)
	t.zones = append([]c09Zone(nil), s.zones...)
	return &t
}

// c09Bump raises exactly one consumption input; returns its name ("" = nothing applicable).
func c09Bump(r *vRand, s *c09Scn) string {
	amt := func(x int64) int64 { return c09P0(x) + 1 + r.Int63n(c09P0(x)/2+50) }
	for try := 0; try < 6; try++ {
		switch r.Intn(7) {
		case 0: // pod usage
			if len(s.mets) > 0 {
				m := &s.mets[r.Intn(len(s.mets))]
				lse := false
				for j := range s.pods {
					if _, l := s.pods[j].class(); s.pods[j].key == m.key && l {
						lse = true
					}
				}
				if r.Bool() && !lse {
					m.cpu = amt(m.cpu)
				} else {
					m.mem = amt(m.mem)
				}
				return "pod-usage"
			}
		case 1: // pod request (limits follow when they were equal)
			if len(s.pods) > 0 {
				p := &s.pods[r.Intn(len(s.pods))]
				c := &p.ctrs[r.Intn(len(p.ctrs))]
				k := r.Intn(2)
				if p.hasOvh && r.Bool() { // raise the declared overhead instead of a container
					if p.ovh[k] < 0 {
						k = 1 - k
					}
					if p.ovh[k] >= 0 {
						p.ovh[k] = amt(p.ovh[k])
						return "pod-overhead"
					}
				}
				if !p.kubeSet && p.kube == 2 {
					break // keep the pod best-effort (its class is derived from the container form)
				}
				c[k] = amt(c[k])
				return "pod-request"
			}
		case 2:
			if r.Bool() {
				s.sysC = amt(s.sysC)
			} else {
				s.sysM = amt(s.sysM)
			}
			s.useNil = false
			return "system-usage"
		case 3: // reservation by annotation
			if s.annoKind == 1 || s.annoKind == 0 {
				if s.annoKind == 0 {
					s.annoKind, s.annoC, s.annoM = 1, -1, -1
				}
				if r.Bool() {
					s.annoC = amt(s.annoC)
				} else {
					s.annoM = amt(s.annoM)
				}
				return "reservation-anno"
			}
		case 4: // reservation by kubelet: lower allocatable
			if s.allocC > 0 && s.capC > 0 {
				s.allocC -= 1 + r.Int63n(s.allocC)
				return "reservation-kubelet"
			}
		case 5: // safety margin: lower reclaim threshold
			if r.Bool() && s.cpuThr > 0 {
				s.cpuThr -= 1 + r.Int63n(s.cpuThr)
				return "margin"
			} else if s.memThr > 0 {
				s.memThr -= 1 + r.Int63n(s.memThr)
				return "margin"
			}
		case 6: // a HP host application uses more
			for i := range s.hosts {
				if s.hosts[i].prio <= 1 {
					s.hosts[i].cpu = amt(s.hosts[i].cpu)
					s.hosts[i].mem = amt(s.hosts[i].mem)
					return "host-app"
				}
			}
		}
	}
	return ""
}

func TestVerifC09(t *testing.T) {
	h := vOpen("C09")
	if h == nil {
		t.Skip("VERIF_OUT not set")
	}
	n := h.N(2500, 60000)
	for idx := 0; idx < n; idx++ {
		r := h.Begin(idx)
		if r == nil {
			continue
		}
		s := c09Gen(r)
		c09Emit(h, s)
		res := c09Run(h, s)
		c09Obs(h, &res)
		c09Oracle(h, s, &res)
		h.Tag(fmt.Sprintf("pods:%d", len(s.pods)))
		h.Tag(fmt.Sprintf("pol:%d/%d", c09EffPol(s.cpuPol), c09EffPol(s.memPol)))
		for i := range s.pods {
			if p := &s.pods[i]; p.term {
				hp, _ := p.class()
				hasMet := false
				for _, m := range s.mets {
					hasMet = hasMet || m.key == p.key
				}
				h.Tag(fmt.Sprintf("terminating-pod:hp=%v,metric=%v,zones=%v", hp, hasMet, s.nrt == 1 && len(s.zones) > 0))
			}
		}
		if s.annoKind == 1 || s.annoKind == 2 {
			h.Tag(fmt.Sprintf("reservation-anno:kind=%d,applyPolicy=%d", s.annoKind, s.annoPolicy))
		}
		switch {
		case res.panicked:
			h.Tag("out:panic")
		case res.err:
			h.Tag("out:error")
		case res.kind == 1:
			h.Tag("out:degraded")
		case res.kind == 2:
			h.Tag("out:mixed")
		case res.hasZones:
			h.Tag(fmt.Sprintf("out:batch+zones%d", len(s.zones)))
		default:
			h.Tag("out:batch")
		}
		if res.kind == 0 && !res.panicked && !res.err {
			if res.cpu > 0 || res.mem > 0 {
				h.Tag("batch:positive")
			} else {
				h.Tag("batch:zero")
			}
			hpn := 0
			for i := range s.pods {
				if hp, _ := s.pods[i].class(); hp && s.pods[i].phase <= 1 {
					hpn++
				}
			}
			if hpn > 0 && (res.cpu > 0 || res.mem > 0) {
				h.Nontrivial()
			}
			// monotonicity pair: raise one consumption input, nothing may go up
			s2 := s.clone()
			if what := c09Bump(r, s2); what != "" {
				if what == "margin" { // FloatOK.mul_mono_k on this input
					for _, x := range [][3]int64{{c09P0(s.capC), 100 - s.cpuThr, 100 - s2.cpuThr}, {c09P0(s.capM), 100 - s.memThr, 100 - s2.memThr}} {
						if c09MulPct(x[0], x[1]) > c09MulPct(x[0], x[2]) {
							h.Fail("C09:float-assumption", "mulPct(%d,.) not monotone: %d%% -> %d, %d%% -> %d", x[0], x[1], c09MulPct(x[0], x[1]), x[2], c09MulPct(x[0], x[2]))
						}
					}
				}
				h.Op("clear")
				c09Emit(h, s2)
				res2 := c09Run(h, s2)
				c09Obs(h, &res2)
				c09Oracle(h, s2, &res2)
				h.Tag("bump:" + what)
				if res2.kind == 0 && !res2.panicked && !res2.err {
					if res2.cpu > res.cpu || res2.mem > res.mem {
						h.Fail("C09:not-antitone", "raising %s raised the node amount: (%d,%d) -> (%d,%d)", what, res.cpu, res.mem, res2.cpu, res2.mem)
					}
					if res.hasZones && res2.hasZones && len(res.zc) == len(res2.zc) {
						for i := range res.zc {
							if res2.zc[i] > res.zc[i] || res2.zm[i] > res.zm[i] {
								h.Fail("C09:not-antitone", "raising %s raised zone %d: (%d,%d) -> (%d,%d)", what, i, res.zc[i], res.zm[i], res2.zc[i], res2.zm[i])
							}
						}
					}
				}
			}
		}
		h.End()
	}
	h.Close("one generated scenario (strategy: thresholds 0-130, 3 policies + nil/unknown, optional pct caps; node capacity/allocatable/" +
		"reservation annotation incl. reservedCPUs and garbage, applyPolicy absent / empty / Default / ReservedCPUsOnly / unknown; 0-6 pods with priority by label/value/QoS/kube-QoS, all phases, 1-2 containers, spec.overhead on a third of the pods (cpu and/or memory), " +
		"NUMA annotation; pod metrics incl. dangling and duplicate keys; host applications; fresh/stale/missing update time; NRT absent or 0-4 zones) " +
		"followed by the same scenario with one consumption input raised; non-trivial = not degraded, >=1 active HP pod and a positive published amount; distinct by op lines")
}

// ---------- batch plugin glue: Calculate -> NewNodeResource -> Prepare -> NeedSync ----------

func c09ExactDiff(oldV, newV, permille int64) (must, mustNot bool) {
	d := newV - oldV
	if d < 0 {
		d = -d
	}
	return d*1000 > oldV*permille, d*1000 < oldV*permille || d == 0
}

// c09OldNear picks the old node's amount near the new one so that the diff threshold is exercised on both sides.
func c09OldNear(r *vRand, newV, permille int64) int64 {
	if newV < 0 {
		if r.Chance(1, 3) {
			return -1
		}
		return r.Int63n(1000)
	}
	switch r.Intn(8) {
	case 0:
		return -1
	case 1:
		return newV
	case 2:
		return 0
	case 3:
		return newV * 1000 / (1000 + permille)
	case 4:
		if permille < 1000 {
			return newV * 1000 / (1000 - permille)
		}
		return newV + 1
	case 5:
		return c09P0(newV*1000/(1000+permille) + int64(r.Range(-1, 1)))
	default:
		d := newV * permille / 1000
		return c09P0(newV + r.Int63n(2*d+3) - d - 1)
	}
}

func TestVerifC09Prepare(t *testing.T) {
	h := vOpen("C09")
	if h == nil {
		t.Skip("VERIF_OUT not set")
	}
	n := h.N(2000, 40000)
	for idx := 0; idx < n; idx++ {
		r := h.Begin(idx)
		if r == nil {
			continue
		}
		s := c09Gen(r)
		s.nrt = 0 // zone amounts are covered by TestVerifC09; Prepare handles node-level amounts only
		s.zones = nil
		if r.Chance(1, 2) {
			s.hasUpd, s.upd = true, c09Now-r.Int63n(s.degradeMin*60)
		}
		// the glue inputs
		ratio := int64(-1) // cpu-normalization ratio annotation on the NodeResource, in percent
		ratioStr := ""
		switch r.Intn(8) {
		case 0:
			ratio, ratioStr = 100, "1.00"
		case 1:
			ratio = int64(r.Range(101, 300))
			ratioStr = fmt.Sprintf("%d.%02d", ratio/100, ratio%100)
		case 2:
			ratio = int64(r.Range(1, 99))
			ratioStr = fmt.Sprintf("0.%02d", ratio)
		case 3:
			ratio, ratioStr = -1, "abc" // unparsable: ignored
		}
		annoNil := s.annoKind == 0 && r.Chance(1, 3)
		tpKind := 0
		tc, tm := int64(-1), int64(-1)
		if !annoNil {
			tpKind = []int{0, 0, 1, 2, 2, 2}[r.Intn(6)]
		}
		c09Emit(h, s) // ends with `calc`
		st, node, pl, rm, _ := c09Build(s)
		if node.Annotations == nil && !annoNil {
			node.Annotations = map[string]string{}
		}
		oldClient, oldClock := client, Clock
		client = fake.NewClientBuilder().WithScheme(c09Scheme).Build()
		Clock = fakeclock.NewFakeClock(time.Unix(c09Now, 0))
		var items []framework.ResourceItem
		var err error
		p := &Plugin{}
		panicked := h.Guard(func() { items, err = p.Calculate(st, node, pl, rm) })
		client, Clock = oldClient, oldClock
		if panicked || err != nil {
			h.Obs("panic-or-error")
			h.End()
			continue
		}
		res := c09Res{}
		deg := len(items) == 2 && items[0].Reset && items[1].Reset
		if deg {
			res.kind = 1
		} else {
			res.cpu, res.mem = items[0].Quantity.Value(), items[1].Quantity.Value()
		}
		c09Obs(h, &res)
		if tpKind == 2 {
			hi := []int64{res.cpu, res.mem}
			tc, tm = c09Amount(r, hi[0]+hi[0]/4+5), c09Amount(r, hi[1]+hi[1]/4+5)
			tpa := slov1alpha1.ThirdPartyAllocations{}
			// two batch entries are summed, a prod entry is ignored
			c1, m1 := tc/2, tm/2
			rl := func(c, m int64) corev1.ResourceList {
				l := corev1.ResourceList{}
				if c >= 0 {
					l[extension.BatchCPU] = *resource.NewQuantity(c, resource.DecimalSI)
				}
				if m >= 0 {
					l[extension.BatchMemory] = *resource.NewQuantity(m, resource.BinarySI)
				}
				return l
			}
			if tc < 0 {
				c1 = -1
			}
			if tm < 0 {
				m1 = -1
			}
			tpa.Allocations = append(tpa.Allocations,
				slov1alpha1.ThirdPartyAllocation{Name: "yarn", Priority: extension.PriorityBatch, Resources: rl(c1, m1)},
				slov1alpha1.ThirdPartyAllocation{Name: "other", Priority: extension.PriorityProd, Resources: rl(77, 77)},
				slov1alpha1.ThirdPartyAllocation{Name: "yarn2", Priority: extension.PriorityBatch, Resources: rl(tc-c09P0(c1), tm-c09P0(m1))})
			b, _ := json.Marshal(tpa)
			node.Annotations[slov1alpha1.NodeThirdPartyAllocationsAnnotationKey] = string(b)
		} else if tpKind == 1 {
			node.Annotations[slov1alpha1.NodeThirdPartyAllocationsAnnotationKey] = "{broken"
		}
		nr := framework.NewNodeResource(items...)
		if ratioStr != "" {
			nr.Annotations[extension.AnnotationCPUNormalizationRatio] = ratioStr
		}
		newNode := node.DeepCopy()
		if newNode.Status.Allocatable == nil {
			newNode.Status.Allocatable = corev1.ResourceList{}
		}
		if newNode.Status.Capacity == nil {
			newNode.Status.Capacity = corev1.ResourceList{}
		}
		newNode.Status.Allocatable[extension.BatchCPU] = *resource.NewQuantity(7, resource.DecimalSI)
		newNode.Status.Capacity[extension.BatchMemory] = *resource.NewQuantity(7, resource.BinarySI)
		// extension 3: the stored quantities may carry a fractional part (rounded up in place by PrepareNodeForResource), and
		// the reconciler runs the prepare chain 1 + (status sync) + (meta sync) times on the SAME NodeResource, every time
		// on a fresh copy of the node: Prepare must be idempotent on the NodeResource
		fracC, fracM := int64(0), int64(0)
		if !deg && r.Chance(1, 6) {
			fracC, fracM = r.Int63n(1000), r.Int63n(1000)
			nr.Resources[extension.BatchCPU] = resource.NewMilliQuantity(res.cpu*1000+fracC, resource.DecimalSI)
			nr.Resources[extension.BatchMemory] = resource.NewMilliQuantity(res.mem*1000+fracM, resource.BinarySI)
			h.Op("bfrac %d %d", fracC, fracM)
		}
		if fracC > 0 {
			res.cpu++ // what the statement bounds is the rounded-up quantity
		}
		if fracM > 0 {
			res.mem++
		}
		prepares := 1 + r.Intn(3)
		template := newNode
		h.Op("bprep %d %d %d %d %d", ratio, vB(annoNil), tpKind, tc, tm)
		pub := [2]int64{-1, -1}
		var firstPub [2]int64
		var firstOrigin string
		aborted := false
		for pi := 0; pi < prepares; pi++ {
			if pi > 0 {
				h.Op("bagain")
			}
			newNode = template.DeepCopy()
			if h.Guard(func() { err = p.Prepare(st, newNode, nr) }) {
				h.Obs("panic")
				aborted = true
				break
			}
			pub = [2]int64{-1, -1}
			for d, name := range ResourceNames {
				a, okA := newNode.Status.Allocatable[name]
				c, okC := newNode.Status.Capacity[name]
				if okA != okC || (okA && a.Cmp(c) != 0) {
					h.Fail("C09:batch-capacity-allocatable-differ", "resource %s: allocatable %v(%v) capacity %v(%v)", name, a.Value(), okA, c.Value(), okC)
				}
				if okA {
					pub[d] = a.Value()
				}
			}
			h.Obs("bpub %d %d", pub[0], pub[1])
			originTok := "origin none"
			if origin, e := slov1alpha1.GetOriginExtendedAllocatable(newNode.Annotations); e == nil && origin != nil {
				oc, om := origin.Resources[extension.BatchCPU], origin.Resources[extension.BatchMemory]
				originTok = fmt.Sprintf("origin %d %d", oc.Value(), om.Value())
			}
			h.Obs("%s", originTok)
			if pi == 0 {
				firstPub, firstOrigin = pub, originTok
			} else if pub != firstPub || originTok != firstOrigin {
				h.Fail("C09:prepare-not-idempotent", "Prepare #%d on the same NodeResource put batch (%d,%d) [%s] on a fresh node copy, Prepare #1 put (%d,%d) [%s]; calculated (%d,%d) ratio %d%%",
					pi+1, pub[0], pub[1], originTok, firstPub[0], firstPub[1], firstOrigin, res.cpu, res.mem, ratio)
			}
		}
		if aborted {
			h.End()
			continue
		}
		h.Tag(fmt.Sprintf("prep:prepares=%d", prepares))
		h.Tag(fmt.Sprintf("prep:frac=%v", fracC > 0 || fracM > 0))
		if ratio > 100 && !deg {
			// AmpOK: float64 int64(float64(v) * ratio) is monotone in v and never above the exact product
			m := res.cpu * 1000
			ratioF, _ := strconv.ParseFloat(ratioStr, 64)
			f0, f1 := int64(float64(m)*ratioF), int64(float64(m+1)*ratioF)
			if f0 > f1 || f0*100 > m*ratio || f0 != int64(float64(m)*(float64(ratio)/100)) {
				h.Fail("C09:float-assumption", "MultiplyMilliQuant(%dm, %s): %d, next %d, exact %d*%d/100", m, ratioStr, f0, f1, m, ratio)
			}
		}
		// oracle: stale => withdrawn; fresh => 0 <= published <= calculated (amplified for cpu), third party only lowers
		if c09Stale(s) {
			if pub[0] != -1 || pub[1] != -1 {
				h.Fail("C09:stale-published", "node metric stale/missing but the node still carries batch (%d,%d)", pub[0], pub[1])
			}
		} else {
			amp := res.cpu
			if ratio > 100 {
				amp = int64(math.Ceil(float64(res.cpu) * float64(ratio) / 100))
			}
			if pub[0] < 0 || pub[1] < 0 {
				h.Fail("C09:fresh-not-published", "fresh metrics, calculated (%d,%d) but the node carries (%d,%d)", res.cpu, res.mem, pub[0], pub[1])
			}
			if pub[0] > amp || pub[1] > res.mem {
				h.Fail("C09:prepare-raises", "Prepare put (%d,%d) on the node, above the calculated (%d,%d) ratio %d%%", pub[0], pub[1], res.cpu, res.mem, ratio)
			}
			if tpKind != 2 && (pub[0] < res.cpu || pub[1] != res.mem) {
				h.Fail("C09:prepare-lowers", "no third-party allocation but Prepare put (%d,%d), calculated (%d,%d)", pub[0], pub[1], res.cpu, res.mem)
			}
			if pub[0] > 0 || pub[1] > 0 {
				h.Nontrivial()
			}
		}
		// NeedSync against an old node
		permille := []int64{100, 100, 50, 200, 1, 1000, 290, 333}[r.Intn(8)]
		thr := float64(permille) / 1000
		st.ResourceDiffThreshold = &thr
		old := [2]int64{c09OldNear(r, pub[0], permille), c09OldNear(r, pub[1], permille)}
		oldNode := node.DeepCopy()
		if oldNode.Status.Allocatable == nil {
			oldNode.Status.Allocatable = corev1.ResourceList{}
		}
		if old[0] >= 0 {
			oldNode.Status.Allocatable[extension.BatchCPU] = *resource.NewQuantity(old[0], resource.DecimalSI)
		}
		if old[1] >= 0 {
			oldNode.Status.Allocatable[extension.BatchMemory] = *resource.NewQuantity(old[1], resource.BinarySI)
		}
		h.Op("bsync %d %d %d", old[0], old[1], permille)
		var synced bool
		if h.Guard(func() { synced, _ = p.NeedSync(st, oldNode, newNode) }) {
			h.Obs("panic")
			h.End()
			continue
		}
		h.Obs("bsync %d", vB(synced))
		must, mustNot := false, true
		for d := 0; d < 2; d++ {
			switch {
			case (old[d] < 0) != (pub[d] < 0):
				must, mustNot = true, false
			case old[d] < 0:
			default:
				m, mn := c09ExactDiff(old[d], pub[d], permille)
				f := math.Abs(float64(pub[d]*1000-old[d]*1000)) > float64(old[d]*1000)*(float64(permille)/1000)
				if (m && !f) || (mn && f) {
					h.Fail("C09:float-assumption", "IsQuantityDiff(%d,%d,%d/1000): float %v contradicts the exact comparison", old[d], pub[d], permille, f)
				}
				must = must || m
				mustNot = mustNot && mn
			}
		}
		if must && !synced {
			h.Fail("C09:batch-sync-missed", "old (%d,%d) new (%d,%d) differ by more than %d/1000 but NeedSync=false", old[0], old[1], pub[0], pub[1], permille)
		}
		if mustNot && synced {
			h.Fail("C09:batch-sync-spurious", "old (%d,%d) new (%d,%d) within %d/1000 but NeedSync=true", old[0], old[1], pub[0], pub[1], permille)
		}
		h.Tag(fmt.Sprintf("prep:deg=%v", deg))
		h.Tag(fmt.Sprintf("prep:tp=%d", tpKind))
		h.Tag(fmt.Sprintf("prep:ratio>100=%v", ratio > 100))
		h.Tag(fmt.Sprintf("prep:sync=%v", synced))
		h.End()
	}
	h.Close("batch plugin glue: the scenarios of the batch stream (no NRT) -> Calculate -> NewNodeResource (+ cpu-normalization ratio annotation: absent, 1.00, >1, <1, " +
		"unparsable; 1/6 of the fresh cases with a fractional part on the stored quantities) -> Prepare 1-3 times on the same NodeResource, each time on a fresh copy of a node " +
		"with nil / empty annotations, third-party allocations absent / unparsable / two batch entries + one prod entry (missing keys) -> " +
		"NeedSync against an old amount on/around the diff boundary; non-trivial = fresh metrics and a positive amount on the node; distinct by op lines")
}

// ---------- exhaustive small scope (thorough tier) ----------

// TestVerifC09Exhaustive enumerates policy {usage, request, maxUsageRequest} x reclaim threshold {0,50,100,150} x
// batch cap {none, 0, 50, 100, 150 for the small mixes; none, 50 for the 3-pod mixes} x every pod mix of <= 3 pods where a
// pod is (priority label absent/prod/mid/batch/free) x (QoS label absent/LSE/LSR/LS/BE) x (no metric / usage below
// request / usage above request), on a 100-unit node with small fixed amounts.
func TestVerifC09Exhaustive(t *testing.T) {
	h := vOpen("C09")
	if h == nil {
		t.Skip("VERIF_OUT not set")
	}
	type pk struct{ prio, qos, met int } // met: 0 none, 1 low, 2 high
	var classes [][2]int
	for _, pr := range []int{-1, 0, 1, 2, 3} {
		for _, q := range []int{-1, 0, 1, 2, 3} {
			classes = append(classes, [2]int{pr, q})
		}
	}
	var kinds []pk
	for _, c := range classes {
		for m := 0; m < 3; m++ {
			kinds = append(kinds, pk{c[0], c[1], m})
		}
	}
	idx := 0
	run := func(pol int, thr int64, capPct int64, pods []pk) {
		r := h.Begin(idx)
		idx++
		if r == nil {
			return
		}
		s := &c09Scn{cpuThr: thr, memThr: thr, cpuPol: pol, memPol: pol, cpuCap: capPct, memCap: capPct, degradeMin: 15,
			capC: 100, capM: 100, allocC: 90, allocM: 100, sysC: 10, sysM: 5, hasUpd: true, upd: c09Now - 60}
		for j, k := range pods {
			rc, rm := int64(20+10*j), int64(30+10*j)
			p := c09Pod{key: j + 1, phase: 0, prioLabel: k.prio, qosLabel: k.qos, kubeSet: true, kube: 1, ctrs: [][2]int64{{rc, rm}}}
			s.pods = append(s.pods, p)
			switch k.met {
			case 1:
				s.mets = append(s.mets, c09Met{key: p.key, prio: 0, cpu: rc / 2, mem: rm / 2})
			case 2:
				uc := 2 * rc
				if k.qos == 0 {
					uc = rc // LSE: exclusive cores
				}
				s.mets = append(s.mets, c09Met{key: p.key, prio: 0, cpu: uc, mem: 2 * rm})
			}
		}
		c09Emit(h, s)
		res := c09Run(h, s)
		c09Obs(h, &res)
		c09Oracle(h, s, &res)
		if len(pods) > 0 && res.kind == 0 && (res.cpu > 0 || res.mem > 0) {
			h.Nontrivial()
		}
		h.Tag(fmt.Sprintf("exh:pods%d", len(pods)))
		h.End()
	}
	allCaps := []int64{-1, 0, 50, 100, 150}
	for pol := 0; pol < 3; pol++ {
		for _, thr := range []int64{0, 50, 100, 150} {
			for _, cp := range allCaps {
				run(pol, thr, cp, nil)
				for _, a := range kinds {
					run(pol, thr, cp, []pk{a})
				}
			}
			for _, cp := range []int64{-1, 50} {
				for i, a := range kinds {
					for _, b := range kinds[i:] {
						run(pol, thr, cp, []pk{a, b})
					}
				}
				// three pods: every multiset of classes, the metric pattern rotates with the class indices
				for i := range classes {
					for j := i; j < len(classes); j++ {
						for k := j; k < len(classes); k++ {
							rot := (i + j + k) % 3
							run(pol, thr, cp, []pk{
								{classes[i][0], classes[i][1], rot % 3},
								{classes[j][0], classes[j][1], (rot + 1) % 3},
								{classes[k][0], classes[k][1], (rot + 2) % 3}})
						}
					}
				}
			}
		}
	}
	h.Extra("exhaustive", fmt.Sprintf("policy x reclaim threshold {0,50,100,150} x batch cap x all pod mixes of <= 3 pods over 5 priority labels x 5 QoS labels x 3 metric patterns: %d cases", idx))
	h.Close("exhaustive small scope: 3 policies x reclaim thresholds {0,50,100,150} x batch cap {none,0,50,100,150} (<=1 pod) / {none,50} (2-3 pods) x every multiset of <= 2 pods over " +
		"(priority label absent/prod/mid/batch/free) x (QoS label absent/LSE/LSR/LS/BE) x (no metric / usage < request / usage > request) and every 3-pod multiset of classes with " +
		"rotating metric patterns, on a 100-unit node; non-trivial = >= 1 pod and a positive amount")
}

// ---------- exhaustive small scope: Prepare on hand-built NodeResources, three times each ----------

// TestVerifC09PrepareExhaustive enumerates ratio annotation {absent, 1.00, 1.01, 1.20, 2.35, 5.00, 0.99, unparsable, -1.50, 0}
// x stored batch-cpu {nil, 0, 1m, 999m, 1, 1001m, 2500m, 40000} x stored batch-memory {nil, 0, 1500m, 7} x Reset x
// nil / empty node annotations x third-party allocations {absent, (1,1)} and runs the real Prepare THREE times on the
// same NodeResource (what one reconcile does: need-sync check, status update, meta patch), each on a fresh node copy.
func TestVerifC09PrepareExhaustive(t *testing.T) {
	h := vOpen("C09")
	if h == nil {
		t.Skip("VERIF_OUT not set")
	}
	type rt struct {
		str  string
		has  bool
		kind int
		pct  int64
	}
	ratios := []rt{{"", false, 0, 0}, {"1.00", true, 2, 100}, {"1.01", true, 2, 101}, {"1.20", true, 2, 120}, {"2.35", true, 2, 235},
		{"5.00", true, 2, 500}, {"0.99", true, 2, 99}, {"abc", true, 1, 0}, {"-1.50", true, 2, -150}, {"0", true, 2, 0}}
	cpus := []int64{-1, 0, 1, 999, 1000, 1001, 2500, 40000000}
	mems := []int64{-1, 0, 1500, 7000}
	p := &Plugin{}
	idx := 0
	for _, ra := range ratios {
		for _, qc := range cpus {
			for _, qm := range mems {
				for reset := 0; reset < 2; reset++ {
					for annoNil := 0; annoNil < 2; annoNil++ {
						for tp := 0; tp < 2; tp++ {
							if annoNil == 1 && tp == 1 {
								continue
							}
							r := h.Begin(idx)
							idx++
							if r == nil {
								continue
							}
							nr := framework.NewNodeResource()
							if qc >= 0 {
								nr.Resources[extension.BatchCPU] = resource.NewMilliQuantity(qc, resource.DecimalSI)
							}
							if qm >= 0 {
								nr.Resources[extension.BatchMemory] = resource.NewMilliQuantity(qm, resource.BinarySI)
							}
							nr.Resets[extension.BatchCPU], nr.Resets[extension.BatchMemory] = reset == 1, reset == 1
							if ra.has {
								nr.Annotations[extension.AnnotationCPUNormalizationRatio] = ra.str
							}
							template := &corev1.Node{ObjectMeta: metav1.ObjectMeta{Name: "n0"}}
							template.Status.Allocatable = corev1.ResourceList{extension.BatchCPU: *resource.NewQuantity(7, resource.DecimalSI)}
							template.Status.Capacity = corev1.ResourceList{extension.BatchMemory: *resource.NewQuantity(7, resource.BinarySI)}
							tpKind, tc, tm := 0, int64(-1), int64(-1)
							if annoNil == 0 {
								template.Annotations = map[string]string{}
								if tp == 1 {
									tpKind, tc, tm = 2, 1, 1
									b, _ := json.Marshal(slov1alpha1.ThirdPartyAllocations{Allocations: []slov1alpha1.ThirdPartyAllocation{{Name: "yarn", Priority: extension.PriorityBatch,
										Resources: corev1.ResourceList{extension.BatchCPU: *resource.NewQuantity(1, resource.DecimalSI), extension.BatchMemory: *resource.NewQuantity(1, resource.BinarySI)}}}})
									template.Annotations[slov1alpha1.NodeThirdPartyAllocationsAnnotationKey] = string(b)
								}
							}
							h.Op("bnr %d %d %d %d %d %d %d %d %d", qc, qm, reset, ra.kind, ra.pct, annoNil, tpKind, tc, tm)
							var first [2]int64
							ok := true
							for pi := 0; pi < 3 && ok; pi++ {
								if pi > 0 {
									h.Op("bagain")
								}
								node := template.DeepCopy()
								if h.Guard(func() { _ = p.Prepare(nil, node, nr) }) {
									h.Obs("panic")
									ok = false
									break
								}
								pub := [2]int64{-1, -1}
								for d, name := range ResourceNames {
									a, okA := node.Status.Allocatable[name]
									c, okC := node.Status.Capacity[name]
									if okA != okC || (okA && a.Cmp(c) != 0) {
										h.Fail("C09:batch-capacity-allocatable-differ", "resource %s: allocatable %v(%v) capacity %v(%v)", name, a.Value(), okA, c.Value(), okC)
									}
									if okA {
										pub[d] = a.Value()
									}
								}
								h.Obs("bpub %d %d", pub[0], pub[1])
								if origin, e := slov1alpha1.GetOriginExtendedAllocatable(node.Annotations); e != nil || origin == nil {
									h.Obs("origin none")
								} else {
									oc, om := origin.Resources[extension.BatchCPU], origin.Resources[extension.BatchMemory]
									h.Obs("origin %d %d", oc.Value(), om.Value())
								}
								if pi == 0 {
									first = pub
									// oracle on the first prepare: nil / Reset => absent; otherwise the rounded-up stored amount, amplified once when ratio > 1.0
									wantC, wantM := int64(-1), int64(-1)
									if reset == 0 {
										if qc >= 0 {
											wantC = (qc + 999) / 1000
											if ra.kind == 2 && ra.pct > 100 {
												wantC = (int64(float64(qc)*(float64(ra.pct)/100)) + 999) / 1000
											}
										}
										if qm >= 0 {
											wantM = (qm + 999) / 1000
										}
										if tpKind == 2 && wantC >= 0 && wantM >= 0 {
											wantC, wantM = c09P0(wantC-1), c09P0(wantM-1)
										}
									}
									if pub[0] != wantC || pub[1] != wantM {
										h.Fail("C09:prepare-amount", "stored (%dm,%dm) reset %d ratio %q third-party %d: node carries (%d,%d), expected (%d,%d)", qc, qm, reset, ra.str, tpKind, pub[0], pub[1], wantC, wantM)
									}
								} else if pub != first {
									h.Fail("C09:prepare-not-idempotent", "Prepare #%d on the same NodeResource put batch (%d,%d) on a fresh node copy, Prepare #1 put (%d,%d); stored (%dm,%dm) ratio %q",
										pi+1, pub[0], pub[1], first[0], first[1], qc, qm, ra.str)
								}
							}
							if ok && (first[0] > 0 || first[1] > 0) {
								h.Nontrivial()
							}
							h.Tag(fmt.Sprintf("prepexh:amplified=%v", ra.kind == 2 && ra.pct > 100 && qc > 0 && reset == 0))
							h.End()
						}
					}
				}
			}
		}
	}
	h.Extra("exhaustive", fmt.Sprintf("ratio annotation x stored cpu x stored memory x reset x annotations x third party, 3 prepares each: %d cases", idx))
	h.Close("exhaustive small scope of Prepare on hand-built NodeResources: 10 ratio annotations (absent, =1, just above 1, 1.20, 2.35, 5.00, below 1, unparsable, negative, zero) x " +
		"8 stored batch-cpu quantities (nil, 0, fractional, integral, large) x 4 stored batch-memory quantities x Reset x nil / empty node annotations x third-party allocations, " +
		"the real Prepare run three times on the same NodeResource; non-trivial = a positive amount on the node")
}
