//go:build verif

package util

import (
	"testing"

	corev1 "k8s.io/api/core/v1"
	"k8s.io/apimachinery/pkg/api/resource"

	"github.com/koordinator-sh/koordinator/apis/configuration"
	"github.com/koordinator-sh/koordinator/pkg/util/sloconfig"
)

// C09 harness (mid tier): the REAL CalculateMidResourceByStaticMode / CalculateMidResourceByPolicy on
// generated capacities, percentages (set, nil -> default strategy, nil strategy) and amounts.
// Ops carry one dimension each (cpu in milli-cores, memory in bytes).

func c09mRL(cpu, mem int64) corev1.ResourceList {
	rl := corev1.ResourceList{}
	if cpu >= 0 {
		rl[corev1.ResourceCPU] = *resource.NewMilliQuantity(cpu, resource.DecimalSI)
	}
	if mem >= 0 {
		rl[corev1.ResourceMemory] = *resource.NewQuantity(mem, resource.BinarySI)
	}
	return rl
}

func c09mP0(x int64) int64 {
	if x < 0 {
		return 0
	}
	return x
}

func c09mMulPct(v, k int64) int64 { return int64(float64(v) * (float64(k) / 100)) }

// pct returns the pointer to put into the strategy (nil with probability 1/4) and the effective value.
func c09mPct(r *vRand, def int64) (*int64, int64) {
	if r.Chance(1, 4) {
		return nil, def
	}
	var v int64
	switch r.Intn(6) {
	case 0:
		v = 0
	case 1:
		v = 100
	default:
		v = int64(r.Range(1, 99))
	}
	return &v, v
}

func c09mCheck(h *vHarness, what string, out, capV, thr int64) {
	if out < 0 {
		h.Fail("C09:mid-negative", "%s published %d < 0", what, out)
	}
	lim := c09mMulPct(capV, thr)
	if lim < 0 || (thr <= 100 && lim > capV) {
		h.Fail("C09:float-assumption", "mulPct(%d,%d)=%d outside [0,cap]", capV, thr, lim)
	}
	if out > lim {
		h.Fail("C09:mid-over-threshold", "%s published %d > %d%% of capacity %d = %d", what, out, thr, capV, lim)
	}
}

func TestVerifC09Mid(t *testing.T) {
	h := vOpen("C09")
	if h == nil {
		t.Skip("VERIF_OUT not set")
	}
	def := sloconfig.DefaultColocationStrategy()
	n := h.N(3000, 100000)
	for idx := 0; idx < n; idx++ {
		r := h.Begin(idx)
		if r == nil {
			continue
		}
		cpuHi, memHi := int64(128000), int64(1)<<38
		if r.Bool() {
			cpuHi, memHi = 1000, 1000
		}
		capC, capM := r.Int63n(cpuHi+1), r.Int63n(memHi+1)
		if r.Chance(1, 20) {
			capC = -1
		}
		if r.Chance(1, 20) {
			capM = -1
		}
		capRL := c09mRL(capC, capM)
		st := &configuration.ColocationStrategy{}
		var thrC, thrM, resC, resM, una int64
		st.MidCPUThresholdPercent, thrC = c09mPct(r, *def.MidCPUThresholdPercent)
		st.MidMemoryThresholdPercent, thrM = c09mPct(r, *def.MidMemoryThresholdPercent)
		st.MidStaticCPUReservedPercent, resC = c09mPct(r, *def.MidStaticCPUReservedPercent)
		st.MidStaticMemoryReservedPercent, resM = c09mPct(r, *def.MidStaticMemoryReservedPercent)
		st.MidUnallocatedPercent, una = c09mPct(r, *def.MidUnallocatedPercent)
		if r.Chance(1, 15) {
			st = nil
			thrC, thrM, resC, resM, una = *def.MidCPUThresholdPercent, *def.MidMemoryThresholdPercent,
				*def.MidStaticCPUReservedPercent, *def.MidStaticMemoryReservedPercent, *def.MidUnallocatedPercent
		}
		if r.Bool() {
			h.Tag("mode:static")
			h.Op("mids %d %d %d", c09mP0(capC), resC, thrC)
			h.Op("mids %d %d %d", c09mP0(capM), resM, thrM)
			var qc, qm *resource.Quantity
			if h.Guard(func() { qc, qm, _, _ = CalculateMidResourceByStaticMode(st, capRL, "n0") }) {
				h.Obs("panic")
			} else {
				h.Obs("mid %d", qc.Value())
				h.Obs("mid %d", qm.Value())
				c09mCheck(h, "static cpu", qc.Value(), c09mP0(capC), thrC)
				c09mCheck(h, "static mem", qm.Value(), c09mP0(capM), thrM)
				if qc.Value() > 0 || qm.Value() > 0 {
					h.Nontrivial()
				}
			}
		} else {
			h.Tag("mode:policy")
			amt := func(hi int64, neg bool) int64 {
				switch r.Intn(8) {
				case 0:
					return 0
				case 1:
					if neg {
						return -r.Int63n(hi/4 + 1)
					}
				}
				return r.Int63n(hi + 1)
			}
			unaC, unaM := amt(cpuHi, false), amt(memHi, false) // Unallocated[Mid] is max(.., 0) in the plugin
			unuC, unuM := amt(cpuHi, true), amt(memHi, true)   // capacity - node usage may be negative
			recC, recM := amt(cpuHi, true), amt(memHi, true)
			unused := corev1.ResourceList{}
			if r.Chance(1, 10) { // invalid node usage => empty list
				unuC, unuM = 0, 0
			} else {
				unused[corev1.ResourceCPU] = *resource.NewMilliQuantity(unuC, resource.DecimalSI)
				unused[corev1.ResourceMemory] = *resource.NewQuantity(unuM, resource.BinarySI)
			}
			h.Op("midp %d %d %d %d %d %d", c09mP0(capC), unaC, unuC, recC, una, thrC)
			h.Op("midp %d %d %d %d %d %d", c09mP0(capM), unaM, unuM, recM, una, thrM)
			var qc, qm *resource.Quantity
			if h.Guard(func() {
				qc, qm, _, _ = CalculateMidResourceByPolicy(st, capRL, c09mRL(unaC, unaM), unused, recC, recM,
					resource.NewMilliQuantity(recC, resource.DecimalSI), resource.NewQuantity(recM, resource.BinarySI), "n0")
			}) {
				h.Obs("panic")
			} else {
				h.Obs("mid %d", qc.Value())
				h.Obs("mid %d", qm.Value())
				c09mCheck(h, "policy cpu", qc.Value(), c09mP0(capC), thrC)
				c09mCheck(h, "policy mem", qm.Value(), c09mP0(capM), thrM)
				if qc.Value() > 0 || qm.Value() > 0 {
					h.Nontrivial()
				}
			}
		}
		h.End()
	}
	h.Close("mid tier: capacity (incl. missing key), percentages set / nil (default strategy) / nil strategy, static mode or policy mode with " +
		"unallocated >= 0, node-unused and prod-reclaimable possibly negative or missing; non-trivial = a positive published amount; distinct by op lines")
}
