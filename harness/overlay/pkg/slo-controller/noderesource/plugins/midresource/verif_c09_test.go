//go:build verif

package midresource

import (
	"encoding/json"
	"fmt"
	"math"
	"testing"
	"time"

	corev1 "k8s.io/api/core/v1"
	"k8s.io/apimachinery/pkg/api/resource"
	metav1 "k8s.io/apimachinery/pkg/apis/meta/v1"
	fakeclock "k8s.io/utils/clock/testing"

	"github.com/koordinator-sh/koordinator/apis/configuration"
	"github.com/koordinator-sh/koordinator/apis/extension"
	slov1alpha1 "github.com/koordinator-sh/koordinator/apis/slo/v1alpha1"
	"github.com/koordinator-sh/koordinator/pkg/slo-controller/noderesource/framework"
)

// C09 harness (mid plugin glue): one generated scenario = strategy (mid mode, percentages set or nil, degrade time) +
// node (capacity / allocatable / reservation annotation) + NodeMetric (update time, system usage, host applications,
// node usage valid or not, prod-reclaimable present or not) + pods.  The REAL midresource Plugin.Calculate is called,
// its items go through framework.NewNodeResource and the REAL Plugin.Prepare onto a node copy, then the REAL
// Plugin.NeedSync compares against an "old" node.  The oracle recomputes the documented bounds from scratch.

const c09pNow = int64(1700000000)

type c09pPod struct {
	key       int
	phase     int // 0 Running 1 Pending 2 Succeeded 3 Failed 4 Unknown
	prioLabel int // -1 absent, 0 prod 1 mid 2 batch 3 free, 4 unknown string
	hasPrio   bool
	prioVal   int32
	qosLabel  int // -1 absent, 0 LSE 1 LSR 2 LS 3 BE 4 SYSTEM, 5 unknown string
	kube      int // 0 Guaranteed 1 Burstable 2 BestEffort (Status.QOSClass set explicitly)
	reqC      int64
	reqM      int64
	hasOvh    bool  // spec.overhead declared (sandboxed RuntimeClass)
	ovhC      int64 // -1 = key absent from spec.overhead
	ovhM      int64
}

// req is the pod's request read from the DECLARED pod object, independently of util.GetPodRequest: the single
// container's requests plus spec.overhead.
func (p *c09pPod) req() (int64, int64) {
	c, m := c09pP0(p.reqC), c09pP0(p.reqM)
	if p.hasOvh {
		c += c09pP0(p.ovhC)
		m += c09pP0(p.ovhM)
	}
	return c, m
}

type c09pHost struct {
	prio     int // 0 prod 1 mid 2 batch 3 free 4 "" 5 unknown
	cpu, mem int64
}

type c09pScn struct {
	static                         int      // 0 nil, 1 "static", 2 other string
	pct                            [5]int64 // midCpuThr midMemThr cpuRes memRes unalloc ; -1 = nil
	degradeMin                     int64
	capC, capM, allocC, allocM     int64 // -1 = key absent
	allocNil                       bool
	annoKind                       int // 0 none 1 resources 2 reservedCPUs(+resources) 3 garbage 4 empty string 5 empty object
	annoC, annoM                   int64
	annoCPUs                       int
	annoPolicy                     int // applyPolicy of the reservation annotation: 0 absent 1 "" 2 Default 3 ReservedCPUsOnly 4 unknown string
	sysC, sysM                     int64
	hasUpd                         bool
	upd                            int64
	hosts                          []c09pHost
	pods                           []c09pPod
	reclaimKind                    int // 0 metric nil, 1 list nil, 2 present
	recC, recM                     int64
	usageKind                      int // 0 valid, 1 list nil, 2 cpu missing, 3 memory missing
	useC, useM                     int64
	oldC, oldM                     int64 // the old node's mid amounts for NeedSync, -1 absent
	diffPermille                   int64
}

var c09pPrioNames = []string{string(extension.PriorityProd), string(extension.PriorityMid), string(extension.PriorityBatch),
	string(extension.PriorityFree), "", "koord-whatever"}
var c09pQoSNames = []string{string(extension.QoSLSE), string(extension.QoSLSR), string(extension.QoSLS), string(extension.QoSBE),
	string(extension.QoSSystem), "WEIRD"}

func c09pRL(cpu, mem int64) corev1.ResourceList {
	rl := corev1.ResourceList{}
	if cpu >= 0 {
		rl[corev1.ResourceCPU] = *resource.NewMilliQuantity(cpu, resource.DecimalSI)
	}
	if mem >= 0 {
		rl[corev1.ResourceMemory] = *resource.NewQuantity(mem, resource.BinarySI)
	}
	return rl
}

func c09pP0(x int64) int64 {
	if x < 0 {
		return 0
	}
	return x
}

func c09pMax(a, b int64) int64 {
	if a > b {
		return a
	}
	return b
}

func c09pBuild(s *c09pScn) (*configuration.ColocationStrategy, *corev1.Node, *corev1.PodList, *framework.ResourceMetrics) {
	st := &configuration.ColocationStrategy{DegradeTimeMinutes: &s.degradeMin}
	switch s.static {
	case 1:
		m := configuration.MidReclaimModeStatic
		st.MidReclaimMode = &m
	case 2:
		m := configuration.MidReclaimMode("dynamic")
		st.MidReclaimMode = &m
	}
	ptrs := []**int64{&st.MidCPUThresholdPercent, &st.MidMemoryThresholdPercent, &st.MidStaticCPUReservedPercent,
		&st.MidStaticMemoryReservedPercent, &st.MidUnallocatedPercent}
	for i := range ptrs {
		if s.pct[i] >= 0 {
			v := s.pct[i]
			*ptrs[i] = &v
		}
	}
	thr := float64(s.diffPermille) / 1000
	st.ResourceDiffThreshold = &thr
	node := &corev1.Node{ObjectMeta: metav1.ObjectMeta{Name: "n0"}}
	node.Status.Capacity = c09pRL(s.capC, s.capM)
	if !s.allocNil {
		node.Status.Allocatable = c09pRL(s.allocC, s.allocM)
	}
	switch s.annoKind {
	case 1, 2:
		nr := extension.NodeReservation{Resources: c09pRL(s.annoC, s.annoM)}
		if s.annoKind == 2 {
			nr.ReservedCPUs = fmt.Sprintf("0-%d", s.annoCPUs-1)
		}
		b, _ := json.Marshal(nr)
		node.Annotations = map[string]string{extension.AnnotationNodeReservation: c09pApplyPolicy(string(b), s.annoPolicy)}
	case 3:
		node.Annotations = map[string]string{extension.AnnotationNodeReservation: "{not json"}
	case 4:
		node.Annotations = map[string]string{extension.AnnotationNodeReservation: ""}
	case 5:
		node.Annotations = map[string]string{extension.AnnotationNodeReservation: c09pApplyPolicy("{}", s.annoPolicy)}
	}
	pl := &corev1.PodList{}
	phases := []corev1.PodPhase{corev1.PodRunning, corev1.PodPending, corev1.PodSucceeded, corev1.PodFailed, corev1.PodUnknown}
	kubes := []corev1.PodQOSClass{corev1.PodQOSGuaranteed, corev1.PodQOSBurstable, corev1.PodQOSBestEffort}
	for _, p := range s.pods {
		pod := corev1.Pod{ObjectMeta: metav1.ObjectMeta{Namespace: "ns", Name: fmt.Sprintf("p%d", p.key)}}
		pod.Labels = map[string]string{}
		if p.prioLabel >= 0 {
			pod.Labels[extension.LabelPodPriorityClass] = c09pPrioNames[map[int]int{0: 0, 1: 1, 2: 2, 3: 3, 4: 5}[p.prioLabel]]
		}
		if p.qosLabel >= 0 {
			pod.Labels[extension.LabelPodQoS] = c09pQoSNames[p.qosLabel]
		}
		if p.hasPrio {
			v := p.prioVal
			pod.Spec.Priority = &v
		}
		pod.Status.Phase = phases[p.phase]
		pod.Status.QOSClass = kubes[p.kube]
		pod.Spec.Containers = []corev1.Container{{Name: "c", Resources: corev1.ResourceRequirements{Requests: c09pRL(p.reqC, p.reqM)}}}
		if p.hasOvh {
			pod.Spec.Overhead = c09pRL(p.ovhC, p.ovhM)
		}
		pl.Items = append(pl.Items, pod)
	}
	nm := &slov1alpha1.NodeMetric{ObjectMeta: metav1.ObjectMeta{Name: "n0"}}
	if s.hasUpd {
		nm.Status.UpdateTime = &metav1.Time{Time: time.Unix(s.upd, 0)}
	}
	nm.Status.NodeMetric = &slov1alpha1.NodeMetricInfo{}
	nm.Status.NodeMetric.SystemUsage.ResourceList = c09pRL(s.sysC, s.sysM)
	switch s.usageKind {
	case 0:
		nm.Status.NodeMetric.NodeUsage.ResourceList = c09pRL(c09pP0(s.useC), c09pP0(s.useM))
	case 2:
		nm.Status.NodeMetric.NodeUsage.ResourceList = c09pRL(-1, c09pP0(s.useM))
	case 3:
		nm.Status.NodeMetric.NodeUsage.ResourceList = c09pRL(c09pP0(s.useC), -1)
	}
	switch s.reclaimKind {
	case 1:
		nm.Status.ProdReclaimableMetric = &slov1alpha1.ReclaimableMetric{}
	case 2:
		nm.Status.ProdReclaimableMetric = &slov1alpha1.ReclaimableMetric{Resource: slov1alpha1.ResourceMap{ResourceList: c09pRL(s.recC, s.recM)}}
	}
	for i, a := range s.hosts {
		nm.Status.HostApplicationMetric = append(nm.Status.HostApplicationMetric, &slov1alpha1.HostApplicationMetricInfo{
			Name: fmt.Sprintf("h%d", i), Priority: extension.PriorityClass(c09pPrioNames[a.prio]),
			Usage: slov1alpha1.ResourceMap{ResourceList: c09pRL(a.cpu, a.mem)}})
	}
	return st, node, pl, &framework.ResourceMetrics{NodeMetric: nm}
}

// c09pApplyPolicy writes the applyPolicy key into a marshalled reservation annotation.  The policy tells the SCHEDULER
// whether to trim the node's allocatable; the mid formula (getUnallocated) subtracts the declared amounts under every
// policy, so annoProj does not look at it.
var c09pApplyPolicies = []string{"", "", "Default", "ReservedCPUsOnly", "SomethingElse"}

func c09pApplyPolicy(js string, policy int) string {
	if policy <= 0 || len(js) < 2 || js[len(js)-1] != '}' {
		return js
	}
	sep := ","
	if js == "{}" {
		sep = ""
	}
	return js[:len(js)-1] + sep + fmt.Sprintf("%q:%q}", "applyPolicy", c09pApplyPolicies[policy])
}

func (s *c09pScn) annoProj() (int64, int64) {
	switch s.annoKind {
	case 1:
		return c09pP0(s.annoC), c09pP0(s.annoM)
	case 2:
		return int64(s.annoCPUs) * 1000, c09pP0(s.annoM)
	}
	return 0, 0
}

func c09pPrioTok(p int) int {
	if p >= 4 {
		return 4
	}
	return p
}

func c09pEmit(h *vHarness, s *c09pScn) {
	h.Op("cfg 100 100 0 0 -1 -1 %d", s.degradeMin)
	ac, am := s.annoProj()
	h.Op("node %d %d %d %d %d %d %d %d", c09pP0(s.capC), c09pP0(s.capM), c09pP0(s.allocC), c09pP0(s.allocM), ac, am, c09pP0(s.sysC), c09pP0(s.sysM))
	h.Op("time %d %d %d", vB(s.hasUpd), c09pNow, s.upd)
	for i := range s.pods {
		p := &s.pods[i]
		ql := p.qosLabel
		if ql == 5 {
			ql = -1
		}
		pv := int64(0)
		if p.hasPrio {
			pv = int64(p.prioVal)
		}
		rc, rm := p.req()
		h.Op("pod %d %d %d %d %d %d %d %d %d 0", p.key, vB(p.phase <= 1), p.prioLabel, vB(p.hasPrio), pv, ql, p.kube, rc, rm)
	}
	for _, a := range s.hosts {
		h.Op("host %d %d %d", c09pPrioTok(a.prio), c09pP0(a.cpu), c09pP0(a.mem))
	}
	h.Op("mcfg %d %d %d %d %d %d", vB(s.static == 1), s.pct[0], s.pct[1], s.pct[2], s.pct[3], s.pct[4])
	rc, rm := int64(0), int64(0)
	if s.reclaimKind == 2 {
		rc, rm = c09pP0(s.recC), c09pP0(s.recM)
	}
	uc, um := int64(0), int64(0)
	if s.usageKind == 0 {
		uc, um = c09pP0(s.useC), c09pP0(s.useM)
	}
	h.Op("mmet %d %d %d %d %d %d", vB(s.reclaimKind == 2), rc, rm, vB(s.usageKind == 0), uc, um)
	h.Op("mnode %d", vB(s.allocNil))
}

// ---------- the oracle: the documented bounds, from scratch ----------

func c09pMulPct(v, k int64) int64 { return int64(float64(v) * (float64(k) / 100)) }

// prod for the mid plugin: priority class neither mid, batch nor free (class by label, else value band, else QoS)
func (p *c09pPod) isProd() bool {
	qos := p.qosLabel
	if qos < 0 || qos > 4 {
		qos = []int{1, 2, 3}[p.kube]
	}
	pc := 4
	if p.prioLabel >= 0 {
		if p.prioLabel <= 3 {
			pc = p.prioLabel
		}
	} else if p.hasPrio {
		v := p.prioVal
		switch {
		case v >= 9000 && v <= 9999:
			pc = 0
		case v >= 7000 && v <= 7999:
			pc = 1
		case v >= 5000 && v <= 5999:
			pc = 2
		case v >= 3000 && v <= 3999:
			pc = 3
		}
	}
	if pc == 4 {
		if qos == 3 {
			pc = 2
		} else {
			pc = 0
		}
	}
	return pc == 0
}

func (s *c09pScn) effPct(i int) int64 {
	if s.pct[i] >= 0 {
		return s.pct[i]
	}
	return []int64{100, 100, 0, 0, 0}[i] // documented defaults (DefaultColocationStrategy)
}

func c09pStale(s *c09pScn) bool { return !s.hasUpd || c09pNow > s.upd+s.degradeMin*60 }

// c09pExactDiff: IsQuantityDiff in exact arithmetic (the milli scale cancels): |new-old|*1000 > old*k.
// must: strictly above the threshold; mustNot: strictly below (or equal amounts); on the exact boundary the
// float64 product may fall on either side, both answers are accepted there.
func c09pExactDiff(oldV, newV, permille int64) (must, mustNot bool) {
	d := newV - oldV
	if d < 0 {
		d = -d
	}
	return d*1000 > oldV*permille, d*1000 < oldV*permille || d == 0
}

// c09pOracle checks the property clauses on the implementation's outputs.
// kind: 0 amounts, 1 degraded, 2 error, 3 unexpected
func c09pOracle(h *vHarness, s *c09pScn, kind int, out [2]int64, pub [2]int64, synced bool) {
	if s.allocNil {
		return // Calculate refuses the node; not part of the statement
	}
	if c09pStale(s) {
		if kind != 1 {
			h.Fail("C09:mid-stale-not-reset", "node metric stale/missing but mid resources were not reset (kind %d)", kind)
		}
		if pub[0] != -1 || pub[1] != -1 {
			h.Fail("C09:mid-stale-published", "node metric stale/missing but the node still carries mid (%d,%d)", pub[0], pub[1])
		}
	} else {
		if kind != 0 {
			h.Fail("C09:mid-fresh-degraded", "fresh node metric but outcome kind %d", kind)
			return
		}
		capN := [2]int64{c09pP0(s.capC), c09pP0(s.capM)}
		alloc := [2]int64{c09pP0(s.allocC), c09pP0(s.allocM)}
		ac, am := s.annoProj()
		anno := [2]int64{ac, am}
		sys := [2]int64{c09pP0(s.sysC), c09pP0(s.sysM)}
		for _, a := range s.hosts {
			if a.prio == 0 { // only prod host applications rank above mid
				sys[0] += c09pP0(a.cpu)
				sys[1] += c09pP0(a.mem)
			}
		}
		var prodReq [2]int64
		for i := range s.pods {
			p := &s.pods[i]
			if p.phase <= 1 && p.isProd() {
				rc, rm := p.req()
				prodReq[0] += rc
				prodReq[1] += rm
			}
		}
		rec := [2]int64{0, 0}
		if s.reclaimKind == 2 {
			rec = [2]int64{c09pP0(s.recC), c09pP0(s.recM)}
		}
		for d := 0; d < 2; d++ {
			thr := s.effPct(d)
			lim := c09pMulPct(capN[d], thr)
			if lim < 0 || (thr <= 100 && lim > capN[d]) {
				h.Fail("C09:float-assumption", "mulPct(%d,%d)=%d outside [0,cap]", capN[d], thr, lim)
			}
			if out[d] < 0 {
				h.Fail("C09:mid-negative", "dim %d published %d < 0", d, out[d])
			}
			if out[d] > lim {
				h.Fail("C09:mid-over-threshold", "dim %d published %d > %d%% of capacity %d = %d", d, out[d], thr, capN[d], lim)
			}
			if s.static == 1 {
				if r := c09pMulPct(capN[d], s.effPct(2+d)); out[d] > r {
					h.Fail("C09:mid-over-static-reserve", "dim %d published %d > static reserve %d", d, out[d], r)
				}
				continue
			}
			// policy mode: <= max(min(prodReclaimable, capacity - nodeUsage), 0) + unallocated * pct
			reserved := c09pMax(c09pMax(c09pMax(capN[d]-alloc[d], 0), anno[d]), sys[d])
			una := c09pMax(capN[d]-reserved-prodReq[d], 0)
			share := c09pMulPct(una, s.effPct(4))
			if share < 0 || (s.effPct(4) <= 100 && share > una) {
				h.Fail("C09:float-assumption", "mulPct(%d,%d)=%d outside [0,v]", una, s.effPct(4), share)
			}
			recl := rec[d]
			if s.usageKind == 0 {
				unused := capN[d] - []int64{c09pP0(s.useC), c09pP0(s.useM)}[d]
				if unused < recl {
					recl = unused
				}
			} else {
				recl = 0 // no valid node usage: nothing is considered unused
			}
			if recl < 0 {
				recl = 0
			}
			if out[d] > recl+share {
				h.Fail("C09:mid-over-reclaimable", "dim %d published %d > min(prodReclaimable, unused)=%d + unallocated %d * %d%% = %d",
					d, out[d], recl, una, s.effPct(4), share)
			}
		}
		if pub != out {
			h.Fail("C09:mid-prepare-mismatch", "Prepare put (%d,%d) on the node, Calculate returned (%d,%d)", pub[0], pub[1], out[0], out[1])
		}
	}
	// NeedSync is exactly "presence differs or relative diff > threshold" on either resource
	old := [2]int64{s.oldC, s.oldM}
	must, mustNot := false, true
	for d := 0; d < 2; d++ {
		switch {
		case (old[d] < 0) != (pub[d] < 0):
			must, mustNot = true, false
		case old[d] < 0:
		default:
			m, mn := c09pExactDiff(old[d], pub[d], s.diffPermille)
			f := math.Abs(float64(pub[d]*1000-old[d]*1000)) > float64(old[d]*1000)*(float64(s.diffPermille)/1000)
			if (m && !f) || (mn && f) { // DiffOK: the float64 comparison agrees with the exact one off the boundary
				h.Fail("C09:float-assumption", "IsQuantityDiff(%d,%d,%d/1000): float %v contradicts the exact comparison", old[d], pub[d], s.diffPermille, f)
			}
			must = must || m
			mustNot = mustNot && mn
		}
	}
	if must && !synced {
		h.Fail("C09:mid-sync-missed", "old (%d,%d) new (%d,%d) differ by more than %d/1000 but NeedSync=false", old[0], old[1], pub[0], pub[1], s.diffPermille)
	}
	if mustNot && synced {
		h.Fail("C09:mid-sync-spurious", "old (%d,%d) new (%d,%d) within %d/1000 but NeedSync=true", old[0], old[1], pub[0], pub[1], s.diffPermille)
	}
}

// ---------- generator ----------

func c09pAmount(r *vRand, hi int64) int64 {
	switch r.Intn(8) {
	case 0:
		return -1
	case 1:
		return 0
	default:
		return r.Int63n(hi + 1)
	}
}

func c09pGen(r *vRand) *c09pScn {
	s := &c09pScn{}
	s.static = []int{0, 0, 1, 1, 2}[r.Intn(5)]
	for i := range s.pct {
		switch r.Intn(8) {
		case 0, 1:
			s.pct[i] = -1
		case 2:
			s.pct[i] = 0
		case 3:
			s.pct[i] = 100
		case 4:
			s.pct[i] = int64(r.Range(101, 150))
		default:
			s.pct[i] = int64(r.Range(1, 99))
		}
	}
	s.degradeMin = int64(r.Range(1, 30))
	cpuHi, memHi := int64(128000), int64(1)<<38
	if r.Bool() {
		cpuHi, memHi = 1000, 1000
	}
	s.capC, s.capM = cpuHi/2+r.Int63n(cpuHi/2+1), memHi/2+r.Int63n(memHi/2+1)
	if r.Chance(1, 25) {
		s.capC = -1
	}
	if r.Chance(1, 25) {
		s.capM = -1
	}
	alloc := func(c int64) int64 {
		if c < 0 {
			return c09pAmount(r, 100)
		}
		switch r.Intn(6) {
		case 0:
			return -1
		case 1:
			return c + r.Int63n(c/10+1)
		case 2:
			return c
		default:
			return c - r.Int63n(c/8+1)
		}
	}
	s.allocC, s.allocM = alloc(s.capC), alloc(s.capM)
	s.allocNil = r.Chance(1, 40)
	s.annoKind = []int{0, 0, 0, 1, 1, 2, 3, 4, 5}[r.Intn(9)]
	s.annoC, s.annoM = c09pAmount(r, cpuHi/8), c09pAmount(r, memHi/8)
	s.annoCPUs = r.Range(1, 8)
	s.annoPolicy = []int{0, 0, 1, 2, 3, 3, 3, 4}[r.Intn(8)]
	s.sysC, s.sysM = c09pAmount(r, cpuHi/6), c09pAmount(r, memHi/6)
	s.hasUpd = !r.Chance(1, 15)
	lim := s.degradeMin * 60
	switch r.Intn(8) {
	case 0:
		s.upd = c09pNow - lim
	case 1:
		s.upd = c09pNow - lim - 1
	case 2:
		s.upd = c09pNow - lim + 1
	case 3:
		s.upd = c09pNow - r.Int63n(3*lim)
	case 4:
		s.upd = c09pNow + r.Int63n(100)
	default:
		s.upd = c09pNow - r.Int63n(lim)
	}
	np := r.Range(0, 5)
	for i := 0; i < np; i++ {
		p := c09pPod{key: i + 1, prioLabel: -1, qosLabel: -1}
		p.phase = []int{0, 0, 0, 0, 0, 0, 1, 2, 3, 4}[r.Intn(10)]
		if r.Chance(2, 5) {
			p.prioLabel = []int{0, 0, 1, 2, 3, 4}[r.Intn(6)]
		}
		if r.Chance(3, 5) {
			p.hasPrio = true
			p.prioVal = int32(r.Pick([]int64{9000, 9999, 9500, 10000, 8999, 7000, 7999, 7500, 6999, 6000, 5999, 5000, 5500, 4999, 4000, 3999, 3000, 2999, 0, 100, -1}))
		}
		if r.Chance(3, 5) {
			p.qosLabel = []int{0, 0, 1, 2, 2, 3, 4, 5}[r.Intn(8)]
		}
		p.kube = r.Intn(3)
		p.reqC, p.reqM = c09pAmount(r, cpuHi/5), c09pAmount(r, memHi/5)
		if r.Chance(1, 3) { // spec.overhead: both dimensions, or only one
			p.hasOvh = true
			p.ovhC, p.ovhM = 1+r.Int63n(cpuHi/16), 1+r.Int63n(memHi/16)
			switch r.Intn(4) {
			case 0:
				p.ovhC = -1
			case 1:
				p.ovhM = -1
			}
		}
		s.pods = append(s.pods, p)
	}
	nh := r.Range(0, 2)
	for i := 0; i < nh; i++ {
		s.hosts = append(s.hosts, c09pHost{prio: r.Intn(6), cpu: c09pAmount(r, cpuHi/10), mem: c09pAmount(r, memHi/10)})
	}
	s.reclaimKind = []int{0, 1, 2, 2, 2, 2}[r.Intn(6)]
	s.recC, s.recM = c09pAmount(r, cpuHi), c09pAmount(r, memHi)
	s.usageKind = []int{0, 0, 0, 0, 0, 1, 2, 3}[r.Intn(8)]
	s.useC, s.useM = r.Int63n(cpuHi+cpuHi/10+1), r.Int63n(memHi+memHi/10+1) // usage above capacity: negative "unused"
	s.diffPermille = []int64{100, 100, 50, 200, 1, 1000, 290, 333}[r.Intn(8)]
	if r.Chance(2, 3) { // mostly fresh metrics, so that the calculation is reached
		s.hasUpd = true
		s.upd = c09pNow - r.Int63n(lim)
	}
	return s
}

// c09pOld picks the old node's amount near the new one so that the diff threshold is exercised on both sides
// and exactly on the boundary.
func c09pOld(r *vRand, newV, permille int64) int64 {
	if newV < 0 {
		if r.Chance(1, 3) {
			return -1
		}
		return r.Int63n(1000)
	}
	switch r.Intn(8) {
	case 0:
		return -1
	case 1:
		return newV
	case 2:
		return 0
	case 3: // old with |new-old| == old*k/1000 exactly when divisible: old = new*1000/(1000+k)
		return newV * 1000 / (1000 + permille)
	case 4:
		if permille < 1000 {
			return newV * 1000 / (1000 - permille)
		}
		return newV + 1
	case 5:
		return newV*1000/(1000+permille) + int64(r.Range(-1, 1))
	default:
		d := newV * permille / 1000
		return c09pP0(newV + r.Int63n(2*d+3) - d - 1)
	}
}

func TestVerifC09MidPlugin(t *testing.T) {
	h := vOpen("C09")
	if h == nil {
		t.Skip("VERIF_OUT not set")
	}
	oldClk := clk
	clk = fakeclock.NewFakeClock(time.Unix(c09pNow, 0))
	defer func() { clk = oldClk }()
	n := h.N(3000, 80000)
	for idx := 0; idx < n; idx++ {
		r := h.Begin(idx)
		if r == nil {
			continue
		}
		s := c09pGen(r)
		c09pEmit(h, s)
		st, node, pl, rm := c09pBuild(s)
		p := &Plugin{}
		var items []framework.ResourceItem
		var err error
		kind := 3
		var out [2]int64
		h.Op("mcalc")
		if h.Guard(func() { items, err = p.Calculate(st, node, pl, rm) }) {
			h.Obs("panic")
			h.Tag("out:panic")
			h.End()
			continue
		}
		switch {
		case err != nil:
			kind = 2
			h.Obs("merr")
		case len(items) == 2 && items[0].Name == extension.MidCPU && items[1].Name == extension.MidMemory &&
			items[0].Reset && items[1].Reset && items[0].Quantity == nil && items[1].Quantity == nil:
			kind = 1
			h.Obs("mdeg")
		case len(items) == 2 && items[0].Name == extension.MidCPU && items[1].Name == extension.MidMemory &&
			!items[0].Reset && !items[1].Reset && items[0].Quantity != nil && items[1].Quantity != nil:
			kind = 0
			out = [2]int64{items[0].Quantity.Value(), items[1].Quantity.Value()}
			h.Obs("mid %d %d", out[0], out[1])
		default:
			h.Obs("mixed")
		}
		h.Tag(fmt.Sprintf("out:%s", []string{"mid", "degraded", "error", "mixed"}[kind]))
		if s.annoKind == 1 || s.annoKind == 2 || s.annoKind == 5 {
			h.Tag(fmt.Sprintf("reservation-anno:kind=%d,applyPolicy=%d", s.annoKind, s.annoPolicy))
		}
		// Prepare on a copy of the node that already carries some old mid amounts
		nr := framework.NewNodeResource(items...)
		newNode := node.DeepCopy()
		if newNode.Status.Allocatable == nil {
			newNode.Status.Allocatable = corev1.ResourceList{}
		}
		newNode.Status.Allocatable[extension.MidCPU] = *resource.NewQuantity(7, resource.DecimalSI)
		newNode.Status.Capacity[extension.MidMemory] = *resource.NewQuantity(7, resource.BinarySI)
		h.Op("mprep")
		pub := [2]int64{-1, -1}
		if h.Guard(func() { err = p.Prepare(st, newNode, nr) }) {
			h.Obs("panic")
		} else {
			for d, name := range ResourceNames {
				a, okA := newNode.Status.Allocatable[name]
				c, okC := newNode.Status.Capacity[name]
				if okA != okC || (okA && a.Cmp(c) != 0) {
					h.Fail("C09:mid-capacity-allocatable-differ", "resource %s: allocatable %v(%v) capacity %v(%v)", name, a.Value(), okA, c.Value(), okC)
				}
				if okA {
					pub[d] = a.Value()
				}
			}
			h.Obs("mpub %d %d", pub[0], pub[1])
		}
		// NeedSync against an old node
		s.oldC, s.oldM = c09pOld(r, pub[0], s.diffPermille), c09pOld(r, pub[1], s.diffPermille)
		oldNode := node.DeepCopy()
		if oldNode.Status.Allocatable == nil {
			oldNode.Status.Allocatable = corev1.ResourceList{}
		}
		if s.oldC >= 0 {
			oldNode.Status.Allocatable[extension.MidCPU] = *resource.NewQuantity(s.oldC, resource.DecimalSI)
		}
		if s.oldM >= 0 {
			oldNode.Status.Allocatable[extension.MidMemory] = *resource.NewQuantity(s.oldM, resource.BinarySI)
		}
		h.Op("msync %d %d %d", s.oldC, s.oldM, s.diffPermille)
		var synced bool
		if h.Guard(func() { synced, _ = p.NeedSync(st, oldNode, newNode) }) {
			h.Obs("panic")
		} else {
			h.Obs("msync %d", vB(synced))
			h.Tag(fmt.Sprintf("sync:%v", synced))
		}
		c09pOracle(h, s, kind, out, pub, synced)
		if kind == 0 {
			if s.static == 1 {
				h.Tag("mode:static")
			} else {
				h.Tag("mode:policy")
			}
			if out[0] > 0 || out[1] > 0 {
				h.Tag("mid:positive")
				h.Nontrivial()
			} else {
				h.Tag("mid:zero")
			}
		}
		h.End()
	}
	h.Close("mid plugin glue: strategy (mode nil/static/other, five percentages set/nil/0/100/>100, degrade time), node (capacity, allocatable incl. nil map, " +
		"reservation annotation resources/reservedCPUs/garbage/empty x applyPolicy absent/empty/Default/ReservedCPUsOnly/unknown), NodeMetric (fresh/stale/boundary/missing update time, system usage, host apps of all priorities, " +
		"node usage valid/nil/partial, prod-reclaimable nil/empty/present), 0-5 pods of all priority/QoS forms and phases; Calculate -> NewNodeResource -> Prepare -> NeedSync " +
		"against an old amount on/around the diff boundary; non-trivial = a positive published mid amount; distinct by op lines")
}
