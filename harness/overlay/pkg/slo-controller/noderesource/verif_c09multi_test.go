//go:build verif

package noderesource

import (
	"context"
	"fmt"
	"math"
	"strconv"
	"strings"
	"testing"
	"time"

	corev1 "k8s.io/api/core/v1"
	metav1 "k8s.io/apimachinery/pkg/apis/meta/v1"
	"k8s.io/apimachinery/pkg/runtime"
	"k8s.io/apimachinery/pkg/types"
	clientgoscheme "k8s.io/client-go/kubernetes/scheme"
	"k8s.io/client-go/tools/record"
	"k8s.io/client-go/util/workqueue"
	fakeclock "k8s.io/utils/clock/testing"
	ctrl "sigs.k8s.io/controller-runtime"
	"sigs.k8s.io/controller-runtime/pkg/builder"
	ctrlclient "sigs.k8s.io/controller-runtime/pkg/client"
	"sigs.k8s.io/controller-runtime/pkg/client/fake"
	"sigs.k8s.io/controller-runtime/pkg/event"
	"sigs.k8s.io/controller-runtime/pkg/reconcile"

	topov1alpha1 "github.com/k8stopologyawareschedwg/noderesourcetopology-api/pkg/apis/topology/v1alpha1"

	"github.com/koordinator-sh/koordinator/apis/configuration"
	"github.com/koordinator-sh/koordinator/apis/extension"
	slov1alpha1 "github.com/koordinator-sh/koordinator/apis/slo/v1alpha1"
	"github.com/koordinator-sh/koordinator/pkg/slo-controller/config"
	"github.com/koordinator-sh/koordinator/pkg/slo-controller/noderesource/framework"
	"github.com/koordinator-sh/koordinator/pkg/slo-controller/noderesource/plugins/batchresource"
	"github.com/koordinator-sh/koordinator/pkg/slo-controller/noderesource/plugins/cpunormalization"
	"github.com/koordinator-sh/koordinator/pkg/slo-controller/noderesource/plugins/midresource"
	"github.com/koordinator-sh/koordinator/pkg/util"
	"github.com/koordinator-sh/koordinator/pkg/util/sloconfig"
	"github.com/koordinator-sh/koordinator/pkg/util/testutil"
)

// C09 harness (multinode, extension 4): one case = 2-3 nodes that share ONE real colocation config cache
// (config.ColocationHandlerForConfigMapEvent fed with ConfigMap create / update events) and one real
// NodeResourceReconciler.  The slo-controller-config ConfigMap declares a cluster strategy (mostly with batch percentage
// caps) and 0-2 nodeConfigs entries (selectors on the label "pool"); nodes override the caps / thresholds by the
// node.koordinator.sh/colocation-strategy annotation, by a matching nodeConfigs entry and by the reclaim-ratio labels.
// Rounds re-declare the ConfigMap (also unparsable / invalid / empty), change one node's metadata or let time pass, then
// reconcile the nodes in a varied order (some twice).
//
// Oracle, per node and reconcile: the strategy the node SHOULD get is evaluated from scratch on the declared ConfigMap
// history and the node object by the documented layering (defaults < cluster < first matching nodeConfigs entry <
// node annotation < ratio labels; an invalid cluster strategy keeps the previous config, an invalid merged entry falls
// back to the cluster strategy); the amounts a reconcile writes obey the statement's bounds for THAT strategy; after
// every strategy computation the cache still holds what the ConfigMap declares (C09:config-cache-mutated).

const c09mNil = int64(-9999)
const c09mNF = 16

type c09mStrat [c09mNF]int64

func c09mNone() c09mStrat {
	var v c09mStrat
	for i := range v {
		v[i] = c09mNil
	}
	return v
}

func (v c09mStrat) toks() string {
	parts := make([]string, c09mNF)
	for i, x := range v {
		parts[i] = strconv.FormatInt(x, 10)
	}
	return strings.Join(parts, " ")
}

var c09mKeys = [c09mNF]string{"enable", "cpuReclaimThresholdPercent", "memoryReclaimThresholdPercent", "batchCPUThresholdPercent",
	"batchMemoryThresholdPercent", "degradeTimeMinutes", "updateTimeThresholdSeconds", "resourceDiffThreshold", "cpuCalculatePolicy",
	"memoryCalculatePolicy", "midReclaimMode", "midCPUThresholdPercent", "midMemoryThresholdPercent", "midStaticCPUReservedPercent",
	"midStaticMemoryReservedPercent", "midUnallocatedPercent"}

// jsonFields renders the set fields with the documented keys (the harness's own writer, not the repo's marshaller).
func (v c09mStrat) jsonFields() []string {
	var out []string
	for i, x := range v {
		if x == c09mNil {
			continue
		}
		var val string
		switch i {
		case 0:
			val = strconv.FormatBool(x != 0)
		case 7:
			val = strconv.FormatFloat(float64(x)/1000, 'g', -1, 64)
		case 8, 9:
			val = strconv.Quote(c09hPol[x])
		case 10:
			val = strconv.Quote([]string{"dynamic", "static"}[x])
		default:
			val = strconv.FormatInt(x, 10)
		}
		out = append(out, fmt.Sprintf("%q:%s", c09mKeys[i], val))
	}
	return out
}

// c09mOf reads the 16 fields back from a strategy object of the implementation.
func c09mOf(st *configuration.ColocationStrategy) c09mStrat {
	v := c09mNone()
	if st == nil {
		return v
	}
	if st.Enable != nil {
		v[0] = int64(vB(*st.Enable))
	}
	ip := []*int64{nil, st.CPUReclaimThresholdPercent, st.MemoryReclaimThresholdPercent, st.BatchCPUThresholdPercent, st.BatchMemoryThresholdPercent,
		st.DegradeTimeMinutes, st.UpdateTimeThresholdSeconds, nil, nil, nil, nil, st.MidCPUThresholdPercent, st.MidMemoryThresholdPercent,
		st.MidStaticCPUReservedPercent, st.MidStaticMemoryReservedPercent, st.MidUnallocatedPercent}
	for i, p := range ip {
		if p != nil {
			v[i] = *p
		}
	}
	if st.ResourceDiffThreshold != nil {
		v[7] = int64(math.Round(*st.ResourceDiffThreshold * 1000))
	}
	pol := func(p *configuration.CalculatePolicy) int64 {
		if p == nil {
			return c09mNil
		}
		for i, n := range c09hPol {
			if string(*p) == n {
				return int64(i)
			}
		}
		return 3
	}
	v[8], v[9] = pol(st.CPUCalculatePolicy), pol(st.MemoryCalculatePolicy)
	if st.MidReclaimMode != nil {
		v[10] = int64(vB(*st.MidReclaimMode == configuration.MidReclaimModeStatic))
	}
	return v
}

// ---- the oracle's own reading of the documented layering ----

var c09mDefault = c09mStrat{0, 60, 65, c09mNil, c09mNil, 15, 300, 100, 0, 0, c09mNil, 100, 100, 0, 0, 0}

func c09mOver(base, over c09mStrat) c09mStrat {
	for i, x := range over {
		if x != c09mNil {
			base[i] = x
		}
	}
	return base
}

func c09mValid(v c09mStrat) bool {
	nonneg := func(i int) bool { return v[i] == c09mNil || v[i] >= 0 }
	pos := func(i int) bool { return v[i] == c09mNil || v[i] > 0 }
	pct := func(i int) bool { return v[i] == c09mNil || (v[i] >= 0 && v[i] <= 100) }
	return nonneg(1) && nonneg(2) && nonneg(3) && nonneg(4) && pos(5) && pos(6) && pos(7) && pct(11) && pct(12) && nonneg(13) && nonneg(14) && pct(15)
}

type c09mEntry struct {
	selKind int // 0 no nodeSelector (matches nothing) 1 empty selector (matches every node) 2 matchLabels {pool: selVal}
	selVal  int
	over    c09mStrat
}

type c09mDecl struct {
	kind    int // 0 unparsable JSON 1 colocation-config key empty 2 declaration
	cluster c09mStrat
	entries []c09mEntry
}

var c09mPools = []string{"a", "b", "c"}

func (d *c09mDecl) json() string {
	switch d.kind {
	case 0:
		return `{"enable": tru`
	case 1:
		return ""
	}
	fields := d.cluster.jsonFields()
	if len(d.entries) > 0 {
		var es []string
		for i, e := range d.entries {
			ef := []string{fmt.Sprintf("%q:%q", "name", fmt.Sprintf("e%d", i))}
			switch e.selKind {
			case 1:
				ef = append(ef, `"nodeSelector":{}`)
			case 2:
				ef = append(ef, fmt.Sprintf(`"nodeSelector":{"matchLabels":{"pool":%q}}`, c09mPools[e.selVal]))
			}
			ef = append(ef, e.over.jsonFields()...)
			es = append(es, "{"+strings.Join(ef, ",")+"}")
		}
		fields = append(fields, `"nodeConfigs":[`+strings.Join(es, ",")+"]")
	}
	return "{" + strings.Join(fields, ",") + "}"
}

// what the controller's cache should hold after a sequence of ConfigMap events
type c09mCache struct {
	cluster c09mStrat
	entries []c09mEntry // over = the entry's full strategy
}

func c09mLoad(old c09mCache, d *c09mDecl) (c09mCache, bool) { // second result: error status
	switch d.kind {
	case 0:
		return old, true
	case 1:
		return c09mCache{cluster: c09mDefault}, false
	}
	cl := c09mOver(c09mDefault, d.cluster)
	if !c09mValid(cl) {
		return old, true
	}
	nc := c09mCache{cluster: cl}
	for _, e := range d.entries {
		m := c09mOver(cl, e.over)
		if !c09mValid(m) {
			m = cl
		}
		nc.entries = append(nc.entries, c09mEntry{selKind: e.selKind, selVal: e.selVal, over: m})
	}
	return nc, false
}

type c09mNode struct {
	name     string
	scn      *c09hScn // capacity, allocatable, reservation annotation, system usage, pods, metrics (the strategy fields of it are unused)
	pool     int      // -1: no pool label
	annoKind int      // 0 no strategy annotation 1 overlay 2 garbage
	anno     c09mStrat
	lblCpu   string // reclaim-ratio labels ("" = absent)
	lblMem   string
}

// c09mLabelPct: the percentage a reclaim-ratio label stands for (int64(ratio*100)), -1 = the label is ignored
func c09mLabelPct(s string) int64 {
	if s == "" {
		return -1
	}
	f, err := strconv.ParseFloat(s, 64)
	if err != nil || f < 0 {
		return -1
	}
	return int64(f * 100)
}

func c09mExpect(c c09mCache, n *c09mNode) (bool, c09mStrat) {
	st := c.cluster
	for _, e := range c.entries {
		if e.selKind == 1 || (e.selKind == 2 && n.pool == e.selVal) {
			st = e.over
			break
		}
	}
	if n.annoKind == 1 {
		st = c09mOver(st, n.anno)
	}
	if p := c09mLabelPct(n.lblCpu); p >= 0 {
		st[1] = p
	}
	if p := c09mLabelPct(n.lblMem); p >= 0 {
		st[2] = p
	}
	return c.cluster[0] == 1 && st[0] == 1, st
}

// c09mBound: the statement's upper bound for one dimension under strategy st (cf. c09hScn.cpuBound): capacity - margin -
// max(system usage + prod/mid host application, reservation) - what the pods that are high-priority BY LABEL are charged,
// capped by the batch percentage.  Memory with policy=request subtracts only the reservation (open known finding).
func c09mBound(s *c09hScn, st c09mStrat, mem bool) (int64, int64) { // bound, cap limit (-1: no cap)
	mulPct := func(v, k int64) int64 { return int64(float64(v) * (float64(k) / 100)) }
	pick := func(c, m int64) int64 {
		if mem {
			return m
		}
		return c
	}
	capv, alloc, sysU := pick(s.capC, s.capM), pick(s.allocC, s.allocM), pick(s.sysC, s.sysM)
	thr, capPct, pol := st[1], st[3], st[8]
	if mem {
		thr, capPct, pol = st[2], st[4], st[9]
	}
	reserved := capv - alloc
	if reserved < 0 {
		reserved = 0
	}
	ac, am := s.annoProj()
	if a := pick(ac, am); a > reserved {
		reserved = a
	}
	if s.hostPrio == 0 || s.hostPrio == 1 {
		sysU += pick(s.hostC, s.hostM)
	}
	base := sysU
	if reserved > base {
		base = reserved
	}
	byRequest := mem && pol == 1
	if byRequest {
		base = reserved
	}
	hp := int64(0)
	for _, p := range s.pods {
		if p.phase > 1 || (p.prioLabel != 0 && p.prioLabel != 1) {
			continue
		}
		req, use := pick(p.reqC, p.reqM), pick(p.useC, p.useM)
		c := req
		if p.hasMet && !byRequest {
			c = use
			if pol == 2 && req > c {
				c = req
			}
		}
		hp += c
	}
	if !byRequest {
		for _, d := range s.dangling {
			if d[0] == 0 || d[0] == 1 {
				hp += pick(d[1], d[2])
			}
		}
	}
	b := capv - mulPct(capv, 100-thr) - base - hp
	if b < 0 {
		b = 0
	}
	lim := int64(-1)
	if capPct != c09mNil {
		lim = mulPct(capv, capPct)
		if lim < b {
			b = lim
		}
	}
	return b, lim
}

// ---- generators ----

func c09mGenOver(r *vRand, where int) c09mStrat { // where: 0 cluster 1 nodeConfigs entry 2 node annotation
	v := c09mNone()
	capP := [][2]int{{3, 4}, {7, 10}, {7, 10}}[where]
	thrP := [][2]int{{3, 5}, {1, 3}, {1, 3}}[where]
	for _, i := range []int{3, 4} {
		if r.Chance(capP[0], capP[1]) {
			v[i] = int64([]int{0, 5, 10, 20, 30, 50, 80, 100, 150}[r.Intn(9)])
		}
	}
	for _, i := range []int{1, 2} {
		if r.Chance(thrP[0], thrP[1]) {
			v[i] = int64(r.Range(40, 110))
		}
	}
	switch where {
	case 0:
		v[0] = 1
		if r.Chance(1, 12) {
			v[0] = []int64{0, c09mNil}[r.Intn(2)]
		}
	default:
		if r.Chance(1, 8) {
			v[0] = int64(r.Intn(2))
		}
	}
	if r.Chance(1, 3) {
		v[8] = int64(r.Intn(3))
	}
	if r.Chance(1, 3) {
		v[9] = int64(r.Intn(3))
	}
	if where < 2 {
		if r.Chance(1, 2) {
			v[6] = []int64{30, 60, 300}[r.Intn(3)]
		}
		if r.Chance(1, 2) {
			v[7] = []int64{10, 50, 100, 200}[r.Intn(4)]
		}
	}
	if r.Chance(1, 3) {
		v[10] = int64(r.Intn(2))
	}
	for i := 11; i <= 15; i++ {
		if r.Chance(1, 4) {
			v[i] = int64(r.Range(0, 100))
		}
	}
	// invalid values: the cluster strategy (=> the whole ConfigMap is rejected) and entries (=> the entry falls back to the
	// cluster strategy); the node annotation is not validated by the code, invalid values are not generated there
	if where == 1 && r.Chance(1, 8) || where == 0 && r.Chance(1, 25) {
		switch r.Intn(3) {
		case 0:
			v[3] = -5
		case 1:
			v[11] = 150
		default:
			v[6] = 0
		}
	}
	return v
}

func c09mGenDecl(r *vRand, degrade int64, first bool) *c09mDecl {
	d := &c09mDecl{kind: 2}
	if !first {
		d.kind = []int{2, 2, 2, 2, 2, 2, 2, 2, 0, 1}[r.Intn(10)]
	}
	for {
		d.cluster = c09mGenOver(r, 0)
		d.cluster[5] = degrade
		if !first || (c09mValid(c09mOver(c09mDefault, d.cluster)) && d.cluster[0] == 1) {
			break // the first declaration is loadable: the cache becomes available
		}
	}
	ne := []int{0, 1, 1, 2, 2}[r.Intn(5)]
	for i := 0; i < ne; i++ {
		e := c09mEntry{selKind: []int{2, 2, 2, 2, 2, 2, 0, 1}[r.Intn(8)], selVal: r.Intn(2), over: c09mGenOver(r, 1)}
		d.entries = append(d.entries, e)
	}
	return d
}

func c09mGenMeta(r *vRand, n *c09mNode) {
	n.pool = []int{-1, 0, 0, 1, 1, 2}[r.Intn(6)]
	n.annoKind = []int{0, 0, 0, 1, 1, 1, 1, 2}[r.Intn(8)]
	n.anno = c09mGenOver(r, 2)
	n.lblCpu, n.lblMem = "", ""
	if r.Chance(1, 6) {
		n.lblCpu = []string{"0.5", "0.75", "1", "0.29", "abc", "-1"}[r.Intn(6)]
	}
	if r.Chance(1, 6) {
		n.lblMem = []string{"0.5", "0.8", "1.1", "0.57", "", "-0.5"}[r.Intn(6)]
	}
}

func (n *c09mNode) applyMeta(node *corev1.Node) {
	keep := map[string]string{}
	for k, v := range node.Annotations {
		if k != extension.AnnotationNodeColocationStrategy && k != extension.AnnotationNodeReservation {
			keep[k] = v
		}
	}
	switch n.annoKind {
	case 1:
		keep[extension.AnnotationNodeColocationStrategy] = "{" + strings.Join(n.anno.jsonFields(), ",") + "}"
	case 2:
		keep[extension.AnnotationNodeColocationStrategy] = "{not json"
	}
	if n.scn.annoC >= 0 {
		keep[extension.AnnotationNodeReservation] = n.scn.annoJSON()
	}
	node.Annotations = keep
	node.Labels = map[string]string{}
	if n.pool >= 0 {
		node.Labels["pool"] = c09mPools[n.pool]
	}
	if n.lblCpu != "" {
		node.Labels[extension.LabelCPUReclaimRatio] = n.lblCpu
	}
	if n.lblMem != "" {
		node.Labels[extension.LabelMemoryReclaimRatio] = n.lblMem
	}
}

// create writes the node, its NodeMetric and its pods (once per case).
func (n *c09mNode) create(ctx context.Context, c ctrlclient.Client) error {
	s := n.scn
	node := &corev1.Node{ObjectMeta: metav1.ObjectMeta{Name: n.name}}
	n.applyMeta(node)
	node.Status.Capacity, node.Status.Allocatable = c09hRL(s.capC, s.capM), c09hRL(s.allocC, s.allocM)
	st := node.Status
	if err := c.Create(ctx, node); err != nil {
		return err
	}
	node.Status = st
	if err := c.Status().Update(ctx, node); err != nil {
		return err
	}
	if s.metricKind != 2 {
		nm := &slov1alpha1.NodeMetric{ObjectMeta: metav1.ObjectMeta{Name: n.name}}
		if s.metricKind == 0 {
			nm.Status.UpdateTime = &metav1.Time{Time: time.Now().Add(-time.Duration(s.age) * time.Second)}
		}
		nm.Status.NodeMetric = &slov1alpha1.NodeMetricInfo{}
		nm.Status.NodeMetric.SystemUsage.ResourceList = c09hRL(s.sysC, s.sysM)
		if s.usageValid {
			nm.Status.NodeMetric.NodeUsage.ResourceList = c09hRL(s.nodeUseC, s.nodeUseM)
		}
		if s.hasReclaim {
			nm.Status.ProdReclaimableMetric = &slov1alpha1.ReclaimableMetric{Resource: slov1alpha1.ResourceMap{ResourceList: c09hRL(s.recC, s.recM)}}
		}
		for _, p := range s.pods {
			if p.hasMet {
				nm.Status.PodsMetric = append(nm.Status.PodsMetric, &slov1alpha1.PodMetricInfo{Namespace: "ns", Name: fmt.Sprintf("%s-p%d", n.name, p.key),
					Priority: extension.PriorityProd, PodUsage: slov1alpha1.ResourceMap{ResourceList: c09hRL(p.useC, p.useM)}})
			}
		}
		for i, d := range s.dangling {
			nm.Status.PodsMetric = append(nm.Status.PodsMetric, &slov1alpha1.PodMetricInfo{Namespace: "ns", Name: fmt.Sprintf("%s-p%d", n.name, 100+i),
				Priority: extension.PriorityClass(c09hPrio[d[0]]), PodUsage: slov1alpha1.ResourceMap{ResourceList: c09hRL(d[1], d[2])}})
		}
		if s.hostPrio >= 0 {
			nm.Status.HostApplicationMetric = []*slov1alpha1.HostApplicationMetricInfo{{Name: "h0", Priority: extension.PriorityClass(c09hPrio[s.hostPrio]),
				Usage: slov1alpha1.ResourceMap{ResourceList: c09hRL(s.hostC, s.hostM)}}}
		}
		mst := nm.Status
		if err := c.Create(ctx, nm); err != nil {
			return err
		}
		nm.Status = mst
		if err := c.Status().Update(ctx, nm); err != nil {
			return err
		}
	}
	phases := []corev1.PodPhase{corev1.PodRunning, corev1.PodPending, corev1.PodSucceeded}
	kubes := []corev1.PodQOSClass{corev1.PodQOSGuaranteed, corev1.PodQOSBurstable, corev1.PodQOSBestEffort}
	for _, p := range s.pods {
		pod := &corev1.Pod{ObjectMeta: metav1.ObjectMeta{Namespace: "ns", Name: fmt.Sprintf("%s-p%d", n.name, p.key), Labels: map[string]string{}}}
		if p.prioLabel >= 0 {
			pod.Labels[extension.LabelPodPriorityClass] = c09hPrio[p.prioLabel]
		}
		if p.qosLabel >= 0 {
			pod.Labels[extension.LabelPodQoS] = c09hQoS[p.qosLabel]
		}
		pod.Spec.NodeName = n.name
		pod.Spec.Containers = []corev1.Container{{Name: "c", Resources: corev1.ResourceRequirements{Requests: c09hRL(p.reqC, p.reqM)}}}
		pod.Status.Phase = phases[p.phase]
		pod.Status.QOSClass = kubes[p.kube]
		pst := pod.Status
		if err := c.Create(ctx, pod); err != nil {
			return err
		}
		pod.Status = pst
		if err := c.Status().Update(ctx, pod); err != nil {
			return err
		}
	}
	return nil
}

// emit: the op lines of one reconcile of the node (the strategy comes from `resolve`, not from a `cfg` line)
func (n *c09mNode) emit(h *vHarness, idx int, vnow int64) {
	s := n.scn
	h.Op("usenode %d", idx)
	h.Op("newround")
	anno := c09mNone()
	if n.annoKind == 1 {
		anno = n.anno
	}
	h.Op("nmeta %d %d %s %d %d", n.pool, vB(n.annoKind == 1), anno.toks(), c09mLabelPct(n.lblCpu), c09mLabelPct(n.lblMem))
	h.Op("resolve")
	ac, am := s.annoProj()
	if ac < 0 {
		ac, am = 0, 0
	}
	h.Op("node %d %d %d %d %d %d %d %d", s.capC, s.capM, s.allocC, s.allocM, ac, am, s.sysC, s.sysM)
	if s.metricKind == 0 {
		h.Op("time 1 %d %d", vnow, vnow-s.age)
	} else {
		h.Op("time 0 %d 0", vnow)
	}
	for _, p := range s.pods {
		h.Op("pod %d %d %d 0 0 %d %d %d %d 0", p.key, vB(p.phase <= 1), p.prioLabel, p.qosLabel, p.kube, p.reqC, p.reqM)
	}
	rc, rm, uc, um := int64(0), int64(0), int64(0), int64(0)
	hr, uv := false, false
	if s.metricKind != 2 {
		for _, p := range s.pods {
			if p.hasMet {
				h.Op("met %d 0 %d %d", p.key, p.useC, p.useM)
			}
		}
		for i, d := range s.dangling {
			h.Op("met %d %d %d %d", 100+i, d[0], d[1], d[2])
		}
		if s.hostPrio >= 0 {
			h.Op("host %d %d %d", s.hostPrio, s.hostC, s.hostM)
		}
		hr, uv = s.hasReclaim, s.usageValid
		if hr {
			rc, rm = s.recC, s.recM
		}
		if uv {
			uc, um = s.nodeUseC, s.nodeUseM
		}
	}
	h.Op("mmet %d %d %d %d %d %d", vB(hr), rc, rm, vB(uv), uc, um)
	h.Op("mnode 0")
	h.Op("norm 0 0")
	h.Op("rec")
}

func c09mObsCache(h *vHarness, cfg *configuration.ColocationCfg) {
	h.Obs("cache %s", c09mOf(&cfg.ColocationStrategy).toks())
	for i := range cfg.NodeConfigs {
		h.Obs("cachen %d %s", i, c09mOf(&cfg.NodeConfigs[i].ColocationStrategy).toks())
	}
}

// c09mCheckCache: the cache holds exactly what the ConfigMap history declares
func c09mCheckCache(h *vHarness, cfg *configuration.ColocationCfg, want c09mCache, when string) bool {
	got := c09mOf(&cfg.ColocationStrategy)
	if got != want.cluster {
		for i := range got {
			if got[i] != want.cluster[i] {
				h.Fail("C09:config-cache-mutated", "%s: the cached CLUSTER strategy has %s = %d, the ConfigMap declares %d (nil = %d)", when, c09mKeys[i], got[i], want.cluster[i], c09mNil)
				return false
			}
		}
	}
	if len(cfg.NodeConfigs) != len(want.entries) {
		h.Fail("C09:config-cache-mutated", "%s: the cache has %d nodeConfigs entries, the ConfigMap declares %d", when, len(cfg.NodeConfigs), len(want.entries))
		return false
	}
	for k := range want.entries {
		ge := c09mOf(&cfg.NodeConfigs[k].ColocationStrategy)
		for i := range ge {
			if ge[i] != want.entries[k].over[i] {
				h.Fail("C09:config-cache-mutated", "%s: cached nodeConfigs[%d] has %s = %d, the ConfigMap declares %d (nil = %d)", when, k, c09mKeys[i], ge[i], want.entries[k].over[i], c09mNil)
				return false
			}
		}
	}
	return true
}

func TestVerifC09MultiNode(t *testing.T) {
	h := vOpen("C09")
	if h == nil {
		t.Skip("VERIF_OUT not set")
	}
	for _, name := range []string{midresource.PluginName, batchresource.PluginName, cpunormalization.PluginName, "C09RatioStub"} {
		framework.UnregisterSetupExtender(name)
		framework.UnregisterNodePreUpdateExtender(name)
		framework.UnregisterNodePrepareExtender(name)
		framework.UnregisterNodeStatusCheckExtender(name)
		framework.UnregisterNodeMetaCheckExtender(name)
		framework.UnregisterResourceCalculateExtender(name)
	}
	addPlugins(func(s string) bool {
		return s == midresource.PluginName || s == batchresource.PluginName || s == cpunormalization.PluginName
	})
	scheme := runtime.NewScheme()
	_ = clientgoscheme.AddToScheme(scheme)
	_ = slov1alpha1.AddToScheme(scheme)
	_ = topov1alpha1.AddToScheme(scheme)
	ctx := context.Background()
	names := []corev1.ResourceName{extension.BatchCPU, extension.BatchMemory, extension.MidCPU, extension.MidMemory}
	n := h.N(300, 3000)
	// thorough tier only: after the random cases an EXHAUSTIVE small-scope stream — 2 nodes, one round; cluster cap
	// {nil, 20 %} x nodeConfigs entry {none, pool a without cap, pool a cap 50 %, pool a cap -5 (invalid)} x per node
	// (pool label {none, a} x annotation {absent, threshold only, cap 80 %}) x reconcile order {AB, BA, ABA}
	nExh := h.N(0, c09mExhN)
	for idx := 0; idx < n+nExh; idx++ {
		r := h.Begin(idx)
		if r == nil {
			continue
		}
		var script *c09mScript
		if idx >= n {
			script = c09mScriptOf(idx - n)
			h.Tag("mexh:case")
		}
		c := fake.NewClientBuilder().WithScheme(scheme).
			WithStatusSubresource(&slov1alpha1.NodeMetric{}).
			WithIndex(&corev1.Pod{}, "spec.nodeName", func(obj ctrlclient.Object) []string {
				return []string{obj.(*corev1.Pod).Spec.NodeName}
			}).Build()
		opt := framework.NewOption().WithClient(c).WithScheme(scheme).WithControllerBuilder(builder.ControllerManagedBy(&testutil.FakeManager{})).
			WithRecorder(&record.FakeRecorder{})
		framework.RunSetupExtenders(opt)
		vnow := int64(1700000000)
		clk := fakeclock.NewFakeClock(time.Unix(vnow, 0))
		// the real config cache, as SetupWithManager builds it
		handler := config.NewColocationHandlerForConfigMapEvent(c, *sloconfig.NewDefaultColocationCfg(), &record.FakeRecorder{})
		rec := &NodeResourceReconciler{Client: c, cfgCache: handler, Recorder: &record.FakeRecorder{}, Scheme: scheme,
			NodeSyncContext: framework.NewSyncContext(), GPUSyncContext: framework.NewSyncContext(), Clock: clk}
		queue := workqueue.NewTypedRateLimitingQueue(workqueue.DefaultTypedControllerRateLimiter[reconcile.Request]())

		degrade := int64(r.Range(2, 20))
		if r.Chance(1, 4) {
			degrade = c09mNil // the default, 15 minutes
		}
		effDegrade := degrade
		if effDegrade == c09mNil {
			effDegrade = 15
		}
		nn := r.Range(2, 3)
		if script != nil {
			nn = 2
		}
		nodes := make([]*c09mNode, nn)
		broken := false
		for i := range nodes {
			nd := &c09mNode{name: fmt.Sprintf("n%d", i), scn: c09hGen(r)}
			nd.scn.degradeMin = effDegrade
			nd.scn.metricKind = 0
			nd.scn.age = c09hAge(r, effDegrade, r.Chance(1, 8))
			if r.Chance(1, 12) {
				nd.scn.metricKind = 1 + r.Intn(2)
			}
			c09mGenMeta(r, nd)
			if script != nil {
				nd.scn.metricKind, nd.scn.age = 0, c09hAge(r, effDegrade, false)
				nd.pool, nd.annoKind, nd.anno, nd.lblCpu, nd.lblMem = script.pool[i], script.annoKind[i], script.anno[i], "", ""
			}
			nodes[i] = nd
			if err := nd.create(ctx, c); err != nil {
				h.Fail("C09:harness", "cannot create node %d: %v", i, err)
				broken = true
			}
		}
		var cache c09mCache = c09mCache{cluster: c09mDefault}
		var cm *corev1.ConfigMap
		withdrawn := make([]bool, nn)
		for i := range withdrawn {
			withdrawn[i] = true
		}
		interesting := false
		rounds := r.Range(2, 4)
		if script != nil {
			rounds = 1
		}
		for k := 0; k < rounds && !broken; k++ {
			what := "configmap"
			if k > 0 {
				what = []string{"configmap", "configmap", "node-meta", "node-meta", "idle"}[r.Intn(5)]
				vnow += []int64{1, 61, 301, 601, 601}[r.Intn(5)]
				clk.SetTime(time.Unix(vnow, 0))
			}
			h.Tag("mround:" + what)
			switch what {
			case "configmap":
				d := c09mGenDecl(r, degrade, k == 0)
				if script != nil {
					d = script.decl(degrade)
				}
				h.Tag(fmt.Sprintf("mdecl:kind=%d,entries=%d", d.kind, len(d.entries)))
				if d.kind == 2 {
					h.Op("ccfg %s", d.cluster.toks())
					for _, e := range d.entries {
						h.Op("ncfg %d %d %s", e.selKind, e.selVal, e.over.toks())
					}
				}
				h.Op("cmload %d", d.kind)
				data := map[string]string{configuration.CPUNormalizationConfigKey: c09hNormCfg, configuration.ColocationConfigKey: d.json()}
				if cm == nil {
					cm = &corev1.ConfigMap{ObjectMeta: metav1.ObjectMeta{Namespace: sloconfig.ConfigNameSpace, Name: sloconfig.SLOCtrlConfigMap}, Data: data}
					if err := c.Create(ctx, cm); err != nil {
						t.Fatalf("config map: %v", err)
					}
					handler.Create(ctx, event.TypedCreateEvent[ctrlclient.Object]{Object: cm.DeepCopy()}, queue)
				} else {
					old := cm.DeepCopy()
					cm.Data = data
					if err := c.Update(ctx, cm); err != nil {
						t.Fatalf("config map update: %v", err)
					}
					handler.Update(ctx, event.TypedUpdateEvent[ctrlclient.Object]{ObjectOld: old, ObjectNew: cm.DeepCopy()}, queue)
				}
				for queue.Len() > 0 { // the requests the handler enqueued; the harness reconciles in its own order
					it, _ := queue.Get()
					queue.Done(it)
					queue.Forget(it)
				}
				var errStatus bool
				cache, errStatus = c09mLoad(cache, d)
				h.Obs("cfgerr %d", vB(handler.IsErrorStatus()))
				got := handler.GetCfgCopy()
				c09mObsCache(h, got)
				if handler.IsErrorStatus() != errStatus {
					h.Tag("mdecl:error-status-differs")
				}
				if !c09mValid(cache.cluster) {
					h.Fail("C09:harness", "oracle cache invalid")
				}
				c09mCheckCache(h, got, cache, fmt.Sprintf("round %d, after the ConfigMap event (kind %d)", k, d.kind))
			case "node-meta":
				i := r.Intn(nn)
				c09mGenMeta(r, nodes[i])
				node := &corev1.Node{}
				if err := c.Get(ctx, types.NamespacedName{Name: nodes[i].name}, node); err != nil {
					h.Fail("C09:harness", "get node: %v", err)
					broken = true
					break
				}
				nodes[i].applyMeta(node)
				if err := c.Update(ctx, node); err != nil {
					h.Fail("C09:harness", "update node: %v", err)
					broken = true
				}
			}
			if broken {
				break
			}
			// reconcile order: a permutation, sometimes one node twice, sometimes one node left out
			order := r.Perm(nn)
			switch r.Intn(4) {
			case 0:
				order = append(order, order[r.Intn(nn)])
			case 1:
				if k > 0 {
					order = order[:nn-1]
				}
			}
			if script != nil {
				order = script.order
			}
			for _, i := range order {
				nd := nodes[i]
				s := nd.scn
				nd.emit(h, i, vnow)
				enabled, want := c09mExpect(cache, nd)
				node := &corev1.Node{}
				if err := c.Get(ctx, types.NamespacedName{Name: nd.name}, node); err != nil {
					h.Obs("node-lost")
					broken = true
					break
				}
				// observation of `resolve`: what the reconciler's own helpers compute for this node right now
				var gotSt *configuration.ColocationStrategy
				var disabled bool
				if h.Guard(func() {
					gotSt = sloconfig.GetNodeColocationStrategy(handler.GetCfgCopy(), node)
					disabled = rec.isColocationCfgDisabled(node)
				}) {
					h.Obs("panic")
					broken = true
					break
				}
				got := c09mOf(gotSt)
				h.Obs("strat %d %s", vB(!disabled), got.toks())
				// oracle: the fields the statement depends on are the ones the documented layering gives this node
				for _, f := range []int{0, 1, 2, 3, 4, 5, 8, 9} {
					if got[f] != want[f] || disabled == enabled {
						h.Fail("C09:node-strategy-not-as-declared", "round %d node %s: strategy field %s = %d (enabled %v), the ConfigMap + node metadata declare %d (enabled %v); pool %d annotation kind %d",
							k, nd.name, c09mKeys[f], got[f], !disabled, want[f], enabled, nd.pool, nd.annoKind)
						break
					}
				}
				c09mCheckCache(h, handler.GetCfgCopy(), cache, fmt.Sprintf("round %d, after computing node %s's strategy", k, nd.name))
				var err error
				rvBefore := node.ResourceVersion
				if h.Guard(func() { _, err = rec.Reconcile(ctx, ctrl.Request{NamespacedName: types.NamespacedName{Name: nd.name}}) }) {
					h.Obs("panic")
					broken = true
					break
				}
				if err != nil {
					h.Obs("error")
					broken = true
					break
				}
				if err := c.Get(ctx, types.NamespacedName{Name: nd.name}, node); err != nil {
					h.Obs("node-lost")
					broken = true
					break
				}
				var pub [4]int64
				for j, name := range names {
					pub[j] = -1
					if a, ok := node.Status.Allocatable[name]; ok {
						pub[j] = a.Value()
						if pub[j] < 0 {
							h.Fail("C09:negative", "round %d node %s carries %s = %d", k, nd.name, name, pub[j])
						}
					}
				}
				// written by THIS reconcile (a node can be reconciled twice at the same instant): the sync context carries `now`
				// and the object changed
				synced := false
				if ts, ok := rec.NodeSyncContext.Load(util.GenerateNodeKey(&node.ObjectMeta)); ok && ts.Unix() == vnow && node.ResourceVersion != rvBefore {
					synced = true
				}
				h.Obs("node %d %d %d %d", pub[0], pub[1], pub[2], pub[3])
				h.Obs("sync %d", vB(synced))
				rk, rp := c09hRatioTok(node.Annotations)
				h.Obs("ratio %d %d", rk, rp)
				if origin, e := slov1alpha1.GetOriginExtendedAllocatable(node.Annotations); e != nil || origin == nil {
					h.Obs("originanno none")
				} else {
					oc, om := origin.Resources[extension.BatchCPU], origin.Resources[extension.BatchMemory]
					h.Obs("originanno %d %d", oc.Value(), om.Value())
				}
				stale := !enabled || s.metricKind != 0 || s.age > effDegrade*60
				none := pub[0] < 0 && pub[1] < 0 && pub[2] < 0 && pub[3] < 0
				if stale {
					h.Obs("zonesclear 1") // no NodeResourceTopology objects in this harness
					if !none {
						h.Fail("C09:stale-published", "round %d node %s: metric stale/missing or colocation disabled for this node (cluster %d, node strategy %d) but the node carries (%d,%d,%d,%d)",
							k, nd.name, cache.cluster[0], want[0], pub[0], pub[1], pub[2], pub[3])
					}
				} else if withdrawn[i] && (pub[0] < 0 || pub[1] < 0 || pub[2] < 0 || pub[3] < 0) {
					h.Fail("C09:not-recovered", "round %d node %s: fresh metrics and colocation enabled for this node but it carries (%d,%d,%d,%d)", k, nd.name, pub[0], pub[1], pub[2], pub[3])
				}
				withdrawn[i] = none
				// the statement's bounds under the strategy this node should get, on the amounts this reconcile wrote
				if synced && !stale && pub[0] >= 0 && pub[1] >= 0 {
					for dim, mem := range []bool{false, true} {
						b, lim := c09mBound(s, want, mem)
						if lim >= 0 && pub[dim] > lim {
							h.Fail("C09:node-above-declared-cap", "round %d node %s: %s = %d exceeds %d = the %d %% cap this node's declared strategy gives (cluster cap %d, pool %d, annotation kind %d)",
								k, nd.name, names[dim], pub[dim], lim, want[3+dim], cache.cluster[3+dim], nd.pool, nd.annoKind)
						} else if pub[dim] > b {
							h.Fail("C09:node-above-declared-bound", "round %d node %s: %s = %d exceeds the bound %d of the strategy this node should get (threshold %d, policy %d, cap %d)",
								k, nd.name, names[dim], pub[dim], b, want[1+dim], want[8+dim], want[3+dim])
						}
					}
					h.Tag(fmt.Sprintf("mnode:capped=%v/%v", want[3] != c09mNil, want[4] != c09mNil))
				}
				h.Op("cacheq")
				after := handler.GetCfgCopy()
				c09mObsCache(h, after)
				c09mCheckCache(h, after, cache, fmt.Sprintf("round %d, after the reconcile of node %s", k, nd.name))
				// distribution
				layer := "cluster"
				for _, e := range cache.entries {
					if e.selKind == 1 || (e.selKind == 2 && nd.pool == e.selVal) {
						layer = "entry"
						break
					}
				}
				if nd.annoKind == 1 {
					layer += "+anno"
				}
				if nd.lblCpu != "" || nd.lblMem != "" {
					layer += "+label"
				}
				h.Tag("mnode:layers=" + layer)
				switch {
				case stale:
					h.Tag("mnode-out:withdrawn")
				case synced:
					h.Tag("mnode-out:written")
				default:
					h.Tag("mnode-out:tolerated")
				}
				if want[3] != cache.cluster[3] || want[4] != cache.cluster[4] {
					h.Tag("mnode:cap-overridden")
					if cache.cluster[3] != c09mNil || cache.cluster[4] != c09mNil {
						interesting = true
					}
				}
			}
		}
		if interesting {
			h.Nontrivial()
		}
		queue.ShutDown()
		h.End()
	}
	h.Close("2-3 nodes sharing one real colocation config cache (ConfigMap create / update events through ColocationHandlerForConfigMapEvent) and one real NodeResourceReconciler " +
		"(mid, batch, cpunormalization plugins): the ConfigMap declares a cluster strategy (caps set in 3 of 4, thresholds, policies, interval, diff threshold, mid fields; rarely invalid, " +
		"unparsable or an empty key) and 0-2 nodeConfigs entries (pool selectors, nil / empty selector, overlays incl. invalid ones); nodes carry a pool label, a strategy annotation " +
		"(overlay / garbage / absent) and reclaim-ratio labels; 2-4 rounds re-declare the ConfigMap, change one node's metadata or idle, then reconcile the nodes in a random order " +
		"(one twice / one left out); non-trivial = some node's declared cap differs from a set cluster cap; distinct by op lines")
}

// ---- exhaustive small-scope stream (thorough tier) ----

const c09mExhN = 2 * 4 * 6 * 6 * 3

type c09mScript struct {
	clusterCap int // 0 nil 1 20 %
	entry      int // 0 none 1 pool a, threshold only 2 pool a, cap 50 % 3 pool a, cap -5 (invalid => falls back to the cluster strategy)
	pool       [2]int
	annoKind   [2]int
	anno       [2]c09mStrat
	order      []int
}

func c09mScriptOf(e int) *c09mScript {
	sc := &c09mScript{}
	sc.clusterCap, e = e%2, e/2
	sc.entry, e = e%4, e/4
	for i := 0; i < 2; i++ {
		sc.pool[i], e = e%2-1, e/2
		a := e % 3
		e /= 3
		sc.anno[i] = c09mNone()
		switch a {
		case 1:
			sc.annoKind[i] = 1
			sc.anno[i][1], sc.anno[i][2] = 80, 80
		case 2:
			sc.annoKind[i] = 1
			sc.anno[i][3], sc.anno[i][4] = 80, 80
		}
	}
	sc.order = [][]int{{0, 1}, {1, 0}, {0, 1, 0}}[e%3]
	return sc
}

func (sc *c09mScript) decl(degrade int64) *c09mDecl {
	d := &c09mDecl{kind: 2, cluster: c09mNone()}
	d.cluster[0], d.cluster[5], d.cluster[6] = 1, degrade, 30
	if sc.clusterCap == 1 {
		d.cluster[3], d.cluster[4] = 20, 20
	}
	if sc.entry > 0 {
		e := c09mEntry{selKind: 2, selVal: 0, over: c09mNone()}
		switch sc.entry {
		case 1:
			e.over[1], e.over[2] = 70, 70
		case 2:
			e.over[3], e.over[4] = 50, 50
		default:
			e.over[3], e.over[4] = -5, 50
		}
		d.entries = append(d.entries, e)
	}
	return d
}
