//go:build verif

package noderesource

import (
	"context"
	"encoding/json"
	"fmt"
	"math"
	"strconv"
	"testing"
	"time"

	topov1alpha1 "github.com/k8stopologyawareschedwg/noderesourcetopology-api/pkg/apis/topology/v1alpha1"
	corev1 "k8s.io/api/core/v1"
	"k8s.io/apimachinery/pkg/api/resource"
	metav1 "k8s.io/apimachinery/pkg/apis/meta/v1"
	"k8s.io/apimachinery/pkg/runtime"
	"k8s.io/apimachinery/pkg/types"
	clientgoscheme "k8s.io/client-go/kubernetes/scheme"
	"k8s.io/client-go/tools/record"
	fakeclock "k8s.io/utils/clock/testing"
	ctrl "sigs.k8s.io/controller-runtime"
	"sigs.k8s.io/controller-runtime/pkg/builder"
	ctrlclient "sigs.k8s.io/controller-runtime/pkg/client"
	"sigs.k8s.io/controller-runtime/pkg/client/fake"

	"github.com/koordinator-sh/koordinator/apis/configuration"
	"github.com/koordinator-sh/koordinator/apis/extension"
	slov1alpha1 "github.com/koordinator-sh/koordinator/apis/slo/v1alpha1"
	"github.com/koordinator-sh/koordinator/pkg/slo-controller/noderesource/framework"
	"github.com/koordinator-sh/koordinator/pkg/slo-controller/noderesource/plugins/batchresource"
	"github.com/koordinator-sh/koordinator/pkg/slo-controller/noderesource/plugins/cpunormalization"
	"github.com/koordinator-sh/koordinator/pkg/slo-controller/noderesource/plugins/midresource"
	"github.com/koordinator-sh/koordinator/pkg/util"
	"github.com/koordinator-sh/koordinator/pkg/util/sloconfig"
	"github.com/koordinator-sh/koordinator/pkg/util/testutil"
)

// C09 harness (history): one case = one node with its NodeMetric, pods and colocation config in a fake client and a
// sequence of rounds; every round changes something (metric update incl. stale / deleted NodeMetric, pod add / remove /
// change, strategy change incl. disabling, node update), advances the reconciler's clock and runs the REAL
// NodeResourceReconciler.Reconcile with the REAL mid + batch plugins registered in the framework.  Observed after each
// round: the four extended resources on the stored Node object and whether the node was written.
//
// The degrade checks of the plugins read the wall clock (midresource's clock variable is not reachable from this
// package), so NodeMetric.UpdateTime is set to wall-now − age with every age at least 30 s away from the degrade limit;
// the second-exact boundary is covered by the batch / midplugin harnesses.  The reconciler's own clock (sync interval)
// is a fake clock driven by the history.

type c09hCfg struct{ cfg configuration.ColocationCfg }

func (f *c09hCfg) GetCfgCopy() *configuration.ColocationCfg { return f.cfg.DeepCopy() }
func (f *c09hCfg) IsCfgAvailable() bool                     { return true }
func (f *c09hCfg) IsErrorStatus() bool                      { return false }

type c09hPod struct {
	key       int
	phase     int // 0 Running 1 Pending 2 Succeeded
	prioLabel int // -1 absent, 0 prod 1 mid 2 batch 3 free
	qosLabel  int // -1 absent, 0 LSE 1 LSR 2 LS 3 BE
	kube      int
	reqC      int64
	reqM      int64
	hasMet    bool
	useC      int64
	useM      int64
}

type c09hScn struct {
	enabled        bool
	cpuThr, memThr int64
	cpuPol, memPol int // 0 usage 1 request 2 maxUsageRequest 3 nil
	cpuCap, memCap int64
	degradeMin     int64
	interval       int64
	diffPermille   int64
	midStatic      bool
	midPct         [5]int64 // -1 nil
	capC, capM     int64
	allocC, allocM int64
	annoC, annoM   int64 // -1: no reservation annotation
	annoCPUs       int   // > 0: the annotation also carries reservedCPUs "0-(k-1)", which replaces the cpu amount by k cores
	annoPolicy     int   // applyPolicy of the annotation: 0 absent 1 "" 2 Default 3 ReservedCPUsOnly 4 unknown string
	sysC, sysM     int64
	metricKind     int // 0 present, 1 no update time, 2 NodeMetric object absent
	age            int64
	pods           []c09hPod
	dangling       [][3]int64 // prio(0..3), cpu, mem
	hostPrio       int        // -1 none
	hostC, hostM   int64
	hasReclaim     bool
	recC, recM     int64
	usageValid     bool
	nodeUseC       int64
	nodeUseM       int64
	// cpu normalization (extension 3): where the NodeResource's ratio annotation comes from
	normKind  int // 0 node label disables it ("1.00"), 1 NRT cpu-basic-info looked up in the config's ratio model, 2 no basic info (no annotation), 3 stub plugin writes normStub
	normModel int // index into c09hModels
	normHT    bool
	normTurbo bool
	normStub  string // "abc", "", "0.80"
	annoEvent int    // one-shot, this round only: 1 somebody wipes the controller-owned node annotations, 2 writes junk into the ratio annotation
	zoned     bool   // the NodeResourceTopology object (when there is one) reports two NUMA zones with cpu + memory
}

// the cpu-normalization config of every case (slo-controller-config ConfigMap) and the ratio (in percent) it yields per
// (model, hyper-thread, turbo); -1 = no ratio => the plugin's Calculate fails => no annotation in the NodeResource.
var c09hModels = []string{"m1", "m2", "m3"}

const c09hNormCfg = `{"enable":true,"ratioModel":{` +
	`"m1":{"baseRatio":1.0,"hyperThreadEnabledRatio":1.2,"turboEnabledRatio":2.0,"hyperThreadTurboEnabledRatio":1.5},` +
	`"m2":{"baseRatio":1.05,"turboEnabledRatio":3.33,"hyperThreadTurboEnabledRatio":5.0}}}`

func (s *c09hScn) normExpected() (kind int, pct int64) { // kind: 0 absent 1 unparsable 2 pct
	switch s.normKind {
	case 0:
		return 2, 100
	case 1:
		tbl := [3][2][2]int64{{{100, 200}, {120, 150}}, {{105, 333}, {-1, 500}}, {{-1, -1}, {-1, -1}}}
		v := tbl[s.normModel][vB(s.normHT)][vB(s.normTurbo)]
		if v < 0 {
			return 0, 0
		}
		return 2, v
	case 2:
		return 0, 0
	default:
		if s.normStub == "0.80" {
			return 2, 80
		}
		return 1, 0
	}
}

// c09hRatioStub stands for any other producer of the NodeResource's ratio annotation (an out-of-tree plugin, a later
// version of the cpunormalization plugin): it runs last in the calculate chain and overrides the annotation verbatim.
type c09hRatioStub struct{}

var c09hStubValue *string

func (*c09hRatioStub) Name() string { return "C09RatioStub" }
func (*c09hRatioStub) Reset(*corev1.Node, string) []framework.ResourceItem {
	return nil
}
func (*c09hRatioStub) Calculate(*configuration.ColocationStrategy, *corev1.Node, *corev1.PodList, *framework.ResourceMetrics) ([]framework.ResourceItem, error) {
	if c09hStubValue == nil {
		return nil, nil
	}
	return []framework.ResourceItem{{Name: "C09RatioStub", Annotations: map[string]string{extension.AnnotationCPUNormalizationRatio: *c09hStubValue}}}, nil
}

func c09hRatioTok(anno map[string]string) (int, int64) {
	v, ok := anno[extension.AnnotationCPUNormalizationRatio]
	if !ok {
		return 0, 0
	}
	f, err := strconv.ParseFloat(v, 64)
	if err != nil || math.IsNaN(f) || math.IsInf(f, 0) {
		return 1, 0
	}
	return 2, int64(math.Round(f * 100))
}

// annoProj: the reservation the annotation declares, by the harness's own reading: reservedCPUs (k cores) replaces the cpu
// amount of `resources`; applyPolicy only tells the SCHEDULER whether to trim allocatable — the batch / mid formulas
// subtract the declared amounts under every policy.
func (s *c09hScn) annoProj() (int64, int64) {
	if s.annoC < 0 {
		return -1, -1
	}
	if s.annoCPUs > 0 {
		return int64(s.annoCPUs) * 1000, s.annoM
	}
	return s.annoC, s.annoM
}

var c09hApplyPolicies = []string{"", "", "Default", "ReservedCPUsOnly", "SomethingElse"}

func (s *c09hScn) annoJSON() string {
	nr := extension.NodeReservation{Resources: c09hRL(s.annoC, s.annoM)}
	if s.annoCPUs > 0 {
		nr.ReservedCPUs = fmt.Sprintf("0-%d", s.annoCPUs-1)
	}
	b, _ := json.Marshal(nr)
	js := string(b)
	if s.annoPolicy > 0 {
		js = js[:len(js)-1] + fmt.Sprintf(",%q:%q}", "applyPolicy", c09hApplyPolicies[s.annoPolicy])
	}
	return js
}

func c09hGenAnno(r *vRand, s *c09hScn, hi int64) {
	s.annoC, s.annoM = r.Int63n(hi/8+1), r.Int63n(hi/8+1)
	s.annoCPUs = 0
	if hi >= 8000 && r.Chance(1, 2) { // small nodes (capacity <= 1 core): whole cores would reserve everything
		s.annoCPUs = 1 + r.Intn(int(hi/8000)+1)
	}
	s.annoPolicy = []int{0, 0, 1, 2, 3, 3, 3, 4}[r.Intn(8)]
}

// cpuBound: an upper bound on the documented batch-cpu formula, evaluated from scratch on the scenario: capacity − margin −
// max(system usage + prod/mid host application, reservation) − what the pods that are high-priority BY LABEL are charged
// (a lower bound of the HP consumption, so an upper bound of the amount), capped by the batch percentage.
func (s *c09hScn) cpuBound() int64 {
	mulPct := func(v, k int64) int64 { return int64(float64(v) * (float64(k) / 100)) }
	reserved := s.capC - s.allocC
	if reserved < 0 {
		reserved = 0
	}
	if ac, _ := s.annoProj(); ac > reserved {
		reserved = ac
	}
	sys := s.sysC
	if s.hostPrio == 0 || s.hostPrio == 1 {
		sys += s.hostC
	}
	if reserved > sys {
		sys = reserved
	}
	hp := int64(0)
	for _, p := range s.pods {
		if p.phase > 1 || (p.prioLabel != 0 && p.prioLabel != 1) {
			continue
		}
		c := p.reqC
		if p.hasMet {
			c = p.useC
			if s.cpuPol == 2 && p.reqC > c {
				c = p.reqC
			}
		}
		hp += c
	}
	for _, d := range s.dangling {
		if d[0] == 0 || d[0] == 1 {
			hp += d[1]
		}
	}
	b := s.capC - mulPct(s.capC, 100-s.cpuThr) - sys - hp
	if b < 0 {
		b = 0
	}
	if s.cpuCap >= 0 {
		if l := mulPct(s.capC, s.cpuCap); l < b {
			b = l
		}
	}
	return b
}

var c09hPrio = []string{string(extension.PriorityProd), string(extension.PriorityMid), string(extension.PriorityBatch), string(extension.PriorityFree)}
var c09hQoS = []string{string(extension.QoSLSE), string(extension.QoSLSR), string(extension.QoSLS), string(extension.QoSBE)}
var c09hPol = []string{string(configuration.CalculateByPodUsage), string(configuration.CalculateByPodRequest), string(configuration.CalculateByPodMaxUsageRequest)}

func c09hRL(cpu, mem int64) corev1.ResourceList {
	return corev1.ResourceList{
		corev1.ResourceCPU:    *resource.NewMilliQuantity(cpu, resource.DecimalSI),
		corev1.ResourceMemory: *resource.NewQuantity(mem, resource.BinarySI),
	}
}

func (s *c09hScn) strategy() configuration.ColocationCfg {
	en := s.enabled
	thr := float64(s.diffPermille) / 1000
	st := configuration.ColocationStrategy{
		Enable:                        &en,
		CPUReclaimThresholdPercent:    &s.cpuThr,
		MemoryReclaimThresholdPercent: &s.memThr,
		DegradeTimeMinutes:            &s.degradeMin,
		UpdateTimeThresholdSeconds:    &s.interval,
		ResourceDiffThreshold:         &thr,
	}
	if s.cpuPol != 3 {
		p := configuration.CalculatePolicy(c09hPol[s.cpuPol])
		st.CPUCalculatePolicy = &p
	}
	if s.memPol != 3 {
		p := configuration.CalculatePolicy(c09hPol[s.memPol])
		st.MemoryCalculatePolicy = &p
	}
	if s.cpuCap >= 0 {
		st.BatchCPUThresholdPercent = &s.cpuCap
	}
	if s.memCap >= 0 {
		st.BatchMemoryThresholdPercent = &s.memCap
	}
	if s.midStatic {
		m := configuration.MidReclaimModeStatic
		st.MidReclaimMode = &m
	}
	ptrs := []**int64{&st.MidCPUThresholdPercent, &st.MidMemoryThresholdPercent, &st.MidStaticCPUReservedPercent,
		&st.MidStaticMemoryReservedPercent, &st.MidUnallocatedPercent}
	for i := range ptrs {
		if s.midPct[i] >= 0 {
			v := s.midPct[i]
			*ptrs[i] = &v
		}
	}
	return configuration.ColocationCfg{ColocationStrategy: st}
}

func (s *c09hScn) emit(h *vHarness, vnow int64) {
	h.Op("newround")
	h.Op("cfg %d %d %d %d %d %d %d", s.cpuThr, s.memThr, s.cpuPol, s.memPol, s.cpuCap, s.memCap, s.degradeMin)
	ac, am := s.annoProj()
	if ac < 0 {
		ac, am = 0, 0
	}
	h.Op("node %d %d %d %d %d %d %d %d", s.capC, s.capM, s.allocC, s.allocM, ac, am, s.sysC, s.sysM)
	if s.metricKind == 0 {
		h.Op("time 1 %d %d", vnow, vnow-s.age)
	} else {
		h.Op("time 0 %d 0", vnow)
	}
	for _, p := range s.pods {
		h.Op("pod %d %d %d 0 0 %d %d %d %d 0", p.key, vB(p.phase <= 1), p.prioLabel, p.qosLabel, p.kube, p.reqC, p.reqM)
	}
	if s.metricKind != 2 {
		for _, p := range s.pods {
			if p.hasMet {
				h.Op("met %d 0 %d %d", p.key, p.useC, p.useM)
			}
		}
		for i, d := range s.dangling {
			h.Op("met %d %d %d %d", 100+i, d[0], d[1], d[2])
		}
		if s.hostPrio >= 0 {
			h.Op("host %d %d %d", s.hostPrio, s.hostC, s.hostM)
		}
	}
	h.Op("mcfg %d %d %d %d %d %d", vB(s.midStatic), s.midPct[0], s.midPct[1], s.midPct[2], s.midPct[3], s.midPct[4])
	if s.metricKind != 2 {
		rc, rm, uc, um := int64(0), int64(0), int64(0), int64(0)
		if s.hasReclaim {
			rc, rm = s.recC, s.recM
		}
		if s.usageValid {
			uc, um = s.nodeUseC, s.nodeUseM
		}
		h.Op("mmet %d %d %d %d %d %d", vB(s.hasReclaim), rc, rm, vB(s.usageValid), uc, um)
	} else {
		h.Op("mmet 0 0 0 0 0 0")
	}
	h.Op("mnode 0")
	h.Op("hcfg %d %d %d", vB(s.enabled), s.interval, s.diffPermille)
	nk, np := s.normExpected()
	h.Op("norm %d %d", nk, np)
	switch s.annoEvent {
	case 1:
		h.Op("nodewipe")
	case 2:
		h.Op("noderatio 1 0")
	}
	h.Op("rec")
}

// apply writes the scenario into the fake client the way kubelet / koordlet / users would.
func (s *c09hScn) apply(ctx context.Context, c ctrlclient.Client, first bool) error {
	node := &corev1.Node{}
	if first {
		node = &corev1.Node{ObjectMeta: metav1.ObjectMeta{Name: "n0"}}
	} else if err := c.Get(ctx, types.NamespacedName{Name: "n0"}, node); err != nil {
		return err
	}
	// annotations: the user-owned reservation is rewritten; the controller-owned ones (ratio, origin allocatable) stay
	// unless this round's event wipes them
	kept := map[string]string{}
	if s.annoEvent != 1 {
		for _, k := range []string{extension.AnnotationCPUNormalizationRatio, slov1alpha1.NodeOriginExtendedAllocatableAnnotationKey} {
			if v, ok := node.Annotations[k]; ok {
				kept[k] = v
			}
		}
	}
	if s.annoEvent == 2 {
		kept[extension.AnnotationCPUNormalizationRatio] = "xyz"
	}
	if s.annoC >= 0 {
		kept[extension.AnnotationNodeReservation] = s.annoJSON()
	}
	if len(kept) > 0 {
		node.Annotations = kept
	} else {
		node.Annotations = nil
	}
	if s.normKind == 0 {
		node.Labels = map[string]string{extension.LabelCPUNormalizationEnabled: "false"}
	} else {
		node.Labels = nil
	}
	// NodeResourceTopology: carries the cpu-basic-info annotation the cpunormalization plugin reads (no zones)
	{
		nrt := &topov1alpha1.NodeResourceTopology{}
		have := c.Get(ctx, types.NamespacedName{Name: "n0"}, nrt) == nil
		want := s.normKind == 1 || s.normModel == 0 || s.zoned // normKind != 1: object present without the annotation, or absent
		if have && !want {
			if err := c.Delete(ctx, nrt); err != nil {
				return err
			}
		}
		if want {
			if !have {
				nrt = &topov1alpha1.NodeResourceTopology{ObjectMeta: metav1.ObjectMeta{Name: "n0"}, TopologyPolicies: []string{"None"}}
			}
			if s.zoned && len(nrt.Zones) == 0 { // the zones the koordlet reports; the controller adds the batch amounts to them
				for i := 0; i < 2; i++ {
					zc, zm := *resource.NewMilliQuantity(s.capC/2, resource.DecimalSI), *resource.NewQuantity(s.capM/2, resource.BinarySI)
					nrt.Zones = append(nrt.Zones, topov1alpha1.Zone{Name: fmt.Sprintf("node-%d", i), Type: "Node", Resources: topov1alpha1.ResourceInfoList{
						{Name: "cpu", Capacity: zc, Allocatable: zc, Available: zc}, {Name: "memory", Capacity: zm, Allocatable: zm, Available: zm}}})
				}
			}
			nrt.Annotations = nil
			if s.normKind == 1 {
				b, _ := json.Marshal(extension.CPUBasicInfo{CPUModel: c09hModels[s.normModel], HyperThreadEnabled: s.normHT, TurboEnabled: s.normTurbo})
				nrt.Annotations = map[string]string{extension.AnnotationCPUBasicInfo: string(b)}
			}
			var err error
			if have {
				err = c.Update(ctx, nrt)
			} else {
				err = c.Create(ctx, nrt)
			}
			if err != nil {
				return err
			}
		}
	}
	if s.normKind == 3 {
		v := s.normStub
		c09hStubValue = &v
	} else {
		c09hStubValue = nil
	}
	setStatus := func(n *corev1.Node) {
		if n.Status.Capacity == nil {
			n.Status.Capacity = corev1.ResourceList{}
		}
		if n.Status.Allocatable == nil {
			n.Status.Allocatable = corev1.ResourceList{}
		}
		for k, v := range c09hRL(s.capC, s.capM) {
			n.Status.Capacity[k] = v
		}
		for k, v := range c09hRL(s.allocC, s.allocM) {
			n.Status.Allocatable[k] = v
		}
	}
	if first {
		setStatus(node)
		st := node.Status
		if err := c.Create(ctx, node); err != nil {
			return err
		}
		node.Status = st
		if err := c.Status().Update(ctx, node); err != nil {
			return err
		}
	} else {
		if err := c.Update(ctx, node); err != nil { // metadata
			return err
		}
		if err := c.Get(ctx, types.NamespacedName{Name: "n0"}, node); err != nil {
			return err
		}
		setStatus(node) // the kubelet keeps the extended resources it does not own
		if err := c.Status().Update(ctx, node); err != nil {
			return err
		}
	}
	// NodeMetric
	old := &slov1alpha1.NodeMetric{}
	exists := c.Get(ctx, types.NamespacedName{Name: "n0"}, old) == nil
	if s.metricKind == 2 {
		if exists {
			if err := c.Delete(ctx, old); err != nil {
				return err
			}
		}
	} else {
		nm := &slov1alpha1.NodeMetric{ObjectMeta: metav1.ObjectMeta{Name: "n0"}}
		if exists {
			nm = old
		}
		nm.Status = slov1alpha1.NodeMetricStatus{}
		if s.metricKind == 0 {
			nm.Status.UpdateTime = &metav1.Time{Time: time.Now().Add(-time.Duration(s.age) * time.Second)}
		}
		nm.Status.NodeMetric = &slov1alpha1.NodeMetricInfo{}
		nm.Status.NodeMetric.SystemUsage.ResourceList = c09hRL(s.sysC, s.sysM)
		if s.usageValid {
			nm.Status.NodeMetric.NodeUsage.ResourceList = c09hRL(s.nodeUseC, s.nodeUseM)
		}
		if s.hasReclaim {
			nm.Status.ProdReclaimableMetric = &slov1alpha1.ReclaimableMetric{Resource: slov1alpha1.ResourceMap{ResourceList: c09hRL(s.recC, s.recM)}}
		}
		for _, p := range s.pods {
			if p.hasMet {
				nm.Status.PodsMetric = append(nm.Status.PodsMetric, &slov1alpha1.PodMetricInfo{Namespace: "ns", Name: fmt.Sprintf("p%d", p.key),
					Priority: extension.PriorityProd, PodUsage: slov1alpha1.ResourceMap{ResourceList: c09hRL(p.useC, p.useM)}})
			}
		}
		for i, d := range s.dangling {
			nm.Status.PodsMetric = append(nm.Status.PodsMetric, &slov1alpha1.PodMetricInfo{Namespace: "ns", Name: fmt.Sprintf("p%d", 100+i),
				Priority: extension.PriorityClass(c09hPrio[d[0]]), PodUsage: slov1alpha1.ResourceMap{ResourceList: c09hRL(d[1], d[2])}})
		}
		if s.hostPrio >= 0 {
			nm.Status.HostApplicationMetric = []*slov1alpha1.HostApplicationMetricInfo{{Name: "h0", Priority: extension.PriorityClass(c09hPrio[s.hostPrio]),
				Usage: slov1alpha1.ResourceMap{ResourceList: c09hRL(s.hostC, s.hostM)}}}
		}
		var err error
		st := nm.Status // Create / Update of the main resource hand back the stored (old) status
		if !exists {
			err = c.Create(ctx, nm)
		}
		if err == nil {
			nm.Status = st
			err = c.Status().Update(ctx, nm)
		}
		if err != nil {
			return err
		}
	}
	// pods: delete all, re-create the current ones
	pl := &corev1.PodList{}
	if err := c.List(ctx, pl); err != nil {
		return err
	}
	for i := range pl.Items {
		if err := c.Delete(ctx, &pl.Items[i]); err != nil {
			return err
		}
	}
	phases := []corev1.PodPhase{corev1.PodRunning, corev1.PodPending, corev1.PodSucceeded}
	kubes := []corev1.PodQOSClass{corev1.PodQOSGuaranteed, corev1.PodQOSBurstable, corev1.PodQOSBestEffort}
	for _, p := range s.pods {
		pod := &corev1.Pod{ObjectMeta: metav1.ObjectMeta{Namespace: "ns", Name: fmt.Sprintf("p%d", p.key), Labels: map[string]string{}}}
		if p.prioLabel >= 0 {
			pod.Labels[extension.LabelPodPriorityClass] = c09hPrio[p.prioLabel]
		}
		if p.qosLabel >= 0 {
			pod.Labels[extension.LabelPodQoS] = c09hQoS[p.qosLabel]
		}
		pod.Spec.NodeName = "n0"
		pod.Spec.Containers = []corev1.Container{{Name: "c", Resources: corev1.ResourceRequirements{Requests: c09hRL(p.reqC, p.reqM)}}}
		pod.Status.Phase = phases[p.phase]
		pod.Status.QOSClass = kubes[p.kube]
		pst := pod.Status
		if err := c.Create(ctx, pod); err != nil {
			return err
		}
		pod.Status = pst
		if err := c.Status().Update(ctx, pod); err != nil {
			return err
		}
	}
	// a pod of another node must not be counted
	other := &corev1.Pod{ObjectMeta: metav1.ObjectMeta{Namespace: "ns", Name: "elsewhere"}}
	other.Spec.NodeName = "n1"
	other.Spec.Containers = []corev1.Container{{Name: "c", Resources: corev1.ResourceRequirements{Requests: c09hRL(s.capC, s.capM)}}}
	if err := c.Create(ctx, other); err != nil {
		return err
	}
	other.Status.Phase = corev1.PodRunning
	return c.Status().Update(ctx, other)
}

func c09hGenPod(r *vRand, key int, hi int64) c09hPod {
	p := c09hPod{key: key, prioLabel: -1, qosLabel: -1}
	p.phase = []int{0, 0, 0, 0, 1, 2}[r.Intn(6)]
	if r.Chance(1, 2) {
		p.prioLabel = []int{0, 0, 1, 2, 3}[r.Intn(5)]
	}
	if r.Chance(1, 2) {
		p.qosLabel = []int{0, 1, 2, 2, 3}[r.Intn(5)]
	}
	p.kube = r.Intn(3)
	p.reqC, p.reqM = r.Int63n(hi/5+1), r.Int63n(hi/5+1)
	p.hasMet = r.Chance(3, 4)
	p.useC, p.useM = r.Int63n(hi/4+1), r.Int63n(hi/4+1)
	if p.qosLabel == 0 && p.useC > p.reqC {
		p.useC = p.reqC // LSE: exclusive cores
	}
	return p
}

func c09hAge(r *vRand, degradeMin int64, stale bool) int64 {
	lim := degradeMin * 60
	if stale {
		return lim + 30 + r.Int63n(lim)
	}
	return r.Int63n(lim - 30)
}

func c09hGen(r *vRand) *c09hScn {
	s := &c09hScn{enabled: true}
	s.cpuThr, s.memThr = int64(r.Range(40, 100)), int64(r.Range(40, 100))
	s.cpuPol, s.memPol = r.Intn(4), r.Intn(4)
	s.cpuCap, s.memCap = -1, -1
	if r.Chance(1, 4) {
		s.cpuCap = int64(r.Range(0, 100))
	}
	if r.Chance(1, 4) {
		s.memCap = int64(r.Range(0, 100))
	}
	s.degradeMin = int64(r.Range(2, 20))
	s.interval = []int64{60, 300, 300, 30}[r.Intn(4)]
	s.diffPermille = []int64{100, 100, 50, 200, 10}[r.Intn(5)]
	s.midStatic = r.Chance(1, 3)
	for i := range s.midPct {
		switch r.Intn(4) {
		case 0:
			s.midPct[i] = -1
		default:
			s.midPct[i] = int64(r.Range(0, 100))
		}
	}
	hi := int64(1000)
	if r.Chance(1, 3) {
		hi = 100000
	}
	s.capC, s.capM = hi/2+r.Int63n(hi/2+1), hi/2+r.Int63n(hi/2+1)
	s.allocC, s.allocM = s.capC-r.Int63n(s.capC/8+1), s.capM-r.Int63n(s.capM/8+1)
	s.annoC, s.annoM = -1, -1
	if r.Chance(1, 3) {
		c09hGenAnno(r, s, hi)
	}
	s.sysC, s.sysM = r.Int63n(hi/8+1), r.Int63n(hi/8+1)
	s.age = c09hAge(r, s.degradeMin, false)
	np := r.Range(0, 4)
	for i := 0; i < np; i++ {
		s.pods = append(s.pods, c09hGenPod(r, i+1, hi))
	}
	if r.Chance(1, 4) {
		s.dangling = append(s.dangling, [3]int64{int64(r.Intn(4)), r.Int63n(hi/8 + 1), r.Int63n(hi/8 + 1)})
	}
	s.hostPrio = -1
	if r.Chance(1, 4) {
		s.hostPrio, s.hostC, s.hostM = r.Intn(4), r.Int63n(hi/10+1), r.Int63n(hi/10+1)
	}
	s.hasReclaim = r.Chance(4, 5)
	s.recC, s.recM = r.Int63n(hi/2+1), r.Int63n(hi/2+1)
	s.usageValid = r.Chance(5, 6)
	s.nodeUseC, s.nodeUseM = r.Int63n(hi+1), r.Int63n(hi+1)
	c09hGenNorm(r, s)
	s.zoned = r.Chance(1, 3)
	return s
}

func c09hGenNorm(r *vRand, s *c09hScn) {
	s.normKind = []int{0, 1, 1, 1, 1, 2, 2, 3}[r.Intn(8)]
	s.normModel = []int{0, 0, 0, 1, 1, 2}[r.Intn(6)]
	s.normHT, s.normTurbo = r.Bool(), r.Bool()
	s.normStub = []string{"abc", "", "0.80"}[r.Intn(3)]
}

// c09hZoneBatch: the largest batch-cpu / batch-memory amount any zone of the stored NodeResourceTopology carries (-1: none).
func c09hZoneBatch(ctx context.Context, c ctrlclient.Client) (int64, int64, bool) {
	nrt := &topov1alpha1.NodeResourceTopology{}
	if err := c.Get(ctx, types.NamespacedName{Name: "n0"}, nrt); err != nil || len(nrt.Zones) == 0 {
		return -1, -1, false
	}
	zc, zm := int64(-1), int64(-1)
	for _, z := range nrt.Zones {
		for _, ri := range z.Resources {
			if ri.Name == string(extension.BatchCPU) && ri.Allocatable.Value() > zc {
				zc = ri.Allocatable.Value()
			}
			if ri.Name == string(extension.BatchMemory) && ri.Allocatable.Value() > zm {
				zm = ri.Allocatable.Value()
			}
		}
	}
	return zc, zm, true
}

// c09hMutate changes the scenario between two rounds; returns the kind of change.
func c09hMutate(r *vRand, s *c09hScn) string {
	hi := s.capC
	jitter := func(x int64, pct int64) int64 { // small relative moves exercise the diff threshold
		d := x * pct / 100
		v := x + r.Int63n(2*d+3) - d - 1
		if v < 0 {
			return 0
		}
		return v
	}
	switch r.Intn(15) {
	case 12: // the cpu-normalization inputs change (NRT basic info, node label, another annotation producer)
		c09hGenNorm(r, s)
		return "norm-change"
	case 13: // hyper-threading / turbo toggled on the node
		if r.Bool() {
			s.normHT = !s.normHT
		} else {
			s.normTurbo = !s.normTurbo
		}
		s.normKind = 1
		return "norm-toggle"
	case 14: // somebody else edits the node's annotations
		s.annoEvent = 1 + r.Intn(2)
		return "node-anno-event"
	case 0, 1, 2: // metric update: usages move a little or a lot
		pct := []int64{2, 5, 15, 60}[r.Intn(4)]
		s.sysC, s.sysM = jitter(s.sysC, pct), jitter(s.sysM, pct)
		for i := range s.pods {
			s.pods[i].useC, s.pods[i].useM = jitter(s.pods[i].useC, pct), jitter(s.pods[i].useM, pct)
			if s.pods[i].qosLabel == 0 && s.pods[i].useC > s.pods[i].reqC {
				s.pods[i].useC = s.pods[i].reqC
			}
			if !s.pods[i].hasMet && r.Bool() {
				s.pods[i].hasMet = true
			}
		}
		s.nodeUseC, s.nodeUseM = jitter(s.nodeUseC, pct), jitter(s.nodeUseM, pct)
		s.recC, s.recM = jitter(s.recC, pct), jitter(s.recM, pct)
		s.metricKind, s.age = 0, c09hAge(r, s.degradeMin, false)
		return "metric-update"
	case 3: // the metric goes stale
		s.metricKind, s.age = 0, c09hAge(r, s.degradeMin, true)
		return "metric-stale"
	case 4:
		s.metricKind = 1 + r.Intn(2)
		return "metric-missing"
	case 5: // pod add
		k := 1
		for _, p := range s.pods {
			if p.key >= k {
				k = p.key + 1
			}
		}
		s.pods = append(s.pods, c09hGenPod(r, k, hi))
		return "pod-add"
	case 6:
		if len(s.pods) > 0 {
			i := r.Intn(len(s.pods))
			s.pods = append(s.pods[:i:i], s.pods[i+1:]...)
			return "pod-remove"
		}
		return c09hMutate(r, s)
	case 7:
		if len(s.pods) > 0 {
			p := &s.pods[r.Intn(len(s.pods))]
			switch r.Intn(3) {
			case 0:
				p.phase = []int{0, 1, 2}[r.Intn(3)]
			case 1:
				p.prioLabel = []int{-1, 0, 1, 2, 3}[r.Intn(5)]
			default:
				p.reqC, p.reqM = jitter(p.reqC, 30), jitter(p.reqM, 30)
			}
			return "pod-change"
		}
		return c09hMutate(r, s)
	case 8: // strategy change
		switch r.Intn(6) {
		case 0:
			s.cpuThr, s.memThr = int64(r.Range(40, 100)), int64(r.Range(40, 100))
		case 1:
			s.cpuPol, s.memPol = r.Intn(4), r.Intn(4)
		case 2:
			s.diffPermille = []int64{100, 50, 200, 10, 500}[r.Intn(5)]
		case 3:
			s.interval = []int64{60, 300, 30, 600}[r.Intn(4)]
		case 4:
			s.midStatic = !s.midStatic
		default:
			s.cpuCap, s.memCap = int64(r.Range(-1, 100)), int64(r.Range(-1, 100))
		}
		return "strategy-change"
	case 9:
		s.enabled = !s.enabled
		return "strategy-toggle"
	case 10: // node update
		s.allocC, s.allocM = s.capC-r.Int63n(s.capC/8+1), s.capM-r.Int63n(s.capM/8+1)
		if r.Bool() {
			c09hGenAnno(r, s, hi)
		} else {
			s.annoC, s.annoM = -1, -1
		}
		return "node-update"
	default: // nothing changes: only time passes
		return "idle"
	}
}

func TestVerifC09History(t *testing.T) {
	h := vOpen("C09")
	if h == nil {
		t.Skip("VERIF_OUT not set")
	}
	// the package's own test init() has registered mid + batch already; re-register everything so that the chains run in
	// PRODUCTION order (plugins_profile.go: cpunormalization first — its Prepare creates the node's annotation map that
	// batchresource's Prepare writes the origin annotation into)
	for _, name := range []string{midresource.PluginName, batchresource.PluginName, cpunormalization.PluginName, "C09RatioStub"} {
		framework.UnregisterSetupExtender(name)
		framework.UnregisterNodePreUpdateExtender(name)
		framework.UnregisterNodePrepareExtender(name)
		framework.UnregisterNodeStatusCheckExtender(name)
		framework.UnregisterNodeMetaCheckExtender(name)
		framework.UnregisterResourceCalculateExtender(name)
	}
	addPlugins(func(s string) bool {
		return s == midresource.PluginName || s == batchresource.PluginName || s == cpunormalization.PluginName
	})
	framework.RegisterResourceCalculateExtender(func(string) bool { return true }, &c09hRatioStub{}) // last in the chain
	scheme := runtime.NewScheme()
	_ = clientgoscheme.AddToScheme(scheme)
	_ = slov1alpha1.AddToScheme(scheme)
	_ = topov1alpha1.AddToScheme(scheme)
	ctx := context.Background()
	names := []corev1.ResourceName{extension.BatchCPU, extension.BatchMemory, extension.MidCPU, extension.MidMemory}
	n := h.N(250, 1500)
	loggedNil := false
	for idx := 0; idx < n; idx++ {
		r := h.Begin(idx)
		if r == nil {
			continue
		}
		c := fake.NewClientBuilder().WithScheme(scheme).
			WithStatusSubresource(&slov1alpha1.NodeMetric{}).
			WithIndex(&corev1.Pod{}, "spec.nodeName", func(obj ctrlclient.Object) []string {
				return []string{obj.(*corev1.Pod).Spec.NodeName}
			}).Build()
		if err := c.Create(ctx, &corev1.ConfigMap{ObjectMeta: metav1.ObjectMeta{Namespace: sloconfig.ConfigNameSpace, Name: sloconfig.SLOCtrlConfigMap},
			Data: map[string]string{configuration.CPUNormalizationConfigKey: c09hNormCfg}}); err != nil {
			t.Fatalf("config map: %v", err)
		}
		opt := framework.NewOption().WithClient(c).WithScheme(scheme).WithControllerBuilder(builder.ControllerManagedBy(&testutil.FakeManager{})).
			WithRecorder(&record.FakeRecorder{})
		framework.RunSetupExtenders(opt) // hands the client to the batch plugin; fresh config cache for the cpunormalization plugin
		vnow := int64(1700000000)
		clk := fakeclock.NewFakeClock(time.Unix(vnow, 0))
		s := c09hGen(r)
		cfg := &c09hCfg{}
		rec := &NodeResourceReconciler{Client: c, cfgCache: cfg, Recorder: &record.FakeRecorder{}, Scheme: scheme,
			NodeSyncContext: framework.NewSyncContext(), GPUSyncContext: framework.NewSyncContext(), Clock: clk}
		rounds := r.Range(3, 7)
		var lastSync int64 = -1
		withdrawn := true
		broken := false
		for k := 0; k < rounds && !broken; k++ {
			what := "init"
			if k > 0 {
				what = c09hMutate(r, s)
				vnow += []int64{1, 10, 60, s.interval, s.interval + 1, 2 * s.interval, 29}[r.Intn(7)]
				clk.SetTime(time.Unix(vnow, 0))
			}
			h.Tag("round:" + what)
			cfg.cfg = s.strategy()
			if err := s.apply(ctx, c, k == 0); err != nil {
				h.Obs("harness-error %d", k)
				h.Fail("C09:harness", "cannot apply the scenario: %v", err)
				broken = true
				break
			}
			s.emit(h, vnow)
			annoEvent := s.annoEvent
			s.annoEvent = 0
			h.Tag(fmt.Sprintf("norm:kind=%d", s.normKind))
			if s.annoC >= 0 {
				h.Tag(fmt.Sprintf("reservation-anno:cpus=%v,applyPolicy=%d", s.annoCPUs > 0, s.annoPolicy))
			}
			var err error
			if h.Guard(func() { _, err = rec.Reconcile(ctx, ctrl.Request{NamespacedName: types.NamespacedName{Name: "n0"}}) }) {
				h.Obs("panic")
				broken = true
				break
			}
			if err != nil {
				h.Obs("error")
				broken = true
				break
			}
			node := &corev1.Node{}
			if err := c.Get(ctx, types.NamespacedName{Name: "n0"}, node); err != nil {
				h.Obs("node-lost")
				broken = true
				break
			}
			var pub [4]int64
			for i, name := range names {
				pub[i] = -1
				a, okA := node.Status.Allocatable[name]
				cq, okC := node.Status.Capacity[name]
				if okA != okC || (okA && a.Cmp(cq) != 0) {
					h.Fail("C09:capacity-allocatable-differ", "round %d resource %s: allocatable %v(%v) capacity %v(%v)", k, name, a.Value(), okA, cq.Value(), okC)
				}
				if okA {
					pub[i] = a.Value()
					if pub[i] < 0 {
						h.Fail("C09:negative", "round %d: node carries %s = %d", k, name, pub[i])
					}
				}
			}
			synced := false
			if ts, ok := rec.NodeSyncContext.Load(util.GenerateNodeKey(&node.ObjectMeta)); ok && ts.Unix() == vnow {
				synced = true
			}
			h.Obs("node %d %d %d %d", pub[0], pub[1], pub[2], pub[3])
			h.Obs("sync %d", vB(synced))
			rk, rp := c09hRatioTok(node.Annotations)
			h.Obs("ratio %d %d", rk, rp)
			// the origin annotation (batch amounts before third-party allocations) on the API object: it travels with the meta
			// patch only.  TAG ONLY: how often it lags behind the amounts the same object carries
			if origin, e := slov1alpha1.GetOriginExtendedAllocatable(node.Annotations); e != nil || origin == nil {
				h.Obs("originanno none")
				if pub[0] >= 0 {
					h.Tag("origin-anno:absent-while-published")
				}
			} else {
				oc, om := origin.Resources[extension.BatchCPU], origin.Resources[extension.BatchMemory]
				h.Obs("originanno %d %d", oc.Value(), om.Value())
				switch {
				case pub[0] < 0:
					h.Tag("origin-anno:kept-while-withdrawn")
				case oc.Value() == pub[0] && om.Value() == pub[1]:
					h.Tag("origin-anno:equals-node")
				default:
					h.Tag("origin-anno:lags-node")
				}
			}
			// oracle (statement level, cpu normalization): a batch-cpu amount written in this round is at most the documented
			// formula times the NodeResource's ratio, rounded up — the ratio applied exactly once, and only when it is > 1.0
			nk, np := s.normExpected()
			if synced && pub[0] >= 0 {
				bound := s.cpuBound()
				lim := bound
				if nk == 2 && np > 100 {
					lim = (bound*np + 99) / 100
				}
				if pub[0] > lim {
					h.Fail("C09:node-above-ratio-bound", "round %d (%s): the node carries batch-cpu %d > bound %d (formula bound %d, cpu-normalization ratio kind %d pct %d applied once)",
						k, what, pub[0], lim, bound, nk, np)
				}
				h.Tag(fmt.Sprintf("norm:amplified=%v", nk == 2 && np > 100))
			}
			if annoEvent != 0 {
				h.Tag(fmt.Sprintf("norm:anno-event=%d", annoEvent))
			}
			if rk == nk && rp == np {
				h.Tag("norm:node-ratio=nr")
			} else {
				h.Tag("norm:node-ratio!=nr")
			}
			// oracle (statement level): stale / missing metric or disabled colocation withdraws every resource at once;
			// the first fresh round after that publishes all of them again; an unwritten node was written at most
			// `interval` seconds ago
			stale := !s.enabled || s.metricKind != 0 || s.age > s.degradeMin*60
			none := pub[0] < 0 && pub[1] < 0 && pub[2] < 0 && pub[3] < 0
			if stale && !none {
				h.Fail("C09:stale-published", "round %d (%s): metric stale/missing or colocation disabled but the node carries (%d,%d,%d,%d)", k, what, pub[0], pub[1], pub[2], pub[3])
			}
			if !stale && withdrawn && (pub[0] < 0 || pub[1] < 0 || pub[2] < 0 || pub[3] < 0) {
				h.Fail("C09:not-recovered", "round %d (%s): fresh metrics after a withdrawn state but the node carries (%d,%d,%d,%d)", k, what, pub[0], pub[1], pub[2], pub[3])
			}
			if synced {
				lastSync = vnow
			} else if lastSync < 0 || vnow-lastSync > s.interval {
				h.Fail("C09:sync-interval-exceeded", "round %d (%s): node not written although the last write is %ds old (interval %ds)", k, what, vnow-lastSync, s.interval)
			}
			// NUMA-zone amounts obey the same rule as the node-level ones: a round that withdraws the node-level batch amounts
			// (stale / missing NodeMetric, disabled colocation) leaves every zone of the NodeResourceTopology object with
			// batch-cpu / batch-memory zero or absent (repaired by 437c681; fingerprint C09:zone-stale-published)
			zc, zm, zok := c09hZoneBatch(ctx, c)
			if stale {
				clear := !zok || (zc <= 0 && zm <= 0)
				h.Obs("zonesclear %d", vB(clear))
				if !clear {
					h.Fail("C09:zone-stale-published", "round %d (%s): metric stale/missing or colocation disabled, the node carries (%d,%d,%d,%d) but a NodeResourceTopology zone still carries batch-cpu %d batch-memory %d",
						k, what, pub[0], pub[1], pub[2], pub[3], zc, zm)
				}
			}
			if zok {
				switch {
				case stale && (zc > 0 || zm > 0):
					h.Tag("nrt-zones:withdrawn-round-still-published")
				case stale:
					h.Tag("nrt-zones:withdrawn-round-zero-or-absent")
				case zc >= 0 || zm >= 0:
					h.Tag("nrt-zones:fresh-round-published")
				default:
					h.Tag("nrt-zones:fresh-round-absent")
				}
			}
			if stale {
				h.Tag("round-out:withdrawn")
			} else if synced {
				h.Tag("round-out:written")
			} else {
				h.Tag("round-out:tolerated")
			}
			if !stale && !none && k > 0 {
				h.Nontrivial()
			}
			withdrawn = none
		}
		// candidate noticed by reading, TAG ONLY: a NodeMetric with a fresh UpdateTime whose Status.NodeMetric is nil
		// (no observation is emitted: the registered verdict does not depend on it)
		if !broken && r.Chance(1, 8) {
			nm := &slov1alpha1.NodeMetric{}
			if err := c.Get(ctx, types.NamespacedName{Name: "n0"}, nm); err == nil && s.enabled {
				nm.Status.UpdateTime = &metav1.Time{Time: time.Now()}
				nm.Status.NodeMetric = nil
				if err := c.Status().Update(ctx, nm); err == nil {
					var rerr error
					panicked := func() (p bool) {
						defer func() {
							if recover() != nil {
								p = true
							}
						}()
						_, rerr = rec.Reconcile(ctx, ctrl.Request{NamespacedName: types.NamespacedName{Name: "n0"}})
						return false
					}()
					if panicked {
						h.Tag("probe-nil-nodemetric:panic")
						if !loggedNil {
							loggedNil = true
							t.Logf("C09 candidate (nil Status.NodeMetric): case %d: Reconcile panics for a NodeMetric with UpdateTime=now and Status.NodeMetric=nil", idx)
						}
					} else if rerr != nil {
						h.Tag("probe-nil-nodemetric:error")
					} else {
						h.Tag("probe-nil-nodemetric:ok")
					}
				}
			}
		}
		h.End()
	}
	h.Close("histories of 3-7 reconciles of one node through the real NodeResourceReconciler (fake client; real mid, batch and cpunormalization plugins + a stub ratio producer): rounds change the metric " +
		"(small / large moves, stale, no update time, NodeMetric deleted), pods (add / remove / phase / priority / request), the strategy (thresholds, policies, " +
		"diff threshold, sync interval, mid mode, caps, enable toggle), the node (allocatable, reservation annotation: resources / reservedCPUs x applyPolicy absent / empty / Default / ReservedCPUsOnly / unknown), the cpu-normalization inputs (real cpunormalization " +
		"plugin: node label off, NRT cpu-basic-info x ratio model giving 1.00 / 1.05 / 1.20 / 1.50 / 2.00 / 3.33 / 5.00 or no ratio, a stub producer writing an unparsable / " +
		"empty / 0.80 annotation; node annotations wiped or junk by a third party), or only let 1 s .. 2 x interval pass; " +
		"non-trivial = a later round with fresh metrics and amounts on the node; distinct by op lines")
}
