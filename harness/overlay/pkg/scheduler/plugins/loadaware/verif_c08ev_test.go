//go:build verif

package loadaware

import (
	"fmt"
	"testing"
	"time"

	metav1 "k8s.io/apimachinery/pkg/apis/meta/v1"
	clocktesting "k8s.io/utils/clock/testing"

	slov1alpha1 "github.com/koordinator-sh/koordinator/apis/slo/v1alpha1"
	"github.com/koordinator-sh/koordinator/pkg/scheduler/plugins/loadaware/estimator"
)

// C08 informer glue, exhaustive small scope (thorough tier).  One node, one pod, one NodeMetric object:
//   pod class prod / batch  x  scheduled 400 / 200 / 90 / 30 s before or 10 s after the report  x  usage reported or not
//   x  report interval of the object in force nil / 10 / 60 / 300 s
//   x  the NodeMetric event: SPEC-ONLY to each other interval (status deep-copied) | STATUS-ONLY (new report, same spec) | both
//   x  delivered through AddFunc(new) | UpdateFunc(old, new) | UpdateFunc(nil, new) | the cache method
//   x  container-status resources of the pod: none / equal / twice / half / allocatedResources x3
//   x  then: nothing | a status-only pod update | the spec shrunk in place to a tenth (status stays), then a status-only update
// After every event the usual observation + cache oracles of the `cache` harness run (from-scratch formulas on the CURRENT
// NodeMetric object and the pod SPEC, fresh cache fed the current objects, model correspondence); one Filter query at the end.
func TestVerifC08EventsExhaustive(t *testing.T) {
	h := vOpen("C08")
	if h == nil {
		t.Skip("VERIF_OUT not set")
	}
	t0 := time.Now().Truncate(time.Second)
	none := [2]int64{-1, -1}
	intervals := []int64{-1, 10, 60, 300}
	type mev struct {
		mode int // 0 both, 1 spec-only, 2 status-only
		to   int64
	}
	T := int64(c08Base)
	idx := 0
	for _, cls := range []int{1, 3} {
		for _, off := range []int64{-400, -200, -90, -30, 10} {
			for usage := 0; usage < 2; usage++ {
				for ii, i0 := range intervals {
					evs := []mev{{2, i0}, {0, intervals[(ii+1)%len(intervals)]}}
					for _, i1 := range intervals {
						if i1 != i0 {
							evs = append(evs, mev{1, i1})
						}
					}
					for _, ev := range evs {
						for via := 0; via < 4; via++ {
							for _, st := range []int{0, 1, 2, 3, 5} {
								for pev := 0; pev < 3; pev++ {
									r := h.Begin(idx)
									idx++
									if r == nil {
										continue
									}
									c := &c08Run{h: h, r: r, t0: t0, shadow: map[int]*c08NodeShadow{}, pool: map[int]c08Pod{}, nNodes: 1}
									c.cfg = c08Cfg{f: [2]int64{85, 70}, secSched: -1, secInit: -1, specIDs: map[string]int{}}
									c.args = c.cfg.args()
									c.vec = NewResourceVectorizerFromArgs(c.args)
									c.est, _ = estimator.NewEstimator(c.args, nil)
									c.pc = newPodAssignCache(c.est, c.vec, c.args)
									c.clk = clocktesting.NewFakeClock(t0)
									c.pc.clock = c.clk
									c.pl = &Plugin{args: c.args, vectorizer: c.vec, filterProfile: NewUsageThresholdsFilterProfile(c.args, c.vec), estimator: c.est, podAssignCache: c.pc}
									mh := c.pc.NodeMetricHandler()
									h.Op("cfg %d %d %d %d %d %d %d", c.cfg.f[0], c.cfg.f[1], 0, c.cfg.secSched, c.cfg.secInit, 0, 1)
									h.Tag(fmt.Sprintf("evx:metric-mode=%d:via=%d", ev.mode, via))
									h.Tag(fmt.Sprintf("evx:pod-status=%d:pod-event=%d", st, pev))
									c.setClock(T)
									bad := false
									guard := func(f func()) {
										if h.Guard(f) {
											h.Obs("panic")
											h.Fail("C08:event-panic", "a cache event handler panicked")
											bad = true
										}
									}

									// 1. the pod, bound and running
									p := c08Pod{uid: 1, key: 1, cls: cls, cf: none, cSched: -1, cInit: -1, specNode: 1, sched: c08Cond{k: 2, t: T + off},
										req: [2]int64{40000, 64 * c08MiB}}
									if st != 0 {
										p.st = c08Stat{kind: st, cls: cls, req: p.req, lim: p.lim}
									}
									obj := p.build(t0)
									c.emitShape(p, obj)
									h.Op("add %d %s", T, p.toks())
									guard(func() { c.pc.OnAdd(obj, false) })
									c.shAssign(1, p, obj, T)
									c.pool[1] = p
									c.observe()

									// 2. the NodeMetric object in force
									m0 := &c08Metric{hasUpd: true, updT: T, interval: i0, hasInfo: true, node: [2]int64{20000, 1024 * c08MiB}, sys: [2]int64{500, 64 * c08MiB}}
									if usage == 1 {
										m0.pods = []c08PM{{key: 1, prod: true, kind: 0, u: [2]int64{3000, 32 * c08MiB}}}
									}
									obj0 := m0.build(1, t0, r)
									h.Op("mvia 0 0 0")
									h.Op("metric 1 %s", m0.toks())
									guard(func() { mh.OnAdd(obj0, false) })
									c.ns(1).metric, c.ns(1).metricObj = m0, obj0
									c.observe()

									// 3. the NodeMetric event
									m1v := *m0
									m1 := &m1v
									var obj1 *slov1alpha1.NodeMetric
									switch ev.mode {
									case 1:
										m1.interval = ev.to
										obj1 = obj0.DeepCopy()
										obj1.ResourceVersion = "2"
										if ev.to >= 0 {
											iv := ev.to
											ad := int64(600)
											obj1.Spec.CollectPolicy = &slov1alpha1.NodeMetricCollectPolicy{ReportIntervalSeconds: &iv, AggregateDurationSeconds: &ad,
												NodeAggregatePolicy: &slov1alpha1.AggregatePolicy{Durations: []metav1.Duration{{Duration: 10 * time.Minute}}}}
										} else {
											obj1.Spec.CollectPolicy = nil
										}
									case 2:
										m1.updT, m1.node = T+50, [2]int64{21000, 1100 * c08MiB}
										obj1 = m1.build(1, t0, r)
										obj1.Spec = *obj0.Spec.DeepCopy()
									default:
										m1.interval, m1.updT, m1.node = ev.to, T+50, [2]int64{21000, 1100 * c08MiB}
										obj1 = m1.build(1, t0, r)
									}
									h.Op("mvia %d %d %d", []int{0, 1, 1, 2}[via], vB(via == 1), ev.mode)
									h.Op("metric 1 %s", m1.toks())
									guard(func() {
										switch via {
										case 0:
											mh.OnAdd(obj1, false)
										case 1:
											mh.OnUpdate(obj0, obj1)
										case 2:
											mh.OnUpdate(nil, obj1)
										default:
											c.pc.AddOrUpdateNodeMetric(obj1)
										}
									})
									c.ns(1).metric, c.ns(1).metricObj = m1, obj1
									c.observe()

									// 4. pod events
									update := func(np c08Pod) {
										oldObj := c.pool[1].build(t0)
										nobj := np.build(t0)
										c.emitShape(np, nobj)
										h.Op("upd 1 %d %s", T, np.toks())
										guard(func() { c.pc.OnUpdate(oldObj, nobj) })
										c.shUpdate(1, np, nobj, T)
										c.observe()
									}
									switch pev {
									case 1: // status-only
										np := p
										if st == 1 {
											np.st = c08Stat{kind: 2, cls: cls, req: p.req, lim: p.lim}
										} else {
											np.st = c08Stat{kind: 1, cls: cls, req: p.req, lim: p.lim}
										}
										update(np)
									case 2: // shrunk in place: the spec first (the status still reports the old amounts), then the status catches up
										np := p
										np.req[0] = p.req[0] / 10
										update(np)
										np2 := np
										np2.st = c08Stat{kind: 1, cls: cls, req: np.req, lim: np.lim}
										update(np2)
									}

									// 5. one Filter query on the node
									if !bad {
										q := c.genFilter()
										q.node, q.hasNode = 1, true
										c.doFilter(q)
									}
									if c.busy >= 2 {
										h.Nontrivial()
									}
									h.End()
								}
							}
						}
					}
				}
			}
		}
	}
	h.Close("exhaustive: one node, one pod (prod / batch; scheduled 400 / 200 / 90 / 30 s before or 10 s after the report; usage reported or not; container-status resources none / equal / twice / half / allocated x3), " +
		"a NodeMetric object in force (interval nil / 10 / 60 / 300 s) and one NodeMetric event (spec-only to each other interval | status-only | both) delivered through AddFunc / UpdateFunc(old,new) / UpdateFunc(nil,new) / the cache method, " +
		"then no pod event | a status-only pod update | spec shrunk in place then a status-only update; one Filter query; non-trivial = >=2 observations of the node with report and pod; distinct by op lines")
}
