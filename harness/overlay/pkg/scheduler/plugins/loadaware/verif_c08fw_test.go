//go:build verif

package loadaware

import (
	"context"
	"encoding/json"
	"fmt"
	"testing"
	"time"

	corev1 "k8s.io/api/core/v1"
	"k8s.io/apimachinery/pkg/api/resource"
	metav1 "k8s.io/apimachinery/pkg/apis/meta/v1"
	"k8s.io/apimachinery/pkg/runtime"
	"k8s.io/client-go/informers"
	kubefake "k8s.io/client-go/kubernetes/fake"
	"k8s.io/klog/v2"
	fwktype "k8s.io/kube-scheduler/framework"
	"k8s.io/kubernetes/pkg/scheduler/framework"
	"k8s.io/kubernetes/pkg/scheduler/framework/plugins/defaultbinder"
	"k8s.io/kubernetes/pkg/scheduler/framework/plugins/queuesort"
	frameworkruntime "k8s.io/kubernetes/pkg/scheduler/framework/runtime"
	schedulertesting "k8s.io/kubernetes/pkg/scheduler/testing/framework"
	clocktesting "k8s.io/utils/clock/testing"

	"github.com/koordinator-sh/koordinator/apis/extension"
	koordfake "github.com/koordinator-sh/koordinator/pkg/client/clientset/versioned/fake"
	koordinatorinformers "github.com/koordinator-sh/koordinator/pkg/client/informers/externalversions"
	"github.com/koordinator-sh/koordinator/pkg/scheduler/apis/config"
	"github.com/koordinator-sh/koordinator/pkg/scheduler/apis/config/validation"
	"github.com/koordinator-sh/koordinator/pkg/scheduler/frameworkext"
	"github.com/koordinator-sh/koordinator/pkg/scheduler/plugins/loadaware/estimator"
)

// C08 harness `framework`.  The plugin is driven AS THE SCHEDULER DRIVES IT: it is registered (PreFilter, Filter,
// Reserve) in a real k8s scheduler framework (schedulertesting.NewFramework -> frameworkruntime.NewFramework) and one
// scheduling cycle is
//     state := NewCycleState(); RunPreFilterPlugins(state, pod); per node RunFilterPluginsWithNominatedPods(state, pod, node)
//     [assume: pod.Spec.NodeName = host; RunReservePluginsReserve(state, assumed, host) [RunReservePluginsUnreserve(...)]]
// A Skip status from PreFilter makes the framework leave the plugin out of RunFilterPlugins for the whole cycle, so the
// verdict a NODE gets is a function of PreFilter's status too.  Filter is the only place where a node's
// `scheduling.koordinator.sh/usage-thresholds` annotation is merged in: the statement's Filter clause (oracle (c),
// judgeFilter) is evaluated on the FRAMEWORK's verdict for the node, with the thresholds in force read off the plugin
// args and the node annotation.  Generator: plugin-level profile absent / explicitly all-zero / partly zero / set (plus
// prod and aggregated profiles), every node with no / a valid / a malformed custom annotation, DaemonSet and normal pods
// of all classes, allocatable steered to the rounding boundary of the thresholds in force on that node.
// Model line: `fwfilter <the tokens of a filter line>` -> `fw <verdict>` (5 = PreFilter aborted the cycle).

type c08Nominator struct{}

func (c08Nominator) AddNominatedPod(klog.Logger, fwktype.PodInfo, *fwktype.NominatingInfo) {}
func (c08Nominator) DeleteNominatedPodIfExists(*corev1.Pod)                                 {}
func (c08Nominator) UpdateNominatedPod(klog.Logger, *corev1.Pod, fwktype.PodInfo)           {}
func (c08Nominator) NominatedPodsForNode(string) []fwktype.PodInfo                          { return nil }

// c08NewFramework registers the plugin under its own name at the extension points the scheduler profile enables for it.
// viaNew = false: the plugin is pl, assembled by the harness.  viaNew = true: the registered factory is the package's
// real New behind frameworkext.PluginFactoryProxy (as cmd/koord-scheduler registers it), called by the framework with
// its own handle; the plugin it returns gets the case's cache (pl.podAssignCache) and is what the cycle runs.  When New
// rejects the args (validation) the harness-assembled pl is registered instead and the error is returned.
func c08NewFramework(ctx context.Context, pl *Plugin, nodes []*corev1.Node, viaNew bool) (framework.Framework, *Plugin, error, error) {
	used := pl
	var newErr error
	factory := func(_ context.Context, _ runtime.Object, fh fwktype.Handle) (fwktype.Plugin, error) {
		pl.handle = fh
		return pl, nil
	}
	opts := []frameworkruntime.Option{
		frameworkruntime.WithSnapshotSharedLister(newTestSharedLister(nil, nodes)),
		frameworkruntime.WithPodNominator(c08Nominator{}),
	}
	if viaNew {
		koordClientSet := koordfake.NewSimpleClientset()
		extenderFactory, _ := frameworkext.NewFrameworkExtenderFactory(
			frameworkext.WithKoordinatorClientSet(koordClientSet),
			frameworkext.WithKoordinatorSharedInformerFactory(koordinatorinformers.NewSharedInformerFactory(koordClientSet, 0)))
		proxyNew := frameworkext.PluginFactoryProxy(extenderFactory, New)
		cs := kubefake.NewSimpleClientset()
		opts = append(opts, frameworkruntime.WithClientSet(cs), frameworkruntime.WithInformerFactory(informers.NewSharedInformerFactory(cs, 0)))
		factory = func(ctx context.Context, _ runtime.Object, fh fwktype.Handle) (fwktype.Plugin, error) {
			p, err := proxyNew(ctx, pl.args, fh)
			if err != nil {
				newErr = err
				pl.handle = fh
				return pl, nil
			}
			used = p.(*Plugin)
			used.podAssignCache = pl.podAssignCache
			return used, nil
		}
	}
	reg := []schedulertesting.RegisterPluginFunc{
		schedulertesting.RegisterQueueSortPlugin(queuesort.Name, queuesort.New),
		schedulertesting.RegisterBindPlugin(defaultbinder.Name, defaultbinder.New),
		schedulertesting.RegisterPluginAsExtensions(Name, factory, "PreFilter", "Filter", "Reserve"),
	}
	fw, err := schedulertesting.NewFramework(ctx, reg, "koord-scheduler", opts...)
	return fw, used, newErr, err
}

// the plugin-level part of a cycle (shared by all nodes) and the pod
type c08FwShared struct {
	class  int // 0 absent, 1 explicitly all-zero, 2 partly zero, 3 set
	args   c08Thr
	fexp   int
	hasExp bool
	expSec int64
	enable int
	daemon bool
	pod    c08Pod
}

func c08FwThrVec(r *vRand, class int) [2]int64 {
	switch class {
	case 0:
		return [2]int64{-1, -1}
	case 1:
		return r.Pick2([][2]int64{{0, 0}, {0, 0}, {0, -1}, {-1, 0}})
	case 2:
		v := int64(r.Range(1, 100))
		return r.Pick2([][2]int64{{v, 0}, {0, v}, {v, -1}, {-1, v}})
	}
	return [2]int64{int64(r.Range(1, 100)), int64(r.Range(1, 100))}
}

func (r *vRand) Pick2(xs [][2]int64) [2]int64 { return xs[r.Intn(len(xs))] }

func (c *c08Run) genFwShared(uid int) c08FwShared {
	r := c.r
	s := c08FwShared{class: []int{0, 1, 1, 2, 3, 3}[r.Intn(6)], fexp: []int{-1, 0, 1, 1, 1}[r.Intn(5)], hasExp: !r.Chance(1, 6),
		enable: []int{-1, 0, 0, 1}[r.Intn(4)], daemon: r.Chance(1, 6)}
	s.args = c08Thr{u: c08FwThrVec(r, s.class), p: [2]int64{-1, -1}, a: [2]int64{-1, -1}}
	if r.Chance(1, 4) {
		s.args.p = c08FwThrVec(r, r.Intn(4))
	}
	if r.Chance(1, 4) {
		s.args.hasAgg = true
		s.args.a = c08FwThrVec(r, r.Intn(4))
		s.args.aTyp = r.Range(0, 3)
		s.args.aDur = int(r.Pick([]int64{0, 0, 300, 900, 1800, 77}))
	}
	s.pod = c08GenPod(r, c.cfg, uid, c.nNodes, c08Base)
	s.pod.key, s.pod.term, s.pod.rsv, s.pod.specNode = uid, false, false, 0
	// expiry (validation wants > 0): every node keeps >= 2 h distance from the wall-clock dependent side of the boundary
	ages := []int64{}
	maxAge := int64(0)
	for k := 1; k <= c.nNodes; k++ {
		if m := c.ns(k).metric; m != nil && m.hasUpd {
			ages = append(ages, -m.updT)
			if -m.updT > maxAge {
				maxAge = -m.updT
			}
		}
	}
	far := maxAge + 7200 + int64(r.Range(0, 100000))
	switch r.Intn(6) {
	case 0:
		s.expSec = r.Pick([]int64{1, 60, 180})
	case 1:
		if len(ages) > 0 {
			s.expSec = ages[r.Intn(len(ages))] // boundary: elapsed >= 0 keeps it expired
		}
	case 2:
		if len(ages) > 0 {
			s.expSec = ages[r.Intn(len(ages))] - int64(r.Range(1, 5000))
		}
	default:
		s.expSec = far
	}
	if s.expSec <= 0 {
		s.expSec = far
	}
	for _, age := range ages {
		if age < s.expSec && s.expSec-age < 7200 {
			s.expSec = far
		}
	}
	return s
}

// the node-level part of a query
func (c *c08Run) genFwNode(s c08FwShared, node int) c08Filter {
	r := c.r
	q := c08Filter{node: node, hasNode: true, daemon: s.daemon, args: s.args, fexp: s.fexp, hasExp: s.hasExp, expSec: s.expSec, enable: s.enable,
		custom: c08Thr{u: [2]int64{-1, -1}, p: [2]int64{-1, -1}, a: [2]int64{-1, -1}}, raw: [2]int64{-1, -1}, pod: s.pod}
	switch r.Intn(10) {
	case 0, 1, 2, 3, 4:
		q.customKind = 1
		q.custom.u = c08FwThrVec(r, []int{0, 1, 2, 3, 3, 3}[r.Intn(6)])
		if r.Chance(1, 4) {
			q.custom.p = c08FwThrVec(r, r.Intn(4))
		}
		if r.Chance(1, 5) {
			q.custom.hasAgg = true
			q.custom.a = c08FwThrVec(r, r.Intn(4))
			q.custom.aTyp = r.Range(0, 3)
			q.custom.aDur = int(r.Pick([]int64{0, 0, 300, 900, 1800}))
		}
	case 5:
		q.customKind = 2
	}
	q.alloc = [2]int64{r.Pick([]int64{0, 1000, 2000, 4000, 8000, 16000, 32000, 64000}), r.Pick([]int64{0, 1, 4, 8, 16, 64, 256}) * 1024 * c08MiB}
	if r.Chance(1, 5) {
		q.rawKind = 1
		if r.Bool() {
			q.raw[0] = q.alloc[0] / 2
		}
		if r.Bool() {
			q.raw[1] = q.alloc[1] / 2
		}
	} else if r.Chance(1, 15) {
		q.rawKind = 2
	}
	ns := c.ns(node)
	if ns.metric != nil && r.Chance(4, 5) { // allocatable steered around the thresholds in force on THIS node
		thr, path, aTyp, aDur := q.selected()
		ep, en, ef := ns.expect(c.cfg)
		base := en
		if path == 1 {
			base = ep
		} else if path == 2 {
			if u, ok := ns.metric.aggUsage(aTyp, aDur); ok || aDur == 0 {
				if !ok {
					u = ns.metric.node
				}
				base = [2]int64{en[0] - ns.metric.node[0] + u[0], en[1] - ns.metric.node[1] + u[1]}
			} else {
				base = ef
			}
		}
		inc, _ := c08OrEstimate(c.cfg, q.pod)
		for i := 0; i < 2; i++ {
			if thr[i] <= 0 {
				continue
			}
			e := base[i] + inc[i]
			var al int64
			switch r.Intn(5) {
			case 0:
				al = 200*e/(2*thr[i]+1) + int64(r.Range(-1, 1))
			case 1:
				al = 100*e/thr[i] + int64(r.Range(-1, 1))
			case 2: // clearly over: e.g. 87 % on a node set to 50 %
				al = 100 * e / thr[i] * int64(r.Range(40, 80)) / 100
			default:
				al = 100 * e / thr[i] * int64(r.Range(60, 160)) / 100
			}
			if al < 1 {
				al = 1
			}
			if al > 1<<38 {
				al = 1 << 38
			}
			if q.rawKind == 1 && q.raw[i] >= 0 {
				q.raw[i] = al
			} else {
				q.alloc[i] = al
			}
		}
	}
	return q
}

func (c *c08Run) fwArgs(s c08FwShared) *config.LoadAwareSchedulingArgs {
	a := &config.LoadAwareSchedulingArgs{EstimatedScalingFactors: c.args.EstimatedScalingFactors, AllowCustomizeEstimation: c.args.AllowCustomizeEstimation,
		ProdUsageIncludeSys:               c.args.ProdUsageIncludeSys,
		EstimatedSecondsAfterPodScheduled: c.args.EstimatedSecondsAfterPodScheduled, EstimatedSecondsAfterInitialized: c.args.EstimatedSecondsAfterInitialized,
		UsageThresholds: c08ThrMap(s.args.u), ProdUsageThresholds: c08ThrMap(s.args.p),
		FilterExpiredNodeMetrics: c08BoolPtr(s.fexp), EnableScheduleWhenNodeMetricsExpired: c08BoolPtr(s.enable)}
	if s.hasExp {
		v := s.expSec
		a.NodeMetricExpirationSeconds = &v
	}
	if s.args.hasAgg {
		a.Aggregated = &config.LoadAwareSchedulingAggregatedArgs{UsageThresholds: c08ThrMap(s.args.a), UsageAggregationType: c08AggTypes[s.args.aTyp],
			UsageAggregatedDuration: metav1.Duration{Duration: time.Duration(s.args.aDur) * time.Second}}
	}
	return a
}

func (c *c08Run) fwNodeObj(q c08Filter) *corev1.Node {
	node := &corev1.Node{ObjectMeta: metav1.ObjectMeta{Name: c08NodeName(q.node), Annotations: map[string]string{}}}
	node.Status.Allocatable = c08RL(q.alloc)
	switch q.customKind {
	case 1:
		cu := &extension.CustomUsageThresholds{UsageThresholds: c08ThrMap(q.custom.u), ProdUsageThresholds: c08ThrMap(q.custom.p)}
		if q.custom.hasAgg {
			cu.AggregatedUsage = &extension.CustomAggregatedUsage{UsageThresholds: c08ThrMap(q.custom.a), UsageAggregationType: c08AggTypes[q.custom.aTyp]}
			if q.custom.aDur != 0 || c.r.Bool() {
				cu.AggregatedUsage.UsageAggregatedDuration = &metav1.Duration{Duration: time.Duration(q.custom.aDur) * time.Second}
			}
		}
		b, _ := json.Marshal(cu)
		node.Annotations[extension.AnnotationCustomUsageThresholds] = string(b)
	case 2:
		node.Annotations[extension.AnnotationCustomUsageThresholds] = c.r.pickS([]string{"{not json", "", "[]", "{\"usageThresholds\":{\"cpu\":\"x\"}}"})
	}
	switch q.rawKind {
	case 1:
		raw := corev1.ResourceList{}
		if q.raw[0] >= 0 {
			raw[corev1.ResourceCPU] = *resource.NewMilliQuantity(q.raw[0], resource.DecimalSI)
		}
		if q.raw[1] >= 0 {
			raw[corev1.ResourceMemory] = *resource.NewQuantity(q.raw[1], resource.BinarySI)
		}
		extension.SetNodeRawAllocatable(node, raw)
	case 2:
		node.Annotations[extension.AnnotationNodeRawAllocatable] = "{not json"
	}
	return node
}

// one scheduling cycle of pod s.pod through the framework, node parts generated
func (c *c08Run) fwCycle(t *testing.T, s c08FwShared, now int64) {
	qs := make([]c08Filter, 0, c.nNodes)
	for k := 1; k <= c.nNodes; k++ {
		qs = append(qs, c.genFwNode(s, k))
	}
	c.fwRun(t, s, qs, now)
}

// one scheduling cycle of pod s.pod through the framework over the nodes of qs (qs[i].node = i+1)
func (c *c08Run) fwRun(t *testing.T, s c08FwShared, qs []c08Filter, now int64) {
	h, r := c.h, c.r
	a := c.fwArgs(s)
	if err := validation.ValidateLoadAwareSchedulingArgs(a); err != nil {
		h.Tag("fw-args:rejected-by-validation")
	} else {
		h.Tag("fw-args:valid")
	}
	est, _ := estimator.NewEstimator(a, nil)
	pl := &Plugin{args: a, vectorizer: c.vec, filterProfile: NewUsageThresholdsFilterProfile(a, c.vec), estimator: est, podAssignCache: c.pc}
	nodes := make([]*corev1.Node, 0, c.nNodes)
	for _, q := range qs {
		nodes = append(nodes, c.fwNodeObj(q))
	}
	ctx, cancel := context.WithCancel(context.Background())
	defer cancel()
	verr := validation.ValidateLoadAwareSchedulingArgs(a)
	fw, used, newErr, err := c08NewFramework(ctx, pl, nodes, c.viaNew)
	if err != nil {
		t.Fatalf("NewFramework: %v", err)
	}
	if c.viaNew {
		switch {
		case (newErr != nil) != (verr != nil):
			t.Fatalf("New: %v, validation: %v", newErr, verr)
		case newErr != nil:
			h.Tag("fw-plugin:New-rejected-args")
		default:
			h.Tag("fw-plugin:built-by-New")
			if len(used.vectorizer) != 2 || used.vectorizer[0] != corev1.ResourceCPU || used.vectorizer[1] != corev1.ResourceMemory {
				t.Fatalf("New: vectorizer is not [cpu memory]: %v", used.vectorizer)
			}
		}
	}
	pod := s.pod.build(c.t0)
	if s.daemon {
		pod.OwnerReferences = []metav1.OwnerReference{{Kind: "DaemonSet", Name: "ds"}}
	} else if r.Bool() {
		pod.OwnerReferences = []metav1.OwnerReference{{Kind: "ReplicaSet", Name: "rs"}}
	}
	h.Tag(fmt.Sprintf("fw-profile:%d", s.class))
	state := framework.NewCycleState()
	var pre *fwktype.Status
	prePanic := h.Guard(func() { _, pre, _ = fw.RunPreFilterPlugins(ctx, state, pod) })
	skipped := !prePanic && state.GetSkipFilterPlugins().Has(Name)
	switch {
	case prePanic:
		h.Tag("fw-prefilter:panic")
	case !pre.IsSuccess():
		h.Tag("fw-prefilter:" + pre.Code().String())
	case skipped:
		h.Tag("fw-prefilter:skip")
	default:
		h.Tag("fw-prefilter:success")
	}
	passed := []int{}
	for i, q := range qs {
		c.checkFloat(q.pod)
		c.emitShape(q.pod, pod) // `pst` line when the pod carries container-status resources (no raw shapes in this harness)
		h.Op("fwfilter %s", q.toks())
		if prePanic {
			h.Obs("fw panic")
			h.Fail("C08:filter-panic:framework", "PreFilter panicked")
			continue
		}
		if !pre.IsSuccess() { // the framework aborts the cycle: no node is tried
			h.Obs("fw 5")
			if !s.daemon {
				continue
			}
			h.Fail("C08:daemonset-filtered:framework", "PreFilter rejected a daemon-set pod (%s)", pre.Code().String())
			continue
		}
		ni, _ := fw.SnapshotSharedLister().NodeInfos().Get(nodes[i].Name)
		var st *fwktype.Status
		if h.Guard(func() { st = fw.RunFilterPluginsWithNominatedPods(ctx, state, pod, ni) }) {
			h.Obs("fw panic")
			h.Fail("C08:filter-panic:framework", "Filter panicked under the framework")
			continue
		}
		verdict := c08Verdict(st, c.vec)
		h.Obs("fw %d", verdict)
		h.Tag(fmt.Sprintf("fw-verdict:%d", verdict))
		h.Tag(fmt.Sprintf("fw-custom:%d", q.customKind))
		if thr, _, _, _ := q.selected(); !c08Zero(thr) && !s.daemon {
			h.Tag("fw-node:thresholds-in-force")
			if qq := q; true {
				qq.customKind = 0
				if t0, _, _, _ := qq.selected(); c08Zero(t0) {
					h.Tag("fw-node:thresholds-from-annotation-only")
					if skipped {
						h.Tag("fw-node:skipped-although-annotation-applies")
					}
				}
			}
		}
		before := c.reach
		c.judgeFilter(q, verdict, ":framework")
		if c.reach > before && q.customKind == 1 {
			c.fwCustomCompared++
		}
		if verdict == 0 {
			passed = append(passed, q.node)
		}
	}
	// assume + Reserve (+ Unreserve) on a node that passed, as scheduleOne does: the assumed pod carries Spec.NodeName
	if len(passed) == 0 || r.Chance(1, 3) {
		return
	}
	host := passed[r.Intn(len(passed))]
	p := s.pod
	p.specNode = host
	assumed := p.build(c.t0)
	assumed.OwnerReferences = pod.OwnerReferences
	c.setClock(now)
	c.emitShape(p, assumed)
	h.Op("rsv %d %d %s", host, now, p.toks())
	h.Tag("op:reserve")
	if h.Guard(func() { fw.RunReservePluginsReserve(ctx, state, assumed, c08NodeName(host)) }) {
		h.Obs("panic")
		h.Fail("C08:event-panic", "Reserve panicked under the framework")
		return
	}
	c.shAssign(host, p, assumed, now)
	c.pool[p.uid] = p
	c.observe()
	if r.Chance(2, 5) { // Permit / PreBind / Bind failed: roll back
		h.Op("unrsv %d %d", host, p.uid)
		h.Tag("op:unreserve")
		if h.Guard(func() { fw.RunReservePluginsUnreserve(ctx, state, assumed, c08NodeName(host)) }) {
			h.Obs("panic")
			h.Fail("C08:event-panic", "Unreserve panicked under the framework")
			return
		}
		c.shUnassign(host, p.uid)
		delete(c.pool, p.uid)
		c.observe()
	}
}

func TestVerifC08Framework(t *testing.T) {
	h := vOpen("C08")
	if h == nil {
		t.Skip("VERIF_OUT not set")
	}
	t0 := time.Now().Truncate(time.Second)
	n := h.N(1200, 15000)
	for idx := 0; idx < n; idx++ {
		r := h.Begin(idx)
		if r == nil {
			continue
		}
		c := &c08Run{h: h, r: r, t0: t0, shadow: map[int]*c08NodeShadow{}, pool: map[int]c08Pod{}}
		c.cfg = c08Cfg{f: [2]int64{int64(r.Range(50, 100)), int64(r.Range(50, 100))}, allowCustom: r.Chance(1, 3), secSched: c08Secs(r), secInit: c08Secs(r), prodIncSys: r.Bool()}
		if r.Chance(1, 6) {
			c.cfg.f = [2]int64{c08Factor(r), c08Factor(r)}
		}
		c.cfg.specIDs = map[string]int{}
		c.viaNew = idx%4 == 2 // every 4th case: the plugin of every cycle is built by the package's New, called by the framework
		if c.viaNew {
			h.Tag("case:plugin-built-by-New")
		}
		c.nNodes = r.Range(1, 3)
		c.args = c.cfg.args()
		c.vec = NewResourceVectorizerFromArgs(c.args)
		if len(c.vec) != 2 || c.vec[0] != corev1.ResourceCPU || c.vec[1] != corev1.ResourceMemory {
			t.Fatalf("vectorizer is not [cpu memory]: %v", c.vec)
		}
		c.est, _ = estimator.NewEstimator(c.args, nil)
		c.pc = newPodAssignCache(c.est, c.vec, c.args)
		c.clk = clocktesting.NewFakeClock(t0)
		c.pc.clock = c.clk
		c.pl = &Plugin{args: c.args, vectorizer: c.vec, filterProfile: NewUsageThresholdsFilterProfile(c.args, c.vec), estimator: c.est, podAssignCache: c.pc}
		h.Op("cfg %d %d %d %d %d %d %d", c.cfg.f[0], c.cfg.f[1], vB(c.cfg.allowCustom), c.cfg.secSched, c.cfg.secInit, vB(c.cfg.prodIncSys), c.nNodes)
		near := c08Time(r)
		report := func(node int) {
			m := c08GenMetric(r, near, []int{1, 2, 3, 4, 5, 6})
			if r.Chance(4, 5) { // mostly a usable report
				m.hasUpd, m.hasInfo = true, true
			}
			obj := m.build(node, t0, r)
			h.Op("metric %d %s", node, m.toks())
			h.Tag("op:metric")
			panicked := h.Guard(func() { c.pc.AddOrUpdateNodeMetric(obj) })
			c.ns(node).metric, c.ns(node).metricObj = m, obj
			if panicked {
				h.Obs("panic")
				h.Fail("C08:event-panic", "a cache event handler panicked")
				return
			}
			c.observe()
		}
		for k := 1; k <= c.nNodes; k++ {
			if !r.Chance(1, 8) {
				c.setClock(near)
				report(k)
			}
		}
		rounds := r.Range(2, 6)
		for s := 0; s < rounds; s++ {
			now := near + int64(r.Range(-3, 12))*10
			if r.Chance(1, 4) {
				c.setClock(now)
				report(r.Range(1, c.nNodes))
			}
			c.fwCycle(t, c.genFwShared(s+1), now)
		}
		if c.reach > 0 {
			h.Nontrivial()
			h.Tag("case:filter-compared")
		}
		if c.fwCustomCompared > 0 {
			h.Tag("case:node-annotation-compared")
		}
		h.Tag(fmt.Sprintf("nodes:%d", c.nNodes))
		h.End()
	}
	h.Close("2-6 scheduling cycles through a REAL scheduler framework (RunPreFilterPlugins, then RunFilterPluginsWithNominatedPods per node on the same CycleState, " +
		"then assume + RunReservePluginsReserve / Unreserve on a node that passed) on 1-3 nodes with NodeMetric reports; plugin-level thresholds absent / all-zero / partly zero / set " +
		"(+ prod, aggregated), node annotation absent / valid / malformed, DaemonSet and normal pods, allocatable steered to the boundary of the thresholds in force on the node; " +
		"non-trivial = at least one framework verdict reached the threshold comparison of the oracle; distinct by op lines")
}

// ---- exhaustive small scope (thorough tier): one cycle on one node for EVERY combination of
//   plugin-level usage thresholds (absent / {0,0} / {50,0} / {50,50}) x prod thresholds (absent / {60,60}) x aggregated
//   (none / AVG over the longest period {40,40} / empty type) x node annotation (none / malformed / valid: prod only,
//   {0,0}, {30,0}, {30,30}, {30,30}+aggregated {20,20}) x DaemonSet or not x prod or batch pod x report (none / fresh /
//   expired / without node usage) x usage level (10 % / 45 % / 87 % of allocatable on every path).
func TestVerifC08FrameworkExhaustive(t *testing.T) {
	h := vOpen("C08")
	if h == nil {
		t.Skip("VERIF_OUT not set")
	}
	t0 := time.Now().Truncate(time.Second)
	none := [2]int64{-1, -1}
	argsU := [][2]int64{none, {0, 0}, {50, 0}, {50, 50}}
	argsP := [][2]int64{none, {60, 60}}
	type custom struct {
		kind int
		t    c08Thr
	}
	blank := c08Thr{u: none, p: none, a: none}
	customs := []custom{{0, blank}, {2, blank},
		{1, c08Thr{u: none, p: [2]int64{35, 35}, a: none}},
		{1, c08Thr{u: [2]int64{0, 0}, p: none, a: none}},
		{1, c08Thr{u: [2]int64{30, 0}, p: none, a: none}},
		{1, c08Thr{u: [2]int64{30, 30}, p: none, a: none}},
		{1, c08Thr{u: [2]int64{30, 30}, p: none, hasAgg: true, a: [2]int64{20, 20}, aTyp: 1, aDur: 0}}}
	alloc := [2]int64{10000, 10240 * c08MiB}
	idx := 0
	for _, au := range argsU {
		for _, ap := range argsP {
			for agg := 0; agg < 3; agg++ {
				for _, cu := range customs {
					for daemon := 0; daemon < 2; daemon++ {
						for _, cls := range []int{1, 3} {
							for rep := 0; rep < 4; rep++ {
								for _, pct := range []int64{10, 45, 87} {
									r := h.Begin(idx)
									idx++
									if r == nil {
										continue
									}
									c := &c08Run{h: h, r: r, t0: t0, shadow: map[int]*c08NodeShadow{}, pool: map[int]c08Pod{}, nNodes: 1, viaNew: idx%3 == 0}
									c.cfg = c08Cfg{f: [2]int64{85, 70}, secSched: -1, secInit: -1, specIDs: map[string]int{}}
									c.args = c.cfg.args()
									c.vec = NewResourceVectorizerFromArgs(c.args)
									c.est, _ = estimator.NewEstimator(c.args, nil)
									c.pc = newPodAssignCache(c.est, c.vec, c.args)
									c.clk = clocktesting.NewFakeClock(t0)
									c.pc.clock = c.clk
									h.Op("cfg %d %d %d %d %d %d %d", c.cfg.f[0], c.cfg.f[1], 0, c.cfg.secSched, c.cfg.secInit, 0, 1)
									if rep > 0 {
										lvl := [2]int64{alloc[0] * pct / 100, alloc[1] * pct / 100}
										m := &c08Metric{hasUpd: true, updT: c08Base, interval: 60, hasInfo: rep != 3, node: lvl,
											aggs: []c08Agg{{typ: 1, dur: 300, present: true, u: lvl}},
											pods: []c08PM{{key: 9, prod: true, kind: 0, u: lvl}}}
										if rep == 2 {
											m.updT = -150000
										}
										obj := m.build(1, t0, r)
										h.Op("metric 1 %s", m.toks())
										c.setClock(c08Base)
										c.pc.AddOrUpdateNodeMetric(obj)
										c.ns(1).metric, c.ns(1).metricObj = m, obj
										c.observe()
									}
									s := c08FwShared{args: c08Thr{u: au, p: ap, a: none}, fexp: 1, hasExp: true, expSec: 100000, enable: 0, daemon: daemon == 1}
									switch agg {
									case 1:
										s.args.hasAgg, s.args.a, s.args.aTyp = true, [2]int64{40, 40}, 1
									case 2:
										s.args.hasAgg, s.args.a, s.args.aTyp = true, [2]int64{40, 40}, 0
									}
									s.pod = c08Pod{uid: 1, key: 1, cls: cls, cf: none, cSched: -1, cInit: -1, req: [2]int64{10, c08MiB}, lim: [2]int64{20, 2 * c08MiB}}
									q := c08Filter{node: 1, hasNode: true, daemon: s.daemon, args: s.args, customKind: cu.kind, custom: cu.t,
										fexp: s.fexp, hasExp: s.hasExp, expSec: s.expSec, enable: s.enable, alloc: alloc, raw: none, pod: s.pod}
									c.fwRun(t, s, []c08Filter{q}, c08Base)
									if c.reach > 0 {
										h.Nontrivial()
									}
									h.End()
								}
							}
						}
					}
				}
			}
		}
	}
	h.Close("exhaustive: one framework cycle on one node for every combination of plugin-level thresholds (absent / all-zero / partly zero / set; prod; aggregated), " +
		"node annotation (none / malformed / 5 valid shapes), DaemonSet or not, prod or batch pod, report (none / fresh / expired / without node usage) and usage level 10/45/87 %; " +
		"non-trivial = the framework verdict reached the threshold comparison of the oracle")
}
