//go:build verif

package loadaware

import (
	"context"
	"encoding/json"
	"fmt"
	"math"
	"math/big"
	"runtime"
	"sort"
	"strconv"
	"strings"
	"sync"
	"sync/atomic"
	"testing"
	"time"

	corev1 "k8s.io/api/core/v1"
	"k8s.io/apimachinery/pkg/api/resource"
	metav1 "k8s.io/apimachinery/pkg/apis/meta/v1"
	"k8s.io/apimachinery/pkg/types"
	"k8s.io/client-go/tools/cache"
	resourceapi "k8s.io/component-helpers/resource"
	fwktype "k8s.io/kube-scheduler/framework"
	"k8s.io/kubernetes/pkg/scheduler/framework"
	clocktesting "k8s.io/utils/clock/testing"

	"github.com/koordinator-sh/koordinator/apis/extension"
	slov1alpha1 "github.com/koordinator-sh/koordinator/apis/slo/v1alpha1"
	"github.com/koordinator-sh/koordinator/pkg/scheduler/apis/config"
	"github.com/koordinator-sh/koordinator/pkg/scheduler/plugins/loadaware/estimator"
	reservationutil "github.com/koordinator-sh/koordinator/pkg/util/reservation"
)

// C08 harness.  One case = one history of cache events (Reserve/Unreserve, pod add/update/delete,
// node-metric add/update/delete) on 1-3 nodes, interleaved with Get and Filter queries, all on the
// REAL podAssignCache / Plugin.Filter.  After every event the three estimate vectors of every node
// are observed.  The oracle keeps its own shadow of "metric in force + pods assigned" per node and
//   (a) recomputes the estimates from scratch with its own formulas (C08:estimate-formula…),
//   (b) feeds the same metric and pods to a FRESH cache in a random order (C08:cache-drift…),
//   (c) checks every Filter verdict against the statement (C08:pass-over-threshold, C08:expired-…).
// Times are integer seconds relative to the harness start T0 (real wall clock, only used by
// isNodeMetricExpired; generated expiry settings keep >= 2 h distance from the decision boundary on
// the side that depends on elapsed wall time).

const (
	c08Base    = -20000 // "now" of the histories, seconds relative to T0
	c08MiB     = int64(1 << 20)
	c08NoneTyp = "verif-none" // an aggregation type no report ever carries
)

var c08AggTypes = []extension.AggregationType{"", extension.AVG, extension.P50, extension.P90, extension.P95, extension.P99}

type c08Cond struct {
	k int // 0 none, 1 False, 2 True, 3 False zero-time, 4 True zero-time
	t int64
}

type c08Pod struct {
	uid, key, cls, pv int // cls: 1 prod, 2 mid, 3 batch, 4 free
	term, rsv         bool
	specNode          int
	sched, init       c08Cond
	cf                [2]int64 // custom scaling factors, -1 absent
	cSched, cInit     int64    // custom seconds, -1 absent
	req, lim          [2]int64 // amounts placed in the pod (cpu milli, memory bytes)
	raw               *c08Raw  // non-nil: the object is built from this raw shape and the fields above are DERIVED from it
	st                c08Stat  // status.containerStatuses[].resources / allocatedResources (in-place resize); NOT read by the estimate
}

// c08Stat: what the kubelet reports in status.containerStatuses (and initContainerStatuses of sidecars).  The amounts are
// derived from a SNAPSHOT of the pod's (class, request, limit) taken when the status was generated, so that a later spec
// update leaves the status behind (spec shrunk in place, status still large) until a status-only update catches up.
// Raw-shape pods: derived from the current containers.
type c08Stat struct {
	kind     int // 0 no container statuses, 1 equal to the snapshot, 2 twice (1 cpu where empty), 3 half, 4 statuses without resources, 5 resources equal + allocatedResources x3
	cls      int
	req, lim [2]int64
}

func (s c08Stat) toks() string {
	return vInts([]int64{int64(s.kind), int64(s.cls), s.req[0], s.lim[0], s.req[1], s.lim[1]})
}

func c08GenStat(r *vRand, p c08Pod) c08Stat {
	req, lim := p.amounts()
	return c08Stat{kind: int(r.Pick([]int64{1, 1, 2, 2, 2, 3, 3, 4, 5})), cls: p.cls, req: req, lim: lim}
}

func c08ScaleRL(rl corev1.ResourceList, num, den int64) corev1.ResourceList {
	if rl == nil {
		return nil
	}
	out := corev1.ResourceList{}
	for k, q := range rl {
		out[k] = *resource.NewMilliQuantity(q.MilliValue()*num/den, q.Format)
	}
	return out
}

// applyStatus fills pod.Status.ContainerStatuses / InitContainerStatuses (Spec and Conditions are not touched)
func (p c08Pod) applyStatus(pod *corev1.Pod) {
	st := p.st
	if st.kind == 0 {
		return
	}
	base := pod.Spec.Containers
	if p.raw == nil {
		base = c08Containers(st.cls, p.uid, st.req, st.lim)
	}
	one := func(name string, res corev1.ResourceRequirements) corev1.ContainerStatus {
		cs := corev1.ContainerStatus{Name: name, Ready: true}
		switch st.kind {
		case 1:
			cs.Resources = &corev1.ResourceRequirements{Requests: c08ScaleRL(res.Requests, 1, 1), Limits: c08ScaleRL(res.Limits, 1, 1)}
			cs.AllocatedResources = c08ScaleRL(res.Requests, 1, 1)
		case 2:
			cs.Resources = &corev1.ResourceRequirements{Requests: c08ScaleRL(res.Requests, 2, 1), Limits: c08ScaleRL(res.Limits, 2, 1)}
			if len(res.Requests) == 0 && len(res.Limits) == 0 {
				cs.Resources.Requests = corev1.ResourceList{c08ResName(st.cls, 0): c08Qty(st.cls, 0, 1000)}
			}
			cs.AllocatedResources = cs.Resources.Requests
		case 3:
			cs.Resources = &corev1.ResourceRequirements{Requests: c08ScaleRL(res.Requests, 1, 2), Limits: c08ScaleRL(res.Limits, 1, 2)}
		case 5:
			cs.Resources = &corev1.ResourceRequirements{Requests: c08ScaleRL(res.Requests, 1, 1), Limits: c08ScaleRL(res.Limits, 1, 1)}
			cs.AllocatedResources = c08ScaleRL(res.Requests, 3, 1)
			if len(res.Requests) == 0 {
				cs.AllocatedResources = corev1.ResourceList{c08ResName(st.cls, 0): c08Qty(st.cls, 0, 1000)}
			}
		}
		return cs
	}
	for i, sc := range pod.Spec.Containers {
		res := sc.Resources
		if p.raw == nil {
			res = corev1.ResourceRequirements{}
			if i < len(base) {
				res = base[i].Resources
			}
		}
		pod.Status.ContainerStatuses = append(pod.Status.ContainerStatuses, one(sc.Name, res))
	}
	for _, ic := range pod.Spec.InitContainers {
		pod.Status.InitContainerStatuses = append(pod.Status.InitContainerStatuses, one(ic.Name, ic.Resources))
	}
}

// one or two containers; an even amount of an odd-uid pod is split in halves
func c08Containers(cls, uid int, areq, alim [2]int64) []corev1.Container {
	two := uid%2 == 1
	cs := []corev1.Container{{Name: "a"}}
	if two {
		cs = append(cs, corev1.Container{Name: "b"})
	}
	put := func(list *corev1.ResourceList, idx int, v int64) {
		if v <= 0 {
			return
		}
		if *list == nil {
			*list = corev1.ResourceList{}
		}
		(*list)[c08ResName(cls, idx)] = c08Qty(cls, idx, v)
	}
	for idx := 0; idx < 2; idx++ {
		for _, rl := range []struct {
			v   int64
			lim bool
		}{{areq[idx], false}, {alim[idx], true}} {
			parts := []int64{rl.v}
			if two && rl.v%2 == 0 {
				parts = []int64{rl.v / 2, rl.v / 2}
			}
			for ci, v := range parts {
				if rl.lim {
					put(&cs[ci].Resources.Limits, idx, v)
				} else {
					put(&cs[ci].Resources.Requests, idx, v)
				}
			}
		}
	}
	return cs
}

// amounts of the translated resource name: a free-class pod has none.
func (p c08Pod) amounts() (req, lim [2]int64) {
	if p.cls == 4 {
		return
	}
	return p.req, p.lim
}

func (p c08Pod) toks() string {
	req, lim := p.amounts()
	return vInts([]int64{int64(p.uid), int64(p.key), int64(p.cls), int64(p.pv), int64(vB(p.term)), int64(vB(p.rsv)), int64(p.specNode),
		int64(p.sched.k), p.sched.t, int64(p.init.k), p.init.t, p.cf[0], p.cf[1], p.cSched, p.cInit,
		req[0], lim[0], req[1], lim[1]})
}

func c08NodeName(k int) string {
	if k == 0 {
		return ""
	}
	return "n" + strconv.Itoa(k)
}

func c08ResName(cls, idx int) corev1.ResourceName {
	switch cls {
	case 2:
		return []corev1.ResourceName{extension.MidCPU, extension.MidMemory}[idx]
	case 3:
		return []corev1.ResourceName{extension.BatchCPU, extension.BatchMemory}[idx]
	}
	return []corev1.ResourceName{corev1.ResourceCPU, corev1.ResourceMemory}[idx]
}

func c08Qty(cls, idx int, v int64) resource.Quantity {
	if idx == 0 && (cls == 1 || cls == 4) {
		return *resource.NewMilliQuantity(v, resource.DecimalSI)
	}
	if idx == 0 {
		return *resource.NewQuantity(v, resource.DecimalSI)
	}
	return *resource.NewQuantity(v, resource.BinarySI)
}

var c08Prio = map[int][2]int32{1: {9500, 9100}, 2: {7500, 7100}, 3: {5500, 5100}, 4: {3500, 3100}}

func c08CondObj(typ corev1.PodConditionType, c c08Cond, t0 time.Time) *corev1.PodCondition {
	if c.k == 0 {
		return nil
	}
	pc := &corev1.PodCondition{Type: typ, Status: corev1.ConditionFalse}
	if c.k == 2 || c.k == 4 {
		pc.Status = corev1.ConditionTrue
	}
	if c.k <= 2 {
		pc.LastTransitionTime = metav1.Time{Time: t0.Add(time.Duration(c.t) * time.Second)}
	}
	return pc
}

// build is a deterministic function of the tokens (OnUpdate compares Spec and Conditions with DeepEqual).
func (p c08Pod) build(t0 time.Time) *corev1.Pod {
	if p.raw != nil {
		pod := p.buildRaw(t0)
		p.applyStatus(pod)
		return pod
	}
	pod := &corev1.Pod{ObjectMeta: metav1.ObjectMeta{Namespace: "ns", Name: "p" + strconv.Itoa(p.key), UID: types.UID("u" + strconv.Itoa(p.uid)),
		Annotations: map[string]string{}}}
	prio := c08Prio[p.cls][p.pv%2]
	pod.Spec.Priority = &prio
	pod.Spec.NodeName = c08NodeName(p.specNode)
	pod.Status.Phase = corev1.PodRunning
	if p.term {
		pod.Status.Phase = []corev1.PodPhase{corev1.PodFailed, corev1.PodSucceeded}[p.uid%2]
	}
	if p.rsv {
		pod.Annotations[reservationutil.AnnotationReservePod] = "true"
	}
	if c := c08CondObj(corev1.PodScheduled, p.sched, t0); c != nil {
		pod.Status.Conditions = append(pod.Status.Conditions, *c)
	}
	if c := c08CondObj(corev1.PodInitialized, p.init, t0); c != nil {
		pod.Status.Conditions = append(pod.Status.Conditions, *c)
	}
	if p.cf[0] >= 0 || p.cf[1] >= 0 {
		m := map[corev1.ResourceName]int64{}
		if p.cf[0] >= 0 {
			m[corev1.ResourceCPU] = p.cf[0]
		}
		if p.cf[1] >= 0 {
			m[corev1.ResourceMemory] = p.cf[1]
		}
		b, _ := json.Marshal(m)
		pod.Annotations[extension.AnnotationCustomEstimatedScalingFactors] = string(b)
	}
	if p.cSched >= 0 {
		pod.Annotations[extension.AnnotationCustomEstimatedSecondsAfterPodScheduled] = strconv.FormatInt(p.cSched, 10)
	}
	if p.cInit >= 0 {
		pod.Annotations[extension.AnnotationCustomEstimatedSecondsAfterInitialized] = strconv.FormatInt(p.cInit, 10)
	}
	areq, alim := p.amounts() // a free-class pod carries no resources at all (its translated name is empty)
	pod.Spec.Containers = c08Containers(p.cls, p.uid, areq, alim)
	p.applyStatus(pod)
	return pod
}

type c08Agg struct {
	typ, dur int
	present  bool
	u        [2]int64
}
type c08PM struct {
	key  int
	prod bool
	kind int // 0 usable, 1 empty list, 2 nil entry
	u    [2]int64
}
type c08Metric struct {
	hasUpd   bool
	updT     int64
	interval int64 // -1 nil
	hasInfo  bool
	node     [2]int64
	sys      [2]int64
	aggs     []c08Agg
	pods     []c08PM
}

func (m *c08Metric) toks() string {
	xs := []int64{int64(vB(m.hasUpd)), m.updT, m.interval, int64(vB(m.hasInfo)), m.node[0], m.node[1], m.sys[0], m.sys[1],
		int64(len(m.aggs)), int64(len(m.pods))}
	for _, a := range m.aggs {
		xs = append(xs, int64(a.typ), int64(a.dur), int64(vB(a.present)), a.u[0], a.u[1])
	}
	for _, p := range m.pods {
		xs = append(xs, int64(p.key), int64(vB(p.prod)), int64(p.kind), p.u[0], p.u[1])
	}
	return vInts(xs)
}

func c08RL(u [2]int64) corev1.ResourceList {
	return corev1.ResourceList{
		corev1.ResourceCPU:    *resource.NewMilliQuantity(u[0], resource.DecimalSI),
		corev1.ResourceMemory: *resource.NewQuantity(u[1], resource.BinarySI),
	}
}

func (m *c08Metric) build(node int, t0 time.Time, r *vRand) *slov1alpha1.NodeMetric {
	nm := &slov1alpha1.NodeMetric{ObjectMeta: metav1.ObjectMeta{Name: c08NodeName(node)}}
	if m.interval >= 0 {
		iv := m.interval
		nm.Spec.CollectPolicy = &slov1alpha1.NodeMetricCollectPolicy{ReportIntervalSeconds: &iv}
	} else if r.Bool() {
		nm.Spec.CollectPolicy = &slov1alpha1.NodeMetricCollectPolicy{}
	}
	if m.hasUpd {
		nm.Status.UpdateTime = &metav1.Time{Time: t0.Add(time.Duration(m.updT) * time.Second)}
	}
	if m.hasInfo {
		info := &slov1alpha1.NodeMetricInfo{}
		info.NodeUsage.ResourceList = c08RL(m.node)
		info.SystemUsage.ResourceList = c08RL(m.sys)
		for _, a := range m.aggs {
			rm := slov1alpha1.ResourceMap{}
			if a.present {
				rm.ResourceList = c08RL(a.u)
			}
			d := metav1.Duration{Duration: time.Duration(a.dur) * time.Second}
			typ := c08AggTypes[a.typ]
			// group with the previous entry when it has the same duration and lacks this type
			if n := len(info.AggregatedNodeUsages); n > 0 && info.AggregatedNodeUsages[n-1].Duration == d {
				if _, dup := info.AggregatedNodeUsages[n-1].Usage[typ]; !dup && r.Bool() {
					info.AggregatedNodeUsages[n-1].Usage[typ] = rm
					continue
				}
			}
			info.AggregatedNodeUsages = append(info.AggregatedNodeUsages, slov1alpha1.AggregatedUsage{
				Duration: d, Usage: map[extension.AggregationType]slov1alpha1.ResourceMap{typ: rm}})
		}
		nm.Status.NodeMetric = info
	}
	for _, p := range m.pods {
		if p.kind == 2 {
			nm.Status.PodsMetric = append(nm.Status.PodsMetric, nil)
			continue
		}
		pi := &slov1alpha1.PodMetricInfo{Namespace: "ns", Name: "p" + strconv.Itoa(p.key)}
		if p.kind == 0 {
			pi.PodUsage.ResourceList = c08RL(p.u)
		}
		if p.prod {
			pi.Priority = extension.PriorityProd
		} else {
			pi.Priority = []extension.PriorityClass{extension.PriorityMid, extension.PriorityBatch, extension.PriorityFree, ""}[r.Intn(4)]
		}
		nm.Status.PodsMetric = append(nm.Status.PodsMetric, pi)
	}
	return nm
}

type c08Cfg struct {
	f                [2]int64 // -1 absent
	allowCustom      bool
	secSched, secInit int64 // -1 nil
	prodIncSys       bool
	glue             bool           // this case generates raw pod shapes too
	specIDs          map[string]int // identity numbers of the raw PodSpecs seen in this case
}

func c08FactorMap(f [2]int64) map[corev1.ResourceName]int64 {
	m := map[corev1.ResourceName]int64{}
	if f[0] >= 0 {
		m[corev1.ResourceCPU] = f[0]
	}
	if f[1] >= 0 {
		m[corev1.ResourceMemory] = f[1]
	}
	return m
}

func c08ThrMap(t [2]int64) map[corev1.ResourceName]int64 {
	if t[0] < 0 && t[1] < 0 {
		return nil
	}
	return c08FactorMap(t)
}

func (c c08Cfg) args() *config.LoadAwareSchedulingArgs {
	a := &config.LoadAwareSchedulingArgs{EstimatedScalingFactors: c08FactorMap(c.f), AllowCustomizeEstimation: c.allowCustom,
		ProdUsageIncludeSys: c.prodIncSys}
	if c.secSched >= 0 {
		v := c.secSched
		a.EstimatedSecondsAfterPodScheduled = &v
	}
	if c.secInit >= 0 {
		v := c.secInit
		a.EstimatedSecondsAfterInitialized = &v
	}
	return a
}

// ---------------------------------------------------------------- oracle: from-scratch formulas

// exact integer rounding half up of q*f/100 (all operands >= 0)
func c08OrScale(q, f int64) int64 { return (q*f + 50) / 100 }

func c08OrEstimateOne(cls, idx int, req, lim, f int64) int64 {
	q := req
	if lim > q {
		q = lim
	}
	if q == 0 {
		if cls == 1 || cls == 3 { // cpu, memory, batch-cpu, batch-memory have a default; mid-* and free have none
			if idx == 0 {
				return 250
			}
			return 200 * c08MiB
		}
		return 0
	}
	e := c08OrScale(q, f)
	if lim > 0 && e > lim {
		e = lim
	}
	return e
}

// the pod's estimate per resource as the statement reads it; ok=false: no estimate (all zero)
func c08OrEstimate(cfg c08Cfg, p c08Pod) (e [2]int64, ok bool) {
	f := cfg.f
	if cfg.allowCustom && (p.cf[0] >= 0 || p.cf[1] >= 0) {
		for i := 0; i < 2; i++ {
			if p.cf[i] >= 0 {
				f[i] = p.cf[i]
			}
		}
	}
	req, lim := p.amounts()
	for i := 0; i < 2; i++ {
		if f[i] < 0 {
			continue
		}
		e[i] = c08OrEstimateOne(p.cls, i, req[i], lim[i], f[i])
		if e[i] != 0 {
			ok = true
		}
	}
	return
}

type c08Shadow struct {
	pod c08Pod
	obj *corev1.Pod
	now int64 // clock value when it was assigned
	// a later metadata-only update changed what the estimate reads (custom annotations, class labels); OnUpdate does not
	// propagate such updates by design, so "the pod as assigned" is ambiguous: the oracles skip the node until the pod is
	// assigned again or removed (the model correspondence still pins the behaviour as written)
	stale bool
}

func (ns *c08NodeShadow) hasStale() bool {
	for _, s := range ns.pods {
		if s.stale {
			return true
		}
	}
	return false
}

// markStale: an update that left the cached pod alone although estimate-relevant metadata differs
func (c *c08Run) markStale(node int, p c08Pod) {
	cur, ok := c.ns(node).pods[p.uid]
	if !ok {
		return
	}
	if cur.pod.cls != p.cls || cur.pod.cf != p.cf || cur.pod.cSched != p.cSched || cur.pod.cInit != p.cInit {
		cur.stale = true
		c.ns(node).pods[p.uid] = cur
		c.h.Tag("update:metadata-only-estimate-relevant")
	}
}

// shRefresh: an update the cache does not act on (same spec, same conditions, no estimate-relevant metadata change, e.g. a
// status-only update).  "From scratch" reads the CURRENT object of the pod, so the fresh cache of oracle (b) is fed the new
// object (same name, plain shape, not a reserve pod: everything else the estimate reads is equal by the guards before).
func (c *c08Run) shRefresh(node int, p c08Pod, obj *corev1.Pod) {
	cur, ok := c.ns(node).pods[p.uid]
	if !ok || cur.stale || p.raw != nil || cur.pod.raw != nil || p.key != cur.pod.key || p.rsv || p.term {
		return
	}
	cur.obj, cur.pod.st = obj, p.st
	c.ns(node).pods[p.uid] = cur
}

func (s c08Shadow) timestamp() int64 {
	if s.pod.sched.k == 2 {
		return s.pod.sched.t
	}
	return s.now
}

// deadline until which the pod is estimated regardless of its reported usage; ok=false: none
func (s c08Shadow) deadline(cfg c08Cfg) (int64, bool) {
	aS, aI := int64(-1), int64(-1)
	if cfg.allowCustom {
		aS, aI = s.pod.cSched, s.pod.cInit
	}
	if aS < 0 {
		aS = cfg.secSched
	}
	if aI < 0 {
		aI = cfg.secInit
	}
	if aI > 0 && s.pod.init.k == 2 {
		return s.pod.init.t + aI, true
	}
	if aS > 0 {
		return s.timestamp() + aS, true
	}
	return 0, false
}

type c08NodeShadow struct {
	metric    *c08Metric
	metricObj *slov1alpha1.NodeMetric
	pods      map[int]c08Shadow
}

func (m *c08Metric) podUsage(key int) (u [2]int64, prod, ok bool) {
	for _, p := range m.pods {
		if p.kind != 0 || p.key != key {
			continue
		}
		u, ok = p.u, true // the last usable entry is the usage
		if p.prod {
			prod = true // reported as prod by any entry
		}
	}
	return
}

func (m *c08Metric) aggUsage(typ, dur int) ([2]int64, bool) {
	look := func(d int) (u [2]int64, ok bool) {
		for _, a := range m.aggs {
			if a.present && a.typ == typ && a.dur == d {
				u, ok = a.u, true
			}
		}
		return
	}
	if dur != 0 {
		return look(dur)
	}
	maxD := 0
	for _, a := range m.aggs {
		if a.present && a.typ == typ && a.dur > maxD {
			maxD = a.dur
		}
	}
	return look(maxD)
}

func c08Pos(x int64) int64 {
	if x > 0 {
		return x
	}
	return 0
}

// expected estimates of a node computed from scratch: prod view, whole-node view, sum of full estimates
func (ns *c08NodeShadow) expect(cfg c08Cfg) (prod, node, full [2]int64) {
	m := ns.metric
	if m.hasInfo {
		node = m.node
		if cfg.prodIncSys {
			prod = m.sys
		}
	}
	interval := m.interval
	if interval < 0 {
		interval = 60
	}
	for _, s := range ns.pods {
		u, reportedProd, hasU := m.podUsage(s.pod.key)
		isProd := s.pod.cls == 1
		active := isProd && reportedProd && hasU
		if active {
			prod[0] += u[0]
			prod[1] += u[1]
		}
		e, ok := c08OrEstimate(cfg, s.pod)
		if !ok {
			continue
		}
		// the report does not yet reflect the pod: no usage, scheduled inside the last report interval, or before its deadline
		should := !hasU || !m.hasUpd || m.updT-interval < s.timestamp()
		if dl, has := s.deadline(cfg); has && (!m.hasUpd || dl > m.updT) {
			should = true
		}
		for i := 0; i < 2; i++ {
			full[i] += e[i]
			if should {
				if hasU {
					node[i] += c08Pos(e[i] - u[i])
				} else {
					node[i] += c08Pos(e[i])
				}
			}
			if isProd {
				switch {
				case !active || !hasU: // usage not counted for prod: the whole estimate stands in
					prod[i] += c08Pos(e[i])
				case should:
					prod[i] += c08Pos(e[i] - u[i])
				}
			}
		}
	}
	return
}

// ---------------------------------------------------------------- filter query

type c08Thr struct {
	u, p   [2]int64 // -1 absent
	hasAgg bool
	a      [2]int64
	aTyp   int
	aDur   int
}

func (t c08Thr) toks() []int64 {
	return []int64{t.u[0], t.u[1], t.p[0], t.p[1], int64(vB(t.hasAgg)), t.a[0], t.a[1], int64(t.aTyp), int64(t.aDur)}
}

type c08Filter struct {
	node            int
	hasNode, daemon bool
	args            c08Thr
	customKind      int
	custom          c08Thr
	fexp            int // -1 nil, 0, 1
	hasExp          bool
	expSec          int64
	enable          int
	alloc           [2]int64
	rawKind         int
	raw             [2]int64
	pod             c08Pod
}

func (q c08Filter) toks() string {
	xs := []int64{int64(q.node), int64(vB(q.hasNode)), int64(vB(q.daemon))}
	xs = append(xs, q.args.toks()...)
	xs = append(xs, int64(q.customKind))
	xs = append(xs, q.custom.toks()...)
	xs = append(xs, int64(q.fexp), int64(vB(q.hasExp)), q.expSec, int64(q.enable), q.alloc[0], q.alloc[1], int64(q.rawKind), q.raw[0], q.raw[1])
	return vInts(xs) + " " + q.pod.toks()
}

func c08BoolPtr(x int) *bool {
	if x < 0 {
		return nil
	}
	b := x == 1
	return &b
}

func c08Valid(t [2]int64) bool { return t[0] >= 0 || t[1] >= 0 }
func c08Zero(t [2]int64) bool  { return t[0] <= 0 && t[1] <= 0 }

// the thresholds in force for this pod on this node, read off the configuration (independent of the code):
// path 0 = whole node, 1 = prod, 2 = aggregated
func (q c08Filter) selected() (thr [2]int64, path, aTyp, aDur int) {
	type agg struct {
		thr       [2]int64
		typ, dur  int
	}
	pick := func(t c08Thr) (u, p [2]int64, a *agg) {
		u, p = t.u, t.p
		if t.hasAgg && c08Valid(t.a) && t.aTyp != 0 {
			a = &agg{t.a, t.aTyp, t.aDur}
		}
		return
	}
	u, p, a := pick(q.args)
	if q.customKind == 1 {
		cu, cp, ca := pick(q.custom)
		if c08Valid(cu) || c08Valid(cp) || ca != nil {
			if c08Valid(cu) {
				u = cu
			}
			if c08Valid(cp) {
				p = cp
			}
			if ca != nil {
				a = ca
			}
		}
	}
	switch {
	case !c08Zero(p) && q.pod.cls == 1:
		return p, 1, 0, 0
	case a != nil:
		return a.thr, 2, a.typ, a.dur
	}
	return u, 0, 0, 0
}

func (q c08Filter) allocatable() [2]int64 {
	al := q.alloc
	if q.rawKind == 1 {
		for i := 0; i < 2; i++ {
			if q.raw[i] >= 0 {
				al[i] = q.raw[i]
			}
		}
	}
	return al
}

func c08Verdict(st *fwktype.Status, vec ResourceVectorizer) int {
	if st == nil {
		return 0
	}
	switch st.Code() {
	case fwktype.Success:
		return 0
	case fwktype.Error:
		return 4
	case fwktype.Unschedulable:
		msg := st.Message()
		if msg == ErrReasonNodeMetricExpired {
			return 3
		}
		for _, name := range vec {
			if msg == fmt.Sprintf(ErrReasonAggregatedUsageExceedThreshold, name) {
				return 2
			}
			if msg == fmt.Sprintf(ErrReasonUsageExceedThreshold, name) {
				return 1
			}
		}
	}
	return 9
}

// ---------------------------------------------------------------- generators

func c08Time(r *vRand) int64 { return c08Base + int64(r.Range(-40, 40))*10 }

func c08CPU(r *vRand) int64 {
	switch r.Intn(8) {
	case 0:
		return 0
	case 1:
		return int64(r.Range(1, 9))
	case 2:
		return int64(r.Range(1, 16)) * 1000
	default:
		return int64(r.Range(1, 80)) * 50
	}
}

func c08Mem(r *vRand) int64 {
	switch r.Intn(8) {
	case 0:
		return 0
	case 1:
		return int64(r.Range(1, 4096)) * c08MiB
	case 2:
		return int64(r.Range(1, 1<<30)) // odd byte counts
	default:
		return int64(r.Range(1, 64)) * 64 * c08MiB
	}
}

func c08Factor(r *vRand) int64 {
	switch r.Intn(10) {
	case 0:
		return -1
	case 1:
		return 0
	case 2:
		return int64(r.Range(101, 200))
	case 3:
		return 100
	default:
		return int64(r.Range(1, 100))
	}
}

func c08Secs(r *vRand) int64 { return r.Pick([]int64{-1, -1, 0, 10, 30, 100, 300}) }

func c08GenCond(r *vRand, near int64) c08Cond {
	switch r.Intn(10) {
	case 0, 1:
		return c08Cond{}
	case 2:
		return c08Cond{k: 1, t: c08Time(r)}
	case 3:
		return c08Cond{k: 3 + r.Intn(2)}
	case 4, 5:
		return c08Cond{k: 2, t: near + int64(r.Range(-2, 2))*10}
	default:
		return c08Cond{k: 2, t: c08Time(r)}
	}
}

func c08GenRes(r *vRand, p *c08Pod) {
	p.req = [2]int64{c08CPU(r), c08Mem(r)}
	for i := 0; i < 2; i++ {
		switch r.Intn(4) {
		case 0:
			p.lim[i] = 0
		case 1:
			p.lim[i] = p.req[i]
		case 2:
			p.lim[i] = p.req[i] * 2
		default:
			if i == 0 {
				p.lim[i] = c08CPU(r)
			} else {
				p.lim[i] = c08Mem(r)
			}
		}
	}
}

func c08GenPod(r *vRand, cfg c08Cfg, uid, nNodes int, near int64) c08Pod {
	p := c08Pod{uid: uid, key: uid, cf: [2]int64{-1, -1}, cSched: -1, cInit: -1}
	if r.Chance(1, 6) {
		p.key = r.Range(1, 4) // a second pod under a name that is (or was) in use
	}
	p.cls = []int{1, 1, 1, 2, 3, 3, 4}[r.Intn(7)]
	p.pv = r.Intn(2)
	p.term = r.Chance(1, 14)
	p.rsv = r.Chance(1, 20)
	p.specNode = r.Range(1, nNodes)
	if r.Chance(1, 12) {
		p.specNode = 0
	}
	p.sched = c08GenCond(r, near)
	p.init = c08GenCond(r, near)
	if r.Chance(1, 3) {
		if r.Bool() {
			p.cf[0] = c08Factor(r)
		}
		if r.Bool() {
			p.cf[1] = c08Factor(r)
		}
		if r.Bool() {
			p.cSched = c08Secs(r)
		}
		if r.Bool() {
			p.cInit = c08Secs(r)
		}
	}
	c08GenRes(r, &p)
	if cfg.glue && r.Bool() {
		c08GenRaw(r, &p, cfg.specIDs)
	}
	if r.Chance(1, 3) { // a running pod whose container statuses carry resources (in-place resize)
		p.st = c08GenStat(r, p)
	}
	return p
}

func c08GenMetric(r *vRand, near int64, keys []int) *c08Metric {
	m := &c08Metric{hasUpd: !r.Chance(1, 9), hasInfo: !r.Chance(1, 12), interval: r.Pick([]int64{-1, -1, 0, 10, 30, 60, 60, 120})}
	switch r.Intn(10) {
	case 0:
		m.updT = c08Base - 50000
	case 1:
		m.updT = 100000 // in the future
	case 2, 3, 4:
		iv := m.interval
		if iv < 0 {
			iv = 60
		}
		m.updT = near + iv + int64(r.Range(-1, 1))*10 // around "pod timestamp + interval"
	default:
		m.updT = c08Time(r)
	}
	m.node = [2]int64{c08CPU(r) * 4, c08Mem(r) * 2}
	m.sys = [2]int64{c08CPU(r) / 4, c08Mem(r) / 8}
	if r.Chance(1, 2) {
		for i, n := 0, r.Range(1, 4); i < n; i++ {
			m.aggs = append(m.aggs, c08Agg{typ: r.Range(1, 3), dur: int(r.Pick([]int64{0, 300, 300, 900, 1800})), present: !r.Chance(1, 5),
				u: [2]int64{c08CPU(r) * 4, c08Mem(r) * 2}})
		}
	}
	for _, k := range keys {
		if r.Chance(2, 3) {
			m.pods = append(m.pods, c08PM{key: k, prod: r.Chance(3, 5), kind: []int{0, 0, 0, 0, 0, 0, 1, 2}[r.Intn(8)],
				u: [2]int64{c08CPU(r), c08Mem(r)}})
		}
	}
	if r.Chance(1, 5) && len(keys) > 0 { // duplicate / leaked entries
		m.pods = append(m.pods, c08PM{key: keys[r.Intn(len(keys))], prod: r.Bool(), kind: 0, u: [2]int64{c08CPU(r), c08Mem(r)}})
	}
	if r.Chance(1, 4) {
		m.pods = append(m.pods, c08PM{key: 9, prod: r.Bool(), kind: 0, u: [2]int64{c08CPU(r), c08Mem(r)}}) // pod unknown to the scheduler
	}
	return m
}

func c08GenThrVec(r *vRand) [2]int64 {
	var t [2]int64
	for i := range t {
		switch r.Intn(8) {
		case 0:
			t[i] = -1
		case 1:
			t[i] = 0
		default:
			t[i] = int64(r.Range(1, 100))
		}
	}
	return t
}

func c08GenThr(r *vRand, rich bool) c08Thr {
	t := c08Thr{u: [2]int64{-1, -1}, p: [2]int64{-1, -1}, a: [2]int64{-1, -1}}
	if rich || r.Bool() {
		t.u = c08GenThrVec(r)
	}
	if r.Chance(1, 3) {
		t.p = c08GenThrVec(r)
	}
	if r.Chance(1, 3) {
		t.hasAgg = true
		if !r.Chance(1, 6) {
			t.a = c08GenThrVec(r)
		}
		t.aTyp = r.Range(0, 3)
		t.aDur = int(r.Pick([]int64{0, 0, 300, 900, 1800, 77}))
	}
	return t
}

// ---------------------------------------------------------------- the case runner

type c08Run struct {
	h      *vHarness
	r      *vRand
	t0     time.Time
	cfg    c08Cfg
	nNodes int
	args   *config.LoadAwareSchedulingArgs
	vec    ResourceVectorizer
	est    estimator.Estimator
	pc     *podAssignCache
	clk    *clocktesting.FakeClock
	pl     *Plugin
	shadow map[int]*c08NodeShadow
	pool   map[int]c08Pod // last object of every pod the "API server" knows
	busy   int            // events seen while a metric was in force and pods were assigned
	concOrder string      // inside a concurrent segment: the observed order of completed calls
	reach  int            // filters that reached the threshold comparison
	viaNew bool           // framework harness: the plugin of every cycle is built by the package's New
	fwCustomCompared int  // framework verdicts compared on a node that carries a valid custom-thresholds annotation
}

func (c *c08Run) ns(k int) *c08NodeShadow {
	if c.shadow[k] == nil {
		c.shadow[k] = &c08NodeShadow{pods: map[int]c08Shadow{}}
	}
	return c.shadow[k]
}

func (c *c08Run) setClock(now int64) { c.clk.SetTime(c.t0.Add(time.Duration(now) * time.Second)) }

// shadow semantics of the entry points, as the statement describes them
func (c *c08Run) shAssign(node int, p c08Pod, obj *corev1.Pod, now int64) {
	if node == 0 || p.term || p.rsv {
		return
	}
	c.ns(node).pods[p.uid] = c08Shadow{pod: p, obj: obj, now: now}
}
func (c *c08Run) shUnassign(node, uid int) {
	if node == 0 {
		return
	}
	delete(c.ns(node).pods, uid)
}

func c08SpecEq(a, b c08Pod) bool {
	if a.raw != nil || b.raw != nil { // raw shapes: the class may come from labels, only the PodSpec counts
		return a.raw != nil && b.raw != nil && a.raw.specID == b.raw.specID && a.specNode == b.specNode
	}
	ar, al := a.amounts()
	br, bl := b.amounts()
	return a.cls == b.cls && a.pv == b.pv && a.specNode == b.specNode && ar == br && al == bl
}

func (c *c08Run) get(pc *podAssignCache, node int, prod bool, dur time.Duration, typ extension.AggregationType) (ResourceVector, bool) {
	m, est, _, err := pc.GetNodeMetricAndEstimatedOfExisting(c08NodeName(node), prod, metav1.Duration{Duration: dur}, typ, false)
	if err != nil || m == nil {
		return nil, false
	}
	return est, true
}

func (c *c08Run) views(pc *podAssignCache, node int) (v [3]ResourceVector, ok bool) {
	var ok1, ok2, ok3 bool
	v[0], ok1 = c.get(pc, node, true, 0, "")
	v[1], ok2 = c.get(pc, node, false, 0, "")
	v[2], ok3 = c.get(pc, node, false, 99999*time.Second, c08NoneTyp)
	return v, ok1 && ok2 && ok3
}

// fresh cache fed the metric in force and the assigned pods, in a random order
func (c *c08Run) fresh(node int) *podAssignCache {
	ns := c.ns(node)
	pc := newPodAssignCache(c.est, c.vec, c.args)
	clk := clocktesting.NewFakeClock(c.t0)
	pc.clock = clk
	uids := make([]int, 0, len(ns.pods))
	for uid := range ns.pods {
		uids = append(uids, uid)
	}
	sort.Ints(uids)
	perm := c.r.Perm(len(uids))
	cut := c.r.Intn(len(uids) + 1) // pods before / after the metric
	feed := func(is []int) {
		for _, i := range is {
			s := ns.pods[uids[i]]
			clk.SetTime(c.t0.Add(time.Duration(s.now) * time.Second))
			pc.assign(c08NodeName(node), s.obj)
		}
	}
	feed(perm[:cut])
	if ns.metricObj != nil {
		pc.AddOrUpdateNodeMetric(ns.metricObj)
	}
	feed(perm[cut:])
	return pc
}

func c08Vec2(v ResourceVector) [2]int64 {
	var x [2]int64
	for i := 0; i < 2 && i < len(v); i++ {
		x[i] = v[i]
	}
	return x
}

// genMetricEvent: the next NodeMetric object of a node.  mode 0: spec and status generated anew; 1: SPEC-ONLY update of the
// object in force (status deep-equal, reportIntervalSeconds and the aggregate-duration fields of the collect policy changed);
// 2: STATUS-ONLY update (a new report under the same spec).  The oracles read the CURRENT object (spec + status).
func (c *c08Run) genMetricEvent(node int, near int64, keys []int) (*c08Metric, *slov1alpha1.NodeMetric, int) {
	r := c.r
	prevM, prevObj := c.ns(node).metric, c.ns(node).metricObj
	mode := 0
	if prevM != nil && prevObj != nil {
		mode = []int{0, 0, 0, 1, 1, 2}[r.Intn(6)]
	}
	switch mode {
	case 1:
		mm := *prevM
		for mm.interval == prevM.interval {
			mm.interval = r.Pick([]int64{-1, 0, 10, 30, 60, 120, 300, 600})
		}
		obj := prevObj.DeepCopy()
		if mm.interval >= 0 {
			iv := mm.interval
			obj.Spec.CollectPolicy = &slov1alpha1.NodeMetricCollectPolicy{ReportIntervalSeconds: &iv}
		} else if r.Bool() {
			obj.Spec.CollectPolicy = &slov1alpha1.NodeMetricCollectPolicy{}
		} else {
			obj.Spec.CollectPolicy = nil
		}
		if cp := obj.Spec.CollectPolicy; cp != nil && r.Bool() {
			ad := r.Pick([]int64{60, 300, 600})
			cp.AggregateDurationSeconds = &ad
			cp.NodeAggregatePolicy = &slov1alpha1.AggregatePolicy{Durations: []metav1.Duration{{Duration: time.Duration(ad) * time.Second}, {Duration: 30 * time.Minute}}}
		}
		obj.ResourceVersion = strconv.Itoa(r.Range(2, 999))
		return &mm, obj, 1
	case 2:
		m := c08GenMetric(r, near, keys)
		m.interval = prevM.interval
		obj := m.build(node, c.t0, r)
		obj.Spec = *prevObj.Spec.DeepCopy()
		return m, obj, 2
	}
	m := c08GenMetric(r, near, keys)
	return m, m.build(node, c.t0, r), 0
}

// observe every node after an event and evaluate the cache oracles
func (c *c08Run) observe() {
	fail := func(fpr, format string, a ...interface{}) {
		if c.concOrder != "" { // at the barrier of a concurrent segment
			format += " (quiescent point of a concurrent segment; completed: " + c.concOrder + "; schedule dependent: a replay may need several runs)"
		}
		c.h.Fail(fpr, format, a...)
	}
	for k := 1; k <= c.nNodes; k++ {
		ns := c.ns(k)
		v, ok := c.views(c.pc, k)
		if !ok {
			c.h.Obs("st %d nf", k)
		} else {
			c.h.Obs("st %d %d %d %d %d %d %d", k, v[0][0], v[0][1], v[1][0], v[1][1], v[2][0], v[2][1])
		}
		// a report without Status.UpdateTime: every failing cache oracle is one finding class
		noUpd := ns.metric != nil && !ns.metric.hasUpd
		fp := func(base string) string {
			if c.concOrder != "" {
				return "C08:conc:quiescent-drift"
			}
			if noUpd {
				return "C08:cache-drift:report-without-update-time"
			}
			return base
		}
		if ok != (ns.metric != nil) {
			mp := "C08:metric-presence"
			if c.concOrder != "" {
				mp = "C08:conc:quiescent-drift"
			}
			fail(mp, "node %d: cache has metric=%v, events say %v", k, ok, ns.metric != nil)
			continue
		}
		if !ok {
			continue
		}
		if len(ns.pods) > 0 {
			c.busy++
		}
		if ns.hasStale() {
			continue
		}
		// (a) from-scratch formulas
		ep, en, ef := ns.expect(c.cfg)
		if c08Vec2(v[0]) != ep {
			fail(fp("C08:estimate-formula:prod"), "node %d prod estimate %v, from scratch %v", k, v[0], ep)
		}
		if ns.metric.hasInfo && c08Vec2(v[1]) != en {
			fail(fp("C08:estimate-formula:node"), "node %d estimate %v, from scratch %v", k, v[1], en)
		}
		if c08Vec2(v[2]) != ef {
			fail(fp("C08:estimate-formula:full"), "node %d sum of estimates %v, from scratch %v", k, v[2], ef)
		}
		// (b) fresh cache
		fv, fok := c.views(c.fresh(k), k)
		if !fok {
			fail(fp("C08:cache-drift"), "node %d: fresh cache has no metric", k)
			continue
		}
		for i := range v {
			if c08Vec2(v[i]) != c08Vec2(fv[i]) {
				fail(fp("C08:cache-drift"), "node %d view %d: cache %v, fresh cache %v", k, i, v[i], fv[i])
				break
			}
		}
	}
}

func (c *c08Run) checkFloat(p c08Pod) {
	f := c.cfg.f
	if c.cfg.allowCustom && (p.cf[0] >= 0 || p.cf[1] >= 0) {
		for i := range f {
			if p.cf[i] >= 0 {
				f[i] = p.cf[i]
			}
		}
	}
	req, lim := p.amounts()
	for i := 0; i < 2; i++ {
		q := req[i]
		if lim[i] > q {
			q = lim[i]
		}
		if f[i] < 0 || q == 0 {
			continue
		}
		if got := int64(math.Round(float64(q) * float64(f[i]) / 100)); got != c08OrScale(q, f[i]) {
			c.h.Fail("C08:float-assumption", "round(%d*%d/100)=%d, exact %d", q, f[i], got, c08OrScale(q, f[i]))
		}
	}
}

// buildFilter assembles the Plugin, node and pod of a Filter query (all random choices happen here).
func (c *c08Run) buildFilter(q c08Filter) (*Plugin, *corev1.Pod, *framework.NodeInfo, *framework.CycleState) {
	a := &config.LoadAwareSchedulingArgs{EstimatedScalingFactors: c.args.EstimatedScalingFactors, AllowCustomizeEstimation: c.args.AllowCustomizeEstimation,
		ProdUsageIncludeSys:              c.args.ProdUsageIncludeSys,
		EstimatedSecondsAfterPodScheduled: c.args.EstimatedSecondsAfterPodScheduled, EstimatedSecondsAfterInitialized: c.args.EstimatedSecondsAfterInitialized,
		UsageThresholds: c08ThrMap(q.args.u), ProdUsageThresholds: c08ThrMap(q.args.p),
		FilterExpiredNodeMetrics: c08BoolPtr(q.fexp), EnableScheduleWhenNodeMetricsExpired: c08BoolPtr(q.enable)}
	if q.hasExp {
		v := q.expSec
		a.NodeMetricExpirationSeconds = &v
	}
	if q.args.hasAgg {
		a.Aggregated = &config.LoadAwareSchedulingAggregatedArgs{UsageThresholds: c08ThrMap(q.args.a), UsageAggregationType: c08AggTypes[q.args.aTyp],
			UsageAggregatedDuration: metav1.Duration{Duration: time.Duration(q.args.aDur) * time.Second}}
	}
	est, _ := estimator.NewEstimator(a, nil)
	pl := &Plugin{args: a, vectorizer: c.vec, filterProfile: NewUsageThresholdsFilterProfile(a, c.vec), estimator: est, podAssignCache: c.pc}
	node := &corev1.Node{ObjectMeta: metav1.ObjectMeta{Name: c08NodeName(q.node), Annotations: map[string]string{}}}
	node.Status.Allocatable = c08RL(q.alloc)
	switch q.customKind {
	case 1:
		cu := &extension.CustomUsageThresholds{UsageThresholds: c08ThrMap(q.custom.u), ProdUsageThresholds: c08ThrMap(q.custom.p)}
		if q.custom.hasAgg {
			cu.AggregatedUsage = &extension.CustomAggregatedUsage{UsageThresholds: c08ThrMap(q.custom.a), UsageAggregationType: c08AggTypes[q.custom.aTyp]}
			if q.custom.aDur != 0 || c.r.Bool() {
				cu.AggregatedUsage.UsageAggregatedDuration = &metav1.Duration{Duration: time.Duration(q.custom.aDur) * time.Second}
			}
		}
		b, _ := json.Marshal(cu)
		node.Annotations[extension.AnnotationCustomUsageThresholds] = string(b)
	case 2:
		node.Annotations[extension.AnnotationCustomUsageThresholds] = "{not json"
	}
	switch q.rawKind {
	case 1:
		raw := corev1.ResourceList{}
		if q.raw[0] >= 0 {
			raw[corev1.ResourceCPU] = *resource.NewMilliQuantity(q.raw[0], resource.DecimalSI)
		}
		if q.raw[1] >= 0 {
			raw[corev1.ResourceMemory] = *resource.NewQuantity(q.raw[1], resource.BinarySI)
		}
		extension.SetNodeRawAllocatable(node, raw)
	case 2:
		node.Annotations[extension.AnnotationNodeRawAllocatable] = "{not json"
	}
	ni := framework.NewNodeInfo()
	if q.hasNode {
		ni.SetNode(node)
	}
	pod := q.pod.build(c.t0)
	if q.daemon {
		pod.OwnerReferences = []metav1.OwnerReference{{Kind: "DaemonSet", Name: "ds"}}
	} else if c.r.Bool() {
		pod.OwnerReferences = []metav1.OwnerReference{{Kind: "ReplicaSet", Name: "rs"}}
	}
	state := framework.NewCycleState()
	if c.r.Bool() {
		pl.PreFilter(context.TODO(), state, pod, nil)
	}
	return pl, pod, ni, state
}

func (c *c08Run) doFilter(q c08Filter) {
	h := c.h
	pl, pod, ni, state := c.buildFilter(q)
	c.emitShape(q.pod, pod)
	h.Op("filter %s", q.toks())
	var st *fwktype.Status
	if h.Guard(func() { st = pl.Filter(context.TODO(), state, pod, ni) }) {
		h.Obs("filter panic")
		h.Fail("C08:filter-panic", "Filter panicked")
		return
	}
	verdict := c08Verdict(st, c.vec)
	h.Obs("filter %d", verdict)
	h.Tag(fmt.Sprintf("verdict:%d", verdict))
	c.checkFloat(q.pod)
	c.judgeFilter(q, verdict, "")
}

// judgeFilter is oracle (c): the statement evaluated on one verdict.  sfx "" = the verdict of a direct call of
// Plugin.Filter; ":framework" = the verdict of the scheduler framework for the node (PreFilter, then the Filter plugins
// the framework still runs, on one CycleState) - the fingerprints carry the suffix.
func (c *c08Run) judgeFilter(q c08Filter, verdict int, sfx string) {
	h := c.h
	// ---- oracle (c): the statement on this verdict
	if !q.hasNode || q.daemon {
		if q.hasNode && q.daemon && verdict != 0 {
			h.Fail("C08:daemonset-filtered"+sfx, "daemon-set pod got verdict %d", verdict)
		}
		return
	}
	thr, path, aTyp, aDur := q.selected()
	h.Tag(fmt.Sprintf("path:%d", path))
	if c08Zero(thr) {
		return // load-aware filtering is not configured for this pod on this node
	}
	ns := c.ns(q.node)
	if ns.metric == nil {
		h.Tag("branch:no-metric")
		if verdict != 0 {
			h.Fail("C08:missing-metric-not-skipped"+sfx, "node without a metric report got verdict %d", verdict)
		}
		return
	}
	m := ns.metric
	if q.fexp == 1 && q.hasExp {
		// generated so that the distance to the boundary is >= 2h whenever elapsed wall time could matter
		expired := !m.hasUpd || (q.expSec > 0 && -m.updT >= q.expSec)
		if expired {
			h.Tag("branch:expired")
			want := 0
			if q.enable == 0 {
				want = 3
			}
			if verdict != want {
				h.Fail("C08:expired-metric-switch"+sfx, "expired metric, enableScheduleWhenExpired=%d: verdict %d, configured %d", q.enable, verdict, want)
			}
			return
		}
	}
	if verdict == 3 {
		h.Fail("C08:expired-metric-switch"+sfx, "verdict 'metric expired' although the report is fresh or expiry filtering is off")
		return
	}
	if !m.hasInfo {
		return // a report without node usage: nothing to compare against
	}
	if ns.hasStale() {
		return
	}
	ep, en, _ := ns.expect(c.cfg)
	var base [2]int64
	switch path {
	case 1:
		base = ep
	case 0:
		base = en
	case 2:
		u, ok := m.aggUsage(aTyp, aDur)
		if !ok {
			if aDur != 0 {
				h.Tag("branch:agg-missing-fallback")
				return // no aggregated usage of that period was reported: the statement is silent
			}
			u = m.node
		}
		for i := range base {
			base[i] = en[i] - m.node[i] + u[i]
		}
	}
	inc, _ := c08OrEstimate(c.cfg, q.pod)
	al := q.allocatable()
	c.reach++
	h.Tag("branch:compared")
	for i := 0; i < 2; i++ {
		if thr[i] <= 0 || al[i] == 0 {
			continue
		}
		e := base[i] + inc[i]
		// rounded percentage above the threshold  <=>  200*e >= (2*thr+1)*alloc   (ties: float may round down, tolerated)
		lhs := new(big.Int).Mul(big.NewInt(200), big.NewInt(e))
		rhs := new(big.Int).Mul(big.NewInt(2*thr[i]+1), big.NewInt(al[i]))
		exact := new(big.Int).Add(lhs, big.NewInt(al[i]))
		exact.Div(exact, big.NewInt(2*al[i])) // round half up of 100*e/alloc
		got := int64(math.Round(float64(e) / float64(al[i]) * 100))
		tie := new(big.Int).Mod(new(big.Int).Add(lhs, big.NewInt(al[i])), big.NewInt(2*al[i])).Sign() == 0
		if !(got == exact.Int64() || (tie && got == exact.Int64()-1)) {
			h.Fail("C08:float-assumption", "round(%d/%d*100)=%d, exact %s", e, al[i], got, exact.String())
		}
		if verdict == 0 && lhs.Cmp(rhs) > 0 {
			h.Fail("C08:pass-over-threshold"+sfx, "node %d resource %d: estimate %d of allocatable %d is above %d%% (+0.5) but the pod passed", q.node, i, e, al[i], thr[i])
		}
	}
}

// ---------------------------------------------------------------- raw pod shapes (glue stream)
//
// In a "glue" case half of the pods are generated as RAW shapes: priority-class label / Spec.Priority / QoS label /
// Status.QOSClass, annotation TEXTS (valid, odd and malformed), 1-3 containers, 0-2 init containers (some restartable =
// sidecars), overhead, pod-level resources.  The derived fields of c08Pod (cls, cf, cSched, cInit, req, lim) are computed
// from the raw shape by the harness' own formulas (they feed the oracle); the op line `shape …` carries the raw shape to
// the model, whose glue functions must derive the same values as the real helper functions do on the built object.

type c08RawInit struct {
	always bool
	v      [2][2]int64
}

type c08Raw struct {
	prioLabel int // 0 absent, 1..4 the four known names, 5 another text
	hasPrio   bool
	prio      int32
	qosLabel  int // 0 absent, 1 LSE, 2 LSR, 3 LS, 4 BE, 5 SYSTEM, 6 another text
	statusQos int // Status.QOSClass: 1 Guaranteed, 2 Burstable, 3 BestEffort (always set: the computed class is k8s' business)
	labelsNil bool
	fKind     int
	fText     string
	f         [2]int64
	sKind     int
	sText     string
	sVal      int64
	iKind     int
	iText     string
	iVal      int64
	cs        [][2][2]int64 // per container, per resource index: {request, limit}
	inits     []c08RawInit
	ov        [2]int64
	pl        [2][2]int64 // pod-level {request, limit}, -1 absent
	specID    int
}

var c08PrioLabelText = []string{"", "koord-prod", "koord-mid", "koord-batch", "koord-free", "gold"}
var c08QosLabelText = []string{"", "LSE", "LSR", "LS", "BE", "SYSTEM", "turbo"}
var c08KubeQos = []corev1.PodQOSClass{"", corev1.PodQOSGuaranteed, corev1.PodQOSBurstable, corev1.PodQOSBestEffort}

// the class as the statement of the priority rules reads it (label, else priority band, else QoS label, else kube QoS)
func (w *c08Raw) class() int {
	if w.prioLabel != 0 {
		if w.prioLabel <= 4 {
			return w.prioLabel
		}
	} else if w.hasPrio {
		switch p := w.prio; {
		case p >= 9000 && p <= 9999:
			return 1
		case p >= 7000 && p <= 7999:
			return 2
		case p >= 5000 && p <= 5999:
			return 3
		case p >= 3000 && p <= 3999:
			return 4
		}
	}
	if w.qosLabel >= 1 && w.qosLabel <= 5 && !w.labelsNil {
		if w.qosLabel == 4 {
			return 3
		}
		return 1
	}
	if w.statusQos == 3 {
		return 3
	}
	return 1
}

// effective request / limit of one resource: containers and sidecars add up, an init container needs its own amount
// on top of the sidecars started before it, the pod needs the larger of the two; pod-level amounts replace that;
// overhead is added (to a limit only when there is one)
func (w *c08Raw) amount(idx, rl int) int64 {
	var total, side, initMax int64
	for _, c := range w.cs {
		total += c[idx][rl]
	}
	for _, ic := range w.inits {
		v := ic.v[idx][rl]
		if ic.always {
			total += v
			side += v
			if side > initMax {
				initMax = side
			}
		} else if v+side > initMax {
			initMax = v + side
		}
	}
	if initMax > total {
		total = initMax
	}
	if w.pl[idx][rl] >= 0 {
		total = w.pl[idx][rl]
	}
	if rl == 0 || total != 0 {
		total += w.ov[idx]
	}
	return total
}

func (w *c08Raw) specKey(cls int) string {
	return fmt.Sprint(w.hasPrio, w.prio, w.cs, w.inits, w.ov, w.pl, cls)
}

// derive fills the derived fields of p from p.raw
func (p *c08Pod) derive(ids map[string]int) {
	w := p.raw
	p.cls = w.class()
	p.cf = [2]int64{-1, -1}
	if w.fKind == 1 {
		p.cf = w.f
	}
	p.cSched, p.cInit = -1, -1
	if w.sKind == 1 {
		p.cSched = w.sVal
	}
	if w.iKind == 1 {
		p.cInit = w.iVal
	}
	for i := 0; i < 2; i++ {
		p.req[i], p.lim[i] = w.amount(i, 0), w.amount(i, 1)
	}
	// the identity of the PodSpec is read off the BUILT object (OnUpdate compares the specs with DeepEqual): the resource
	// names depend on the class, but only where an amount is placed - a free-class pod and an all-zero pod carry none, and
	// pod-level resources exist for prod pods only, so a class change through labels may leave the spec as it is
	// (w.specKey alone would call such specs different)
	sp := p.buildRaw(time.Time{}).Spec
	sp.NodeName = ""
	kb, _ := json.Marshal(sp)
	k := string(kb)
	if _, ok := ids[k]; !ok {
		ids[k] = len(ids) + 1
	}
	w.specID = ids[k]
	p.pv = w.specID
}

func (p c08Pod) shapeToks() string {
	w := p.raw
	xs := []int64{int64(w.prioLabel), int64(vB(w.hasPrio)), int64(w.prio), int64(w.qosLabel), int64(w.statusQos), int64(w.specID),
		int64(w.fKind), w.f[0], w.f[1], int64(w.sKind), w.sVal, int64(w.iKind), w.iVal, int64(len(w.cs)), int64(len(w.inits))}
	if w.labelsNil {
		xs[0], xs[3] = 0, 0
	}
	for _, c := range w.cs {
		xs = append(xs, c[0][0], c[0][1], c[1][0], c[1][1])
	}
	for _, ic := range w.inits {
		xs = append(xs, int64(vB(ic.always)), ic.v[0][0], ic.v[0][1], ic.v[1][0], ic.v[1][1])
	}
	xs = append(xs, w.ov[0], w.ov[1], w.pl[0][0], w.pl[0][1], w.pl[1][0], w.pl[1][1])
	return vInts(xs)
}

func (p c08Pod) buildRaw(t0 time.Time) *corev1.Pod {
	w := p.raw
	pod := &corev1.Pod{ObjectMeta: metav1.ObjectMeta{Namespace: "ns", Name: "p" + strconv.Itoa(p.key), UID: types.UID("u" + strconv.Itoa(p.uid)),
		Annotations: map[string]string{}}}
	if !w.labelsNil {
		pod.Labels = map[string]string{"app": "x"}
		if w.prioLabel != 0 {
			pod.Labels[extension.LabelPodPriorityClass] = c08PrioLabelText[w.prioLabel]
		}
		if w.qosLabel != 0 {
			pod.Labels[extension.LabelPodQoS] = c08QosLabelText[w.qosLabel]
		}
	}
	if w.hasPrio {
		v := w.prio
		pod.Spec.Priority = &v
	}
	pod.Status.QOSClass = c08KubeQos[w.statusQos]
	pod.Spec.NodeName = c08NodeName(p.specNode)
	pod.Status.Phase = corev1.PodRunning
	if p.term {
		pod.Status.Phase = []corev1.PodPhase{corev1.PodFailed, corev1.PodSucceeded}[p.uid%2]
	}
	if p.rsv {
		pod.Annotations[reservationutil.AnnotationReservePod] = "true"
	}
	if c := c08CondObj(corev1.PodScheduled, p.sched, t0); c != nil {
		pod.Status.Conditions = append(pod.Status.Conditions, *c)
	}
	if c := c08CondObj(corev1.PodInitialized, p.init, t0); c != nil {
		pod.Status.Conditions = append(pod.Status.Conditions, *c)
	}
	if w.fKind != 0 || w.fText != "" {
		pod.Annotations[extension.AnnotationCustomEstimatedScalingFactors] = w.fText
	}
	if w.sKind != 0 || w.sText != "" {
		pod.Annotations[extension.AnnotationCustomEstimatedSecondsAfterPodScheduled] = w.sText
	}
	if w.iKind != 0 || w.iText != "" {
		pod.Annotations[extension.AnnotationCustomEstimatedSecondsAfterInitialized] = w.iText
	}
	rr := func(v [2][2]int64) corev1.ResourceRequirements {
		var out corev1.ResourceRequirements
		for idx := 0; idx < 2; idx++ {
			if p.cls == 4 {
				continue // no translated name
			}
			if v[idx][0] > 0 {
				if out.Requests == nil {
					out.Requests = corev1.ResourceList{}
				}
				out.Requests[c08ResName(p.cls, idx)] = c08Qty(p.cls, idx, v[idx][0])
			}
			if v[idx][1] > 0 {
				if out.Limits == nil {
					out.Limits = corev1.ResourceList{}
				}
				out.Limits[c08ResName(p.cls, idx)] = c08Qty(p.cls, idx, v[idx][1])
			}
		}
		return out
	}
	for i, cv := range w.cs {
		pod.Spec.Containers = append(pod.Spec.Containers, corev1.Container{Name: "r" + strconv.Itoa(i), Resources: rr(cv)})
	}
	for i, ic := range w.inits {
		c := corev1.Container{Name: "i" + strconv.Itoa(i), Resources: rr(ic.v)}
		if ic.always {
			al := corev1.ContainerRestartPolicyAlways
			c.RestartPolicy = &al
		}
		pod.Spec.InitContainers = append(pod.Spec.InitContainers, c)
	}
	if (w.ov[0] > 0 || w.ov[1] > 0) && p.cls != 4 {
		pod.Spec.Overhead = corev1.ResourceList{}
		for idx := 0; idx < 2; idx++ {
			if w.ov[idx] > 0 {
				pod.Spec.Overhead[c08ResName(p.cls, idx)] = c08Qty(p.cls, idx, w.ov[idx])
			}
		}
	}
	if p.cls == 1 {
		for idx := 0; idx < 2; idx++ {
			for rl := 0; rl < 2; rl++ {
				if w.pl[idx][rl] < 0 {
					continue
				}
				if pod.Spec.Resources == nil {
					pod.Spec.Resources = &corev1.ResourceRequirements{}
				}
				q := c08Qty(1, idx, w.pl[idx][rl])
				if rl == 0 {
					if pod.Spec.Resources.Requests == nil {
						pod.Spec.Resources.Requests = corev1.ResourceList{}
					}
					pod.Spec.Resources.Requests[c08ResName(1, idx)] = q
				} else {
					if pod.Spec.Resources.Limits == nil {
						pod.Spec.Resources.Limits = corev1.ResourceList{}
					}
					pod.Spec.Resources.Limits[c08ResName(1, idx)] = q
				}
			}
		}
	}
	return pod
}

// what the REAL helper functions read from the built object, in the format of the model's `shape` line
func c08ShapeObs(obj *corev1.Pod) string {
	cls := map[extension.PriorityClass]int{extension.PriorityProd: 1, extension.PriorityMid: 2, extension.PriorityBatch: 3, extension.PriorityFree: 4}[extension.GetPodPriorityClassWithDefault(obj)]
	cf := [2]int64{-1, -1}
	if m := extension.GetCustomEstimatedScalingFactors(obj); m != nil {
		if v, ok := m[corev1.ResourceCPU]; ok {
			cf[0] = v
		}
		if v, ok := m[corev1.ResourceMemory]; ok {
			cf[1] = v
		}
	}
	reqs, lims := resourceapi.PodRequests(obj, resourceapi.PodResourcesOptions{}), resourceapi.PodLimits(obj, resourceapi.PodResourcesOptions{})
	var a [4]int64
	for idx := 0; idx < 2 && cls >= 1 && cls <= 3; idx++ {
		name := extension.TranslateResourceNameByPriorityClass(extension.GetPodPriorityClassWithDefault(obj), []corev1.ResourceName{corev1.ResourceCPU, corev1.ResourceMemory}[idx])
		rq, lq := reqs[name], lims[name]
		if name == corev1.ResourceCPU {
			a[2*idx], a[2*idx+1] = rq.MilliValue(), lq.MilliValue()
		} else {
			a[2*idx], a[2*idx+1] = rq.Value(), lq.Value()
		}
	}
	return fmt.Sprintf("shape %d %d %d %d %d %d %d %d %d", cls, cf[0], cf[1], extension.GetCustomEstimatedSecondsAfterPodScheduled(obj),
		extension.GetCustomEstimatedSecondsAfterInitialized(obj), a[0], a[1], a[2], a[3])
}

// emitShape announces the raw shape of the pod of the next pod-carrying op and checks the glue on the built object
func (c *c08Run) emitShape(p c08Pod, obj *corev1.Pod) {
	if p.st.kind != 0 { // container-status resources of the next pod: announced to the model, which does not read them
		c.h.Op("pst %s", p.st.toks())
		c.h.Tag(fmt.Sprintf("pod:status-resources=%d", p.st.kind))
	}
	if p.raw == nil {
		return
	}
	c.h.Op("shape %s", p.shapeToks())
	got := c08ShapeObs(obj)
	c.h.Obs("%s", got)
	c.h.Tag(fmt.Sprintf("glue:class=%d:via=%s", p.cls, p.raw.via()))
	c.h.Tag(fmt.Sprintf("glue:factors-kind=%d", p.raw.fKind))
	req, lim := p.amounts()
	want := fmt.Sprintf("shape %d %d %d %d %d %d %d %d %d", p.cls, p.cf[0], p.cf[1], p.cSched, p.cInit, req[0], lim[0], req[1], lim[1])
	if got != want {
		c.h.Fail("C08:glue-shape", "the helper functions read [%s] from the pod, its shape says [%s]", got, want)
	}
}

func (w *c08Raw) via() string {
	switch {
	case w.prioLabel >= 1 && w.prioLabel <= 4 && !w.labelsNil:
		return "label"
	case (w.prioLabel == 0 || w.labelsNil) && w.hasPrio && w.prio >= 3000 && w.prio <= 9999 && (w.prio%2000) >= 1000:
		return "priority"
	case w.qosLabel >= 1 && w.qosLabel <= 5 && !w.labelsNil:
		return "qos-label"
	}
	return "kube-qos"
}

func c08GenAmt(r *vRand, idx int) [2]int64 {
	var v [2]int64
	gen := c08CPU
	if idx == 1 {
		gen = c08Mem
	}
	if !r.Chance(1, 4) {
		v[0] = gen(r)
	}
	switch r.Intn(4) {
	case 0:
	case 1:
		v[1] = v[0]
	case 2:
		v[1] = v[0] * 2
	default:
		v[1] = gen(r)
	}
	return v
}

func c08GenFactorsText(r *vRand, w *c08Raw) {
	w.f = [2]int64{-1, -1}
	switch r.Intn(12) {
	case 0, 1, 2:
		w.fKind, w.fText = 0, ""
	case 3:
		w.fKind, w.fText = 1, r.pickS([]string{"{}", "null", `{"nvidia.com/gpu": 50}`, ` { } `})
	case 4:
		w.fKind, w.fText = 2, r.pickS([]string{"{not json", `{"cpu": "80"}`, `{"cpu": 1.5}`, `[80, 70]`, `{"cpu": 9223372036854775808}`, `{"cpu": 80,}`, `80`, `"x"`})
	default:
		w.fKind = 1
		m := map[string]int64{}
		if r.Chance(3, 4) {
			w.f[0] = c08Factor(r)
			if w.f[0] < 0 {
				w.f[0] = 0
			}
			m["cpu"] = w.f[0]
		}
		if r.Chance(3, 4) {
			w.f[1] = c08Factor(r)
			if w.f[1] < 0 {
				w.f[1] = 0
			}
			m["memory"] = w.f[1]
		}
		if r.Chance(1, 4) {
			m["example.com/foo"] = 33
		}
		b, _ := json.Marshal(m)
		w.fText = string(b)
	}
}

func c08GenSecsText(r *vRand) (kind int, text string, val int64) {
	switch r.Intn(8) {
	case 0, 1, 2:
		return 0, "", 0
	case 3:
		return 2, r.pickS([]string{"abc", "1.5", " 5", "5s", "99999999999999999999", "0x10", "1e2"}), 0
	case 4:
		v := r.Pick([]int64{-1, -30, 0})
		return 1, strconv.FormatInt(v, 10), v
	case 5:
		v := r.Pick([]int64{10, 30, 300})
		return 1, "+" + strconv.FormatInt(v, 10), v
	default:
		v := r.Pick([]int64{0, 10, 30, 100, 300})
		return 1, strconv.FormatInt(v, 10), v
	}
}

func (r *vRand) pickS(xs []string) string { return xs[r.Intn(len(xs))] }

func c08GenClassShape(r *vRand, w *c08Raw) {
	w.prioLabel, w.hasPrio, w.prio, w.qosLabel, w.labelsNil = 0, false, 0, 0, false
	w.statusQos = r.Range(1, 3)
	bands := []int32{9500, 9000, 9999, 7500, 5000, 5999, 3500}
	switch r.Intn(6) {
	case 0, 1: // by Spec.Priority
		w.hasPrio, w.prio = true, bands[r.Intn(len(bands))]
	case 2: // by label; Spec.Priority says something else or nothing
		w.prioLabel = r.Range(1, 4)
		if r.Bool() {
			w.hasPrio, w.prio = true, bands[r.Intn(len(bands))]
		}
	case 3: // unknown label text hides an in-band priority
		w.prioLabel = 5
		w.hasPrio, w.prio = true, bands[r.Intn(len(bands))]
	default: // no usable priority: nil, 0, between the bands, above them
		if r.Chance(2, 3) {
			w.hasPrio = true
			w.prio = int32(r.Pick([]int64{0, 100, 2999, 4000, 6500, 8999, 10000, 2000000000, -1}))
		}
		w.labelsNil = r.Chance(1, 5)
	}
	if r.Chance(1, 2) {
		w.qosLabel = r.Range(1, 6)
	}
}

func c08GenRaw(r *vRand, p *c08Pod, ids map[string]int) {
	w := &c08Raw{pl: [2][2]int64{{-1, -1}, {-1, -1}}}
	c08GenClassShape(r, w)
	c08GenFactorsText(r, w)
	w.sKind, w.sText, w.sVal = c08GenSecsText(r)
	w.iKind, w.iText, w.iVal = c08GenSecsText(r)
	for i, n := 0, r.Range(1, 3); i < n; i++ {
		w.cs = append(w.cs, [2][2]int64{c08GenAmt(r, 0), c08GenAmt(r, 1)})
	}
	if r.Chance(1, 2) {
		for i, n := 0, r.Range(1, 3); i < n; i++ {
			w.inits = append(w.inits, c08RawInit{always: r.Chance(1, 3), v: [2][2]int64{c08GenAmt(r, 0), c08GenAmt(r, 1)}})
		}
	}
	if r.Chance(1, 4) {
		w.ov = [2]int64{int64(r.Range(0, 4)) * 50, int64(r.Range(0, 4)) * 16 * c08MiB}
	}
	if w.class() == 1 && r.Chance(1, 5) {
		for idx := 0; idx < 2; idx++ {
			if r.Bool() {
				w.pl[idx][0] = c08GenAmt(r, idx)[0]
			}
			if r.Bool() {
				w.pl[idx][1] = c08GenAmt(r, idx)[1]
			}
		}
	}
	p.raw = w
	p.derive(ids)
}

// a change of the raw shape for an informer update: metadata only (labels / annotation texts) or in the PodSpec
func c08MutRaw(r *vRand, p *c08Pod, ids map[string]int) {
	w := *p.raw // copy; slices are replaced, never written through
	switch r.Intn(6) {
	case 0: // labels only: the class may change while the spec stays
		old := w
		c08GenClassShape(r, &w)
		w.hasPrio, w.prio = old.hasPrio, old.prio
	case 1:
		c08GenFactorsText(r, &w)
	case 2:
		w.sKind, w.sText, w.sVal = c08GenSecsText(r)
		w.iKind, w.iText, w.iVal = c08GenSecsText(r)
	case 3: // a container's resources
		cs := append([][2][2]int64{}, w.cs...)
		cs[r.Intn(len(cs))] = [2][2]int64{c08GenAmt(r, 0), c08GenAmt(r, 1)}
		w.cs = cs
	case 4: // Spec.Priority
		w.hasPrio, w.prio = true, []int32{9500, 9100, 7500, 5500, 3500, 0}[r.Intn(6)]
	default: // an init container more / less
		if len(w.inits) > 0 && r.Bool() {
			w.inits = append([]c08RawInit{}, w.inits[:len(w.inits)-1]...)
		} else {
			w.inits = append(append([]c08RawInit{}, w.inits...), c08RawInit{always: r.Bool(), v: [2][2]int64{c08GenAmt(r, 0), c08GenAmt(r, 1)}})
		}
	}
	if w.class() != 1 {
		w.pl = [2][2]int64{{-1, -1}, {-1, -1}}
	}
	p.raw = &w
	p.derive(ids)
}

// ---------------------------------------------------------------- concurrency streams
//
// (1) race pairs: on a node of its own ("race") the two single-cleanup races of the design are run k times, both
//     goroutines released from a spin barrier: {NodeMetric only} assign || DeleteNodeMetric, and {one pod only}
//     AddOrUpdateNodeMetric || pod delete.  Whatever the interleaving, the added object must be in the cache when
//     both calls have returned (Lean: Conc.no_event_lost); the trial ends with the entry cleaned up again, so the
//     model's cache is not changed by the op (`race <k>` -> `race 0 0`).
// (2) concurrent segments inside a history: goroutine P replays pod events, goroutine M replays NodeMetric events of
//     the same node, goroutine F calls Filter / Get; at the barrier (all returned) the usual observation + oracles run.
//     Pod events and metric events act on disjoint parts of a nodeInfo and the sums are a function of (report, pods)
//     (Lean: cache_eq_from_report), so the quiescent state does not depend on the interleaving: the model replays
//     "P's events, then M's events" between `cbegin` and `cend` and observes once.
//     At most ONE delete-type event per segment: two cleanups of one entry during one add-type call exhaust its two
//     attempts (Lean: Conc.two_cleanups_counterexample) — documented limit of the source ("we only try 2 times").

func c08Spin(cond func() bool) {
	for i := 0; !cond(); i++ {
		if i&1023 == 1023 {
			runtime.Gosched()
		}
	}
}

// racePairs returns the number of lost pods / lost reports and a description of the first loss.
func (c *c08Run) racePairs(k int) (lostPod, lostMetric int, what string) {
	const node = "race"
	pod := c08Pod{uid: 90, key: 90, cls: 1, cf: [2]int64{-1, -1}, cSched: -1, cInit: -1, req: [2]int64{500, 64 * c08MiB}}.build(c.t0)
	pod.Spec.NodeName = node
	nm := &slov1alpha1.NodeMetric{ObjectMeta: metav1.ObjectMeta{Name: node}}
	nm.Status.UpdateTime = &metav1.Time{Time: c.t0}
	nm.Status.NodeMetric = &slov1alpha1.NodeMetricInfo{}
	mh := c.pc.NodeMetricHandler()
	var phase, doneA, doneB, seq atomic.Int64
	var tickA, tickB int64
	var kind atomic.Int64
	var wg sync.WaitGroup
	var panics atomic.Int64
	worker := func(done *atomic.Int64, tick *int64, f func(kind int64)) {
		defer wg.Done()
		for t := int64(1); t <= int64(k); t++ {
			c08Spin(func() bool { return phase.Load() == t })
			func() {
				defer func() {
					if recover() != nil {
						panics.Add(1)
					}
				}()
				f(kind.Load())
			}()
			*tick = seq.Add(1)
			done.Store(t)
		}
	}
	wg.Add(2)
	go worker(&doneA, &tickA, func(kd int64) { // the add-type call
		if kd == 0 {
			c.pc.OnAdd(pod, false)
		} else {
			mh.OnAdd(nm, false)
		}
	})
	go worker(&doneB, &tickB, func(kd int64) { // the delete-type call that empties the entry
		if kd == 0 {
			mh.OnDelete(nm)
		} else {
			c.pc.OnDelete(pod)
		}
	})
	for t := int64(1); t <= int64(k); t++ {
		kd := t & 1
		if kd == 0 {
			c.pc.AddOrUpdateNodeMetric(nm)
		} else {
			c.pc.assign(node, pod)
		}
		kind.Store(kd)
		phase.Store(t)
		c08Spin(func() bool { return doneA.Load() == t && doneB.Load() == t })
		order := "add-type call returned first"
		if tickB < tickA {
			order = "delete-type call returned first"
		}
		if kd == 0 {
			if c.pc.getPodAssignInfo(node, pod) == nil {
				lostPod++
				if what == "" {
					what = fmt.Sprintf("trial %d: {report only} OnAdd(pod) || NodeMetric OnDelete, %s: the pod is in no nodeInfo afterwards", t, order)
				}
			}
		} else {
			if ni, ok := c.pc.getNodeInfo(node); !ok || ni.nodeMetric == nil {
				lostMetric++
				if what == "" {
					what = fmt.Sprintf("trial %d: {one pod only} NodeMetric OnAdd || pod OnDelete, %s: the report is not in force afterwards", t, order)
				}
			}
		}
		c.pc.unAssign(node, pod)
		c.pc.DeleteNodeMetric(node)
	}
	wg.Wait()
	if _, ok := c.pc.getNodeInfo(node); ok && what == "" {
		what = "the emptied entry was not removed from the cache"
		lostMetric++
	}
	if panics.Load() != 0 && what == "" {
		what = "a handler panicked"
		lostPod++
	}
	return
}

func (c *c08Run) doRace(k int) {
	h := c.h
	h.Op("race %d", k)
	h.Tag("op:race")
	lp, lm, what := c.racePairs(k)
	h.Obs("race %d %d", lp, lm)
	if lp+lm > 0 {
		h.Fail("C08:conc:event-lost-in-cleanup-race", "%d of %d racing pairs lost the pod, %d lost the report; %s "+
			"(schedule dependent: a replay may need several runs)", lp, k, lm, what)
	}
}

type c08ConcEv struct {
	pod    *c08Pod     // the pod the op line carries (its raw shape, if any, is announced before the line)
	obj    *corev1.Pod
	op     string
	run    func()
	shadow func()
	ticket int64
}

// shadow semantics of an informer update (the same reading as in the sequential stream)
func (c *c08Run) shUpdate(oldNode int, p c08Pod, obj *corev1.Pod, now int64) {
	if oldNode != 0 && oldNode != p.specNode {
		c.shUnassign(oldNode, p.uid)
	}
	if p.specNode != 0 {
		cur, cached := c.ns(p.specNode).pods[p.uid]
		switch {
		case !cached:
			c.shAssign(p.specNode, p, obj, now)
		case p.term:
			c.shUnassign(p.specNode, p.uid)
		case !c08SpecEq(p, cur.pod) || p.sched != cur.pod.sched || p.init != cur.pod.init:
			c.shAssign(p.specNode, p, obj, now)
		default:
			c.markStale(p.specNode, p)
			c.shRefresh(p.specNode, p, obj)
		}
	}
	c.pool[p.uid] = p
}

// one concurrent segment on node `node`
func (c *c08Run) doSegment(node, nUID int, near, now int64) {
	h, r := c.h, c.r
	mh := c.pc.NodeMetricHandler()
	var pEvs, mEvs []*c08ConcEv
	deletes := 0
	// a working copy of "where is each pod" so that the generated events make sense in sequence
	onNode := map[int]bool{}
	for uid := range c.ns(node).pods {
		onNode[uid] = true
	}
	pool := map[int]c08Pod{}
	for k, v := range c.pool {
		pool[k] = v
	}
	nP := r.Range(1, 4)
	for i := 0; i < nP; i++ {
		uid := r.Range(1, nUID)
		kind := r.Intn(10)
		if kind >= 7 && (deletes > 0 || !onNode[uid]) {
			kind = r.Intn(7)
		}
		switch {
		case kind < 3: // informer add on this node
			p := c08GenPod(r, c.cfg, uid, c.nNodes, near)
			p.specNode, p.term, p.rsv = node, false, false
			obj := p.build(c.t0)
			inInit := r.Bool()
			pEvs = append(pEvs, &c08ConcEv{pod: &p, obj: obj, op: fmt.Sprintf("add %d %s", now, p.toks()),
				run:    func() { c.pc.OnAdd(obj, inInit) },
				shadow: func() { c.shAssign(p.specNode, p, obj, now); c.pool[p.uid] = p }})
			c.checkFloat(p)
			pool[uid], onNode[uid] = p, true
		case kind < 5: // Reserve on this node
			p := c08GenPod(r, c.cfg, uid, c.nNodes, near)
			if old, ok := pool[uid]; ok && r.Bool() {
				p = old
			}
			p.specNode, p.term, p.rsv = 0, false, false
			obj := p.build(c.t0)
			pEvs = append(pEvs, &c08ConcEv{pod: &p, obj: obj, op: fmt.Sprintf("rsv %d %d %s", node, now, p.toks()),
				run:    func() { c.pl.Reserve(context.TODO(), framework.NewCycleState(), obj, c08NodeName(node)) },
				shadow: func() { c.shAssign(node, p, obj, now); c.pool[p.uid] = p }})
			c.checkFloat(p)
			pool[uid], onNode[uid] = p, true
		case kind < 7: // informer update in place (spec / conditions / nothing)
			old, known := pool[uid]
			p := old
			if !known {
				p = c08GenPod(r, c.cfg, uid, c.nNodes, near)
				p.term, p.rsv = false, false
				old = p
			}
			p.specNode = node
			if p.term { // a terminal pod stays terminal here (that would be a delete-type event)
				p.term = false
			}
			switch mut := r.Intn(5); {
			case mut == 4: // status-only
				p.st = c08GenStat(r, p)
			case p.raw != nil && mut != 1:
				c08MutRaw(r, &p, c.cfg.specIDs)
			case mut == 0:
				c08GenRes(r, &p)
			case mut == 1:
				p.sched = c08Cond{k: 2, t: now}
			case mut == 2:
				p.cls = []int{1, 1, 2, 3, 4}[r.Intn(5)]
			}
			oldNode := old.specNode
			if oldNode != 0 && oldNode != node {
				oldNode = node // no move between nodes inside a segment (that would be a delete-type event on the old node)
			}
			o := old
			o.specNode = oldNode
			var oldObj interface{} = o.build(c.t0)
			obj := p.build(c.t0)
			pEvs = append(pEvs, &c08ConcEv{pod: &p, obj: obj, op: fmt.Sprintf("upd %d %d %s", oldNode, now, p.toks()),
				run:    func() { c.pc.OnUpdate(oldObj, obj) },
				shadow: func() { c.shUpdate(oldNode, p, obj, now) }})
			c.checkFloat(p)
			pool[uid], onNode[uid] = p, true
		default: // the one delete-type pod event: informer delete / Unreserve / terminal update
			deletes++
			p := pool[uid]
			if p.uid == 0 {
				p = c08GenPod(r, c.cfg, uid, c.nNodes, near)
			}
			p.specNode = node
			switch r.Intn(3) {
			case 0:
				obj := p.build(c.t0)
				tomb := r.Bool()
				pEvs = append(pEvs, &c08ConcEv{op: fmt.Sprintf("del %d %d", node, uid),
					run: func() {
						if tomb {
							c.pc.OnDelete(cache.DeletedFinalStateUnknown{Key: "ns/" + obj.Name, Obj: obj})
						} else {
							c.pc.OnDelete(obj)
						}
					},
					shadow: func() { c.shUnassign(node, uid); delete(c.pool, uid) }})
				delete(pool, uid)
			case 1:
				obj := p.build(c.t0)
				pEvs = append(pEvs, &c08ConcEv{op: fmt.Sprintf("unrsv %d %d", node, uid),
					run:    func() { c.pl.Unreserve(context.TODO(), framework.NewCycleState(), obj, c08NodeName(node)) },
					shadow: func() { c.shUnassign(node, uid) }})
			default:
				o := p
				p.term = true
				var oldObj interface{} = o.build(c.t0)
				obj := p.build(c.t0)
				pEvs = append(pEvs, &c08ConcEv{pod: &p, obj: obj, op: fmt.Sprintf("upd %d %d %s", node, now, p.toks()),
					run:    func() { c.pc.OnUpdate(oldObj, obj) },
					shadow: func() { c.shUpdate(node, p, obj, now) }})
				pool[uid] = p
			}
			delete(onNode, uid)
		}
	}
	nM := r.Range(1, 3)
	segPrev := c.ns(node).metricObj // the object the informer would hand to UpdateFunc as `old`
	for i := 0; i < nM; i++ {
		if deletes == 0 && r.Chance(1, 3) {
			deletes++
			segPrev = nil
			obj := &slov1alpha1.NodeMetric{ObjectMeta: metav1.ObjectMeta{Name: c08NodeName(node)}}
			tomb := r.Bool()
			mEvs = append(mEvs, &c08ConcEv{op: fmt.Sprintf("delmetric %d", node),
				run: func() {
					if tomb {
						mh.OnDelete(cache.DeletedFinalStateUnknown{Key: obj.Name, Obj: obj})
					} else {
						mh.OnDelete(obj)
					}
				},
				shadow: func() { c.ns(node).metric, c.ns(node).metricObj = nil, nil }})
			continue
		}
		keys := []int{}
		for k := 1; k <= nUID; k++ {
			keys = append(keys, k)
		}
		m := c08GenMetric(r, near, keys)
		obj := m.build(node, c.t0, r)
		viaUpdate := r.Bool()
		prevObj := segPrev
		segPrev = obj
		mEvs = append(mEvs, &c08ConcEv{op: fmt.Sprintf("metric %d %s", node, m.toks()),
			run: func() {
				if viaUpdate && prevObj != nil {
					mh.OnUpdate(prevObj, obj)
				} else if viaUpdate {
					mh.OnUpdate(nil, obj)
				} else {
					mh.OnAdd(obj, false)
				}
			},
			shadow: func() { c.ns(node).metric, c.ns(node).metricObj = m, obj }})
	}
	// reader goroutine: Filter and Get on the same node, prepared up front
	type rd struct{ run func() int }
	var reads []rd
	for i, n := 0, r.Range(2, 5); i < n; i++ {
		if r.Chance(1, 3) {
			prod, typ, dur := r.Bool(), c08AggTypes[r.Range(0, 3)], time.Duration(r.Pick([]int64{0, 300, 900}))*time.Second
			reads = append(reads, rd{func() int {
				_, est, _, err := c.pc.GetNodeMetricAndEstimatedOfExisting(c08NodeName(node), prod, metav1.Duration{Duration: dur}, typ, false)
				if err == nil && len(est) != 2 {
					return 9
				}
				return 0
			}})
			continue
		}
		q := c.genFilter()
		q.node, q.hasNode = node, true
		pl, pod, ni, state := c.buildFilter(q)
		reads = append(reads, rd{func() int { return c08Verdict(pl.Filter(context.TODO(), state, pod, ni), c.vec) }})
	}

	h.Op("cbegin")
	for _, e := range pEvs {
		if e.pod != nil {
			c.emitShape(*e.pod, e.obj)
		}
		h.Op("%s", e.op)
	}
	for _, e := range mEvs {
		h.Op("%s", e.op)
	}
	h.Op("cend")
	h.Tag("op:segment")
	h.Tag(fmt.Sprintf("segment:deletes=%d", deletes))

	var gate, seq, panics, badRead atomic.Int64
	var wg sync.WaitGroup
	runAll := func(evs []*c08ConcEv) {
		defer wg.Done()
		c08Spin(func() bool { return gate.Load() == 1 })
		for _, e := range evs {
			func() {
				defer func() {
					if recover() != nil {
						panics.Add(1)
					}
				}()
				e.run()
			}()
			e.ticket = seq.Add(1)
		}
	}
	wg.Add(3)
	go runAll(pEvs)
	go runAll(mEvs)
	go func() {
		defer wg.Done()
		c08Spin(func() bool { return gate.Load() == 1 })
		for _, rdr := range reads {
			func() {
				defer func() {
					if recover() != nil {
						panics.Add(1)
					}
				}()
				if v := rdr.run(); v > 3 {
					badRead.Add(1)
				}
			}()
		}
	}()
	gate.Store(1)
	wg.Wait()
	for _, e := range pEvs {
		e.shadow()
	}
	for _, e := range mEvs {
		e.shadow()
	}
	// the observed order of completed calls, for the replay record
	all := append(append([]*c08ConcEv{}, pEvs...), mEvs...)
	sort.Slice(all, func(i, j int) bool { return all[i].ticket < all[j].ticket })
	names := make([]string, len(all))
	for i, e := range all {
		names[i] = strings.Join(strings.Fields(e.op)[:2], " ")
	}
	c.concOrder = strings.Join(names, "; ")
	if panics.Load() != 0 {
		h.Fail("C08:conc:panic", "a handler or Filter panicked in a concurrent segment (completed: %s)", c.concOrder)
	}
	if badRead.Load() != 0 {
		h.Fail("C08:conc:reader", "Filter / Get returned an impossible result during a concurrent segment (completed: %s)", c.concOrder)
	}
	// lost events, named before the sums are compared
	ns := c.ns(node)
	if ni, ok := c.pc.getNodeInfo(c08NodeName(node)); ns.metric != nil && (!ok || func() bool { ni.RLock(); defer ni.RUnlock(); return ni.nodeMetric == nil }()) {
		h.Fail("C08:conc:event-lost-in-cleanup-race", "node %d: the NodeMetric added in the segment is not in force at the barrier (completed: %s; schedule dependent: a replay may need several runs)", node, c.concOrder)
	}
	for uid, sp := range ns.pods {
		if c.pc.getPodAssignInfo(c08NodeName(node), sp.obj) == nil {
			h.Fail("C08:conc:event-lost-in-cleanup-race", "node %d: pod %d assigned in the segment is not in the cache at the barrier (completed: %s; schedule dependent: a replay may need several runs)", node, uid, c.concOrder)
		}
	}
	c.observe()
	c.concOrder = ""
}

func (c *c08Run) genFilter() c08Filter {
	r := c.r
	q := c08Filter{node: r.Range(1, c.nNodes), hasNode: !r.Chance(1, 40), daemon: r.Chance(1, 20),
		args: c08GenThr(r, true), custom: c08Thr{u: [2]int64{-1, -1}, p: [2]int64{-1, -1}, a: [2]int64{-1, -1}},
		fexp: []int{-1, 0, 1, 1, 1}[r.Intn(5)], hasExp: !r.Chance(1, 6), enable: []int{-1, 0, 0, 1}[r.Intn(4)], raw: [2]int64{-1, -1}}
	switch r.Intn(6) {
	case 0, 1:
		q.customKind = 1
		q.custom = c08GenThr(r, false)
	case 2:
		q.customKind = 2
	}
	q.pod = c08GenPod(r, c.cfg, 50, c.nNodes, c08Base)
	q.pod.term, q.pod.rsv = false, false
	ns := c.ns(q.node)
	// expiry: keep away from the wall-clock dependent side of the boundary
	age := int64(20000)
	if ns.metric != nil && ns.metric.hasUpd {
		age = -ns.metric.updT
	}
	switch r.Intn(8) {
	case 0:
		q.expSec = 0
	case 1:
		q.expSec = -5
	case 2:
		q.expSec = age // boundary: elapsed >= 0 keeps it expired
	case 3:
		q.expSec = age - int64(r.Range(1, 5000))
	case 4:
		q.expSec = r.Pick([]int64{1, 60, 180})
	default:
		q.expSec = age + 7200 + int64(r.Range(0, 100000))
		if q.expSec <= 0 {
			q.expSec = 1000000
		}
	}
	if ns.metric != nil && ns.metric.hasUpd && q.expSec > 0 && -ns.metric.updT < q.expSec && q.expSec+ns.metric.updT < 7200 {
		q.expSec = 7200 - ns.metric.updT // restore the margin
	}
	// allocatable: random, or steered to the rounding boundary of the selected threshold
	q.alloc = [2]int64{r.Pick([]int64{0, 1000, 2000, 4000, 8000, 16000, 32000, 64000}), r.Pick([]int64{0, 1, 4, 8, 16, 64, 256}) * 1024 * c08MiB}
	if r.Chance(1, 4) {
		q.rawKind = 1
		if r.Bool() {
			q.raw[0] = q.alloc[0] / 2
		}
		if r.Bool() {
			q.raw[1] = q.alloc[1] / 2
		}
	} else if r.Chance(1, 12) {
		q.rawKind = 2
	}
	if ns.metric != nil && r.Chance(3, 5) {
		thr, path, aTyp, aDur := q.selected()
		ep, en, ef := ns.expect(c.cfg)
		base := en
		if path == 1 {
			base = ep
		} else if path == 2 {
			if u, ok := ns.metric.aggUsage(aTyp, aDur); ok || aDur == 0 {
				if !ok {
					u = ns.metric.node
				}
				base = [2]int64{en[0] - ns.metric.node[0] + u[0], en[1] - ns.metric.node[1] + u[1]}
			} else {
				base = ef
			}
		}
		inc, _ := c08OrEstimate(c.cfg, q.pod)
		for i := 0; i < 2; i++ {
			if thr[i] <= 0 {
				continue
			}
			e := base[i] + inc[i]
			var al int64
			switch r.Intn(4) {
			case 0: // exactly at / next to the rounding boundary
				al = 200*e/(2*thr[i]+1) + int64(r.Range(-1, 1))
			case 1: // exactly at / next to the plain percentage
				al = 100*e/thr[i] + int64(r.Range(-1, 1))
			default:
				al = 100 * e / thr[i] * int64(r.Range(60, 160)) / 100
			}
			if al < 1 {
				al = 1
			}
			if al > 1<<38 {
				al = 1 << 38
			}
			if q.rawKind == 1 && q.raw[i] >= 0 {
				q.raw[i] = al
			} else {
				q.alloc[i] = al
			}
		}
	}
	return q
}

func TestVerifC08(t *testing.T) {
	h := vOpen("C08")
	if h == nil {
		t.Skip("VERIF_OUT not set")
	}
	t0 := time.Now().Truncate(time.Second)
	n := h.N(3000, 40000)
	for idx := 0; idx < n; idx++ {
		r := h.Begin(idx)
		if r == nil {
			continue
		}
		c := &c08Run{h: h, r: r, t0: t0, shadow: map[int]*c08NodeShadow{}, pool: map[int]c08Pod{}}
		c.cfg = c08Cfg{f: [2]int64{c08Factor(r), c08Factor(r)}, allowCustom: r.Chance(1, 3), secSched: c08Secs(r), secInit: c08Secs(r), prodIncSys: r.Bool()}
		if r.Chance(3, 4) { // mostly the usual configuration: both factors present
			c.cfg.f = [2]int64{int64(r.Range(50, 100)), int64(r.Range(50, 100))}
		}
		c.cfg.glue, c.cfg.specIDs = idx%4 == 1, map[string]int{} // every 4th case: raw pod shapes (glue stream)
		c.nNodes = r.Range(1, 3)
		c.args = c.cfg.args()
		c.vec = NewResourceVectorizerFromArgs(c.args)
		if len(c.vec) != 2 || c.vec[0] != corev1.ResourceCPU || c.vec[1] != corev1.ResourceMemory {
			t.Fatalf("vectorizer is not [cpu memory]: %v", c.vec)
		}
		c.est, _ = estimator.NewEstimator(c.args, nil)
		c.pc = newPodAssignCache(c.est, c.vec, c.args)
		c.clk = clocktesting.NewFakeClock(t0)
		c.pc.clock = c.clk
		c.pl = &Plugin{args: c.args, vectorizer: c.vec, filterProfile: NewUsageThresholdsFilterProfile(c.args, c.vec), estimator: c.est, podAssignCache: c.pc}
		mh := c.pc.NodeMetricHandler()
		h.Op("cfg %d %d %d %d %d %d %d", c.cfg.f[0], c.cfg.f[1], vB(c.cfg.allowCustom), c.cfg.secSched, c.cfg.secInit, vB(c.cfg.prodIncSys), c.nNodes)

		steps := r.Range(6, 30)
		if r.Chance(1, 10) {
			steps = r.Range(40, 70)
		}
		nUID := r.Range(2, 6)
		near := c08Time(r)
		conc := idx%8 == 7 // every 8th case: concurrency streams (race pairs + concurrent segments inside the history)
		if conc {
			h.Tag("case:concurrent")
			k := 300
			if h.OnlyCase >= 0 {
				k = 100000 // replay of one case: enough pairs to meet a narrow window again
			}
			c.doRace(k)
		}
		for s := 0; s < steps; s++ {
			now := c08Time(r)
			if r.Chance(1, 2) {
				now = near
			}
			c.setClock(now)
			panicked := false
			kind := r.Intn(100)
			if conc && r.Chance(1, 3) {
				c.doSegment(r.Range(1, c.nNodes), nUID, near, now)
				continue
			}
			switch {
			case kind < 18: // node metric add/update
				node := r.Range(1, c.nNodes)
				keys := []int{}
				for k := 1; k <= nUID; k++ {
					keys = append(keys, k)
				}
				m, obj, mode := c.genMetricEvent(node, near, keys)
				prevObj := c.ns(node).metricObj
				via := r.Intn(3) // 0 AddFunc, 1 UpdateFunc, 2 the cache method
				if mode != 0 {
					via = 1 // an update of the object the informer knows: UpdateFunc(old, new) of the REGISTERED handler
				}
				h.Op("mvia %d %d %d", via, vB(via == 1 && prevObj != nil), mode)
				h.Op("metric %d %s", node, m.toks())
				h.Tag("op:metric")
				h.Tag(fmt.Sprintf("metric:via=%d:mode=%s", via, []string{"spec+status", "spec-only", "status-only"}[mode]))
				panicked = h.Guard(func() {
					switch via {
					case 0:
						mh.OnAdd(obj, false)
					case 1:
						if prevObj != nil {
							mh.OnUpdate(prevObj, obj)
						} else {
							mh.OnUpdate(nil, obj)
						}
					default:
						c.pc.AddOrUpdateNodeMetric(obj)
					}
				})
				c.ns(node).metric, c.ns(node).metricObj = m, obj
				if m.hasUpd {
					near = m.updT - r.Pick([]int64{0, 10, 30, 60, 120})
				}
			case kind < 22: // node metric delete
				node := r.Range(1, c.nNodes)
				obj := &slov1alpha1.NodeMetric{ObjectMeta: metav1.ObjectMeta{Name: c08NodeName(node)}}
				h.Op("delmetric %d", node)
				h.Tag("op:delmetric")
				panicked = h.Guard(func() {
					if r.Bool() {
						mh.OnDelete(obj)
					} else {
						mh.OnDelete(cache.DeletedFinalStateUnknown{Key: obj.Name, Obj: obj})
					}
				})
				c.ns(node).metric, c.ns(node).metricObj = nil, nil
			case kind < 37: // Reserve
				p := c08GenPod(r, c.cfg, r.Range(1, nUID), c.nNodes, near)
				if old, ok := c.pool[p.uid]; ok && r.Chance(2, 3) {
					p = old
				}
				p.specNode = 0 // not bound yet
				if r.Chance(1, 8) {
					p.specNode = r.Range(1, c.nNodes)
				}
				node := r.Range(0, c.nNodes)
				if node == 0 && !r.Chance(1, 6) {
					node = 1
				}
				obj := p.build(t0)
				c.emitShape(p, obj)
				h.Op("rsv %d %d %s", node, now, p.toks())
				h.Tag("op:reserve")
				c.checkFloat(p)
				panicked = h.Guard(func() { c.pl.Reserve(context.TODO(), framework.NewCycleState(), obj, c08NodeName(node)) })
				c.shAssign(node, p, obj, now)
				c.pool[p.uid] = p
			case kind < 45: // Unreserve
				uid := r.Range(1, nUID)
				node := r.Range(1, c.nNodes)
				for k, ns := range c.shadow { // mostly roll back where the pod really is
					if _, ok := ns.pods[uid]; ok && r.Chance(3, 4) {
						node = k
					}
				}
				if r.Chance(1, 15) {
					node = 0
				}
				obj := &corev1.Pod{ObjectMeta: metav1.ObjectMeta{UID: types.UID("u" + strconv.Itoa(uid)), Namespace: "ns", Name: "p" + strconv.Itoa(uid)}}
				h.Op("unrsv %d %d", node, uid)
				h.Tag("op:unreserve")
				panicked = h.Guard(func() { c.pl.Unreserve(context.TODO(), framework.NewCycleState(), obj, c08NodeName(node)) })
				c.shUnassign(node, uid)
			case kind < 57: // informer add
				p := c08GenPod(r, c.cfg, r.Range(1, nUID), c.nNodes, near)
				obj := p.build(t0)
				c.emitShape(p, obj)
				h.Op("add %d %s", now, p.toks())
				h.Tag("op:add")
				c.checkFloat(p)
				panicked = h.Guard(func() { c.pc.OnAdd(obj, r.Bool()) })
				c.shAssign(p.specNode, p, obj, now)
				c.pool[p.uid] = p
			case kind < 75: // informer update
				uid := r.Range(1, nUID)
				old, known := c.pool[uid]
				p := old
				if !known {
					p = c08GenPod(r, c.cfg, uid, c.nNodes, near)
					old = p
				}
				mut := r.Intn(11)
				if p.raw != nil && (mut <= 2 || mut == 8) {
					c08MutRaw(r, &p, c.cfg.specIDs) // labels / annotation texts (metadata only) or the PodSpec
					mut = 99
				} else if c.cfg.glue && mut == 8 && known { // metadata-only update of a plain pod: the custom annotations change
					p.cf = [2]int64{c08Factor(r), c08Factor(r)}
					p.cSched, p.cInit = c08Secs(r), c08Secs(r)
					h.Tag("update:metadata-only")
				}
				switch mut {
				case 0:
					c08GenRes(r, &p)
				case 1:
					p.cls = []int{1, 1, 2, 3, 4}[r.Intn(5)]
				case 2:
					p.pv = 1 - p.pv
				case 3:
					p.sched = c08Cond{k: 2, t: now}
				case 4:
					p.init = c08Cond{k: 2, t: now + int64(r.Range(-3, 3))*10}
				case 5:
					p.specNode = r.Range(0, c.nNodes)
				case 6:
					p.term = !p.term
				case 7:
					p.sched, p.init = c08GenCond(r, near), c08GenCond(r, near)
				case 9, 10: // status-only update: the kubelet reports other container resources (catches up with the spec / lags / none)
					if r.Chance(1, 5) {
						p.st = c08Stat{}
					} else {
						p.st = c08GenStat(r, p)
					}
					h.Tag("update:status-only")
				default: // metadata-only update
				}
				if p.specNode == 0 && r.Chance(2, 3) { // the binding of a reserved pod becomes visible
					for k, ns := range c.shadow {
						if _, ok := ns.pods[uid]; ok {
							p.specNode = k
						}
					}
				}
				oldNode := old.specNode
				if r.Chance(1, 8) {
					oldNode = r.Range(0, c.nNodes)
				}
				var oldObj interface{}
				if oldNode != 0 || r.Bool() {
					o := old
					o.specNode = oldNode
					oldObj = o.build(t0)
				}
				obj := p.build(t0)
				c.emitShape(p, obj)
				h.Op("upd %d %d %s", oldNode, now, p.toks())
				h.Tag("op:update")
				c.checkFloat(p)
				panicked = h.Guard(func() { c.pc.OnUpdate(oldObj, obj) })
				// shadow: what the statement says an update means
				if oldNode != 0 && oldNode != p.specNode {
					c.shUnassign(oldNode, uid)
				}
				if p.specNode != 0 {
					cur, cached := c.ns(p.specNode).pods[uid]
					switch {
					case !cached:
						c.shAssign(p.specNode, p, obj, now)
					case p.term:
						c.shUnassign(p.specNode, uid)
					case !c08SpecEq(p, cur.pod) || p.sched != cur.pod.sched || p.init != cur.pod.init:
						c.shAssign(p.specNode, p, obj, now)
					default:
						c.markStale(p.specNode, p)
						c.shRefresh(p.specNode, p, obj)
					}
				}
				c.pool[uid] = p
			case kind < 82: // informer delete
				uid := r.Range(1, nUID)
				p, known := c.pool[uid]
				if !known {
					p = c08GenPod(r, c.cfg, uid, c.nNodes, near)
				}
				if r.Chance(1, 10) {
					p.specNode = r.Range(0, c.nNodes)
				}
				obj := p.build(t0)
				h.Op("del %d %d", p.specNode, uid)
				h.Tag("op:delete")
				panicked = h.Guard(func() {
					if r.Bool() {
						c.pc.OnDelete(obj)
					} else {
						c.pc.OnDelete(cache.DeletedFinalStateUnknown{Key: "ns/" + obj.Name, Obj: obj})
					}
				})
				c.shUnassign(p.specNode, uid)
				delete(c.pool, uid)
			case kind < 86: // Get with an aggregation
				node := r.Range(1, c.nNodes)
				prod := r.Chance(1, 4)
				typ := r.Range(0, 3)
				dur := int(r.Pick([]int64{0, 0, 300, 900, 1800, 77}))
				h.Op("get %d %d %d %d", node, vB(prod), typ, dur)
				h.Tag("op:get")
				v, ok := c.get(c.pc, node, prod, time.Duration(dur)*time.Second, c08AggTypes[typ])
				if !ok {
					h.Obs("get nf")
				} else {
					h.Obs("get %d %d", v[0], v[1])
				}
				continue
			default:
				h.Tag("op:filter")
				c.doFilter(c.genFilter())
				continue
			}
			if panicked {
				h.Obs("panic")
				h.Fail("C08:event-panic", "a cache event handler panicked")
				break
			}
			c.observe()
		}
		if c.busy >= 3 {
			h.Nontrivial()
		}
		h.Tag(fmt.Sprintf("nodes:%d", c.nNodes))
		if c.reach > 0 {
			h.Tag("case:filter-compared")
		}
		h.End()
	}
	h.Close("one history of 6-70 events (node-metric add/update/delete through the registered handler funcs with the object in force as `old`: spec-only / status-only / both; " +
		"Reserve/Unreserve, informer pod add/update/delete with spec/priority/condition/node/phase/status-only changes, 1/3 of the pods with container-status resources) " +
		"on 1-3 nodes and 2-6 pods, times on a 10 s grid around the report interval and estimation deadlines, interleaved with Get and Filter queries " +
		"(args/node-annotation threshold profiles, prod/aggregated, raw allocatable, expiry switches, allocatable steered to the rounding boundary); " +
		"non-trivial = >=3 observations of a node that has a metric in force and assigned pods; distinct by op lines")
}
