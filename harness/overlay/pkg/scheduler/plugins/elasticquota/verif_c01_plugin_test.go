//go:build verif

package elasticquota

import (
	"context"
	"fmt"
	"sort"
	"strings"
	"testing"

	corev1 "k8s.io/api/core/v1"
	"k8s.io/apimachinery/pkg/api/resource"
	metav1 "k8s.io/apimachinery/pkg/apis/meta/v1"
	k8sfeature "k8s.io/apiserver/pkg/util/feature"
	"k8s.io/client-go/tools/cache"

	"github.com/koordinator-sh/koordinator/apis/extension"
	schedv1alpha1 "github.com/koordinator-sh/koordinator/apis/thirdparty/scheduler-plugins/pkg/apis/scheduling/v1alpha1"
	koordfeatures "github.com/koordinator-sh/koordinator/pkg/features"
	"github.com/koordinator-sh/koordinator/pkg/scheduler/plugins/elasticquota/core"
	utilfeature "github.com/koordinator-sh/koordinator/pkg/util/feature"
)

// C01, second harness: the glue of pod_handler.go / quota_handler.go / Reserve / Unreserve.
// One plugin instance (MultiQuotaTree on); every case uses its own quota tree id, quota names and namespace, so its
// figures live in a GroupQuotaManager of its own (no system/default quota, like the model).  The harness calls the
// PLUGIN entry points with API objects and emits the manager-level operation the glue is specified to perform
// (quota-name resolution through the quota->tree map, unknown / missing quota label => default quota of the default
// tree (not part of this tree), same ResourceVersion => ignored, cross-tree update => delete + add, OnQuotaAdd of a
// known quota => ignored).  Observation = Plugin.GetQuotaSummaries(tree, true) + the tree's root QuotaInfo, same line
// format as the core harness; histories are informer-consistent, so every block carries `inv 1`.

func c01pRL(v [2]int64) corev1.ResourceList {
	return corev1.ResourceList{
		corev1.ResourceCPU:    *resource.NewMilliQuantity(v[0], resource.DecimalSI),
		corev1.ResourceMemory: *resource.NewQuantity(v[1], resource.BinarySI),
	}
}

func c01pVal(rl corev1.ResourceList, k int) int64 {
	if k == 0 {
		if q, ok := rl[corev1.ResourceCPU]; ok {
			return q.MilliValue()
		}
		return 0
	}
	if q, ok := rl[corev1.ResourceMemory]; ok {
		return q.Value()
	}
	return 0
}

func c01pMax(rl corev1.ResourceList, k int) int64 {
	name := corev1.ResourceCPU
	if k == 1 {
		name = corev1.ResourceMemory
	}
	if _, ok := rl[name]; !ok {
		return -1
	}
	return c01pVal(rl, k)
}

type c01pSpec struct {
	name, parent   int
	isParent, lend bool
	max, min       [2]int64
}

type c01pPV struct {
	id             int
	label          int // quota label (0: none, -1: a quota that never exists)
	req            [2]int64
	np, node, term bool
	rv             int
	obj            *corev1.Pod
}

type c01pWorld struct {
	h     *vHarness
	r     *vRand
	pl    *Plugin
	idx   int
	tree  string
	specs map[int]*c01pSpec
	objs  map[int]*schedv1alpha1.ElasticQuota
	pods  map[int]*c01pPV // last delivered version of every alive pod
	nextQ int
	nextP int
	fail  bool
	lim   bool
}

func (w *c01pWorld) qname(i int) string {
	if i == 1 {
		return extension.RootQuotaName
	}
	if i < 0 {
		return fmt.Sprintf("v%dnone", w.idx)
	}
	return fmt.Sprintf("v%dq%02d", w.idx, i)
}

func (w *c01pWorld) qid(name string) int {
	if name == extension.RootQuotaName {
		return 1
	}
	var a, b int
	if _, err := fmt.Sscanf(name, "v%dq%02d", &a, &b); err != nil {
		return 0
	}
	return b
}

func (w *c01pWorld) mkQuota(sp *c01pSpec) *schedv1alpha1.ElasticQuota {
	q := &schedv1alpha1.ElasticQuota{
		ObjectMeta: metav1.ObjectMeta{Name: w.qname(sp.name), Namespace: "default", Annotations: map[string]string{}, Labels: map[string]string{}},
		Spec:       schedv1alpha1.ElasticQuotaSpec{Max: c01pRL(sp.max), Min: c01pRL(sp.min)},
	}
	q.Labels[extension.LabelQuotaTreeID] = w.tree
	if sp.parent != 1 || w.r.Bool() { // an absent parent label means the root
		q.Labels[extension.LabelQuotaParent] = w.qname(sp.parent)
	}
	q.Labels[extension.LabelAllowLentResource] = fmt.Sprint(sp.lend)
	q.Labels[extension.LabelQuotaIsParent] = fmt.Sprint(sp.isParent)
	return q
}

func (w *c01pWorld) mkPod(pv *c01pPV) {
	p := &corev1.Pod{ObjectMeta: metav1.ObjectMeta{Namespace: fmt.Sprintf("vns%d", w.idx), Name: fmt.Sprintf("p%02d", pv.id),
		Labels: map[string]string{}, ResourceVersion: fmt.Sprint(pv.rv)}}
	p.Spec.Containers = []corev1.Container{{Resources: corev1.ResourceRequirements{Requests: c01pRL(pv.req)}}}
	if pv.label != 0 {
		p.Labels[extension.LabelQuotaName] = w.qname(pv.label)
	}
	if pv.np {
		p.Labels[extension.LabelPreemptible] = "false"
	}
	if pv.node {
		p.Spec.NodeName = "node-1"
	}
	p.Status.Phase = corev1.PodRunning
	if pv.term {
		p.Status.Phase = corev1.PodSucceeded
	}
	pv.obj = p
}

// res is the glue's specification of getPodAssociateQuotaNameAndTreeID restricted to this tree:
// the labelled quota if the plugin knows it, otherwise 0 (the pod belongs to the default tree).
func (w *c01pWorld) res(pv *c01pPV) int {
	if pv.label > 1 && w.specs[pv.label] != nil {
		return pv.label
	}
	return 0
}

func (w *c01pWorld) toks(pv *c01pPV) string {
	return fmt.Sprintf("%d %d %d %d %d %d 0", pv.id, pv.req[0], pv.req[1], vB(pv.np), vB(pv.node), vB(pv.term))
}

func (w *c01pWorld) children(n int) []int {
	var out []int
	for _, sp := range w.specs {
		if sp.parent == n {
			out = append(out, sp.name)
		}
	}
	sort.Ints(out)
	return out
}

func (w *c01pWorld) inSubtree(root, n int) bool {
	for n > 1 {
		if n == root {
			return true
		}
		sp := w.specs[n]
		if sp == nil {
			return false
		}
		n = sp.parent
	}
	return false
}

type c01pObsQ struct {
	parent         int
	isParent, lend bool
	pods           map[int]bool
	d              [2][11]int64
}

func (w *c01pWorld) observe() {
	h := w.h
	mgr := w.pl.GetGroupQuotaManagerForTree(w.tree)
	var root [2][4]int64
	qs := map[int]*c01pObsQ{}
	if mgr != nil {
		if ri := mgr.GetQuotaInfoByName(extension.RootQuotaName); ri != nil {
			for k := 0; k < 2; k++ {
				root[k] = [4]int64{c01pVal(ri.GetUsed(), k), c01pVal(ri.GetNonPreemptibleUsed(), k), c01pVal(ri.GetRequest(), k), c01pVal(ri.GetNonPreemptibleRequest(), k)}
			}
		}
		var sums map[string]*core.QuotaInfoSummary = w.pl.GetQuotaSummaries(w.tree, true)
		for name, s := range sums {
			if s.Tree != w.tree {
				continue
			}
			q := &c01pObsQ{parent: w.qid(s.ParentName), isParent: s.IsParent, lend: s.AllowLentResource, pods: map[int]bool{}}
			for key, pi := range s.PodCache {
				var id int
				fmt.Sscanf(key[strings.Index(key, "/p")+2:], "%d", &id)
				q.pods[id] = pi.IsAssigned
			}
			for k := 0; k < 2; k++ {
				q.d[k] = [11]int64{c01pMax(s.Max, k), c01pVal(s.Min, k), c01pVal(s.Used, k), c01pVal(s.NonPreemptibleUsed, k),
					c01pVal(s.Request, k), c01pVal(s.NonPreemptibleRequest, k), c01pVal(s.ChildRequest, k),
					c01pVal(s.SelfUsed, k), c01pVal(s.SelfNonPreemptibleUsed, k), c01pVal(s.SelfRequest, k), c01pVal(s.SelfNonPreemptibleRequest, k)}
			}
			qs[w.qid(name)] = q
		}
	}
	for k := 0; k < 2; k++ {
		h.Obs("root %d %d %d %d %d", k, root[k][0], root[k][1], root[k][2], root[k][3])
	}
	var ids []int
	for n := range qs {
		ids = append(ids, n)
	}
	sort.Ints(ids)
	for _, n := range ids {
		q := qs[n]
		var pids []int
		for id := range q.pods {
			pids = append(pids, id)
		}
		sort.Ints(pids)
		line := fmt.Sprintf("q %d %d %d %d %d", n, q.parent, vB(q.isParent), vB(q.lend), len(pids))
		for _, id := range pids {
			line += fmt.Sprintf(" %d %d", id, vB(q.pods[id]))
		}
		h.Obs("%s", line)
		for k := 0; k < 2; k++ {
			h.Obs("d %d %d %s", k, n, vInts(q.d[k][:]))
		}
	}
	h.Obs("inv 1")
	h.Obs("end")
	w.oracle(root, qs)
}

type c01pAgg struct{ selfReq, selfNp, selfUsed, selfNpUsed, child, request, limited, npReq, used, npUsed int64 }

func (w *c01pWorld) recompute(qs map[int]*c01pObsQ, n, k int, memo map[int]*c01pAgg) *c01pAgg {
	if a, ok := memo[n]; ok {
		return a
	}
	a := &c01pAgg{}
	memo[n] = a
	if oq := qs[n]; oq != nil {
		for id, asg := range oq.pods {
			pv := w.pods[id]
			if pv == nil {
				continue
			}
			r := pv.req[k]
			a.selfReq += r
			if pv.np {
				a.selfNp += r
			}
			if asg {
				a.selfUsed += r
				if pv.np {
					a.selfNpUsed += r
				}
			}
		}
	}
	a.child, a.npReq, a.used, a.npUsed = a.selfReq, a.selfNp, a.selfUsed, a.selfNpUsed
	for _, c := range w.children(n) {
		ca := w.recompute(qs, c, k, memo)
		a.child += ca.limited
		a.npReq += ca.npReq
		a.used += ca.used
		a.npUsed += ca.npUsed
	}
	a.request = a.child
	if n != 1 {
		sp := w.specs[n]
		if !sp.lend && sp.min[k] > a.request {
			a.request = sp.min[k]
		}
		a.limited = a.request
		if sp.max[k] < a.limited {
			a.limited = sp.max[k]
			w.lim = true
		}
	}
	return a
}

// oracle: the statement of C01 evaluated from scratch on the plugin's own report (fingerprints as in the core harness).
func (w *c01pWorld) oracle(root [2][4]int64, qs map[int]*c01pObsQ) {
	if w.fail {
		return
	}
	bad := func(fp, f string, a ...interface{}) {
		if !w.fail {
			w.fail = true
			w.h.Fail(fp, f, a...)
		}
	}
	for n := range w.specs {
		if qs[n] == nil {
			bad("C01:quota-set", "quota %d was added through the plugin but is not reported for its tree", n)
			return
		}
	}
	for n := range qs {
		if w.specs[n] == nil {
			bad("C01:quota-set", "quota %d is reported but was deleted through the plugin", n)
			return
		}
	}
	// pods: a pod is counted in the quota its last delivered object resolves to, and nowhere else
	for id, pv := range w.pods {
		for n, q := range qs {
			_, in := q.pods[id]
			if in && w.res(pv) != n {
				bad("C01:pod-membership", "pod %d is cached in quota %d but its last object names quota %d", id, n, pv.label)
				return
			}
		}
	}
	for k := 0; k < 2; k++ {
		memo := map[int]*c01pAgg{}
		names := []int{1}
		for n := range w.specs {
			names = append(names, n)
		}
		sort.Ints(names)
		for _, n := range names {
			a := w.recompute(qs, n, k, memo)
			var got [11]int64
			if n == 1 {
				got[2], got[3], got[4], got[5], got[6] = root[k][0], root[k][1], root[k][2], root[k][3], a.child
				got[7], got[8], got[9], got[10] = a.selfUsed, a.selfNpUsed, a.selfReq, a.selfNp
			} else {
				got = qs[n].d[k]
			}
			type chk struct {
				fp        string
				got, want int64
			}
			for _, c := range []chk{{"C01:request-mismatch", got[4], a.request}, {"C01:request-mismatch", got[6], a.child},
				{"C01:used-mismatch", got[2], a.used}, {"C01:np-request-mismatch", got[5], a.npReq}, {"C01:np-used-mismatch", got[3], a.npUsed},
				{"C01:self-request-mismatch", got[9], a.selfReq}, {"C01:self-used-mismatch", got[7], a.selfUsed},
				{"C01:self-np-request-mismatch", got[10], a.selfNp}, {"C01:self-np-used-mismatch", got[8], a.selfNpUsed}} {
				if c.got < 0 {
					bad("C01:negative", "quota %d dim %d: negative figure %d", n, k, c.got)
					return
				}
				if c.got != c.want {
					bad(c.fp, "plugin level, quota %d dim %d: reported %d, recomputed from the surviving pods and quota objects %d", n, k, c.got, c.want)
					return
				}
			}
		}
	}
}

func (w *c01pWorld) val(k, hi int) int64 {
	if k == 0 {
		return int64(w.r.Range(0, hi)) * 250
	}
	return int64(w.r.Range(0, hi)) << 27
}

func (w *c01pWorld) genVals(sp *c01pSpec) {
	for k := 0; k < 2; k++ {
		sp.max[k] = w.val(k, 24)
		sp.min[k] = w.val(k, 10)
		if sp.min[k] > sp.max[k] {
			sp.min[k] = sp.max[k]
		}
	}
}

func (w *c01pWorld) opQuotaLine(sp *c01pSpec) {
	w.h.Op("quota %d %d %d %d %d %d %d %d", sp.name, sp.parent, vB(sp.isParent), vB(sp.lend), sp.max[0], sp.max[1], sp.min[0], sp.min[1])
}

func (w *c01pWorld) parents(exclude int) []int {
	out := []int{1}
	for n, sp := range w.specs {
		if sp.isParent && (exclude == 0 || !w.inSubtree(exclude, n)) {
			out = append(out, n)
		}
	}
	sort.Ints(out)
	return out
}

func (w *c01pWorld) step() {
	r, h := w.r, w.h
	var qids []int
	for n := range w.specs {
		qids = append(qids, n)
	}
	sort.Ints(qids)
	var pids []int
	for id := range w.pods {
		pids = append(pids, id)
	}
	sort.Ints(pids)
	x := r.Intn(100)
	switch {
	case x < 10 || len(qids) == 0: // OnQuotaAdd of a new quota
		if len(qids) >= 6 {
			return
		}
		ps := w.parents(0)
		sp := &c01pSpec{name: w.nextQ, parent: ps[r.Intn(len(ps))], isParent: r.Chance(2, 5), lend: r.Chance(3, 5)}
		w.nextQ++
		w.genVals(sp)
		obj := w.mkQuota(sp)
		h.Tag("pl:quota-add")
		w.opQuotaLine(sp)
		w.specs[sp.name], w.objs[sp.name] = sp, obj
		if h.Guard(func() { w.pl.OnQuotaAdd(obj) }) {
			h.Obs("panic")
			return
		}
		w.observe()
	case x < 14: // OnQuotaAdd of a quota the plugin already knows (resync) with different content, or of a deleting object: ignored
		n := qids[r.Intn(len(qids))]
		sp := *w.specs[n]
		w.genVals(&sp)
		obj := w.mkQuota(&sp)
		if r.Bool() {
			now := metav1.Now()
			obj.DeletionTimestamp = &now
		}
		h.Tag("pl:quota-add-ignored")
		h.Op("refresh %d", n) // no manager-level operation
		if h.Guard(func() { w.pl.OnQuotaAdd(obj) }) {
			h.Obs("panic")
			return
		}
		w.observe()
	case x < 32: // OnQuotaUpdate
		n := qids[r.Intn(len(qids))]
		sp := *w.specs[n]
		switch r.Intn(5) {
		case 0, 1:
			w.genVals(&sp)
		case 2:
			sp.lend = !sp.lend
		case 3:
			if !sp.isParent || len(w.children(n)) == 0 {
				sp.isParent = !sp.isParent
			}
		case 4:
			var cands []int
			for _, c := range w.parents(n) {
				if c != sp.parent {
					cands = append(cands, c)
				}
			}
			if len(cands) > 0 {
				sp.parent = cands[r.Intn(len(cands))]
			}
		}
		obj := w.mkQuota(&sp)
		h.Tag("pl:quota-update")
		w.opQuotaLine(&sp)
		old := w.objs[n]
		cp := sp
		w.specs[n], w.objs[n] = &cp, obj
		if h.Guard(func() { w.pl.OnQuotaUpdate(old, obj) }) {
			h.Obs("panic")
			return
		}
		w.observe()
	case x < 36: // OnQuotaDelete of a childless quota that no alive pod names
		var cands []int
		for _, n := range qids {
			busy := len(w.children(n)) > 0
			for _, pv := range w.pods {
				if pv.label == n {
					busy = true
				}
			}
			if !busy {
				cands = append(cands, n)
			}
		}
		if len(cands) == 0 {
			return
		}
		n := cands[r.Intn(len(cands))]
		obj := w.objs[n]
		h.Tag("pl:quota-delete")
		h.Op("delquota %d", n)
		delete(w.specs, n)
		delete(w.objs, n)
		var arg interface{} = obj
		if r.Chance(1, 3) {
			arg = cache.DeletedFinalStateUnknown{Key: obj.Name, Obj: obj}
		}
		if h.Guard(func() { w.pl.OnQuotaDelete(arg) }) {
			h.Obs("panic")
			return
		}
		w.observe()
	case x < 54 || len(pids) == 0: // OnPodAdd
		if len(pids) >= 8 {
			return
		}
		pv := &c01pPV{id: w.nextP, np: r.Chance(1, 3), node: r.Chance(1, 4), term: r.Chance(1, 15), rv: 1}
		w.nextP++
		switch {
		case r.Chance(1, 10):
			pv.label = 0
		case r.Chance(1, 10):
			pv.label = -1
		default:
			pv.label = qids[r.Intn(len(qids))]
		}
		pv.req = [2]int64{w.val(0, 8), w.val(1, 8)}
		w.mkPod(pv)
		h.Tag("pl:pod-add")
		if q := w.res(pv); q != 0 {
			h.Op("padd %d %s", q, w.toks(pv))
		} else {
			h.Op("refresh 0")
			h.Tag("pl:pod-add-default-tree")
		}
		w.pods[pv.id] = pv
		if h.Guard(func() { w.pl.OnPodAdd(pv.obj) }) {
			h.Obs("panic")
			return
		}
		w.observe()
	case x < 76: // OnPodUpdate
		old := w.pods[pids[r.Intn(len(pids))]]
		nv := *old
		nv.rv = old.rv + 1
		switch r.Intn(8) {
		case 0:
			k := r.Intn(2)
			nv.req[k] = w.val(k, 8)
		case 1:
			nv.np = !nv.np
		case 2, 3:
			nv.node = true
		case 4:
			nv.term = true
		case 5: // move to another quota of the tree
			nv.label = qids[r.Intn(len(qids))]
		case 6: // label removed / unknown quota / back
			nv.label = []int{0, -1, qids[r.Intn(len(qids))]}[r.Intn(3)]
		case 7: // same resourceVersion: a resync, ignored by the plugin
			nv.rv = old.rv
			nv.req[0] = w.val(0, 8)
		}
		w.mkPod(&nv)
		ro, rn := w.res(old), w.res(&nv)
		h.Tag("pl:pod-update")
		switch {
		case nv.rv == old.rv:
			h.Op("refresh 0")
			h.Tag("pl:pod-update-same-rv")
		case ro != 0 && rn != 0:
			h.Op("pupd %d %d %s %s", rn, ro, w.toks(&nv), w.toks(old))
		case ro != 0:
			h.Op("pdel %d %s", ro, w.toks(old))
			h.Tag("pl:pod-update-leaves-tree")
		case rn != 0:
			h.Op("padd %d %s", rn, w.toks(&nv))
			h.Tag("pl:pod-update-enters-tree")
		default:
			h.Op("refresh 0")
		}
		if nv.rv != old.rv {
			w.pods[nv.id] = &nv
		}
		if h.Guard(func() { w.pl.OnPodUpdate(old.obj, nv.obj) }) {
			h.Obs("panic")
			return
		}
		w.observe()
	case x < 84: // OnPodDelete
		pv := w.pods[pids[r.Intn(len(pids))]]
		h.Tag("pl:pod-delete")
		if q := w.res(pv); q != 0 {
			h.Op("pdel %d %s", q, w.toks(pv))
		} else {
			h.Op("refresh 0")
		}
		delete(w.pods, pv.id)
		var arg interface{} = pv.obj
		if r.Chance(1, 3) {
			arg = cache.DeletedFinalStateUnknown{Key: pv.obj.Name, Obj: pv.obj}
		}
		if h.Guard(func() { w.pl.OnPodDelete(arg) }) {
			h.Obs("panic")
			return
		}
		w.observe()
	case x < 94: // Reserve
		pv := w.pods[pids[r.Intn(len(pids))]]
		h.Tag("pl:reserve")
		if q := w.res(pv); q != 0 {
			h.Op("reserve %d %s", q, w.toks(pv))
		} else {
			h.Op("refresh 0")
		}
		if h.Guard(func() { w.pl.Reserve(context.TODO(), nil, pv.obj, "node-1") }) {
			h.Obs("panic")
			return
		}
		w.observe()
	default: // Unreserve (roll back a reservation of a pod that is not bound)
		var cands []int
		for _, id := range pids {
			if !w.pods[id].node {
				cands = append(cands, id)
			}
		}
		if len(cands) == 0 {
			return
		}
		pv := w.pods[cands[r.Intn(len(cands))]]
		h.Tag("pl:unreserve")
		if q := w.res(pv); q != 0 {
			h.Op("unreserve %d %s", q, w.toks(pv))
		} else {
			h.Op("refresh 0")
		}
		if h.Guard(func() { w.pl.Unreserve(context.TODO(), nil, pv.obj, "node-1") }) {
			h.Obs("panic")
			return
		}
		w.observe()
	}
}

func TestVerifC01Plugin(t *testing.T) {
	h := vOpen("C01")
	if h == nil {
		t.Skip("VERIF_OUT not set")
	}
	defer utilfeature.SetFeatureGateDuringTest(t, k8sfeature.DefaultMutableFeatureGate, koordfeatures.MultiQuotaTree, true)()
	suit := newPluginTestSuit(t, nil)
	pl := suit.createPlugin(t).(*Plugin)
	setLoglevel("0")
	n := h.N(150, 3000)
	for idx := 0; idx < n; idx++ {
		r := h.Begin(idx)
		if r == nil {
			continue
		}
		w := &c01pWorld{h: h, r: r, pl: pl, idx: idx, tree: fmt.Sprintf("vt%d", idx), specs: map[int]*c01pSpec{},
			objs: map[int]*schedv1alpha1.ElasticQuota{}, pods: map[int]*c01pPV{}, nextQ: 2, nextP: 1}
		h.Op("mode 1")
		nops := r.Range(20, 45)
		for i := 0; i < nops; i++ {
			w.step()
		}
		if w.lim {
			h.Nontrivial()
		}
		// leave nothing behind in the shared plugin
		for _, pv := range w.pods {
			pl.OnPodDelete(pv.obj)
		}
		h.End()
	}
	h.Close("plugin-level histories (20-45 calls of OnQuotaAdd/Update/Delete, OnPodAdd/Update/Delete, Reserve, Unreserve with API objects; " +
		"quota label present / absent / unknown / moved, same-ResourceVersion resyncs, DeletedFinalStateUnknown, duplicate OnQuotaAdd); one quota tree per case in one shared plugin; " +
		"non-trivial = some quota's request exceeded its max")
}
