//go:build verif

package elasticquota

import (
	"context"
	"fmt"
	"os"
	"sort"
	"strings"
	"testing"

	corev1 "k8s.io/api/core/v1"
	"k8s.io/apimachinery/pkg/api/resource"
	metav1 "k8s.io/apimachinery/pkg/apis/meta/v1"
	k8sfeature "k8s.io/apiserver/pkg/util/feature"
	"k8s.io/client-go/tools/cache"

	"github.com/koordinator-sh/koordinator/apis/extension"
	schedv1alpha1 "github.com/koordinator-sh/koordinator/apis/thirdparty/scheduler-plugins/pkg/apis/scheduling/v1alpha1"
	koordfeatures "github.com/koordinator-sh/koordinator/pkg/features"
	"github.com/koordinator-sh/koordinator/pkg/scheduler/plugins/elasticquota/core"
	utilfeature "github.com/koordinator-sh/koordinator/pkg/util/feature"
)

// C01, second harness: the glue of pod_handler.go / quota_handler.go / Reserve / Unreserve / plugin_helper.go
// (migrateDefaultQuotaGroupsPod).  One plugin instance shared by all cases.  The harness calls the PLUGIN entry points
// with API objects and emits the manager-level operation the glue is specified to perform on the OBSERVED manager
// (quota-name resolution through the quota->tree map, unknown / missing quota label => koordinator-default-quota of the
// default manager, same ResourceVersion => ignored, cross-tree update => delete + add, OnQuotaAdd of a known quota =>
// ignored, periodic migration out of the default group).  Observation = quota summaries (with pods) + the root QuotaInfo of
// the observed manager, same line format as the core harness; histories are informer-consistent, so every block carries `inv 1`.
//
// Streams (by case index):
//
//	A  (5/8)  MultiQuotaTree on, the case's quotas carry a tree id of their own => a GroupQuotaManager without system/default
//	          quota, like the model's `init`.  Pods that resolve to the default group live in the DEFAULT manager: not part of the
//	          model run, but checked by a Go-only oracle (c01pWorld.oracleDefault).  Migration out of the default group is, for
//	          the observed manager, `OnPodAdd(X, <object cached by the default group>)`  => op line `padd X <pod>`.
//	B1 (1/4)  MultiQuotaTree on, quotas WITHOUT tree label, B2 (1/8) MultiQuotaTree off (tree label present or not): everything
//	          lives in the default manager.  koordinator-default-quota is then part of the observed manager; the model is told about
//	          it as an ordinary quota `dq` = 2 (parent root, leaf, lends, min 0, max 2^60 standing for the huge configured max; the
//	          harness prints that constant as its max).  Migration = `MigratePod(<cached object>, default, X)` => `migrate 2 X <pod>`.
//	          koordinator-system-quota never holds pods here and is not observed.
//
// A pod labelled with a quota that does not exist yet ("awaited" quota) is accounted in the default group, pending or bound;
// the quota is created later and the harness calls Plugin.migrateDefaultQuotaGroupsPod directly (the function the 1 s timer
// runs).  Every third case does this deterministically at its start (variants by case index, see scripted; that pod is
// deleted, observed, at the end of the case); every case can do it at random.
//
// Specification of the repaired code (5a63beb MigratePod leaves a target alone that already holds the pod; 931f7a3 the delete
// handler also clears the default group; 7265fb2 a same-quota OnPodUpdate refreshes the cached object and OnPodDelete gives
// back the cached object's amounts): every quota, the default group included, accounts the LAST OBJECT ROUTED TO IT, and that
// is the oracle's truth.  Between OnQuotaAdd of the awaited quota and the migration call the pod may be updated (status,
// resize, bind: it is then filed under the new quota by OnPodUpdate and, until the call, ALSO still held by the default
// group with the older object, which is the code's design and accepted by the oracle) or deleted (both places are cleared,
// each with its own amounts).  The migration hands over the object the default group caches; the harness reads it back from
// the implementation (GetPodCache) for the op line.
//
// VERIF_C01P_FREE (generator level): 2 (default) generates all of that: D1 update / bind in the window, D2 delete in the
// window, D3 resize / non-preemptible flip while the default group holds the pod, D4 resize in the window then delete before
// the call, D5 label change while the default group holds the pod and its quota does not exist yet, and D6, a label change
// between OnQuotaAdd of the pod's quota X and the migration call.  D6 is a registered OPEN finding (fingerprint
// C01:pod-membership:stale-label-after-quota-add): that update is not routed to the default group (the old label resolves to
// X by now), so the cached object keeps label X and the call files the pod under X although its last object names another
// quota / none (and, if the new label names an existing quota Y, Y holds it too).  The harness marks the case when it issues
// such an update; from then on every membership / figure / fresh-manager / default-group clause that fails in that case
// reports that fingerprint; the op lines keep following the code, so the correspondence is unaffected, but the case switches
// to `mode 0` (no `inv` line): a pod held by two quotas can end up with a cache entry whose amounts nobody accounted.  Level 1 generates everything but D6; level 0 is the generator from before
// the repairs (nothing happens to a pod in the window, nothing changes while the default group holds it under an awaited label).
// Silent by construction: a pod reserved while the default group holds it and then migrated across managers is filed
// unassigned in its quota (OnPodAdd of an object without NodeName) until its next event; the oracles take the assigned flags
// from the live manager.

const c01pDMax = int64(1) << 60

func c01pRL(v [2]int64) corev1.ResourceList {
	return corev1.ResourceList{
		corev1.ResourceCPU:    *resource.NewMilliQuantity(v[0], resource.DecimalSI),
		corev1.ResourceMemory: *resource.NewQuantity(v[1], resource.BinarySI),
	}
}

func c01pVal(rl corev1.ResourceList, k int) int64 {
	if k == 0 {
		if q, ok := rl[corev1.ResourceCPU]; ok {
			return q.MilliValue()
		}
		return 0
	}
	if q, ok := rl[corev1.ResourceMemory]; ok {
		return q.Value()
	}
	return 0
}

func c01pMax(rl corev1.ResourceList, k int) int64 {
	name := corev1.ResourceCPU
	if k == 1 {
		name = corev1.ResourceMemory
	}
	if _, ok := rl[name]; !ok {
		return -1
	}
	return c01pVal(rl, k)
}

type c01pSpec struct {
	name, parent   int
	isParent, lend bool
	max, min       [2]int64
}

type c01pPV struct {
	id             int
	label          int // quota label (0: none, -1: a quota that never exists, > 1: a quota of this case, existing or awaited)
	req            [2]int64
	np, node, term bool
	rv             int
	obj            *corev1.Pod
}

type c01pWorld struct {
	h     *vHarness
	r     *vRand
	pl    *Plugin
	idx   int
	tree  string // tree id of the observed manager ("" = the default manager, streams B1/B2)
	label string // value of the quota-tree-id label on the case's quotas ("" = no label)
	same  bool   // streams B1/B2: the case's quotas live in the default manager
	dq    int    // model name of koordinator-default-quota when it is part of the observed manager (same), else 0
	lvl   int    // VERIF_C01P_FREE: 0 = restricted generator, 1 = everything but D6, 2 (default) = everything
	d6    bool   // a pod's quota label changed between OnQuotaAdd of its quota and the migration call while the default group held it
	specs map[int]*c01pSpec
	objs  map[int]*schedv1alpha1.ElasticQuota
	pods  map[int]*c01pPV // last delivered version of every alive pod
	// specification of the glue's bookkeeping around the default group
	def    map[int]*c01pPV // pods the default group is specified to cache, with the object it caches and accounts: the last one routed to it
	tmpDef map[int]*c01pPV // (opMigrate only) the same for pods of the running call
	home   map[int]int     // quota of this case (> 1, not dq) specified to cache the pod; 0: none
	await  []int           // quota names handed out as pod labels, not created yet
	nextQ  int
	nextP  int
	fail   bool
	lim    bool
	base   [2][4]int64 // figures of the default group when the case started (stream A)
	// the snapshot taken by the last observe() (nothing is called between an observation and a freshCompare)
	lastRoot [2][4]int64
	lastQs   map[int]*c01pObsQ
	// scale cases (every 5th): the plugin's managers are built with min-quota scaling ON (ElasticQuotaArgs default
	// EnableMinQuotaScale=true); the case gives the observed manager a cluster total around the summed min of a set of mostly
	// non-lending siblings (B streams: Plugin.OnNodeAdd / OnNodeDelete; stream A: SetTotalResourceForTree, the call
	// handlerQuotaWhenRoot makes for a root quota's total annotation) and calls RefreshRuntime (as PreFilter and the status
	// controller do), which lowers CalculateInfo.AutoScaleMin.  The request floor of a non-lending group stays its DECLARED min.
	scale     bool
	scaleSibs []int
	nodes     map[int]*corev1.Node // nodes of this case currently known to the plugin (B streams)
	treeTotal [2]int64             // stream A: total handed to SetTotalResourceForTree
	nextNode  int
}

func (w *c01pWorld) qname(i int) string {
	if i == 1 {
		return extension.RootQuotaName
	}
	if w.same && i == w.dq {
		return extension.DefaultQuotaName
	}
	if i < 0 {
		return fmt.Sprintf("v%dnone", w.idx)
	}
	return fmt.Sprintf("v%dq%02d", w.idx, i)
}

func (w *c01pWorld) qid(name string) int {
	if name == extension.RootQuotaName {
		return 1
	}
	if name == extension.DefaultQuotaName {
		return w.dq
	}
	var a, b int
	if _, err := fmt.Sscanf(name, "v%dq%02d", &a, &b); err != nil || a != w.idx {
		return 0
	}
	return b
}

func (w *c01pWorld) mkQuota(sp *c01pSpec) *schedv1alpha1.ElasticQuota {
	q := &schedv1alpha1.ElasticQuota{
		ObjectMeta: metav1.ObjectMeta{Name: w.qname(sp.name), Namespace: "default", Annotations: map[string]string{}, Labels: map[string]string{}},
		Spec:       schedv1alpha1.ElasticQuotaSpec{Max: c01pRL(sp.max), Min: c01pRL(sp.min)},
	}
	if w.label != "" {
		q.Labels[extension.LabelQuotaTreeID] = w.label
	}
	if sp.parent != 1 || w.r.Bool() { // an absent parent label means the root
		q.Labels[extension.LabelQuotaParent] = w.qname(sp.parent)
	}
	q.Labels[extension.LabelAllowLentResource] = fmt.Sprint(sp.lend)
	q.Labels[extension.LabelQuotaIsParent] = fmt.Sprint(sp.isParent)
	return q
}

func (w *c01pWorld) mkPod(pv *c01pPV) {
	p := &corev1.Pod{ObjectMeta: metav1.ObjectMeta{Namespace: fmt.Sprintf("vns%d", w.idx), Name: fmt.Sprintf("p%02d", pv.id),
		Labels: map[string]string{}, ResourceVersion: fmt.Sprint(pv.rv)}}
	p.Spec.Containers = []corev1.Container{{Resources: corev1.ResourceRequirements{Requests: c01pRL(pv.req)}}}
	if pv.label != 0 {
		p.Labels[extension.LabelQuotaName] = w.qname(pv.label)
	}
	if pv.np {
		p.Labels[extension.LabelPreemptible] = "false"
	}
	if pv.node {
		p.Spec.NodeName = "node-1"
	}
	p.Status.Phase = corev1.PodRunning
	if pv.term {
		p.Status.Phase = corev1.PodSucceeded
	}
	pv.obj = p
}

// res is the glue's specification of getPodAssociateQuotaNameAndTreeID restricted to the observed manager:
// the labelled quota if the plugin knows it, otherwise the default group (dq when it is observed, else 0 = not in this manager).
func (w *c01pWorld) res(pv *c01pPV) int {
	if pv.label > 1 && pv.label != w.dq && w.specs[pv.label] != nil {
		return pv.label
	}
	return w.dq
}

func (w *c01pWorld) toks(pv *c01pPV) string {
	return fmt.Sprintf("%d %d %d %d %d %d 0", pv.id, pv.req[0], pv.req[1], vB(pv.np), vB(pv.node), vB(pv.term))
}

func (w *c01pWorld) children(n int) []int {
	var out []int
	for _, sp := range w.specs {
		if sp.parent == n {
			out = append(out, sp.name)
		}
	}
	sort.Ints(out)
	return out
}

func (w *c01pWorld) inSubtree(root, n int) bool {
	for n > 1 {
		if n == root {
			return true
		}
		sp := w.specs[n]
		if sp == nil {
			return false
		}
		n = sp.parent
	}
	return false
}

// qids: the quotas of the case created through the plugin (the default group is not one of them).
func (w *c01pWorld) qids() []int {
	var out []int
	for n := range w.specs {
		if n != w.dq {
			out = append(out, n)
		}
	}
	sort.Ints(out)
	return out
}

func (w *c01pWorld) pids() []int {
	var out []int
	for id := range w.pods {
		out = append(out, id)
	}
	sort.Ints(out)
	return out
}

// waiting: held by the default group under a label whose quota does not exist yet.
func (w *c01pWorld) waiting(id int) bool {
	d := w.def[id]
	return d != nil && d.label > 1 && w.specs[d.label] == nil
}

// eligible: held by the default group, and the object cached there names a quota the plugin knows by now:
// the next migrateDefaultQuotaGroupsPod takes it out of the default group.
func (w *c01pWorld) eligible(id int) bool {
	d := w.def[id]
	return d != nil && d.label > 1 && d.label != w.dq && w.specs[d.label] != nil
}

func (w *c01pWorld) anyEligible() bool {
	for id := range w.def {
		if w.eligible(id) {
			return true
		}
	}
	return false
}

func (w *c01pWorld) canAwait() bool { return len(w.await) < 2 && len(w.qids())+len(w.await) < 6 }

func (w *c01pWorld) newAwait() int {
	f := w.nextQ
	w.nextQ++
	w.await = append(w.await, f)
	return f
}

func (w *c01pWorld) dropAwait(n int) {
	for i, f := range w.await {
		if f == n {
			w.await = append(w.await[:i:i], w.await[i+1:]...)
			return
		}
	}
}

type c01pObsQ struct {
	parent         int
	isParent, lend bool
	pods           map[int]bool
	foreign        int // cached pods that do not belong to this case
	d              [2][11]int64
}

func (w *c01pWorld) mgr() *core.GroupQuotaManager {
	if w.same {
		return w.pl.groupQuotaManager
	}
	return w.pl.GetGroupQuotaManagerForTree(w.tree)
}

// snapshot projects the root QuotaInfo and the quota summaries of one manager (the live one or a fresh one).
func (w *c01pWorld) snapshot(mgr *core.GroupQuotaManager, sums map[string]*core.QuotaInfoSummary) (root [2][4]int64, qs map[int]*c01pObsQ) {
	qs = map[int]*c01pObsQ{}
	if mgr == nil {
		return
	}
	if ri := mgr.GetQuotaInfoByName(extension.RootQuotaName); ri != nil {
		for k := 0; k < 2; k++ {
			root[k] = [4]int64{c01pVal(ri.GetUsed(), k), c01pVal(ri.GetNonPreemptibleUsed(), k), c01pVal(ri.GetRequest(), k), c01pVal(ri.GetNonPreemptibleRequest(), k)}
		}
	}
	prefix := fmt.Sprintf("vns%d/p", w.idx)
	for name, s := range sums {
		if s.Tree != w.tree {
			continue
		}
		n := w.qid(name)
		if w.same && n == 0 {
			continue // koordinator-system-quota (never holds pods here) and nothing else: every case removes its quotas
		}
		q := &c01pObsQ{parent: w.qid(s.ParentName), isParent: s.IsParent, lend: s.AllowLentResource, pods: map[int]bool{}}
		for key, pi := range s.PodCache {
			if !strings.HasPrefix(key, prefix) {
				q.foreign++
				continue
			}
			var id int
			fmt.Sscanf(key[len(prefix):], "%d", &id)
			q.pods[id] = pi.IsAssigned
		}
		for k := 0; k < 2; k++ {
			q.d[k] = [11]int64{c01pMax(s.Max, k), c01pVal(s.Min, k), c01pVal(s.Used, k), c01pVal(s.NonPreemptibleUsed, k),
				c01pVal(s.Request, k), c01pVal(s.NonPreemptibleRequest, k), c01pVal(s.ChildRequest, k),
				c01pVal(s.SelfUsed, k), c01pVal(s.SelfNonPreemptibleUsed, k), c01pVal(s.SelfRequest, k), c01pVal(s.SelfNonPreemptibleRequest, k)}
			if w.same && n == w.dq {
				q.d[k][0] = c01pDMax // the configured max (MaxInt64/5 cores) does not fit milli-units; the model is told 2^60
			}
		}
		qs[n] = q
	}
	return
}

func (w *c01pWorld) live() (root [2][4]int64, qs map[int]*c01pObsQ) {
	mgr := w.mgr()
	var sums map[string]*core.QuotaInfoSummary
	if mgr != nil {
		if w.same {
			sums = mgr.GetQuotaSummaries(true)
		} else {
			sums = w.pl.GetQuotaSummaries(w.tree, true)
		}
	}
	return w.snapshot(mgr, sums)
}

func (w *c01pWorld) emit(root [2][4]int64, qs map[int]*c01pObsQ) {
	h := w.h
	for k := 0; k < 2; k++ {
		h.Obs("root %d %d %d %d %d", k, root[k][0], root[k][1], root[k][2], root[k][3])
	}
	var ids []int
	for n := range qs {
		ids = append(ids, n)
	}
	sort.Ints(ids)
	for _, n := range ids {
		q := qs[n]
		var pids []int
		for id := range q.pods {
			pids = append(pids, id)
		}
		sort.Ints(pids)
		line := fmt.Sprintf("q %d %d %d %d %d", n, q.parent, vB(q.isParent), vB(q.lend), len(pids))
		for _, id := range pids {
			line += fmt.Sprintf(" %d %d", id, vB(q.pods[id]))
		}
		h.Obs("%s", line)
		for k := 0; k < 2; k++ {
			h.Obs("d %d %d %s", k, n, vInts(q.d[k][:]))
		}
	}
	if !w.d6 {
		h.Obs("inv 1") // after D6 the case runs in `mode 0`: a pod held by two quotas ends up with an entry nobody accounts
	}
	h.Obs("end")
}

func (w *c01pWorld) observe() {
	root, qs := w.live()
	w.lastRoot, w.lastQs = root, qs
	w.emit(root, qs)
	w.oracle(root, qs)
	w.oracleDefault()
}

type c01pAgg struct{ selfReq, selfNp, selfUsed, selfNpUsed, child, request, limited, npReq, used, npUsed int64 }

func (w *c01pWorld) recompute(qs map[int]*c01pObsQ, n, k int, memo map[int]*c01pAgg) *c01pAgg {
	if a, ok := memo[n]; ok {
		return a
	}
	a := &c01pAgg{}
	memo[n] = a
	if oq := qs[n]; oq != nil {
		for id, asg := range oq.pods {
			pv := w.pods[id]
			if pv == nil {
				continue
			}
			if acc := w.def[id]; w.same && n == w.dq && acc != nil {
				pv = acc // the default group accounts the object that was routed to it last
			}
			r := pv.req[k]
			a.selfReq += r
			if pv.np {
				a.selfNp += r
			}
			if asg {
				a.selfUsed += r
				if pv.np {
					a.selfNpUsed += r
				}
			}
		}
	}
	a.child, a.npReq, a.used, a.npUsed = a.selfReq, a.selfNp, a.selfUsed, a.selfNpUsed
	for _, c := range w.children(n) {
		ca := w.recompute(qs, c, k, memo)
		a.child += ca.limited
		a.npReq += ca.npReq
		a.used += ca.used
		a.npUsed += ca.npUsed
	}
	a.request = a.child
	if n != 1 {
		sp := w.specs[n]
		if !sp.lend && sp.min[k] > a.request {
			a.request = sp.min[k]
		}
		a.limited = a.request
		if sp.max[k] < a.limited {
			a.limited = sp.max[k]
			w.lim = true
		}
	}
	return a
}

// c01pD6FP is the registered open finding D6 (known_findings.json): an update that changes the quota label of a pod between
// OnQuotaAdd(X) and the migration call is not routed to the default group, whose cached object keeps label X; the call then
// files the pod under X although its last object names another quota / none (and a named existing quota holds it too).
const c01pD6FP = "C01:pod-membership:stale-label-after-quota-add"

func (w *c01pWorld) bad(fp, f string, a ...interface{}) {
	if w.fail {
		return
	}
	w.fail = true
	if w.d6 && fp != "C01:quota-set" {
		// membership, and the figure / fresh-manager / default-group clauses that follow from a pod in the wrong or in two quotas
		w.h.Tag("pl:known-finding-stale-label-after-quota-add")
		w.h.Fail(c01pD6FP, "[after a pod was relabelled between OnQuotaAdd of its quota and the migration call; clause "+fp+"] "+f, a...)
		return
	}
	w.h.Fail(fp, f, a...)
}

// holds reads the IMPLEMENTATION: does quota n of the observed manager cache the pod?  Only used to decide how many op lines /
// observation blocks one plugin call needs (a line for a quota that does not cache the pod is a no-op for the model anyway).
func (w *c01pWorld) holds(n int, pod *corev1.Pod) bool {
	mgr := w.mgr()
	if mgr == nil || n <= 1 {
		return false
	}
	qi := mgr.GetQuotaInfoByName(w.qname(n))
	return qi != nil && qi.IsPodExist(pod)
}

func c01pAmtDiff(a, b *c01pPV) bool { return a.req != b.req || a.np != b.np }

// oracle: the statement of C01 evaluated from scratch on the plugin's own report (fingerprints as in the core harness).
func (w *c01pWorld) oracle(root [2][4]int64, qs map[int]*c01pObsQ) {
	if w.fail {
		return
	}
	bad := w.bad
	for n := range w.specs {
		if qs[n] == nil {
			bad("C01:quota-set", "quota %d was added through the plugin but is not reported for its tree", n)
			return
		}
	}
	for n := range qs {
		if w.specs[n] == nil {
			bad("C01:quota-set", "quota %d is reported but was deleted through the plugin", n)
			return
		}
	}
	// pods: a pod is counted in the quota its last delivered object resolves to, and nowhere else; a pod that was
	// delivered before its quota existed is counted in the default group until the plugin's migration moved it
	for n, q := range qs {
		if q.foreign > 0 {
			bad("C01:pod-membership", "quota %d caches %d pods that do not belong to this history", n, q.foreign)
			return
		}
		for id := range q.pods {
			pv := w.pods[id]
			if pv == nil {
				bad("C01:pod-membership", "pod %d is cached in quota %d but it was deleted through the plugin", id, n)
				return
			}
			if w.same && n == w.dq {
				if w.def[id] == nil {
					bad("C01:pod-membership", "pod %d is cached in the default group but its last object names quota %d, which holds it", id, pv.label)
					return
				}
				continue
			}
			if w.res(pv) != n || w.home[id] != n {
				bad("C01:pod-membership", "pod %d is cached in quota %d but its last object names quota %d", id, n, pv.label)
				return
			}
		}
	}
	for id := range w.pods {
		if n := w.home[id]; n > 1 {
			if q := qs[n]; q != nil {
				if _, in := q.pods[id]; !in {
					bad("C01:pod-membership", "pod %d: its last object names quota %d and the glue should have placed it there, but the quota does not cache it", id, n)
					return
				}
			}
		}
		if w.same && w.def[id] != nil {
			if _, in := qs[w.dq].pods[id]; !in {
				bad("C01:pod-membership", "pod %d should still be held by the default group, which does not cache it", id)
				return
			}
		}
	}
	for k := 0; k < 2; k++ {
		memo := map[int]*c01pAgg{}
		names := []int{1}
		for n := range w.specs {
			names = append(names, n)
		}
		sort.Ints(names)
		for _, n := range names {
			a := w.recompute(qs, n, k, memo)
			var got [11]int64
			if n == 1 {
				got[2], got[3], got[4], got[5], got[6] = root[k][0], root[k][1], root[k][2], root[k][3], a.child
				got[7], got[8], got[9], got[10] = a.selfUsed, a.selfNpUsed, a.selfReq, a.selfNp
			} else {
				got = qs[n].d[k]
			}
			type chk struct {
				fp        string
				got, want int64
			}
			for _, c := range []chk{{"C01:request-mismatch", got[4], a.request}, {"C01:request-mismatch", got[6], a.child},
				{"C01:used-mismatch", got[2], a.used}, {"C01:np-request-mismatch", got[5], a.npReq}, {"C01:np-used-mismatch", got[3], a.npUsed},
				{"C01:self-request-mismatch", got[9], a.selfReq}, {"C01:self-used-mismatch", got[7], a.selfUsed},
				{"C01:self-np-request-mismatch", got[10], a.selfNp}, {"C01:self-np-used-mismatch", got[8], a.selfNpUsed}} {
				if c.got < 0 {
					bad("C01:negative", "quota %d dim %d: negative figure %d", n, k, c.got)
					return
				}
				if c.got != c.want {
					bad(c.fp, "plugin level, quota %d dim %d: reported %d, recomputed from the surviving pods and quota objects %d", n, k, c.got, c.want)
					return
				}
			}
		}
	}
}

// defaultGroup reads koordinator-default-quota of the default manager: used npUsed request npRequest per dimension, and the
// cached pods of this case (id -> assigned).
func (w *c01pWorld) defaultGroup() (fig [2][4]int64, pods map[int]bool) {
	pods = map[int]bool{}
	qi := w.pl.groupQuotaManager.GetQuotaInfoByName(extension.DefaultQuotaName)
	if qi == nil {
		return
	}
	for k := 0; k < 2; k++ {
		fig[k] = [4]int64{c01pVal(qi.GetUsed(), k), c01pVal(qi.GetNonPreemptibleUsed(), k), c01pVal(qi.GetRequest(), k), c01pVal(qi.GetNonPreemptibleRequest(), k)}
	}
	prefix := fmt.Sprintf("vns%d/p", w.idx)
	for key, pod := range qi.GetPodCache() {
		if !strings.HasPrefix(key, prefix) {
			continue
		}
		var id int
		fmt.Sscanf(key[len(prefix):], "%d", &id)
		pods[id] = qi.CheckPodIsAssigned(pod)
	}
	return
}

// oracleDefault (stream A; in stream B the default group is an observed quota and covered by oracle): the default group, which
// is outside the model run, holds exactly the pods the glue is specified to have routed to it and not yet taken out, and its
// request / used moved, since the case began, by exactly their amounts.  In particular: after migration + deletion it is back to
// its previous figures.
func (w *c01pWorld) oracleDefault() {
	if w.fail || w.same {
		return
	}
	fig, pods := w.defaultGroup()
	for id := range pods {
		if w.def[id] == nil {
			w.bad("C01:default-group-membership", "pod %d is cached in the default group, but the glue should have removed / migrated it (or never put it there)", id)
			return
		}
	}
	for id := range w.def {
		if _, in := pods[id]; !in {
			w.bad("C01:default-group-membership", "pod %d should be held by the default group (quota unknown when it was delivered, not migrated yet), which does not cache it", id)
			return
		}
	}
	for k := 0; k < 2; k++ {
		var want [4]int64
		for id, pv := range w.def {
			r := pv.req[k]
			want[2] += r
			if pv.np {
				want[3] += r
			}
			if pods[id] {
				want[0] += r
				if pv.np {
					want[1] += r
				}
			}
		}
		for i, nm := range []string{"used", "non-preemptible used", "request", "non-preemptible request"} {
			if got := fig[k][i] - w.base[k][i]; got != want[i] {
				w.bad("C01:default-group-mismatch", "default group dim %d: %s moved by %d since the case began, its pods of this case sum to %d", k, nm, got, want[i])
				return
			}
		}
	}
}

// freshBuild feeds a NEW GroupQuotaManager the final objects only: the surviving quota objects parents first, then the pods
// the snapshot qs lists, each with its last delivered object, into the quota place(n, id) (0: left out).  Assigned flags that
// no object carries (reservations, pods that completed while assigned) are copied from the snapshot, as in the core harness.
func (w *c01pWorld) freshBuild(qs map[int]*c01pObsQ, place func(n, id int) int) *core.GroupQuotaManager {
	fresh := core.NewGroupQuotaManager(w.tree, false, w.pl.pluginArgs.SystemQuotaGroupMax, w.pl.pluginArgs.DefaultQuotaGroupMax)
	queue := []int{1}
	for len(queue) > 0 {
		n := queue[0]
		queue = queue[1:]
		for _, c := range w.children(n) {
			if c != w.dq {
				_ = fresh.UpdateQuota(w.objs[c])
			}
			queue = append(queue, c)
		}
	}
	var ids []int
	for n := range qs {
		ids = append(ids, n)
	}
	sort.Ints(ids)
	for _, n := range ids {
		var pids []int
		for id := range qs[n].pods {
			pids = append(pids, id)
		}
		sort.Ints(pids)
		for _, id := range pids {
			pv := w.pods[id]
			to := n
			if place != nil {
				to = place(n, id)
			}
			if pv == nil || to == 0 {
				continue
			}
			if w.same && to == w.dq {
				if acc := w.def[id]; acc != nil {
					pv = acc
				} else if acc := w.tmpDef[id]; acc != nil {
					pv = acc
				}
			}
			name := w.qname(to)
			fresh.OnPodAdd(name, pv.obj)
			want, have := qs[n].pods[id], false
			if qi := fresh.GetQuotaInfoByName(name); qi != nil {
				have = qi.CheckPodIsAssigned(pv.obj)
			}
			if want && !have {
				fresh.ReservePod(name, pv.obj)
			} else if !want && have {
				fresh.UnreservePod(name, pv.obj)
			}
		}
	}
	return fresh
}

// freshCompare: the property's own differential oracle at plugin level - a fresh manager fed the final objects reports
// identical figures for every quota and the root.
func (w *c01pWorld) freshCompare() {
	if w.fail {
		return
	}
	root, qs := w.lastRoot, w.lastQs
	if qs == nil {
		root, qs = w.live()
	}
	fresh := w.freshBuild(qs, nil)
	w.h.Tag("pl:fresh-compare")
	froot, fqs := w.snapshot(fresh, fresh.GetQuotaSummaries(true))
	if froot != root {
		w.bad("C01:fresh-mismatch", "plugin level: root figures %v differ from a fresh manager fed the final objects %v", root, froot)
		return
	}
	for n := range qs {
		fq := fqs[n]
		if fq == nil {
			w.bad("C01:fresh-mismatch", "plugin level: quota %d missing in the fresh manager", n)
			return
		}
		if fq.d != qs[n].d {
			w.bad("C01:fresh-mismatch", "plugin level: quota %d: incremental %v, fresh manager fed the final objects %v", n, qs[n].d, fq.d)
			return
		}
	}
}

// ---------- min-quota scaling (AutoScaleMin) ----------

// opQuotaAddSpec: OnQuotaAdd of a new quota with the given content.
func (w *c01pWorld) opQuotaAddSpec(sp *c01pSpec) {
	h := w.h
	obj := w.mkQuota(sp)
	h.Tag("pl:quota-add")
	w.opQuotaLine(sp)
	w.specs[sp.name], w.objs[sp.name] = sp, obj
	if h.Guard(func() { w.pl.OnQuotaAdd(obj) }) {
		h.Obs("panic")
		return
	}
	w.observe()
}

func (w *c01pWorld) sumMin() (sum [2]int64, sibs []int) {
	for _, n := range w.scaleSibs {
		if sp := w.specs[n]; sp != nil {
			sibs = append(sibs, n)
			sum[0] += sp.min[0]
			sum[1] += sp.min[1]
		}
	}
	return
}

// opNodeAdd: a node with the given allocatable joins (B streams), or the tree total grows by it (stream A).
func (w *c01pWorld) opNodeAdd(alloc [2]int64) {
	h := w.h
	mgr := w.mgr()
	if mgr == nil {
		return
	}
	h.Op("total %d %d", alloc[0], alloc[1]) // no effect on the accounting
	h.Tag("pl:node-add")
	var p bool
	if w.same {
		w.nextNode++
		node := &corev1.Node{ObjectMeta: metav1.ObjectMeta{Name: fmt.Sprintf("v%dnode%d", w.idx, w.nextNode)},
			Status: corev1.NodeStatus{Allocatable: c01pRL(alloc)}}
		w.nodes[w.nextNode] = node
		p = h.Guard(func() { w.pl.OnNodeAdd(node) })
	} else {
		w.treeTotal[0] += alloc[0]
		w.treeTotal[1] += alloc[1]
		p = h.Guard(func() { mgr.SetTotalResourceForTree(c01pRL(w.treeTotal)) })
	}
	if p {
		h.Obs("panic")
		return
	}
	w.observe()
}

// opNodeDelete: one of the case's nodes goes (B streams); stream A: the tree total shrinks to num/8.
func (w *c01pWorld) opNodeDelete(num int64) {
	h := w.h
	mgr := w.mgr()
	if mgr == nil {
		return
	}
	var p bool
	if w.same {
		var ids []int
		for id := range w.nodes {
			ids = append(ids, id)
		}
		if len(ids) == 0 {
			return
		}
		sort.Ints(ids)
		id := ids[w.r.Intn(len(ids))]
		node := w.nodes[id]
		delete(w.nodes, id)
		a := node.Status.Allocatable
		h.Op("total %d %d", -c01pVal(a, 0), -c01pVal(a, 1))
		h.Tag("pl:node-delete")
		var arg interface{} = node
		if w.r.Chance(1, 3) {
			arg = cache.DeletedFinalStateUnknown{Key: node.Name, Obj: node}
		}
		p = h.Guard(func() { w.pl.OnNodeDelete(arg) })
	} else {
		nt := [2]int64{w.treeTotal[0] * num / 8, w.treeTotal[1] * num / 8}
		h.Op("total %d %d", nt[0]-w.treeTotal[0], nt[1]-w.treeTotal[1])
		h.Tag("pl:tree-total-shrink")
		w.treeTotal = nt
		p = h.Guard(func() { mgr.SetTotalResourceForTree(c01pRL(nt)) })
	}
	if p {
		h.Obs("panic")
		return
	}
	w.observe()
}

// opNodeUpdate (B streams): one of the case's nodes changes its allocatable (Plugin.OnNodeUpdate; 1/5 with an unchanged
// ResourceVersion, which the plugin ignores).
func (w *c01pWorld) opNodeUpdate() {
	h, r := w.h, w.r
	if !w.same || len(w.nodes) == 0 {
		return
	}
	var ids []int
	for id := range w.nodes {
		ids = append(ids, id)
	}
	sort.Ints(ids)
	id := ids[r.Intn(len(ids))]
	old := w.nodes[id]
	sum, _ := w.sumMin()
	alloc := [2]int64{sum[0] * int64(r.Range(0, 8)) / 8, sum[1] * int64(r.Range(0, 8)) / 8}
	alloc[0] -= alloc[0] % 250
	nw := old.DeepCopy()
	nw.Status.Allocatable = c01pRL(alloc)
	same := r.Chance(1, 5)
	if !same {
		nw.ResourceVersion = fmt.Sprint(w.nextNode*1000 + r.Range(1, 999))
		if nw.ResourceVersion == old.ResourceVersion {
			nw.ResourceVersion += "0"
		}
		w.nodes[id] = nw
		h.Tag("pl:node-update")
	} else {
		h.Tag("pl:node-update-same-rv-ignored")
	}
	a := old.Status.Allocatable
	h.Op("total %d %d", alloc[0]-c01pVal(a, 0), alloc[1]-c01pVal(a, 1)) // no effect on the accounting
	if h.Guard(func() { w.pl.OnNodeUpdate(old, nw) }) {
		h.Obs("panic")
		return
	}
	w.observe()
}

func (w *c01pWorld) opRefresh(n int) {
	h := w.h
	mgr := w.mgr()
	if mgr == nil || w.specs[n] == nil {
		return
	}
	h.Op("refresh %d", n) // no effect on the accounting
	h.Tag("pl:refresh-runtime")
	if h.Guard(func() { mgr.RefreshRuntime(w.qname(n)) }) {
		h.Obs("panic")
		return
	}
	w.observe()
	// coverage only: a non-lending group whose AutoScaleMin is below its declared min
	for _, s := range mgr.GetQuotaSummaries(false) {
		if !s.AllowLentResource && w.qid(s.Name) > 1 {
			for k := 0; k < 2; k++ {
				if c01pVal(s.AutoScaleMin, k) < c01pVal(s.Min, k) {
					h.Tag("pl:scale:nonlending-min-scaled-down")
					if c01pVal(s.ChildRequest, k) < c01pVal(s.Min, k) {
						h.Tag("pl:scale:floor-active-under-scaled-min")
					}
				}
			}
		}
	}
}

// scaleScenario: 2-3 siblings below the root with min > 0, most of them non-lending; two nodes that together cover their
// summed min, one of them goes; RefreshRuntime of the siblings; pods labelled with them.
func (w *c01pWorld) scaleScenario() {
	r := w.r
	w.h.Tag("pl:scale:scenario")
	if w.nextQ < 3 {
		w.nextQ = 3 // opPodAdd(force) reads 1 / 2 as "awaited quota"
	}
	for i, n := 0, r.Range(2, 3); i < n; i++ {
		sp := &c01pSpec{name: w.nextQ, parent: 1, isParent: r.Chance(1, 5), lend: r.Chance(1, 4)}
		w.nextQ++
		for k := 0; k < 2; k++ {
			sp.min[k] = w.val(k, 8) + [2]int64{500, 1 << 28}[k]
			sp.max[k] = sp.min[k] + w.val(k, 14)
		}
		w.opQuotaAddSpec(sp)
		w.scaleSibs = append(w.scaleSibs, sp.name)
	}
	sum, sibs := w.sumMin()
	// two nodes: the first alone is below the summed min in both dimensions, both together cover it
	a := [2]int64{sum[0] * int64(r.Range(1, 7)) / 8, sum[1] * int64(r.Range(1, 7)) / 8}
	a[0] -= a[0] % 250
	b := [2]int64{sum[0] - a[0] + w.val(0, 4), sum[1] - a[1] + w.val(1, 4)}
	w.opNodeAdd(a)
	w.opNodeAdd(b)
	if r.Chance(1, 2) {
		w.opRefresh(sibs[r.Intn(len(sibs))])
	}
	if r.Chance(1, 3) {
		w.opPodAdd(sibs[r.Intn(len(sibs))])
	}
	w.opNodeDelete(int64(r.Range(0, 6)))
	for _, n := range sibs {
		if r.Chance(5, 6) {
			w.opRefresh(n)
		}
	}
	for i, n := 0, r.Range(1, 3); i < n; i++ {
		w.opPodAdd(sibs[r.Intn(len(sibs))])
	}
}

func (w *c01pWorld) scaleNudge() {
	r := w.r
	qids := w.qids()
	switch x := r.Intn(6); {
	case x == 0:
		sum, _ := w.sumMin()
		a := [2]int64{sum[0] * int64(r.Range(1, 6)) / 8, sum[1] * int64(r.Range(1, 6)) / 8}
		a[0] -= a[0] % 250
		w.opNodeAdd(a)
	case x == 1:
		w.opNodeDelete(int64(r.Range(0, 7)))
	case x == 2 && w.same && len(w.nodes) > 0:
		w.opNodeUpdate()
	case len(qids) > 0:
		w.opRefresh(qids[r.Intn(len(qids))])
	}
}

func (w *c01pWorld) val(k, hi int) int64 {
	if k == 0 {
		return int64(w.r.Range(0, hi)) * 250
	}
	return int64(w.r.Range(0, hi)) << 27
}

func (w *c01pWorld) genVals(sp *c01pSpec) {
	for k := 0; k < 2; k++ {
		sp.max[k] = w.val(k, 24)
		sp.min[k] = w.val(k, 10)
		if sp.min[k] > sp.max[k] {
			sp.min[k] = sp.max[k]
		}
	}
}

func (w *c01pWorld) opQuotaLine(sp *c01pSpec) {
	w.h.Op("quota %d %d %d %d %d %d %d %d", sp.name, sp.parent, vB(sp.isParent), vB(sp.lend), sp.max[0], sp.max[1], sp.min[0], sp.min[1])
}

func (w *c01pWorld) parents(exclude int) []int {
	out := []int{1}
	for n, sp := range w.specs {
		if sp.isParent && (exclude == 0 || !w.inSubtree(exclude, n)) {
			out = append(out, n)
		}
	}
	sort.Ints(out)
	return out
}

// opQuotaAdd: OnQuotaAdd of a new quota; name 0 = pick (an awaited name with probability 1/2).
func (w *c01pWorld) opQuotaAdd(name int) {
	r, h := w.r, w.h
	if name == 0 {
		if len(w.qids()) >= 6 {
			return
		}
		if len(w.await) > 0 && r.Chance(1, 2) {
			name = w.await[r.Intn(len(w.await))]
		} else {
			name = w.nextQ
			w.nextQ++
		}
	}
	w.dropAwait(name)
	ps := w.parents(0)
	sp := &c01pSpec{name: name, parent: ps[r.Intn(len(ps))], isParent: r.Chance(2, 5), lend: r.Chance(3, 5)}
	w.genVals(sp)
	obj := w.mkQuota(sp)
	h.Tag("pl:quota-add")
	w.opQuotaLine(sp)
	w.specs[sp.name], w.objs[sp.name] = sp, obj
	for id := range w.def {
		if w.def[id].label == name {
			h.Tag("pl:quota-add-awaited-by-pod")
		}
	}
	if h.Guard(func() { w.pl.OnQuotaAdd(obj) }) {
		h.Obs("panic")
		return
	}
	w.observe()
}

// opPodAdd: OnPodAdd; force 1 / 2 = a pending / bound pod labelled with a quota that does not exist yet (a new awaited name),
// force > 2 = a pod labelled with the awaited quota of that name.
func (w *c01pWorld) opPodAdd(force int) int {
	r, h := w.r, w.h
	qids := w.qids()
	pv := &c01pPV{id: w.nextP, np: r.Chance(1, 3), node: r.Chance(1, 4), term: r.Chance(1, 15), rv: 1}
	w.nextP++
	switch {
	case force < 0: // no quota label
		pv.label = 0
	case force > 2: // a further pod awaiting the quota named force
		pv.label = force
	case force != 0:
		pv.label, pv.node, pv.term = w.newAwait(), force == 2, false
	case r.Chance(1, 10):
		pv.label = 0
	case r.Chance(1, 10):
		pv.label = -1
	case r.Chance(1, 7) && (w.canAwait() || len(w.await) > 0):
		if len(w.await) > 0 && (!w.canAwait() || r.Chance(1, 3)) {
			pv.label = w.await[r.Intn(len(w.await))] // several pods can wait for the same quota
		} else {
			pv.label = w.newAwait()
		}
	default:
		pv.label = qids[r.Intn(len(qids))]
	}
	pv.req = [2]int64{w.val(0, 8), w.val(1, 8)}
	w.mkPod(pv)
	h.Tag("pl:pod-add")
	if pv.label > 1 && w.specs[pv.label] == nil {
		if pv.node && !pv.term {
			h.Tag("pl:pod-add-before-quota-bound")
		} else {
			h.Tag("pl:pod-add-before-quota-pending")
		}
	}
	switch q := w.res(pv); {
	case q == 0:
		h.Op("refresh 0")
		h.Tag("pl:pod-add-default-tree")
		w.def[pv.id] = pv
	case q == w.dq:
		h.Op("padd %d %s", q, w.toks(pv))
		h.Tag("pl:pod-add-default-group")
		w.def[pv.id] = pv
	default:
		h.Op("padd %d %s", q, w.toks(pv))
		w.home[pv.id] = q
	}
	w.pods[pv.id] = pv
	if h.Guard(func() { w.pl.OnPodAdd(pv.obj) }) {
		h.Obs("panic")
		return pv.id
	}
	w.observe()
	return pv.id
}

// opPodUpdate: OnPodUpdate; force >= 0 fixes the kind of change.
func (w *c01pWorld) opPodUpdate(id int, force int) {
	r, h := w.r, w.h
	qids := w.qids()
	old := w.pods[id]
	nv := *old
	nv.rv = old.rv + 1
	kind := r.Intn(10)
	if force >= 0 {
		kind = force
	}
	if force >= 100 {
		kind = 10 // relabel with the quota named force-100
		nv.label = force - 100
	}
	if len(qids) == 0 && (kind == 5 || kind == 6) {
		kind = 9 // no quota to move to (scripted call after the random steps deleted them all)
	}
	if w.lvl == 1 && w.eligible(id) && (kind == 5 || kind == 6 || kind == 8 || kind == 10) {
		// D6 (see the header): no label change between OnQuotaAdd of the pod's quota and the migration call
		kind = 9
		nv.label = old.label
	}
	if w.lvl == 0 {
		// the restricted generator: nothing relevant happens to a pod the default group holds under an awaited label
		switch {
		case w.waiting(id):
			if kind != 5 && kind != 7 {
				kind = 9
			}
		case w.eligible(id) && w.same:
			kind = 7
		case w.eligible(id):
			if kind == 5 || kind == 6 || kind == 8 {
				kind = 9
			}
		case w.def[id] != nil:
			if kind == 8 {
				kind = 9
			}
		}
	}
	switch kind {
	case 0:
		k := r.Intn(2)
		nv.req[k] = w.val(k, 8)
	case 1:
		nv.np = !nv.np
	case 2, 3:
		nv.node = true
	case 4:
		nv.term = true
	case 5: // move to another quota of the case
		nv.label = qids[r.Intn(len(qids))]
	case 6: // label removed / unknown quota / back
		nv.label = []int{0, -1, qids[r.Intn(len(qids))]}[r.Intn(3)]
	case 7: // same resourceVersion: a resync, ignored by the plugin
		nv.rv = old.rv
		nv.req[0] = w.val(0, 8)
	case 8: // relabelled with a quota that does not exist yet (a new awaited name, or one other pods wait for)
		if len(w.await) > 0 && (!w.canAwait() || r.Chance(1, 3)) {
			nv.label = w.await[r.Intn(len(w.await))]
		} else if w.canAwait() {
			nv.label = w.newAwait()
		}
	default: // nothing but the resourceVersion changes (status update)
	}
	w.mkPod(&nv)
	ro, rn := w.res(old), w.res(&nv)
	h.Tag("pl:pod-update")
	if nv.rv != old.rv {
		switch {
		case w.eligible(id):
			h.Tag("pl:pod-update-between-quota-add-and-migration")
			if nv.node && !old.node {
				h.Tag("pl:pod-bound-between-quota-add-and-migration")
			}
			if c01pAmtDiff(&nv, old) {
				h.Tag("pl:pod-resized-between-quota-add-and-migration")
			}
			if nv.label != old.label {
				h.Tag("pl:pod-relabelled-between-quota-add-and-migration")
				if !w.d6 {
					w.d6 = true
					h.Op("mode 0") // registered finding D6: from here on correspondence only, no `inv` line
				}
			}
		case w.def[id] != nil && c01pAmtDiff(&nv, old):
			h.Tag("pl:pod-resized-while-default-group-holds-it")
		case w.def[id] != nil && nv.label != old.label:
			h.Tag("pl:pod-relabelled-while-default-group-holds-it")
		}
	}
	// bookkeeping of core OnPodAdd / OnPodUpdate / OnPodDelete: "add if the quota does not cache the pod", "remove if it does",
	// "a same-quota update refreshes the cached object" (7265fb2)
	switch {
	case nv.rv == old.rv:
		h.Op("refresh 0")
		h.Tag("pl:pod-update-same-rv")
	case w.same: // one manager: OnPodUpdate(newQuota, oldQuota, newPod, oldPod), the default group being one of its quotas
		h.Op("pupd %d %d %s %s", rn, ro, w.toks(&nv), w.toks(old))
		if ro != rn {
			if ro == w.dq {
				if w.def[id] != nil {
					h.Tag("pl:pod-update-leaves-default-group")
				}
				delete(w.def, id)
			} else if w.home[id] == ro {
				w.home[id] = 0
			}
		}
		if rn == w.dq {
			if w.def[id] == nil {
				h.Tag("pl:pod-update-enters-default-group")
				w.def[id] = &nv
			} else if ro == rn {
				w.def[id] = &nv
			}
		} else {
			w.home[id] = rn
		}
	case ro != 0 && rn != 0:
		h.Op("pupd %d %d %s %s", rn, ro, w.toks(&nv), w.toks(old))
		w.home[id] = rn
	case ro != 0: // cross-tree: OnPodDelete in the tree, OnPodAdd in the default manager
		h.Op("pdel %d %s", ro, w.toks(old))
		h.Tag("pl:pod-update-leaves-tree")
		if w.home[id] == ro {
			w.home[id] = 0
		}
		if w.def[id] == nil {
			w.def[id] = &nv
		}
	case rn != 0: // cross-tree: OnPodDelete in the default manager, OnPodAdd in the tree
		h.Op("padd %d %s", rn, w.toks(&nv))
		h.Tag("pl:pod-update-enters-tree")
		delete(w.def, id)
		w.home[id] = rn
	default: // OnPodUpdate inside the default manager
		h.Op("refresh 0")
		w.def[id] = &nv
	}
	if nv.rv != old.rv {
		w.pods[nv.id] = &nv
	}
	if h.Guard(func() { w.pl.OnPodUpdate(old.obj, nv.obj) }) {
		h.Obs("panic")
		return
	}
	w.observe()
}

func (w *c01pWorld) deletable(id int) bool { return w.lvl != 0 || !w.eligible(id) }

// opPodDelete: OnPodDelete.  Specification (pod_handler.go, 931f7a3): OnPodDelete(resolved quota, object) in the manager of
// that quota and, when the resolved quota is not the default group, also OnPodDelete(default group, object) in the default
// manager; each quota gives back the amounts of ITS cached object (7265fb2).  Op lines are emitted only for the quotas that
// cache the pod; when both the resolved quota and the default group do (default-manager streams, pod updated between
// OnQuotaAdd and the migration call) the model needs two lines and a block in between: the harness exposes that state by
// calling core OnPodDelete(resolved quota) itself first, so the plugin call that follows has only the default group left.
func (w *c01pWorld) opPodDelete(id int) {
	r, h := w.r, w.h
	pv := w.pods[id]
	h.Tag("pl:pod-delete")
	q := w.res(pv)
	inQ := q != 0 && q != w.dq && w.holds(q, pv.obj)
	inDef := w.def[id] != nil
	if w.same {
		inDef = w.holds(w.dq, pv.obj)
	}
	if w.def[id] != nil && w.def[id].label > 1 {
		if w.eligible(id) {
			h.Tag("pl:pod-delete-between-quota-add-and-migration")
			if c01pAmtDiff(pv, w.def[id]) {
				h.Tag("pl:pod-delete-between-quota-add-and-migration-after-resize")
			}
		} else {
			h.Tag("pl:pod-delete-in-default-group-awaiting")
		}
	}
	switch {
	case w.same && inQ && inDef:
		h.Op("pdel %d %s", q, w.toks(pv))
		h.Tag("pl:pod-delete-from-quota-and-default-group")
		if h.Guard(func() { w.mgr().OnPodDelete(w.qname(q), pv.obj) }) {
			h.Obs("panic")
			return
		}
		w.emit(w.live())
		h.Op("pdel %d %s", w.dq, w.toks(pv))
	case w.same && inDef:
		h.Op("pdel %d %s", w.dq, w.toks(pv))
	case q != 0:
		h.Op("pdel %d %s", q, w.toks(pv))
	default:
		h.Op("refresh 0")
	}
	delete(w.def, id)
	if w.home[id] == q {
		delete(w.home, id)
	}
	delete(w.pods, id)
	var arg interface{} = pv.obj
	if r.Chance(1, 3) {
		arg = cache.DeletedFinalStateUnknown{Key: pv.obj.Name, Obj: pv.obj}
	}
	if h.Guard(func() { w.pl.OnPodDelete(arg) }) {
		h.Obs("panic")
		return
	}
	w.observe()
}

func (w *c01pWorld) opReserve(id int, un bool) {
	h := w.h
	pv := w.pods[id]
	kind := "reserve"
	if un {
		kind = "unreserve"
	}
	h.Tag("pl:" + kind)
	if w.def[id] != nil && w.def[id].label > 1 {
		h.Tag("pl:" + kind + "-while-in-default-group-awaiting")
	}
	if q := w.res(pv); q != 0 {
		h.Op("%s %d %s", kind, q, w.toks(pv))
	} else {
		h.Op("refresh 0")
	}
	if h.Guard(func() {
		if un {
			w.pl.Unreserve(context.TODO(), nil, pv.obj, "node-1")
		} else {
			w.pl.Reserve(context.TODO(), nil, pv.obj, "node-1")
		}
	}) {
		h.Obs("panic")
		return
	}
	w.observe()
}

// pvOf reads a cached pod object of this case back into the harness' representation (the 7 tokens of an op line + label).
func (w *c01pWorld) pvOf(p *corev1.Pod) *c01pPV {
	pv := &c01pPV{obj: p}
	fmt.Sscanf(p.Name, "p%d", &pv.id)
	if len(p.Spec.Containers) > 0 {
		rl := p.Spec.Containers[0].Resources.Requests
		pv.req = [2]int64{c01pVal(rl, 0), c01pVal(rl, 1)}
	}
	pv.np = p.Labels[extension.LabelPreemptible] == "false"
	pv.node = p.Spec.NodeName != ""
	pv.term = p.Status.Phase == corev1.PodSucceeded || p.Status.Phase == corev1.PodFailed
	if name, ok := p.Labels[extension.LabelQuotaName]; ok {
		pv.label = w.qid(name)
		if pv.label <= 1 {
			pv.label = -1
		}
	}
	return pv
}

// opMigrate calls the plugin's periodic migration once and drives it end to end: the op lines are built from the objects the
// IMPLEMENTATION's default group caches (read back through GetPodCache before the call), the oracle's expectation from the
// harness' own bookkeeping.  Specification (plugin_helper.go): every pod cached by the default group whose cached object
// (since 7265fb2: the last object routed to the default group) names a quota the plugin knows leaves the default group;
// if that quota lives in another manager (stream A) that manager gets OnPodAdd(quota, cached object) (no effect, and no op
// line, when it already caches the pod), otherwise (stream B) the default manager runs
// MigratePod(cached object, default, quota), which since 5a63beb leaves a target that already holds the pod alone.
// One call can move several pods (the order, a Go map iteration, does not matter for the figures); the model driver wants one
// operation and one observation block per pod.  The blocks between them - states the call never exposes - are read off fresh
// managers fed the final objects with the pods that are moved later still left out (stream A) / still in the default group
// (stream B); when a target already holds a pod (stream B) the harness performs the specified core calls for all but the
// last pod itself and lets the plugin's call do the rest.  The block after the last line is the live observation after the
// plugin's call, as everywhere.
func (w *c01pWorld) opMigrate() {
	h := w.h
	type mv struct {
		id, x int
		d     *c01pPV
	}
	var cached []*c01pPV
	prefix := fmt.Sprintf("vns%d/", w.idx)
	if qi := w.pl.groupQuotaManager.GetQuotaInfoByName(extension.DefaultQuotaName); qi != nil {
		for key, pod := range qi.GetPodCache() {
			if strings.HasPrefix(key, prefix) {
				cached = append(cached, w.pvOf(pod))
			}
		}
	}
	sort.Slice(cached, func(i, j int) bool { return cached[i].id < cached[j].id })
	var moved []mv
	direct := false
	w.tmpDef = map[int]*c01pPV{}
	for _, d := range cached {
		x, id := d.label, d.id
		if x <= 1 || x == w.dq || w.specs[x] == nil {
			continue
		}
		kind := "pending"
		if d.node && !d.term {
			kind = "bound"
		}
		switch {
		case w.same:
			if w.holds(x, d.obj) {
				direct = true
				h.Tag("pl:migrate-same-manager-target-holds-pod")
			}
			h.Op("migrate %d %d %s", w.dq, x, w.toks(d))
			moved = append(moved, mv{id, x, d})
			h.Tag("pl:migrate-same-manager-" + kind)
		case !w.holds(x, d.obj):
			h.Op("padd %d %s", x, w.toks(d))
			moved = append(moved, mv{id, x, d})
			h.Tag("pl:migrate-cross-tree-" + kind)
		default:
			h.Tag("pl:migrate-cross-tree-already-there")
		}
		w.tmpDef[id] = d
	}
	// expectation: what the harness' bookkeeping says the default group holds and must hand over
	nspec := 0
	for id := range w.def {
		if w.eligible(id) {
			nspec++
			if w.home[id] == 0 || w.same && w.home[id] != w.def[id].label {
				w.home[id] = w.def[id].label
			}
			delete(w.def, id)
		}
	}
	if len(moved) == 0 {
		h.Op("refresh 0")
		if nspec == 0 {
			h.Tag("pl:migrate-nothing")
		}
	}
	h.Tag("pl:migrate-call")
	direct = direct || w.d6
	if len(moved) > 1 && direct {
		h.Tag("pl:migrate-several-pods-stepwise")
		for _, m := range moved[:len(moved)-1] {
			m := m
			if h.Guard(func() {
				if w.same {
					w.mgr().MigratePod(m.d.obj, extension.DefaultQuotaName, w.qname(m.x))
				} else {
					w.pl.groupQuotaManager.OnPodDelete(extension.DefaultQuotaName, m.d.obj)
					w.mgr().OnPodAdd(w.qname(m.x), m.d.obj)
				}
			}) {
				h.Obs("panic")
				return
			}
			w.emit(w.live())
		}
	}
	if h.Guard(func() { w.pl.migrateDefaultQuotaGroupsPod() }) {
		h.Obs("panic")
		return
	}
	if len(moved) > 1 && !direct {
		h.Tag("pl:migrate-several-pods-in-one-call")
		_, qs := w.live()
		for i := 1; i < len(moved); i++ {
			later := map[int]bool{}
			for _, m := range moved[i:] {
				later[m.id] = true
			}
			fresh := w.freshBuild(qs, func(n, id int) int {
				if later[id] {
					return w.dq // 0 in stream A: not in this manager yet
				}
				return n
			})
			w.emit(w.snapshot(fresh, fresh.GetQuotaSummaries(true)))
		}
	}
	w.tmpDef = nil
	w.observe()
}

func (w *c01pWorld) step() {
	r, h := w.r, w.h
	qids := w.qids()
	pids := w.pids()
	if w.anyEligible() {
		if r.Chance(2, 5) {
			w.opMigrate()
			return
		}
	} else if r.Chance(1, 80) {
		w.opMigrate()
		return
	}
	x := r.Intn(100)
	switch {
	case x < 10 || len(qids) == 0: // OnQuotaAdd of a new quota
		w.opQuotaAdd(0)
	case x < 14: // OnQuotaAdd of a quota the plugin already knows (resync) with different content, or of a deleting object: ignored
		n := qids[r.Intn(len(qids))]
		sp := *w.specs[n]
		w.genVals(&sp)
		obj := w.mkQuota(&sp)
		if r.Bool() {
			now := metav1.Now()
			obj.DeletionTimestamp = &now
		}
		h.Tag("pl:quota-add-ignored")
		h.Op("refresh %d", n) // no manager-level operation
		if h.Guard(func() { w.pl.OnQuotaAdd(obj) }) {
			h.Obs("panic")
			return
		}
		w.observe()
	case x < 32: // OnQuotaUpdate
		n := qids[r.Intn(len(qids))]
		sp := *w.specs[n]
		switch r.Intn(5) {
		case 0, 1:
			w.genVals(&sp)
		case 2:
			sp.lend = !sp.lend
		case 3:
			if !sp.isParent || len(w.children(n)) == 0 {
				sp.isParent = !sp.isParent
			}
		case 4:
			var cands []int
			for _, c := range w.parents(n) {
				if c != sp.parent {
					cands = append(cands, c)
				}
			}
			if len(cands) > 0 {
				sp.parent = cands[r.Intn(len(cands))]
			}
		}
		obj := w.mkQuota(&sp)
		h.Tag("pl:quota-update")
		w.opQuotaLine(&sp)
		old := w.objs[n]
		cp := sp
		w.specs[n], w.objs[n] = &cp, obj
		if h.Guard(func() { w.pl.OnQuotaUpdate(old, obj) }) {
			h.Obs("panic")
			return
		}
		w.observe()
	case x < 36: // OnQuotaDelete of a childless quota that no alive pod names (nor any object the default group still caches)
		var cands []int
		for _, n := range qids {
			busy := len(w.children(n)) > 0
			for _, pv := range w.pods {
				if pv.label == n {
					busy = true
				}
			}
			for _, pv := range w.def {
				if pv.label == n {
					busy = true
				}
			}
			if !busy {
				cands = append(cands, n)
			}
		}
		if len(cands) == 0 {
			return
		}
		n := cands[r.Intn(len(cands))]
		obj := w.objs[n]
		h.Tag("pl:quota-delete")
		h.Op("delquota %d", n)
		delete(w.specs, n)
		delete(w.objs, n)
		var arg interface{} = obj
		if r.Chance(1, 3) {
			arg = cache.DeletedFinalStateUnknown{Key: obj.Name, Obj: obj}
		}
		if h.Guard(func() { w.pl.OnQuotaDelete(arg) }) {
			h.Obs("panic")
			return
		}
		w.observe()
	case x < 54 || len(pids) == 0: // OnPodAdd
		if len(pids) >= 8 {
			return
		}
		w.opPodAdd(0)
	case x < 76: // OnPodUpdate
		w.opPodUpdate(pids[r.Intn(len(pids))], -1)
	case x < 84: // OnPodDelete
		var cands []int
		for _, id := range pids {
			if w.deletable(id) {
				cands = append(cands, id)
			}
		}
		if len(cands) == 0 {
			return
		}
		w.opPodDelete(cands[r.Intn(len(cands))])
	case x < 94: // Reserve
		w.opReserve(pids[r.Intn(len(pids))], false)
	default: // Unreserve (roll back a reservation of a pod that is not bound)
		var cands []int
		for _, id := range pids {
			if !w.pods[id].node {
				cands = append(cands, id)
			}
		}
		if len(cands) == 0 {
			return
		}
		w.opReserve(cands[r.Intn(len(cands))], true)
	}
}

// scripted: the migration scenario, deterministically: a pod (pending or bound) labelled with a quota that does not exist
// yet, possibly reserved while the default group holds it, then OnQuotaAdd of that quota, then the plugin's migration.
// variant (fixed by the case index; 1-3, 5, 6 need the free generator):
//
//	0 nothing special          4 a second pod waits for the same quota (one call moves both)
//	1 D1 the pod is updated (status only / resized / bound) between OnQuotaAdd and the migration call (5a63beb)
//	2 D2 it is deleted in that window (931f7a3)
//	3 D3 it is resized / its non-preemptible flag flips while the default group holds it, before the quota exists (7265fb2)
//	5 D4 it is resized in the window and deleted before the migration call (7265fb2)
//	6 D5 its label changes while the default group holds it, before the quota exists: removed / unknown / another quota /
//	     another awaited quota - or it starts unlabelled and gets the awaited label (7265fb2)
//	7 D6 its label changes between OnQuotaAdd and the migration call (registered open finding, own fingerprint)
func (w *c01pWorld) scripted(variant int) int {
	r := w.r
	if w.lvl == 0 && variant != 4 {
		variant = 0
	}
	for i := r.Range(1, 2); i > 0; i-- {
		w.opQuotaAdd(0)
	}
	force := 1 + r.Intn(2)
	if variant == 1 && r.Chance(1, 2) {
		force = 1 // pending, so that the update in the window can be the bind
	}
	id := w.opPodAdd(force)
	f := w.pods[id].label
	if variant == 6 && r.Chance(1, 3) {
		// a pod without label, held by the default group, gets the awaited label
		id2 := w.opPodAdd(-1)
		w.opPodUpdate(id2, 100+f)
		w.h.Tag("pl:scripted-D5-unlabelled-pod-gets-awaited-label")
	}
	for i := r.Intn(3); i > 0; i-- {
		w.step()
	}
	if pv := w.pods[id]; pv != nil && w.waiting(id) && !pv.node && r.Chance(1, 3) {
		w.opReserve(id, false)
	}
	if w.pods[id] != nil && w.waiting(id) {
		switch variant {
		case 3:
			w.opPodUpdate(id, r.Intn(2))
			w.h.Tag("pl:scripted-D3-resize-while-awaiting")
		case 6:
			w.opPodUpdate(id, []int{6, 6, 5, 8}[r.Intn(4)])
			w.h.Tag("pl:scripted-D5-relabel-while-awaiting")
		}
	}
	if w.specs[f] == nil && (variant == 4 || r.Chance(1, 4)) {
		w.opPodAdd(f) // a second pod waiting for the same quota: one migration call moves both
	}
	if w.specs[f] == nil {
		w.opQuotaAdd(f)
	}
	if w.pods[id] != nil && w.eligible(id) {
		switch variant {
		case 1:
			w.opPodUpdate(id, []int{9, 0, 2, 2}[r.Intn(4)])
			w.h.Tag("pl:scripted-D1-update-in-window")
			if r.Chance(1, 3) && w.deletable(id) {
				w.opPodDelete(id) // held by its quota AND the default group: both are cleared
			}
		case 2:
			w.opPodDelete(id)
			w.h.Tag("pl:scripted-D2-delete-in-window")
		case 5:
			w.opPodUpdate(id, r.Intn(2))
			w.opPodDelete(id)
			w.h.Tag("pl:scripted-D4-resize-then-delete-in-window")
		case 7:
			if w.lvl >= 2 {
				w.opPodUpdate(id, []int{6, 6, 5, 8}[r.Intn(4)]) // label removed / unknown / an existing quota / an awaited quota
				w.h.Tag("pl:scripted-D6-relabel-in-window")
			}
		}
	}
	if r.Chance(1, 3) {
		w.step()
	}
	w.opMigrate()
	w.h.Tag("pl:scripted-migration")
	return id
}

func (w *c01pWorld) cleanup() {
	pl := w.pl
	for _, node := range w.nodes { // the shared default manager gets its cluster total back
		pl.OnNodeDelete(node)
	}
	// leave nothing behind in the shared plugin
	for _, pv := range w.pods {
		pl.OnPodDelete(pv.obj)
	}
	prefix := fmt.Sprintf("vns%d/", w.idx)
	if qi := pl.groupQuotaManager.GetQuotaInfoByName(extension.DefaultQuotaName); qi != nil {
		for key, pod := range qi.GetPodCache() {
			if strings.HasPrefix(key, prefix) {
				pl.groupQuotaManager.OnPodDelete(extension.DefaultQuotaName, pod)
			}
		}
	}
	if w.same {
		for len(w.qids()) > 0 {
			for _, n := range w.qids() {
				if len(w.children(n)) == 0 {
					pl.OnQuotaDelete(w.objs[n])
					delete(w.specs, n)
					delete(w.objs, n)
				}
			}
		}
	}
	fig, _ := w.defaultGroup()
	if fig != w.base {
		w.bad("C01:default-group-residue", "after every pod of the case was deleted the default group reports %v, before the case %v (used npUsed request npRequest per dimension)", fig, w.base)
	}
	if fig != ([2][4]int64{}) || w.same && w.d6 {
		// a finding can leave amounts / a pod in the default manager for good; the next case starts from a clean default manager
		// (no pod and no quota of any case is left in it), built the way the plugin builds it
		pl.groupQuotaManager = core.NewGroupQuotaManager("", pl.pluginArgs.EnableMinQuotaScale, pl.pluginArgs.SystemQuotaGroupMax, pl.pluginArgs.DefaultQuotaGroupMax)
		_ = pl.groupQuotaManager.InitHookPlugins(pl.pluginArgs)
		w.h.Tag("pl:default-manager-reset-after-residue")
	}
}

func TestVerifC01Plugin(t *testing.T) {
	h := vOpen("C01")
	if h == nil {
		t.Skip("VERIF_OUT not set")
	}
	defer utilfeature.SetFeatureGateDuringTest(t, k8sfeature.DefaultMutableFeatureGate, koordfeatures.MultiQuotaTree, true)()
	suit := newPluginTestSuit(t, nil)
	pl := suit.createPlugin(t).(*Plugin)
	setLoglevel("0")
	lvl := 2
	switch os.Getenv("VERIF_C01P_FREE") {
	case "0":
		lvl = 0
	case "1":
		lvl = 1
	}
	n := h.N(150, 3000)
	for idx := 0; idx < n; idx++ {
		r := h.Begin(idx)
		if r == nil {
			continue
		}
		w := &c01pWorld{h: h, r: r, pl: pl, idx: idx, lvl: lvl, specs: map[int]*c01pSpec{},
			objs: map[int]*schedv1alpha1.ElasticQuota{}, pods: map[int]*c01pPV{}, def: map[int]*c01pPV{},
			home: map[int]int{}, nextQ: 2, nextP: 1, nodes: map[int]*corev1.Node{}}
		w.scale = idx%5 == 2
		restore := func() {}
		switch {
		case idx%4 == 1: // B1
			w.same = true
			h.Tag("stream:B1-default-manager-no-tree-label")
		case idx%8 == 3: // B2
			w.same = true
			restore = utilfeature.SetFeatureGateDuringTest(t, k8sfeature.DefaultMutableFeatureGate, koordfeatures.MultiQuotaTree, false)
			if r.Bool() {
				w.label = fmt.Sprintf("vt%d", idx)
			}
			h.Tag("stream:B2-default-manager-gate-off")
		default: // A
			w.tree = fmt.Sprintf("vt%d", idx)
			w.label = w.tree
			h.Tag("stream:A-own-tree")
		}
		h.Op("mode 1")
		w.base, _ = w.defaultGroup()
		if w.same {
			w.dq, w.nextQ = 2, 3
			sp := &c01pSpec{name: w.dq, parent: 1, lend: true, max: [2]int64{c01pDMax, c01pDMax}}
			w.specs[w.dq] = sp
			w.opQuotaLine(sp) // the model is told about koordinator-default-quota; nothing is called
			w.observe()
		}
		nops := r.Range(20, 45)
		mid := r.Range(5, nops-1)
		target := 0
		if w.scale {
			h.Tag("pl:scale:case")
			w.scaleScenario()
		}
		if idx%3 == 0 {
			target = w.scripted((idx / 3) % 8)
			nops -= 6
		}
		for i := 0; i < nops; i++ {
			w.step()
			if w.scale && r.Chance(1, 5) {
				w.scaleNudge()
			}
			if i == mid {
				w.freshCompare()
			}
		}
		if nops <= mid {
			w.freshCompare()
		}
		if w.anyEligible() {
			w.opMigrate()
		}
		if target != 0 && w.pods[target] != nil {
			w.opPodDelete(target)
		}
		w.freshCompare()
		if w.lim {
			h.Nontrivial()
		}
		w.cleanup()
		restore()
		h.End()
	}
	h.Close("plugin-level histories (20-45 calls of OnQuotaAdd/Update/Delete, OnPodAdd/Update/Delete, Reserve, Unreserve, migrateDefaultQuotaGroupsPod with API objects; " +
		"quota label present / absent / unknown / moved / naming a quota that is created later, same-ResourceVersion resyncs, DeletedFinalStateUnknown, duplicate OnQuotaAdd) in one shared plugin; " +
		"stream A (5/8): MultiQuotaTree on, one quota tree per case, default group checked by a Go oracle, migration = OnPodAdd of the object cached by the default group; " +
		"streams B1 (1/4, no tree label) and B2 (1/8, MultiQuotaTree off): the case's quotas live in the default manager, koordinator-default-quota is an observed quota, migration = MigratePod(default -> X); " +
		"the migration's op lines are built from the objects read back from the implementation's default group; " +
		"every third case starts with the scripted scenario pod (pending | bound | reserved in the default group) before quota -> OnQuotaAdd -> migration -> ... -> delete, in eight variants by index: plain, " +
		"D1 pod updated/bound between OnQuotaAdd and the migration call, D2 deleted in that window, D3 resized while the default group holds it, two pods in one call, D4 resized in the window then deleted before the call, " +
		"D5 relabelled while the default group holds it before its quota exists, D6 relabelled between OnQuotaAdd and the call (registered finding, own fingerprint); " +
		"the same happens at random in every case (VERIF_C01P_FREE=0 restores the restricted generator, =1 everything but D6); " +
		"every 5th case (index%5 == 2; the plugin's managers have min-quota scaling ON by default) starts with 2-3 root-level siblings with min > 0 (3/4 non-lending), two nodes covering their summed min " +
		"(B streams: Plugin.OnNodeAdd / OnNodeUpdate / OnNodeDelete incl. DeletedFinalStateUnknown; stream A: SetTotalResourceForTree), one node gone, RefreshRuntime of the siblings (what PreFilter / the status controller call), " +
		"pods labelled with them, and further node / refresh calls in between the random calls; the case's nodes are removed at its end; " +
		"a fresh manager is fed the final objects in the middle and at the end of every case; " +
		"non-trivial = some quota's request exceeded its max")
}
