//go:build verif

package elasticquota

import (
	"context"
	"encoding/json"
	"fmt"
	"os"
	"sort"
	"strings"
	"testing"

	corev1 "k8s.io/api/core/v1"
	"k8s.io/apimachinery/pkg/api/resource"
	metav1 "k8s.io/apimachinery/pkg/apis/meta/v1"
	k8sfeature "k8s.io/apiserver/pkg/util/feature"
	"k8s.io/client-go/tools/cache"

	"github.com/koordinator-sh/koordinator/apis/extension"
	schedv1alpha1 "github.com/koordinator-sh/koordinator/apis/thirdparty/scheduler-plugins/pkg/apis/scheduling/v1alpha1"
	koordfeatures "github.com/koordinator-sh/koordinator/pkg/features"
	utilfeature "github.com/koordinator-sh/koordinator/pkg/util/feature"
)

// C19, harness `quota`: "after a restart the quota a running pod is charged to is the one rebuilt from the objects".
//
// One case = one history on a LIVE plugin (a Plugin of its own per case, informers not started: the harness plays the informer,
// i.e. it updates the ElasticQuota informer's indexer and then calls the registered handler methods), cut twice (middle, end).
// At a cut every Reserve is settled (bind or Unreserve), the live plugin runs its periodic migration once, and a FRESH plugin is
// fed only the surviving API objects in a random delivery shape:
//
//	R  production start-up: all quotas into the informer store, OnQuotaAdd for them in ANY order (child before parent too),
//	   ReplaceQuotas(store), then the pods in random order with duplicates, then migrateDefaultQuotaGroupsPod (end of New());
//	H  handlers only: OnQuotaAdd parents first, interleaved with the pods, every pod after the quota it resolves to (duplicates
//	   allowed), store sometimes ahead of the handlers, final migration;
//	L  late quotas: every pod exactly once, some BEFORE the quota they name (=> parked in koordinator-default-quota by the
//	   fail-over branch, moved by the final migration).
//
// Oracle (Go, from the two plugins' own summaries): per quota the same pods with the same assigned flag, and the same
// used / request / self used / self request / child request in both dimensions; R and H are the orders covered by the Lean
// theorem quota_rebuilt_eq_live (the driver evaluates its hypotheses okHist / isDelivery on the very ops: `hyp 1`, `hypd 1`);
// L is demanded too because the unchanged tree satisfies it.
//
// Model correspondence: after EVERY op on either plugin one line per known quota: `q name selfRequest selfUsed n (pod assigned)*`.
//
// Names (model tokens): 0 no label, 1 koordinator-default-quota, 2 koordinator-system-quota, 3.. quotas of the case (created,
// deleted, re-created, or never created).  Namespace token n = the namespace named like quota n; 90 = a namespace nobody claims.
//
// Stream M (every fifth case): feature gate MultiQuotaTree on and every quota of the case labelled with a tree id => the case's
// quotas live in a GroupQuotaManager of their own, default/system stay in the default manager, pods parked in the default group are
// moved by OnPodDelete + OnPodAdd (model: migrateAllMT); the theorem's hypotheses are not evaluated there.
//
// Armed known findings (single-manager cases only; the theorem's hypotheses are not evaluated there):
//   stream Q1 (idx%10==7)  C19:quota-double-charge-after-namespace-unclaim: quota 3 claims namespace 90 with unlabelled pods in it, gives the
//          claim up (or hands it to quota 4); the next update of each pod files it under its new group while quota 3 keeps it.
//   stream Q3 (idx%10==8)  C19:quota-stale-cached-pod-migration (FIXED by 7265fb2, must be silent now; the fingerprint stays armed): a pod
//          labelled 7 (missing) held by the default group changes its label to 8 (missing); then quota 8 or quota 7 appears; before the
//          fix the migration tick resolved the CACHED first object.
// The oracle removes exactly the expected wrong charge from the live snapshot (the groups on its path are then compared in pod set and self
// figures only), demands everything else under the generic fingerprints, and reports the armed fingerprint when only that class remains.
//
// Extension 7 (pod phases): a BOUND pod (spec.nodeName set, not terminal) shows status.phase Running, Pending (bound a moment ago, containers
// creating) or "" - drawn when the pod is first seen bound (add, bind update, armed streams, scripted start), moving only forward on later
// updates.  The phase is not a model token (the model's only phase input is `term`), the oracle is unchanged: a restarted scheduler must
// charge a bound pod whatever non-terminal phase it shows.  Terminal phases stay as before (informer-filter assumption in props/C19.json).
//
// Strict generator = the decidable hypotheses of the theorem (Model/C19QuotaSpec.lean okStep); VERIF_C19Q_FREE=1 lifts them
// (manual runs only; shows the races listed in props/C19.json).

type c19qPod struct {
	id, label, ns  int
	req            int64
	node, term     bool
	rv             int
	ph             int // extension 7: status.phase of the pod WHILE BOUND and not terminal: 0 Running, 1 Pending (containers creating), 2 "" (not a model token)
	obj            *corev1.Pod
}

type c19qQuota struct {
	name, parent int
	isParent     bool
	own          bool
	nss          []int
	max          [2]int64
	obj          *schedv1alpha1.ElasticQuota
}

type c19qWorld struct {
	t      *testing.T
	h      *vHarness
	r      *vRand
	idx    int
	newPl  func() *Plugin
	live   *Plugin
	fresh  *Plugin
	quotas map[int]*c19qQuota
	pods   map[int]*c19qPod
	resvd  map[int]bool
	loc    map[int]int // generator's bookkeeping: the group it expects to cache the pod (its resolution, or 1 while parked)
	nextP  int
	rvq    int
	free   bool
	lift2  bool // VERIF_C19Q_FREE=2: only the restrictions that existed because of the stale cached object / parked pods are lifted
	dead   bool
	multi  bool // stream M: MultiQuotaTree on, the case's quotas carry a tree id of their own
	first  map[int]*c19qPod // the object the caching group saw first (QuotaInfo.PodCache never refreshes it)
	// armed known findings (streams Q1 / Q3): what the live plugin is EXPECTED to get wrong, so that the oracle can
	// name exactly that class and still demand everything else
	armed     string
	cutFailed bool
	leak      map[[2]int]int64 // Q1: (group, pod) -> request: the group keeps the pod although it resolves elsewhere and is filed there too
	stale     map[int]int      // Q3: pod -> the group the live plugin holds it in by its CACHED first object
	frozenPod map[int]bool     // no further events for these pods
	frozenNs  map[int]bool     // no further claims on these namespaces
	noCreate  map[int]bool     // quota names that must not appear
	noDel     map[int]bool     // quotas that must stay
}

func c19qName(idx, i int) string {
	switch i {
	case 1:
		return extension.DefaultQuotaName
	case 2:
		return extension.SystemQuotaName
	}
	return fmt.Sprintf("c%dq%02d", idx, i)
}

func (w *c19qWorld) qname(i int) string { return c19qName(w.idx, i) }

func (w *c19qWorld) qid(name string) int {
	switch name {
	case extension.DefaultQuotaName:
		return 1
	case extension.SystemQuotaName:
		return 2
	}
	var a, b int
	if _, err := fmt.Sscanf(name, "c%dq%02d", &a, &b); err != nil || a != w.idx {
		return -1
	}
	return b
}

func c19qRL(cpu int64) corev1.ResourceList {
	return corev1.ResourceList{
		corev1.ResourceCPU:    *resource.NewMilliQuantity(cpu, resource.DecimalSI),
		corev1.ResourceMemory: *resource.NewQuantity(cpu*1024, resource.BinarySI),
	}
}

func (w *c19qWorld) mkQuota(q *c19qQuota) {
	w.rvq++
	ns := "c19-quotas"
	if q.own {
		ns = w.qname(q.name)
	}
	o := &schedv1alpha1.ElasticQuota{
		ObjectMeta: metav1.ObjectMeta{Name: w.qname(q.name), Namespace: ns, Annotations: map[string]string{}, Labels: map[string]string{},
			ResourceVersion: fmt.Sprint(w.rvq)},
		Spec: schedv1alpha1.ElasticQuotaSpec{
			Max: corev1.ResourceList{corev1.ResourceCPU: *resource.NewMilliQuantity(q.max[0], resource.DecimalSI),
				corev1.ResourceMemory: *resource.NewQuantity(q.max[1], resource.BinarySI)},
			Min: corev1.ResourceList{corev1.ResourceCPU: *resource.NewMilliQuantity(0, resource.DecimalSI),
				corev1.ResourceMemory: *resource.NewQuantity(0, resource.BinarySI)}},
	}
	if q.parent == 0 {
		if w.r.Bool() {
			o.Labels[extension.LabelQuotaParent] = extension.RootQuotaName
		}
	} else {
		o.Labels[extension.LabelQuotaParent] = w.qname(q.parent)
	}
	o.Labels[extension.LabelQuotaIsParent] = fmt.Sprint(q.isParent)
	if w.multi {
		o.Labels[extension.LabelQuotaTreeID] = fmt.Sprintf("c19t%d", w.idx)
	}
	switch {
	case len(q.nss) > 0:
		var names []string
		for _, n := range q.nss {
			names = append(names, w.nsname(n))
		}
		b, _ := json.Marshal(names)
		o.Annotations[extension.AnnotationQuotaNamespaces] = string(b)
	case w.r.Chance(1, 4):
		o.Annotations[extension.AnnotationQuotaNamespaces] = []string{"", "[]", "null", "not-json"}[w.r.Intn(4)] // nil-vs-empty / malformed: no claim
	}
	q.obj = o
}

func (w *c19qWorld) nsname(n int) string {
	if n == 90 {
		return fmt.Sprintf("c%dns", w.idx)
	}
	return w.qname(n)
}

func (w *c19qWorld) mkPod(p *c19qPod) {
	o := &corev1.Pod{ObjectMeta: metav1.ObjectMeta{Namespace: w.nsname(p.ns), Name: fmt.Sprintf("p%02d", p.id),
		UID: "", Labels: map[string]string{}, ResourceVersion: fmt.Sprint(p.rv)}}
	o.Spec.Containers = []corev1.Container{{Resources: corev1.ResourceRequirements{Requests: c19qRL(p.req)}}}
	if p.label != 0 {
		o.Labels[extension.LabelQuotaName] = w.qname(p.label)
	}
	if p.node {
		o.Spec.NodeName = "node-1"
	}
	o.Status.Phase = corev1.PodPending
	if p.node {
		// extension 7: a bound pod is Running, still Pending (containers creating; what a restarted scheduler sees for a pod bound a moment
		// ago) or carries no phase at all; none of the three is terminal, so the charge must not depend on it (the model has no phase token)
		o.Status.Phase = []corev1.PodPhase{corev1.PodRunning, corev1.PodPending, ""}[p.ph]
	}
	if p.term {
		o.Status.Phase = []corev1.PodPhase{corev1.PodSucceeded, corev1.PodFailed}[w.r.Intn(2)]
	}
	p.obj = o
}

// pickPhase (extension 7): the non-terminal phase a pod shows while bound; it only moves forward ("" -> Pending -> Running).
func (w *c19qWorld) pickPhase(p *c19qPod) {
	if !p.node || p.term {
		return
	}
	switch p.ph {
	case 0: // Running stays Running
	case 1:
		p.ph = []int{1, 1, 0}[w.r.Intn(3)]
	default:
		p.ph = []int{2, 1, 0}[w.r.Intn(3)]
	}
	w.h.Tag("p:bound-phase-" + []string{"running", "pending", "empty"}[p.ph])
}

// firstPhase (extension 7): the phase of a pod at the moment it is first seen bound.
func (w *c19qWorld) firstPhase(p *c19qPod) {
	p.ph = 0
	if p.node && !p.term {
		p.ph = []int{0, 1, 1, 2}[w.r.Intn(4)]
		w.h.Tag("p:bound-phase-" + []string{"running", "pending", "empty"}[p.ph])
	}
}

func (p *c19qPod) toks() string {
	return fmt.Sprintf("%d %d %d %d %d %d %d", p.id, p.label, p.ns, p.req, vB(p.node), vB(p.term), p.rv)
}

func (q *c19qQuota) toks() string {
	s := fmt.Sprintf("%d %d %d", q.name, vB(q.own), len(q.nss))
	for _, n := range q.nss {
		s += fmt.Sprintf(" %d", n)
	}
	return s
}

// ---- the generator's own reading of the resolution rule (used only to respect the hypotheses, never by the oracle)

func (w *c19qWorld) claimant(ns int) int {
	if q := w.quotas[ns]; q != nil && q.own {
		return ns
	}
	var ids []int
	for n := range w.quotas {
		ids = append(ids, n)
	}
	sort.Ints(ids)
	for _, n := range ids {
		for _, x := range w.quotas[n].nss {
			if x == ns {
				return n
			}
		}
	}
	return 0
}

func (w *c19qWorld) res(p *c19qPod) int {
	n := p.label
	if n == 0 {
		n = w.claimant(p.ns)
		if n == 0 {
			n = 1
		}
	}
	if n == 1 || n == 2 || w.quotas[n] != nil {
		return n
	}
	return 1
}

func (w *c19qWorld) atHome(id int) bool { return w.loc[id] == w.res(w.pods[id]) }

func (w *c19qWorld) pids() []int {
	var ids []int
	for id := range w.pods {
		ids = append(ids, id)
	}
	sort.Ints(ids)
	return ids
}

func (w *c19qWorld) qids() []int {
	var ids []int
	for id := range w.quotas {
		ids = append(ids, id)
	}
	sort.Ints(ids)
	return ids
}

// ---- observation

type c19qObs struct {
	pods map[int]bool
	fig  [2][5]int64 // used, request, selfUsed, selfRequest, childRequest
}

func c19qVal(rl corev1.ResourceList, k int) int64 {
	if k == 0 {
		if q, ok := rl[corev1.ResourceCPU]; ok {
			return q.MilliValue()
		}
		return 0
	}
	if q, ok := rl[corev1.ResourceMemory]; ok {
		return q.Value()
	}
	return 0
}

func (w *c19qWorld) snapshot(pl *Plugin) map[int]*c19qObs {
	res := map[int]*c19qObs{}
	for name, s := range pl.GetQuotaSummaries("", true) {
		n := w.qid(name)
		if n < 0 {
			continue
		}
		o := &c19qObs{pods: map[int]bool{}}
		for key, pi := range s.PodCache {
			i := strings.LastIndex(key, "/p")
			var id int
			fmt.Sscanf(key[i+2:], "%d", &id)
			o.pods[id] = pi.IsAssigned
		}
		for k := 0; k < 2; k++ {
			o.fig[k] = [5]int64{c19qVal(s.Used, k), c19qVal(s.Request, k), c19qVal(s.SelfUsed, k), c19qVal(s.SelfRequest, k), c19qVal(s.ChildRequest, k)}
		}
		res[n] = o
	}
	return res
}

func (w *c19qWorld) observe(pl *Plugin) map[int]*c19qObs {
	snap := w.snapshot(pl)
	var ids []int
	for n := range snap {
		ids = append(ids, n)
	}
	sort.Ints(ids)
	pl.quotaToTreeMapLock.RLock()
	nk := 0
	for name := range pl.quotaToTreeMap {
		if n := w.qid(name); n >= 0 {
			nk++
			if snap[n] == nil {
				nk = -1000
			}
		}
	}
	pl.quotaToTreeMapLock.RUnlock()
	if nk != len(ids) {
		w.h.Obs("known-differs-from-quota-infos") // quotaToTreeMap and the manager's QuotaInfos name different quotas: the model has one set
	}
	for _, n := range ids {
		o := snap[n]
		var pids []int
		for id := range o.pods {
			pids = append(pids, id)
		}
		sort.Ints(pids)
		line := fmt.Sprintf("q %d %d %d %d", n, o.fig[0][3], o.fig[0][2], len(pids))
		for _, id := range pids {
			line += fmt.Sprintf(" %d %d", id, vB(o.pods[id]))
		}
		w.h.Obs("%s", line)
	}
	return snap
}

func (w *c19qWorld) call(c int, f func(pl *Plugin)) bool {
	pl := w.live
	if c == 1 {
		pl = w.fresh
	}
	if w.h.Guard(func() { f(pl) }) {
		w.h.Obs("panic")
		w.h.Fail("C19:quota-panic", "a handler panicked (cache %d)", c)
		w.dead = true
		return false
	}
	w.h.Op("quota dump %d", c)
	w.observe(pl)
	return true
}

// ---- informer play: store first, then the handler

func c19qStorePut(pl *Plugin, o *schedv1alpha1.ElasticQuota) {
	ix := pl.quotaInformer.GetIndexer()
	if _, ok, _ := ix.Get(o); ok {
		_ = ix.Update(o)
	} else {
		_ = ix.Add(o)
	}
}

func (w *c19qWorld) quotaPut(c int, q *c19qQuota, handler int, old *schedv1alpha1.ElasticQuota) {
	w.h.Op("quota qput %d %d %s", c, handler, q.toks())
	w.call(c, func(pl *Plugin) {
		// a quota that moves between namespaces (own flag) is a delete + add for the store
		if old != nil && old.Namespace != q.obj.Namespace {
			_ = pl.quotaInformer.GetIndexer().Delete(old)
		}
		c19qStorePut(pl, q.obj)
		switch handler {
		case 1:
			pl.OnQuotaAdd(q.obj)
		case 2:
			if old == nil {
				old = q.obj
			}
			pl.OnQuotaUpdate(old, q.obj)
		}
	})
}

func (w *c19qWorld) quotaDel(c int, q *c19qQuota) {
	w.h.Op("quota qdel %d %d", c, q.name)
	var arg interface{} = q.obj
	if w.r.Chance(2, 5) {
		arg = cache.DeletedFinalStateUnknown{Key: q.obj.Namespace + "/" + q.obj.Name, Obj: q.obj}
		w.h.Tag("q:del-tombstone")
	} else {
		w.h.Tag("q:del-plain")
	}
	w.call(c, func(pl *Plugin) {
		_ = pl.quotaInformer.GetIndexer().Delete(q.obj)
		pl.OnQuotaDelete(arg)
	})
}

func (w *c19qWorld) podAdd(c int, p *c19qPod) {
	w.h.Op("quota padd %d %s", c, p.toks())
	w.call(c, func(pl *Plugin) { pl.OnPodAdd(p.obj) })
}

func (w *c19qWorld) migrate(c int) {
	w.h.Op("quota migrate %d", c)
	w.call(c, func(pl *Plugin) { pl.migrateDefaultQuotaGroupsPod() })
	if c == 0 {
		for _, id := range w.pids() {
			if p := w.pods[id]; w.loc[id] != w.res(p) {
				switch {
				case w.resvd[id]:
					w.h.Tag("p:migrate-moves-reserved-pod")
				case p.node && !p.term:
					w.h.Tag("p:migrate-moves-bound-pod")
				default:
					w.h.Tag("p:migrate-moves-pending-pod")
				}
			}
			w.loc[id] = w.res(w.pods[id])
		}
	}
}

// ---- live ops

func (w *c19qWorld) freeNs() []int {
	var out []int
	for _, n := range []int{3, 4, 5, 6, 7, 8, 90} {
		if w.claimant(n) == 0 && !w.frozenNs[n] {
			out = append(out, n)
		}
	}
	return out
}

func (w *c19qWorld) parents() []int {
	out := []int{0}
	for _, n := range w.qids() {
		if w.quotas[n].isParent {
			out = append(out, n)
		}
	}
	return out
}

// mtBlocked (stream M only, restriction LIFTED since fix 7265fb2): before that fix a pod held by the default group whose cached (first)
// object was stale in NodeName / phase was re-added from that stale object by the cross-tree migration (OnPodDelete + OnPodAdd) and lost
// its assigned flag until its next update; such histories are generated again and fall under the generic fingerprints.
func (w *c19qWorld) mtBlocked() bool {
	if true { // lifted: fix 7265fb2 keeps the cached object current, the cross-tree migration re-adds the current object
		return false
	}
	if !w.multi || w.free {
		return false
	}
	for _, id := range w.pids() {
		p, f := w.pods[id], w.first[id]
		if w.loc[id] == 1 && f != nil && (f.node != p.node || f.term != p.term) {
			return true
		}
	}
	return false
}

func (w *c19qWorld) opQuotaAdd() bool {
	r := w.r
	if w.mtBlocked() {
		return false
	}
	var cand []int
	for n := 3; n <= 8; n++ {
		if w.quotas[n] == nil && !w.noCreate[n] {
			cand = append(cand, n)
		}
	}
	if len(cand) == 0 {
		return false
	}
	n := cand[r.Intn(len(cand))]
	q := &c19qQuota{name: n, max: [2]int64{int64(r.Range(1, 40)) * 500, int64(r.Range(1, 40)) * 500 * 1024}}
	// a quota some alive pod already names (label) must be a leaf so that it can take the pod
	named := false
	for _, id := range w.pids() {
		if w.pods[id].label == n {
			named = true
		}
	}
	if !named && r.Chance(1, 3) {
		q.isParent = true
		q.max = [2]int64{1 << 40, 1 << 50}
	} else {
		ps := w.parents()
		q.parent = ps[r.Intn(len(ps))]
		fr := w.freeNs()
		if r.Chance(1, 3) && w.claimant(n) == 0 && !w.frozenNs[n] {
			q.own = true
			w.h.Tag("q:own-namespace")
		}
		for _, x := range fr {
			if x != n && r.Chance(1, 5) {
				q.nss = append(q.nss, x)
				w.h.Tag("q:namespace-annotation")
			}
		}
	}
	w.mkQuota(q)
	w.quotas[n] = q
	w.h.Tag("q:add")
	w.quotaPut(0, q, 1, nil)
	return true
}

func (w *c19qWorld) nsInUse(ns int) bool {
	for _, id := range w.pids() {
		if p := w.pods[id]; p.label == 0 && p.ns == ns {
			return true
		}
	}
	return false
}

func (w *c19qWorld) opQuotaUpdate() bool {
	r := w.r
	ids := w.qids()
	if len(ids) == 0 {
		return false
	}
	q := w.quotas[ids[r.Intn(len(ids))]]
	old := q.obj
	switch []int{0, 1, 1, 2, 3}[r.Intn(5)] {
	case 0: // max
		if !q.isParent {
			q.max = [2]int64{int64(r.Range(1, 40)) * 500, int64(r.Range(1, 40)) * 500 * 1024}
		}
		w.h.Tag("q:update-max")
	case 1: // re-parent (leaf among root / the parent groups)
		if q.isParent {
			return false
		}
		ps := w.parents()
		np := ps[r.Intn(len(ps))]
		if np == q.parent {
			return false
		}
		q.parent = np
		w.h.Tag("q:re-parent")
	case 2: // claim one more namespace
		if q.isParent || w.mtBlocked() {
			return false
		}
		fr := w.freeNs()
		if len(fr) == 0 {
			return false
		}
		x := fr[r.Intn(len(fr))]
		if x == q.name {
			return false
		}
		q.nss = append(q.nss, x)
		w.h.Tag("q:update-claim-namespace")
	case 3: // give up a namespace (only one without unlabelled pods, unless free)
		if len(q.nss) == 0 {
			return false
		}
		i := r.Intn(len(q.nss))
		if !w.free && w.nsInUse(q.nss[i]) {
			return false
		}
		q.nss = append(append([]int{}, q.nss[:i]...), q.nss[i+1:]...)
		w.h.Tag("q:update-unclaim-namespace")
	}
	w.mkQuota(q)
	w.quotaPut(0, q, 2, old)
	return true
}

func (w *c19qWorld) opQuotaDelete() bool {
	r := w.r
	var cand []int
	for _, n := range w.qids() {
		q := w.quotas[n]
		ok := true
		for _, m := range w.qids() {
			if w.quotas[m].parent == n {
				ok = false
			}
		}
		if !w.free {
			for _, id := range w.pids() {
				if w.res(w.pods[id]) == n {
					ok = false
				}
			}
		}
		_ = q
		if ok && !w.noDel[n] {
			cand = append(cand, n)
		}
	}
	if len(cand) == 0 {
		return false
	}
	q := w.quotas[cand[r.Intn(len(cand))]]
	delete(w.quotas, q.name)
	w.h.Tag("q:delete")
	w.quotaDel(0, q)
	return true
}

func (w *c19qWorld) pickLabel() int {
	r := w.r
	switch r.Intn(10) {
	case 0, 1, 2:
		return 0
	case 3:
		return 1 + r.Intn(2) // the special names as an explicit label
	default:
		var leaves, missing []int
		for n := 3; n <= 9; n++ { // 9 is never created
			if q := w.quotas[n]; q == nil {
				missing = append(missing, n)
			} else if !q.isParent {
				leaves = append(leaves, n)
			}
		}
		if len(leaves) > 0 && !r.Chance(1, 4) {
			return leaves[r.Intn(len(leaves))]
		}
		return missing[r.Intn(len(missing))]
	}
}

func (w *c19qWorld) opPodAdd() bool {
	r := w.r
	if len(w.pods) >= 7 {
		return false
	}
	p := &c19qPod{id: w.nextP, label: w.pickLabel(), ns: []int{3, 4, 5, 6, 90}[r.Intn(5)], req: int64(r.Range(1, 16)) * 250, rv: 1}
	w.nextP++
	if r.Chance(3, 10) {
		p.node = true
	}
	if r.Chance(1, 10) {
		p.term = true
	}
	w.firstPhase(p)
	w.mkPod(p)
	w.pods[p.id] = p
	w.loc[p.id] = w.res(p)
	w.first[p.id] = p
	w.h.Tag("p:add")
	switch {
	case p.label == 0 && w.res(p) > 2:
		w.h.Tag("p:add-by-namespace")
	case p.label > 2 && w.res(p) == 1:
		w.h.Tag("p:add-quota-missing=>default")
	case p.label == 0:
		w.h.Tag("p:add-unclaimed-namespace=>default")
	}
	if p.node && !p.term {
		w.h.Tag("p:add-bound(fail-over-branch)")
		if p.ph == 1 {
			w.h.Tag("p:add-bound-still-pending(fail-over-branch)")
		}
	}
	w.podAdd(0, p)
	return true
}

func (w *c19qWorld) opPodUpdate(forceBind int) bool {
	r := w.r
	ids := w.pids()
	if len(ids) == 0 {
		return false
	}
	id := ids[r.Intn(len(ids))]
	if forceBind != 0 {
		id = forceBind
	}
	old := w.pods[id]
	if w.frozenPod[id] || (!w.free && !w.lift2 && !w.atHome(id)) {
		return false
	}
	n := *old
	n.rv++
	kind := r.Intn(6)
	if forceBind != 0 {
		kind = 0
	}
	resident := w.res(old) == 1
	switch kind {
	case 0: // bind
		if old.node || old.term {
			return false
		}
		n.node = true
		w.h.Tag("p:update-bind")
	case 1: // in-place resize
		// (no restriction any more: since fix 7265fb2 the cached object follows, a pod held by the default group or reserved may be resized)
		n.req = int64(r.Range(1, 16)) * 250
		if resident {
			w.h.Tag("p:update-resize-while-held-by-default-group")
		}
		w.h.Tag("p:update-resize")
	case 2: // label change
		if !w.free && w.resvd[id] {
			return false
		}
		n.label = w.pickLabel()
		if n.label == old.label {
			return false
		}
		if resident && w.res(&n) == 1 {
			w.h.Tag("p:update-label-while-held-by-default-group") // allowed since fix 7265fb2
		}
		w.h.Tag("p:update-label")
	case 3: // a pending pod fails
		if old.term || (!w.free && (old.node || w.resvd[id])) {
			return false
		}
		n.term = true
		w.h.Tag("p:update-terminated")
	case 4: // resync: same object, same ResourceVersion
		n.rv = old.rv
		w.h.Tag("p:update-resync-same-rv")
	case 5: // status-only update
		w.h.Tag("p:update-status-only")
	}
	if kind != 4 {
		if kind == 0 {
			w.firstPhase(&n)
		} else {
			w.pickPhase(&n)
		}
	}
	w.mkPod(&n)
	if kind == 4 {
		n.obj = old.obj.DeepCopy()
	}
	if w.res(&n) != w.res(old) {
		w.h.Tag("p:update-moves-between-quotas")
	}
	w.h.Op("quota pupd 0 %s %s", old.toks(), n.toks())
	w.pods[id] = &n
	if kind != 4 {
		if w.res(&n) != w.loc[id] {
			w.first[id] = &n
		}
		w.loc[id] = w.res(&n)
		if n.node {
			delete(w.resvd, id)
		}
	}
	w.call(0, func(pl *Plugin) { pl.OnPodUpdate(old.obj, n.obj) })
	return true
}

func (w *c19qWorld) opPodDelete() bool {
	r := w.r
	ids := w.pids()
	if len(ids) == 0 {
		return false
	}
	id := ids[r.Intn(len(ids))]
	if w.frozenPod[id] {
		return false
	}
	if !w.atHome(id) {
		w.h.Tag("p:del-while-parked-in-default-group") // covered by the theorem since fix 931f7a3
	}
	p := w.pods[id]
	delete(w.pods, id)
	delete(w.resvd, id)
	delete(w.loc, id)
	var arg interface{} = p.obj
	if r.Chance(2, 5) {
		arg = cache.DeletedFinalStateUnknown{Key: p.obj.Namespace + "/" + p.obj.Name, Obj: p.obj}
		w.h.Tag("p:del-tombstone")
	} else {
		w.h.Tag("p:del-plain")
	}
	w.h.Op("quota pdel 0 %s", p.toks())
	w.call(0, func(pl *Plugin) { pl.OnPodDelete(arg) })
	return true
}

func (w *c19qWorld) opReserve(id int, un bool) bool {
	p := w.pods[id]
	if w.frozenPod[id] || (!w.free && !w.atHome(id)) {
		return false
	}
	if un {
		if !w.resvd[id] || p.node {
			return false
		}
		delete(w.resvd, id)
		w.h.Tag("p:unreserve")
		w.h.Op("quota unresv 0 %s", p.toks())
		w.call(0, func(pl *Plugin) { pl.Unreserve(context.TODO(), nil, p.obj, "node-1") })
		return true
	}
	if p.node || p.term || w.resvd[id] {
		return false
	}
	w.resvd[id] = true
	w.h.Tag("p:reserve")
	if w.loc[id] == 1 && p.label > 2 {
		w.h.Tag("p:reserve-in-default-group")
	}
	w.h.Op("quota resv 0 %s", p.toks())
	w.call(0, func(pl *Plugin) { pl.Reserve(context.TODO(), nil, p.obj, "node-1") })
	return true
}

func (w *c19qWorld) step() {
	r := w.r
	for try := 0; try < 20 && !w.dead; try++ {
		ok := false
		switch x := r.Intn(20); {
		case x < 3:
			ok = w.opQuotaAdd()
			if ok && !w.dead && !w.free && r.Chance(1, 2) {
				w.migrate(0)
			}
		case x < 5:
			ok = w.opQuotaUpdate()
		case x < 6:
			ok = w.opQuotaDelete()
		case x < 10:
			ok = w.opPodAdd()
		case x < 14:
			ok = w.opPodUpdate(0)
		case x < 15:
			ok = w.opPodDelete()
		case x < 18:
			ids := w.pids()
			if len(ids) > 0 {
				ok = w.opReserve(ids[r.Intn(len(ids))], r.Chance(1, 3))
			}
		default:
			w.h.Tag("p:migrate-tick")
			w.migrate(0)
			ok = true
		}
		if ok {
			return
		}
	}
}

// ---- the cut: settle, migrate, rebuild, compare

func (w *c19qWorld) settle() {
	var ids []int
	for id := range w.resvd {
		ids = append(ids, id)
	}
	sort.Ints(ids)
	for _, id := range ids {
		if w.dead {
			return
		}
		if !w.atHome(id) {
			w.migrate(0)
		}
		if w.r.Bool() {
			w.opPodUpdate(id) // bind
		} else {
			w.opReserve(id, true)
		}
	}
}

func (w *c19qWorld) depthOrder() []int {
	var ps, ls []int
	for _, n := range w.qids() {
		if w.quotas[n].isParent {
			ps = append(ps, n)
		} else {
			ls = append(ls, n)
		}
	}
	shuffle := func(xs []int) []int {
		out := make([]int, len(xs))
		for i, j := range w.r.Perm(len(xs)) {
			out[i] = xs[j]
		}
		return out
	}
	return append(shuffle(ps), shuffle(ls)...)
}

func (w *c19qWorld) rebuild(shape string) {
	r := w.r
	w.fresh = w.newPl()
	w.h.Op("quota fresh")
	qs := w.depthOrder()
	pods := w.pids()
	switch shape {
	case "R":
		for _, i := range r.Perm(len(qs)) {
			w.quotaPut(1, w.quotas[qs[i]], 0, nil)
		}
		for _, i := range r.Perm(len(qs)) { // the initial list reaches OnQuotaAdd in any order, possibly not at all before the hook
			if r.Chance(2, 3) {
				w.quotaPut(1, w.quotas[qs[i]], 1, nil)
			}
		}
		w.h.Op("quota replace 1")
		w.call(1, func(pl *Plugin) { _ = pl.ReplaceQuotas(pl.quotaInformer.GetStore().List()) })
		for _, i := range r.Perm(len(pods)) {
			w.podAdd(1, w.pods[pods[i]])
			if r.Chance(1, 4) {
				w.h.Tag("rebuild:duplicate-add")
				w.podAdd(1, w.pods[pods[i]])
			}
		}
	case "H":
		if r.Chance(1, 3) {
			w.h.Tag("rebuild:store-ahead-of-handlers")
			for _, i := range r.Perm(len(qs)) {
				w.quotaPut(1, w.quotas[qs[i]], 0, nil)
			}
		}
		left := map[int]bool{}
		for _, id := range pods {
			left[id] = true
		}
		deliver := func(onlyReady bool) {
			for _, i := range r.Perm(len(pods)) {
				id := pods[i]
				p := w.pods[id]
				if !left[id] || (onlyReady && r.Bool()) {
					continue
				}
				// ready = the fresh plugin already knows the quota the pod finally resolves to
				f := w.res(p)
				w.fresh.quotaToTreeMapLock.RLock()
				_, known := w.fresh.quotaToTreeMap[w.qname(f)]
				w.fresh.quotaToTreeMapLock.RUnlock()
				if !known {
					continue
				}
				// an unlabelled pod resolves through the store: its claimant must be IN the store already
				if p.label == 0 && f > 2 {
					if _, ok, _ := w.fresh.quotaInformer.GetIndexer().Get(w.quotas[f].obj); !ok {
						continue
					}
				}
				// ... and a pod that finally stays in the default group must not be claimed by a quota that is only in the store
				delete(left, id)
				w.podAdd(1, p)
				if r.Chance(1, 4) {
					w.h.Tag("rebuild:duplicate-add")
					w.podAdd(1, p)
				}
			}
		}
		for _, n := range qs {
			w.quotaPut(1, w.quotas[n], 1, nil)
			deliver(true)
		}
		deliver(false)
	case "L":
		type ev struct{ q, p int }
		var evs []ev
		for _, n := range qs {
			evs = append(evs, ev{q: n})
		}
		for _, id := range pods {
			evs = append(evs, ev{p: id})
		}
		// parents before leaves among the quotas, pods anywhere
		order := r.Perm(len(evs))
		var seq []ev
		qi := 0
		for _, i := range order {
			if evs[i].q != 0 {
				seq = append(seq, ev{q: qs[qi]})
				qi++
			} else {
				seq = append(seq, evs[i])
			}
		}
		for _, e := range seq {
			if e.q != 0 {
				w.quotaPut(1, w.quotas[e.q], 1, nil)
			} else {
				p := w.pods[e.p]
				if w.res(p) > 2 {
					w.fresh.quotaToTreeMapLock.RLock()
					if _, known := w.fresh.quotaToTreeMap[w.qname(w.res(p))]; !known {
						w.h.Tag("rebuild:pod-before-its-quota")
					}
					w.fresh.quotaToTreeMapLock.RUnlock()
				}
				w.podAdd(1, p)
			}
		}
	}
	w.migrate(1)
}

func (w *c19qWorld) cut() {
	if w.dead {
		return
	}
	w.settle()
	if w.dead {
		return
	}
	w.migrate(0)
	if !w.free && !w.lift2 && !w.multi && w.armed == "" {
		w.h.Op("quota hyp")
		w.h.Obs("hyp 1")
	}
	shape := []string{"R", "R", "H", "H", "L"}[w.r.Intn(5)]
	w.h.Tag("rebuild:shape-" + shape)
	w.rebuild(shape)
	if w.dead {
		return
	}
	if !w.free && !w.multi && w.armed == "" && shape != "L" {
		w.h.Op("quota hypd")
		w.h.Obs("hypd 1")
	}
	live, fresh := w.snapshot(w.live), w.snapshot(w.fresh)
	// armed classes: take the EXPECTED wrong charge out of the live snapshot; the groups on its path are compared in their pod
	// sets and self figures only (their hierarchical figures carry the surplus)
	taint := map[int]bool{}
	taintPath := func(n int) {
		for n > 2 {
			taint[n] = true
			q := w.quotas[n]
			if q == nil {
				return
			}
			n = q.parent
		}
		if n == 1 || n == 2 {
			taint[n] = true
		}
	}
	selfAdj := func(o *c19qObs, req int64, asg bool, sign int64) {
		for k, amt := range []int64{req, req * 1024} {
			o.fig[k][3] += sign * amt
			if asg {
				o.fig[k][2] += sign * amt
			}
		}
	}
	q1, q3 := 0, 0
	var lkeys [][2]int
	for key := range w.leak {
		lkeys = append(lkeys, key)
	}
	sort.Slice(lkeys, func(i, j int) bool { return lkeys[i][0] < lkeys[j][0] || (lkeys[i][0] == lkeys[j][0] && lkeys[i][1] < lkeys[j][1]) })
	for _, key := range lkeys {
		x, id := key[0], key[1]
		l := live[x]
		if l == nil { // the group was deleted since: the surplus went with it
			delete(w.leak, key)
			continue
		}
		asg, ok := l.pods[id]
		second := false
		for n, o := range live {
			if _, ok2 := o.pods[id]; ok2 && n != x {
				second = true
			}
		}
		if !ok || !second {
			continue
		}
		delete(l.pods, id)
		selfAdj(l, w.leak[key], asg, -1)
		taintPath(x)
		q1++
	}
	var sids []int
	for id := range w.stale {
		sids = append(sids, id)
	}
	sort.Ints(sids)
	for _, id := range sids {
		at, to := w.stale[id], w.res(w.pods[id])
		la, lb := live[at], live[to]
		if at == to || la == nil || lb == nil {
			continue
		}
		asg, ok := la.pods[id]
		if _, dup := lb.pods[id]; !ok || dup {
			continue
		}
		delete(la.pods, id)
		lb.pods[id] = asg
		selfAdj(la, w.pods[id].req, asg, -1)
		selfAdj(lb, w.pods[id].req, asg, +1)
		taintPath(at)
		taintPath(to)
		q3++
	}
	defer func() {
		// reached the end without a generic failure: what remains is exactly the armed class
		if w.cutFailed {
			return
		}
		if q1 > 0 {
			w.h.Tag("armed:Q1-manifested")
			w.h.Fail("C19:quota-double-charge-after-namespace-unclaim", "%d pod(s) stay charged to the group that gave up their namespace AND are filed under their new group by their next update; the rebuilt ledger charges only the new group (shape %s)", q1, shape)
		}
		if q3 > 0 {
			w.h.Tag("armed:Q3-manifested")
			w.h.Fail("C19:quota-stale-cached-pod-migration", "%d pod(s) whose quota label changed while the default group held them are resolved by the cached first object at the migration tick: live group != rebuilt group (shape %s)", q3, shape)
		}
	}()
	w.cutFailed = true
	var ids []int
	for n := range live {
		ids = append(ids, n)
	}
	for n := range fresh {
		if live[n] == nil {
			ids = append(ids, n)
		}
	}
	sort.Ints(ids)
	for _, n := range ids {
		l, f := live[n], fresh[n]
		if l == nil || f == nil {
			w.h.Fail("C19:quota-rebuilt-quota-set:"+shape, "quota %d known live=%v rebuilt=%v", n, l != nil, f != nil)
			return
		}
		for _, id := range w.pids() {
			la, lok := l.pods[id]
			fa, fok := f.pods[id]
			if lok != fok {
				w.h.Fail("C19:quota-rebuilt-charge-differs:"+shape, "pod %d (label %d, ns %d): charged to quota %d live=%v rebuilt=%v",
					id, w.pods[id].label, w.pods[id].ns, n, lok, fok)
				return
			}
			if la != fa {
				w.h.Fail("C19:quota-rebuilt-assigned-differs:"+shape, "pod %d in quota %d: assigned live=%v rebuilt=%v (node=%v term=%v)",
					id, n, la, fa, w.pods[id].node, w.pods[id].term)
				return
			}
		}
		if len(l.pods) != len(f.pods) {
			w.h.Fail("C19:quota-rebuilt-dead-pod-charged:"+shape, "quota %d caches %d pods live, %d rebuilt (a pod that no longer exists is charged)", n, len(l.pods), len(f.pods))
			return
		}
		if taint[n] {
			for k := 0; k < 2; k++ { // self figures only
				l.fig[k][0], l.fig[k][1], l.fig[k][4] = f.fig[k][0], f.fig[k][1], f.fig[k][4]
			}
		}
		if l.fig != f.fig {
			w.h.Fail("C19:quota-rebuilt-figures-differ:"+shape, "quota %d [used request selfUsed selfRequest childRequest] x [cpu mem]: live %v rebuilt %v", n, l.fig, f.fig)
			return
		}
	}
	// nothing taken is free: every bound pod is charged (assigned) by exactly one quota after the restart
	for _, id := range w.pids() {
		p := w.pods[id]
		cnt, asg := 0, 0
		for _, n := range ids {
			if a, ok := fresh[n].pods[id]; ok {
				cnt++
				if a {
					asg++
				}
			}
		}
		if cnt != 1 || (p.node && !p.term && asg != 1) {
			w.h.Fail("C19:quota-rebuilt-bound-pod-not-charged:"+shape, "pod %d (bound=%v) is cached by %d quotas, assigned in %d after the restart", id, p.node && !p.term, cnt, asg)
			return
		}
	}
	w.cutFailed = false
	if len(w.pods) >= 2 && len(w.quotas) >= 2 {
		w.h.Nontrivial()
	}
}

// ---- armed streams

func (w *c19qWorld) addPodRaw(label, ns int, bound bool) *c19qPod {
	p := &c19qPod{id: w.nextP, label: label, ns: ns, req: int64(w.r.Range(1, 16)) * 250, rv: 1, node: bound}
	w.nextP++
	w.firstPhase(p)
	w.mkPod(p)
	w.pods[p.id] = p
	w.loc[p.id] = w.res(p)
	w.first[p.id] = p
	w.podAdd(0, p)
	return p
}

func (w *c19qWorld) updatePodRaw(id int, f func(n *c19qPod)) {
	old := w.pods[id]
	n := *old
	n.rv++
	f(&n)
	if n.node && !old.node {
		w.firstPhase(&n)
	} else {
		w.pickPhase(&n)
	}
	w.mkPod(&n)
	w.h.Op("quota pupd 0 %s %s", old.toks(), n.toks())
	w.pods[id] = &n
	if n.node {
		delete(w.resvd, id)
	}
	w.call(0, func(pl *Plugin) { pl.OnPodUpdate(old.obj, n.obj) })
}

func (w *c19qWorld) addQuotaRaw(n int, nss []int) *c19qQuota {
	q := &c19qQuota{name: n, max: [2]int64{int64(w.r.Range(4, 40)) * 500, int64(w.r.Range(4, 40)) * 500 * 1024}, nss: nss}
	ps := w.parents()
	q.parent = ps[w.r.Intn(len(ps))]
	w.mkQuota(q)
	w.quotas[n] = q
	w.quotaPut(0, q, 1, nil)
	return q
}

// armQ1: known finding C19:quota-double-charge-after-namespace-unclaim.  Quota 3 claims namespace 90, unlabelled pods live there;
// the claim is given up (a) or handed to quota 4 (b); the next update event of each pod files it under its new group while quota 3
// keeps it.
func (w *c19qWorld) armQ1() {
	r := w.r
	w.armed = "Q1"
	w.h.Tag("stream:Q1-armed-namespace-unclaim")
	w.frozenNs[90] = true
	x := w.addQuotaRaw(3, []int{90})
	var mine []int
	for i, n := 0, r.Range(1, 2); i < n && !w.dead; i++ {
		mine = append(mine, w.addPodRaw(0, 90, r.Bool()).id)
	}
	for i, n := 0, r.Range(0, 4); i < n && !w.dead; i++ {
		w.step()
	}
	if w.dead || w.quotas[3] != x {
		return
	}
	// the armed quota-object change
	old := x.obj
	var keep []int
	for _, n := range x.nss {
		if n != 90 {
			keep = append(keep, n)
		}
	}
	x.nss = keep
	w.mkQuota(x)
	w.quotaPut(0, x, 2, old)
	if r.Bool() && w.quotas[4] == nil && !w.dead {
		w.h.Tag("armed:Q1-claim-handed-to-another-quota")
		w.addQuotaRaw(4, []int{90})
	}
	_ = mine
	for _, id := range w.pids() { // every unlabelled pod of the namespace that quota 3 caches, also those the random steps added
		p := w.pods[id]
		if w.dead || p.label != 0 || p.ns != 90 || w.loc[id] != 3 {
			continue
		}
		w.frozenPod[id] = true
		w.leak[[2]int{3, id}] = p.req
		w.updatePodRaw(id, func(n *c19qPod) {
			if !n.node && !n.term && r.Bool() {
				n.node = true
			}
		})
		w.loc[id] = w.res(w.pods[id])
	}
}

// armQ3: known finding C19:quota-stale-cached-pod-migration.  A pod labelled 7 (missing) is held by the default group, its label
// changes to 8 (missing); then quota 8 appears (the pod stays in the default group live, the rebuilt ledger charges 8) or quota 7
// appears (the migration moves it to 7 by the cached object, the rebuilt ledger charges the default group).
func (w *c19qWorld) armQ3() {
	r := w.r
	w.armed = "Q3"
	w.h.Tag("stream:Q3-armed-stale-cached-label")
	w.noCreate[7], w.noCreate[8] = true, true
	p := w.addPodRaw(7, []int{5, 90}[r.Intn(2)], r.Bool())
	w.frozenPod[p.id] = true
	for i, n := 0, r.Range(0, 4); i < n && !w.dead; i++ {
		w.step()
	}
	if w.dead {
		return
	}
	w.updatePodRaw(p.id, func(n *c19qPod) { n.label = 8 })
	if r.Bool() {
		w.h.Tag("armed:Q3-new-label-quota-appears")
		w.addQuotaRaw(8, nil)
		w.stale[p.id] = 1
	} else {
		w.h.Tag("armed:Q3-old-label-quota-appears")
		w.addQuotaRaw(7, nil)
		w.noDel[7] = true
		w.stale[p.id] = 7
	}
	if !w.dead {
		w.migrate(0)
	}
}

func TestVerifC19Quota(t *testing.T) {
	h := vOpen("C19")
	if h == nil {
		t.Skip("VERIF_OUT not set")
	}
	suit := newPluginTestSuit(t, nil)
	setLoglevel("0")
	newPl := func() *Plugin {
		p, err := suit.proxyNew(context.TODO(), suit.elasticQuotaArgs, suit.Handle)
		if err != nil {
			t.Fatalf("plugin: %v", err)
		}
		return p.(*Plugin)
	}
	free := os.Getenv("VERIF_C19Q_FREE") == "1"
	lift2 := os.Getenv("VERIF_C19Q_FREE") == "2"
	n := h.N(150, 3000)
	for idx := 0; idx < n; idx++ {
		r := h.Begin(idx)
		if r == nil {
			continue
		}
		w := &c19qWorld{t: t, h: h, r: r, idx: idx, newPl: newPl, quotas: map[int]*c19qQuota{}, pods: map[int]*c19qPod{},
			resvd: map[int]bool{}, loc: map[int]int{}, first: map[int]*c19qPod{}, nextP: 1, free: free, lift2: lift2,
			leak: map[[2]int]int64{}, stale: map[int]int{}, frozenPod: map[int]bool{}, frozenNs: map[int]bool{}, noCreate: map[int]bool{}, noDel: map[int]bool{}}
		restore := func() {}
		if idx%5 == 4 { // stream M
			w.multi = true
			restore = utilfeature.SetFeatureGateDuringTest(t, k8sfeature.DefaultMutableFeatureGate, koordfeatures.MultiQuotaTree, true)
			h.Tag("stream:M-multi-quota-tree")
			h.Op("quota mode 1")
		} else {
			h.Tag("stream:S-single-manager")
		}
		w.live = newPl()
		h.Op("quota dump 0")
		w.observe(w.live)
		nops := r.Range(12, 40)
		mid := r.Range(4, nops-1)
		switch {
		case w.multi || free:
		case idx%10 == 7:
			w.armQ1()
		case idx%10 == 8:
			w.armQ3()
		}
		if idx%3 == 0 && w.armed == "" { // scripted start: a bound / pending pod names a quota that is created later
			lbl := 3 + r.Intn(3)
			p := &c19qPod{id: w.nextP, label: lbl, ns: 90, req: int64(r.Range(1, 16)) * 250, rv: 1, node: r.Bool()}
			w.nextP++
			w.firstPhase(p)
			w.mkPod(p)
			w.pods[p.id] = p
			w.loc[p.id] = 1
			w.first[p.id] = p
			h.Tag("p:add-quota-missing=>default")
			w.podAdd(0, p)
			if !p.node && r.Bool() && !w.dead {
				w.opReserve(p.id, false)
			}
		}
		for i := 0; i < nops && !w.dead; i++ {
			w.step()
			if i == mid {
				w.cut()
			}
		}
		w.cut()
		restore()
		h.End()
	}
	h.Close("elasticquota restart histories: 12-40 calls of OnQuotaAdd/Update/Delete (re-parenting, max, namespace annotation incl. empty/null/malformed, own-namespace quotas, " +
		"DeletedFinalStateUnknown), OnPodAdd/Update/Delete (label present / absent / special names / naming a quota that does not exist (yet), bind, resize, label change, bound pods in phase Running / Pending / \"\", " +
		"failed pending pod, same-RV resync, tombstones), Reserve/Unreserve, migrateDefaultQuotaGroupsPod on a live plugin; at two cuts a fresh plugin is fed the final objects in " +
		"shape R (store + OnQuotaAdd any order + ReplaceQuotas, pods with duplicates), H (handlers, every pod after its quota, duplicates) or L (pods before their quotas, once) " +
		"followed by the migration; every third case starts with a pod naming a quota created later; every fifth case (stream M) runs with MultiQuotaTree on and the quotas in a " +
		"tree of their own (migration = OnPodDelete in the default manager + OnPodAdd in the tree's manager; outside the theorem, model + oracle only); non-trivial = at least 2 quotas and 2 pods alive at the last cut")
}

// TestVerifC19QuotaExhaustive (thorough tier): small scope, ALL delivery orders.  World: quota 3 (named by label), quota 4 (claims the
// namespace 90 by annotation), pod 1 labelled 3, pod 2 unlabelled in namespace 90, pod 3 labelled with a quota that never exists;
// the 4 bound/pending variants of pods 1 and 2 x the 120 orders of the 5 add events (handlers only) x {no duplicate, pod 1 twice,
// pod 2 twice} followed by the migration.  Oracle: every order gives the ledger of the canonical order (quotas first).
func TestVerifC19QuotaExhaustive(t *testing.T) {
	h := vOpen("C19")
	if h == nil {
		t.Skip("VERIF_OUT not set")
	}
	suit := newPluginTestSuit(t, nil)
	setLoglevel("0")
	newPl := func() *Plugin {
		p, err := suit.proxyNew(context.TODO(), suit.elasticQuotaArgs, suit.Handle)
		if err != nil {
			t.Fatalf("plugin: %v", err)
		}
		return p.(*Plugin)
	}
	var perms [][]int
	var gen func(cur []int, used int)
	gen = func(cur []int, used int) {
		if len(cur) == 5 {
			perms = append(perms, append([]int{}, cur...))
			return
		}
		for i := 0; i < 5; i++ {
			if used&(1<<i) == 0 {
				gen(append(cur, i), used|1<<i)
			}
		}
	}
	gen(nil, 0)
	idx := 0
	for variant := 0; variant < 4; variant++ {
		for pi, perm := range perms {
			for dup := 0; dup < 3; dup++ {
				r := h.Begin(idx)
				idx++
				if r == nil {
					continue
				}
				w := &c19qWorld{t: t, h: h, r: r, idx: idx, newPl: newPl, quotas: map[int]*c19qQuota{}, pods: map[int]*c19qPod{},
					resvd: map[int]bool{}, loc: map[int]int{}, first: map[int]*c19qPod{}, free: true,
					leak: map[[2]int]int64{}, stale: map[int]int{}, frozenPod: map[int]bool{}, frozenNs: map[int]bool{}, noCreate: map[int]bool{}, noDel: map[int]bool{}}
				qa := &c19qQuota{name: 3, max: [2]int64{8000, 8000 * 1024}}
				qb := &c19qQuota{name: 4, max: [2]int64{8000, 8000 * 1024}, nss: []int{90}}
				w.mkQuota(qa)
				w.mkQuota(qb)
				w.quotas[3], w.quotas[4] = qa, qb
				ps := []*c19qPod{
					{id: 1, label: 3, ns: 5, req: 1000, rv: 1, node: variant&1 != 0},
					{id: 2, label: 0, ns: 90, req: 2000, rv: 1, node: variant&2 != 0},
					{id: 3, label: 9, ns: 5, req: 500, rv: 1, node: true},
				}
				// extension 7: the phase the bound pods show (Running / Pending / ""), rotating so that every (variant, dup) and every order meets all three
				phase := (pi + dup + variant) % 3
				for _, p := range ps {
					if p.node {
						p.ph = phase
					}
					w.mkPod(p)
					w.pods[p.id] = p
				}
				h.Tag(fmt.Sprintf("exh:variant-%d-dup-%d", variant, dup))
				h.Tag("exh:bound-phase-" + []string{"running", "pending", "empty"}[phase])
				// canonical order on cache 0
				w.live = newPl()
				w.quotaPut(0, qa, 1, nil)
				w.quotaPut(0, qb, 1, nil)
				for _, p := range ps {
					w.podAdd(0, p)
				}
				w.migrate(0)
				// the order under test on cache 1
				w.fresh = newPl()
				h.Op("quota fresh")
				deliver := func(e int) {
					switch e {
					case 0:
						w.quotaPut(1, qa, 1, nil)
					case 1:
						w.quotaPut(1, qb, 1, nil)
					default:
						w.podAdd(1, ps[e-2])
					}
				}
				for _, e := range perm {
					deliver(e)
				}
				if dup > 0 {
					deliver(1 + dup) // pod 1 / pod 2 once more, after everything else and before the migration
				}
				w.migrate(1)
				if !w.dead {
					a, b := w.snapshot(w.live), w.snapshot(w.fresh)
					for _, n := range []int{1, 2, 3, 4} {
						if a[n] == nil || b[n] == nil {
							h.Fail("C19:quota-order-dependent:quota-set", "order %v dup %d: quota %d known canonical=%v this order=%v", perm, dup, n, a[n] != nil, b[n] != nil)
							break
						}
						if fmt.Sprint(a[n].pods) != fmt.Sprint(b[n].pods) {
							h.Fail("C19:quota-order-dependent:charge", "order %v dup %d variant %d: quota %d pods(assigned) canonical %v, this order %v", perm, dup, variant, n, a[n].pods, b[n].pods)
							break
						}
						if a[n].fig != b[n].fig {
							h.Fail("C19:quota-order-dependent:figures", "order %v dup %d variant %d: quota %d figures canonical %v, this order %v", perm, dup, variant, n, a[n].fig, b[n].fig)
							break
						}
					}
					// extension 7, nothing taken is free: every bound pod is charged (assigned) by exactly one quota, whatever non-terminal phase it shows
					for _, p := range ps {
						asg := 0
						for _, o := range b {
							if o.pods[p.id] {
								asg++
							}
						}
						if p.node && asg != 1 {
							h.Fail("C19:quota-rebuilt-bound-pod-not-charged:exh", "order %v dup %d variant %d: bound pod %d (phase %q) is assigned in %d quotas after the deliveries",
								perm, dup, variant, p.id, string(p.obj.Status.Phase), asg)
							break
						}
					}
				}
				h.Nontrivial()
				h.End()
			}
		}
	}
	h.Close("exhaustive small scope: 2 quotas (label / namespace annotation), 3 pods (labelled, unlabelled-by-namespace, labelled with a missing quota), 4 bound/pending variants x " +
		"all 120 orders of the 5 add events x {no duplicate, pod 1 again, pod 2 again} + migration, each compared with the canonical quotas-first order; bound pods show phase Running / Pending / \"\" in rotation and must each be assigned in exactly one quota; every case is distinct and non-trivial")
}
