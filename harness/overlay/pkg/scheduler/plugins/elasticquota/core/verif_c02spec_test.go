//go:build verif

package core

import (
	"fmt"
	"math/big"
	"sort"
	"strings"
	"testing"

	v1 "k8s.io/api/core/v1"
	"k8s.io/apimachinery/pkg/api/resource"
	metav1 "k8s.io/apimachinery/pkg/apis/meta/v1"
	utilfeature "k8s.io/apiserver/pkg/util/feature"

	"github.com/koordinator-sh/koordinator/apis/extension"
	"github.com/koordinator-sh/koordinator/apis/thirdparty/scheduler-plugins/pkg/apis/scheduling/v1alpha1"
	"github.com/koordinator-sh/koordinator/pkg/features"
)

// C02 `spec` harness (TestVerifC02Spec): histories of UpdateQuota / DeleteQuota / request / used / cluster-total
// changes on a 1-2 level tree.  EVERY input of the oracle and of the model is derived from what the harness
// DECLARED on the ElasticQuota objects (spec.max, spec.min with missing keys / nil, the raw shared-weight
// annotation, the lend label, the parent label) and from the leaf requests it handed in — through the
// from-scratch reading of the documented rules below (c02D*), never from QuotaInfo fields.  The QuotaInfo fields
// and the calculator's tree nodes are cross-checked against that reading (C02:glue-*, C02:node-*), the runtime
// oracle c02Oracle runs on the declared-derived nodes, and after every step a FRESH manager built from the
// final declared objects must report the same runtimes (C02:history-dependent-*).

const c02Gpu = v1.ResourceName("example.com/gpu")

var c02Dims = [3]v1.ResourceName{v1.ResourceCPU, v1.ResourceMemory, c02Gpu}

// c02RLd is a declared resource list: dimension -> amount in the unit the calculator works on (cpu: milli,
// memory: bytes, gpu: units); a missing key is a missing key; nil is a nil list.
type c02RLd map[int]int64

func (l c02RLd) clone() c02RLd {
	if l == nil {
		return nil
	}
	o := c02RLd{}
	for k, v := range l {
		o[k] = v
	}
	return o
}

func c02Qty(d int, v int64) resource.Quantity {
	switch d {
	case 0:
		return *resource.NewMilliQuantity(v, resource.DecimalSI)
	case 1:
		return *resource.NewQuantity(v, resource.BinarySI)
	}
	return *resource.NewQuantity(v, resource.DecimalSI)
}

func c02MkRL(l c02RLd) v1.ResourceList {
	if l == nil {
		return nil
	}
	o := v1.ResourceList{}
	for d, v := range l {
		o[c02Dims[d]] = c02Qty(d, v)
	}
	return o
}

// c02Val reads one dimension of an implementation-side list (missing key = 0).
func c02Val(l v1.ResourceList, d int) int64 {
	q, ok := l[c02Dims[d]]
	if !ok {
		return 0
	}
	if d == 0 {
		return q.MilliValue()
	}
	return q.Value()
}

func c02EmitRL(l c02RLd) string {
	keys := make([]int, 0, len(l))
	for k := range l {
		keys = append(keys, k)
	}
	sort.Ints(keys)
	var sb strings.Builder
	fmt.Fprintf(&sb, "%d", len(keys))
	for _, k := range keys {
		fmt.Fprintf(&sb, " %d %d", k, l[k])
	}
	return sb.String()
}

// annotation states (histogram); classes for the model: 0 absent, 1 invalid, 2 parsed
const (
	c02AnnAbsent = iota
	c02AnnInvalid
	c02AnnEmptyObj
	c02AnnAllZero
	c02AnnOneZero
	c02AnnOneMissing
	c02AnnAllNonZero
	c02AnnHuge
	c02AnnNStates
)

var c02AnnNames = [...]string{"absent", "invalid", "empty-object", "all-zero", "one-dimension-zero", "one-dimension-missing", "all-non-zero", "huge"}

type c02D struct {
	id       int
	name     string
	parent   int // 0 = root
	isParent bool
	present  bool
	// declared on the object
	max, min    c02RLd
	annState    int
	annEnt      c02RLd // entries of a parsed annotation
	annText     string
	lend        int  // 0 label absent, 1 "true", 2 "false"
	rootLabeled bool // a top-level quota may carry the parent label explicitly or not at all
	// handed in by the harness (leaves only)
	req, used [3]int64
	// the gpu min the quota declared before the dimension was last dropped (a re-add often declares it again)
	hadGpuMin  bool
	lastGpuMin int64
}

func (q *c02D) annClass() int {
	switch q.annState {
	case c02AnnAbsent:
		return 0
	case c02AnnInvalid:
		return 1
	}
	return 2
}

func (q *c02D) dims() []int {
	var ds []int
	for d := 0; d < 3; d++ {
		if _, ok := q.max[d]; ok {
			ds = append(ds, d)
		}
	}
	return ds
}

type c02World struct {
	qs    []*c02D
	total [3]int64
	gate  bool
	scale bool
	// a quota was deleted (or moved, which deletes it under the old parent) while guaranteed-usage mode is on
	gateDelete bool
	// a dimension was dropped from a quota's max while guaranteed-usage mode is on
	gateDimDropped bool
	// `nodes` harness only: the cluster total comes from node events (verif_c02nodes_test.go); nil = set directly
	nodes *c02NodeSet
	// `move` harness only (verif_c02move_test.go): a lagging calculator node of a non-lending quota is excused as
	// C02:nolend-request-not-pushed only when the quota's OWN limited request is the declared-derived one (the
	// request was recomputed, just not pushed); a quota whose own request is off goes on to the full oracle
	strictLag bool
}

func (w *c02World) byID(id int) *c02D {
	for _, q := range w.qs {
		if q.id == id {
			return q
		}
	}
	return nil
}

func (w *c02World) kids(id int) []*c02D {
	var out []*c02D
	for _, q := range w.qs {
		if q.present && q.parent == id {
			out = append(out, q)
		}
	}
	return out
}

// ---- the from-scratch reading of the documented rules ----

// shared weight: the annotation as a whole when it is valid JSON and not all-zero (a dimension it does not name
// reads 0), else spec.max in every dimension.
func c02DWeight(q *c02D, d int) int64 {
	if q.annClass() == 2 {
		allZero := true
		for _, v := range q.annEnt {
			if v != 0 {
				allZero = false
			}
		}
		if !allZero {
			return q.annEnt[d]
		}
	}
	return q.max[d]
}

// lend flag: anything but the label value "false" lends; guaranteed-usage mode never lends.
func c02DLend(w *c02World, q *c02D) bool { return !w.gate && q.lend != 2 }

// what the children (pods for a leaf) ask for, each capped by its own max
func c02DChildReq(w *c02World, q *c02D, d int) int64 {
	if !q.isParent {
		return q.req[d]
	}
	var s int64
	for _, c := range w.kids(q.id) {
		s += c02DLimitReq(w, c, d)
	}
	return s
}

func c02DLimitReq(w *c02World, q *c02D, d int) int64 {
	rq := c02DChildReq(w, q, d)
	if !c02DLend(w, q) && rq < q.min[d] {
		rq = q.min[d] // a quota that does not lend always asks for its min
	}
	if m, ok := q.max[d]; ok && rq > m {
		rq = m
	}
	return rq
}

func c02DAlloc(w *c02World, q *c02D, d int) int64 {
	if !q.isParent {
		return q.used[d]
	}
	var s int64
	for _, c := range w.kids(q.id) {
		s += c02DGuarantee(w, c, d)
	}
	return s
}

// guarantee: max(allocated, min) in guaranteed-usage mode, nothing otherwise
func c02DGuarantee(w *c02World, q *c02D, d int) int64 {
	if !w.gate {
		return 0
	}
	return c02Max(c02DAlloc(w, q, d), q.min[d])
}

// ---- building the objects ----

func c02Build(w *c02World, q *c02D) *v1alpha1.ElasticQuota {
	eq := &v1alpha1.ElasticQuota{ObjectMeta: metav1.ObjectMeta{Name: q.name, Labels: map[string]string{}, Annotations: map[string]string{}}}
	eq.Spec.Max = c02MkRL(q.max)
	eq.Spec.Min = c02MkRL(q.min)
	if q.annState != c02AnnAbsent {
		eq.Annotations[extension.AnnotationSharedWeight] = q.annText
	}
	if q.parent != 0 {
		eq.Labels[extension.LabelQuotaParent] = w.byID(q.parent).name
	} else if q.rootLabeled {
		eq.Labels[extension.LabelQuotaParent] = extension.RootQuotaName
	}
	switch q.lend {
	case 1:
		eq.Labels[extension.LabelAllowLentResource] = "true"
	case 2:
		eq.Labels[extension.LabelAllowLentResource] = "false"
	}
	if q.isParent {
		eq.Labels[extension.LabelQuotaIsParent] = "true"
	}
	return eq
}

func c02QtyText(r *vRand, d int, v int64) string {
	switch d {
	case 0:
		if v%1000 == 0 && r.Bool() {
			return fmt.Sprintf("%d", v/1000)
		}
		return fmt.Sprintf("\"%dm\"", v)
	case 1:
		if v > 0 && v%(1<<30) == 0 && r.Bool() {
			return fmt.Sprintf("\"%dGi\"", v>>30)
		}
		return fmt.Sprintf("\"%d\"", v)
	}
	if r.Bool() {
		return fmt.Sprintf("%d", v)
	}
	return fmt.Sprintf("\"%d\"", v)
}

func c02GenAmount(r *vRand, d int) int64 {
	switch d {
	case 0:
		v := int64(r.Range(1, 48)) * 1000
		if r.Chance(1, 4) {
			v += int64(r.Range(-900, 900))
		}
		return v
	case 1:
		return int64(r.Range(1, 96)) << 30
	}
	return int64(r.Range(1, 12))
}

// c02GenAnn picks a new annotation shape for q over q's dimensions (and sometimes one it does not have).
func c02GenAnn(r *vRand, q *c02D) {
	st := c02AnnAbsent
	if !r.Chance(1, 4) {
		st = r.Range(1, c02AnnNStates-1)
	}
	ds := q.dims()
	if r.Chance(1, 8) && len(ds) < 3 { // names a dimension the quota's max does not have
		for d := 0; d < 3; d++ {
			if _, ok := q.max[d]; !ok {
				ds = append(ds, d)
				break
			}
		}
	}
	q.annState, q.annEnt, q.annText = st, nil, ""
	switch st {
	case c02AnnAbsent:
		return
	case c02AnnInvalid:
		q.annText = []string{"{\"cpu\":", "[1,2]", "{\"cpu\":\"abc\"}", "", "not json", "{\"cpu\":1,}"}[r.Intn(6)]
		return
	case c02AnnEmptyObj:
		q.annEnt = c02RLd{}
		q.annText = []string{"{}", "null", " { } "}[r.Intn(3)]
		return
	}
	ent := c02RLd{}
	for _, d := range ds {
		switch st {
		case c02AnnAllZero:
			ent[d] = 0
		case c02AnnHuge:
			ent[d] = c02GenAmount(r, d) << 18
		default:
			ent[d] = c02GenAmount(r, d)
			if r.Chance(1, 3) {
				ent[d] = int64(r.Range(1, 9)) * []int64{1000, 1 << 30, 1}[d]
			}
		}
	}
	if len(ds) > 0 {
		pick := ds[r.Intn(len(ds))]
		switch st {
		case c02AnnOneZero:
			ent[pick] = 0
			if len(ds) == 1 { // would be all-zero: keep the state name honest
				st = c02AnnAllZero
			}
		case c02AnnOneMissing:
			delete(ent, pick)
			if len(ent) == 0 {
				st = c02AnnEmptyObj
			}
		}
	}
	q.annState, q.annEnt = st, ent
	keys := make([]int, 0, len(ent))
	for k := range ent {
		keys = append(keys, k)
	}
	sort.Ints(keys)
	if r.Bool() { // key order in the JSON text must not matter
		for i, j := 0, len(keys)-1; i < j; i, j = i+1, j-1 {
			keys[i], keys[j] = keys[j], keys[i]
		}
	}
	var parts []string
	for _, k := range keys {
		parts = append(parts, fmt.Sprintf("\"%s\":%s", c02Dims[k], c02QtyText(r, k, ent[k])))
	}
	q.annText = "{" + strings.Join(parts, ", ") + "}"
}

// c02GenMin picks a min shape over the quota's dimensions: nil, {}, one key missing, all keys; 0 <= min <= max.
func c02GenMin(r *vRand, q *c02D) {
	switch k := r.Intn(10); {
	case k == 0:
		q.min = nil
		return
	case k == 1:
		q.min = c02RLd{}
		return
	}
	m := c02RLd{}
	for _, d := range q.dims() {
		m[d] = c02GenMinVal(r, q, d)
	}
	if ds := q.dims(); r.Chance(1, 4) && len(ds) > 0 {
		delete(m, ds[r.Intn(len(ds))])
	}
	q.min = m
}

func c02GenMinVal(r *vRand, q *c02D, d int) int64 {
	mx := q.max[d]
	switch r.Intn(5) {
	case 0:
		return 0
	case 1:
		return mx
	}
	v := r.Int63n(mx/2 + 1)
	if d == 1 {
		v = v >> 30 << 30
	}
	if d == 0 && !r.Chance(1, 4) {
		v = v / 1000 * 1000
	}
	return v
}

func c02GenReq(r *vRand, d int) int64 {
	if r.Chance(1, 6) {
		return 0
	}
	switch d {
	case 0:
		return int64(r.Range(0, 64000))
	case 1:
		return int64(r.Range(0, 128)) << 30
	}
	return int64(r.Range(0, 14))
}

// ---- driving one manager ----

type c02Mgr struct {
	gqm *GroupQuotaManager
}

func c02NewMgr(w *c02World) *c02Mgr {
	if w.nodes != nil {
		return c02nNewMgr(w)
	}
	g := NewGroupQuotaManagerForTest()
	if w.scale {
		g.setScaleMinQuotaEnabled(true)
	}
	g.UpdateClusterTotalResource(c02MkRL(c02RLd{0: w.total[0], 1: w.total[1], 2: w.total[2]}))
	return &c02Mgr{gqm: g}
}

func (m *c02Mgr) setReq(q *c02D, old, nw [3]int64) {
	delta := v1.ResourceList{}
	for d := 0; d < 3; d++ {
		if nw[d] != old[d] {
			delta[c02Dims[d]] = c02Qty(d, nw[d]-old[d])
		}
	}
	if len(delta) > 0 {
		m.gqm.updateGroupDeltaRequestNoLock(q.name, delta, nil, 0)
	}
}

func (m *c02Mgr) setUsed(q *c02D, old, nw [3]int64) {
	delta := v1.ResourceList{}
	for d := 0; d < 3; d++ {
		if nw[d] != old[d] {
			delta[c02Dims[d]] = c02Qty(d, nw[d]-old[d])
		}
	}
	if len(delta) > 0 {
		m.gqm.updateGroupDeltaUsedNoLock(q.name, delta, nil, 0)
	}
}

// refresh every quota top-down; three passes so that the scaled minimums of both levels have settled
func (m *c02Mgr) refresh(w *c02World, r *vRand) map[int]v1.ResourceList {
	out := map[int]v1.ResourceList{}
	for pass := 0; pass < 3; pass++ {
		for lvl := 0; lvl < 2; lvl++ {
			var ids []int
			for _, q := range w.qs {
				if q.present && (q.parent == 0) == (lvl == 0) {
					ids = append(ids, q.id)
				}
			}
			if r != nil {
				p := r.Perm(len(ids))
				sh := make([]int, len(ids))
				for i, j := range p {
					sh[i] = ids[j]
				}
				ids = sh
			}
			for _, id := range ids {
				out[id] = m.gqm.RefreshRuntime(w.byID(id).name)
			}
		}
	}
	return out
}

// c02Fresh builds a manager from nothing but the current declared objects, requests and used amounts.
func c02Fresh(w *c02World) *c02Mgr {
	m := c02NewMgr(w)
	for lvl := 0; lvl < 2; lvl++ {
		for _, q := range w.qs {
			if q.present && (q.parent == 0) == (lvl == 0) {
				if err := m.gqm.UpdateQuota(c02Build(w, q)); err != nil {
					panic(err)
				}
			}
		}
	}
	for _, q := range w.qs {
		if q.present && !q.isParent {
			m.setReq(q, [3]int64{}, q.req)
			m.setUsed(q, [3]int64{}, q.used)
		}
	}
	// a pod of 1 milli-cpu comes and goes in every quota: whatever request the quota has by now is handed to its
	// parent's calculator (the reference must not depend on WHEN a request was last pushed)
	for _, q := range w.qs {
		if q.present {
			m.gqm.updateGroupDeltaRequestNoLock(q.name, v1.ResourceList{v1.ResourceCPU: c02Qty(0, 1)}, nil, 0)
			m.gqm.updateGroupDeltaRequestNoLock(q.name, v1.ResourceList{v1.ResourceCPU: c02Qty(0, -1)}, nil, 0)
		}
	}
	return m
}

func c02NodeOf(m *c02Mgr, parent string, d int, name string) *quotaNode {
	calc := m.gqm.runtimeQuotaCalculatorMap[parent]
	if calc == nil || calc.quotaTree[c02Dims[d]] == nil {
		return nil
	}
	if ok, n := calc.quotaTree[c02Dims[d]].find(name); ok {
		return n
	}
	return nil
}

// ---- the per-step check ----

// c02SpecCheck returns false when the case cannot go on (the manager's state is known to be off).
func c02SpecCheck(h *vHarness, w *c02World, m *c02Mgr, r *vRand) bool {
	rts := m.refresh(w, r)
	// guaranteed-usage mode: the guarantee every ancestor holds must be the declared-derived one BEFORE anything
	// downstream of it is judged
	if w.gate {
		for _, q := range w.qs {
			if !q.present {
				continue
			}
			qi := m.gqm.quotaInfoMap[q.name]
			if qi == nil {
				continue
			}
			for d := 0; d < 3; d++ {
				if ig, want := c02Val(qi.CalculateInfo.Guaranteed, d), c02DGuarantee(w, q, d); ig != want && w.gateDelete {
					h.Fail("C02:guarantee-stale-after-delete", "guaranteed-usage mode: quota %s dim %d holds guarantee %d, its children's guarantees and its own min give %d, after a child was deleted or moved away",
						q.name, d, ig, want)
					return false
				}
				// the calculator remembers the guarantee it last pushed per quota and dimension and never forgets a
				// dimension that disappeared: when the dimension comes back with the same guarantee the new node keeps 0
				if _, tracked := q.max[d]; tracked && w.gateDimDropped {
					pname := extension.RootQuotaName
					if q.parent != 0 {
						pname = w.byID(q.parent).name
					}
					if tn := c02NodeOf(m, pname, d, q.name); tn != nil && tn.guarantee != c02DGuarantee(w, q, d) {
						h.Fail("C02:guarantee-cache-stale-after-dimension-readd", "guaranteed-usage mode: parent %s dim %d node %s carries guarantee %d, the quota's guarantee is %d; the dimension was dropped and added again",
							pname, d, q.name, tn.guarantee, c02DGuarantee(w, q, d))
						return false
					}
				}
			}
		}
	}
	fresh := c02Fresh(w)
	frts := fresh.refresh(w, nil)

	parents := []*c02D{nil}
	for _, q := range w.qs {
		if q.present && q.isParent {
			parents = append(parents, q)
		}
	}
	dimsOf := func(p *c02D) []int {
		if p != nil {
			return p.dims()
		}
		var dims []int
		seen := map[int]bool{}
		for _, q := range w.qs {
			if q.present {
				for _, d := range q.dims() {
					seen[d] = true
				}
			}
		}
		for d := 0; d < 3; d++ {
			if seen[d] {
				dims = append(dims, d)
			}
		}
		return dims
	}
	// a quota that does not lend asks for max(children, min); when its min changes the manager recomputes that
	// request but does not hand it to the parent's calculator until the next request event.  Where that stale
	// request changes a runtime the case ends with its own fingerprint.
	for _, p := range parents {
		pid, pname := 0, extension.RootQuotaName
		if p != nil {
			pid, pname = p.id, p.name
		}
		for _, d := range dimsOf(p) {
			var lag *c02D
			differs := false
			for _, q := range w.kids(pid) {
				if _, ok := q.max[d]; !ok {
					continue
				}
				if tn := c02NodeOf(m, pname, d, q.name); tn != nil && !c02DLend(w, q) && tn.request != c02DLimitReq(w, q, d) {
					if qi := m.gqm.quotaInfoMap[q.name]; w.strictLag && qi != nil && c02Val(qi.getLimitRequestNoLock(), d) != c02DLimitReq(w, q, d) {
						h.Tag("move:own-request-off")
					} else {
						lag = q
						h.Tag("spec:nolend-node-request-lags")
					}
				}
				if c02Val(rts[q.id], d) != c02Val(frts[q.id], d) {
					differs = true
				}
			}
			if lag != nil && differs {
				tn := c02NodeOf(m, pname, d, lag.name)
				h.Fail("C02:nolend-request-not-pushed", "parent %s dim %d: quota %s does not lend, its request is max(children %d, min %d) capped by max = %d, the parent's calculator still divides with %d; runtimes differ from a freshly built manager",
					pname, d, lag.name, c02DChildReq(w, lag, d), lag.min[d], c02DLimitReq(w, lag, d), tn.request)
				return false
			}
		}
	}
	for _, p := range parents {
		pid, pname := 0, extension.RootQuotaName
		if p != nil {
			pid, pname = p.id, p.name
		}
		dims := dimsOf(p)
		kids := w.kids(pid)
		if len(kids) == 0 {
			continue
		}
		sort.Slice(kids, func(i, j int) bool { return kids[i].id < kids[j].id })
		for _, d := range dims {
			total := w.total[d]
			if p != nil {
				total = c02Val(rts[p.id], d)
			}
			var sumMin int64
			for _, q := range kids {
				sumMin += q.min[d]
			}
			h.Op("gtot %d %d %d %d", total, d, vB(w.gate), vB(w.scale))
			var ns []*c02Node
			var implIn []string
			for _, q := range kids {
				h.Op("gq %d %d %d %d %s %s %d %s", q.id, q.lend, c02DChildReq(w, q, d), c02DAlloc(w, q, d),
					c02EmitRL(q.max), c02EmitRL(q.min), q.annClass(), c02EmitRL(q.annEnt))
				qi := m.gqm.quotaInfoMap[q.name]
				if qi == nil {
					h.Fail("C02:glue-missing", "quota %s is declared but the manager does not hold it", q.name)
					continue
				}
				// ---- declared-derived node ----
				nd := &c02Node{name: q.id, w: c02DWeight(q, d), req: c02DLimitReq(w, q, d), min: q.min[d],
					guarantee: c02DGuarantee(w, q, d), lend: c02DLend(w, q), rt: c02Val(rts[q.id], d)}
				iw := c02Val(qi.CalculateInfo.SharedWeight, d)
				ireq := c02Val(qi.getLimitRequestNoLock(), d)
				imin := c02Val(qi.CalculateInfo.Min, d)
				iamin := c02Val(qi.CalculateInfo.AutoScaleMin, d)
				ig := c02Val(qi.CalculateInfo.Guaranteed, d)
				implIn = append(implIn, fmt.Sprintf("in %d %d %d %d %d %d", q.id, iw, ireq, iamin, ig, vB(qi.AllowLentResource)))
				if iw != nd.w {
					h.Fail("C02:glue-weight", "quota %s dim %d: declared shared weight reads %d (annotation %s %q, max %v), the manager uses %d",
						q.name, d, nd.w, c02AnnNames[q.annState], q.annText, q.max, iw)
				}
				if imin != q.min[d] {
					h.Fail("C02:glue-min", "quota %s dim %d: declared min %d (spec.min %v), the manager holds %d", q.name, d, q.min[d], q.min, imin)
				}
				if qi.AllowLentResource != nd.lend {
					h.Fail("C02:glue-lend", "quota %s: lend label %d (gate %v) reads %v, the manager holds %v", q.name, q.lend, w.gate, nd.lend, qi.AllowLentResource)
				}
				if ireq != nd.req {
					h.Fail("C02:glue-request", "quota %s dim %d: declared-derived limited request %d, the manager holds %d", q.name, d, nd.req, ireq)
				}
				if ig != nd.guarantee {
					h.Fail("C02:glue-guarantee", "quota %s dim %d: declared-derived guarantee %d (gate %v), the manager holds %d", q.name, d, nd.guarantee, w.gate, ig)
				}
				// scaled minimum: only when scaling is on and the children's minimums do not fit
				if !w.scale || total >= sumMin {
					if iamin != q.min[d] {
						h.Fail("C02:glue-scaled-min", "parent %s dim %d: minimums fit (sum %d <= total %d, scaling %v) but %s min %d became %d",
							pname, d, sumMin, total, w.scale, q.name, q.min[d], iamin)
					}
				} else {
					ex := new(big.Int)
					if total > 0 {
						ex.Mul(big.NewInt(total), big.NewInt(q.min[d]))
						ex.Div(ex, big.NewInt(sumMin))
					}
					df := new(big.Int).Sub(big.NewInt(iamin), ex)
					df.Abs(df)
					if df.Cmp(big.NewInt(ex.Int64()>>44+1)) > 0 {
						h.Fail("C02:glue-scaled-min", "parent %s dim %d: total %d < sum of minimums %d: %s min %d scaled to %d, exact share %s",
							pname, d, total, sumMin, q.name, q.min[d], iamin, ex)
					} else {
						nd.min = iamin // within the float tolerance: the oracle takes the scaled value
					}
					h.Tag("spec:min-scaled")
				}
				// ---- the calculator's own node for this child: fields that must equal the declared reading ----
				if _, tracked := q.max[d]; !tracked {
					// a dimension the quota's own max does not name: its node (if any) carries a zero request
				} else if tn := c02NodeOf(m, pname, d, q.name); tn == nil {
					h.Fail("C02:node-missing", "parent %s dim %d holds no node for %s", pname, d, q.name)
				} else {
					if tn.min != iamin {
						h.Fail("C02:node-min", "parent %s dim %d node %s min %d, the quota's (scaled) min is %d (declared %d)", pname, d, q.name, tn.min, iamin, q.min[d])
					}
					if tn.sharedWeight != nd.w {
						h.Fail("C02:node-weight", "parent %s dim %d node %s weight %d, declared %d", pname, d, q.name, tn.sharedWeight, nd.w)
					}
					if tn.guarantee != nd.guarantee {
						h.Fail("C02:node-guarantee", "parent %s dim %d node %s guarantee %d, declared-derived %d", pname, d, q.name, tn.guarantee, nd.guarantee)
					}
					if tn.allowLentResource != nd.lend {
						h.Fail("C02:node-lend", "parent %s dim %d node %s lend %v, declared %v", pname, d, q.name, tn.allowLentResource, nd.lend)
					}
					if tn.request != nd.req {
						h.Tag("spec:node-request-lags")
					}
				}
				ns = append(ns, nd)
			}
			h.Op("grun")
			for _, s := range implIn {
				h.Obs("%s", s)
			}
			for _, nd := range ns {
				h.Obs("rt %d %d", nd.name, nd.rt)
			}
			h.Obs("end")
			c02Oracle(h, total, ns)
			if len(ns) >= 2 {
				h.Nontrivial()
			}
			h.Tag(fmt.Sprintf("spec:siblings:%d", len(ns)))
			h.Tag(fmt.Sprintf("spec:dim:%d", d))
			// ---- the same declared objects on a fresh manager ----
			for _, q := range kids {
				a, b := c02Val(rts[q.id], d), c02Val(frts[q.id], d)
				if a == b {
					continue
				}
				cause := "other"
				hn, fn := c02NodeOf(m, pname, d, q.name), c02NodeOf(fresh, pname, d, q.name)
				for _, o := range kids { // which input of the division differs between the two managers?
					x, y := c02NodeOf(m, pname, d, o.name), c02NodeOf(fresh, pname, d, o.name)
					if x == nil || y == nil {
						continue
					}
					switch {
					case x.min != y.min:
						cause = "node-min"
					case x.sharedWeight != y.sharedWeight:
						cause = "node-weight"
					case x.guarantee != y.guarantee:
						cause = "node-guarantee"
					case x.request != y.request:
						cause = "node-request"
					case x.allowLentResource != y.allowLentResource:
						cause = "node-lend"
					default:
						continue
					}
					hn, fn = x, y
					break
				}
				h.Fail("C02:history-dependent-"+cause, "parent %s dim %d: %s gets %d after this history but %d on a manager built freshly from the same objects (nodes: %+v vs %+v)",
					pname, d, q.name, a, b, hn, fn)
			}
		}
	}
	return true
}

func TestVerifC02Spec(t *testing.T) {
	h := vOpen("C02")
	if h == nil {
		t.Skip("VERIF_OUT not set")
	}
	gateName := string(features.ElasticQuotaGuaranteeUsage)
	defer utilfeature.DefaultMutableFeatureGate.Set(gateName + "=false")
	n := h.N(700, 15000)
	// pinned corpus: histories (generator seed, case) known to exhibit an open finding that the random stream of
	// a given seed may not reach; they run after the random cases as cases n, n+1, ... whatever VERIF_SEED is.
	pinned := [][2]uint64{{5, 537}} // C02:guarantee-cache-stale-after-dimension-readd
	for idx := 0; idx < n+len(pinned); idx++ {
		r := h.Begin(idx)
		if r == nil {
			continue
		}
		if idx >= n {
			r = vNewRand(pinned[idx-n][0], pinned[idx-n][1])
			h.Tag("spec:pinned-corpus-case")
		}
		w := &c02World{gate: r.Chance(1, 4), scale: r.Chance(1, 3)}
		if err := utilfeature.DefaultMutableFeatureGate.Set(fmt.Sprintf("%s=%v", gateName, w.gate)); err != nil {
			t.Fatalf("feature gate: %v", err)
		}
		w.total = [3]int64{int64(r.Range(0, 100)) * 1000, int64(r.Range(0, 200)) << 30, int64(r.Range(0, 16))}
		if w.gate {
			h.Tag("spec:guarantee-gate-on")
		}
		if w.scale {
			h.Tag("spec:scale-min-on")
		}
		// ---- the tree: 1-4 top-level quotas, the first one often a parent with 1-3 children ----
		nextID := 1
		mk := func(parent int, isParent bool, dims []int) *c02D {
			q := &c02D{id: nextID, name: fmt.Sprintf("q%03d", nextID), parent: parent, isParent: isParent, present: true,
				lend: r.Intn(3), rootLabeled: r.Bool(), max: c02RLd{}}
			nextID++
			for _, d := range dims {
				q.max[d] = c02GenAmount(r, d)
			}
			c02GenMin(r, q)
			c02GenAnn(r, q)
			w.qs = append(w.qs, q)
			return q
		}
		top := r.Range(1, 4)
		for i := 0; i < top; i++ {
			dims := []int{0, 1}
			if r.Chance(1, 5) {
				dims = []int{0, 1, 2}
			}
			isP := i == 0 && r.Chance(2, 3)
			p := mk(0, isP, dims)
			if isP {
				for j := 0; j < r.Range(1, 3); j++ {
					mk(p.id, false, dims)
				}
			}
		}
		m := c02NewMgr(w)
		h.Op("step 0")
		h.Obs("step 0")
		crashed := h.Guard(func() {
			for _, q := range w.qs {
				if err := m.gqm.UpdateQuota(c02Build(w, q)); err != nil {
					t.Fatalf("UpdateQuota: %v", err)
				}
			}
			for _, q := range w.qs {
				if !q.isParent {
					var nw [3]int64
					for _, d := range q.dims() {
						nw[d] = c02GenReq(r, d)
					}
					m.setReq(q, q.req, nw)
					q.req = nw
				}
			}
		})
		if crashed {
			h.Fail("C02:panic", "building the tree panicked")
			h.End()
			continue
		}
		goOn := c02SpecCheck(h, w, m, r)

		steps := r.Range(3, 10)
		for s := 0; s < steps && !crashed && goOn; s++ {
			var present, leaves, absent []*c02D
			for _, q := range w.qs {
				if q.present {
					present = append(present, q)
					if !q.isParent {
						leaves = append(leaves, q)
					}
				} else {
					absent = append(absent, q)
				}
			}
			kind := r.Intn(12)
			var ops []func()
			apply := func(q *c02D) { // hand the quota's current declared object to the manager
				eq := c02Build(w, q)
				ops = append(ops, func() {
					if err := m.gqm.UpdateQuota(eq); err != nil {
						panic(err)
					}
				})
			}
			setReq := func(q *c02D, nw [3]int64) {
				old := q.req
				q.req = nw
				ops = append(ops, func() { m.setReq(q, old, nw) })
			}
			setUsed := func(q *c02D, nw [3]int64) {
				old := q.used
				q.used = nw
				ops = append(ops, func() { m.setUsed(q, old, nw) })
			}
			dropDim := func(q *c02D, d int) { // pods of that dimension go first, then the keys
				if !q.isParent {
					nu, nr := q.used, q.req
					nu[d], nr[d] = 0, 0
					setUsed(q, nu)
					setReq(q, nr)
				}
				if mv, ok := q.min[d]; ok && d == 2 {
					q.hadGpuMin, q.lastGpuMin = true, mv
				}
				delete(q.max, d)
				if q.min != nil {
					delete(q.min, d)
				}
				w.gateDimDropped = w.gateDimDropped || w.gate
			}
			code := kind
			switch {
			case kind <= 3 && len(present) > 0: // spec update: 1-2 changes of one quota
				q := present[r.Intn(len(present))]
				code = 1
				for c := 0; c < r.Range(1, 2); c++ {
					ds := q.dims()
					d := ds[r.Intn(len(ds))]
					switch mut := r.Intn(8); mut {
					case 0: // max value
						q.max[d] = c02GenAmount(r, d)
						if q.min != nil {
							if mv, ok := q.min[d]; ok && mv > q.max[d] {
								q.min[d] = q.max[d]
							}
						}
						h.Tag("spec:op:max-value")
					case 1: // min value (adds the key / the list when missing)
						if q.min == nil {
							q.min = c02RLd{}
						}
						q.min[d] = c02GenMinVal(r, q, d)
						h.Tag("spec:op:min-value")
					case 2, 3: // remove one key from spec.min
						if len(q.min) > 0 {
							var ks []int
							for k := range q.min {
								ks = append(ks, k)
							}
							sort.Ints(ks)
							delete(q.min, ks[r.Intn(len(ks))])
							h.Tag("spec:op:min-key-removed")
						}
					case 4: // drop spec.min / empty it
						if r.Bool() {
							q.min = nil
							h.Tag("spec:op:min-dropped")
						} else {
							q.min = c02RLd{}
							h.Tag("spec:op:min-emptied")
						}
					case 5, 6:
						c02GenAnn(r, q)
						h.Tag("spec:op:ann:" + c02AnnNames[q.annState])
					case 7:
						q.lend = r.Intn(3)
						h.Tag("spec:op:lend-label")
					}
				}
				apply(q)
			case kind == 4 || kind == 5: // request of a leaf
				code = 4
				if len(leaves) > 0 {
					q := leaves[r.Intn(len(leaves))]
					nw := q.req
					for _, d := range q.dims() {
						if r.Bool() {
							nw[d] = c02GenReq(r, d)
						}
					}
					nu := q.used
					for d := 0; d < 3; d++ {
						if nu[d] > nw[d] {
							nu[d] = nw[d]
						}
					}
					setUsed(q, nu)
					setReq(q, nw)
					h.Tag("spec:op:request")
				}
			case kind == 6: // cluster total
				old := w.total
				d := r.Intn(3)
				w.total[d] = []int64{int64(r.Range(0, 100)) * 1000, int64(r.Range(0, 200)) << 30, int64(r.Range(0, 16))}[d]
				delta := c02MkRL(c02RLd{d: w.total[d] - old[d]})
				ops = append(ops, func() { m.gqm.UpdateClusterTotalResource(delta) })
				h.Tag("spec:op:total")
			case kind == 7: // move a leaf between the root and the parent quota
				var par *c02D
				for _, q := range present {
					if q.isParent {
						par = q
					}
				}
				if par != nil && len(leaves) > 0 {
					q := leaves[r.Intn(len(leaves))]
					if q.parent == 0 {
						for d := 0; d < 3; d++ { // same max keys as the new parent
							_, pk := par.max[d]
							_, ck := q.max[d]
							if pk && !ck {
								q.max[d] = c02GenAmount(r, d)
							}
							if !pk && ck {
								dropDim(q, d)
							}
						}
						q.parent = par.id
					} else {
						q.parent = 0
					}
					apply(q)
					w.gateDelete = w.gateDelete || w.gate
					h.Tag("spec:op:reparent")
				}
			case kind == 8: // a third dimension appears on / disappears from a whole subtree
				tops := w.kids(0)
				p := tops[r.Intn(len(tops))]
				sub := append([]*c02D{p}, w.kids(p.id)...)
				if _, has := p.max[2]; !has {
					for _, q := range sub { // parent first
						q.max[2] = c02GenAmount(r, 2)
						if q.min != nil && r.Bool() {
							q.min[2] = c02GenMinVal(r, q, 2)
							if q.hadGpuMin && r.Bool() { // the same min as before the dimension went away
								q.min[2] = c02Min(q.lastGpuMin, q.max[2])
							}
						}
						apply(q)
					}
					h.Tag("spec:op:dimension-added")
				} else {
					for i := len(sub) - 1; i >= 0; i-- { // children first
						dropDim(sub[i], 2)
						apply(sub[i])
					}
					h.Tag("spec:op:dimension-removed")
				}
			case kind == 9: // used of a leaf (matters in guaranteed-usage mode)
				if len(leaves) > 0 {
					q := leaves[r.Intn(len(leaves))]
					nu := q.used
					for _, d := range q.dims() {
						if r.Bool() {
							nu[d] = r.Int63n(q.req[d] + 1)
							if d == 1 {
								nu[d] = nu[d] >> 30 << 30
							}
						}
					}
					setUsed(q, nu)
					h.Tag("spec:op:used")
				}
			default: // delete a leaf / bring a deleted one back
				code = 10
				if len(absent) > 0 && (r.Bool() || len(leaves) <= 1) {
					q := absent[r.Intn(len(absent))]
					if q.parent != 0 && !w.byID(q.parent).present {
						q.parent = 0
					}
					if q.parent != 0 { // same max keys as the parent it returns to
						par := w.byID(q.parent)
						for d := 0; d < 3; d++ {
							_, pk := par.max[d]
							_, ck := q.max[d]
							if pk && !ck {
								q.max[d] = c02GenAmount(r, d)
							}
							if !pk && ck {
								dropDim(q, d)
							}
						}
					}
					q.present = true
					apply(q)
					h.Tag("spec:op:re-add")
				} else if len(leaves) > 1 {
					q := leaves[r.Intn(len(leaves))]
					eq := c02Build(w, q)
					q.present = false
					q.req, q.used = [3]int64{}, [3]int64{}
					ops = append(ops, func() {
						if err := m.gqm.DeleteQuota(eq); err != nil {
							panic(err)
						}
					})
					w.gateDelete = w.gateDelete || w.gate
					h.Tag("spec:op:delete")
				}
			}
			crashed = h.Guard(func() {
				for _, f := range ops {
					f()
				}
			})
			h.Op("step %d", code)
			if crashed {
				h.Obs("panic")
				h.Fail("C02:panic", "step kind %d panicked", code)
				break
			}
			h.Obs("step %d", code)
			goOn = c02SpecCheck(h, w, m, r)
		}
		h.End()
	}
	h.Close("histories of 3-10 steps on a GroupQuotaManager with 1-4 top-level quotas, one of them often a parent of 1-3 leaves; ElasticQuota objects built by the harness itself " +
		"(spec.max / spec.min with all keys, one key missing, {} or nil; shared-weight annotation absent / invalid JSON / {} / all-zero / one dimension zero / one dimension missing / all non-zero / huge, " +
		"number and string quantities, either key order; lend label absent/true/false; parent label absent or explicit root); steps: 1-2 spec changes of one quota (max value, min value, min key removed, " +
		"min dropped/emptied, new annotation shape, lend label), leaf request and used changes through the real delta propagation, cluster-total change, re-parenting, a third dimension " +
		"(example.com/gpu) added to / removed from a whole subtree, delete and re-add of a leaf; min scaling on in 1/3, ElasticQuotaGuaranteeUsage on in 1/4; after every step RefreshRuntime " +
		"top-down (3 passes), one block per (parent, dimension) whose inputs are derived from the DECLARED objects only, plus a fresh manager built from the same objects; non-trivial = a level with >=2 siblings")
}
