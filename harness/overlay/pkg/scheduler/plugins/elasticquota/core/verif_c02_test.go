//go:build verif

package core

import (
	"fmt"
	"math/big"
	"sort"
	"testing"

	v1 "k8s.io/api/core/v1"
	"k8s.io/apimachinery/pkg/api/resource"

	"github.com/koordinator-sh/koordinator/apis/extension"
)

// C02 harness. Two generators share one op format (`total`, `node`*, `run`):
//  TestVerifC02Tree: quotaTree.redistribution on generated sibling sets (incl. 64-bit scale);
//  TestVerifC02Mgr : GroupQuotaManager.RefreshRuntime on 2-3 level trees; every calculator
//                    (one per parent, per dimension) is emitted as one block whose inputs are the
//                    quotaNodes it holds and whose total is the total it was given.

type c02Node struct {
	name                       int
	w, req, min, guarantee, rt int64
	lend                       bool
}

func c02EffMin(n *c02Node) int64 {
	if n.guarantee > n.min {
		return n.guarantee
	}
	return n.min
}

func c02Min(a, b int64) int64 {
	if a < b {
		return a
	}
	return b
}
func c02Max(a, b int64) int64 {
	if a > b {
		return a
	}
	return b
}

// c02Oracle evaluates the statement of C02 on one sibling set and the implementation's runtimes.
func c02Oracle(h *vHarness, total int64, ns []*c02Node) {
	sumMin, sumRt, sumInit := new(big.Int), new(big.Int), new(big.Int)
	for _, n := range ns {
		m := c02EffMin(n)
		lo, hi := c02Min(n.req, m), c02Max(n.req, m)
		if n.rt < lo || n.rt > hi {
			h.Fail("C02:runtime-bounds", "node %d rt=%d outside [%d,%d] (req=%d min'=%d)", n.name, n.rt, lo, hi, n.req, m)
		}
		if n.req <= m {
			want := m
			if n.lend {
				want = n.req
			}
			if n.rt != want {
				h.Fail("C02:lend-rule", "node %d req<=min' rt=%d want %d (lend=%v)", n.name, n.rt, want, n.lend)
			}
			sumInit.Add(sumInit, big.NewInt(want))
		} else {
			sumInit.Add(sumInit, big.NewInt(m))
		}
		sumMin.Add(sumMin, big.NewInt(m))
		sumRt.Add(sumRt, big.NewInt(n.rt))
	}
	T := big.NewInt(total)
	if sumMin.Cmp(T) <= 0 && sumRt.Cmp(T) > 0 {
		h.Fail("C02:sum-exceeds-total", "sum rt %s > total %d although sum min' %s fits", sumRt, total, sumMin)
	}
	// work conservation / exactness: if capacity is left after phase 1, then either everything was
	// handed out or every positive-weight sibling is satisfied
	if sumInit.Cmp(T) <= 0 {
		left := new(big.Int).Sub(T, sumRt)
		if left.Sign() < 0 {
			h.Fail("C02:unit-created", "sum rt %s exceeds total %d", sumRt, total)
		}
		if left.Sign() > 0 {
			for _, n := range ns {
				if n.w > 0 && n.rt < n.req && n.req > c02EffMin(n) {
					h.Fail("C02:not-work-conserving", "left %s but node %d (w=%d) has rt=%d < req=%d", left, n.name, n.w, n.rt, n.req)
					break
				}
			}
		}
	}
	// zero-weight siblings get nothing beyond min'
	for _, n := range ns {
		if n.w <= 0 && n.req > c02EffMin(n) && n.rt != c02EffMin(n) {
			h.Fail("C02:zero-weight-got-share", "node %d weight %d rt=%d min'=%d", n.name, n.w, n.rt, c02EffMin(n))
		}
	}
	// proportionality among siblings still unsatisfied at the end (they took part in every round)
	var uns []*c02Node
	for _, n := range ns {
		if n.w > 0 && n.req > c02EffMin(n) && n.rt < n.req {
			uns = append(uns, n)
		}
	}
	rounds := int64(len(ns))
	for i := 0; i < len(uns); i++ {
		for j := i + 1; j < len(uns); j++ {
			a, b := uns[i], uns[j]
			ia := big.NewInt(a.rt - c02EffMin(a))
			ib := big.NewInt(b.rt - c02EffMin(b))
			l := new(big.Int).Mul(ia, big.NewInt(b.w))
			r := new(big.Int).Mul(ib, big.NewInt(a.w))
			d := new(big.Int).Sub(l, r)
			d.Abs(d)
			bound := new(big.Int).Mul(big.NewInt(rounds), new(big.Int).Add(big.NewInt(a.w), big.NewInt(b.w)))
			if d.Cmp(bound) > 0 {
				h.Fail("C02:not-proportional", "nodes %d,%d increments %s,%s weights %d,%d", a.name, b.name, ia, ib, a.w, b.w)
			}
		}
	}
}

func c02Emit(h *vHarness, total int64, ns []*c02Node) {
	sort.Slice(ns, func(i, j int) bool { return ns[i].name < ns[j].name })
	h.Op("total %d", total)
	for _, n := range ns {
		h.Op("node %d %d %d %d %d %d", n.name, n.w, n.req, n.min, n.guarantee, vB(n.lend))
	}
	h.Op("run")
	for _, n := range ns {
		h.Obs("rt %d %d", n.name, n.rt)
	}
	h.Obs("end")
}

func c02Amount(r *vRand, scale int) int64 {
	switch scale {
	case 0:
		return int64(r.Range(0, 6))
	case 1:
		return int64(r.Range(0, 20000))
	case 2:
		return r.Int63n(int64(1) << uint(r.Range(30, 52)))
	default:
		// byte-scale memory as operators write it: k GiB / MiB multiples and values hugging the 2^31 / 2^32
		// / 2^33 boundaries, where 32-bit fast paths and w*T products around 2^63 would go wrong
		switch r.Intn(4) {
		case 0:
			return int64(r.Range(1, 16)) << 30
		case 1:
			return int64(r.Range(1, 64)) << uint(r.Range(26, 30))
		case 2:
			return (int64(1) << uint(r.Range(31, 33))) + int64(r.Range(-3, 3))
		default:
			return (int64(r.Range(1, 8)) << 30) + int64(r.Range(-2, 2))
		}
	}
}

func c02RunTree(r *vRand, total int64, ns []*c02Node) map[int]int64 {
	qt := NewQuotaTree()
	for _, i := range r.Perm(len(ns)) {
		n := ns[i]
		qt.insert(fmt.Sprintf("q%03d", n.name), n.w, n.req, n.min, n.guarantee, n.lend)
	}
	qt.redistribution(total)
	out := map[int]int64{}
	for _, n := range ns {
		_, qn := qt.find(fmt.Sprintf("q%03d", n.name))
		out[n.name] = qn.runtimeQuota
	}
	return out
}

func TestVerifC02Tree(t *testing.T) {
	h := vOpen("C02")
	if h == nil {
		t.Skip("VERIF_OUT not set")
	}
	n := h.N(6000, 150000)
	for idx := 0; idx < n; idx++ {
		r := h.Begin(idx)
		if r == nil {
			continue
		}
		scale := r.Intn(4)
		cnt := r.Range(1, 6)
		if r.Chance(1, 10) {
			cnt = r.Range(7, 14)
		}
		if r.Chance(1, 40) {
			cnt = 0
		}
		ns := make([]*c02Node, cnt)
		var sumMin, sumReq int64
		for i := range ns {
			nd := &c02Node{name: i + 1, req: c02Amount(r, scale), min: c02Amount(r, scale), lend: r.Chance(2, 3)}
			switch r.Intn(6) {
			case 0:
				nd.w = 0
			case 1:
				nd.w = c02Amount(r, scale)
			default:
				nd.w = int64(r.Range(1, 10))
			}
			if r.Chance(1, 6) {
				nd.guarantee = c02Amount(r, scale)
			}
			if r.Chance(1, 4) { // request well above min: takes part in sharing
				nd.req = nd.min + c02Amount(r, scale) + 1
			}
			ns[i] = nd
			sumMin += c02EffMin(nd)
			sumReq += c02Max(nd.req, c02EffMin(nd))
		}
		var total int64
		switch r.Intn(6) {
		case 0: // below the sum of minimums
			total = r.Int63n(sumMin + 1)
		case 1: // exactly the minimums
			total = sumMin
		case 2: // more than everybody asks for
			total = sumReq + c02Amount(r, scale)
		case 3:
			total = 0
		default: // between: the interesting sharing zone
			total = sumMin + r.Int63n(c02Max(sumReq-sumMin, 0)+1)
		}
		h.Tag(fmt.Sprintf("scale:%d", scale))
		h.Tag(fmt.Sprintf("n:%d", cnt))
		res := c02RunTree(r, total, ns)
		for k := 0; k < 2; k++ { // map iteration order / insertion order must not matter
			again := c02RunTree(r, total, ns)
			for name, v := range res {
				if again[name] != v {
					h.Fail("C02:order-dependent", "node %d runtime %d vs %d on a second run", name, v, again[name])
				}
			}
		}
		adjusting := 0
		for _, nd := range ns {
			nd.rt = res[nd.name]
			if nd.req > c02EffMin(nd) {
				adjusting++
			}
		}
		if adjusting >= 2 && total > sumMin {
			h.Nontrivial()
			h.Tag("sharing")
		}
		c02Emit(h, total, ns)
		c02Oracle(h, total, ns)
		h.End()
	}
	h.Close("generated sibling sets (0-14 nodes; values tiny/medium/2^30..2^52/GiB-multiples and 2^31..2^33 boundaries; weights 0, small, value-scale; guarantee sometimes; " +
		"total below/at/between/above the minimums and requests); each set run on 3 independently built trees; non-trivial = >=2 siblings compete for capacity above the minimums")
}

// ---- exhaustive small scope (thorough tier): every sibling set with <= 3 siblings over a small value grid ----

func TestVerifC02Exhaustive(t *testing.T) {
	h := vOpen("C02")
	if h == nil {
		t.Skip("VERIF_OUT not set")
	}
	vals := []int64{0, 1, 3}
	weights := []int64{0, 1, 2}
	type cfg struct {
		w, req, min int64
		lend        bool
	}
	var one []cfg
	for _, w := range weights {
		for _, rq := range []int64{0, 2, 5} {
			for _, m := range vals {
				for _, l := range []bool{true, false} {
					one = append(one, cfg{w, rq, m, l})
				}
			}
		}
	}
	idx := 0
	emit := func(total int64, cs []cfg) {
		r := h.Begin(idx)
		idx++
		if r == nil {
			return
		}
		ns := make([]*c02Node, len(cs))
		for i, c := range cs {
			ns[i] = &c02Node{name: i + 1, w: c.w, req: c.req, min: c.min, lend: c.lend}
		}
		res := c02RunTree(r, total, ns)
		for _, nd := range ns {
			nd.rt = res[nd.name]
		}
		if len(cs) >= 2 {
			h.Nontrivial()
		}
		c02Emit(h, total, ns)
		c02Oracle(h, total, ns)
		h.End()
	}
	for n := 1; n <= 3; n++ {
		var rec func(cs []cfg)
		rec = func(cs []cfg) {
			if len(cs) == n {
				for total := int64(0); total <= 9; total++ {
					emit(total, cs)
				}
				return
			}
			for _, c := range one {
				rec(append(cs, c))
			}
		}
		rec(nil)
	}
	h.Extra("exhaustive", fmt.Sprintf("all sibling sets with 1..3 siblings over weight {0,1,2} x request {0,2,5} x min {0,1,3} x lend {t,f}, totals 0..9: %d cases", idx))
	h.Close("exhaustive enumeration of every sibling set with 1-3 siblings over weight {0,1,2} x request {0,2,5} x min {0,1,3} x lend, totals 0..9; non-trivial = at least 2 siblings")
}

// ---- min-quota scaling: ScaleMinQuotaManager.update / remove / getScaledMinQuota ----

func TestVerifC02ScaleMin(t *testing.T) {
	h := vOpen("C02")
	if h == nil {
		t.Skip("VERIF_OUT not set")
	}
	n := h.N(1500, 40000)
	for idx := 0; idx < n; idx++ {
		r := h.Begin(idx)
		if r == nil {
			continue
		}
		res := v1.ResourceMemory
		if r.Bool() {
			res = v1.ResourceCPU
		}
		mk := func(v int64) v1.ResourceList { return v1.ResourceList{res: createQuantity(v, res)} }
		scale := r.Intn(4)
		sm := NewScaleMinQuotaManager()
		type child struct {
			min    int64
			enable bool
		}
		live := map[int]child{}
		nops := r.Range(3, 14)
		gets := 0
		for o := 0; o < nops; o++ {
			c := r.Range(1, 5)
			switch k := r.Intn(10); {
			case k < 5:
				min := c02Amount(r, scale)
				en := r.Chance(3, 4)
				sm.update("p", fmt.Sprintf("q%d", c), mk(min), en)
				live[c] = child{min, en}
				h.Op("sm upd %d %d %d", c, min, vB(en))
			case k < 6:
				sm.remove("p", fmt.Sprintf("q%d", c))
				delete(live, c)
				h.Op("sm rem %d", c)
			default:
				var sumE, sumD int64
				for _, ch := range live {
					if ch.enable {
						sumE += ch.min
					} else {
						sumD += ch.min
					}
				}
				var total int64
				switch r.Intn(5) {
				case 0:
					total = sumE + sumD + c02Amount(r, scale) // fits
				case 1:
					total = r.Int63n(sumD + 1) // not even the non-scalable minimums fit
				case 2:
					total = sumE + sumD // exactly fits
				default:
					total = sumD + r.Int63n(sumE+1) // scaling zone
				}
				ok, out := sm.getScaledMinQuota(mk(total), "p", fmt.Sprintf("q%d", c))
				e := sm.enableScaleSubsSumMinQuotaMap["p"][res]
				d := sm.disableScaleSubsSumMinQuotaMap["p"][res]
				h.Op("sm get %d %d", total, c)
				got := int64(-1)
				if !ok {
					h.Obs("scaled no sums %d %d", getQuantityValue(e, res), getQuantityValue(d, res))
				} else {
					q := out[res]
					got = getQuantityValue(q, res)
					h.Obs("scaled %d sums %d %d", got, getQuantityValue(e, res), getQuantityValue(d, res))
				}
				gets++
				// ---- oracle, from the live children only ----
				ch, known := live[c]
				if getQuantityValue(e, res) != sumE || getQuantityValue(d, res) != sumD {
					h.Fail("C02:scalemin-sums-drift", "recorded sums (%d,%d) != sums of the live children (%d,%d)",
						getQuantityValue(e, res), getQuantityValue(d, res), sumE, sumD)
				}
				if !known || !ch.enable {
					if ok {
						h.Fail("C02:scalemin-scaled-unscalable", "child %d (known=%v) must not be scaled", c, known)
					}
					break
				}
				if !ok {
					h.Fail("C02:scalemin-not-answered", "scalable child %d got no answer", c)
					break
				}
				if total >= sumE+sumD {
					if got != ch.min {
						h.Fail("C02:scalemin-changed-although-fits", "minimums fit (total %d >= %d) but min %d became %d", total, sumE+sumD, ch.min, got)
					}
					h.Tag("scalemin:fits")
				} else {
					avail := total - sumD
					tol := ch.min>>48 + 1 // float64 relative error, generous
					if got < 0 || got > ch.min+tol {
						h.Fail("C02:scalemin-above-original", "scaled min %d outside [0, original %d]", got, ch.min)
					}
					if avail <= 0 && got != 0 {
						h.Fail("C02:scalemin-nothing-left", "nothing left for scalable children (avail %d) but scaled min is %d", avail, got)
					}
					if avail > 0 {
						// all scalable siblings together: sum of the exact shares avail*m/E <= avail; float64 may be off by a relative 2^-48
						sum := new(big.Int)
						for cc, c2 := range live {
							if !c2.enable {
								continue
							}
							_, o2 := sm.getScaledMinQuota(mk(total), "p", fmt.Sprintf("q%d", cc))
							q2 := o2[res]
							sum.Add(sum, big.NewInt(getQuantityValue(q2, res)))
						}
						lim := new(big.Int).Add(big.NewInt(avail), big.NewInt(avail>>44+int64(len(live))+1))
						if sum.Cmp(lim) > 0 {
							h.Fail("C02:scalemin-sum-exceeds-left", "scaled minimums sum to %s > what is left %d", sum, avail)
						}
						// exact share within float tolerance
						ex := new(big.Int).Mul(big.NewInt(avail), big.NewInt(ch.min))
						ex.Div(ex, big.NewInt(sumE))
						diff := new(big.Int).Sub(big.NewInt(got), ex)
						diff.Abs(diff)
						if diff.Cmp(big.NewInt(ex.Int64()>>44+1)) > 0 {
							h.Fail("C02:scalemin-share-wrong", "scaled min %d, exact share %s (avail %d, min %d, scalable sum %d)", got, ex, avail, ch.min, sumE)
						}
						h.Tag("scalemin:scaled")
						h.Nontrivial()
					} else {
						h.Tag("scalemin:nothing-left")
					}
				}
			}
		}
		h.End()
	}
	h.Close("histories of 3-14 ScaleMinQuotaManager.update/remove/getScaledMinQuota calls on one parent with <=5 children (cpu in milli or memory; " +
		"tiny/medium/2^30..2^52/GiB values; scalable and non-scalable children; totals that fit, exactly fit, fall in the scaling zone, or do not even cover the non-scalable minimums); " +
		"non-trivial = at least one query in the scaling zone")
}

// ---- multi-level: GroupQuotaManager.RefreshRuntime ----

func c02RL(cpu, mem int64) v1.ResourceList {
	return v1.ResourceList{
		v1.ResourceCPU:    *resource.NewMilliQuantity(cpu, resource.DecimalSI),
		v1.ResourceMemory: *resource.NewQuantity(mem, resource.BinarySI),
	}
}

type c02Q struct {
	id       int
	name     string
	parent   string
	isParent bool
	children []*c02Q
}

func TestVerifC02Mgr(t *testing.T) {
	h := vOpen("C02")
	if h == nil {
		t.Skip("VERIF_OUT not set")
	}
	n := h.N(400, 8000)
	for idx := 0; idx < n; idx++ {
		r := h.Begin(idx)
		if r == nil {
			continue
		}
		gqm := NewGroupQuotaManagerForTest()
		scaleMin := r.Chance(1, 3)
		if scaleMin {
			gqm.setScaleMinQuotaEnabled(true)
			h.Tag("mgr:scale-min-on")
		}
		totalCPU, totalMem := int64(r.Range(0, 200))*1000, int64(r.Range(0, 400))<<30
		gqm.UpdateClusterTotalResource(c02RL(totalCPU, totalMem))
		// build a random 2-3 level tree
		var all []*c02Q
		byName := map[string]*c02Q{}
		specs := map[string]*c02Spec{}
		nextID := 1
		mk := func(parent *c02Q, isParent bool) *c02Q {
			q := &c02Q{id: nextID, name: fmt.Sprintf("q%03d", nextID), parent: extension.RootQuotaName, isParent: isParent}
			nextID++
			if parent != nil {
				q.parent = parent.name
			}
			all = append(all, q)
			byName[q.name] = q
			return q
		}
		top := r.Range(1, 4)
		for i := 0; i < top; i++ {
			p := mk(nil, r.Chance(2, 3))
			if p.isParent {
				for j := 0; j < r.Range(1, 4); j++ {
					c := mk(p, r.Chance(1, 3))
					if c.isParent {
						for k := 0; k < r.Range(1, 3); k++ {
							mk(c, false)
						}
					}
				}
			}
		}
		apply := func(q *c02Q) {
			sp := specs[q.name]
			eq := CreateQuota(q.name, q.parent, sp.maxC, sp.maxM, sp.minC, sp.minM, sp.lend, q.isParent)
			if sp.weight != "" {
				eq.Annotations[extension.AnnotationSharedWeight] = sp.weight
			}
			if err := gqm.UpdateQuota(eq); err != nil {
				t.Fatalf("UpdateQuota: %v", err)
			}
		}
		for _, q := range all {
			sp := &c02Spec{maxC: int64(r.Range(1, 150)), maxM: int64(r.Range(1, 300)) << 30, minC: int64(r.Range(0, 40)), minM: int64(r.Range(0, 80)) << 30, lend: r.Chance(2, 3)}
			if sp.minC > sp.maxC {
				sp.minC = sp.maxC
			}
			if sp.minM > sp.maxM {
				sp.minM = sp.maxM
			}
			if r.Chance(1, 3) {
				sp.hasW, sp.wC, sp.wM = true, int64(r.Range(0, 20)), int64(r.Range(0, 20))<<30
				if r.Chance(1, 6) { // an explicit zero in one dimension
					if r.Bool() {
						sp.wC = 0
					} else {
						sp.wM = 0
					}
				}
				sp.weight = fmt.Sprintf("{\"cpu\":%d, \"memory\":\"%d\"}", sp.wC, sp.wM)
			}
			specs[q.name] = sp
			apply(q)
		}
		curReq := map[string][2]int64{}
		phases := r.Range(1, 4)
		for ph := 0; ph < phases; ph++ {
			// (re)set leaf requests with milli-granular CPU; later phases move the cluster total, nudge one
			// dimension of one request by a sub-core amount, or move a quota under another parent
			for _, q := range all {
				if q.isParent {
					continue
				}
				old := curReq[q.name]
				nw := old
				switch {
				case ph == 0 || r.Chance(1, 3):
					nw = [2]int64{int64(r.Range(0, 120000)), int64(r.Range(0, 250)) << 30}
				case r.Chance(1, 2): // cpu only, by less than a core
					nw[0] = old[0] + int64(r.Range(-900, 900))
					if nw[0] < 0 {
						nw[0] = 0
					}
				}
				if nw != old {
					delta := c02RL(nw[0]-old[0], nw[1]-old[1])
					gqm.updateGroupDeltaRequestNoLock(q.name, delta, delta, 0)
					curReq[q.name] = nw
				}
			}
			if ph > 0 && r.Bool() {
				gqm.UpdateClusterTotalResource(c02RL(int64(r.Range(-20, 40))*1000, int64(r.Range(-20, 40))<<30))
			}
			if ph > 0 && r.Chance(1, 2) { // move a childless quota under another parent (or the root)
				var cands []*c02Q
				for _, q := range all {
					hasKids := false
					for _, o := range all {
						if o.parent == q.name {
							hasKids = true
						}
					}
					if !hasKids {
						cands = append(cands, q)
					}
				}
				if len(cands) > 0 {
					q := cands[r.Intn(len(cands))]
					targets := []string{extension.RootQuotaName}
					for _, o := range all {
						if o.isParent && o.name != q.name {
							targets = append(targets, o.name)
						}
					}
					np := targets[r.Intn(len(targets))]
					if np != q.parent {
						q.parent = np
						apply(q)
						h.Tag("mgr:reparent")
					}
				}
			}
			// refresh everything, parents before children, in a random sibling order; twice, so that the scaled
			// minimums of all siblings are in place before the runtimes are read
			for pass := 0; pass < 2; pass++ {
				order := r.Perm(len(all))
				sort.SliceStable(order, func(i, j int) bool { return depthOf(all[order[i]], byName) < depthOf(all[order[j]], byName) })
				for _, i := range order {
					gqm.RefreshRuntime(all[i].name)
				}
			}
			// one block per parent and dimension, INPUTS taken from the quota objects (not from the calculator's
			// own nodes, which are cross-checked against them)
			parents := []string{extension.RootQuotaName}
			for _, q := range all {
				if q.isParent {
					parents = append(parents, q.name)
				}
			}
			for _, pn := range parents {
				var kids []*c02Q
				for _, q := range all {
					if q.parent == pn {
						kids = append(kids, q)
					}
				}
				if len(kids) == 0 {
					continue
				}
				calc := gqm.runtimeQuotaCalculatorMap[pn]
				for ri, res := range []v1.ResourceName{v1.ResourceCPU, v1.ResourceMemory} {
					var total int64
					if pn == extension.RootQuotaName {
						tq := gqm.totalResourceExceptSystemAndDefaultUsed[res]
						total = getQuantityValue(tq, res)
					} else {
						pr := gqm.quotaInfoMap[pn].CalculateInfo.Runtime[res]
						total = getQuantityValue(pr, res)
					}
					var ns []*c02Node
					var sumMinE int64
					var glueFails [][2]string // reported after the block's ops are on record
					glue := func(fp, format string, a ...interface{}) { glueFails = append(glueFails, [2]string{fp, fmt.Sprintf(format, a...)}) }
					for _, q := range kids {
						qi := gqm.quotaInfoMap[q.name]
						lr := qi.getLimitRequestNoLock()[res]
						w := qi.CalculateInfo.SharedWeight[res]
						am := qi.CalculateInfo.AutoScaleMin[res]
						gq := qi.CalculateInfo.Guaranteed[res]
						rtq := qi.CalculateInfo.Runtime[res]
						// INPUTS of the oracle and of the model: what the harness declared on the object (weight annotation /
						// max default, lend label, min, leaf requests), cross-checked against what the manager parsed
						sp := specs[q.name]
						nd := &c02Node{name: q.id, w: sp.declWeight(ri), req: c02MgrLimitReq(q, all, specs, curReq, ri), min: getQuantityValue(am, res),
							guarantee: 0, lend: sp.lend, rt: getQuantityValue(rtq, res)}
						if pw := getQuantityValue(w, res); pw != nd.w {
							glue("C02:glue-weight", "quota %s/%s: declared shared weight reads %d (annotation %q, max %d), the manager uses %d", q.name, res, nd.w, sp.weight, sp.declMax(ri), pw)
						}
						if pr := getQuantityValue(lr, res); pr != nd.req {
							glue("C02:glue-request", "quota %s/%s: declared-derived limited request %d, the manager holds %d", q.name, res, nd.req, pr)
						}
						if qi.AllowLentResource != sp.lend {
							glue("C02:glue-lend", "quota %s: lend label %v, the manager holds %v", q.name, sp.lend, qi.AllowLentResource)
						}
						if pg := getQuantityValue(gq, res); pg != 0 {
							glue("C02:glue-guarantee", "quota %s/%s: guaranteed-usage mode is off but the manager holds guarantee %d", q.name, res, pg)
						}
						if om := qi.CalculateInfo.Min[res]; getQuantityValue(om, res) != sp.declMin(ri) {
							glue("C02:glue-min", "quota %s/%s: declared min %d, the manager holds %d", q.name, res, sp.declMin(ri), getQuantityValue(om, res))
						}
						ns = append(ns, nd)
						sumMinE += sp.declMin(ri)
						// NOTE: the calculator's own node may lag behind the quota object in ways that cannot change the
						// result (a no-lend quota whose request was raised to its min keeps the old request in the node:
						// both are <= min, so the runtime is min either way).  The property is about the RESULT, so the
						// inputs come from the quota objects and only the runtimes are compared.
						if calc != nil && calc.quotaTree[res] != nil {
							if ok, qn := calc.quotaTree[res].find(q.name); ok && (qn.request != nd.req || qn.min != nd.min) {
								h.Tag("mgr:calculator-node-lags")
							}
						}
					}
					// scaled minimums: only when the children's minimums do not fit may a minimum differ from the declared one
					for _, q := range kids {
						qi := gqm.quotaInfoMap[q.name]
						am := qi.CalculateInfo.AutoScaleMin[res]
						o, a := specs[q.name].declMin(ri), getQuantityValue(am, res)
						if !scaleMin || total >= sumMinE {
							if a != o {
								glue("C02:mgr-scaled-min-wrong", "parent %s/%s: minimums fit (sum %d <= total %d, scaling on=%v) but child %s min %d became %d", pn, res, sumMinE, total, scaleMin, q.name, o, a)
							}
						} else if total > 0 && sumMinE > 0 {
							ex := new(big.Int).Mul(big.NewInt(total), big.NewInt(o))
							ex.Div(ex, big.NewInt(sumMinE))
							d := new(big.Int).Sub(big.NewInt(a), ex)
							d.Abs(d)
							if d.Cmp(big.NewInt(ex.Int64()>>44+1)) > 0 {
								glue("C02:mgr-scaled-min-wrong", "parent %s/%s: total %d < sum of minimums %d: child %s min %d scaled to %d, exact share %s", pn, res, total, sumMinE, q.name, o, a, ex)
							}
							h.Tag("mgr:min-scaled")
						}
					}
					if len(ns) >= 2 {
						h.Nontrivial()
					}
					h.Tag(fmt.Sprintf("level-siblings:%d", len(ns)))
					c02Emit(h, total, ns)
					for _, g := range glueFails {
						h.Fail(g[0], "%s", g[1])
					}
					c02Oracle(h, total, ns)
				}
			}
		}
		h.End()
	}
	h.Close("GroupQuotaManager with a random 2-3 level quota tree (1-4 top quotas, children, grandchildren; min<=max; random shared weights, lend flags; min scaling on in 1/3), " +
		"leaf requests with milli-granular CPU set through delta propagation, 1-4 phases with request changes (incl. sub-core cpu-only nudges), cluster-total changes and re-parenting, " +
		"RefreshRuntime on every quota top-down (two passes); one block per (parent, dimension) whose inputs (shared weight from the annotation text / max default incl. explicit zeros, " +
		"lend flag, min, request derived bottom-up from the leaf requests handed in) come from what the harness DECLARED, cross-checked against the manager's parsed fields (C02:glue-*); " +
		"non-trivial = a level with >=2 siblings")
}

type c02Spec struct {
	maxC, maxM, minC, minM int64 // cpu in cores, memory in bytes, as handed to CreateQuota
	lend                   bool
	weight                 string
	hasW                   bool
	wC, wM                 int64 // the annotation's entries (cpu in cores)
}

// what the object DECLARES, per dimension index (0 = cpu in milli, 1 = memory in bytes)
func (sp *c02Spec) declMax(i int) int64 { return [2]int64{sp.maxC * 1000, sp.maxM}[i] }
func (sp *c02Spec) declMin(i int) int64 { return [2]int64{sp.minC * 1000, sp.minM}[i] }

// shared weight: the annotation as a whole unless it is all-zero, else max (CreateQuota's default annotation
// spells out max)
func (sp *c02Spec) declWeight(i int) int64 {
	if sp.hasW && (sp.wC != 0 || sp.wM != 0) {
		return [2]int64{sp.wC * 1000, sp.wM}[i]
	}
	return sp.declMax(i)
}

// c02MgrLimitReq: what a quota asks its parent for, from the leaf requests the harness handed in:
// children's limited requests summed (a leaf: its own), raised to min when it does not lend, capped by max.
func c02MgrLimitReq(q *c02Q, all []*c02Q, specs map[string]*c02Spec, cur map[string][2]int64, i int) int64 {
	var rq int64
	if !q.isParent {
		rq = cur[q.name][i]
	} else {
		for _, o := range all {
			if o.parent == q.name {
				rq += c02MgrLimitReq(o, all, specs, cur, i)
			}
		}
	}
	sp := specs[q.name]
	if !sp.lend && rq < sp.declMin(i) {
		rq = sp.declMin(i)
	}
	if rq > sp.declMax(i) {
		rq = sp.declMax(i)
	}
	return rq
}

func depthOf(q *c02Q, byName map[string]*c02Q) int {
	d := 0
	for q != nil && q.parent != extension.RootQuotaName {
		q = byName[q.parent]
		d++
	}
	return d
}
