//go:build verif

package core

import (
	"fmt"
	"runtime"
	"sort"
	"strings"
	"sync"
	"sync/atomic"
	"testing"
	"time"

	v1 "k8s.io/api/core/v1"
	"k8s.io/apimachinery/pkg/api/resource"
	metav1 "k8s.io/apimachinery/pkg/apis/meta/v1"
	k8sfeature "k8s.io/apiserver/pkg/util/feature"

	"github.com/koordinator-sh/koordinator/apis/extension"
	"github.com/koordinator-sh/koordinator/apis/thirdparty/scheduler-plugins/pkg/apis/scheduling/v1alpha1"
	"github.com/koordinator-sh/koordinator/pkg/features"
	utilfeature "github.com/koordinator-sh/koordinator/pkg/util/feature"
)

// C01 harness: one case = one history of quota / pod operations on a real GroupQuotaManager
// (no system/default quota).  After EVERY operation the aggregates of every quota (GetQuotaSummaries(true)
// + the root QuotaInfo) are emitted, and (strict histories) re-derived from scratch by c01Oracle.
// Names: 1 = root quota, >= 2 ordinary quotas; pods are small ints.  Dimension 0 = cpu (milli), 1 = memory (bytes).

const c01Root = 1

func c01QName(i int) string {
	if i == c01Root {
		return extension.RootQuotaName
	}
	return fmt.Sprintf("c01q%02d", i)
}

func c01QID(name string) int {
	if name == extension.RootQuotaName {
		return c01Root
	}
	var i int
	if _, err := fmt.Sscanf(name, "c01q%02d", &i); err != nil {
		return 0
	}
	return i
}

func c01RL(v [2]int64) v1.ResourceList {
	return v1.ResourceList{
		v1.ResourceCPU:    *resource.NewMilliQuantity(v[0], resource.DecimalSI),
		v1.ResourceMemory: *resource.NewQuantity(v[1], resource.BinarySI),
	}
}

// c01Val reads one dimension with "missing = 0".
func c01Val(rl v1.ResourceList, k int) int64 {
	if k == 0 {
		if q, ok := rl[v1.ResourceCPU]; ok {
			return q.MilliValue()
		}
		return 0
	}
	if q, ok := rl[v1.ResourceMemory]; ok {
		return q.Value()
	}
	return 0
}

func c01MaxVal(rl v1.ResourceList, k int) int64 {
	name := v1.ResourceCPU
	if k == 1 {
		name = v1.ResourceMemory
	}
	if _, ok := rl[name]; !ok {
		return -1
	}
	return c01Val(rl, k)
}

type c01Spec struct {
	name, parent   int
	isParent, lend bool
	max, min       [2]int64
	weight         int // 0: default (= max), else an explicit shared weight
}

func c01MkQuota(sp *c01Spec) *v1alpha1.ElasticQuota {
	q := &v1alpha1.ElasticQuota{
		ObjectMeta: metav1.ObjectMeta{Name: c01QName(sp.name), Annotations: map[string]string{}, Labels: map[string]string{}},
		Spec:       v1alpha1.ElasticQuotaSpec{Max: c01RL(sp.max), Min: c01RL(sp.min)},
	}
	q.Labels[extension.LabelQuotaParent] = c01QName(sp.parent)
	q.Labels[extension.LabelAllowLentResource] = fmt.Sprint(sp.lend)
	q.Labels[extension.LabelQuotaIsParent] = fmt.Sprint(sp.isParent)
	if sp.weight > 0 {
		q.Annotations[extension.AnnotationSharedWeight] = fmt.Sprintf("{\"cpu\":%d, \"memory\":\"%dMi\"}", sp.weight, sp.weight)
	}
	return q
}

// one delivered version of a pod object
type c01PV struct {
	id                  int
	req                 [2]int64
	np, node, term, del bool
	shape               int
	obj                 *v1.Pod
}

func c01MkPod(pv *c01PV) *v1.Pod {
	p := &v1.Pod{ObjectMeta: metav1.ObjectMeta{Namespace: "ns", Name: fmt.Sprintf("p%02d", pv.id), Labels: map[string]string{}}}
	ctr := func(v [2]int64) v1.Container {
		return v1.Container{Resources: v1.ResourceRequirements{Requests: c01RL(v)}}
	}
	switch pv.shape {
	case 1: // two containers
		a := [2]int64{pv.req[0] / 2, pv.req[1] / 4}
		b := [2]int64{pv.req[0] - a[0], pv.req[1] - a[1]}
		p.Spec.Containers = []v1.Container{ctr(a), ctr(b)}
	case 2: // an init container smaller than the sum
		p.Spec.Containers = []v1.Container{ctr(pv.req)}
		p.Spec.InitContainers = []v1.Container{ctr([2]int64{pv.req[0] / 2, pv.req[1]})}
	default:
		p.Spec.Containers = []v1.Container{ctr(pv.req)}
	}
	if pv.np {
		p.Labels[extension.LabelPreemptible] = "false"
	}
	if pv.node {
		p.Spec.NodeName = "node-1"
	}
	if pv.term {
		p.Status.Phase = v1.PodSucceeded
	} else {
		p.Status.Phase = v1.PodRunning
	}
	if pv.del {
		ts := metav1.NewTime(time.Unix(1000, 0))
		p.DeletionTimestamp = &ts
	}
	return p
}

type c01Pod struct {
	id     int
	quota  int // quota the informer's object names (0: not delivered / gone)
	alive  bool
	cur    *c01PV
	stale  []*c01PV
	member bool // strict histories: expected PodCache membership in `quota`
}

type c01World struct {
	h      *vHarness
	r      *vRand
	gqm    *GroupQuotaManager
	gate   bool
	strict bool
	specs  map[int]*c01Spec
	pods   map[int]*c01Pod
	nextQ  int
	nextP  int
	total  [2]int64
	failed bool
	limHit bool
	// modelStrict is fixed at the start of the case (the driver is told once)
	modelStrict bool
	// conc != nil while the scripts of a concurrent batch are being generated: the pod-level op* functions then
	// emit their op line and do their bookkeeping as usual, but the call itself is deferred (appended to the
	// current script) and no observation is taken.
	conc *c01Conc
	// atQuiescence: the oracle runs at the end of a concurrent batch (fingerprints get the suffix "@conc")
	atQuiescence bool
	// scale: the manager was built with min-quota scaling on (setScaleMinQuotaEnabled(true) before any quota exists, as the
	// plugin does by default: ElasticQuotaArgs.EnableMinQuotaScale); RefreshRuntime then lowers CalculateInfo.AutoScaleMin
	// below the declared min when the siblings' summed min exceeds what their parent can hand out.  The property's request
	// floor of a non-lending group is the DECLARED min, so nothing the oracle / the model expect depends on this flag.
	scale bool
	// the siblings created by scaleScenario (the groups whose summed min the cluster total is moved around)
	scaleSibs []int
}

type c01Conc struct {
	script []func()
}

// guard runs one call of the implementation (h.Guard) or, inside a concurrent batch, defers it to the pod's script.
func (w *c01World) guard(f func()) bool {
	if w.conc != nil {
		w.conc.script = append(w.conc.script, f)
		return false
	}
	return w.h.Guard(f)
}

func (w *c01World) ign(pv *c01PV) bool { return w.gate && pv.del }

func (w *c01World) podToks(pv *c01PV) string {
	return fmt.Sprintf("%d %d %d %d %d %d %d", pv.id, pv.req[0], pv.req[1], vB(pv.np), vB(pv.node), vB(pv.term), vB(w.ign(pv)))
}

func (w *c01World) children(n int) []int {
	var out []int
	for _, sp := range w.specs {
		if sp.parent == n {
			out = append(out, sp.name)
		}
	}
	sort.Ints(out)
	return out
}

func (w *c01World) inSubtree(root, n int) bool {
	for n != 0 && n != c01Root {
		if n == root {
			return true
		}
		sp := w.specs[n]
		if sp == nil {
			return false
		}
		n = sp.parent
	}
	return false
}

func (w *c01World) quotaIDs() []int {
	var out []int
	for n := range w.specs {
		out = append(out, n)
	}
	sort.Ints(out)
	return out
}

func (w *c01World) podIDs(pred func(*c01Pod) bool) []int {
	var out []int
	for id, p := range w.pods {
		if pred == nil || pred(p) {
			out = append(out, id)
		}
	}
	sort.Ints(out)
	return out
}

// ---------- observation ----------

type c01ObsQ struct {
	name, parent   int
	isParent, lend bool
	pods           map[int]bool // id -> assigned
	// per dimension: max min used npUsed request npRequest childRequest selfUsed selfNpUsed selfRequest selfNpRequest
	d [2][11]int64
}

type c01Obs struct {
	root [2][4]int64 // used npUsed request npRequest
	qs   map[int]*c01ObsQ
}

func c01Observe(gqm *GroupQuotaManager) *c01Obs {
	o := &c01Obs{qs: map[int]*c01ObsQ{}}
	ri := gqm.GetQuotaInfoByName(extension.RootQuotaName)
	if ri != nil {
		for k := 0; k < 2; k++ {
			o.root[k] = [4]int64{c01Val(ri.GetUsed(), k), c01Val(ri.GetNonPreemptibleUsed(), k), c01Val(ri.GetRequest(), k), c01Val(ri.GetNonPreemptibleRequest(), k)}
		}
	}
	for name, s := range gqm.GetQuotaSummaries(true) {
		q := &c01ObsQ{name: c01QID(name), parent: c01QID(s.ParentName), isParent: s.IsParent, lend: s.AllowLentResource, pods: map[int]bool{}}
		for key, pi := range s.PodCache {
			var id int
			fmt.Sscanf(strings.TrimPrefix(key, "ns/p"), "%d", &id)
			q.pods[id] = pi.IsAssigned
		}
		for k := 0; k < 2; k++ {
			q.d[k] = [11]int64{c01MaxVal(s.Max, k), c01Val(s.Min, k), c01Val(s.Used, k), c01Val(s.NonPreemptibleUsed, k),
				c01Val(s.Request, k), c01Val(s.NonPreemptibleRequest, k), c01Val(s.ChildRequest, k),
				c01Val(s.SelfUsed, k), c01Val(s.SelfNonPreemptibleUsed, k), c01Val(s.SelfRequest, k), c01Val(s.SelfNonPreemptibleRequest, k)}
		}
		o.qs[q.name] = q
	}
	return o
}

func (o *c01Obs) ids() []int {
	var out []int
	for n := range o.qs {
		out = append(out, n)
	}
	sort.Ints(out)
	return out
}

func (o *c01Obs) emit(h *vHarness, strict bool) {
	for k := 0; k < 2; k++ {
		h.Obs("root %d %d %d %d %d", k, o.root[k][0], o.root[k][1], o.root[k][2], o.root[k][3])
	}
	for _, n := range o.ids() {
		q := o.qs[n]
		var pids []int
		for id := range q.pods {
			pids = append(pids, id)
		}
		sort.Ints(pids)
		line := fmt.Sprintf("q %d %d %d %d %d", q.name, q.parent, vB(q.isParent), vB(q.lend), len(pids))
		for _, id := range pids {
			line += fmt.Sprintf(" %d %d", id, vB(q.pods[id]))
		}
		h.Obs("%s", line)
		for k := 0; k < 2; k++ {
			h.Obs("d %d %d %s", k, q.name, vInts(q.d[k][:]))
		}
	}
	if strict {
		// the model state must satisfy the local equations of Props/C01.lean on every informer-consistent history
		h.Obs("inv 1")
	}
	h.Obs("end")
}

// ---------- property oracle (independent recomputation) ----------

type c01Agg struct {
	selfReq, selfNpReq, selfUsed, selfNpUsed int64
	child, request, limited                  int64
	npReq, used, npUsed                      int64
}

func c01Min(a, b int64) int64 {
	if a < b {
		return a
	}
	return b
}

// c01Recompute evaluates the statement's right-hand sides for quota n in dimension k from the world's
// specs, the pods that are members (and whether they are assigned) and their last delivered objects.
func (w *c01World) recompute(o *c01Obs, n, k int, memo map[int]*c01Agg) *c01Agg {
	if a, ok := memo[n]; ok {
		return a
	}
	a := &c01Agg{}
	memo[n] = a
	if oq := o.qs[n]; oq != nil {
		for id, asg := range oq.pods {
			p := w.pods[id]
			if p == nil || p.cur == nil {
				continue
			}
			r := p.cur.req[k]
			a.selfReq += r
			if p.cur.np {
				a.selfNpReq += r
			}
			if asg {
				a.selfUsed += r
				if p.cur.np {
					a.selfNpUsed += r
				}
			}
		}
	}
	a.child, a.npReq, a.used, a.npUsed = a.selfReq, a.selfNpReq, a.selfUsed, a.selfNpUsed
	for _, c := range w.children(n) {
		ca := w.recompute(o, c, k, memo)
		a.child += ca.limited
		a.npReq += ca.npReq
		a.used += ca.used
		a.npUsed += ca.npUsed
	}
	a.request = a.child
	if n != c01Root {
		sp := w.specs[n]
		if !sp.lend && sp.min[k] > a.request {
			a.request = sp.min[k]
		}
		a.limited = c01Min(a.request, sp.max[k])
		if a.limited < a.request {
			w.limHit = true
		}
	}
	return a
}

func (w *c01World) fail(fp, format string, a ...interface{}) {
	if w.failed {
		return
	}
	w.failed = true
	if w.atQuiescence {
		fp += "@conc"
	}
	w.h.Fail(fp, format, a...)
}

func (w *c01World) oracle(o *c01Obs) {
	if !w.strict || w.failed {
		return
	}
	// the set of groups and their structure
	for _, n := range w.quotaIDs() {
		oq := o.qs[n]
		sp := w.specs[n]
		if oq == nil {
			w.fail("C01:quota-set", "quota %d exists but is not reported", n)
			return
		}
		if oq.parent != sp.parent || oq.isParent != sp.isParent || oq.lend != sp.lend || oq.d[0][0] != sp.max[0] || oq.d[1][0] != sp.max[1] ||
			oq.d[0][1] != sp.min[0] || oq.d[1][1] != sp.min[1] {
			w.fail("C01:quota-spec", "quota %d reported with parent/flags/max/min different from the last applied object", n)
			return
		}
	}
	for n := range o.qs {
		if w.specs[n] == nil {
			w.fail("C01:quota-set", "quota %d reported but was deleted", n)
			return
		}
	}
	// which pods are counted where
	for _, id := range w.podIDs(nil) {
		p := w.pods[id]
		for _, n := range o.ids() {
			_, in := o.qs[n].pods[id]
			want := p.alive && p.member && p.quota == n
			if in != want {
				w.fail("C01:pod-membership", "pod %d in quota %d: cached=%v expected=%v", id, n, in, want)
				return
			}
		}
	}
	for k := 0; k < 2; k++ {
		memo := map[int]*c01Agg{}
		for _, n := range append([]int{c01Root}, w.quotaIDs()...) {
			a := w.recompute(o, n, k, memo)
			var got [11]int64
			if n == c01Root {
				got[2], got[3], got[4], got[5] = o.root[k][0], o.root[k][1], o.root[k][2], o.root[k][3]
				got[6] = a.child // not observed for the root
				got[7], got[8], got[9], got[10] = a.selfUsed, a.selfNpUsed, a.selfReq, a.selfNpReq
			} else {
				got = o.qs[n].d[k]
			}
			for i := 2; i < 11; i++ {
				if got[i] < 0 {
					w.fail("C01:negative", "quota %d dim %d field %d = %d < 0", n, k, i, got[i])
					return
				}
			}
			type chk struct {
				fp        string
				got, want int64
			}
			for _, c := range []chk{
				{"C01:request-mismatch", got[4], a.request},
				{"C01:request-mismatch", got[6], a.child}, // childRequest: same clause, before the min-raise
				{"C01:used-mismatch", got[2], a.used},
				{"C01:np-request-mismatch", got[5], a.npReq},
				{"C01:np-used-mismatch", got[3], a.npUsed},
				{"C01:self-request-mismatch", got[9], a.selfReq},
				{"C01:self-used-mismatch", got[7], a.selfUsed},
				{"C01:self-np-request-mismatch", got[10], a.selfNpReq},
				{"C01:self-np-used-mismatch", got[8], a.selfNpUsed},
			} {
				if c.got != c.want {
					w.fail(c.fp, "quota %d dim %d: reported %d, recomputed from the surviving pods and quota objects %d", n, k, c.got, c.want)
					return
				}
			}
		}
	}
}

// freshCompare feeds a new manager the final objects only and demands identical figures.
func (w *c01World) freshCompare(o *c01Obs) {
	if !w.strict || w.failed {
		return
	}
	fresh := NewGroupQuotaManager("tree1", false, nil, nil)
	if w.scale {
		fresh.setScaleMinQuotaEnabled(true) // same configuration as the live manager
	}
	fresh.UpdateClusterTotalResource(c01RL(w.total))
	var order []int
	queue := []int{c01Root}
	for len(queue) > 0 {
		n := queue[0]
		queue = queue[1:]
		for _, c := range w.children(n) {
			order = append(order, c)
			queue = append(queue, c)
		}
	}
	for _, n := range order {
		_ = fresh.UpdateQuota(c01MkQuota(w.specs[n]))
	}
	for _, n := range o.ids() {
		var pids []int
		for id := range o.qs[n].pods {
			pids = append(pids, id)
		}
		sort.Ints(pids)
		for _, id := range pids {
			p := w.pods[id]
			if p == nil || p.cur == nil {
				continue
			}
			fresh.OnPodAdd(c01QName(n), p.cur.obj)
			want := o.qs[n].pods[id]
			have := fresh.getPodIsAssignedNoLock(c01QName(n), p.cur.obj)
			if want && !have {
				fresh.ReservePod(c01QName(n), p.cur.obj)
			} else if !want && have {
				fresh.UnreservePod(c01QName(n), p.cur.obj)
			}
		}
	}
	f := c01Observe(fresh)
	if f.root != o.root {
		w.fail("C01:fresh-mismatch", "root figures %v differ from a fresh manager fed the final objects %v", o.root, f.root)
		return
	}
	for _, n := range o.ids() {
		fq := f.qs[n]
		if fq == nil {
			w.fail("C01:fresh-mismatch", "quota %d missing in the fresh manager", n)
			return
		}
		if fq.d != o.qs[n].d {
			w.fail("C01:fresh-mismatch", "quota %d: incremental %v, fresh manager %v", n, o.qs[n].d, fq.d)
			return
		}
	}
}

// after runs the bookkeeping common to every operation.
func (w *c01World) after(panicked bool) {
	if w.conc != nil {
		return // inside a concurrent batch: the call has not happened yet, nothing to observe
	}
	if panicked {
		w.h.Obs("panic")
		w.strict = false
		return
	}
	o := c01Observe(w.gqm)
	o.emit(w.h, w.modelStrict)
	w.oracle(o)
	if w.scale {
		w.scaleTags()
	}
}

// scaleTags (coverage only, nothing observed): is there a non-lending group whose AutoScaleMin is currently below its
// declared min, and is its request floor active (childRequest below the declared min) in that dimension?
func (w *c01World) scaleTags() {
	down, active := false, false
	for _, s := range w.gqm.GetQuotaSummaries(false) {
		if s.AllowLentResource {
			continue
		}
		for k := 0; k < 2; k++ {
			if c01Val(s.AutoScaleMin, k) < c01Val(s.Min, k) {
				down = true
				if c01Val(s.ChildRequest, k) < c01Val(s.Min, k) {
					active = true
				}
			}
		}
	}
	if down {
		w.h.Tag("scale:nonlending-min-scaled-down")
	}
	if active {
		w.h.Tag("scale:floor-active-under-scaled-min")
	}
}

// ---------- operations ----------

func (w *c01World) opQuota(sp *c01Spec) {
	w.h.Op("quota %d %d %d %d %d %d %d %d", sp.name, sp.parent, vB(sp.isParent), vB(sp.lend), sp.max[0], sp.max[1], sp.min[0], sp.min[1])
	old := w.specs[sp.name]
	switch {
	case old == nil:
		w.h.Tag("op:quota-create")
	case old.parent != sp.parent:
		w.h.Tag("op:quota-reparent")
	case old.lend != sp.lend || old.isParent != sp.isParent:
		w.h.Tag("op:quota-meta-reset")
	case old.max != sp.max || old.min != sp.min:
		w.h.Tag("op:quota-minmax")
	case old.weight != sp.weight:
		w.h.Tag("op:quota-weight")
	default:
		w.h.Tag("op:quota-unchanged")
	}
	p := w.h.Guard(func() { _ = w.gqm.UpdateQuota(c01MkQuota(sp)) })
	cp := *sp
	w.specs[sp.name] = &cp
	w.after(p)
}

func (w *c01World) opDelQuota(n int) {
	w.h.Op("delquota %d", n)
	w.h.Tag("op:quota-delete")
	sp := w.specs[n]
	var obj *v1alpha1.ElasticQuota
	if sp != nil {
		obj = c01MkQuota(sp)
	} else {
		obj = c01MkQuota(&c01Spec{name: n, parent: c01Root})
	}
	p := w.h.Guard(func() { _ = w.gqm.DeleteQuota(obj) })
	delete(w.specs, n)
	for _, pd := range w.pods {
		if pd.quota == n {
			pd.member = false
		}
	}
	w.after(p)
}

func (w *c01World) genVal(k int, hi int) int64 {
	if k == 0 {
		return int64(w.r.Range(0, hi)) * 250
	}
	return int64(w.r.Range(0, hi)) << 27
}

func (w *c01World) genSpecVals(sp *c01Spec) {
	for k := 0; k < 2; k++ {
		sp.max[k] = w.genVal(k, 24)
		sp.min[k] = w.genVal(k, 10)
		if sp.min[k] > sp.max[k] && !w.r.Chance(1, 12) {
			sp.min[k] = sp.max[k]
		}
	}
}

func (w *c01World) parentCandidates(exclude int) []int {
	out := []int{c01Root}
	for _, n := range w.quotaIDs() {
		if w.specs[n].isParent && (exclude == 0 || !w.inSubtree(exclude, n)) {
			out = append(out, n)
		}
	}
	return out
}

func (w *c01World) newPV(id int) *c01PV {
	pv := &c01PV{id: id, np: w.r.Chance(1, 3), node: w.r.Chance(1, 4), shape: w.r.Intn(3)}
	for k := 0; k < 2; k++ {
		pv.req[k] = w.genVal(k, 8)
	}
	if w.r.Chance(1, 15) {
		pv.term = true
	}
	if w.r.Chance(1, 20) {
		pv.del = true
	}
	pv.obj = c01MkPod(pv)
	return pv
}

func (w *c01World) mutatePV(old *c01PV) *c01PV {
	pv := *old
	switch w.r.Intn(7) {
	case 0: // in-place resize
		k := w.r.Intn(2)
		pv.req[k] = w.genVal(k, 8)
	case 1:
		pv.req[0], pv.req[1] = w.genVal(0, 8), w.genVal(1, 8)
	case 2:
		pv.np = !pv.np
	case 3, 4:
		pv.node = true
	case 5:
		pv.term = true
	case 6:
		pv.del = true
	}
	pv.obj = c01MkPod(&pv)
	return &pv
}

func (w *c01World) opPodAdd(q int, pd *c01Pod, pv *c01PV) {
	w.h.Op("padd %d %s", q, w.podToks(pv))
	w.h.Tag("op:pod-add")
	p := w.guard(func() { w.gqm.OnPodAdd(c01QName(q), pv.obj) })
	pd.alive, pd.quota = true, q
	if pd.cur != nil {
		pd.stale = append(pd.stale, pd.cur)
	}
	pd.cur = pv
	pd.member = w.specs[q] != nil && !w.ign(pv)
	w.after(p)
}

func (w *c01World) opPodUpdate(newQ, oldQ int, pd *c01Pod, npv, opv *c01PV) {
	w.h.Op("pupd %d %d %s %s", newQ, oldQ, w.podToks(npv), w.podToks(opv))
	if newQ != oldQ {
		w.h.Tag("op:pod-update-move")
	} else if w.ign(npv) {
		w.h.Tag("op:pod-update-ignored")
	} else {
		w.h.Tag("op:pod-update")
	}
	p := w.guard(func() { w.gqm.OnPodUpdate(c01QName(newQ), c01QName(oldQ), npv.obj, opv.obj) })
	pd.stale = append(pd.stale, pd.cur)
	pd.cur = npv
	pd.quota = newQ
	pd.member = w.specs[newQ] != nil && !w.ign(npv)
	w.after(p)
}

func (w *c01World) opPodDelete(q int, pd *c01Pod, pv *c01PV) {
	w.h.Op("pdel %d %s", q, w.podToks(pv))
	w.h.Tag("op:pod-delete")
	p := w.guard(func() { w.gqm.OnPodDelete(c01QName(q), pv.obj) })
	if q == pd.quota {
		pd.alive, pd.member = false, false
	}
	w.after(p)
}

func (w *c01World) opReserve(q int, pv *c01PV, un bool) {
	if un {
		w.h.Op("unreserve %d %s", q, w.podToks(pv))
		w.h.Tag("op:unreserve")
	} else {
		w.h.Op("reserve %d %s", q, w.podToks(pv))
		w.h.Tag("op:reserve")
	}
	p := w.guard(func() {
		if un {
			w.gqm.UnreservePod(c01QName(q), pv.obj)
		} else {
			w.gqm.ReservePod(c01QName(q), pv.obj)
		}
	})
	w.after(p)
}

func (w *c01World) opMigrate(pd *c01Pod, pv *c01PV, out, in int) {
	w.h.Op("migrate %d %d %s", out, in, w.podToks(pv))
	w.h.Tag("op:migrate")
	p := w.h.Guard(func() { w.gqm.MigratePod(pv.obj, c01QName(out), c01QName(in)) })
	pd.quota = in
	pd.member = true
	w.after(p)
}

func (w *c01World) assignedNow(pd *c01Pod) bool {
	return pd.alive && pd.member && w.gqm.getPodIsAssignedNoLock(c01QName(pd.quota), pd.cur.obj)
}

// step performs one generated operation.
func (w *c01World) step(maxQ, maxP int) {
	r := w.r
	qids := w.quotaIDs()
	alive := w.podIDs(func(p *c01Pod) bool { return p.alive })
	members := w.podIDs(func(p *c01Pod) bool { return p.alive && p.member })
	x := r.Intn(100)
	switch {
	case x < 8 || len(qids) == 0: // create a quota
		if len(qids) >= maxQ {
			return
		}
		cands := w.parentCandidates(0)
		sp := &c01Spec{name: w.nextQ, parent: cands[r.Intn(len(cands))], isParent: r.Chance(2, 5), lend: r.Chance(3, 5)}
		if !w.strict && r.Chance(1, 6) && len(w.specs) > 0 { // re-use a deleted name
			sp.name = r.Range(2, w.nextQ)
			if w.specs[sp.name] != nil {
				sp.name = w.nextQ
			}
		}
		if sp.name == w.nextQ {
			w.nextQ++
		}
		w.genSpecVals(sp)
		if r.Chance(1, 5) {
			sp.weight = r.Range(1, 9)
		}
		w.opQuota(sp)
	case x < 20: // min / max / weight update (or an unchanged object)
		sp := *w.specs[qids[r.Intn(len(qids))]]
		switch r.Intn(6) {
		case 0:
			k := r.Intn(2)
			sp.max[k] = w.genVal(k, 24)
		case 1:
			k := r.Intn(2)
			sp.min[k] = w.genVal(k, 10)
			if sp.min[k] > sp.max[k] && !r.Chance(1, 12) {
				sp.min[k] = sp.max[k]
			}
		case 2:
			w.genSpecVals(&sp)
		case 3:
			sp.weight = r.Range(0, 9)
		case 4: // shrink max below the current request
			k := r.Intn(2)
			sp.max[k] = w.genVal(k, 4)
			if sp.min[k] > sp.max[k] {
				sp.min[k] = sp.max[k]
			}
		}
		w.opQuota(&sp)
	case x < 25: // lend flag / isParent flag: full reset path
		sp := *w.specs[qids[r.Intn(len(qids))]]
		if r.Bool() {
			sp.lend = !sp.lend
		} else if !sp.isParent || len(w.children(sp.name)) == 0 {
			sp.isParent = !sp.isParent
		} else {
			sp.lend = !sp.lend
		}
		if r.Chance(1, 3) {
			w.genSpecVals(&sp)
		}
		w.opQuota(&sp)
	case x < 34: // re-parent
		n := qids[r.Intn(len(qids))]
		sp := *w.specs[n]
		var cands []int
		for _, c := range w.parentCandidates(n) {
			if c != sp.parent {
				cands = append(cands, c)
			}
		}
		if len(cands) == 0 {
			return
		}
		sp.parent = cands[r.Intn(len(cands))]
		if r.Chance(1, 4) {
			w.genSpecVals(&sp)
		}
		if r.Chance(1, 6) {
			sp.lend = !sp.lend
		}
		w.opQuota(&sp)
	case x < 38: // delete a childless quota (strict: without member pods, as the webhook admits)
		var cands []int
		for _, n := range qids {
			if len(w.children(n)) > 0 {
				continue
			}
			busy := false
			for _, id := range alive {
				if w.pods[id].quota == n {
					busy = true
				}
			}
			if !busy || !w.strict {
				cands = append(cands, n)
			}
		}
		if len(cands) == 0 {
			return
		}
		w.opDelQuota(cands[r.Intn(len(cands))])
	case x < 40:
		if r.Bool() {
			w.h.Op("reset")
			w.h.Tag("op:reset")
			w.after(w.h.Guard(func() { w.gqm.ResetQuota() }))
		} else if r.Bool() {
			d := [2]int64{int64(r.Range(-4, 8)) * 1000, int64(r.Range(-4, 8)) << 30}
			w.h.Op("total %d %d", d[0], d[1])
			w.h.Tag("op:node")
			w.total[0] += d[0]
			w.total[1] += d[1]
			w.after(w.h.Guard(func() { w.gqm.UpdateClusterTotalResource(c01RL(d)) }))
		} else {
			n := qids[r.Intn(len(qids))]
			w.h.Op("refresh %d", n)
			w.h.Tag("op:refresh")
			w.after(w.h.Guard(func() { w.gqm.RefreshRuntime(c01QName(n)) }))
		}
	case x < 58 || len(alive) == 0: // new pod
		if len(alive) >= maxP {
			return
		}
		var q int
		if !w.strict && r.Chance(1, 6) {
			q = r.Range(2, w.nextQ+1) // possibly a quota that does not exist
		} else {
			// leaves preferred, parent quotas possible
			q = qids[r.Intn(len(qids))]
			if w.specs[q].isParent && r.Chance(2, 3) {
				q = qids[r.Intn(len(qids))]
			}
		}
		pd := &c01Pod{id: w.nextP}
		w.nextP++
		w.pods[pd.id] = pd
		w.opPodAdd(q, pd, w.newPV(pd.id))
	case x < 76: // pod update
		pd := w.pods[alive[r.Intn(len(alive))]]
		npv := w.mutatePV(pd.cur)
		newQ, oldQ, opv := pd.quota, pd.quota, pd.cur
		if r.Chance(1, 5) {
			newQ = qids[r.Intn(len(qids))]
		}
		if !w.strict {
			if r.Chance(1, 4) && len(pd.stale) > 0 {
				opv = pd.stale[r.Intn(len(pd.stale))]
			}
			if r.Chance(1, 8) {
				oldQ = qids[r.Intn(len(qids))]
			}
		}
		w.opPodUpdate(newQ, oldQ, pd, npv, opv)
	case x < 82: // pod delete
		pd := w.pods[alive[r.Intn(len(alive))]]
		pv, q := pd.cur, pd.quota
		if !w.strict && r.Chance(1, 4) {
			if len(pd.stale) > 0 {
				pv = pd.stale[r.Intn(len(pd.stale))]
			}
			if r.Chance(1, 3) {
				q = qids[r.Intn(len(qids))]
			}
		}
		w.opPodDelete(q, pd, pv)
	case x < 90: // reserve
		if len(alive) == 0 {
			return
		}
		pd := w.pods[alive[r.Intn(len(alive))]]
		q := pd.quota
		if !w.strict && r.Chance(1, 5) {
			q = qids[r.Intn(len(qids))]
		}
		w.opReserve(q, pd.cur, false)
	case x < 95: // unreserve (strict: only roll back a reservation of a pod that is not bound)
		var cands []int
		for _, id := range members {
			pd := w.pods[id]
			if !w.strict || (w.assignedNow(pd) && !pd.cur.node) || r.Chance(1, 10) && !w.assignedNow(pd) {
				cands = append(cands, id)
			}
		}
		if len(cands) == 0 {
			return
		}
		pd := w.pods[cands[r.Intn(len(cands))]]
		w.opReserve(pd.quota, pd.cur, true)
	default: // migrate a member pod to another existing quota
		cands := members
		if !w.strict && r.Chance(1, 3) {
			cands = alive
		}
		if len(cands) == 0 {
			return
		}
		pd := w.pods[cands[r.Intn(len(cands))]]
		if w.specs[pd.quota] == nil && w.strict {
			return
		}
		in := qids[r.Intn(len(qids))]
		// loose histories can migrate into a target that already holds the pod as assigned while it is unassigned in `out`:
		// Go clears the target's flag (updatePodIsAssignedNoLock(in, pod, false)); Model/C01.lean migratePod mirrors it.
		w.opMigrate(pd, pd.cur, pd.quota, in)
	}
}

// ---------- min-quota scaling (AutoScaleMin) ----------

func (w *c01World) opTotal(d [2]int64) {
	w.h.Op("total %d %d", d[0], d[1])
	w.h.Tag("op:node")
	w.total[0] += d[0]
	w.total[1] += d[1]
	w.after(w.h.Guard(func() { w.gqm.UpdateClusterTotalResource(c01RL(d)) }))
}

func (w *c01World) opRefresh(n int) {
	w.h.Op("refresh %d", n)
	w.h.Tag("op:refresh")
	w.after(w.h.Guard(func() { w.gqm.RefreshRuntime(c01QName(n)) }))
}

// sumMin = the summed declared min of the (still existing) scenario siblings
func (w *c01World) sumMin() (sum [2]int64, sibs []int) {
	for _, n := range w.scaleSibs {
		if sp := w.specs[n]; sp != nil {
			sibs = append(sibs, n)
			sum[0] += sp.min[0]
			sum[1] += sp.min[1]
		}
	}
	return
}

// totalTo moves the cluster total to num/den of the siblings' summed min in the dimensions picked by mask (bit k),
// as one node add / remove (UpdateClusterTotalResource with the difference).
func (w *c01World) totalTo(num, den int64, mask int) {
	sum, _ := w.sumMin()
	var d [2]int64
	for k := 0; k < 2; k++ {
		if mask&(1<<k) != 0 {
			t := sum[k] * num / den
			if k == 0 {
				t -= t % 250
			}
			d[k] = t - w.total[k]
		}
	}
	w.opTotal(d)
}

// scaleScenario (scale cases only): 2-3 siblings with min > 0, most of them non-lending, below the root or below a fresh
// parent group; the cluster total first covers their summed min (two nodes), then a node goes and it does not any more;
// RefreshRuntime of the siblings (what PreFilter / the status controller do) scales AutoScaleMin down; then pod events in
// that subtree.  The rest of the history goes on at random (with some more total / refresh operations, scaleNudge).
func (w *c01World) scaleScenario() {
	r := w.r
	w.h.Tag("scale:scenario")
	par := c01Root
	if r.Chance(1, 2) {
		sp := &c01Spec{name: w.nextQ, parent: c01Root, isParent: true, lend: r.Chance(1, 2)}
		w.nextQ++
		for k := 0; k < 2; k++ {
			sp.max[k] = w.genVal(k, 24) + w.genVal(k, 24)
			sp.min[k] = w.genVal(k, 10)
			if sp.min[k] > sp.max[k] {
				sp.min[k] = sp.max[k]
			}
		}
		w.opQuota(sp)
		par = sp.name
		w.h.Tag("scale:below-parent-group")
	}
	for i, n := 0, r.Range(2, 3); i < n; i++ {
		sp := &c01Spec{name: w.nextQ, parent: par, isParent: r.Chance(1, 4), lend: r.Chance(1, 4)}
		w.nextQ++
		for k := 0; k < 2; k++ {
			sp.min[k] = w.genVal(k, 9) + w.genVal(k, 1) // mostly > 0
			if sp.min[k] == 0 && !r.Chance(1, 6) {
				sp.min[k] = [2]int64{1000, 1 << 29}[k]
			}
			sp.max[k] = sp.min[k] + w.genVal(k, 14)
		}
		w.opQuota(sp)
		w.scaleSibs = append(w.scaleSibs, sp.name)
	}
	_, sibs := w.sumMin()
	w.totalTo(int64(r.Range(4, 8)), 4, 3) // total >= summed min
	if r.Chance(1, 2) {
		w.opRefresh(sibs[r.Intn(len(sibs))])
	}
	// a pod may already be there before the shrink
	addPod := func() {
		q := sibs[r.Intn(len(sibs))]
		pd := &c01Pod{id: w.nextP}
		w.nextP++
		w.pods[pd.id] = pd
		pv := w.newPV(pd.id)
		if r.Chance(2, 3) { // small: stays below the declared min, so the floor decides the request
			for k := 0; k < 2; k++ {
				pv.req[k] = w.genVal(k, 2)
			}
			pv.obj = c01MkPod(pv)
		}
		w.opPodAdd(q, pd, pv)
	}
	if r.Chance(1, 3) {
		addPod()
	}
	w.totalTo(int64(r.Range(0, 7)), 8, r.Range(1, 3)) // below the summed min in cpu, memory or both
	for _, n := range sibs {
		if r.Chance(5, 6) {
			w.opRefresh(n)
		}
	}
	for i, n := 0, r.Range(1, 3); i < n; i++ {
		addPod()
	}
}

// scaleNudge: one more total change around the siblings' summed min or a RefreshRuntime (scale cases, in between the
// random operations).
func (w *c01World) scaleNudge() {
	r := w.r
	qids := w.quotaIDs()
	if len(qids) == 0 {
		return
	}
	if r.Chance(1, 3) {
		w.totalTo(int64(r.Range(0, 12)), 8, r.Range(1, 3))
		return
	}
	w.opRefresh(qids[r.Intn(len(qids))])
}

// ---------- concurrent batches (the *schedules* quantifier) ----------

// c01RunConc runs every script in its own goroutine against the one shared manager.  The goroutines are released
// together (spin barrier) so that their handlers really overlap; with lockstep the i-th calls of all scripts are
// released together as well (more overlap), otherwise every goroutine runs freely after the common start.
// A panic inside a goroutine is recovered and reported (and releases every barrier).
func c01RunConc(scripts [][]func(), lockstep bool) (panicMsg string, panicked bool) {
	var done sync.WaitGroup
	var pn int32
	var mu sync.Mutex
	maxLen := 0
	for _, sc := range scripts {
		if len(sc) > maxLen {
			maxLen = len(sc)
		}
	}
	// expect[i] = number of goroutines that will arrive at barrier i; arrived[i] counts them
	expect := make([]int32, maxLen+1)
	arrived := make([]int32, maxLen+1)
	for _, sc := range scripts {
		for i := 0; i < len(sc); i++ {
			expect[i]++
		}
	}
	barrier := func(i int) {
		atomic.AddInt32(&arrived[i], 1)
		for spin := 0; atomic.LoadInt32(&arrived[i]) < expect[i] && atomic.LoadInt32(&pn) == 0; spin++ {
			if spin&1023 == 1023 {
				runtime.Gosched()
			}
		}
	}
	done.Add(len(scripts))
	for _, sc := range scripts {
		go func(sc []func()) {
			defer done.Done()
			defer func() {
				if r := recover(); r != nil {
					atomic.StoreInt32(&pn, 1)
					mu.Lock()
					panicMsg = fmt.Sprint(r)
					mu.Unlock()
				}
			}()
			for i, f := range sc {
				if i == 0 || lockstep {
					barrier(i)
				}
				f()
			}
		}(sc)
	}
	done.Wait()
	return panicMsg, atomic.LoadInt32(&pn) != 0
}

func (w *c01World) depth(n int) int {
	d := 0
	for n != c01Root && n != 0 && d < 64 {
		sp := w.specs[n]
		if sp == nil {
			break
		}
		n = sp.parent
		d++
	}
	return d
}

// concBatch: K distinct pods (new or existing), one short informer-consistent script of pod-level operations per pod
// (everything drawn from w.r before any goroutine starts), issued from K goroutines.  The op lines are emitted in the
// canonical order "script of pod 1, script of pod 2, ..." between `conc 1` and `conc 0`; ONE observation block is
// taken when all goroutines have finished, and the usual oracle + fresh-manager comparison run on it.
func (w *c01World) concBatch() {
	r := w.r
	qids := w.quotaIDs()
	if !w.strict || len(qids) == 0 {
		return
	}
	// the deepest quota is "hot": most pods of the batch live there, so the path-locked sections contend
	hot := qids[0]
	for _, n := range qids {
		if w.depth(n) > w.depth(hot) {
			hot = n
		}
	}
	pickQ := func(not int) int {
		if hot != not && r.Chance(2, 3) {
			return hot
		}
		var cands []int
		for _, n := range qids {
			if n != not {
				cands = append(cands, n)
			}
		}
		if len(cands) == 0 {
			return not
		}
		return cands[r.Intn(len(cands))]
	}
	alive := w.podIDs(func(p *c01Pod) bool { return p.alive })
	perm := r.Perm(len(alive))
	nextOld, nAlive := 0, len(alive)
	K := r.Range(2, 6)
	w.h.Op("conc 1")
	w.h.Tag("conc:batch")
	w.h.Tag(fmt.Sprintf("conc:K=%d", K))
	w.h.Tag(fmt.Sprintf("conc:hot-depth=%d", w.depth(hot)))
	w.conc = &c01Conc{}
	var scripts [][]func()
	for j := 0; j < K; j++ {
		var pd *c01Pod
		if nextOld < len(alive) && (r.Chance(1, 2) || nAlive >= 12) {
			pd = w.pods[alive[perm[nextOld]]]
			nextOld++
		} else {
			pd = &c01Pod{id: w.nextP}
			w.nextP++
			w.pods[pd.id] = pd
			nAlive++
		}
		asg := pd.alive && w.assignedNow(pd) // predicted assignment flag of THIS pod (only steers the choice of ops)
		w.conc.script = nil
		L := r.Range(1, 4)
		for s := 0; s < L; s++ {
			if !pd.alive {
				if pd.cur != nil {
					break // deleted by this script: a pod name is never re-used
				}
				pv := w.newPV(pd.id)
				if !pv.node && r.Chance(1, 2) { // more fail-over adds than in the sequential stream: they touch `used` under the shared lock
					pv.node = true
					pv.obj = c01MkPod(pv)
				}
				w.opPodAdd(pickQ(0), pd, pv)
				w.h.Tag("conc-op:padd")
				asg = pd.member && pv.node && !pv.term
				continue
			}
			x := r.Intn(100)
			switch {
			case x >= 40 && x < 55 && len(qids) > 1: // quota move
				npv := w.mutatePV(pd.cur)
				w.opPodUpdate(pickQ(pd.quota), pd.quota, pd, npv, pd.cur)
				w.h.Tag("conc-op:pupd-move")
				asg = pd.member && npv.node && !npv.term
			case x >= 55 && x < 65:
				w.opPodDelete(pd.quota, pd, pd.cur)
				w.h.Tag("conc-op:pdel")
				asg = false
			case x >= 65 && x < 85:
				w.opReserve(pd.quota, pd.cur, false)
				w.h.Tag("conc-op:reserve")
				asg = pd.member
			case x >= 85 && pd.member && (asg && !pd.cur.node || !asg && r.Chance(1, 10)):
				// as in the sequential generator: roll back a reservation of a pod that is not bound (or a no-op)
				w.opReserve(pd.quota, pd.cur, true)
				w.h.Tag("conc-op:unreserve")
				asg = false
			default: // resize / non-preemptible flip / bind / completion / terminating
				npv := w.mutatePV(pd.cur)
				w.opPodUpdate(pd.quota, pd.quota, pd, npv, pd.cur)
				w.h.Tag("conc-op:pupd")
				asg = pd.member && (asg || npv.node && !npv.term)
			}
		}
		scripts = append(scripts, w.conc.script)
	}
	if w.scale {
		// one more goroutine: RefreshRuntime of the hot quota (what PreFilter does under hierarchyUpdateLock.RLock while the
		// informer handlers run): it rewrites AutoScaleMin / the runtime quota along the path, never a figure of the property
		var sc []func()
		for i := 0; i < 3; i++ {
			w.h.Op("refresh %d", hot)
			sc = append(sc, func() { w.gqm.RefreshRuntime(c01QName(hot)) })
		}
		scripts = append(scripts, sc)
		w.h.Tag("conc:refresh-goroutine")
	}
	w.conc = nil
	w.h.Op("conc 0")
	lockstep, fresh := r.Chance(2, 3), r.Chance(1, 2)
	w.h.Tag(fmt.Sprintf("conc:lockstep=%v", lockstep))
	msg, panicked := c01RunConc(scripts, lockstep)
	if panicked {
		if len(msg) > 120 {
			msg = msg[:120]
		}
		w.h.Tag("panic")
		w.h.Extra("last_panic", msg)
		w.h.Obs("panic")
		w.strict = false
		return
	}
	o := c01Observe(w.gqm)
	o.emit(w.h, w.modelStrict)
	w.atQuiescence = true
	w.oracle(o)
	if fresh { // (the end of the case compares with a fresh manager in any case)
		w.freshCompare(o)
	}
	w.atQuiescence = false
}

func TestVerifC01(t *testing.T) {
	h := vOpen("C01")
	if h == nil {
		t.Skip("VERIF_OUT not set")
	}
	n := h.N(600, 12000)
	for idx := 0; idx < n; idx++ {
		r := h.Begin(idx)
		if r == nil {
			continue
		}
		w := &c01World{h: h, r: r, specs: map[int]*c01Spec{}, pods: map[int]*c01Pod{}, nextQ: 2, nextP: 1}
		w.strict = !r.Chance(1, 8)
		w.modelStrict = w.strict
		h.Op("mode %d", vB(w.strict))
		w.gate = r.Chance(1, 3)
		restore := utilfeature.SetFeatureGateDuringTest(t, k8sfeature.DefaultFeatureGate, features.ElasticQuotaImmediateIgnoreTerminatingPod, w.gate)
		w.gqm = NewGroupQuotaManager("tree1", false, nil, nil)
		// every 5th case (chosen by idx, so the other cases are what they were): min-quota scaling on, as in the plugin's default
		// (and every other concurrency case: RefreshRuntime then also runs concurrently with the pod handlers, see concBatch)
		w.scale = idx%5 == 2 || idx%10 == 9
		if w.scale {
			w.gqm.setScaleMinQuotaEnabled(true)
			h.Op("scale 1")
			h.Tag("scale:case")
		}
		w.total = [2]int64{int64(r.Range(0, 64)) * 1000, int64(r.Range(0, 256)) << 30}
		w.gqm.UpdateClusterTotalResource(c01RL(w.total))
		h.Tag(fmt.Sprintf("strict:%v", w.strict))
		h.Tag(fmt.Sprintf("gate:%v", w.gate))
		maxQ, maxP := r.Range(3, 7), r.Range(3, 10)
		nops := r.Range(25, 50)
		if h.Tier == "thorough" && r.Chance(1, 4) {
			nops = r.Range(60, 120)
		}
		mid := r.Range(5, nops)
		// every 5th case (chosen by idx, so the other cases are what they were) is a concurrency case if it is strict
		batchAt := map[int]bool{}
		if idx%5 == 4 && w.strict {
			h.Tag("conc:case")
			// a chain root > .. > leaf first, so that the batches contend on a deep path
			par := c01Root
			for d, i := r.Range(1, 3), 0; i <= d; i++ {
				sp := &c01Spec{name: w.nextQ, parent: par, isParent: i < d, lend: r.Chance(3, 5)}
				w.nextQ++
				w.genSpecVals(sp)
				w.opQuota(sp)
				par = sp.name
			}
			for nb := r.Range(2, 5); nb > 0; nb-- {
				batchAt[r.Range(2, nops-1)] = true
			}
		}
		if idx%5 == 2 {
			w.scaleScenario()
		}
		for i := 0; i < nops; i++ {
			w.step(maxQ, maxP)
			if w.scale && r.Chance(1, 5) {
				w.scaleNudge()
			}
			if i == mid {
				w.freshCompare(c01Observe(w.gqm))
			}
			if batchAt[i] {
				w.concBatch()
			}
		}
		w.freshCompare(c01Observe(w.gqm))
		if w.limHit {
			h.Nontrivial()
			h.Tag("limit-active")
		}
		restore()
		h.End()
	}
	h.Close("histories of 25-50 (thorough: up to 120) operations on a GroupQuotaManager without system/default quota: quota create / min,max,weight update / " +
		"lend- and isParent-flag change (reset path) / re-parent / delete / ResetQuota / cluster-total change / RefreshRuntime, pod add (incl. fail-over with NodeName) / " +
		"update (resize, non-preemptible flip, bind, completion, terminating with the ignore gate, quota move) / delete / reserve / unreserve / migrate; <=7 quotas, <=10 pods, 2 dimensions; " +
		"7/8 informer-consistent (oracle on), 1/8 loose (stale old objects, missing quotas, deletes with pods; correspondence only); " +
		"every 5th case (if informer-consistent) is a concurrency case: a chain of 2-4 nested quotas is created first and up to 5 concurrent batches are inserted into the history - " +
		"K=2..6 distinct pods (new or existing, 2/3 on the deepest quota), per pod a script of 1-4 OnPodAdd / OnPodUpdate (resize, flip, bind, completion, terminating, quota move) / " +
		"OnPodDelete / ReservePod / UnreservePod calls drawn beforehand, run by K goroutines released together (2/3 of the batches: also the i-th calls of all scripts released together) against the shared manager; one observation at quiescence, " +
		"compared with the model's canonical sequential order (script of pod 1, pod 2, ...) and checked by the oracle and (every other batch) the fresh manager (fingerprint suffix @conc); <=16 pods there; " +
		"every other concurrency case has min-quota scaling on, total / RefreshRuntime operations in between, and one more goroutine per batch that calls RefreshRuntime of the hot quota three times; " +
		"every 5th case (index%5 == 2) runs with min-quota scaling ON (setScaleMinQuotaEnabled before any quota exists, the plugin's default; the fresh manager likewise): it starts with 2-3 siblings with min > 0 " +
		"(3/4 non-lending, below the root or a fresh parent group), a cluster total first above then (one node gone) below their summed min in cpu / memory / both, RefreshRuntime of the siblings (AutoScaleMin scaled down) " +
		"and 1-3 pod adds there (2/3 small: below the declared min), and gets a further total change around the summed min or a RefreshRuntime after every 5th random operation; " +
		"non-trivial = some quota's request exceeded its max at some point (limiting active)")
}

// ---------- exhaustive small-scope stream (thorough tier) ----------

// Fixed tree root(1) > P(2) > {A(3), B(4)}, two pods; EVERY informer-consistent sequence of 4 operations over the
// alphabet below (all shorter sequences are prefixes: an observation block, the oracle and the fresh-manager
// comparison follow every single operation).  Nothing is random; VERIF_SEED only selects the variant (seed%2).
const (
	c01xAddPend   = iota // OnPodAdd, no NodeName                      (pod, quota)
	c01xAddNode          // OnPodAdd with NodeName (fail-over)         (pod, quota)
	c01xResize           // OnPodUpdate same quota, request small<->big (pod)
	c01xBind             // OnPodUpdate same quota, NodeName set        (pod)
	c01xMove             // OnPodUpdate to the other leaf A<->B         (pod)
	c01xDel              // OnPodDelete                                 (pod)
	c01xReserve          // ReservePod of an unassigned pod             (pod)
	c01xUnreserve        // UnreservePod of a reserved, unbound pod     (pod)
	c01xMigrate          // MigratePod to the other leaf A<->B          (pod)
	c01xAMax             // UpdateQuota(A): max small<->large
	c01xAMin             // UpdateQuota(A): min >0 <-> 0
	c01xReparentB        // UpdateQuota(B): parent P<->root
	c01xLendFlip         // UpdateQuota(non-lending leaf): lend flag flipped (resetQuotaNoLock path)
	c01xDelQ             // DeleteQuota of a leaf without live pods     (quota)
	c01xMkQ              // UpdateQuota re-creating the deleted leaf    (quota)
	c01xReset            // ResetQuota
	c01xNpFlip           // OnPodUpdate same quota, non-preemptible label flipped (pod)
	c01xComplete         // OnPodUpdate same quota, phase Succeeded             (pod)
	c01xSqueeze          // cluster total large<->small (below the leaves' summed min), then RefreshRuntime of every existing leaf
)

var c01xKindName = []string{"add-pending", "add-node", "resize", "bind", "move", "pod-delete", "reserve", "unreserve", "migrate",
	"A-max", "A-min", "reparent-B", "lend-flip", "quota-delete", "quota-recreate", "reset", "np-flip", "complete", "squeeze"}

type c01xOp struct{ kind, pod, q int }

type c01xAbsPod struct {
	delivered, alive, node, term, asg bool
	q                                 int
}

// c01xAbs is all the enumeration needs to know to decide which operations are applicable.
type c01xAbs struct {
	pod    [2]c01xAbsPod
	exists [5]bool // [3] = A, [4] = B
}

func c01xOther(q int) int { return 7 - q }

func (a c01xAbs) applicable() []c01xOp {
	var out []c01xOp
	for p := 0; p < 2; p++ {
		pd := a.pod[p]
		if !pd.delivered {
			for q := 3; q <= 4; q++ {
				if a.exists[q] {
					out = append(out, c01xOp{c01xAddPend, p, q}, c01xOp{c01xAddNode, p, q})
				}
			}
			continue
		}
		if !pd.alive {
			continue // deleted: a pod name is never re-used
		}
		out = append(out, c01xOp{c01xResize, p, 0}, c01xOp{c01xNpFlip, p, 0})
		if !pd.term {
			out = append(out, c01xOp{c01xComplete, p, 0})
		}
		if !pd.node {
			out = append(out, c01xOp{c01xBind, p, 0})
		}
		if a.exists[c01xOther(pd.q)] {
			out = append(out, c01xOp{c01xMove, p, 0})
		}
		out = append(out, c01xOp{c01xDel, p, 0})
		if !pd.asg {
			out = append(out, c01xOp{c01xReserve, p, 0})
		} else if !pd.node {
			out = append(out, c01xOp{c01xUnreserve, p, 0})
		}
		if a.exists[c01xOther(pd.q)] {
			out = append(out, c01xOp{c01xMigrate, p, 0})
		}
	}
	if a.exists[3] {
		out = append(out, c01xOp{c01xAMax, 0, 3}, c01xOp{c01xAMin, 0, 3})
	}
	if a.exists[4] {
		out = append(out, c01xOp{c01xReparentB, 0, 4})
	}
	out = append(out, c01xOp{c01xLendFlip, 0, 0}) // pruned by the caller when the non-lending leaf does not exist
	for q := 3; q <= 4; q++ {
		if !a.exists[q] {
			out = append(out, c01xOp{c01xMkQ, 0, q})
			continue
		}
		busy := false
		for p := 0; p < 2; p++ {
			if a.pod[p].alive && a.pod[p].q == q {
				busy = true
			}
		}
		if !busy {
			out = append(out, c01xOp{c01xDelQ, 0, q})
		}
	}
	return append(out, c01xOp{c01xReset, 0, 0}, c01xOp{c01xSqueeze, 0, 0})
}

func (a c01xAbs) apply(op c01xOp) c01xAbs {
	pd := &a.pod[op.pod]
	switch op.kind {
	case c01xAddPend:
		*pd = c01xAbsPod{delivered: true, alive: true, q: op.q}
	case c01xAddNode:
		*pd = c01xAbsPod{delivered: true, alive: true, node: true, asg: true, q: op.q}
	case c01xResize, c01xNpFlip:
		pd.asg = pd.asg || pd.node && !pd.term
	case c01xComplete:
		pd.term = true
	case c01xBind:
		pd.node = true
		pd.asg = pd.asg || !pd.term
	case c01xMove:
		pd.q, pd.asg = c01xOther(pd.q), pd.node && !pd.term // a fresh cache entry: a mere reservation does not move along
	case c01xDel:
		pd.alive, pd.asg = false, false
	case c01xReserve:
		pd.asg = true
	case c01xUnreserve:
		pd.asg = false
	case c01xMigrate:
		pd.q = c01xOther(pd.q)
	case c01xDelQ:
		a.exists[op.q] = false
	case c01xMkQ:
		a.exists[op.q] = true
	}
	return a
}

func TestVerifC01Exhaustive(t *testing.T) {
	h := vOpen("C01")
	if h == nil {
		t.Skip("VERIF_OUT not set")
	}
	const depth = 4
	variant := int(h.Seed % 2)
	restore := utilfeature.SetFeatureGateDuringTest(t, k8sfeature.DefaultFeatureGate, features.ElasticQuotaImmediateIgnoreTerminatingPod, false)
	defer restore()
	const mi = int64(1) << 20
	// A has a small max (limiting active with both pods or one big pod); one leaf is non-lending with min > 0
	base := map[int]c01Spec{
		2: {name: 2, parent: c01Root, isParent: true, lend: true, max: [2]int64{8000, 8192 * mi}, min: [2]int64{4000, 4096 * mi}},
		3: {name: 3, parent: 2, lend: true, max: [2]int64{1000, 1024 * mi}, min: [2]int64{500, 512 * mi}},
		4: {name: 4, parent: 2, lend: false, max: [2]int64{4000, 4096 * mi}, min: [2]int64{1500, 1536 * mi}},
	}
	nonLend := 4
	small := [2][2]int64{{750, 768 * mi}, {500, 512 * mi}}
	big := [2][2]int64{{1500, 1536 * mi}, {1250, 1280 * mi}}
	np := [2]bool{false, true}
	if variant == 1 { // A itself is the non-lending leaf, pod 1 the non-preemptible one
		a, b := base[3], base[4]
		a.lend, a.min = false, [2]int64{750, 768 * mi}
		b.lend, b.min = true, [2]int64{1000, 1024 * mi}
		base[3], base[4] = a, b
		nonLend = 3
		np = [2]bool{true, false}
	}
	aMaxLarge := [2]int64{3000, 3072 * mi}
	limit := h.N(0, 0) // VERIF_N caps the number of cases (development only)
	idx := 0
	runSeq := func(seq []c01xOp) {
		r := h.Begin(idx)
		idx++
		if r == nil {
			return
		}
		w := &c01World{h: h, r: r, specs: map[int]*c01Spec{}, pods: map[int]*c01Pod{}, nextQ: 5, nextP: 3, strict: true, modelStrict: true}
		h.Op("mode 1")
		w.gqm = NewGroupQuotaManager("tree1", false, nil, nil)
		// min-quota scaling on (the plugin's default): the squeeze operation makes RefreshRuntime lower AutoScaleMin
		w.scale = true
		w.gqm.setScaleMinQuotaEnabled(true)
		h.Op("scale 1")
		w.total = [2]int64{16000, 16384 * mi}
		w.gqm.UpdateClusterTotalResource(c01RL(w.total))
		for _, n := range []int{2, 3, 4} {
			sp := base[n]
			w.opQuota(&sp)
		}
		abs := c01xAbs{}
		abs.exists[3], abs.exists[4] = true, true
		for _, op := range seq {
			h.Tag("exh-op:" + c01xKindName[op.kind])
			id := op.pod + 1
			pd := w.pods[id]
			mut := func(f func(pv *c01PV)) *c01PV {
				pv := *pd.cur
				f(&pv)
				pv.obj = c01MkPod(&pv)
				return &pv
			}
			switch op.kind {
			case c01xAddPend, c01xAddNode:
				pd = &c01Pod{id: id}
				w.pods[id] = pd
				pv := &c01PV{id: id, req: small[op.pod], np: np[op.pod], node: op.kind == c01xAddNode}
				pv.obj = c01MkPod(pv)
				w.opPodAdd(op.q, pd, pv)
			case c01xResize:
				w.opPodUpdate(pd.quota, pd.quota, pd, mut(func(pv *c01PV) {
					if pv.req == small[op.pod] {
						pv.req = big[op.pod]
					} else {
						pv.req = small[op.pod]
					}
				}), pd.cur)
			case c01xBind:
				w.opPodUpdate(pd.quota, pd.quota, pd, mut(func(pv *c01PV) { pv.node = true }), pd.cur)
			case c01xNpFlip:
				w.opPodUpdate(pd.quota, pd.quota, pd, mut(func(pv *c01PV) { pv.np = !pv.np }), pd.cur)
			case c01xComplete:
				w.opPodUpdate(pd.quota, pd.quota, pd, mut(func(pv *c01PV) { pv.term = true }), pd.cur)
			case c01xMove:
				w.opPodUpdate(c01xOther(pd.quota), pd.quota, pd, mut(func(pv *c01PV) {}), pd.cur)
			case c01xDel:
				w.opPodDelete(pd.quota, pd, pd.cur)
			case c01xReserve:
				w.opReserve(pd.quota, pd.cur, false)
			case c01xUnreserve:
				w.opReserve(pd.quota, pd.cur, true)
			case c01xMigrate:
				w.opMigrate(pd, pd.cur, pd.quota, c01xOther(pd.quota))
			case c01xAMax:
				sp := *w.specs[3]
				if sp.max == base[3].max {
					sp.max = aMaxLarge
				} else {
					sp.max = base[3].max
				}
				w.opQuota(&sp)
			case c01xAMin:
				sp := *w.specs[3]
				if sp.min == base[3].min {
					sp.min = [2]int64{0, 0}
				} else {
					sp.min = base[3].min
				}
				w.opQuota(&sp)
			case c01xReparentB:
				sp := *w.specs[4]
				sp.parent = 3 - sp.parent // P(2) <-> root(1)
				w.opQuota(&sp)
			case c01xLendFlip:
				sp := *w.specs[nonLend]
				sp.lend = !sp.lend
				w.opQuota(&sp)
			case c01xDelQ:
				w.opDelQuota(op.q)
			case c01xMkQ:
				sp := base[op.q]
				w.opQuota(&sp)
			case c01xReset:
				h.Op("reset")
				h.Tag("op:reset")
				w.after(h.Guard(func() { w.gqm.ResetQuota() }))
			case c01xSqueeze:
				low, high := [2]int64{1000, 1024 * mi}, [2]int64{16000, 16384 * mi}
				to := low
				if w.total == low {
					to = high
				}
				w.opTotal([2]int64{to[0] - w.total[0], to[1] - w.total[1]})
				for _, q := range []int{3, 4} {
					if w.specs[q] != nil {
						w.opRefresh(q)
					}
				}
			}
			abs = abs.apply(op)
			// the enumeration's own prediction of the assignment flags (it only prunes no-op reserves/unreserves)
			for p := 0; p < 2; p++ {
				if x := w.pods[p+1]; x != nil && x.alive && w.strict && w.assignedNow(x) != abs.pod[p].asg {
					h.Tag("exh:assigned-prediction-wrong")
				}
			}
			w.freshCompare(c01Observe(w.gqm))
		}
		if w.limHit {
			h.Nontrivial()
			h.Tag("limit-active")
		}
		h.End()
	}
	var rec func(a c01xAbs, seq []c01xOp)
	rec = func(a c01xAbs, seq []c01xOp) {
		if limit > 0 && idx >= limit {
			return
		}
		if len(seq) == depth {
			runSeq(seq)
			return
		}
		for _, op := range a.applicable() {
			if op.kind == c01xLendFlip && !a.exists[nonLend] {
				continue
			}
			rec(a.apply(op), append(seq[:len(seq):len(seq)], op))
		}
	}
	start := c01xAbs{}
	start.exists[3], start.exists[4] = true, true
	rec(start, nil)
	desc := fmt.Sprintf("variant %d (seed%%2): every informer-consistent sequence of exactly %d operations (all shorter ones are prefixes; every operation is followed by an observation, "+
		"the oracle and the fresh-manager comparison) on root > P > {A (small max), B}, non-lending leaf with min>0 = %d, 2 pods (pod %d non-preemptible): %d sequences",
		variant, depth, nonLend, map[bool]int{true: 1, false: 2}[np[0]], idx)
	h.Extra("exhaustive", desc)
	h.Close("exhaustive small scope, " + desc + "; alphabet per pod: add pending / add with NodeName to A or B, resize small<->big, non-preemptible flip, completion (Succeeded), bind, move A<->B, delete, reserve (unassigned pod), " +
		"unreserve (reserved unbound pod), migrate A<->B; squeeze (min-quota scaling is on: cluster total 16 cpu <-> 1 cpu, below the leaves' summed min, then RefreshRuntime of every existing leaf, which scales AutoScaleMin down / back); quotas: A max small<->large, A min >0<->0, re-parent B P<->root, lend flag of the non-lending leaf (reset path), delete a leaf without live pods, " +
		"re-create a deleted leaf (original spec), ResetQuota. Pruned as inapplicable / outside the informer-consistent fragment: ops on a pod not yet added or already deleted (a pod name is never re-used), " +
		"adds / moves / migrations to a deleted leaf, deleting a leaf that still has a live pod (webhook), ReservePod of an assigned pod and UnreservePod of an unassigned or bound pod (no-ops resp. not issued by the scheduler), " +
		"pods are only added to the leaves (not to P). non-trivial = some quota's request exceeded its max (limiting active)")
}
