//go:build verif

package core

import (
	"fmt"
	"testing"

	utilfeature "k8s.io/apiserver/pkg/util/feature"

	"github.com/koordinator-sh/koordinator/pkg/features"
)

// C02 `move` harness (TestVerifC02Move): THREE-level histories in which a quota that itself has children is
// re-parented (the updateQuotaNoLockWhenParentChange path of UpdateQuota with oldQuotaInfo.IsParent).
//
//	root ── g1 (group parent) ── p (is-parent, mostly NON-LENDING, min > 0) ── c1 [c2] (leaves, small requests)
//	     │                    └─ t  (optional lending leaf)
//	     └─ g2 (group parent) ── s (lending leaf, request >= the whole cluster)
//
// step 0 builds the tree with the children of p asking for LESS than p's min (p, not lending, asks for its min);
// step 1 moves p from g1 to g2; step 2 raises the children's requests above p's min (contention with s under g2);
// then 2-5 random follow-ups (leaf request change, p moved to the other group parent, cluster-total change).
// After every step the per-level blocks of the spec harness run (c02SpecCheck: declared-derived inputs -> Lean
// model correspondence, runtime oracle c02Oracle, glue / node cross-checks, and a manager built FRESHLY from the
// final objects must give the same runtimes).  Guaranteed-usage mode and min scaling are off.
func TestVerifC02Move(t *testing.T) {
	h := vOpen("C02")
	if h == nil {
		t.Skip("VERIF_OUT not set")
	}
	gateName := string(features.ElasticQuotaGuaranteeUsage)
	if err := utilfeature.DefaultMutableFeatureGate.Set(gateName + "=false"); err != nil {
		t.Fatalf("feature gate: %v", err)
	}
	unit := [2]int64{1000, 1 << 30}
	n := h.N(150, 3000)
	for idx := 0; idx < n; idx++ {
		r := h.Begin(idx)
		if r == nil {
			continue
		}
		w := &c02World{strictLag: true}
		totU := [2]int{r.Range(40, 200), r.Range(40, 400)}
		w.total = [3]int64{int64(totU[0]) * unit[0], int64(totU[1]) * unit[1], 0}
		nextID := 1
		mk := func(parent int, isParent bool, lend int) *c02D {
			q := &c02D{id: nextID, name: fmt.Sprintf("q%03d", nextID), parent: parent, isParent: isParent, present: true,
				lend: lend, rootLabeled: r.Bool(), max: c02RLd{}, min: c02RLd{}}
			nextID++
			w.qs = append(w.qs, q)
			return q
		}
		amt := func(d, lo, hi int) int64 { // lo..hi units of dimension d; cpu sometimes off the whole core
			if hi < lo {
				hi = lo
			}
			v := int64(r.Range(lo, hi)) * unit[d]
			if d == 0 && v > 0 && r.Chance(1, 4) {
				v += int64(r.Range(-900, 900))
			}
			return v
		}
		ann := func(q *c02D) {
			if r.Chance(1, 4) {
				c02GenAnn(r, q)
			}
		}
		// ---- the two group parents ----
		var g [2]*c02D
		for i := range g {
			g[i] = mk(0, true, r.Intn(2))
			for d := 0; d < 2; d++ {
				g[i].max[d] = amt(d, totU[d]/2, totU[d]*2)
				if r.Bool() {
					g[i].min[d] = c02Min(amt(d, 0, totU[d]/4), g[i].max[d])
				}
			}
			ann(g[i])
		}
		// ---- p: has children, mostly does not lend, min > 0 ----
		pLend := 2
		if r.Chance(1, 4) {
			pLend = r.Intn(2)
		}
		p := mk(g[0].id, true, pLend)
		var pMinU [2]int
		for d := 0; d < 2; d++ {
			p.max[d] = amt(d, totU[d]/2+1, totU[d]*2)
			pMinU[d] = r.Range(totU[d]/10, totU[d]/2)
			if r.Chance(1, 8) {
				pMinU[d] = 0
			}
			p.min[d] = int64(pMinU[d]) * unit[d]
		}
		if r.Chance(1, 10) {
			delete(p.min, r.Intn(2))
		}
		ann(p)
		if pLend == 2 {
			h.Tag("move:p-non-lending")
		} else {
			h.Tag("move:p-lending")
		}
		// ---- p's leaves ----
		var cs []*c02D
		for j := 0; j < r.Range(1, 2); j++ {
			c := mk(p.id, false, r.Intn(3))
			for d := 0; d < 2; d++ {
				c.max[d] = p.max[d]
				if r.Chance(1, 3) {
					c.max[d] = c02Max(p.max[d]/2, unit[d])
				}
				if r.Chance(1, 3) {
					c.min[d] = c02Min(amt(d, 0, pMinU[d]/4), c.max[d])
				}
			}
			ann(c)
			cs = append(cs, c)
		}
		// ---- s: lending leaf under g2 that wants at least the whole cluster ----
		s := mk(g[1].id, false, r.Intn(2))
		for d := 0; d < 2; d++ {
			s.max[d] = amt(d, totU[d]+1, totU[d]*2)
			if r.Bool() {
				s.min[d] = c02Min(amt(d, 0, totU[d]/4), s.max[d])
			}
		}
		ann(s)
		var tq *c02D
		if r.Bool() {
			tq = mk(g[0].id, false, r.Intn(2))
			for d := 0; d < 2; d++ {
				tq.max[d] = amt(d, totU[d]/2, totU[d]*2)
			}
			ann(tq)
		}
		leaves := append([]*c02D{s}, cs...)
		if tq != nil {
			leaves = append(leaves, tq)
		}

		m := c02NewMgr(w)
		startBelow := !r.Chance(1, 6)
		if startBelow {
			h.Tag("move:children-start-below-min")
		} else {
			h.Tag("move:children-start-anywhere")
		}
		h.Op("step 0")
		h.Obs("step 0")
		crashed := h.Guard(func() {
			for _, q := range w.qs { // parents come before their children in w.qs
				if err := m.gqm.UpdateQuota(c02Build(w, q)); err != nil {
					t.Fatalf("UpdateQuota: %v", err)
				}
			}
			for _, q := range leaves {
				var nw [3]int64
				for d := 0; d < 2; d++ {
					switch {
					case q == s:
						nw[d] = amt(d, totU[d], totU[d]*2)
					case q == tq:
						nw[d] = amt(d, 0, totU[d])
					case startBelow: // all children together stay below p's min
						nw[d] = amt(d, 0, pMinU[d]/(2*len(cs)))
					default:
						nw[d] = amt(d, 0, totU[d])
					}
					if nw[d] < 0 {
						nw[d] = 0
					}
				}
				m.setReq(q, q.req, nw)
				q.req = nw
			}
		})
		if crashed {
			h.Fail("C02:panic", "building the tree panicked")
			h.End()
			continue
		}
		goOn := c02SpecCheck(h, w, m, r)

		steps := 2 + r.Range(2, 5)
		for st := 0; st < steps && goOn; st++ {
			var ops []func()
			setReq := func(q *c02D, nw [3]int64) {
				old := q.req
				q.req = nw
				ops = append(ops, func() { m.setReq(q, old, nw) })
			}
			kind := 0
			switch {
			case st == 0:
				kind = 7
			case st == 1:
				kind = 40
			default:
				kind = []int{4, 4, 7, 6}[r.Intn(4)]
			}
			code := kind
			switch kind {
			case 7: // p (with its children) moves to the other group parent
				if p.parent == g[0].id {
					p.parent = g[1].id
				} else {
					p.parent = g[0].id
				}
				eq := c02Build(w, p)
				ops = append(ops, func() {
					if err := m.gqm.UpdateQuota(eq); err != nil {
						panic(err)
					}
				})
				h.Tag("move:op:reparent-is-parent")
			case 40: // the children of p now ask for more than p's min
				code = 4
				c := cs[r.Intn(len(cs))]
				nw := c.req
				for d := 0; d < 2; d++ {
					var others int64
					for _, o := range cs {
						if o != c {
							others += o.req[d]
						}
					}
					want := p.min[d] + amt(d, 1, totU[d]/4+1)
					if v := want - others; v > nw[d] {
						nw[d] = v
					}
				}
				setReq(c, nw)
				h.Tag("move:op:children-above-min")
			case 4: // request of one leaf
				q := leaves[r.Intn(len(leaves))]
				nw := q.req
				for d := 0; d < 2; d++ {
					if r.Bool() {
						nw[d] = amt(d, 0, totU[d])
						if nw[d] < 0 || r.Chance(1, 6) {
							nw[d] = 0
						}
					}
				}
				setReq(q, nw)
				h.Tag("move:op:request")
			case 6: // cluster total
				d := r.Intn(2)
				old := w.total[d]
				w.total[d] = int64(r.Range(20, 400)) * unit[d]
				delta := c02MkRL(c02RLd{d: w.total[d] - old})
				ops = append(ops, func() { m.gqm.UpdateClusterTotalResource(delta) })
				h.Tag("move:op:total")
			}
			crashed = h.Guard(func() {
				for _, f := range ops {
					f()
				}
			})
			h.Op("step %d", code)
			if crashed {
				h.Obs("panic")
				h.Fail("C02:panic", "step kind %d panicked", code)
				break
			}
			h.Obs("step %d", code)
			if p.parent == g[1].id {
				// is there contention between p and s under g2 in some dimension while p's children ask for more than its min?
				for d := 0; d < 2; d++ {
					if c02DChildReq(w, p, d) > p.min[d] && p.min[d] > 0 {
						h.Tag("move:p-under-g2-children-above-min")
						break
					}
				}
			}
			goOn = c02SpecCheck(h, w, m, r)
		}
		h.End()
	}
	h.Close("three-level histories: two group parents g1, g2 under the root, an is-parent quota p (non-lending in 3/4, min > 0 in 7/8) under g1 with 1-2 leaves whose requests " +
		"start below p's min (5/6), a lending leaf s under g2 asking for at least the whole cluster, optionally a lending leaf t under g1; step 1 re-parents p (with its children) " +
		"from g1 to g2, step 2 raises the children's request above p's min, then 2-5 random steps (leaf request, p moved to the other group parent, cluster total); after every step " +
		"the per-(parent, dimension) blocks of the spec harness (declared-derived inputs, runtime oracle, glue / node cross-checks, fresh manager); non-trivial = a level with >=2 siblings")
}
