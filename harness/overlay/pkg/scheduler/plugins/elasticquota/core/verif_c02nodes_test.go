//go:build verif

package core

import (
	"fmt"
	"os"
	"sort"
	"testing"

	v1 "k8s.io/api/core/v1"
	"k8s.io/apimachinery/pkg/api/resource"
	metav1 "k8s.io/apimachinery/pkg/apis/meta/v1"
	utilfeature "k8s.io/apiserver/pkg/util/feature"

	"github.com/koordinator-sh/koordinator/apis/extension"
	"github.com/koordinator-sh/koordinator/pkg/features"
)

// C02 `nodes` harness (TestVerifC02Nodes): what the top level "has" is driven through the REAL node event path
// (GroupQuotaManager.OnNodeAdd / OnNodeUpdate(old, new) / OnNodeDelete) instead of UpdateClusterTotalResource.
// The harness keeps its own node set (the last object per node, like an informer); the oracle's cluster total is
// the from-scratch sum of every resource name over the nodes that CURRENTLY exist (a name a node does not list
// counts 0 for that node); the runtime oracle c02Oracle, the declared-object glue checks and the fresh-manager
// comparison of the `spec` harness (c02SpecCheck) then run with that total — the fresh manager is fed the final
// nodes with OnNodeAdd.

type c02NodeSet struct {
	cur    map[int]c02RLd
	nextID int
	gone   []int // ids of deleted nodes (one of them may come back)
	// with min scaling on: node 1 always NAMES every dimension, offers some cpu and is never deleted.  Min scaling
	// walks over the keys of the total last handed to the root calculator (getScaledMinQuota: `for resName := range
	// newTotalRes`), and that list is only replaced when it changes by VALUE — a dimension no node names, or a
	// cluster whose every amount is 0 from the start, is not scaled although it reads 0 (props/C02.json assumptions)
	anchor int
}

func (s *c02NodeSet) ids() []int {
	ids := make([]int, 0, len(s.cur))
	for id := range s.cur {
		ids = append(ids, id)
	}
	sort.Ints(ids)
	return ids
}

// sum is the documented rule: per resource name, the sum over the current nodes.
func (s *c02NodeSet) sum() [3]int64 {
	var t [3]int64
	for _, a := range s.cur {
		for d := 0; d < 3; d++ {
			t[d] += a[d]
		}
	}
	return t
}

func c02nName(id int) string { return fmt.Sprintf("n%03d", id) }

func c02nObj(id int, a c02RLd) *v1.Node {
	return &v1.Node{ObjectMeta: metav1.ObjectMeta{Name: c02nName(id)}, Status: v1.NodeStatus{Allocatable: c02MkRL(a)}}
}

// c02nNewMgr: the production constructor (it owns nodeResourceMap) fed with the CURRENT nodes only.
func c02nNewMgr(w *c02World) *c02Mgr {
	big := v1.ResourceList{
		v1.ResourceCPU:    *resource.NewQuantity(1<<60, resource.DecimalSI),
		v1.ResourceMemory: *resource.NewQuantity(1<<60, resource.BinarySI),
	}
	g := NewGroupQuotaManager("", w.scale, big.DeepCopy(), big.DeepCopy())
	for _, id := range w.nodes.ids() {
		g.OnNodeAdd(c02nObj(id, w.nodes.cur[id]))
	}
	return &c02Mgr{gqm: g}
}

func c02nGenVal(r *vRand, d int) int64 {
	switch d {
	case 0:
		v := int64(r.Range(4, 64)) * 1000
		if r.Chance(1, 6) {
			v += int64(r.Range(-900, 900))
		}
		return v
	case 1:
		return int64(r.Range(8, 256)) << 30
	}
	return int64(r.Range(1, 16))
}

// c02nGenAlloc: cpu / memory mostly present, the third dimension present / explicit 0 / absent.
func c02nGenAlloc(r *vRand, anchor bool) c02RLd {
	a := c02RLd{}
	for d := 0; d < 3; d++ {
		absent, zero := r.Chance(1, 10), r.Chance(1, 16)
		if d == 2 {
			absent, zero = r.Chance(1, 3), r.Chance(1, 6)
		}
		switch {
		case anchor && d == 0:
			a[d] = c02nGenVal(r, d)
		case absent && !anchor:
		case absent || zero:
			a[d] = 0
		default:
			a[d] = c02nGenVal(r, d)
		}
	}
	if len(a) == 0 && r.Bool() {
		return nil // a node that reports no allocatable at all
	}
	return a
}

// c02nMutAlloc changes 1-2 dimensions of a node's allocatable: new value, drop to an explicit 0, the key vanishes,
// the key (re)appears with a value or with 0.
func c02nMutAlloc(h *vHarness, r *vRand, old c02RLd, anchor bool) c02RLd {
	a := old.clone()
	if a == nil {
		a = c02RLd{}
	}
	for c := 0; c < r.Range(1, 2); c++ {
		d := []int{0, 1, 2, 2}[r.Intn(4)]
		if _, ok := a[d]; ok {
			switch k := r.Intn(20); {
			case k < 8 || (anchor && d == 0):
				a[d] = c02nGenVal(r, d)
				h.Tag("nodes:value-changed")
			case k < 11:
				a[d] = 0
				h.Tag("nodes:value-to-explicit-zero")
			case k < 18:
				if anchor {
					a[d] = 0
				} else {
					delete(a, d)
					h.Tag(fmt.Sprintf("nodes:key-vanished:%d", d))
				}
			}
		} else if r.Chance(7, 10) {
			a[d] = c02nGenVal(r, d)
			h.Tag(fmt.Sprintf("nodes:key-appeared:%d", d))
		} else {
			a[d] = 0
			h.Tag(fmt.Sprintf("nodes:key-appeared-as-zero:%d", d))
		}
	}
	return a
}

// c02nObserve emits what the manager holds after a node event and judges it against the current node set.
func c02nObserve(h *vHarness, w *c02World, m *c02Mgr) {
	var t, p [3]int64
	rootCalc := m.gqm.runtimeQuotaCalculatorMap[extension.RootQuotaName]
	for d := 0; d < 3; d++ {
		t[d] = c02Val(m.gqm.totalResource, d)
		p[d] = c02Val(rootCalc.totalResource, d)
	}
	cur := w.nodes.ids()
	var known []int
	for _, id := range cur {
		if _, ok := m.gqm.nodeResourceMap[c02nName(id)]; ok {
			known = append(known, id)
		}
	}
	extra := len(m.gqm.nodeResourceMap) - len(known)
	h.Obs("ntot %d %d %d %d %d %d n %d%s x %d", t[0], t[1], t[2], p[0], p[1], p[2], len(known), c02nInts(known), extra)
	want := w.nodes.sum()
	for d := 0; d < 3; d++ {
		if t[d] != want[d] || p[d] != want[d] {
			h.Fail("C02:cluster-total-not-sum-of-nodes", "dimension %d: the current nodes %v offer %d in total, the manager's cluster total reads %d and the root calculator divides %d",
				d, w.nodes.cur, want[d], t[d], p[d])
		}
	}
	if len(known) != len(cur) || extra != 0 {
		h.Fail("C02:node-set-not-current", "current nodes %v, the manager knows %d of them and %d others", cur, len(known), extra)
	}
	w.total = want
}

// c02nScaleNamed: min scaling only looks at the dimensions that the total last handed to the root calculator NAMES
// (`for resName := range newTotalRes`), and that list is replaced only when it changes by value.  A dimension that
// reads 0 because no current node names it (or a cluster whose every amount is 0 from the start) is therefore scaled
// or not depending on the history: open known finding C02:scale-skips-dimension-total-does-not-name.  With the anchor
// node (random stream) this cannot happen; the 6 directed no-anchor cases of TestVerifC02Nodes and the wider exhibit
// stream VERIF_C02_NODES_NOANCHOR=1 end such a case with exactly that fingerprint.
func c02nScaleNamed(h *vHarness, w *c02World, m *c02Mgr) bool {
	if !w.scale {
		return true
	}
	var fresh *c02Mgr
	for d := 0; d < 3; d++ {
		declared := false
		for _, q := range w.kids(0) {
			if q.min[d] > 0 {
				declared = true
			}
		}
		_, named := m.gqm.totalResourceExceptSystemAndDefaultUsed[c02Dims[d]]
		if fresh == nil {
			fresh = c02nNewMgr(w)
		}
		_, freshNamed := fresh.gqm.totalResourceExceptSystemAndDefaultUsed[c02Dims[d]]
		if declared && !(named && freshNamed) {
			h.Fail("C02:scale-skips-dimension-total-does-not-name", "min scaling is on, top-level quotas declare a minimum in dimension %d, the current nodes %v offer %d of it, "+
				"but the total this manager scales against (%v) or the one a manager fed the current nodes scales against (%v) does not name that dimension: named => these minimums are scaled to 0, not named => they are left alone",
				d, w.nodes.cur, w.nodes.sum()[d], m.gqm.totalResourceExceptSystemAndDefaultUsed, fresh.gqm.totalResourceExceptSystemAndDefaultUsed)
			return false
		}
	}
	return true
}

func c02nInts(xs []int) string {
	s := ""
	for _, x := range xs {
		s += fmt.Sprintf(" %d", x)
	}
	return s
}

// the three events; each one updates the harness's own node set by the informer's rule
func c02nAdd(h *vHarness, w *c02World, m *c02Mgr, id int, a c02RLd) bool {
	h.Op("nadd %d %s", id, c02EmitRL(a))
	crashed := h.Guard(func() { m.gqm.OnNodeAdd(c02nObj(id, a)) })
	if _, ok := w.nodes.cur[id]; !ok {
		w.nodes.cur[id] = a.clone()
	}
	return crashed
}

func c02nUpdate(h *vHarness, w *c02World, m *c02Mgr, id int, old, nw c02RLd) bool {
	h.Op("nupd %d %s %s", id, c02EmitRL(old), c02EmitRL(nw))
	crashed := h.Guard(func() { m.gqm.OnNodeUpdate(c02nObj(id, old), c02nObj(id, nw)) })
	w.nodes.cur[id] = nw.clone()
	return crashed
}

func c02nDelete(h *vHarness, w *c02World, m *c02Mgr, id int, a c02RLd) bool {
	h.Op("ndel %d %s", id, c02EmitRL(a))
	crashed := h.Guard(func() { m.gqm.OnNodeDelete(c02nObj(id, a)) })
	delete(w.nodes.cur, id)
	return crashed
}

func c02nMkQuota(w *c02World, r *vRand, id, parent int, isParent bool, dims []int) *c02D {
	q := &c02D{id: id, name: fmt.Sprintf("q%03d", id), parent: parent, isParent: isParent, present: true,
		lend: r.Intn(3), rootLabeled: r.Bool(), max: c02RLd{}}
	for _, d := range dims {
		q.max[d] = c02GenAmount(r, d)
	}
	c02GenMin(r, q)
	c02GenAnn(r, q)
	w.qs = append(w.qs, q)
	return q
}

func TestVerifC02Nodes(t *testing.T) {
	h := vOpen("C02")
	if h == nil {
		t.Skip("VERIF_OUT not set")
	}
	gateName := string(features.ElasticQuotaGuaranteeUsage)
	if err := utilfeature.DefaultMutableFeatureGate.Set(gateName + "=false"); err != nil {
		t.Fatalf("feature gate: %v", err)
	}
	const directed = 4
	const unnamed = 6 // directed cases of the open known finding C02:scale-skips-dimension-total-does-not-name
	noAnchor := os.Getenv("VERIF_C02_NODES_NOANCHOR") == "1"
	n := h.N(500, 12000)
	for idx := 0; idx < n; idx++ {
		r := h.Begin(idx)
		if r == nil {
			continue
		}
		w := &c02World{nodes: &c02NodeSet{cur: map[int]c02RLd{}, nextID: 1}}
		var m *c02Mgr
		crashed := false
		finish := func(what string) {
			h.Obs("panic")
			h.Fail("C02:panic", "%s panicked", what)
		}
		if idx < directed {
			// ---- directed: two nodes with 8 GPUs each, siblings a and b (min 4, request 8 each); then node 1 …
			//   0: loses the gpu key   1: drops gpu to an explicit 0   2: loses the memory key   3: is deleted
			m = c02NewMgr(w)
			full := c02RLd{0: 32000, 1: 64 << 30, 2: 8}
			c02nAdd(h, w, m, 1, full)
			c02nObserve(h, w, m)
			c02nAdd(h, w, m, 2, full)
			c02nObserve(h, w, m)
			for i := 1; i <= 2; i++ {
				q := &c02D{id: i, name: fmt.Sprintf("q%03d", i), present: true, max: c02RLd{0: 64000, 1: 128 << 30, 2: 16},
					min: c02RLd{0: 4000, 1: 16 << 30, 2: 4}}
				w.qs = append(w.qs, q)
				if err := m.gqm.UpdateQuota(c02Build(w, q)); err != nil {
					t.Fatalf("UpdateQuota: %v", err)
				}
				nw := [3]int64{48000, 96 << 30, 8}
				m.setReq(q, q.req, nw)
				q.req = nw
			}
			c02SpecCheck(h, w, m, r)
			switch idx {
			case 0:
				c02nUpdate(h, w, m, 1, full, c02RLd{0: 32000, 1: 64 << 30})
			case 1:
				c02nUpdate(h, w, m, 1, full, c02RLd{0: 32000, 1: 64 << 30, 2: 0})
			case 2:
				c02nUpdate(h, w, m, 1, full, c02RLd{0: 32000, 2: 8})
			case 3:
				c02nDelete(h, w, m, 1, full)
			}
			h.Tag(fmt.Sprintf("nodes:directed:%d", idx))
			c02nObserve(h, w, m)
			c02SpecCheck(h, w, m, r)
			h.End()
			continue
		}
		if idx < directed+unnamed {
			// ---- directed, min scaling ON, NO anchor node: the class of the open known finding
			// C02:scale-skips-dimension-total-does-not-name — a dimension in which top-level quotas declare a minimum
			// reads 0 over the current nodes, and the total this manager (or a manager fed the current nodes) scales
			// against does not NAME it.  Each case ends at c02nScaleNamed with that fingerprint.
			//   0: a single node {gpu:6}                      1: a cluster that is all-zero from the start
			//   2: the node's cpu key vanishes (history names cpu, a fresh manager does not)
			//   3: the node drops to all-zero                 4: the only node naming cpu / memory is deleted
			//   5: no node at all
			w.scale = true
			h.Tag(fmt.Sprintf("nodes:directed-unnamed:%d", idx-directed))
			m = c02NewMgr(w)
			full := c02RLd{0: 8000, 1: 32 << 30, 2: 6}
			var evs []func() bool
			switch idx - directed {
			case 0:
				evs = append(evs, func() bool { return c02nAdd(h, w, m, 1, c02RLd{2: 6}) })
			case 1:
				evs = append(evs, func() bool { return c02nAdd(h, w, m, 1, c02RLd{0: 0, 1: 0, 2: 0}) })
			case 2:
				evs = append(evs, func() bool { return c02nAdd(h, w, m, 1, full) },
					func() bool { return c02nUpdate(h, w, m, 1, full, c02RLd{1: 32 << 30, 2: 6}) })
			case 3:
				evs = append(evs, func() bool { return c02nAdd(h, w, m, 1, full) },
					func() bool { return c02nUpdate(h, w, m, 1, full, c02RLd{0: 0, 1: 0, 2: 0}) })
			case 4:
				evs = append(evs, func() bool { return c02nAdd(h, w, m, 1, full) },
					func() bool { return c02nAdd(h, w, m, 2, c02RLd{2: 4}) },
					func() bool { return c02nDelete(h, w, m, 1, full) })
			}
			for _, ev := range evs {
				if crashed = ev(); crashed {
					break
				}
				c02nObserve(h, w, m)
			}
			h.Op("step 0")
			if crashed {
				finish("a node event")
				h.End()
				continue
			}
			h.Obs("step 0")
			for i := 1; i <= 2; i++ {
				q := &c02D{id: i, name: fmt.Sprintf("q%03d", i), present: true, max: c02RLd{0: 16000, 1: 64 << 30, 2: 8},
					min: c02RLd{0: 4000, 1: 8 << 30, 2: 2}}
				w.qs = append(w.qs, q)
				if err := m.gqm.UpdateQuota(c02Build(w, q)); err != nil {
					t.Fatalf("UpdateQuota: %v", err)
				}
				nw := [3]int64{12000, 48 << 30, 5}
				m.setReq(q, q.req, nw)
				q.req = nw
			}
			w.total = w.nodes.sum()
			if c02nScaleNamed(h, w, m) { // not reached on the unchanged tree
				c02SpecCheck(h, w, m, r)
			}
			h.End()
			continue
		}
		w.scale = r.Chance(1, 4)
		if w.scale {
			h.Tag("nodes:scale-min-on")
			w.nodes.anchor = 1
			if noAnchor { // exhibit stream, off by default: see c02nScaleNamed
				w.nodes.anchor = 0
			}
		}
		m = c02NewMgr(w)
		// ---- some nodes first, then the quotas, then more nodes ----
		addNode := func() bool {
			id := w.nodes.nextID
			if len(w.nodes.gone) > 0 && r.Chance(1, 3) { // a node that was deleted comes back under its old name
				id = w.nodes.gone[r.Intn(len(w.nodes.gone))]
				if _, back := w.nodes.cur[id]; back {
					id = w.nodes.nextID
				} else {
					h.Tag("nodes:op:deleted-node-returns")
				}
			}
			if id == w.nodes.nextID {
				w.nodes.nextID++
			}
			a := c02nGenAlloc(r, id == w.nodes.anchor)
			if r.Chance(1, 5) { // the add event was never seen: the node first shows up in an update
				h.Tag("nodes:op:add-via-update")
				return c02nUpdate(h, w, m, id, c02nGenAlloc(r, false), a)
			}
			h.Tag("nodes:op:add")
			return c02nAdd(h, w, m, id, a)
		}
		early := r.Range(0, 3)
		if w.scale && early == 0 {
			early = 1
		}
		for i := 0; i < early && !crashed; i++ {
			crashed = addNode()
			if !crashed {
				c02nObserve(h, w, m)
			}
		}
		if crashed {
			finish("a node event")
			h.End()
			continue
		}
		nextQ := 1
		top := r.Range(2, 4)
		for i := 0; i < top; i++ {
			dims := []int{0, 1, 2}
			if r.Chance(1, 4) {
				dims = []int{0, 1}
			}
			isP := i == 0 && r.Chance(1, 3)
			p := c02nMkQuota(w, r, nextQ, 0, isP, dims)
			nextQ++
			if isP {
				for j := 0; j < r.Range(1, 2); j++ {
					c02nMkQuota(w, r, nextQ, p.id, false, dims)
					nextQ++
				}
			}
		}
		h.Op("step 0")
		h.Obs("step 0")
		crashed = h.Guard(func() {
			for _, q := range w.qs {
				if err := m.gqm.UpdateQuota(c02Build(w, q)); err != nil {
					t.Fatalf("UpdateQuota: %v", err)
				}
			}
			for _, q := range w.qs {
				if !q.isParent {
					var nw [3]int64
					for _, d := range q.dims() {
						nw[d] = c02GenReq(r, d)
					}
					m.setReq(q, q.req, nw)
					q.req = nw
				}
			}
		})
		if crashed {
			finish("building the tree")
			h.End()
			continue
		}
		w.total = w.nodes.sum()
		goOn := c02nScaleNamed(h, w, m) && c02SpecCheck(h, w, m, r)
		steps := r.Range(4, 10)
		for s := 0; s < steps && goOn && !crashed; s++ {
			ids := w.nodes.ids()
			nodeEvent := true
			switch kind := r.Intn(16); {
			case kind <= 1 || len(ids) == 0:
				crashed = addNode()
			case kind <= 8: // allocatable of a known node changes
				id := ids[r.Intn(len(ids))]
				old := w.nodes.cur[id]
				h.Tag("nodes:op:update")
				crashed = c02nUpdate(h, w, m, id, old, c02nMutAlloc(h, r, old, id == w.nodes.anchor))
			case kind == 9: // a resync / heartbeat: same allocatable (another map instance), or nil vs {}
				id := ids[r.Intn(len(ids))]
				old := w.nodes.cur[id]
				nw := old.clone()
				if len(old) == 0 && r.Bool() {
					if old == nil {
						nw = c02RLd{}
					} else {
						nw = nil
					}
				}
				h.Tag("nodes:op:equal-update")
				crashed = c02nUpdate(h, w, m, id, old, nw)
			case kind == 10: // the add of a known node is replayed
				id := ids[r.Intn(len(ids))]
				h.Tag("nodes:op:replayed-add")
				crashed = c02nAdd(h, w, m, id, w.nodes.cur[id])
			case kind <= 12:
				id := ids[r.Intn(len(ids))]
				if id == w.nodes.anchor {
					nodeEvent = false
					break
				}
				h.Tag("nodes:op:delete")
				crashed = c02nDelete(h, w, m, id, w.nodes.cur[id])
				w.nodes.gone = append(w.nodes.gone, id)
			case kind == 13: // a delete for a node the manager never saw
				h.Tag("nodes:op:delete-unknown")
				crashed = c02nDelete(h, w, m, w.nodes.nextID+7, c02nGenAlloc(r, false))
			default:
				nodeEvent = false
			}
			if crashed {
				finish("a node event")
				break
			}
			if nodeEvent {
				c02nObserve(h, w, m)
			} else { // quota side: a leaf's request or one minimum changes
				var leaves, present []*c02D
				for _, q := range w.qs {
					if q.present {
						present = append(present, q)
						if !q.isParent {
							leaves = append(leaves, q)
						}
					}
				}
				if r.Chance(1, 4) { // the whole tree is rebuilt from the recorded quotas (ResetQuota): the root calculator is
					// re-created and must be told the cluster total again; saved requests are re-applied
					crashed = h.Guard(func() { m.gqm.ResetQuota() })
					h.Tag("nodes:op:reset-quota")
				} else if r.Bool() && len(leaves) > 0 {
					q := leaves[r.Intn(len(leaves))]
					nw := q.req
					for _, d := range q.dims() {
						if r.Bool() {
							nw[d] = c02GenReq(r, d)
						}
					}
					old := q.req
					q.req = nw
					crashed = h.Guard(func() { m.setReq(q, old, nw) })
					h.Tag("nodes:op:request")
				} else {
					q := present[r.Intn(len(present))]
					ds := q.dims()
					d := ds[r.Intn(len(ds))]
					if q.min == nil {
						q.min = c02RLd{}
					}
					q.min[d] = c02GenMinVal(r, q, d)
					eq := c02Build(w, q)
					crashed = h.Guard(func() {
						if err := m.gqm.UpdateQuota(eq); err != nil {
							panic(err)
						}
					})
					h.Tag("nodes:op:min-value")
				}
				h.Op("step 1")
				if crashed {
					finish("a quota step")
					break
				}
				h.Obs("step 1")
			}
			goOn = c02nScaleNamed(h, w, m) && c02SpecCheck(h, w, m, r)
		}
		h.Tag(fmt.Sprintf("nodes:final-node-count:%d", len(w.nodes.cur)))
		h.End()
	}
	h.Close("the cluster total is driven through GroupQuotaManager.OnNodeAdd / OnNodeUpdate(old,new) / OnNodeDelete on a manager built by the production constructor: " +
		"4 directed cases (two nodes with 8 GPUs each, siblings with min 4 / request 8; node 1 loses the gpu key / drops to an explicit 0 / loses the memory key / is deleted), then histories of 4-10 steps over " +
		"0-3 early nodes + 2-4 top-level quotas (one often a parent) + node add (1/5 of them first seen in an update; a deleted node may return under its old name), allocatable update (value change, drop to explicit 0, key vanishes, key appears with a value or 0; " +
		"the third dimension example.com/gpu twice as often), equal update (other map instance, nil vs {}), replayed add, delete, delete of an unknown node, leaf request / min changes, ResetQuota (whole tree rebuilt); min scaling on in 1/4 " +
		"(then, in the random stream, node 1 always names every dimension, offers some cpu and is never deleted; 6 directed cases WITHOUT that node — single node {gpu:6}, all-zero cluster from the start, cpu key vanishes, drop to all-zero, the naming node deleted, no node — end with the open known finding C02:scale-skips-dimension-total-does-not-name); after every node event the manager's total, the root calculator's total and the known node set are compared with the from-scratch sum over the " +
		"current nodes, then the spec harness's per-level blocks, runtime oracle and fresh manager (fed the final nodes with OnNodeAdd) run with that sum as the cluster total; non-trivial = a level with >=2 siblings")
}

// TestVerifC02NodesExhaustive (thorough tier): EVERY sequence of 1-4 informer-coherent node events over two nodes
// whose allocatable is one of six shapes (cpu absent | 2 cores) x (gpu absent | explicit 0 | 3): per node `set`
// to a shape (an add, or an update from the node's current object), delete, replayed add — 16 events.  After every
// event the manager's total / the root calculator's total / the known node set are compared with the from-scratch
// sum over the current nodes; at the end two fixed siblings (min 1 gpu / 1 core, request 4 gpu / 4 cores, lending)
// are divided and judged by c02Oracle against that sum.
func TestVerifC02NodesExhaustive(t *testing.T) {
	h := vOpen("C02")
	if h == nil {
		t.Skip("VERIF_OUT not set")
	}
	gateName := string(features.ElasticQuotaGuaranteeUsage)
	if err := utilfeature.DefaultMutableFeatureGate.Set(gateName + "=false"); err != nil {
		t.Fatalf("feature gate: %v", err)
	}
	var shapes []c02RLd
	for _, cpu := range []int64{-1, 2000} {
		for _, gpu := range []int64{-1, 0, 3} {
			a := c02RLd{}
			if cpu >= 0 {
				a[0] = cpu
			}
			if gpu >= 0 {
				a[2] = gpu
			}
			shapes = append(shapes, a)
		}
	}
	const nEv = 16 // per node: 6 set-to-shape, delete, replayed add
	idx := 0
	run := func(seq []int) {
		r := h.Begin(idx)
		idx++
		if r == nil {
			return
		}
		w := &c02World{nodes: &c02NodeSet{cur: map[int]c02RLd{}, nextID: 3}}
		m := c02NewMgr(w)
		for i := 1; i <= 2; i++ {
			q := &c02D{id: i, name: fmt.Sprintf("q%03d", i), present: true, max: c02RLd{0: 8000, 2: 8}, min: c02RLd{0: 1000, 2: 1}}
			w.qs = append(w.qs, q)
			if err := m.gqm.UpdateQuota(c02Build(w, q)); err != nil {
				t.Fatalf("UpdateQuota: %v", err)
			}
			q.req = [3]int64{4000, 0, 4}
			m.setReq(q, [3]int64{}, q.req)
		}
		crashed := false
		for _, e := range seq {
			id, k := e/8+1, e%8
			old, known := w.nodes.cur[id]
			switch {
			case k < 6 && known:
				crashed = c02nUpdate(h, w, m, id, old, shapes[k])
			case k < 6:
				crashed = c02nAdd(h, w, m, id, shapes[k])
			case k == 6 && known:
				crashed = c02nDelete(h, w, m, id, old)
			case k == 6: // delete of a node that does not exist: the informer has nothing to deliver; hand a junk object
				crashed = c02nDelete(h, w, m, id, shapes[5])
			case known:
				crashed = c02nAdd(h, w, m, id, old)
			default: // nothing to replay
				continue
			}
			if crashed {
				h.Obs("panic")
				h.Fail("C02:panic", "a node event panicked")
				break
			}
			c02nObserve(h, w, m)
		}
		if !crashed {
			rts := m.refresh(w, nil)
			for _, d := range []int{0, 2} {
				var ns []*c02Node
				for _, q := range w.qs {
					ns = append(ns, &c02Node{name: q.id, w: q.max[d], req: q.req[d], min: q.min[d], lend: true, rt: c02Val(rts[q.id], d)})
				}
				c02Emit(h, w.total[d], ns)
				c02Oracle(h, w.total[d], ns)
			}
		}
		h.Nontrivial()
		h.End()
	}
	for n := 1; n <= 4; n++ {
		seq := make([]int, n)
		var rec func(i int)
		rec = func(i int) {
			if i == n {
				run(seq)
				return
			}
			for e := 0; e < nEv; e++ {
				seq[i] = e
				rec(i + 1)
			}
		}
		rec(0)
	}
	h.Extra("exhaustive", fmt.Sprintf("all sequences of 1..4 node events over 2 nodes x (6 allocatable shapes | delete | replayed add): %d cases", idx))
	h.Close("exhaustive: every sequence of 1-4 informer-coherent node events (set to one of 6 allocatable shapes = cpu absent|2000m x gpu absent|0|3, delete, replayed add) over two nodes, " +
		"total checked against the from-scratch sum after every event, two fixed lending siblings divided at the end; every case counts as non-trivial")
}
