//go:build verif

package elasticquota

import (
	"context"
	"fmt"
	"os"
	"sort"
	"sync"
	"sync/atomic"
	"testing"
	"time"

	corev1 "k8s.io/api/core/v1"
	"k8s.io/apimachinery/pkg/api/resource"
	metav1 "k8s.io/apimachinery/pkg/apis/meta/v1"
	"k8s.io/apimachinery/pkg/types"
	k8sfeature "k8s.io/apiserver/pkg/util/feature"
	"k8s.io/klog/v2"
	fwktype "k8s.io/kube-scheduler/framework"
	"k8s.io/kubernetes/pkg/scheduler/framework"

	"github.com/koordinator-sh/koordinator/apis/extension"
	"github.com/koordinator-sh/koordinator/apis/thirdparty/scheduler-plugins/pkg/apis/scheduling/v1alpha1"
	koordfeatures "github.com/koordinator-sh/koordinator/pkg/features"
	"github.com/koordinator-sh/koordinator/pkg/scheduler/apis/config"
	"github.com/koordinator-sh/koordinator/pkg/scheduler/plugins/elasticquota/core"
	utilfeature "github.com/koordinator-sh/koordinator/pkg/util/feature"
)

// c03GuaranteeGate switches the alpha feature gate ElasticQuotaGuaranteeUsage on for the rest of the case (the helper the
// package's own tests use) and tells the model (`gate 1`: quota objects yield allow-lent = false).  The property does not
// mention the gate: every oracle clause - the non-preemptible bound = the DECLARED min in particular - stays as it is.
// c03GateRTFinding: open known finding - with the gate ElasticQuotaGuaranteeUsage AND the runtime quota on, a group's runtime
// has the floor Guaranteed = max(Allocated, min) and can exceed the group's max; pods are then admitted above max.
const c03GateRTFinding = "C03:limit-exceeded:guarantee-gate-runtime"

// limFP: the fingerprint of a limit clause (runtime-above-max, used-above-max, admitted-over-limit:*).  While the gate and
// the runtime quota are both on every failure of such a clause is reported under the one fingerprint of the known
// finding; with the gate off or the runtime quota off the generic fingerprint stays (a seeded change is a plain VIOLATION).
func (w *c03World) limFP(generic string) string {
	if w.gu && w.cfgRT {
		return c03GateRTFinding
	}
	return generic
}

// c03ForceGateRT: c03Case runs with the gate and the runtime quota on whatever its index says (the handful of random
// gate + runtime cases that harness guarantee runs by default).
var c03ForceGateRT bool

// c03GateRT: run the gated cases also with the runtime quota on (off by default, see c03Case).
func c03GateRT() bool { return os.Getenv("VERIF_C03_GATE_RT") == "1" }

// minSumsLegal: the webhook's checkMinQuotaValidate on the registered tree - the min entries of the child groups of every
// group (root excluded) add up to at most the group's own min, on every dimension a child declares.  Diagnostic only
// (quoted in the runtime-above-max / used-above-max messages): the generators do not keep this rule.
func (w *c03World) minSumsLegal() bool {
	for _, id := range w.order {
		var sum [c03D]int64
		var has [c03D]bool
		for _, c := range w.order {
			if w.quotas[c].parent != id {
				continue
			}
			for d := 0; d < c03D; d++ {
				if w.quotas[c].min.has[d] {
					has[d] = true
					sum[d] += w.quotas[c].min.v[d]
				}
			}
		}
		for d := 0; d < c03D; d++ {
			if has[d] && (!w.quotas[id].min.has[d] || sum[d] > w.quotas[id].min.v[d]) {
				return false
			}
		}
	}
	return true
}

func c03GuaranteeGate(t *testing.T, h *vHarness, on bool) func() {
	h.Tag(fmt.Sprintf("gate:guarantee-usage:%d", vB(on)))
	if !on {
		return func() {}
	}
	restore := utilfeature.SetFeatureGateDuringTest(t, k8sfeature.DefaultMutableFeatureGate, koordfeatures.ElasticQuotaGuaranteeUsage, true)
	h.Op("gate 1")
	return restore
}

// C03 harness: long generated histories against the real plugin
//   OnQuotaAdd/OnQuotaUpdate (max/min changes, re-parenting, is-parent / allow-lent flips = tree reset),
//   OnNodeAdd/OnNodeUpdate, OnPodAdd, PreFilter, Reserve, Unreserve, OnPodDelete
// for the four combinations of EnableRuntimeQuota x EnableCheckParentQuota.  Ops go to the Lean model,
// observations are the PreFilter status code and the Used/NonPreemptibleUsed of every group after every
// state-changing event.  The oracle keeps its own books (which pods are assigned, their requests, the
// tree, the declared max/min) and evaluates the property statement per attempt and per event.

var c03Dims = []corev1.ResourceName{corev1.ResourceCPU, corev1.ResourceMemory, "nvidia.com/gpu"}

const c03D = 3

// c03RL is the integer projection of a ResourceList over c03Dims.
type c03RL struct {
	has [c03D]bool
	v   [c03D]int64
}

func c03Quantity(d int, v int64) resource.Quantity {
	switch d {
	case 0:
		return *resource.NewMilliQuantity(v, resource.DecimalSI)
	case 1:
		return *resource.NewQuantity(v, resource.BinarySI)
	default:
		return *resource.NewQuantity(v, resource.DecimalSI)
	}
}

func (l c03RL) list() corev1.ResourceList {
	out := corev1.ResourceList{}
	for d := 0; d < c03D; d++ {
		if l.has[d] {
			out[c03Dims[d]] = c03Quantity(d, l.v[d])
		}
	}
	return out
}

func c03FromList(l corev1.ResourceList) c03RL {
	var out c03RL
	for d := 0; d < c03D; d++ {
		if q, ok := l[c03Dims[d]]; ok {
			out.has[d] = true
			if d == 0 {
				out.v[d] = q.MilliValue()
			} else {
				out.v[d] = q.Value()
			}
		}
	}
	return out
}

func (l c03RL) toks() string {
	s := ""
	for d := 0; d < c03D; d++ {
		if d > 0 {
			s += " "
		}
		s += fmt.Sprintf("%d %d", vB(l.has[d]), l.v[d])
	}
	return s
}

type c03Quota struct {
	id       int
	parent   int // 0 = root
	isParent bool
	lent     bool
	max, min c03RL
	obj      *v1alpha1.ElasticQuota
	added    bool
	lastRT   *c03RL
}

type c03Pod struct {
	labelKind int // 0: quota label names the group; 1: names a group that does not exist; 2: no quota label
	id        int
	quota     int
	np        bool
	req       c03RL
	obj       *corev1.Pod
	inCache   bool
	assigned  bool
	inc       int           // incarnation: the UID of the current object is uid-<id>-<inc> (uid-<id> for the first)
	stale     []*corev1.Pod // objects of earlier incarnations (index = incarnation)
}

// c03Names overrides the generated group names (default-quota harness: 1 = default, 2 = system quota).
var c03Names map[int]string

func c03QName(id int) string {
	if id == 0 {
		return extension.RootQuotaName
	}
	if n, ok := c03Names[id]; ok {
		return n
	}
	return fmt.Sprintf("q%d", id)
}

func c03MakeQuota(q *c03Quota, rv int) *v1alpha1.ElasticQuota {
	eq := &v1alpha1.ElasticQuota{
		ObjectMeta: metav1.ObjectMeta{
			Name: c03QName(q.id), Namespace: "ns", ResourceVersion: fmt.Sprint(rv),
			Labels: map[string]string{}, Annotations: map[string]string{},
		},
		Spec: v1alpha1.ElasticQuotaSpec{Max: q.max.list(), Min: q.min.list()},
	}
	if q.parent != 0 {
		eq.Labels[extension.LabelQuotaParent] = c03QName(q.parent)
	}
	eq.Labels[extension.LabelQuotaIsParent] = fmt.Sprint(q.isParent)
	if !q.lent {
		eq.Labels[extension.LabelAllowLentResource] = "false"
	}
	return eq
}

func c03MakePod(r *vRand, p *c03Pod) *corev1.Pod {
	pod := &corev1.Pod{
		ObjectMeta: metav1.ObjectMeta{
			Namespace: "ns", Name: fmt.Sprintf("p%d", p.id), UID: types.UID(fmt.Sprintf("uid-%d-%d", p.id, p.inc)),
			Labels: map[string]string{extension.LabelQuotaName: c03QName(p.quota)},
		},
	}
	switch p.labelKind {
	case 1:
		pod.Labels[extension.LabelQuotaName] = fmt.Sprintf("no-such-quota-%d", p.id)
	case 2:
		delete(pod.Labels, extension.LabelQuotaName)
	}
	if p.np {
		pod.Labels[extension.LabelPreemptible] = "false"
	}
	// split the request over one or two containers (key set of the pod = union of the containers')
	two := r.Bool()
	a, b := corev1.ResourceList{}, corev1.ResourceList{}
	for d := 0; d < c03D; d++ {
		if !p.req.has[d] {
			continue
		}
		if two && r.Bool() {
			x := p.req.v[d] / 2
			a[c03Dims[d]] = c03Quantity(d, x)
			b[c03Dims[d]] = c03Quantity(d, p.req.v[d]-x)
		} else if two && r.Bool() {
			b[c03Dims[d]] = c03Quantity(d, p.req.v[d])
		} else {
			a[c03Dims[d]] = c03Quantity(d, p.req.v[d])
		}
	}
	pod.Spec.Containers = append(pod.Spec.Containers, corev1.Container{Name: "a", Resources: corev1.ResourceRequirements{Requests: a}})
	if two {
		pod.Spec.Containers = append(pod.Spec.Containers, corev1.Container{Name: "b", Resources: corev1.ResourceRequirements{Requests: b}})
	}
	return pod
}

func c03Node(capacity c03RL, rv int) *corev1.Node {
	return &corev1.Node{
		ObjectMeta: metav1.ObjectMeta{Name: "n1", ResourceVersion: fmt.Sprint(rv)},
		Status:     corev1.NodeStatus{Allocatable: capacity.list()},
	}
}

var c03CPUVals = []int64{250, 500, 1000, 1500, 2000}

func c03GenMax(r *vRand, bound *c03RL) c03RL {
	var m c03RL
	for d := 0; d < c03D; d++ {
		m.has[d] = true
	}
	m.v[0] = int64(r.Range(2, 16)) * 500
	m.v[1] = int64(r.Range(2, 16))
	m.v[2] = int64(r.Range(0, 4))
	if bound != nil && r.Bool() { // otherwise the child's max is free: an ancestor may be the tighter limit
		for d := 0; d < c03D; d++ {
			if bound.has[d] && m.v[d] > bound.v[d] {
				m.v[d] = bound.v[d]
			}
		}
	}
	return m
}

func c03GenMin(r *vRand, max c03RL) c03RL {
	var m c03RL
	for d := 0; d < c03D; d++ {
		m.has[d] = !r.Chance(1, 12)
		hi := max.v[d]
		if !max.has[d] {
			hi = 4
		}
		switch r.Intn(4) {
		case 0:
			m.v[d] = 0
		case 1:
			m.v[d] = hi
		default:
			m.v[d] = r.Int63n(hi + 1)
		}
		if d == 0 {
			m.v[d] -= m.v[d] % 250
		}
	}
	return m
}

func c03GenReq(r *vRand) c03RL {
	var q c03RL
	if !r.Chance(1, 10) {
		q.has[0] = true
		if !r.Chance(1, 12) {
			q.v[0] = r.Pick(c03CPUVals)
		}
	}
	if !r.Chance(1, 10) {
		q.has[1] = true
		q.v[1] = int64(r.Range(0, 5))
	}
	if r.Bool() {
		q.has[2] = true
		q.v[2] = int64(r.Range(0, 2))
	}
	return q
}

type c03World struct {
	t      *testing.T
	h      *vHarness
	gp     *Plugin
	cfgRT  bool
	cfgCP  bool
	quotas map[int]*c03Quota
	order  []int // ids of registered groups, ascending
	pods   map[int]*c03Pod
	rv     int
	// closed-loop checks are claimed for histories that never lower max/min and reserve only admitted pods
	closedLoop bool
	// koordinator-default-quota / koordinator-system-quota: RefreshRuntime never writes their Runtime list
	special map[int]bool
	stream  string
	// set by a webhook-illegal meta change (wild / exhaustive streams): the manager's books are then off by design of
	// the code, the used = assigned clauses and the consistency assumptions are not claimed any more
	acctBroken bool
	// between a bind update and the migration tick a pod is (by design) held by two groups: no used = assigned claim
	transient bool
	// known finding C03:dimension-added-under-assigned-pods: the key set of a group's max changed while pods assigned in
	// the group held the touched dimension.  shiftDims = those dimensions, shiftGroups = the groups whose figures can
	// carry the difference (the group and its ancestors, then and now), shiftAt = the groups whose key set changed.
	shiftDims   map[int]bool
	shiftGroups map[int]bool
	shiftAt     map[int]bool
	// the feature gate ElasticQuotaGuaranteeUsage is on in this case
	gu bool
}

// shifted: the mask of an assigned pod moved (see shiftDims).
func (w *c03World) shifted() bool { return len(w.shiftDims) > 0 }

// shiftExplains: the reported figure differs from the from-scratch sum only in dimensions whose mask shifted, for a group
// on the path of a group whose key set changed.
func (w *c03World) shiftExplains(id int, got, want [c03D]int64) bool {
	if !w.shifted() {
		return false
	}
	on := w.shiftGroups[id]
	for g := range w.shiftAt {
		for _, a := range w.chain(g) {
			if a == id {
				on = true
			}
		}
	}
	if !on {
		return false
	}
	for d := 0; d < c03D; d++ {
		if got[d] != want[d] && !w.shiftDims[d] {
			return false
		}
	}
	return true
}

// below: q and every planned/registered group under it.
func (w *c03World) below(q int) map[int]bool {
	out := map[int]bool{q: true}
	for changed := true; changed; {
		changed = false
		for id, x := range w.quotas {
			if !out[id] && x.parent != 0 && out[x.parent] {
				out[id] = true
				changed = true
			}
		}
	}
	return out
}

// plannedChild: some planned (registered or late) group names q as its parent.
func (w *c03World) plannedChild(q int) bool {
	for _, x := range w.quotas {
		if x.parent == q {
			return true
		}
	}
	return false
}

func (w *c03World) sortedIDs(pred func(*c03Quota) bool) []int {
	var ids []int
	for _, id := range w.order {
		if pred(w.quotas[id]) {
			ids = append(ids, id)
		}
	}
	sort.Ints(ids)
	return ids
}

// c03LeqMax: a <= max on the dimensions max declares.
func c03LeqMax(a [c03D]int64, max c03RL) bool {
	for d := 0; d < c03D; d++ {
		if max.has[d] && a[d] > max.v[d] {
			return false
		}
	}
	return true
}

// checkTreeConsistent tests the hypothesis `TreeConsistent` of the reset theorem (Lean: resetAll_inv) on the
// implementation's own report, with the is-parent flags the reset will see: what the groups of a subtree own
// (SelfUsed of an is-parent group, Used otherwise) is non-negative and does not exceed what the subtree's top shows.
func (w *c03World) checkTreeConsistent() {
	if w.acctBroken || w.shifted() {
		return
	}
	sums := w.gp.groupQuotaManager.GetQuotaSummaries(false)
	own := func(id int, np bool) c03RL {
		s := sums[c03QName(id)]
		switch {
		case s == nil:
			return c03RL{}
		case w.quotas[id].isParent && np:
			return c03FromList(s.SelfNonPreemptibleUsed)
		case w.quotas[id].isParent:
			return c03FromList(s.SelfUsed)
		case np:
			return c03FromList(s.NonPreemptibleUsed)
		}
		return c03FromList(s.Used)
	}
	for _, g := range w.order {
		sg := sums[c03QName(g)]
		if sg == nil {
			continue
		}
		sub := w.below(g)
		for _, np := range []bool{false, true} {
			top := c03FromList(sg.Used)
			if np {
				top = c03FromList(sg.NonPreemptibleUsed)
			}
			var sum [c03D]int64
			for _, x := range w.order {
				if !sub[x] {
					continue
				}
				o := own(x, np)
				for d := 0; d < c03D; d++ {
					if o.v[d] < 0 {
						w.h.Fail("C03:reset-assumption", "group %d owns a negative amount %v", x, o.v)
					}
					sum[d] += o.v[d]
				}
			}
			for d := 0; d < c03D; d++ {
				if sum[d] > top.v[d] {
					w.h.Fail("C03:reset-assumption", "before a tree reset: the groups below %d own %v (np=%v), more than its used %v", g, sum, np, top.v)
				}
			}
		}
	}
}

// checkReparentAssumption tests the consistency clauses `self` and `below` of `ReparentOK` (Lean: reparent_inv) on
// the implementation's own report before a move: the moved group's own part is within its total, and its total is
// contained in every old ancestor's.  (The clauses `fits` / `exLeaf` are what the generator itself guarantees.)
func (w *c03World) checkReparentAssumption(x *c03Quota) {
	if w.acctBroken || w.shifted() {
		return
	}
	sums := w.gp.groupQuotaManager.GetQuotaSummaries(false)
	sx := sums[c03QName(x.id)]
	if sx == nil {
		return
	}
	u, n := c03FromList(sx.Used), c03FromList(sx.NonPreemptibleUsed)
	su, sn := c03FromList(sx.SelfUsed), c03FromList(sx.SelfNonPreemptibleUsed)
	for d := 0; d < c03D; d++ {
		if su.v[d] < 0 || su.v[d] > u.v[d] || sn.v[d] < 0 || sn.v[d] > n.v[d] {
			w.h.Fail("C03:reparent-assumption", "group %d: self used %v / %v not within used %v / %v", x.id, su.v, sn.v, u.v, n.v)
		}
	}
	for _, g := range w.chain(x.parent) {
		sg := sums[c03QName(g)]
		if sg == nil {
			continue
		}
		gu, gn := c03FromList(sg.Used), c03FromList(sg.NonPreemptibleUsed)
		for d := 0; d < c03D; d++ {
			if u.v[d] > gu.v[d] || n.v[d] > gn.v[d] {
				w.h.Fail("C03:reparent-assumption", "group %d used %v / %v is not contained in its ancestor %d's %v / %v", x.id, u.v, n.v, g, gu.v, gn.v)
			}
		}
	}
}

// afterReset: a tree reset cleared every Runtime list (clearForResetNoLock); the next attempt re-reads them.
func (w *c03World) afterReset() {
	for _, q := range w.quotas {
		q.lastRT = nil
	}
}

// resetTags: coverage tags of a tree reset.
func (w *c03World) resetTags(kind string, pending int) {
	npPending, anyAssigned := false, false
	for _, p := range w.pods {
		if p.inCache && !p.assigned && p.np {
			npPending = true
		}
		if p.assigned {
			anyAssigned = true
		}
	}
	w.h.Tag("meta:" + kind)
	if npPending {
		w.h.Tag("reset:with-pending-non-preemptible-pod")
	}
	if anyAssigned {
		w.h.Tag("reset:with-assigned-pods")
	}
	if pending != 0 {
		w.h.Tag("interleave:reset-inside-cycle")
	}
}

// flipLegal: the webhook admits the is-parent flip of q (to false only without child groups, to true only without
// assigned pods).
func (w *c03World) flipLegal(q *c03Quota) bool {
	if q.isParent {
		return !w.plannedChild(q.id)
	}
	for _, p := range w.pods {
		if p.quota == q.id && p.assigned {
			return false
		}
	}
	return true
}

// doFlip: allow-lent or is-parent flip of q => updateQuotaInfoFromRemote + resetQuotaNoLock.
func (w *c03World) doFlip(q *c03Quota, isParent bool, pending int) {
	if isParent {
		if !w.flipLegal(q) {
			w.h.Tag("meta:is-parent-flip:webhook-illegal")
			if q.isParent {
				// is-parent -> false with child groups: the reset saves Used, which includes the children's usage, and
				// adds the children's own on top; model correspondence only, the oracle's clauses are off from here on
				w.acctBroken = true
				w.closedLoop = false
			}
		}
		q.isParent = !q.isParent
		w.resetTags(fmt.Sprintf("is-parent-flip:%v", q.isParent), pending)
	} else {
		q.lent = !q.lent
		w.resetTags("lent-flip", pending)
	}
	w.checkTreeConsistent()
	w.setQuota(q)
	w.afterReset()
}

// moveFits: the clauses `fits` / `exLeaf` of ReparentOK by the oracle's own books: with parent checking on the moved
// usage stays within the max of every ancestor that is new; an old parent left without child groups shows own usage
// within max / min.
func (w *c03World) moveFits(x *c03Quota, p int) bool {
	xUsed, xNp := w.usedO(x.id, false), w.usedO(x.id, true)
	oldAnc := map[int]bool{}
	for _, a := range w.chain(x.parent) {
		oldAnc[a] = true
	}
	if w.cfgCP {
		for _, g := range w.chain(p) {
			if oldAnc[g] {
				continue
			}
			u := w.usedO(g, false)
			for d := 0; d < c03D; d++ {
				u[d] += xUsed[d]
			}
			if !c03LeqMax(u, w.quotas[g].max) {
				return false
			}
		}
	}
	if o := x.parent; o != 0 {
		other := false
		for id, y := range w.quotas {
			if y.parent == o && id != x.id && y.added {
				other = true
			}
		}
		if !other { // the old parent is left without child groups
			u, n := w.usedO(o, false), w.usedO(o, true)
			for d := 0; d < c03D; d++ {
				u[d] -= xUsed[d]
				n[d] -= xNp[d]
			}
			if !c03LeqMax(u, w.quotas[o].max) || !c03LeqMax(n, w.quotas[o].min) {
				return false
			}
		}
	}
	return true
}

// moveShapeOK: the webhook admits p as the new parent of x (an is-parent group or the root, outside x's subtree,
// declaring every dimension x declares); depth bounded to 5 levels.
func (w *c03World) moveShapeOK(x *c03Quota, p int) bool {
	sub := w.below(x.id)
	if p == x.parent || sub[p] {
		return false
	}
	if p == 0 {
		return true
	}
	if !w.quotas[p].added || !w.quotas[p].isParent {
		return false
	}
	height := 0
	for id := range sub {
		if n := len(w.chainPlan(id)) - len(w.chainPlan(x.id)); n > height {
			height = n
		}
	}
	if len(w.chain(p))+height+1 > 5 {
		return false
	}
	for d := 0; d < c03D; d++ {
		if x.max.has[d] && !w.quotas[p].max.has[d] {
			return false
		}
	}
	return true
}

// doMove: parent-label change of x => updateQuotaNoLockWhenParentChange.
func (w *c03World) doMove(x *c03Quota, np int, flipLent bool, pending *int) {
	kind := "leaf"
	if w.hasChild(x.id) {
		kind = "intermediate"
	}
	w.h.Tag("meta:reparent:" + kind)
	xUsed, xNp := w.usedO(x.id, false), w.usedO(x.id, true)
	var zero [c03D]int64
	if xUsed != zero {
		w.h.Tag("meta:reparent:" + kind + ":with-usage")
		own := zero
		for _, p := range w.pods {
			if p.assigned && p.quota == x.id {
				m := w.reqM(p)
				for d := 0; d < c03D; d++ {
					own[d] += m[d]
				}
			}
		}
		if own != xUsed && xNp == zero {
			w.h.Tag("meta:reparent:children-usage-preemptible-only")
		}
	}
	if !x.isParent && w.hasChild(x.id) {
		// only after a webhook-illegal is-parent flip: the children's usage is dropped by the move
		w.acctBroken = true
		w.closedLoop = false
	}
	if !w.moveFits(x, np) {
		w.h.Tag("meta:reparent:does-not-fit")
		w.closedLoop = false // moving a subtree is not an admission: the used <= max clauses are off from here on
	}
	if *pending != 0 {
		// between PreFilter and Reserve of the admitted pod: a move touches its path when the moved group is on it
		// (the new ancestors were never checked; Lean: interleaved_reparent_counterexample) or when moved usage arrives
		// under one of its ancestors (checked before the arrival; Lean: interleaved_arrival_counterexample).
		// Such interleavings are outside the closed-loop histories: the admission is dropped.
		path := map[int]bool{}
		for _, a := range w.chain(w.pods[*pending].quota) {
			path[a] = true
		}
		touch := path[x.id]
		if xUsed != zero {
			for _, g := range w.chain(np) {
				if path[g] {
					touch = true
				}
			}
		}
		if touch {
			w.h.Tag("interleave:reparent-touches-admitted-path")
			if w.closedLoop {
				*pending = 0
			}
		} else {
			w.h.Tag("interleave:reparent-off-admitted-path")
		}
	}
	w.checkReparentAssumption(x)
	x.parent = np
	if flipLent {
		x.lent = !x.lent // a parent change wins over every other meta change
	}
	w.setQuota(x)
	x.lastRT = nil
}

// metaEvent: one quota update that changes meta: allow-lent flip or is-parent flip (=> resetQuotaNoLock) or a
// parent-label change (=> updateQuotaNoLockWhenParentChange).  Shapes the webhook admits; in the closed-loop
// streams a move must also fit (moveFits) - moving a subtree is not an admission.  The wild stream also takes
// is-parent flips the webhook refuses and moves that do not fit.
func (w *c03World) metaEvent(r *vRand, pending *int) {
	if len(w.order) == 0 {
		return
	}
	switch k := r.Intn(10); {
	case k < 3:
		w.doFlip(w.quotas[w.order[r.Intn(len(w.order))]], false, *pending)
	case k < 5:
		ids := w.sortedIDs(w.flipLegal)
		if w.stream == "wild" && r.Chance(1, 3) {
			ids = w.sortedIDs(func(q *c03Quota) bool { return true })
		}
		if len(ids) == 0 {
			return
		}
		w.doFlip(w.quotas[ids[r.Intn(len(ids))]], true, *pending)
	default:
		// re-parent; prefer intermediate (is-parent) groups
		ids := w.sortedIDs(func(q *c03Quota) bool { return true })
		if inner := w.sortedIDs(func(q *c03Quota) bool { return w.hasChild(q.id) }); len(inner) > 0 && r.Chance(2, 3) {
			ids = inner
		}
		x := w.quotas[ids[r.Intn(len(ids))]]
		var targets []int
		for _, p := range append([]int{0}, w.sortedIDs(func(q *c03Quota) bool { return q.isParent })...) {
			if !w.moveShapeOK(x, p) {
				continue
			}
			if w.closedLoop && !w.moveFits(x, p) {
				w.h.Tag("meta:reparent-skipped-does-not-fit")
				continue
			}
			targets = append(targets, p)
		}
		if len(targets) == 0 {
			return
		}
		np := targets[r.Intn(len(targets))]
		w.doMove(x, np, r.Chance(1, 5), pending)
	}
}

// ---- quota-spec updates that change WHICH dimensions max / min declare ------------------------------------------

func (w *c03World) shiftList() []int {
	var out []int
	for d := 0; d < c03D; d++ {
		if w.shiftDims[d] {
			out = append(out, d)
		}
	}
	return out
}

// specShapes: what one spec update does to dimension d of one list of the declared object.
//
//	0 add the entry with value 0        1 add the entry with a non-zero value   2 remove the entry
//	3 existing entry -> 0               4 existing entry 0 -> non-zero          5 the same spec is sent again
const c03SpecShapes = 6

// ownAssignedIn: some pod assigned in group q itself requests a non-zero amount of dimension d (the mask of a pod's
// request is the key set of ITS group's max at the moment of the booking: the code never re-books assigned pods when
// that key set changes).
func (w *c03World) ownAssignedIn(q, d int) bool {
	for _, p := range w.pods {
		if p.assigned && p.quota == q && p.req.has[d] && p.req.v[d] != 0 {
			return true
		}
	}
	return false
}

// specPlan computes the declared lists after applying shape to dimension d of q's max (side 0) or min (side 1);
// ok=false when the shape does not apply or the webhook would refuse it (a child never declares a max dimension its
// parent lacks; min <= max).
func (w *c03World) specPlan(r *vRand, q *c03Quota, side, d, shape int) (mx, mn c03RL, ok bool) {
	mx, mn = q.max, q.min
	unit := int64(1)
	if d == 0 {
		unit = 500
	}
	l := &mx
	if side == 1 {
		l = &mn
	}
	switch shape {
	case 0, 1:
		if l.has[d] {
			return mx, mn, false
		}
		l.has[d], l.v[d] = true, 0
		if shape == 1 {
			l.v[d] = unit * int64(r.Range(1, 4))
		}
		if side == 0 && q.parent != 0 && !w.quotas[q.parent].max.has[d] {
			return mx, mn, false
		}
	case 2:
		if !l.has[d] {
			return mx, mn, false
		}
		l.has[d], l.v[d] = false, 0
		if side == 0 {
			for _, x := range w.quotas {
				if x.parent == q.id && x.max.has[d] {
					return mx, mn, false
				}
			}
		}
	case 3:
		if !l.has[d] || l.v[d] == 0 {
			return mx, mn, false
		}
		l.v[d] = 0
	case 4:
		if !l.has[d] || l.v[d] != 0 {
			return mx, mn, false
		}
		l.v[d] = unit * int64(r.Range(1, 4))
	case 5:
	}
	// min <= max wherever both are declared (the webhook's rule; the runtime computation relies on it)
	if mx.has[d] && mn.has[d] && mn.v[d] > mx.v[d] {
		mn.v[d] = mx.v[d]
		if d == 0 {
			mn.v[d] -= mn.v[d] % 250
		}
	}
	return mx, mn, true
}

// specFits: by the oracle's own books, the usage q shows stays within the new declared lists (the clauses the
// closed-loop statement makes about q).
func (w *c03World) specFits(q *c03Quota, mx, mn c03RL) bool {
	if (w.cfgCP || !w.hasChild(q.id)) && !c03LeqMax(w.usedO(q.id, false), mx) {
		return false
	}
	if !w.hasChild(q.id) && !c03LeqMax(w.usedO(q.id, true), mn) {
		return false
	}
	return true
}

// specEvent: one OnQuotaUpdate(old, new) of a registered group whose new object differs from the old one in the entry
// of ONE dimension of max or min - added (value 0 / non-zero), removed, set to 0, raised from 0 - or not at all.  The
// oracle's books (w.quotas) take the new declared lists; every later clause reads its limits from them.  Returns the
// group and dimension touched (0,-1: no event).
func (w *c03World) specEvent(r *vRand, pending *int) (int, int) {
	if len(w.order) == 0 {
		return 0, -1
	}
	ids := w.sortedIDs(func(q *c03Quota) bool { return !w.special[q.id] })
	if leaves := w.sortedIDs(func(q *c03Quota) bool { return !w.special[q.id] && !w.hasChild(q.id) }); len(leaves) > 0 && !r.Chance(1, 4) {
		ids = leaves
	}
	if len(ids) == 0 {
		return 0, -1
	}
	for try := 0; try < 6; try++ {
		q := w.quotas[ids[r.Intn(len(ids))]]
		d := c03D - 1 // mostly the extended resource
		if r.Chance(1, 3) {
			d = r.Intn(c03D)
		}
		side := 0
		if r.Chance(1, 3) {
			side = 1
		}
		shape := r.Intn(2*c03SpecShapes-1) / 2 // the re-sent identical object half as often as each other shape
		mx, mn, ok := w.specPlan(r, q, side, d, shape)
		if !ok {
			continue
		}
		maskShift := mx.has[d] != q.max.has[d] && w.ownAssignedIn(q.id, d)
		fits := w.specFits(q, mx, mn)
		if w.closedLoop && (maskShift || !fits) {
			w.h.Tag("spec:skipped-outside-closed-loop")
			continue
		}
		w.h.Tag(fmt.Sprintf("spec:%s:shape%d:dim%d", []string{"max", "min"}[side], shape, d))
		w.applySpec(q, mx, mn, d, pending)
		return q.id, d
	}
	return 0, -1
}

// applySpec sends the object that declares (mx, mn) for q - differing from the current one in dimension d at most -
// through OnQuotaUpdate, after adjusting what the oracle may still claim.
func (w *c03World) applySpec(q *c03Quota, mx, mn c03RL, d int, pending *int) {
	maskShift := mx.has[d] != q.max.has[d] && w.ownAssignedIn(q.id, d)
	fits := w.specFits(q, mx, mn)
	if mx == q.max && mn == q.min {
		w.h.Tag("spec:identical-object-resent")
	}
	if maskShift {
		// the dimension appears in / disappears from the mask of pods that are booked already: what they hold in it
		// is never (was never) booked, and their roll-back subtracts with the new mask.  Outside the property's
		// histories (wild / exhaustive streams and one directed case): known finding
		// C03:dimension-added-under-assigned-pods, reported by the used = assigned clause for the shifted dimensions on
		// the group's path; the admission clauses (which rest on those figures) and the closed-loop clauses are off
		// from here on, model correspondence goes on.
		w.h.Tag("deviation:max-dimension-changed-under-assigned-pods")
		if w.shiftDims == nil {
			w.shiftDims, w.shiftGroups, w.shiftAt = map[int]bool{}, map[int]bool{}, map[int]bool{}
		}
		w.shiftDims[d] = true
		w.shiftAt[q.id] = true
		for _, a := range w.chain(q.id) {
			w.shiftGroups[a] = true
		}
		w.closedLoop = false
	}
	if !fits {
		w.closedLoop = false
	}
	if *pending != 0 && (mx != q.max || mn != q.min) {
		// a limit that appears (or drops) between PreFilter and Reserve of the admitted pod: that admission was
		// judged against the old declaration
		for _, a := range w.chain(w.pods[*pending].quota) {
			if a == q.id {
				*pending = 0
				w.h.Tag("interleave:spec-update-on-admitted-path")
				break
			}
		}
	}
	q.max, q.min = mx, mn
	w.setQuota(q)
}

// specProbe: a pod of group g that asks for a positive amount of dimension d and is not assigned - an existing one, or a
// new one (defined and added to the cache here).
func (w *c03World) specProbe(r *vRand, g, d int, nextPod *int, maxPods int) *c03Pod {
	var ids []int
	for id, p := range w.pods {
		if p.inCache && !p.assigned && p.quota == g && p.labelKind == 0 && p.req.has[d] && p.req.v[d] > 0 {
			ids = append(ids, id)
		}
	}
	sort.Ints(ids)
	if len(ids) > 0 && !r.Chance(1, 4) {
		return w.pods[ids[r.Intn(len(ids))]]
	}
	if len(w.pods) >= maxPods {
		return nil
	}
	p := &c03Pod{id: *nextPod, quota: g, np: r.Chance(1, 3), req: c03GenReq(r)}
	*nextPod++
	p.req.has[d] = true
	p.req.v[d] = int64(r.Range(1, 2))
	if d == 0 {
		p.req.v[d] *= 500
	}
	p.obj = c03MakePod(r, p)
	w.pods[p.id] = p
	w.h.Op("poddef %d %d %d %s", p.id, p.quota, vB(p.np), p.req.toks())
	w.dump()
	w.h.Op("podadd %d", p.id)
	w.gp.OnPodAdd(p.obj)
	p.inCache = true
	w.dump()
	return p
}

func (w *c03World) chain(q int) []int { // q, parent, ... (root excluded)
	var out []int
	for q != 0 {
		out = append(out, q)
		q = w.quotas[q].parent
	}
	return out
}

func (w *c03World) hasChild(q int) bool {
	for _, id := range w.order {
		if w.quotas[id].parent == q {
			return true
		}
	}
	return false
}

// reqM: what a reservation of p adds to every group of its chain (request masked to the leaf's declared max dims)
func (w *c03World) reqM(p *c03Pod) [c03D]int64 {
	var out [c03D]int64
	leaf := w.quotas[p.quota]
	for d := 0; d < c03D; d++ {
		if leaf.max.has[d] && p.req.has[d] {
			out[d] = p.req.v[d]
		}
	}
	return out
}

// usedO: the oracle's own usage of group g: sum over assigned pods below g.
func (w *c03World) usedO(g int, npOnly bool) [c03D]int64 {
	var out [c03D]int64
	for _, p := range w.pods {
		if !p.assigned || (npOnly && !p.np) {
			continue
		}
		on := false
		for _, a := range w.chain(p.quota) {
			if a == g {
				on = true
			}
		}
		if !on {
			continue
		}
		m := w.reqM(p)
		for d := 0; d < c03D; d++ {
			out[d] += m[d]
		}
	}
	return out
}

func (w *c03World) dump() {
	sums := w.gp.groupQuotaManager.GetQuotaSummaries(false)
	root := w.gp.groupQuotaManager.GetQuotaInfoByName(extension.RootQuotaName)
	ru, rn := c03FromList(root.GetUsed()), c03FromList(root.GetNonPreemptibleUsed())
	rsu, rsn := c03FromList(root.GetSelfUsed()), c03FromList(root.GetSelfNonPreemptibleUsed())
	w.h.Obs("q 0 %s %s %s %s", vInts(ru.v[:]), vInts(rn.v[:]), vInts(rsu.v[:]), vInts(rsn.v[:]))
	for _, id := range w.order {
		s := sums[c03QName(id)]
		if s == nil {
			w.h.Obs("q %d missing", id)
			continue
		}
		u, n := c03FromList(s.Used), c03FromList(s.NonPreemptibleUsed)
		su, sn := c03FromList(s.SelfUsed), c03FromList(s.SelfNonPreemptibleUsed)
		w.h.Obs("q %d %s %s %s %s", id, vInts(u.v[:]), vInts(n.v[:]), vInts(su.v[:]), vInts(sn.v[:]))
		if w.gu && s.AllowLentResource {
			// hypothesis of gated_lent_flip_dropped / of `gate 1` in the model: under the gate the manager never holds allow-lent = true
			w.h.Fail("C03:gate-assumption", "feature gate ElasticQuotaGuaranteeUsage on, but group %d is held with allow-lent = true", id)
		}
		// what admission relies on: the reported used of a group is the sum of the (masked) requests of the pods
		// currently assigned in its subtree - whatever happened before (every stream: roll-backs, deletions,
		// re-parenting, tree resets, lowered max, unadmitted reserves)
		if uo := w.usedO(id, false); u.v != uo && !w.acctBroken && !w.transient {
			if w.shiftExplains(id, u.v, uo) {
				w.h.Fail("C03:dimension-added-under-assigned-pods", "the key set of a group's max changed under assigned pods (dims %v): group %d reports used %v, "+
					"the pods assigned in its subtree request %v in the dimensions its group declares now", w.shiftList(), id, u.v, uo)
			} else {
				w.h.Fail("C03:used-ne-assigned", "group %d reports used %v, the pods assigned in its subtree request %v", id, u.v, uo)
			}
		}
		if no := w.usedO(id, true); n.v != no && !w.acctBroken && !w.transient {
			if w.shiftExplains(id, n.v, no) {
				w.h.Fail("C03:dimension-added-under-assigned-pods", "the key set of a group's max changed under assigned pods (dims %v): group %d reports nonPreemptibleUsed %v, "+
					"the non-preemptible pods assigned in its subtree request %v in the dimensions its group declares now", w.shiftList(), id, n.v, no)
			} else {
				w.h.Fail("C03:used-ne-assigned:np", "group %d reports nonPreemptibleUsed %v, the non-preemptible pods assigned in its subtree request %v", id, n.v, no)
			}
		}
		if !w.closedLoop || (w.special[id] && w.cfgRT) {
			// (default/system quota in runtime mode: used above max is the consequence of the known finding
			// C03:default-quota-unlimited-in-runtime-mode, reported once, at the admission)
			continue
		}
		q := w.quotas[id]
		// "a quota whose max is not lowered never shows used above max": for the group pods are admitted
		// to (no child group), and for every ancestor when parent checking is on.
		if w.cfgCP || !w.hasChild(id) {
			for d := 0; d < c03D; d++ {
				if q.max.has[d] && u.v[d] > q.max.v[d] {
					w.h.Fail(w.limFP("C03:used-above-max"), "group %d dim %d used %d > max %d (rt=%v cp=%v; children's min sums webhook-legal: %v)", id, d, u.v[d], q.max.v[d], w.cfgRT, w.cfgCP, w.minSumsLegal())
				}
			}
		}
		if !w.hasChild(id) {
			for d := 0; d < c03D; d++ {
				if q.min.has[d] && n.v[d] > q.min.v[d] {
					w.h.Fail("C03:np-used-above-min", "group %d dim %d nonPreemptibleUsed %d > min %d", id, d, n.v[d], q.min.v[d])
				}
			}
		}
	}
}

func (w *c03World) setQuota(q *c03Quota) {
	w.rv++
	obj := c03MakeQuota(q, w.rv)
	w.h.Op("quota %d %d %d %d %s %s", q.id, q.parent, vB(q.isParent), vB(q.lent), q.max.toks(), q.min.toks())
	if w.h.Guard(func() {
		if !q.added {
			w.gp.OnQuotaAdd(obj)
		} else {
			w.gp.OnQuotaUpdate(q.obj, obj)
		}
	}) {
		w.h.Obs("panic")
		return
	}
	if !q.added {
		q.added = true
		w.order = append(w.order, q.id)
		sort.Ints(w.order)
	}
	q.obj = obj
	w.dump()
}

// attempt runs PreFilter for p and evaluates the admission clauses of the property.
func (w *c03World) attempt(p *c03Pod) bool {
	mgr := w.gp.groupQuotaManager
	ch := w.chain(p.quota)
	limMasked := map[int]c03RL{} // the limit the statement talks about
	limFull := map[int]c03RL{}   // every key of the limit list (for soundness of rejections)
	if w.cfgRT {
		for i := len(ch) - 1; i >= 0; i-- {
			g := ch[i]
			limMasked[g] = c03FromList(mgr.RefreshRuntime(c03QName(g)))
		}
		for _, g := range ch {
			full := c03FromList(mgr.GetQuotaInfoByName(c03QName(g)).GetRuntime())
			limFull[g] = full
			q := w.quotas[g]
			if w.special[g] {
				// no `rt` op: the model must predict by itself that this list is never written
				continue
			}
			if q.lastRT == nil || *q.lastRT != full {
				w.h.Op("rt %d %s", g, full.toks())
				w.dump()
				cp := full
				q.lastRT = &cp
			}
			// assumptions of the closed-loop theorem (RuntimeOK), tested on every attempt
			for d := 0; d < c03D; d++ {
				if !q.max.has[d] {
					continue
				}
				if !full.has[d] || !limMasked[g].has[d] {
					w.h.Fail("C03:missing-dimension", "runtime of group %d lacks declared dim %d", g, d)
				} else if full.v[d] > q.max.v[d] {
					w.h.Fail(w.limFP("C03:runtime-above-max"), "group %d dim %d runtime %d > max %d (stream %s; children's min sums webhook-legal: %v)", g, d, full.v[d], q.max.v[d], w.stream, w.minSumsLegal())
				}
			}
		}
	} else {
		for _, g := range ch {
			limMasked[g] = w.quotas[g].max
			limFull[g] = w.quotas[g].max
		}
	}
	w.h.Op("att %d %d %d", p.id, vB(w.cfgRT), vB(w.cfgCP))
	var st *fwktype.Status
	if w.h.Guard(func() { _, st = w.gp.PreFilter(context.TODO(), framework.NewCycleState(), p.obj, nil) }) {
		w.h.Obs("panic")
		w.h.Fail("C03:panic", "PreFilter panicked")
		return false
	}
	code := int(st.Code())
	w.h.Obs("v %d", code)
	w.h.Tag(fmt.Sprintf("verdict:rt%d-cp%d:%d", vB(w.cfgRT), vB(w.cfgCP), code))
	emptyM := true
	for d := 0; d < c03D; d++ {
		if w.quotas[p.quota].max.has[d] && p.req.has[d] {
			emptyM = false
		}
	}
	if emptyM {
		w.h.Tag(fmt.Sprintf("verdict:empty-masked-request:%d", code))
	}

	if w.acctBroken || w.shifted() {
		return fwktype.Code(code) == fwktype.Success // correspondence only
	}
	// ---- oracle ----
	m := w.reqM(p)
	leaf := ch[0]
	checked := ch[:1]
	if w.cfgCP {
		checked = ch
	}
	switch fwktype.Code(code) {
	case fwktype.Success:
		for i, g := range checked {
			used := w.usedO(g, false)
			lim := limMasked[g]
			for d := 0; d < c03D; d++ {
				if !w.quotas[g].max.has[d] || !lim.has[d] {
					continue
				}
				if used[d]+m[d] > lim.v[d] {
					if i == 0 && w.special[g] && w.cfgRT {
						w.h.Fail("C03:default-quota-unlimited-in-runtime-mode", "pod %d admitted to %s in runtime mode: dim %d used %d + req %d > max %d (its Runtime list is empty)", p.id, c03QName(g), d, used[d], m[d], lim.v[d])
					} else if i == 0 {
						w.h.Fail(w.limFP("C03:admitted-over-limit:leaf"), "pod %d admitted: group %d dim %d used %d + req %d > limit %d (rt=%v)", p.id, g, d, used[d], m[d], lim.v[d], w.cfgRT)
					} else if m[d] > 0 {
						w.h.Fail(w.limFP("C03:admitted-over-limit:ancestor"), "pod %d admitted: ancestor %d dim %d used %d + req %d > limit %d (rt=%v)", p.id, g, d, used[d], m[d], lim.v[d], w.cfgRT)
					} else {
						// ancestor already above its (shrunk) limit in a dimension this pod does not add to
						w.h.Tag("deviation:ancestor-over-limit-in-zero-request-dim")
					}
				}
			}
		}
		if p.np {
			npu := w.usedO(leaf, true)
			q := w.quotas[leaf]
			for d := 0; d < c03D; d++ {
				if q.min.has[d] && npu[d]+m[d] > q.min.v[d] {
					w.h.Fail("C03:admitted-over-min", "non-preemptible pod %d admitted: group %d dim %d npUsed %d + req %d > min %d", p.id, leaf, d, npu[d], m[d], q.min.v[d])
				}
			}
		}
		return true
	case fwktype.Unschedulable:
		cause := ""
		for i, g := range checked {
			used := w.usedO(g, false)
			lim := limFull[g]
			for d := 0; d < c03D; d++ {
				if lim.has[d] && used[d]+m[d] > lim.v[d] {
					if i == 0 {
						cause = "leaf"
					} else if cause == "" {
						cause = "ancestor"
					}
				}
			}
		}
		if cause == "" && p.np {
			npu := w.usedO(leaf, true)
			q := w.quotas[leaf]
			for d := 0; d < c03D; d++ {
				if q.min.has[d] && npu[d]+m[d] > q.min.v[d] {
					cause = "min"
				}
			}
		}
		if cause == "" {
			w.h.Fail("C03:rejected-without-cause", "pod %d rejected but no limit would be exceeded (rt=%v cp=%v)", p.id, w.cfgRT, w.cfgCP)
		} else {
			w.h.Tag("reject-cause:" + cause)
		}
	default:
		w.h.Fail("C03:unexpected-status", "PreFilter returned code %d for a pod of a registered group", code)
	}
	return false
}

func TestVerifC03(t *testing.T) {
	h := vOpen("C03")
	if h == nil {
		t.Skip("VERIF_OUT not set")
	}
	c03Names = nil
	n := h.N(120, 1000)
	steps := 60
	if h.Tier == "thorough" {
		steps = 90
	}
	const batch = 40
	for base := 0; base < n; base += batch {
		t.Run(fmt.Sprintf("batch%d", base), func(t *testing.T) {
			for idx := base; idx < base+batch && idx < n; idx++ {
				c03Case(t, h, idx, steps)
			}
		})
	}
	h.Close("one history per case: 2-7 groups in a 1-4 level tree (sibling maxima may oversubscribe the parent; min<=max), one node whose " +
		"capacity changes, <=14 pods (requests with missing/zero/positive dims, 1-2 containers, 1/3 non-preemptible), 60/90 events: " +
		"PreFilter, Reserve (only the pod just admitted, possibly after unrelated events), Unreserve, OnPodDelete, OnPodAdd, OnPodUpdate that flips only the " +
		"preemptible label of a held (mostly assigned) pod followed by the attempt of a non-preemptible pod of that group, max/min raise, late group add, " +
		"capacity change, meta updates (allow-lent flip / is-parent flip = tree reset, parent-label change = re-parenting of a leaf or an intermediate group " +
		"with its subtree; webhook-legal shapes, in the closed-loop streams only moves that fit); switches (runtime, check-parent) = case index mod 4; " +
		"streams: main, mask (a group's max lacks a dimension), tree (root<-1<-2<-3 guaranteed, more meta updates), " +
		"wild (max/min lowered, unadmitted reserves, moves that do not fit: decision and used=assigned clauses only); non-trivial = at least one admitted and one rejected attempt; distinct by op lines")
}

func c03Case(t *testing.T, h *vHarness, idx int, steps int) {
	r := h.Begin(idx)
	if r == nil {
		return
	}
	defer h.End()
	// the alpha gate ElasticQuotaGuaranteeUsage is on in a quarter of the cases (every fourth block of four = every switch
	// combination); the case's PRNG stream does not depend on it
	// (every second block of four cases that run with the runtime quota off = a quarter of all cases, every switch
	// combination of them).  Gate on + runtime quota ON is off by default: there the unchanged tree breaks RuntimeOK
	// (known finding C03:limit-exceeded:guarantee-gate-runtime, see limFP and props/C03.json level_note) - VERIF_C03_GATE_RT=1 switches it on;
	// harness guarantee runs a small directed part of it by default.
	gu := ((idx>>2)&1 == 1 && (idx&1 == 0 || c03GateRT())) || c03ForceGateRT
	h.Op("dims %d", c03D)
	defer c03GuaranteeGate(t, h, gu)()
	suit := newPluginTestSuit(t, nil)
	var lvl klog.Level
	_ = lvl.Set("0")
	gp := suit.createPlugin(t).(*Plugin)
	w := &c03World{t: t, h: h, gp: gp, cfgRT: idx&1 == 1 || c03ForceGateRT, cfgCP: idx&2 == 2, quotas: map[int]*c03Quota{}, pods: map[int]*c03Pod{}, gu: gu}
	gp.pluginArgs.EnableRuntimeQuota = w.cfgRT
	gp.pluginArgs.EnableCheckParentQuota = w.cfgCP
	stream := "main"
	switch r.Intn(8) {
	case 0, 1:
		stream = "wild"
	case 2:
		stream = "mask"
	case 3:
		stream = "tree"
	}
	w.stream = stream
	w.closedLoop = stream != "wild"
	h.Tag("stream:" + stream)
	h.Tag(fmt.Sprintf("switches:rt%d-cp%d", vB(w.cfgRT), vB(w.cfgCP)))

	// --- tree plan ---
	nq := r.Range(2, 7)
	if stream == "tree" {
		nq = r.Range(4, 7) // root <- 1 <- 2 <- 3 at least: three levels below the root, two intermediate groups
	}
	var parents []int // ids that may carry children
	for id := 1; id <= nq; id++ {
		q := &c03Quota{id: id, lent: !r.Chance(1, 4)}
		if stream == "tree" && id <= 3 {
			q.parent = id - 1
		} else if len(parents) > 0 && !r.Chance(1, 4) {
			q.parent = parents[len(parents)-1-r.Intn((len(parents)+1)/2)] // prefer recent parents: deeper chains
		}
		depth := len(w.chainPlan(q.parent)) + 1
		if stream == "tree" && id <= 2 {
			q.isParent = true
			parents = append(parents, id)
		} else if depth < 4 && id < nq && r.Chance(2, 3) {
			q.isParent = true
			parents = append(parents, id)
		}
		var bound *c03RL
		if q.parent != 0 {
			bound = &w.quotas[q.parent].max
		}
		q.max = c03GenMax(r, bound)
		// mask stream: a group's max may lack a dimension; as the webhook demands, a child never declares a
		// dimension its parent does not declare (key set equal to, or included in, the parent's)
		if q.parent != 0 {
			q.max.has = w.quotas[q.parent].max.has
		}
		if stream == "mask" && r.Chance(1, 2) {
			q.max.has[r.Intn(c03D)] = false
		}
		q.min = c03GenMin(r, q.max)
		w.quotas[id] = q
	}
	// capacity
	capacity := c03RL{has: [c03D]bool{true, true, true}, v: [c03D]int64{int64(r.Range(2, 40)) * 500, int64(r.Range(2, 40)), int64(r.Range(0, 8))}}
	w.rv++
	node := c03Node(capacity, w.rv)
	h.Op("cap %s", vInts(capacity.v[:]))
	gp.OnNodeAdd(node)
	w.dump()
	late := map[int]bool{}
	for id := 1; id <= nq; id++ {
		// a group without children may be registered later, in the middle of the history
		if !w.quotas[id].isParent && r.Chance(1, 6) {
			late[id] = true
			continue
		}
		w.setQuota(w.quotas[id])
	}

	nextPod := 1
	pending := 0 // pod admitted by the last attempt and not yet reserved
	admitted, rejected := 0, 0
	newPod := func() *c03Pod {
		if len(w.order) == 0 {
			return nil
		}
		p := &c03Pod{id: nextPod, np: r.Chance(1, 3), req: c03GenReq(r)}
		nextPod++
		// mostly groups without children
		for try := 0; try < 4; try++ {
			p.quota = w.order[r.Intn(len(w.order))]
			if !w.quotas[p.quota].isParent {
				break
			}
		}
		if r.Chance(1, 12) {
			// a pod whose MASKED request is empty: it asks for nothing at all, or only for dimensions its group does not
			// declare.  PreFilter still compares used + nothing with the limit (and non-preemptible used with min): such a
			// pod is rejected while the group shows more than its (shrunk runtime / lowered max) limit.
			for d := 0; d < c03D; d++ {
				if w.quotas[p.quota].max.has[d] || r.Bool() {
					p.req.has[d], p.req.v[d] = false, 0
				}
			}
			h.Tag("pod:empty-masked-request")
		}
		p.obj = c03MakePod(r, p)
		w.pods[p.id] = p
		h.Op("poddef %d %d %d %s", p.id, p.quota, vB(p.np), p.req.toks())
		w.dump()
		return p
	}
	addPod := func(p *c03Pod) {
		h.Op("podadd %d", p.id)
		gp.OnPodAdd(p.obj)
		p.inCache = true
		w.dump()
	}
	pick := func(pred func(*c03Pod) bool) *c03Pod {
		var ids []int
		for id, p := range w.pods {
			if pred(p) {
				ids = append(ids, id)
			}
		}
		if len(ids) == 0 {
			return nil
		}
		sort.Ints(ids)
		return w.pods[ids[r.Intn(len(ids))]]
	}
	reserve := func(p *c03Pod) {
		h.Op("res %d", p.id)
		var st *fwktype.Status
		if h.Guard(func() { st = gp.Reserve(context.TODO(), framework.NewCycleState(), p.obj, "n1") }) {
			h.Obs("panic")
			return
		}
		if !st.IsSuccess() {
			h.Fail("C03:reserve-failed", "Reserve returned %v", st.Code())
		}
		if p.inCache {
			p.assigned = true
		}
		w.dump()
	}

	// flip: OnPodUpdate(old, new) where new = old with the label quota.scheduling.koordinator.sh/preemptible flipped
	// ("false" set / removed) and a new resource version - nothing else.  Returns the pod's group (0 = no flip).
	// Closed-loop streams: an ASSIGNED pod becomes non-preemptible only while non-preemptible used + its request stays
	// within the min of its group (the flip books non-preemptible usage without an admission check; the statement's
	// histories book usage by admitted reservations only) and the oracle's books are intact; the wild stream flips
	// whatever the min says.  A flip towards non-preemptible drops the open admission (it was decided against books
	// the flip has changed), so does a flip of the admitted pod itself.
	flip := func() int {
		var p *c03Pod
		if r.Chance(1, 5) {
			p = pick(func(p *c03Pod) bool { return p.inCache && !p.assigned })
		} else {
			p = pick(func(p *c03Pod) bool { return p.assigned })
		}
		if p == nil {
			return 0
		}
		if p.assigned && !p.np && w.closedLoop {
			if w.acctBroken || w.shifted() {
				return 0
			}
			m, npu, q := w.reqM(p), w.usedO(p.quota, true), w.quotas[p.quota]
			for d := 0; d < c03D; d++ {
				if q.min.has[d] && npu[d]+m[d] > q.min.v[d] {
					h.Tag("flip:to-non-preemptible:skipped-over-min")
					return 0
				}
			}
		}
		old := p.obj
		neu := old.DeepCopy()
		w.rv++
		neu.ResourceVersion = fmt.Sprint(w.rv)
		if p.np {
			delete(neu.Labels, extension.LabelPreemptible)
			if r.Bool() {
				neu.Labels[extension.LabelPreemptible] = "true"
			}
		} else {
			neu.Labels[extension.LabelPreemptible] = "false"
		}
		h.Op("podflip %d", p.id)
		if h.Guard(func() { gp.OnPodUpdate(old, neu) }) {
			h.Obs("panic")
			h.Fail("C03:panic", "OnPodUpdate panicked")
			return 0
		}
		p.np = !p.np
		p.obj = neu
		h.Tag(fmt.Sprintf("flip:to-np=%v:assigned=%v", p.np, p.assigned))
		if p.np || p.id == pending {
			pending = 0
		}
		w.dump()
		return p.quota
	}
	// npProbe: a NON-PREEMPTIBLE pod of group g that is not assigned - an existing one, or a new one
	npProbe := func(g int) *c03Pod {
		if p := pick(func(p *c03Pod) bool { return p.inCache && !p.assigned && p.np && p.quota == g }); p != nil && !r.Chance(1, 4) {
			return p
		}
		if len(w.pods) >= 14 {
			return nil
		}
		p := &c03Pod{id: nextPod, quota: g, np: true, req: c03GenReq(r)}
		nextPod++
		p.obj = c03MakePod(r, p)
		w.pods[p.id] = p
		h.Op("poddef %d %d %d %s", p.id, p.quota, vB(p.np), p.req.toks())
		w.dump()
		addPod(p)
		return p
	}

	for step := 0; step < steps; step++ {
		k := r.Intn(100)
		switch {
		case pending != 0 && k < 70:
			// finish the scheduling cycle of the admitted pod
			reserve(w.pods[pending])
			pending = 0
		case k < 40:
			// new scheduling attempt
			p := pick(func(p *c03Pod) bool { return p.inCache && !p.assigned })
			if p == nil || r.Chance(1, 5) {
				if len(w.pods) < 14 {
					if p = newPod(); p != nil {
						addPod(p)
					}
				}
			}
			if p == nil {
				continue
			}
			if r.Chance(1, 25) {
				// glue: a second attempt for an already assigned pod (decision only; Reserve is then a no-op)
				if q := pick(func(p *c03Pod) bool { return p.assigned }); q != nil {
					p = q
				}
			}
			pending = 0
			if w.attempt(p) {
				admitted++
				pending = p.id
			} else {
				rejected++
			}
		case k < 52:
			if r.Chance(1, 4) {
				// eighth round: an update of a held pod that flips ONLY the preemptible label (same requests, same group) -
				// mostly of an ASSIGNED pod (its amount moves into / out of the non-preemptible used of its group and of
				// every ancestor) -, then a non-preemptible pod of that group asks for admission
				if g := flip(); g != 0 && r.Chance(2, 3) {
					if p := npProbe(g); p != nil {
						pending = 0
						if w.attempt(p) {
							admitted++
							pending = p.id
						} else {
							rejected++
						}
					}
				}
				continue
			}
			if p := pick(func(p *c03Pod) bool { return p.assigned }); p != nil {
				h.Op("unres %d", p.id)
				gp.Unreserve(context.TODO(), framework.NewCycleState(), p.obj, "n1")
				p.assigned = false
				if p.id == pending {
					pending = 0
				}
				w.dump()
			}
		case k < 62:
			if p := pick(func(p *c03Pod) bool { return p.inCache }); p != nil {
				h.Op("del %d", p.id)
				gp.OnPodDelete(p.obj)
				p.inCache, p.assigned = false, false
				if p.id == pending {
					pending = 0
				}
				w.dump()
			}
		case k < 70:
			if p := pick(func(p *c03Pod) bool { return !p.inCache }); p != nil && r.Bool() {
				addPod(p) // re-add a deleted pod (same object)
			} else if len(w.pods) < 14 {
				if p := newPod(); p != nil && !r.Chance(1, 8) {
					addPod(p)
				}
			}
		case k < 80:
			// max / min change
			if len(w.order) == 0 {
				continue
			}
			if r.Chance(1, 4) {
				// the declared key set changes (or the same spec is sent again), then a pod that asks for the touched
				// dimension in that group asks for admission
				if g, d := w.specEvent(r, &pending); d >= 0 && r.Chance(2, 3) {
					if p := w.specProbe(r, g, d, &nextPod, 14); p != nil {
						pending = 0
						if w.attempt(p) {
							admitted++
							pending = p.id
						} else {
							rejected++
						}
					}
				}
				continue
			}
			q := w.quotas[w.order[r.Intn(len(w.order))]]
			for d := 0; d < c03D; d++ {
				if !r.Bool() {
					continue
				}
				unit := int64(1)
				if d == 0 {
					unit = 500
				}
				if stream == "wild" && r.Bool() {
					q.max.v[d] -= unit * int64(r.Range(1, 4))
					if q.max.v[d] < 0 {
						q.max.v[d] = 0
					}
					if q.min.v[d] > q.max.v[d] {
						q.min.v[d] = q.max.v[d]
					}
					if r.Bool() {
						q.min.v[d] = q.min.v[d] / 2
					}
				} else {
					q.max.v[d] += unit * int64(r.Range(0, 3))
					if r.Bool() && q.min.v[d] < q.max.v[d] {
						q.min.v[d] += unit / 2 * int64(r.Range(0, 2))
						if d == 0 {
							q.min.v[d] -= q.min.v[d] % 250
						}
						if q.min.v[d] > q.max.v[d] {
							q.min.v[d] = q.max.v[d]
						}
					}
				}
			}
			w.setQuota(q)
			if stream == "wild" && len(w.pods) < 14 && r.Bool() {
				// right after limits were (possibly) lowered below the usage a pod that asks for nothing asks for admission:
				// PreFilter compares used + nothing with the limit, so it is rejected while the group is over
				p := &c03Pod{id: nextPod, quota: q.id, np: r.Bool()}
				nextPod++
				p.obj = c03MakePod(r, p)
				w.pods[p.id] = p
				h.Op("poddef %d %d %d %s", p.id, p.quota, vB(p.np), p.req.toks())
				w.dump()
				addPod(p)
				h.Tag("pod:empty-masked-request")
				pending = 0
				if w.attempt(p) {
					admitted++
					pending = p.id
				} else {
					rejected++
				}
			}
		case k < 85:
			// late registration of a group
			for id := 1; id <= nq; id++ {
				if late[id] {
					delete(late, id)
					w.setQuota(w.quotas[id])
					// a new group makes the admitted-but-unreserved pod's cycle stale in the model's history discipline
					pending = 0
					break
				}
			}
		case k < 92 && !(stream == "tree" && k >= 87):
			// capacity change
			old := node
			for d := 0; d < c03D; d++ {
				unit := int64(1)
				if d == 0 {
					unit = 500
				}
				capacity.v[d] += unit * int64(r.Range(-4, 4))
				if capacity.v[d] < 0 {
					capacity.v[d] = 0
				}
			}
			w.rv++
			node = c03Node(capacity, w.rv)
			h.Op("cap %s", vInts(capacity.v[:]))
			gp.OnNodeUpdate(old, node)
			w.dump()
		default:
			if stream == "wild" && r.Bool() {
				// reserve without admission (outside the property's histories; decision logic is still checked)
				if p := pick(func(p *c03Pod) bool { return p.inCache && !p.assigned }); p != nil {
					reserve(p)
					if p.id == pending {
						pending = 0
					}
				}
			} else {
				w.metaEvent(r, &pending)
			}
		}
	}
	if admitted > 0 && rejected > 0 {
		h.Nontrivial()
	}
	h.Tag(fmt.Sprintf("groups:%d", len(w.order)))
}

// TestVerifC03Guarantee: the alpha feature gate ElasticQuotaGuaranteeUsage is ON in every case.  Small worlds in which
// preemptible pods push a group's used (= Allocated, hence Guaranteed = max(Allocated, min)) above its min and
// non-preemptible pods then ask for admission: the bound of the non-preemptible check is the DECLARED min whatever the
// gate says ("for a non-preemptible pod only if non-preemptible usage stays within min").
func TestVerifC03Guarantee(t *testing.T) {
	h := vOpen("C03")
	if h == nil {
		t.Skip("VERIF_OUT not set")
	}
	c03Names = nil
	n := h.N(24, 240)
	for idx := 0; idx < n; idx++ {
		switch {
		case idx == 2 || idx == 3:
			c03GateRTDirected(t, h, idx)
		case idx >= 4 && idx < 10:
			// a handful of histories of harness plugin (40 events) with the gate AND the runtime quota on
			c03ForceGateRT = true
			c03Case(t, h, idx, 40)
			c03ForceGateRT = false
		default:
			c03GuaranteeCase(t, h, idx)
		}
	}
	h.Close("cases 2-3: the two directed histories of known finding C03:limit-exceeded:guarantee-gate-runtime (gate + runtime quota + parent checking on: " +
		"runtime above max by a child's min; a pod admitted above max); cases 4-9: histories of harness plugin (40 events) with gate + runtime quota on, limit " +
		"clauses reported under that one fingerprint; all other cases: feature gate ElasticQuotaGuaranteeUsage on in every case; root <- 1 (is-parent) <- {2,3} or root <- {2,3}; min well below max; 26 events: " +
		"scheduling cycles (PreFilter, Reserve iff admitted) of new pods - preemptible ones first, non-preemptible ones (2/3) once a group's used " +
		"passed its min -, Unreserve, OnPodDelete, min / max raise; check-parent = case index mod 2, runtime quota off (on for odd idx/2 only with " +
		"VERIF_C03_GATE_RT=1); cases 0-1 are directed: min cpu 2, max cpu 12, preemptible pods use cpu 6, two non-preemptible pods of cpu 2 (the second must be " +
		"rejected for min: 4 > 2, although used 8 + 2 is within max); non-trivial = a non-preemptible pod rejected for min while its group's used exceeds min; distinct by op lines")
}

// c03GateRTDirected: the two concrete histories of known finding C03:limit-exceeded:guarantee-gate-runtime (found by harness
// plugin at seed 1 with VERIF_C03_GATE_RT=1), gate, runtime quota and parent checking on.
//
//	idx 2: group 1 (is-parent, max memory 10, min memory 3) <- group 2 (max memory 12, min memory 12); a pod of group 2 asks for
//	       admission: runtime of group 1 = memory 12 > max 10
//	idx 3: group 1 (is-parent) <- group 3 (is-parent, max memory 2, min memory 1) <- group 5 (min memory 4): runtime of group 3 =
//	       memory 4; a pod asking memory 4 in group 3 itself is admitted and reserved: used memory 4 > max 2
func c03GateRTDirected(t *testing.T, h *vHarness, idx int) {
	r := h.Begin(idx)
	if r == nil {
		return
	}
	defer h.End()
	h.Op("dims %d", c03D)
	defer c03GuaranteeGate(t, h, true)()
	suit := newPluginTestSuit(t, nil)
	var lvl klog.Level
	_ = lvl.Set("0")
	gp := suit.createPlugin(t).(*Plugin)
	w := &c03World{t: t, h: h, gp: gp, cfgRT: true, cfgCP: true, quotas: map[int]*c03Quota{}, pods: map[int]*c03Pod{},
		stream: "gate-rt-directed", closedLoop: true, gu: true}
	gp.pluginArgs.EnableRuntimeQuota = true
	gp.pluginArgs.EnableCheckParentQuota = true
	h.Tag("stream:gate-rt-directed")
	h.Tag("switches:rt1-cp1")
	rl := func(h0, h1, h2 bool, v0, v1, v2 int64) c03RL {
		return c03RL{has: [c03D]bool{h0, h1, h2}, v: [c03D]int64{v0, v1, v2}}
	}
	var capacity c03RL
	var order []int
	var pod *c03Pod
	if idx == 2 {
		capacity = rl(true, true, true, 19500, 23, 5)
		w.quotas[1] = &c03Quota{id: 1, isParent: true, lent: true, max: rl(true, true, true, 4500, 10, 2), min: rl(true, true, true, 0, 3, 1)}
		w.quotas[2] = &c03Quota{id: 2, parent: 1, lent: true, max: rl(true, true, true, 6500, 12, 2), min: rl(false, true, true, 0, 12, 0)}
		order = []int{1, 2}
		pod = &c03Pod{id: 1, quota: 2, req: rl(true, true, true, 250, 1, 1)}
	} else {
		capacity = rl(true, true, true, 3000, 11, 7)
		w.quotas[1] = &c03Quota{id: 1, isParent: true, lent: true, max: rl(true, true, true, 7500, 14, 1), min: rl(false, true, true, 0, 12, 1)}
		w.quotas[3] = &c03Quota{id: 3, parent: 1, isParent: true, lent: true, max: rl(true, true, true, 4500, 2, 1), min: rl(false, true, true, 0, 1, 0)}
		w.quotas[5] = &c03Quota{id: 5, parent: 3, isParent: true, lent: true, max: rl(true, false, true, 3500, 0, 4), min: rl(false, true, true, 0, 4, 0)}
		order = []int{1, 3, 5}
		pod = &c03Pod{id: 2, quota: 3, req: rl(false, true, true, 0, 4, 0)}
	}
	w.rv++
	h.Op("cap %s", vInts(capacity.v[:]))
	gp.OnNodeAdd(c03Node(capacity, w.rv))
	w.dump()
	for _, id := range order {
		w.setQuota(w.quotas[id])
	}
	pod.obj = c03MakePod(r, pod)
	w.pods[pod.id] = pod
	h.Op("poddef %d %d %d %s", pod.id, pod.quota, vB(pod.np), pod.req.toks())
	w.dump()
	h.Op("podadd %d", pod.id)
	gp.OnPodAdd(pod.obj)
	pod.inCache = true
	w.dump()
	if !w.attempt(pod) {
		return
	}
	h.Nontrivial()
	h.Op("res %d", pod.id)
	var st *fwktype.Status
	if h.Guard(func() { st = gp.Reserve(context.TODO(), framework.NewCycleState(), pod.obj, "n1") }) {
		h.Obs("panic")
		return
	}
	if !st.IsSuccess() {
		h.Fail("C03:reserve-failed", "Reserve returned %v", st.Code())
	}
	pod.assigned = true
	w.dump()
}

func c03GuaranteeCase(t *testing.T, h *vHarness, idx int) {
	r := h.Begin(idx)
	if r == nil {
		return
	}
	defer h.End()
	h.Op("dims %d", c03D)
	defer c03GuaranteeGate(t, h, true)()
	suit := newPluginTestSuit(t, nil)
	var lvl klog.Level
	_ = lvl.Set("0")
	gp := suit.createPlugin(t).(*Plugin)
	w := &c03World{t: t, h: h, gp: gp, cfgRT: (idx>>1)&1 == 1 && c03GateRT(), cfgCP: idx&1 == 1, quotas: map[int]*c03Quota{}, pods: map[int]*c03Pod{},
		stream: "guarantee", closedLoop: true, gu: true}
	gp.pluginArgs.EnableRuntimeQuota = w.cfgRT
	gp.pluginArgs.EnableCheckParentQuota = w.cfgCP
	h.Tag("stream:guarantee")
	h.Tag(fmt.Sprintf("switches:rt%d-cp%d", vB(w.cfgRT), vB(w.cfgCP)))
	directed := idx < 2
	all := [c03D]bool{true, true, true}
	flat := !directed && r.Chance(1, 3)
	if !flat {
		w.quotas[1] = &c03Quota{id: 1, isParent: true, lent: r.Bool(), max: c03RL{has: all, v: [c03D]int64{16000, 32, 8}}, min: c03RL{has: all, v: [c03D]int64{8000, 16, 4}}}
	}
	for id := 2; id <= 3; id++ {
		q := &c03Quota{id: id, lent: r.Bool(), max: c03RL{has: all}, min: c03RL{has: all}}
		if !flat {
			q.parent = 1
		}
		if directed {
			q.max.v = [c03D]int64{12000, 16, 4}
			q.min.v = [c03D]int64{2000, 8, 2}
		} else {
			q.max.v = [c03D]int64{int64(r.Range(8, 16)) * 500, int64(r.Range(6, 16)), int64(r.Range(1, 4))}
			// children's min sums stay within the parent's min (webhook-legal)
			q.min.v = [c03D]int64{int64(r.Range(0, 4)) * 500, int64(r.Range(0, 4)), int64(r.Range(0, 1))}
			q.min.has[r.Intn(c03D)] = !r.Chance(1, 8)
		}
		w.quotas[id] = q
	}
	capacity := c03RL{has: all, v: [c03D]int64{40000, 80, 16}}
	w.rv++
	h.Op("cap %s", vInts(capacity.v[:]))
	gp.OnNodeAdd(c03Node(capacity, w.rv))
	w.dump()
	for id := 1; id <= 3; id++ {
		if w.quotas[id] != nil {
			w.setQuota(w.quotas[id])
		}
	}
	nextPod := 1
	interesting := false
	cycle := func(g int, np bool, req c03RL) {
		p := &c03Pod{id: nextPod, quota: g, np: np, req: req}
		nextPod++
		p.obj = c03MakePod(r, p)
		w.pods[p.id] = p
		h.Op("poddef %d %d %d %s", p.id, p.quota, vB(p.np), p.req.toks())
		w.dump()
		h.Op("podadd %d", p.id)
		gp.OnPodAdd(p.obj)
		p.inCache = true
		w.dump()
		q := w.quotas[g]
		over := false
		used := w.usedO(g, false)
		for d := 0; d < c03D; d++ {
			if q.min.has[d] && used[d] > q.min.v[d] {
				over = true
			}
		}
		if over {
			h.Tag(fmt.Sprintf("guarantee:attempt-with-used-above-min:np%d", vB(np)))
		}
		if !w.attempt(p) {
			if np && over {
				interesting = true
			}
			return
		}
		h.Op("res %d", p.id)
		var st *fwktype.Status
		if h.Guard(func() { st = gp.Reserve(context.TODO(), framework.NewCycleState(), p.obj, "n1") }) {
			h.Obs("panic")
			return
		}
		if !st.IsSuccess() {
			h.Fail("C03:reserve-failed", "Reserve returned %v", st.Code())
		}
		p.assigned = true
		w.dump()
	}
	if directed {
		cpu := func(v int64) c03RL { return c03RL{has: [c03D]bool{true, false, false}, v: [c03D]int64{v, 0, 0}} }
		for i := 0; i < 3; i++ {
			cycle(2, false, cpu(2000))
		}
		cycle(2, true, cpu(2000))
		cycle(2, true, cpu(2000)) // non-preemptible used 2 + 2 > min 2: must be rejected
		cycle(2, false, cpu(2000))
		cycle(2, false, cpu(2000))
		cycle(2, false, cpu(2000)) // used 12 + 2 > max 12: must be rejected
		if interesting {
			h.Nontrivial()
		}
		return
	}
	pickAssigned := func() *c03Pod {
		var ids []int
		for id, p := range w.pods {
			if p.assigned {
				ids = append(ids, id)
			}
		}
		if len(ids) == 0 {
			return nil
		}
		sort.Ints(ids)
		return w.pods[ids[r.Intn(len(ids))]]
	}
	for step := 0; step < 26; step++ {
		g := 2 + r.Intn(2)
		switch k := r.Intn(100); {
		case k < 72:
			req := c03GenReq(r)
			np := false
			used, q := w.usedO(g, false), w.quotas[g]
			for d := 0; d < c03D; d++ {
				if q.min.has[d] && used[d] > q.min.v[d] && r.Chance(2, 3) {
					np = true
				}
			}
			if r.Chance(1, 8) {
				np = !np
			}
			if np && r.Bool() {
				// small requests: below what min leaves, or just above
				for d := 0; d < c03D; d++ {
					if req.has[d] && d > 0 {
						req.v[d] = int64(r.Range(0, 1))
					} else if req.has[d] {
						req.v[d] = r.Pick([]int64{250, 500})
					}
				}
			}
			cycle(g, np, req)
		case k < 82:
			if p := pickAssigned(); p != nil {
				h.Op("unres %d", p.id)
				gp.Unreserve(context.TODO(), framework.NewCycleState(), p.obj, "n1")
				p.assigned = false
				w.dump()
			}
		case k < 90:
			if p := pickAssigned(); p != nil {
				h.Op("del %d", p.id)
				gp.OnPodDelete(p.obj)
				p.inCache, p.assigned = false, false
				w.dump()
			}
		default:
			// raise max, or min within the parent's budget
			q := w.quotas[g]
			d := r.Intn(c03D)
			unit := int64(1)
			if d == 0 {
				unit = 500
			}
			if r.Bool() {
				q.max.v[d] += unit
			} else if q.min.has[d] && q.min.v[d]+unit <= q.max.v[d] && q.min.v[d] < 2*unit {
				q.min.v[d] += unit
			}
			w.setQuota(q)
		}
	}
	if interesting {
		h.Nontrivial()
	}
}

// chainPlan is chain() over the planned tree (before registration).
func (w *c03World) chainPlan(q int) []int {
	var out []int
	for q != 0 {
		out = append(out, q)
		q = w.quotas[q].parent
	}
	return out
}

// TestVerifC03Default: pods of koordinator-default-quota (label naming a group that does not exist, no label,
// or the default quota's own name) and koordinator-system-quota, with finite DefaultQuotaGroupMax /
// SystemQuotaGroupMax plugin args, both switch settings.
func TestVerifC03Default(t *testing.T) {
	h := vOpen("C03")
	if h == nil {
		t.Skip("VERIF_OUT not set")
	}
	n := h.N(32, 300)
	const batch = 40
	for base := 0; base < n; base += batch {
		t.Run(fmt.Sprintf("batch%d", base), func(t *testing.T) {
			for idx := base; idx < base+batch && idx < n; idx++ {
				c03DefaultCase(t, h, idx)
			}
		})
	}
	c03Names = nil
	h.Close("one history per case over the default (group 1) and system (group 2) quota with finite max plugin args (no min): <=10 pods " +
		"(quota label naming a missing group / no label / the default quota's name / the system quota's name), 40 events: PreFilter, Reserve of the " +
		"admitted pod, Unreserve, OnPodDelete, OnPodAdd; switches = case index mod 4; non-trivial = at least one admitted attempt; distinct by op lines")
}

func c03DefaultCase(t *testing.T, h *vHarness, idx int) {
	r := h.Begin(idx)
	if r == nil {
		return
	}
	defer h.End()
	c03Names = map[int]string{1: extension.DefaultQuotaName, 2: extension.SystemQuotaName}
	full := [c03D]bool{true, true, true}
	dmax := c03RL{has: full, v: [c03D]int64{int64(r.Range(2, 12)) * 500, int64(r.Range(2, 12)), int64(r.Range(0, 3))}}
	smax := c03RL{has: full, v: [c03D]int64{int64(r.Range(2, 12)) * 500, int64(r.Range(2, 12)), int64(r.Range(0, 3))}}
	if r.Chance(1, 4) {
		dmax.has[2], dmax.v[2] = false, 0 // a max that lacks a dimension
	}
	suit := newPluginTestSuit(t, nil, func(a *config.ElasticQuotaArgs) {
		a.DefaultQuotaGroupMax = dmax.list()
		a.SystemQuotaGroupMax = smax.list()
	})
	var lvl klog.Level
	_ = lvl.Set("0")
	// the fixture's framework already built a plugin instance with default args, which left its default/system
	// quota objects in the fake client; drop them so that this instance starts from its own args
	ns := suit.elasticQuotaArgs.QuotaGroupNamespace
	for _, name := range []string{extension.DefaultQuotaName, extension.SystemQuotaName, extension.RootQuotaName} {
		_ = suit.client.SchedulingV1alpha1().ElasticQuotas(ns).Delete(context.TODO(), name, metav1.DeleteOptions{})
	}
	gp := suit.createPlugin(t).(*Plugin)
	w := &c03World{t: t, h: h, gp: gp, cfgRT: idx&1 == 1, cfgCP: idx&2 == 2, quotas: map[int]*c03Quota{}, pods: map[int]*c03Pod{},
		special: map[int]bool{1: true, 2: true}, closedLoop: true}
	gp.pluginArgs.EnableRuntimeQuota = w.cfgRT
	gp.pluginArgs.EnableCheckParentQuota = w.cfgCP
	h.Tag(fmt.Sprintf("switches:rt%d-cp%d", vB(w.cfgRT), vB(w.cfgCP)))
	h.Op("dims %d", c03D)
	for id, mx := range map[int]c03RL{1: dmax, 2: smax} {
		got := c03FromList(gp.groupQuotaManager.GetQuotaInfoByName(c03QName(id)).GetMax())
		if got != mx {
			t.Fatalf("fixture: %s max is %v, want %v", c03QName(id), got, mx)
		}
		gotMin := c03FromList(gp.groupQuotaManager.GetQuotaInfoByName(c03QName(id)).GetMin())
		if gotMin != (c03RL{}) {
			t.Fatalf("fixture: %s has a min %v", c03QName(id), gotMin)
		}
	}
	for _, id := range []int{1, 2} {
		mx := dmax
		if id == 2 {
			mx = smax
		}
		w.quotas[id] = &c03Quota{id: id, max: mx, added: true, lent: true}
		w.order = append(w.order, id)
		// the two quotas exist from NewGroupQuotaManager on; the op only tells the model their max
		h.Op("quota %d 0 0 1 %s %s", id, mx.toks(), c03RL{}.toks())
		w.dump()
	}
	nextPod, pending, admitted := 1, 0, 0
	pick := func(pred func(*c03Pod) bool) *c03Pod {
		var ids []int
		for id, p := range w.pods {
			if pred(p) {
				ids = append(ids, id)
			}
		}
		if len(ids) == 0 {
			return nil
		}
		sort.Ints(ids)
		return w.pods[ids[r.Intn(len(ids))]]
	}
	for step := 0; step < 40; step++ {
		k := r.Intn(100)
		switch {
		case pending != 0 && k < 75:
			p := w.pods[pending]
			pending = 0
			h.Op("res %d", p.id)
			st := gp.Reserve(context.TODO(), framework.NewCycleState(), p.obj, "n1")
			if !st.IsSuccess() {
				h.Fail("C03:reserve-failed", "Reserve returned %v", st.Code())
			}
			if p.inCache {
				p.assigned = true
			}
			w.dump()
		case k < 50:
			p := pick(func(p *c03Pod) bool { return p.inCache && !p.assigned })
			if (p == nil || r.Chance(1, 3)) && len(w.pods) < 10 {
				p = &c03Pod{id: nextPod, quota: 1, np: r.Chance(1, 4), req: c03GenReq(r), labelKind: r.Range(0, 2)}
				if r.Chance(1, 4) {
					p.quota, p.labelKind = 2, 0
				}
				nextPod++
				p.obj = c03MakePod(r, p)
				w.pods[p.id] = p
				h.Op("poddef %d %d %d %s", p.id, p.quota, vB(p.np), p.req.toks())
				w.dump()
				h.Op("podadd %d", p.id)
				gp.OnPodAdd(p.obj)
				p.inCache = true
				w.dump()
				h.Tag(fmt.Sprintf("pod-label-kind:%d-quota%d", p.labelKind, p.quota))
			}
			if p == nil {
				continue
			}
			pending = 0
			if w.attempt(p) {
				admitted++
				pending = p.id
			}
		case k < 65:
			if p := pick(func(p *c03Pod) bool { return p.assigned }); p != nil {
				h.Op("unres %d", p.id)
				gp.Unreserve(context.TODO(), framework.NewCycleState(), p.obj, "n1")
				p.assigned = false
				if p.id == pending {
					pending = 0
				}
				w.dump()
			}
		case k < 80:
			if p := pick(func(p *c03Pod) bool { return p.inCache }); p != nil {
				h.Op("del %d", p.id)
				gp.OnPodDelete(p.obj)
				p.inCache, p.assigned = false, false
				if p.id == pending {
					pending = 0
				}
				w.dump()
			}
		default:
			if p := pick(func(p *c03Pod) bool { return !p.inCache }); p != nil {
				h.Op("podadd %d", p.id)
				gp.OnPodAdd(p.obj)
				p.inCache = true
				w.dump()
			}
		}
	}
	if admitted > 0 {
		h.Nontrivial()
	}
}

// TestVerifC03Exhaustive (thorough tier): EVERY sequence of 4 events from a 12-letter alphabet, for each of the four
// switch combinations, over one fixed small world:
//
//	root <- 1 (is-parent, cpu max 3, min 3) <- 2 (cpu max 3, min 2);  root <- 3 (is-parent, cpu max 2, min 2) <- 4 (cpu max 2, min 1)
//	pod 1 (group 2, cpu 2), pod 2 (group 2, non-preemptible, cpu 1), pod 3 (group 4, cpu 1), all known to the manager.
//
// Alphabet: scheduling cycle of pod 1 / 2 / 3; Unreserve pod 1; delete-or-re-add pod 2; move group 2 (1 <-> 3); move
// group 3 with its subtree (root <-> 1); allow-lent flip of group 1; is-parent flip of group 2; is-parent flip of
// group 3 (refused by the webhook while it has a child: model correspondence only); PreFilter of pod 2 alone (leaves
// the admission open); Reserve of the open admission.  A move that does not fit switches the used <= max clauses off.
func TestVerifC03Exhaustive(t *testing.T) {
	h := vOpen("C03")
	if h == nil {
		t.Skip("VERIF_OUT not set")
	}
	c03Names = nil
	const nev, length = 12, 4
	words := 1
	for i := 0; i < length; i++ {
		words *= nev
	}
	n := h.N(0, 4*words)
	const batch = 144
	for base := 0; base < n; base += batch {
		t.Run(fmt.Sprintf("batch%d", base), func(t *testing.T) {
			// one fixture per batch, one fresh plugin (= fresh GroupQuotaManager) per case: the fixture is what is slow
			suit := newPluginTestSuit(t, nil)
			var lvl klog.Level
			_ = lvl.Set("0")
			for idx := base; idx < base+batch && idx < n; idx++ {
				c03ExhaustiveCase(t, h, suit, idx, idx/words, idx%words, nev, length)
			}
		})
	}
	h.Close("exhaustive small scope: all 12^4 event words x 4 switch combinations over a fixed 4-group / 3-pod world (see the test's comment); " +
		"non-trivial = at least one admitted attempt; distinct by op lines")
}

func c03ExhaustiveCase(t *testing.T, h *vHarness, suit *pluginTestSuit, idx, sw, word, nev, length int) {
	r := h.Begin(idx)
	if r == nil {
		return
	}
	defer h.End()
	// the plugin is built by the fixture's factory but its informers are not started (createPlugin waits ~100 ms per
	// instance for cache syncs): every event of this stream is delivered by calling the handler, and every pod carries
	// its quota label, so neither listers nor informer events are needed
	pl, err := suit.proxyNew(context.TODO(), suit.elasticQuotaArgs, suit.Handle)
	if err != nil {
		t.Fatalf("failed to create plugin: %v", err)
	}
	gp := pl.(*Plugin)
	w := &c03World{t: t, h: h, gp: gp, cfgRT: sw&1 == 1, cfgCP: sw&2 == 2, quotas: map[int]*c03Quota{}, pods: map[int]*c03Pod{},
		stream: "exhaustive", closedLoop: true}
	gp.pluginArgs.EnableRuntimeQuota = w.cfgRT
	gp.pluginArgs.EnableCheckParentQuota = w.cfgCP
	h.Tag(fmt.Sprintf("switches:rt%d-cp%d", vB(w.cfgRT), vB(w.cfgCP)))
	h.Op("dims %d", c03D)
	full := [c03D]bool{true, true, true}
	mk := func(id, parent int, isParent bool, cpuMax, cpuMin int64) {
		w.quotas[id] = &c03Quota{id: id, parent: parent, isParent: isParent, lent: true,
			max: c03RL{has: full, v: [c03D]int64{cpuMax, 100, 100}}, min: c03RL{has: full, v: [c03D]int64{cpuMin, 100, 100}}}
	}
	mk(1, 0, true, 3000, 3000)
	mk(2, 1, false, 3000, 2000)
	mk(3, 0, true, 2000, 2000)
	mk(4, 3, false, 2000, 1000)
	capacity := c03RL{has: full, v: [c03D]int64{20000, 1000, 1000}}
	w.rv++
	h.Op("cap %s", vInts(capacity.v[:]))
	gp.OnNodeAdd(c03Node(capacity, w.rv))
	w.dump()
	for id := 1; id <= 4; id++ {
		w.setQuota(w.quotas[id])
	}
	addPod := func(p *c03Pod) {
		h.Op("podadd %d", p.id)
		gp.OnPodAdd(p.obj)
		p.inCache = true
		w.dump()
	}
	for _, p := range []*c03Pod{
		{id: 1, quota: 2, req: c03RL{has: [c03D]bool{true, false, false}, v: [c03D]int64{2000, 0, 0}}},
		{id: 2, quota: 2, np: true, req: c03RL{has: [c03D]bool{true, false, false}, v: [c03D]int64{1000, 0, 0}}},
		{id: 3, quota: 4, req: c03RL{has: [c03D]bool{true, false, false}, v: [c03D]int64{1000, 0, 0}}},
	} {
		p.obj = c03MakePod(r, p)
		w.pods[p.id] = p
		h.Op("poddef %d %d %d %s", p.id, p.quota, vB(p.np), p.req.toks())
		w.dump()
		addPod(p)
	}
	pending, admitted := 0, 0
	reserve := func(p *c03Pod) {
		h.Op("res %d", p.id)
		st := gp.Reserve(context.TODO(), framework.NewCycleState(), p.obj, "n1")
		if !st.IsSuccess() {
			h.Fail("C03:reserve-failed", "Reserve returned %v", st.Code())
		}
		if p.inCache {
			p.assigned = true
		}
		w.dump()
	}
	move := func(x *c03Quota, a, b int) {
		np := a
		if x.parent == a {
			np = b
		}
		if w.moveShapeOK(x, np) {
			w.doMove(x, np, false, &pending)
		}
	}
	for step := 0; step < length; step++ {
		ev := word % nev
		word /= nev
		h.Tag(fmt.Sprintf("event:%d", ev))
		switch ev {
		case 0, 1, 2:
			p := w.pods[ev+1]
			pending = 0
			if p.inCache && !p.assigned && w.attempt(p) {
				admitted++
				reserve(p)
			}
		case 3:
			if p := w.pods[1]; p.assigned {
				h.Op("unres %d", p.id)
				gp.Unreserve(context.TODO(), framework.NewCycleState(), p.obj, "n1")
				p.assigned = false
				w.dump()
			}
		case 4:
			p := w.pods[2]
			if p.inCache {
				h.Op("del %d", p.id)
				gp.OnPodDelete(p.obj)
				p.inCache, p.assigned = false, false
				if pending == p.id {
					pending = 0
				}
				w.dump()
			} else {
				addPod(p)
			}
		case 5:
			move(w.quotas[2], 3, 1)
		case 6:
			move(w.quotas[3], 1, 0)
		case 7:
			w.doFlip(w.quotas[1], false, pending)
		case 8:
			w.doFlip(w.quotas[2], true, pending)
		case 9:
			w.doFlip(w.quotas[3], true, pending)
		case 10:
			p := w.pods[2]
			pending = 0
			if p.inCache && !p.assigned && w.attempt(p) {
				admitted++
				pending = p.id
			}
		case 11:
			if pending != 0 {
				reserve(w.pods[pending])
				pending = 0
			}
		}
	}
	if admitted > 0 {
		h.Nontrivial()
	}
}

// ---- bounded concurrency stream -------------------------------------------------------------------------------

// c03Gate is a QuotaHookPlugin (the package's own extension point) that does nothing except hold the FIRST
// "usage is given back" notification (OnPodUpdated(old, nil)) for one pod until it is released: it places a second
// call deterministically inside the check-then-act window of the first one (the manager calls the hook between the
// "is the pod assigned?" test and the update of used).
type c03Gate struct {
	podName string
	armed   int32
	entered chan struct{}
	release chan struct{}
}

var _ core.QuotaHookPlugin = &c03Gate{}

func (g *c03Gate) GetKey() string { return "verif-c03-gate" }
func (g *c03Gate) IsQuotaUpdated(_, _ *core.QuotaInfo, _ *v1alpha1.ElasticQuota) bool {
	return false
}
func (g *c03Gate) PreQuotaUpdate(_, _ *core.QuotaInfo, _ *v1alpha1.ElasticQuota, _ *core.QuotaUpdateState) {
}
func (g *c03Gate) PostQuotaUpdate(_, _ *core.QuotaInfo, _ *v1alpha1.ElasticQuota, _ *core.QuotaUpdateState) {
}
func (g *c03Gate) UpdateQuotaStatus(_, _ *v1alpha1.ElasticQuota) *v1alpha1.ElasticQuota { return nil }
func (g *c03Gate) CheckPod(string, *corev1.Pod) error                                   { return nil }
func (g *c03Gate) OnPodUpdated(_ string, oldPod, newPod *corev1.Pod) {
	if oldPod == nil || newPod != nil || oldPod.Name != g.podName {
		return
	}
	if !atomic.CompareAndSwapInt32(&g.armed, 1, 0) {
		return
	}
	close(g.entered)
	select {
	case <-g.release:
	case <-time.After(5 * time.Second):
	}
}

// TestVerifC03Race: Unreserve(p) racing OnPodDelete(p) (a pod deleted while it is being bound) or a second
// Unreserve(p), with other assigned pods in the same group and its ancestors.  The first call is held inside its
// check-then-act window by c03Gate, the second one is started then; on the unchanged tree the second simply waits
// for the manager's lock.  Oracle at the quiescent point: used = sum of the requests of the still assigned pods
// (every group of the path), and the next admission is judged on that.  Model: the two calls in either order.
func TestVerifC03Race(t *testing.T) {
	h := vOpen("C03")
	if h == nil {
		t.Skip("VERIF_OUT not set")
	}
	c03Names = nil
	n := h.N(16, 80)
	t.Run("race", func(t *testing.T) {
		suit := newPluginTestSuit(t, nil)
		var lvl klog.Level
		_ = lvl.Set("0")
		for idx := 0; idx < n; idx++ {
			c03RaceCase(t, h, suit, idx)
		}
	})
	h.Close("one history per case: group 2 below group 1 (or directly below the root), 2-3 pods admitted and reserved in group 2, then two calls for the " +
		"same pod run concurrently - first Unreserve or OnPodDelete (held in its check-then-act window by a hook), second OnPodDelete / Unreserve - " +
		"then one more admission attempt; switches = case index mod 4; non-trivial = the raced pod was assigned; distinct by op lines")
}

func c03RaceCase(t *testing.T, h *vHarness, suit *pluginTestSuit, idx int) {
	r := h.Begin(idx)
	if r == nil {
		return
	}
	defer h.End()
	pl, err := suit.proxyNew(context.TODO(), suit.elasticQuotaArgs, suit.Handle)
	if err != nil {
		t.Fatalf("failed to create plugin: %v", err)
	}
	gp := pl.(*Plugin)
	w := &c03World{t: t, h: h, gp: gp, cfgRT: idx&1 == 1, cfgCP: idx&2 == 2, quotas: map[int]*c03Quota{}, pods: map[int]*c03Pod{},
		stream: "race", closedLoop: true}
	gp.pluginArgs.EnableRuntimeQuota = w.cfgRT
	gp.pluginArgs.EnableCheckParentQuota = w.cfgCP
	h.Tag(fmt.Sprintf("switches:rt%d-cp%d", vB(w.cfgRT), vB(w.cfgCP)))
	h.Op("dims %d", c03D)
	full := [c03D]bool{true, true, true}
	big := c03RL{has: full, v: [c03D]int64{int64(r.Range(8, 12)) * 1000, 100, 100}}
	deep := r.Bool()
	if deep {
		w.quotas[1] = &c03Quota{id: 1, isParent: true, lent: true, max: big, min: big}
	}
	leaf := &c03Quota{id: 2, lent: true, max: big, min: big}
	if deep {
		leaf.parent = 1
	}
	w.quotas[2] = leaf
	capacity := c03RL{has: full, v: [c03D]int64{40000, 1000, 1000}}
	w.rv++
	h.Op("cap %s", vInts(capacity.v[:]))
	gp.OnNodeAdd(c03Node(capacity, w.rv))
	w.dump()
	if deep {
		w.setQuota(w.quotas[1])
	}
	w.setQuota(leaf)
	np := r.Range(2, 3)
	for id := 1; id <= np+1; id++ {
		p := &c03Pod{id: id, quota: 2, np: r.Chance(1, 3), req: c03RL{has: [c03D]bool{true, r.Bool(), false}, v: [c03D]int64{int64(r.Range(1, 3)) * 1000, int64(r.Range(0, 3)), 0}}}
		p.obj = c03MakePod(r, p)
		w.pods[id] = p
		h.Op("poddef %d %d %d %s", p.id, p.quota, vB(p.np), p.req.toks())
		w.dump()
		h.Op("podadd %d", p.id)
		gp.OnPodAdd(p.obj)
		p.inCache = true
		w.dump()
		if id > np {
			break // the last pod asks for admission after the race
		}
		if w.attempt(p) {
			h.Op("res %d", p.id)
			gp.Reserve(context.TODO(), framework.NewCycleState(), p.obj, "n1")
			p.assigned = true
			w.dump()
		}
	}
	victim := w.pods[r.Range(1, np)]
	if victim.assigned {
		h.Nontrivial()
	}
	gate := &c03Gate{podName: victim.obj.Name, entered: make(chan struct{}), release: make(chan struct{})}
	gp.groupQuotaManager.SetHookPlugins([]core.QuotaHookPlugin{gate})
	unres := func() { gp.Unreserve(context.TODO(), framework.NewCycleState(), victim.obj, "n1") }
	del := func() { gp.OnPodDelete(victim.obj) }
	kind := r.Intn(3)
	first, second := unres, del
	switch kind {
	case 1:
		first, second = del, unres
	case 2:
		second = unres
	}
	h.Tag(fmt.Sprintf("race-kind:%d", kind))
	atomic.StoreInt32(&gate.armed, 1)
	var wg sync.WaitGroup
	wg.Add(1)
	go func() { defer wg.Done(); first() }()
	held := false
	if victim.assigned {
		select {
		case <-gate.entered:
			held = true
		case <-time.After(3 * time.Second):
			h.Fail("C03:race-window-not-reached", "the first call never reached the usage update")
		}
	}
	done := make(chan struct{})
	wg.Add(1)
	go func() { defer wg.Done(); second(); close(done) }()
	select {
	case <-done:
		if held {
			h.Tag("race:second-call-ran-inside-the-window")
		}
	case <-time.After(120 * time.Millisecond):
		h.Tag("race:second-call-waited-for-the-lock")
	}
	close(gate.release)
	wg.Wait()
	gp.groupQuotaManager.SetHookPlugins(nil)
	// quiescent point
	victim.assigned = false
	if kind != 2 {
		victim.inCache = false
		h.Op("race %d", victim.id)
	} else {
		h.Op("unres %d", victim.id)
	}
	w.dump()
	w.attempt(w.pods[np+1])
}

// ---- groups created late: pods wait (and are scheduled) in the default quota, then migrate ---------------------

// TestVerifC03Late: pods labelled with a group that does not exist yet are filed under koordinator-default-quota
// (group 1, finite max), may be admitted and reserved there, then the ElasticQuota is created and one tick of
// migrateDefaultQuotaGroupsPod moves them - with their assigned flag and usage - into the group; further pods then
// ask for admission in the group.  The tick runs before any pod event for a moved pod (a pod event between the
// creation and the tick is outside the model).  Oracle: used = sum of the requests of the assigned pods per group
// after every event, and the admission clauses on that.
func TestVerifC03Late(t *testing.T) {
	h := vOpen("C03")
	if h == nil {
		t.Skip("VERIF_OUT not set")
	}
	n := h.N(44, 312) // cases 0-7: the directed histories of c03LateCase (bound pods), 8-11: directed relabel histories, then the random stream
	full := [c03D]bool{true, true, true}
	dmax := c03RL{has: full, v: [c03D]int64{8000, 16, 4}}
	t.Run("late", func(t *testing.T) {
		suit := newPluginTestSuit(t, nil, func(a *config.ElasticQuotaArgs) { a.DefaultQuotaGroupMax = dmax.list() })
		var lvl klog.Level
		_ = lvl.Set("0")
		for idx := 0; idx < n; idx++ {
			c03LateCase(t, h, suit, idx, dmax)
		}
	})
	c03Names = nil
	h.Close("one history per case: default quota (group 1, max cpu 8 / mem 16 / gpu 4) + groups 3..5 of which one or two are created in the middle of " +
		"the history; <=10 pods labelled with registered and not-yet-registered groups; 40 events: PreFilter, Reserve of the admitted pod, Unreserve, " +
		"OnPodDelete (not for pods waiting for a tick), OnPodAdd, group creation followed by the migration tick, extra ticks; switches = case index mod 4; " +
		"1/3 of the new pods are ALREADY BOUND when first seen (OnPodAdd of an object with a node name); ordinary updates (old and new object bound) of bound pods, " +
		"also between a group's creation and the tick; OnQuotaDelete of a planned group (its pods are held by no group afterwards) and its re-creation, after which " +
		"the dropped pods come back by an ordinary update; cases 0-7 directed (running pod seen before its group exists / group deleted and re-created, then a " +
		"second pod asks for admission); cases 8-11 directed relabel histories and about 5% of the random events: ONE OnPodUpdate whose new object names another " +
		"registered group (held pod, or a running pod whose group was deleted and re-created under it), with or without the binding in the same event; " +
		"non-trivial = an assigned pod was migrated, a bound pod was filed by an update or a pod was relabelled; distinct by op lines")
}

func c03LateCase(t *testing.T, h *vHarness, suit *pluginTestSuit, idx int, dmax c03RL) {
	r := h.Begin(idx)
	if r == nil {
		return
	}
	defer h.End()
	c03Names = map[int]string{1: extension.DefaultQuotaName}
	pl, err := suit.proxyNew(context.TODO(), suit.elasticQuotaArgs, suit.Handle)
	if err != nil {
		t.Fatalf("failed to create plugin: %v", err)
	}
	gp := pl.(*Plugin)
	w := &c03World{t: t, h: h, gp: gp, cfgRT: idx&1 == 1, cfgCP: idx&2 == 2, quotas: map[int]*c03Quota{}, pods: map[int]*c03Pod{},
		special: map[int]bool{1: true}, stream: "late", closedLoop: false}
	gp.pluginArgs.EnableRuntimeQuota = w.cfgRT
	gp.pluginArgs.EnableCheckParentQuota = w.cfgCP
	h.Tag(fmt.Sprintf("switches:rt%d-cp%d", vB(w.cfgRT), vB(w.cfgCP)))
	h.Op("dims %d", c03D)
	if got := c03FromList(gp.groupQuotaManager.GetQuotaInfoByName(extension.DefaultQuotaName).GetMax()); got != dmax {
		t.Fatalf("fixture: default quota max is %v, want %v", got, dmax)
	}
	capacity := c03RL{has: [c03D]bool{true, true, true}, v: [c03D]int64{40000, 100, 20}}
	w.rv++
	h.Op("cap %s", vInts(capacity.v[:]))
	gp.OnNodeAdd(c03Node(capacity, w.rv))
	w.dump()
	w.quotas[1] = &c03Quota{id: 1, max: dmax, added: true, lent: true}
	w.order = []int{1}
	h.Op("quota 1 0 0 1 %s %s", dmax.toks(), c03RL{}.toks())
	w.dump()
	h.Op("dflt 1")
	w.dump()
	// planned groups 3..5 (2 is reserved for the system quota); label[p] = the group named by the pod's label
	var planned []int
	for id := 3; id <= r.Range(3, 5); id++ {
		q := &c03Quota{id: id, lent: true, max: c03GenMax(r, nil)}
		q.min = c03GenMin(r, q.max)
		w.quotas[id] = q
		planned = append(planned, id)
	}
	label := map[int]int{}
	pending, step0 := 0, 0
	waiting := func(p *c03Pod) bool { // filed under the default quota although its group exists: needs a tick
		return p.inCache && p.quota == 1 && label[p.id] != 1 && w.quotas[label[p.id]].added
	}
	home := func(id int) int {
		if l := label[id]; w.quotas[l].added {
			return l
		}
		return 1
	}
	tick := func() {
		moved := false
		for _, p := range w.pods {
			if waiting(p) {
				if p.assigned {
					moved = true
				}
				p.quota = label[p.id]
			}
		}
		if moved {
			h.Nontrivial()
			h.Tag("late:assigned-pod-migrated")
		}
		h.Op("migrate")
		gp.migrateDefaultQuotaGroupsPod()
		w.dump()
	}
	// dropped: pods whose group was deleted while it held them (held by no group now); the pod objects live on (bound)
	dropped := map[int]bool{}
	forced := -1 // directed histories: the choice taken for every pod between a group's creation and the tick
	// an ordinary update of a running pod: old and new object carry the node name.  A group that holds the pod as
	// assigned changes nothing; one that does not hold it files it ("pod creation is before quota creation") and marks
	// it assigned, because the object is bound; one that holds it unassigned marks it assigned.
	update := func(p *c03Pod) {
		old := p.obj
		if old.Spec.NodeName == "" {
			old = old.DeepCopy()
			old.Spec.NodeName = "n1"
		}
		neu := old.DeepCopy()
		neu.ResourceVersion = fmt.Sprint(1000 + step0)
		step0++
		if p.inCache {
			h.Op("podbind %d", p.id)
		} else {
			h.Op("podaddb %d", p.id)
			p.quota = home(p.id)
			p.inCache = true
			delete(dropped, p.id)
			h.Nontrivial()
			h.Tag(fmt.Sprintf("late:bound-pod-filed-by-update:default=%v", p.quota == 1))
		}
		gp.OnPodUpdate(old, neu)
		p.obj = neu
		p.assigned = true
		if p.id == pending {
			pending = 0
		}
		w.dump()
	}
	// relabel (ninth round): ONE OnPodUpdate whose new object names another registered group nl (different-quota branch
	// of GroupQuotaManager.OnPodUpdate), with bind = the new object also gets the node name.  The old group gives back
	// whatever it holds of the pod; the new group files the pod and counts it as used iff the NEW OBJECT is bound -
	// also when the old group did not hold the pod as assigned (it was deleted and re-created under the running pod, or
	// the same event carries the binding: a re-list after a dropped watch).
	relabel := func(p *c03Pod, nl int, bind bool) {
		old := p.obj
		neu := old.DeepCopy()
		neu.Labels[extension.LabelQuotaName] = c03QName(nl)
		if bind {
			neu.Spec.NodeName = "n1"
		}
		neu.ResourceVersion = fmt.Sprint(1000 + step0)
		step0++
		isBound := neu.Spec.NodeName != ""
		h.Op("podrelabel %d %d %d", p.id, nl, vB(isBound))
		h.Tag(fmt.Sprintf("late:relabel:held=%v:was-assigned=%v:old-bound=%v:new-bound=%v", p.inCache, p.assigned, old.Spec.NodeName != "", isBound))
		gp.OnPodUpdate(old, neu)
		label[p.id] = nl
		p.obj = neu
		p.quota, p.inCache, p.assigned = nl, true, isBound
		delete(dropped, p.id)
		pending = 0
		h.Nontrivial()
		w.dump()
	}
	register := func(id int) {
		w.setQuota(w.quotas[id])
		// between the creation and the tick: the bind update of a waiting pod (files it under the new group although
		// the default quota still holds it) or its deletion (the delete handler must also clear the default quota)
		bound := map[int]bool{}
		var ids []int
		for pid, p := range w.pods {
			if waiting(p) {
				ids = append(ids, pid)
			}
		}
		sort.Ints(ids)
		for _, pid := range ids {
			p := w.pods[pid]
			choice := forced
			if choice < 0 {
				choice = r.Intn(4)
			}
			switch choice {
			case 0:
				old := p.obj
				if old.Spec.NodeName != "" {
					h.Tag(fmt.Sprintf("late:bound-bound-update-before-tick:assigned-in-default=%v", p.assigned))
				}
				neu := old.DeepCopy()
				neu.Spec.NodeName = "n1"
				neu.ResourceVersion = fmt.Sprint(1000 + step0)
				step0++
				h.Op("podbind %d", p.id)
				gp.OnPodUpdate(old, neu)
				p.obj = neu
				p.quota, p.assigned = label[p.id], true
				bound[p.id] = true
				h.Tag("late:bind-update-before-tick")
				w.transient = true
				w.dump()
			case 1:
				h.Op("del %d", p.id)
				gp.OnPodDelete(p.obj)
				p.inCache, p.assigned = false, false
				if p.id == pending {
					pending = 0
				}
				h.Tag("late:delete-before-tick")
				w.dump()
			}
		}
		// pods the group held when it was deleted: their next ordinary update (both objects bound) files them again,
		// straight under the re-created group (no PodInfo in the default quota, the tick has nothing to do for them)
		ids = ids[:0]
		for pid := range dropped {
			if label[pid] == id {
				ids = append(ids, pid)
			}
		}
		sort.Ints(ids)
		for _, pid := range ids {
			if forced == 0 || (forced < 0 && r.Chance(2, 3)) {
				update(w.pods[pid])
				bound[pid] = true
				h.Tag("late:dropped-pod-update-before-tick")
			}
		}
		w.transient = false
		tick()
		if len(bound) > 0 && !w.acctBroken {
			sums := gp.groupQuotaManager.GetQuotaSummaries(false)
			if sg := sums[c03QName(id)]; sg != nil {
				if u, uo := c03FromList(sg.Used), w.usedO(id, false); u.v != uo {
					under := true
					for d := 0; d < c03D; d++ {
						if u.v[d] > uo[d] {
							under = false
						}
					}
					if under {
						h.Fail("C03:bound-pod-filed-unassigned", "group %d: the update of a running (bound) pod arrived between the group's creation and the migration "+
							"tick; after the tick the group reports used %v, the pods assigned in it request %v: the running pod is held but not counted", id, u.v, uo)
					} else {
						h.Fail("C03:update-before-migration-double-count", "group %d: a pod update arrived between the group's creation and the migration tick; "+
							"after the tick the group reports used %v, the pods assigned in it request %v", id, u.v, uo)
					}
				}
			}
		}
	}
	// OnQuotaDelete of a planned group (no child groups): the QuotaInfo goes and its PodCache with it; nothing files the
	// pods under the default quota.  The pods that were assigned there are running pods: their objects carry the node
	// name from now on (the binding has long completed).
	dropQuota := func(id int) {
		q := w.quotas[id]
		h.Op("quotadel %d", id)
		gp.OnQuotaDelete(q.obj)
		q.added, q.lastRT, q.obj = false, nil, nil
		var order []int
		for _, o := range w.order {
			if o != id {
				order = append(order, o)
			}
		}
		w.order = order
		for _, p := range w.pods {
			if p.quota == id && p.inCache {
				if p.assigned || p.obj.Spec.NodeName != "" {
					if p.obj.Spec.NodeName == "" {
						p.obj = p.obj.DeepCopy()
						p.obj.Spec.NodeName = "n1"
					}
					dropped[p.id] = true
				}
				p.inCache, p.assigned = false, false
				if p.id == pending {
					pending = 0
				}
			}
		}
		h.Tag("late:group-deleted")
		w.dump()
	}
	// a new pod object; bound = it already carries a node name (a running pod met for the first time: fail-over add)
	newPod := func(id, l int, np bool, req c03RL, isBound bool) *c03Pod {
		p := &c03Pod{id: id, quota: l, np: np, req: req}
		label[p.id] = l
		p.obj = c03MakePod(r, p) // the label names group l whether or not it exists
		if isBound {
			p.obj.Spec.NodeName = "n1"
		}
		w.pods[p.id] = p
		h.Op("poddef %d %d %d %s", p.id, l, vB(p.np), p.req.toks())
		w.dump()
		p.quota = home(p.id)
		if isBound {
			h.Op("podaddb %d", p.id)
		} else {
			h.Op("podadd %d", p.id)
		}
		gp.OnPodAdd(p.obj)
		p.inCache, p.assigned = true, isBound
		w.dump()
		h.Tag(fmt.Sprintf("late:pod-filed-under-default:%v:bound=%v", p.quota == 1, isBound))
		return p
	}
	if idx < 8 {
		// directed: group 3 (max cpu 10, memory 20), a RUNNING pod 1 (cpu 8) and a second pod 2 (cpu 8) of group 3.
		//  0-3  pod 1 is seen (bound) while group 3 does not exist -> default quota; group 3 created; ordinary update of
		//       pod 1; tick; pod 2 asks for admission (8 + 8 > 10).
		//  4-5  group 3 exists, pod 1 seen (bound); group 3 deleted and re-created; ordinary update of pod 1; tick; pod 2.
		//  6-7  as 4-5, and pod 1 also gets an ordinary update while group 3 is gone (-> default quota).
		forced = 0
		q := w.quotas[3]
		q.max = c03RL{has: [c03D]bool{true, true, false}, v: [c03D]int64{10000, 20, 0}}
		q.min = c03RL{}
		req := c03RL{has: [c03D]bool{true, true, false}, v: [c03D]int64{8000, 1, 0}}
		if idx >= 4 {
			register(3)
		}
		p1 := newPod(1, 3, false, req, true)
		if idx >= 4 {
			dropQuota(3)
			if idx >= 6 {
				update(p1)
			}
		}
		register(3)
		p2 := newPod(2, 3, false, req, false)
		if w.attempt(p2) {
			h.Op("res %d", p2.id)
			gp.Reserve(context.TODO(), framework.NewCycleState(), p2.obj, "n1")
			p2.assigned = true
			w.dump()
		}
		update(p1) // once more, now that everything has settled: changes nothing
		h.Tag("late:directed")
		return
	}
	if idx < 12 {
		// directed relabel histories (ninth round): groups 3 and 4 (max cpu 10, memory 20), pod 1 (cpu 6) labelled 3,
		// pod 2 (cpu 6) labelled 4.
		//  8-9   pod 1 RUNNING in group 3; group 3 deleted and re-created (no update of pod 1: the fresh group does not
		//        hold it); pod 1 relabelled to group 4 (old and new object bound); pod 2 asks for admission (6 + 6 > 10).
		//  10-11 pod 1 pending in group 3; ONE update binds it and relabels it to group 4; pod 2 asks for admission.
		forced = 2
		for _, id := range []int{3, 4} {
			if w.quotas[id] == nil {
				w.quotas[id] = &c03Quota{id: id, lent: true}
				planned = append(planned, id)
			}
			w.quotas[id].max = c03RL{has: [c03D]bool{true, true, false}, v: [c03D]int64{10000, 20, 0}}
			w.quotas[id].min = c03RL{}
			register(id)
		}
		req := c03RL{has: [c03D]bool{true, true, false}, v: [c03D]int64{6000, 1, 0}}
		p1 := newPod(1, 3, false, req, idx < 10)
		if idx < 10 {
			dropQuota(3)
			register(3)
		}
		relabel(p1, 4, true)
		p2 := newPod(2, 4, false, req, false)
		if w.attempt(p2) {
			h.Op("res %d", p2.id)
			gp.Reserve(context.TODO(), framework.NewCycleState(), p2.obj, "n1")
			p2.assigned = true
			w.dump()
		}
		update(p1) // an ordinary update afterwards: changes nothing
		h.Tag("late:directed-relabel")
		return
	}
	recreate := func(p *c03Pod) { // a deleted pod comes back under the same name: new object, new UID, new request
		for len(p.stale) <= p.inc {
			p.stale = append(p.stale, nil)
		}
		p.stale[p.inc] = p.obj
		p.inc++
		p.np, p.req = r.Chance(1, 4), c03GenReq(r)
		p.obj = c03MakePod(r, p)
		p.obj.Labels[extension.LabelQuotaName] = c03QName(label[p.id])
		h.Op("podredef %d %d %s", p.id, vB(p.np), p.req.toks())
		h.Tag("late:pod-recreated-under-the-same-name")
		w.dump()
	}
	staleUnreserve := func(p *c03Pod) { // the roll-back of an EARLIER incarnation arrives late
		inc := r.Intn(len(p.stale))
		old := p.stale[inc]
		if old == nil {
			return
		}
		qi := gp.groupQuotaManager.GetQuotaInfoByName(c03QName(p.quota))
		before := gp.groupQuotaManager.GetQuotaSummaries(false)[c03QName(p.quota)]
		wasAssigned := qi != nil && qi.CheckPodIsAssigned(p.obj)
		h.Op("unresobj %d %d", p.id, inc)
		gp.Unreserve(context.TODO(), framework.NewCycleState(), old, "n1")
		h.Tag("late:stale-unreserve")
		after := gp.groupQuotaManager.GetQuotaSummaries(false)[c03QName(p.quota)]
		if before != nil && after != nil && qi != nil {
			if c03FromList(before.Used) != c03FromList(after.Used) || wasAssigned != qi.CheckPodIsAssigned(p.obj) {
				h.Fail("C03:stale-unreserve-same-name", "Unreserve with the object of incarnation %d of pod %d (current incarnation %d): used %v -> %v, assigned %v -> %v",
					inc, p.id, p.inc, c03FromList(before.Used).v, c03FromList(after.Used).v, wasAssigned, qi.CheckPodIsAssigned(p.obj))
			}
		}
		w.dump()
	}
	if r.Bool() {
		register(planned[0])
	}
	pick := func(pred func(*c03Pod) bool) *c03Pod {
		var ids []int
		for id, p := range w.pods {
			if pred(p) {
				ids = append(ids, id)
			}
		}
		if len(ids) == 0 {
			return nil
		}
		sort.Ints(ids)
		return w.pods[ids[r.Intn(len(ids))]]
	}
	nextPod := 1
	for step := 0; step < 40; step++ {
		k := r.Intn(100)
		switch {
		case pending != 0 && k < 75:
			p := w.pods[pending]
			pending = 0
			h.Op("res %d", p.id)
			gp.Reserve(context.TODO(), framework.NewCycleState(), p.obj, "n1")
			if p.inCache {
				p.assigned = true
			}
			w.dump()
		case k >= 40 && k < 45:
			// the quota label of a pod changes (a held pod that is not waiting for a tick, or a running pod whose group was
			// deleted under it); the new label names another REGISTERED planned group.  A pod assigned by Reserve only (no
			// node name yet) gets the binding in the same event; a pending one with chance 1/2 (bind + relabel in one event)
			p := pick(func(p *c03Pod) bool {
				return (p.inCache && !waiting(p) && p.quota == home(p.id)) || (!p.inCache && dropped[p.id])
			})
			if p == nil {
				continue
			}
			var cands []int
			for _, id := range planned {
				if w.quotas[id].added && id != home(p.id) {
					cands = append(cands, id)
				}
			}
			if len(cands) == 0 {
				continue
			}
			relabel(p, cands[r.Intn(len(cands))], p.assigned || (p.obj.Spec.NodeName == "" && r.Bool()))
		case k < 45:
			p := pick(func(p *c03Pod) bool { return p.inCache && !p.assigned })
			if (p == nil || r.Chance(1, 3)) && len(w.pods) < 10 {
				l := planned[r.Intn(len(planned))]
				np, req := r.Chance(1, 4), c03GenReq(r)
				p = newPod(nextPod, l, np, req, r.Chance(1, 3))
				nextPod++
			}
			if p == nil || p.assigned { // (a pod that arrived bound is running: no admission attempt)
				continue
			}
			pending = 0
			if w.attempt(p) {
				pending = p.id
			}
		case k < 57:
			if p := pick(func(p *c03Pod) bool { return p.assigned }); p != nil {
				h.Op("unres %d", p.id)
				gp.Unreserve(context.TODO(), framework.NewCycleState(), p.obj, "n1")
				p.assigned = false
				if p.id == pending {
					pending = 0
				}
				w.dump()
			}
		case k < 67:
			if p := pick(func(p *c03Pod) bool { return p.inCache }); p != nil {
				h.Op("del %d", p.id)
				gp.OnPodDelete(p.obj)
				p.inCache, p.assigned = false, false
				if p.id == pending {
					pending = 0
				}
				w.dump()
			}
		case k < 75:
			if p := pick(func(p *c03Pod) bool { return !p.inCache }); p != nil {
				if r.Bool() || p.obj.Spec.NodeName != "" { // (a pod that comes back by OnPodAdd is a new, pending incarnation)
					recreate(p)
				}
				delete(dropped, p.id)
				p.quota = home(p.id)
				h.Op("podadd %d", p.id)
				gp.OnPodAdd(p.obj)
				p.inCache = true
				w.dump()
			}
		case k < 90:
			created := false
			if !r.Chance(1, 4) {
				for _, id := range planned {
					if !w.quotas[id].added {
						h.Tag("late:group-created")
						register(id)
						pending = 0
						created = true
						break
					}
				}
			}
			if !created { // a registered planned group is deleted (and may be created again later)
				var cands []int
				for _, id := range planned {
					if w.quotas[id].added {
						cands = append(cands, id)
					}
				}
				if len(cands) > 0 {
					dropQuota(cands[r.Intn(len(cands))])
				}
			}
		case k < 94:
			// an ordinary update of a running pod: one its group holds, or one that lost its group (then it is filed under
			// the default quota, or under its group if that exists again)
			if p := pick(func(p *c03Pod) bool {
				return (p.inCache && p.obj.Spec.NodeName != "" && !waiting(p)) || (!p.inCache && dropped[p.id])
			}); p != nil {
				update(p)
				h.Tag("late:ordinary-update")
			}
		default:
			if p := pick(func(p *c03Pod) bool { return p.inCache && len(p.stale) > 0 && !waiting(p) }); p != nil && r.Chance(2, 3) {
				staleUnreserve(p)
			} else {
				tick() // nothing to move
			}
		}
	}
}

// ---- quota-spec update histories ------------------------------------------------------------------------------

// TestVerifC03Spec: histories dense in OnQuotaUpdate(old, new) calls that change which dimensions a group's max / min
// declare (entry added with value 0 or a non-zero value, removed, set to 0, raised from 0, or the same spec sent
// again), each followed by an admission attempt of a pod that asks for the touched dimension in that group.  Tree:
// root <- 1 (is-parent) <- {2, 3}; root <- 4.  cpu and memory are always declared by max; the extended resource
// (nvidia.com/gpu) and the entries of min come and go.  The oracle reads every limit from its own copy of the LAST
// DECLARED object (w.quotas), never from the manager; the model applies an update iff the declared lists differ as
// maps (zero-valued entries included).
func TestVerifC03Spec(t *testing.T) {
	h := vOpen("C03")
	if h == nil {
		t.Skip("VERIF_OUT not set")
	}
	c03Names = nil
	n := h.N(60, 600)
	const batch = 60
	for base := 0; base < n; base += batch {
		t.Run(fmt.Sprintf("batch%d", base), func(t *testing.T) {
			suit := newPluginTestSuit(t, nil)
			var lvl klog.Level
			_ = lvl.Set("0")
			for idx := base; idx < base+batch && idx < n; idx++ {
				if idx < 4 {
					// directed (one per switch combination): known finding C03:dimension-added-under-assigned-pods =
					// word 9826 of the exhaustive spec stream: cycle of pod 1 (cpu 500m, gpu 1; gpu not declared, masked
					// out), group 2's max gains gpu: 1, cycle of pod 3 (gpu 1), Unreserve pod 1
					c03SpecExhaustiveCase(t, h, suit, idx, idx, 9826, 10, 4)
					continue
				}
				c03SpecCase(t, h, suit, idx)
			}
		})
	}
	h.Close("one history per case over root <- 1 (is-parent) <- {2,3}, root <- 4: max declares cpu + memory and (by chance, value 0..4) the extended " +
		"resource, min declares each dimension with probability 2/3 (values 0..max); <=10 pods (gpu requests frequent, 1/3 non-preemptible); 36 events: " +
		"PreFilter, Reserve of the admitted pod, Unreserve, OnPodDelete, OnPodAdd, value-only max/min raise and (35%) a spec update of one dimension of " +
		"max or min - entry added with 0 / non-zero, removed, set to 0, raised from 0, identical object re-sent - followed by an attempt of a pod asking " +
		"for that dimension; webhook-legal key sets (child within parent, min <= max); closed stream: updates under which the shown usage still fits and " +
		"no assigned pod of the group holds the touched dimension; wild stream (1/4): any; switches = case index mod 4; non-trivial = a key-presence " +
		"update followed by an admitted and a rejected attempt; distinct by op lines; cases 0-3 are directed: the history of known finding " +
		"C03:dimension-added-under-assigned-pods (max gains the gpu entry under an assigned gpu pod, next gpu pod, roll-back of the first), one per switch combination")
}

func c03SpecCase(t *testing.T, h *vHarness, suit *pluginTestSuit, idx int) {
	r := h.Begin(idx)
	if r == nil {
		return
	}
	defer h.End()
	pl, err := suit.proxyNew(context.TODO(), suit.elasticQuotaArgs, suit.Handle)
	if err != nil {
		t.Fatalf("failed to create plugin: %v", err)
	}
	gp := pl.(*Plugin)
	w := &c03World{t: t, h: h, gp: gp, cfgRT: idx&1 == 1, cfgCP: idx&2 == 2, quotas: map[int]*c03Quota{}, pods: map[int]*c03Pod{},
		stream: "spec", closedLoop: true}
	if r.Chance(1, 4) {
		w.stream, w.closedLoop = "spec-wild", false
	}
	gp.pluginArgs.EnableRuntimeQuota = w.cfgRT
	gp.pluginArgs.EnableCheckParentQuota = w.cfgCP
	h.Tag("stream:" + w.stream)
	h.Tag(fmt.Sprintf("switches:rt%d-cp%d", vB(w.cfgRT), vB(w.cfgCP)))
	h.Op("dims %d", c03D)
	genMax := func(parent *c03Quota) c03RL {
		m := c03RL{has: [c03D]bool{true, true, r.Bool()}, v: [c03D]int64{int64(r.Range(3, 12)) * 500, int64(r.Range(3, 12)), int64(r.Range(0, 4))}}
		if parent != nil && !parent.max.has[2] {
			m.has[2] = false
		}
		if !m.has[2] {
			m.v[2] = 0
		}
		return m
	}
	genMin := func(mx c03RL) c03RL {
		var m c03RL
		for d := 0; d < c03D; d++ {
			if !r.Chance(2, 3) {
				continue
			}
			m.has[d] = true
			if mx.has[d] && !r.Chance(1, 3) {
				m.v[d] = r.Int63n(mx.v[d] + 1)
				if d == 0 {
					m.v[d] -= m.v[d] % 250
				}
			}
		}
		return m
	}
	for id := 1; id <= 4; id++ {
		q := &c03Quota{id: id, isParent: id == 1, lent: !r.Chance(1, 4)}
		var parent *c03Quota
		if id == 2 || id == 3 {
			q.parent = 1
			parent = w.quotas[1]
		}
		q.max = genMax(parent)
		q.min = genMin(q.max)
		w.quotas[id] = q
	}
	capacity := c03RL{has: [c03D]bool{true, true, true}, v: [c03D]int64{int64(r.Range(4, 40)) * 500, int64(r.Range(4, 40)), int64(r.Range(0, 8))}}
	w.rv++
	h.Op("cap %s", vInts(capacity.v[:]))
	gp.OnNodeAdd(c03Node(capacity, w.rv))
	w.dump()
	for id := 1; id <= 4; id++ {
		w.setQuota(w.quotas[id])
	}
	nextPod, pending := 1, 0
	admitted, rejected, keyUpdates := 0, 0, 0
	pick := func(pred func(*c03Pod) bool) *c03Pod {
		var ids []int
		for id, p := range w.pods {
			if pred(p) {
				ids = append(ids, id)
			}
		}
		if len(ids) == 0 {
			return nil
		}
		sort.Ints(ids)
		return w.pods[ids[r.Intn(len(ids))]]
	}
	try := func(p *c03Pod) {
		pending = 0
		if w.attempt(p) {
			admitted++
			pending = p.id
		} else {
			rejected++
		}
	}
	for step := 0; step < 36; step++ {
		k := r.Intn(100)
		switch {
		case pending != 0 && k < 70:
			p := w.pods[pending]
			pending = 0
			h.Op("res %d", p.id)
			st := gp.Reserve(context.TODO(), framework.NewCycleState(), p.obj, "n1")
			if !st.IsSuccess() {
				h.Fail("C03:reserve-failed", "Reserve returned %v", st.Code())
			}
			if p.inCache {
				p.assigned = true
			}
			w.dump()
		case k < 30:
			p := pick(func(p *c03Pod) bool { return p.inCache && !p.assigned })
			if (p == nil || r.Chance(1, 4)) && len(w.pods) < 10 {
				g := r.Range(1, 4)
				if g == 1 && !r.Chance(1, 4) {
					g = r.Range(2, 4)
				}
				p = w.specProbe(r, g, r.Intn(c03D), &nextPod, 10)
			}
			if p != nil {
				try(p)
			}
		case k < 40:
			if p := pick(func(p *c03Pod) bool { return p.assigned }); p != nil {
				h.Op("unres %d", p.id)
				gp.Unreserve(context.TODO(), framework.NewCycleState(), p.obj, "n1")
				p.assigned = false
				if p.id == pending {
					pending = 0
				}
				w.dump()
			}
		case k < 48:
			if p := pick(func(p *c03Pod) bool { return p.inCache }); p != nil {
				h.Op("del %d", p.id)
				gp.OnPodDelete(p.obj)
				p.inCache, p.assigned = false, false
				if p.id == pending {
					pending = 0
				}
				w.dump()
			}
		case k < 54:
			if p := pick(func(p *c03Pod) bool { return !p.inCache }); p != nil {
				h.Op("podadd %d", p.id)
				gp.OnPodAdd(p.obj)
				p.inCache = true
				w.dump()
			}
		case k < 62:
			// value-only raise of declared entries
			q := w.quotas[r.Range(1, 4)]
			for d := 0; d < c03D; d++ {
				unit := int64(1)
				if d == 0 {
					unit = 500
				}
				if q.max.has[d] && r.Bool() {
					q.max.v[d] += unit * int64(r.Range(0, 2))
				}
				if q.min.has[d] && q.max.has[d] && r.Bool() && q.min.v[d] < q.max.v[d] {
					q.min.v[d] = q.max.v[d]
				}
			}
			w.setQuota(q)
		default:
			before := map[int][2][c03D]bool{}
			for id, q := range w.quotas {
				before[id] = [2][c03D]bool{q.max.has, q.min.has}
			}
			g, d := w.specEvent(r, &pending)
			if d < 0 {
				continue
			}
			if before[g] != [2][c03D]bool{w.quotas[g].max.has, w.quotas[g].min.has} {
				keyUpdates++
			}
			if r.Chance(1, 6) {
				continue
			}
			if p := w.specProbe(r, g, d, &nextPod, 10); p != nil {
				try(p)
			}
		}
	}
	if keyUpdates > 0 && admitted > 0 && rejected > 0 {
		h.Nontrivial()
	}
}

// TestVerifC03SpecExhaustive (thorough tier): EVERY sequence of 4 events from a 10-letter alphabet, for each of the four
// switch combinations, over root <- 1 (is-parent, max cpu 8 / mem 16 / gpu 1) <- 2 (max cpu 4 / mem 8, min cpu 2 / mem 4,
// no gpu entry) with pods 1 (gpu 1), 2 (non-preemptible, gpu 1), 3 (gpu 1) of group 2 (each also cpu 500m):
//
//	0-2  an object for group 2 whose max has no gpu entry / gpu: 0 / gpu: 1
//	3-5  an object for group 2 whose min has no gpu entry / gpu: 0 / gpu: 1 (clamped to max)
//	6-8  scheduling cycle (PreFilter, Reserve iff admitted) of pod 1 / 2 / 3
//	9    Unreserve pod 1
//
// (a letter 0-5 that names the current state re-sends the identical object).  An update under which the shown usage
// no longer fits switches the used <= max / min clauses off; one that shifts the mask of an assigned pod leaves model
// correspondence only.
func TestVerifC03SpecExhaustive(t *testing.T) {
	h := vOpen("C03")
	if h == nil {
		t.Skip("VERIF_OUT not set")
	}
	c03Names = nil
	const nev, length = 10, 4
	words := 1
	for i := 0; i < length; i++ {
		words *= nev
	}
	n := h.N(0, 4*words)
	const batch = 200
	for base := 0; base < n; base += batch {
		t.Run(fmt.Sprintf("batch%d", base), func(t *testing.T) {
			suit := newPluginTestSuit(t, nil)
			var lvl klog.Level
			_ = lvl.Set("0")
			for idx := base; idx < base+batch && idx < n; idx++ {
				c03SpecExhaustiveCase(t, h, suit, idx, idx/words, idx%words, nev, length)
			}
		})
	}
	h.Close("exhaustive small scope: all 10^4 words over {gpu entry of group 2's max absent/0/1, of its min absent/0/1, cycle of pod 1/2/3, " +
		"Unreserve pod 1} x 4 switch combinations (see the test's comment); non-trivial = at least one admitted and one rejected attempt; distinct by op lines")
}

func c03SpecExhaustiveCase(t *testing.T, h *vHarness, suit *pluginTestSuit, idx, sw, word, nev, length int) {
	r := h.Begin(idx)
	if r == nil {
		return
	}
	defer h.End()
	pl, err := suit.proxyNew(context.TODO(), suit.elasticQuotaArgs, suit.Handle)
	if err != nil {
		t.Fatalf("failed to create plugin: %v", err)
	}
	gp := pl.(*Plugin)
	w := &c03World{t: t, h: h, gp: gp, cfgRT: sw&1 == 1, cfgCP: sw&2 == 2, quotas: map[int]*c03Quota{}, pods: map[int]*c03Pod{},
		stream: "spec-exhaustive", closedLoop: true}
	gp.pluginArgs.EnableRuntimeQuota = w.cfgRT
	gp.pluginArgs.EnableCheckParentQuota = w.cfgCP
	h.Tag(fmt.Sprintf("switches:rt%d-cp%d", vB(w.cfgRT), vB(w.cfgCP)))
	h.Op("dims %d", c03D)
	full := [c03D]bool{true, true, true}
	two := [c03D]bool{true, true, false}
	w.quotas[1] = &c03Quota{id: 1, isParent: true, lent: true, max: c03RL{has: full, v: [c03D]int64{8000, 16, 1}}, min: c03RL{has: two, v: [c03D]int64{4000, 8, 0}}}
	w.quotas[2] = &c03Quota{id: 2, parent: 1, lent: true, max: c03RL{has: two, v: [c03D]int64{4000, 8, 0}}, min: c03RL{has: two, v: [c03D]int64{2000, 4, 0}}}
	capacity := c03RL{has: full, v: [c03D]int64{20000, 100, 10}}
	w.rv++
	h.Op("cap %s", vInts(capacity.v[:]))
	gp.OnNodeAdd(c03Node(capacity, w.rv))
	w.dump()
	w.setQuota(w.quotas[1])
	w.setQuota(w.quotas[2])
	for id := 1; id <= 3; id++ {
		p := &c03Pod{id: id, quota: 2, np: id == 2, req: c03RL{has: [c03D]bool{true, false, true}, v: [c03D]int64{500, 0, 1}}}
		p.obj = c03MakePod(r, p)
		w.pods[id] = p
		h.Op("poddef %d %d %d %s", p.id, p.quota, vB(p.np), p.req.toks())
		w.dump()
		h.Op("podadd %d", p.id)
		gp.OnPodAdd(p.obj)
		p.inCache = true
		w.dump()
	}
	pending, admitted, rejected := 0, 0, 0
	q := w.quotas[2]
	for step := 0; step < length; step++ {
		ev := word % nev
		word /= nev
		h.Tag(fmt.Sprintf("event:%d", ev))
		switch {
		case ev < 6:
			mx, mn := q.max, q.min
			l := &mx
			if ev >= 3 {
				l = &mn
			}
			switch ev % 3 {
			case 0:
				l.has[2], l.v[2] = false, 0
			case 1:
				l.has[2], l.v[2] = true, 0
			case 2:
				l.has[2], l.v[2] = true, 1
			}
			if mx.has[2] && mn.has[2] && mn.v[2] > mx.v[2] {
				mn.v[2] = mx.v[2]
			}
			w.applySpec(q, mx, mn, 2, &pending)
		case ev < 9:
			p := w.pods[ev-5]
			if p.assigned {
				continue
			}
			if w.attempt(p) {
				admitted++
				h.Op("res %d", p.id)
				st := gp.Reserve(context.TODO(), framework.NewCycleState(), p.obj, "n1")
				if !st.IsSuccess() {
					h.Fail("C03:reserve-failed", "Reserve returned %v", st.Code())
				}
				p.assigned = true
				w.dump()
			} else {
				rejected++
			}
		default:
			if p := w.pods[1]; p.assigned {
				h.Op("unres %d", p.id)
				gp.Unreserve(context.TODO(), framework.NewCycleState(), p.obj, "n1")
				p.assigned = false
				w.dump()
			}
		}
	}
	if admitted > 0 && rejected > 0 {
		h.Nontrivial()
	}
}
