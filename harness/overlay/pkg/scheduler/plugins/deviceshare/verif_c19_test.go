//go:build verif

package deviceshare

import (
	"fmt"
	"sort"
	"strconv"
	"strings"
	"testing"
	"time"

	corev1 "k8s.io/api/core/v1"
	"k8s.io/apimachinery/pkg/api/resource"
	metav1 "k8s.io/apimachinery/pkg/apis/meta/v1"
	"k8s.io/apimachinery/pkg/types"
	"k8s.io/client-go/tools/cache"
	"k8s.io/utils/ptr"

	apiext "github.com/koordinator-sh/koordinator/apis/extension"
	schedulingv1alpha1 "github.com/koordinator-sh/koordinator/apis/scheduling/v1alpha1"
	reservationutil "github.com/koordinator-sh/koordinator/pkg/util/reservation"
)

// C19 (device part) harness: one case = one history.
//
//   - a LIVE nodeDeviceCache makes allocations through the real Reserve-like path
//     (nodeDevice.updateCacheUsed) and the real informer handlers (onPodAdd/onPodUpdate/onPodDelete);
//     every allocation is persisted on a pod object with the REAL apiext.SetDeviceAllocations
//     ("what the API server holds");
//   - at the cut a FRESH nodeDeviceCache is fed only the surviving annotated pods through the real
//     informer handlers, in a shuffled order with duplicate adds and same-allocation updates (twice,
//     with two different shuffles);
//   - the per-node device state (deviceUsed, deviceFree, allocateSet, vfAllocations) of the fresh
//     caches must equal the live one, must not consider a taken share free, and must not depend on
//     the replay order; the annotation must read back exactly.
//   - VFs: bus ids come from a small pool per (node, minor) so that a VF released by a deleted pod is
//     handed out again later; the generator never lets two pods that are present at the same time hold
//     the same VF (what allocateVF guarantees) and the harness CHECKS that hypothesis of the Lean
//     theorems (Proofs/C19ExtDevVF.lean: VWF) on every history (C19:dev-vf-hypothesis).
//   - delete events go through the registered handler value (cache.ResourceEventHandlerFuncs.OnDelete
//     -> nodeDeviceCache.onPodDelete, the type switch), ~40 % wrapped in a
//     cache.DeletedFinalStateUnknown passed by value; rarely a degenerate tombstone (Obj nil / of a
//     wrong type) is delivered in addition and must be ignored.
//   - stream:reservation-holder (~1/4 of the cases): some holders are Reservations (device-allocated
//     annotation on the Reservation, the cache sees its reserve pod: name = uid = Reservation UID).  Their
//     events go through the handler registerPodEventHandler registers on the Reservation informer
//     (NewReservationToPodEventHandler(eventHandler, IsObjValidActiveReservation) = FilteringResourceEventHandler
//     around ReservationToPodEventHandler around the pod handler).  To the model a Reservation holder is a pod.

var c19Types = [3]schedulingv1alpha1.DeviceType{schedulingv1alpha1.GPU, schedulingv1alpha1.RDMA, schedulingv1alpha1.FPGA}
var c19Res = [3][3]corev1.ResourceName{
	{apiext.ResourceGPUCore, apiext.ResourceGPUMemory, apiext.ResourceGPUMemoryRatio},
	{apiext.ResourceRDMA, "verif.koordinator.sh/x1", "verif.koordinator.sh/x2"},
	{apiext.ResourceFPGA, "verif.koordinator.sh/x1", "verif.koordinator.sh/x2"},
}

func c19NodeName(n int) string { return "n" + strconv.Itoa(n) }
func c19PodName(p int) string  { return fmt.Sprintf("p%d", p) }

func c19TypeIndex(t schedulingv1alpha1.DeviceType) int {
	for i, x := range c19Types {
		if x == t {
			return i
		}
	}
	return -1
}

func c19PodIndex(nn types.NamespacedName) int {
	if nn.Namespace != "default" || !strings.HasPrefix(nn.Name, "p") {
		return -1
	}
	v, err := strconv.Atoi(nn.Name[1:])
	if err != nil {
		return -1
	}
	return v
}

// ---------- inventory ----------

type c19Inventory struct {
	nNodes int
	counts [2][3]int            // node, ty -> number of devices (minors 0..count-1)
	totals map[[3]int][3]int64 // (node, ty, minor) -> totals of dims 0..2
	busIdx map[string]int      // bus id -> index in the sorted list of the case's bus ids
}

// c19Handler mirrors the handler value built by registerPodEventHandler (eventhandler_pod.go): the
// informer calls its OnAdd/OnUpdate/OnDelete methods.
func c19Handler(c *nodeDeviceCache) cache.ResourceEventHandlerFuncs {
	return cache.ResourceEventHandlerFuncs{
		AddFunc:    c.onPodAdd,
		UpdateFunc: c.onPodUpdate,
		DeleteFunc: c.onPodDelete,
	}
}

// c19Chain is the handler registerPodEventHandler registers on the Reservation informer.
func c19Chain(c *nodeDeviceCache) cache.ResourceEventHandler {
	return reservationutil.NewReservationToPodEventHandler(c19Handler(c), reservationutil.IsObjValidActiveReservation)
}

// c19ResvDeleteObj: the Reservation itself or (2/5) a cache.DeletedFinalStateUnknown by value holding it.
func c19ResvDeleteObj(h *vHarness, r *vRand, resv *schedulingv1alpha1.Reservation) (obj interface{}, tombstone bool) {
	if r.Chance(2, 5) {
		h.Tag("del:tombstone:resv")
		return cache.DeletedFinalStateUnknown{Key: resv.Name, Obj: resv}, true // cluster-scoped: key = name
	}
	h.Tag("del:plain:resv")
	return resv, false
}

// c19World: the Reservation objects behind the holders that are Reservations.
type c19World struct {
	resv     map[int]*schedulingv1alpha1.Reservation // present: what the API server holds
	goneResv map[int]*schedulingv1alpha1.Reservation // deleted before the cut: last active object
	termResv map[int]*schedulingv1alpha1.Reservation // terminated before the cut: the inactive object still listed
}

// c19DeleteObj chooses the shape of a pod delete event: the pod itself or (about 40 %) a
// cache.DeletedFinalStateUnknown by value holding it.
func c19DeleteObj(h *vHarness, r *vRand, pod *corev1.Pod) (obj interface{}, tombstone bool) {
	if r.Chance(2, 5) {
		h.Tag("del:tombstone")
		return cache.DeletedFinalStateUnknown{Key: pod.Namespace + "/" + pod.Name, Obj: pod}, true
	}
	h.Tag("del:plain")
	return pod, false
}

// c19BadTombstone builds a degenerate tombstone about pod: Obj nil or of a wrong type.
func c19BadTombstone(r *vRand, pod *corev1.Pod) interface{} {
	key := pod.Namespace + "/" + pod.Name
	switch r.Intn(4) {
	case 0:
		return cache.DeletedFinalStateUnknown{Key: key, Obj: nil}
	case 1:
		return cache.DeletedFinalStateUnknown{Key: key, Obj: *pod.DeepCopy()} // a Pod by value, not *Pod
	case 2:
		return cache.DeletedFinalStateUnknown{Key: key, Obj: &corev1.Node{ObjectMeta: metav1.ObjectMeta{Name: pod.Spec.NodeName, Annotations: pod.Annotations}}}
	default:
		return cache.DeletedFinalStateUnknown{Key: key, Obj: key}
	}
}

func c19Device(inv *c19Inventory, node int) *schedulingv1alpha1.Device {
	d := &schedulingv1alpha1.Device{ObjectMeta: metav1.ObjectMeta{Name: c19NodeName(node)}}
	for ty := 0; ty < 3; ty++ {
		for m := 0; m < inv.counts[node][ty]; m++ {
			tot := inv.totals[[3]int{node, ty, m}]
			rl := corev1.ResourceList{}
			for k := 0; k < 3; k++ {
				rl[c19Res[ty][k]] = *resource.NewQuantity(tot[k], resource.DecimalSI)
			}
			d.Spec.Devices = append(d.Spec.Devices, schedulingv1alpha1.DeviceInfo{
				Type: c19Types[ty], Minor: ptr.To(int32(m)), Health: true, Resources: rl,
			})
		}
	}
	return d
}

func c19NewCache(h *vHarness, inv *c19Inventory) *nodeDeviceCache {
	var c *nodeDeviceCache
	h.Guard(func() {
		c = newNodeDeviceCache()
		for n := 0; n < inv.nNodes; n++ {
			c.updateNodeDevice(c19NodeName(n), c19Device(inv, n))
		}
	})
	return c
}

// ---------- pods ----------

type c19Item struct {
	ty, minor int
	dims      []int
	amts      []int64
	binary    bool // GPU memory printed with BinarySI
	id        string
	ext       *apiext.DeviceAllocationExtension
}

type c19PodDef struct {
	isResv   bool // the holder is a Reservation; the cache sees its reserve pod
	// staleTpl (ext2): the Reservation's spec.template carries the device-allocated annotation of a 'previous pod'
	// (the migration controller copies the whole ObjectMeta of the pod being migrated into the template); the
	// live allocation is written onto the Reservation OBJECT and must be what the reserve pod carries
	staleTpl apiext.DeviceAllocations
	waiting  bool // the scheduled Reservation is in phase Waiting (still active: its devices are taken), not Available
	id, node int
	items    []c19Item // grouped by ty ascending, slice order inside one ty
	base     *corev1.Pod
}

// allocs builds a brand-new DeviceAllocations value (nil for a pod without allocation).
func (p *c19PodDef) allocs() apiext.DeviceAllocations {
	if len(p.items) == 0 {
		return nil
	}
	out := apiext.DeviceAllocations{}
	for _, it := range p.items {
		rl := corev1.ResourceList{}
		for i, d := range it.dims {
			f := resource.DecimalSI
			if it.binary && it.ty == 0 && d == 1 {
				f = resource.BinarySI
			}
			rl[c19Res[it.ty][d]] = *resource.NewQuantity(it.amts[i], f)
		}
		da := &apiext.DeviceAllocation{Minor: int32(it.minor), Resources: rl, ID: it.id}
		if it.ext != nil {
			e := &apiext.DeviceAllocationExtension{GPUSharedResourceTemplate: it.ext.GPUSharedResourceTemplate}
			e.VirtualFunctions = append(e.VirtualFunctions, it.ext.VirtualFunctions...)
			da.Extension = e
		}
		out[c19Types[it.ty]] = append(out[c19Types[it.ty]], da)
	}
	return out
}

// opLine: `dev pod <p> <node> <n> (<ty> <minor> <nres> (<dim> <amt>)^nres)^n (<nvf> <bus>^nvf)^n`; the
// tail (VirtualFunctions of the n allocations, bus ids as indices into the sorted bus-id list of the
// case, in list order with duplicates) is omitted when no allocation of the pod has VFs.
func (p *c19PodDef) opLine(busIdx map[string]int) string {
	var sb strings.Builder
	fmt.Fprintf(&sb, "dev pod %d %d %d", p.id, p.node, len(p.items))
	anyVF := false
	for _, it := range p.items {
		fmt.Fprintf(&sb, " %d %d %d", it.ty, it.minor, len(it.dims))
		for i, d := range it.dims {
			fmt.Fprintf(&sb, " %d %d", d, it.amts[i])
		}
		if len(c19ExtVFs(it.ext)) > 0 {
			anyVF = true
		}
	}
	if anyVF {
		for _, it := range p.items {
			vfs := c19ExtVFs(it.ext)
			fmt.Fprintf(&sb, " %d", len(vfs))
			for _, vf := range vfs {
				fmt.Fprintf(&sb, " %d", busIdx[vf.BusID])
			}
		}
	}
	return sb.String()
}

func c19VFKey(node, ty, minor int, bus string) string {
	return fmt.Sprintf("%d/%d/%d/%s", node, ty, minor, bus)
}

// vfHeld: the VFs the pod's allocation stands for. raw = every (node, type, minor, bus id) listed in an
// Extension.VirtualFunctions; norm = the same after "one set per minor, the last allocation of the list
// that carries VFs wins" (how the persisted list is read back into a per-minor map); dupMinor reports
// that the two differ in shape: two allocations of one type's list with the same minor both carry VFs.
func (p *c19PodDef) vfHeld() (raw, norm map[string]bool, dupMinor bool) {
	raw, norm = map[string]bool{}, map[string]bool{}
	last := map[[2]int]int{}
	for i, it := range p.items {
		if len(c19ExtVFs(it.ext)) == 0 {
			continue
		}
		if _, ok := last[[2]int{it.ty, it.minor}]; ok {
			dupMinor = true
		}
		last[[2]int{it.ty, it.minor}] = i
	}
	for i, it := range p.items {
		for _, vf := range c19ExtVFs(it.ext) {
			k := c19VFKey(p.node, it.ty, it.minor, vf.BusID)
			raw[k] = true
			if last[[2]int{it.ty, it.minor}] == i {
				norm[k] = true
			}
		}
	}
	return
}

func c19VFConflict(a, b *c19PodDef) string {
	_, na, _ := a.vfHeld()
	_, nb, _ := b.vfHeld()
	for k := range na {
		if nb[k] {
			return k
		}
	}
	return ""
}

func c19GenPod(h *vHarness, r *vRand, id, node int, inv *c19Inventory, remaining map[[4]int]int64) *c19PodDef {
	name := c19PodName(id)
	p := &c19PodDef{id: id, node: node}
	p.base = &corev1.Pod{
		ObjectMeta: metav1.ObjectMeta{Namespace: "default", Name: name, UID: types.UID("uid-" + name)},
		Spec:       corev1.PodSpec{Containers: []corev1.Container{{Name: "c", Image: "i"}}},
	}
	if r.Chance(1, 8) {
		h.Tag("no-alloc-pod")
		return p
	}
	var cands []int
	for ty := 0; ty < 3; ty++ {
		if inv.counts[node][ty] > 0 {
			cands = append(cands, ty)
		}
	}
	nT := int(r.Pick([]int64{1, 1, 2, 2, 3}))
	if nT > len(cands) {
		nT = len(cands)
	}
	perm := r.Perm(len(cands))
	chosen := make([]int, 0, nT)
	for _, i := range perm[:nT] {
		chosen = append(chosen, cands[i])
	}
	sort.Ints(chosen)
	oversub := r.Chance(1, 10)
	dupMinor, notInInv, zeroAmt, vf, vfDupBus := false, false, false, false, false
	for _, ty := range chosen {
		cnt := inv.counts[node][ty]
		k := int(r.Pick([]int64{1, 1, 1, 2, 2, 3}))
		if k > cnt {
			k = cnt
		}
		minors := append([]int(nil), r.Perm(cnt)[:k]...)
		if r.Chance(1, 25) { // a minor listed twice inside one type's list
			if len(minors) < 3 {
				minors = append(minors, minors[r.Intn(len(minors))])
			} else {
				minors[2] = minors[0]
			}
		}
		if r.Chance(1, 25) { // a minor the inventory does not have
			minors[r.Intn(len(minors))] = cnt + r.Intn(2)
		}
		seenVFMinor := map[[2]int]bool{}
		seen := map[int]bool{}
		for _, m := range minors {
			if seen[m] {
				dupMinor = true
			}
			seen[m] = true
			if m >= cnt {
				notInInv = true
			}
		}
		for _, m := range minors {
			it := c19Item{ty: ty, minor: m, binary: r.Bool()}
			nRes := r.Range(1, 3)
			if ty == 0 && r.Bool() {
				nRes = 3
			}
			it.dims = append([]int(nil), r.Perm(3)[:nRes]...)
			sort.Ints(it.dims)
			frac := r.Pick([]int64{0, 1, 1, 2, 2, 2, 4, 4, 4}) // quarters of the device
			tot, have := inv.totals[[3]int{node, ty, m}]
			for _, d := range it.dims {
				f := frac
				if r.Chance(1, 6) {
					f = r.Pick([]int64{0, 1, 2, 4})
				}
				var amt int64
				switch {
				case !have:
					amt = 25 * f
				case tot[d] == 0 && oversub:
					amt = f
				default:
					amt = tot[d] * f / 4
					if !oversub {
						rem := remaining[[4]int{node, ty, m, d}]
						for amt > rem && f > 0 {
							f = f / 2
							amt = tot[d] * f / 4
						}
					}
				}
				if have {
					key := [4]int{node, ty, m, d}
					remaining[key] -= amt
					if remaining[key] < 0 {
						remaining[key] = 0
					}
				}
				if amt == 0 {
					zeroAmt = true
				}
				it.amts = append(it.amts, amt)
			}
			if ty == 1 {
				if r.Chance(1, 2) || (seenVFMinor[[2]int{ty, m}] && r.Chance(2, 3)) {
					// bus ids from a pool of 4 per (node, minor): VFs are shared over time between pods
					it.ext = &apiext.DeviceAllocationExtension{}
					nvf := r.Range(1, 2)
					pick := r.Perm(4)[:nvf]
					if r.Chance(1, 12) { // the same bus id listed twice in one VirtualFunctions list
						pick = append(pick, pick[0])
						vfDupBus = true
					}
					for _, j := range pick {
						it.ext.VirtualFunctions = append(it.ext.VirtualFunctions, apiext.VirtualFunction{
							Minor: r.Intn(4), BusID: fmt.Sprintf("0000:%02x:%02x.%d", node, m, j)})
					}
					vf = true
				}
				if len(c19ExtVFs(it.ext)) > 0 {
					seenVFMinor[[2]int{ty, m}] = true
				}
				if r.Chance(1, 3) {
					it.id = fmt.Sprintf("id-%d", m)
				}
			}
			if ty == 0 && r.Chance(1, 10) {
				it.ext = &apiext.DeviceAllocationExtension{GPUSharedResourceTemplate: "tpl-a"}
			}
			if it.ext == nil && r.Chance(1, 30) {
				it.ext = &apiext.DeviceAllocationExtension{}
			}
			p.items = append(p.items, it)
		}
	}
	if dupMinor {
		h.Tag("dup-minor")
	}
	if notInInv {
		h.Tag("minor-not-in-inventory")
	}
	if zeroAmt {
		h.Tag("zero-amount")
	}
	if vf {
		h.Tag("vf")
	}
	if vfDupBus {
		h.Tag("vf-dup-bus")
	}
	if _, _, dm := p.vfHeld(); dm {
		h.Tag("vf-dup-minor")
	}
	return p
}

// ---------- codec oracle (i) ----------

func c19ExtVFs(e *apiext.DeviceAllocationExtension) []apiext.VirtualFunction {
	if e == nil {
		return nil
	}
	return e.VirtualFunctions
}

func c19ExtTpl(e *apiext.DeviceAllocationExtension) string {
	if e == nil {
		return ""
	}
	return e.GPUSharedResourceTemplate
}

// c19AllocsDiff returns "" when got is semantically the value that was written.
func c19AllocsDiff(want, got apiext.DeviceAllocations) string {
	for t, l := range want {
		if len(l) > 0 && len(got[t]) == 0 {
			return fmt.Sprintf("type %s lost", t)
		}
	}
	for t, g := range got {
		w := want[t]
		if len(g) == 0 && len(w) == 0 {
			continue
		}
		if len(g) != len(w) {
			return fmt.Sprintf("type %s: %d entries written, %d read", t, len(w), len(g))
		}
		for i := range w {
			a, b := w[i], g[i]
			if a == nil || b == nil {
				if a != b {
					return fmt.Sprintf("type %s entry %d: nil mismatch", t, i)
				}
				continue
			}
			if a.Minor != b.Minor {
				return fmt.Sprintf("type %s entry %d: minor %d read as %d", t, i, a.Minor, b.Minor)
			}
			if a.ID != b.ID {
				return fmt.Sprintf("type %s entry %d: id %q read as %q", t, i, a.ID, b.ID)
			}
			if len(a.Resources) != len(b.Resources) {
				return fmt.Sprintf("type %s entry %d: %d resources read as %d", t, i, len(a.Resources), len(b.Resources))
			}
			for name, qa := range a.Resources {
				qb, ok := b.Resources[name]
				if !ok || qa.Cmp(qb) != 0 {
					return fmt.Sprintf("type %s entry %d: resource %s %s read as %s (present %v)", t, i, name, qa.String(), qb.String(), ok)
				}
			}
			va, vb := c19ExtVFs(a.Extension), c19ExtVFs(b.Extension)
			if len(va) != len(vb) {
				return fmt.Sprintf("type %s entry %d: %d vfs read as %d", t, i, len(va), len(vb))
			}
			for j := range va {
				if va[j] != vb[j] {
					return fmt.Sprintf("type %s entry %d: vf %d %v read as %v", t, i, j, va[j], vb[j])
				}
			}
			if c19ExtTpl(a.Extension) != c19ExtTpl(b.Extension) {
				return fmt.Sprintf("type %s entry %d: template %q read as %q", t, i, c19ExtTpl(a.Extension), c19ExtTpl(b.Extension))
			}
		}
	}
	return ""
}

// c19EarlyAllocs (ext9) builds an allocation on the pod's node that DIFFERS from the pod's own one: what the pod's
// device-allocated annotation said before the update event that carries its final allocation.  Half of the time
// the pod's own allocation moved to the next minor of each type (GPU minor 0 -> minor 1), else (or when that
// changes nothing) one half GPU on a random minor.  No VFs, known minors and resource names only.
func c19EarlyAllocs(rx *vRand, inv *c19Inventory, p *c19PodDef) apiext.DeviceAllocations {
	own := p.allocs()
	if own != nil && rx.Bool() {
		early := p.allocs()
		for t, list := range early {
			cnt := inv.counts[p.node][c19TypeIndex(t)]
			for _, a := range list {
				a.Extension = nil
				if cnt >= 2 && int(a.Minor) < cnt {
					a.Minor = int32((int(a.Minor) + 1) % cnt)
				}
			}
		}
		if c19AllocsDiff(own, early) != "" {
			return early
		}
	}
	if inv.counts[p.node][0] == 0 {
		return nil
	}
	for _, amt := range []int64{50, 25} {
		early := apiext.DeviceAllocations{schedulingv1alpha1.GPU: {{Minor: int32(rx.Intn(inv.counts[p.node][0])), Resources: corev1.ResourceList{
			apiext.ResourceGPUCore:        *resource.NewQuantity(amt, resource.DecimalSI),
			apiext.ResourceGPUMemoryRatio: *resource.NewQuantity(amt, resource.DecimalSI)}}}}
		if own == nil || c19AllocsDiff(own, early) != "" {
			return early
		}
	}
	return nil
}

// c19Persist produces "what the API server holds" for a pod: the pod bound to its node, running,
// annotated by the real SetDeviceAllocations iff it has an allocation; and checks the codec.
func c19Persist(h *vHarness, p *c19PodDef) *corev1.Pod {
	obj := p.base.DeepCopy()
	want := p.allocs()
	if want != nil {
		var err error
		if h.Guard(func() { err = apiext.SetDeviceAllocations(obj, p.allocs()) }) {
			h.Fail("C19:dev-codec-roundtrip", "pod %d: SetDeviceAllocations panicked", p.id)
		} else if err != nil {
			h.Fail("C19:dev-codec-roundtrip", "pod %d: SetDeviceAllocations error", p.id)
		}
	}
	obj.Spec.NodeName = c19NodeName(p.node)
	obj.Status.Phase = corev1.PodRunning

	var got apiext.DeviceAllocations
	var err error
	if h.Guard(func() { got, err = apiext.GetDeviceAllocations(obj.Annotations) }) {
		h.Fail("C19:dev-codec-roundtrip", "pod %d: GetDeviceAllocations panicked", p.id)
		return obj
	}
	if err != nil {
		h.Fail("C19:dev-codec-roundtrip", "pod %d: GetDeviceAllocations returned an error on what SetDeviceAllocations wrote", p.id)
		return obj
	}
	if want == nil {
		if _, ok := obj.Annotations[apiext.AnnotationDeviceAllocated]; ok {
			h.Fail("C19:dev-codec-roundtrip", "pod %d: annotation present without allocation", p.id)
		}
		if len(got) != 0 {
			h.Fail("C19:dev-codec-roundtrip", "pod %d: %d types read from a pod without allocation", p.id, len(got))
		}
		return obj
	}
	if d := c19AllocsDiff(want, got); d != "" {
		h.Fail("C19:dev-codec-roundtrip", "pod %d: %s", p.id, d)
	}
	return obj
}

// c19PersistResv produces "what the API server holds" for a Reservation holder: an Available Reservation
// scheduled on its node whose uid is the pod name the model knows (reserve pod name = uid), annotated by the
// real SetDeviceAllocations iff it has an allocation; assigned=false gives the version before scheduling.
func c19PersistResv(h *vHarness, p *c19PodDef, assigned bool) *schedulingv1alpha1.Reservation {
	resv := &schedulingv1alpha1.Reservation{
		ObjectMeta: metav1.ObjectMeta{Name: fmt.Sprintf("r%d", p.id), UID: types.UID(c19PodName(p.id))},
		Spec: schedulingv1alpha1.ReservationSpec{
			Template: &corev1.PodTemplateSpec{
				ObjectMeta: metav1.ObjectMeta{Namespace: "default"},
				Spec:       corev1.PodSpec{Containers: []corev1.Container{{Name: "c", Image: "i"}}},
			},
			Owners: []schedulingv1alpha1.ReservationOwner{{Object: &corev1.ObjectReference{Name: "owner"}}},
			TTL:    &metav1.Duration{Duration: time.Hour},
		},
	}
	if p.staleTpl != nil && p.allocs() != nil {
		if err := apiext.SetDeviceAllocations(&resv.Spec.Template.ObjectMeta, p.staleTpl); err != nil {
			h.Fail("C19:dev-codec-roundtrip", "reservation %d: SetDeviceAllocations failed on the template", p.id)
		}
	}
	if !assigned {
		resv.Status.Phase = schedulingv1alpha1.ReservationPending
		return resv
	}
	want := p.allocs()
	if want != nil {
		var err error
		if h.Guard(func() { err = apiext.SetDeviceAllocations(resv, p.allocs()) }) || err != nil {
			h.Fail("C19:dev-codec-roundtrip", "reservation %d: SetDeviceAllocations failed", p.id)
		}
	}
	resv.Status.NodeName = c19NodeName(p.node)
	resv.Status.Phase = schedulingv1alpha1.ReservationAvailable
	if p.waiting {
		resv.Status.Phase = schedulingv1alpha1.ReservationWaiting
	}
	var got apiext.DeviceAllocations
	var err error
	if h.Guard(func() { got, err = apiext.GetDeviceAllocations(resv.Annotations) }) || err != nil {
		h.Fail("C19:dev-codec-roundtrip", "reservation %d: GetDeviceAllocations failed on what SetDeviceAllocations wrote", p.id)
		return resv
	}
	if want == nil {
		if len(got) != 0 {
			h.Fail("C19:dev-codec-roundtrip", "reservation %d: %d types read from a reservation without allocation", p.id, len(got))
		}
	} else if d := c19AllocsDiff(want, got); d != "" {
		h.Fail("C19:dev-codec-roundtrip", "reservation %d: %s", p.id, d)
	}
	// oracle (reserve pod, ext2): what a restarted scheduler reads for a Reservation is the reserve pod built by
	// NewReservePod; it must carry exactly the allocation persisted on the Reservation object, whatever
	// spec.template carries (theorem reserve_pod_reads_own_allocation)
	if want != nil {
		var rp *corev1.Pod
		var got2 apiext.DeviceAllocations
		var err2 error
		if h.Guard(func() {
			rp = reservationutil.NewReservePod(resv.DeepCopy())
			got2, err2 = apiext.GetDeviceAllocations(rp.Annotations)
		}) || err2 != nil {
			h.Fail("C19:dev-reserve-pod-reads-stale-template", "reservation %d: reserve pod unreadable", p.id)
		} else if d := c19AllocsDiff(want, got2); d != "" {
			h.Fail("C19:dev-reserve-pod-reads-stale-template", "reservation %d: the reserve pod does not carry the allocation persisted on the Reservation object: %s (own=%q template=%q)",
				p.id, d, resv.Annotations[apiext.AnnotationDeviceAllocated], resv.Spec.Template.Annotations[apiext.AnnotationDeviceAllocated])
		}
	}
	return resv
}

// ---------- observation ----------

type c19Snap struct {
	panicked bool
	lines    []string
	used     map[[4]int]int64 // node, ty, minor, dim
	free     map[[4]int]int64
	vf       map[[3]int]string // node, ty, minor -> sorted bus ids (non-empty only)
	vfSet    map[string]bool   // c19VFKey of every recorded VF
}

// c19NonVF drops the `vf` lines of an observation block.
func c19NonVF(lines []string) []string {
	out := make([]string, 0, len(lines))
	for _, l := range lines {
		if !strings.HasPrefix(l, "vf ") {
			out = append(out, l)
		}
	}
	return out
}

func c19SortTuples(xs [][]int64) {
	sort.Slice(xs, func(i, j int) bool {
		a, b := xs[i], xs[j]
		for k := 0; k < len(a) && k < len(b); k++ {
			if a[k] != b[k] {
				return a[k] < b[k]
			}
		}
		return len(a) < len(b)
	})
}

// c19Vals reads the three known dims of a resource list; unknown reports any other resource name.
func c19Vals(ty int, rl corev1.ResourceList) (vals [3]int64, unknown bool) {
	for name, q := range rl {
		found := false
		for k := 0; k < 3; k++ {
			if c19Res[ty][k] == name {
				vals[k] = q.Value()
				found = true
			}
		}
		if !found {
			unknown = true
		}
	}
	return
}

// c19Observe reads the real maps of every node's nodeDevice; emit=true writes the block as
// observation lines.
func c19Observe(h *vHarness, c *nodeDeviceCache, inv *c19Inventory, emit bool) *c19Snap {
	s := &c19Snap{used: map[[4]int]int64{}, free: map[[4]int]int64{}, vf: map[[3]int]string{}, vfSet: map[string]bool{}}
	var us, fs, ps, as, vs [][]int64
	unknown := false
	if c == nil {
		s.panicked = true
	} else if h.Guard(func() {
		for n := 0; n < inv.nNodes; n++ {
			nd := c.getNodeDevice(c19NodeName(n), false)
			if nd == nil {
				continue
			}
			func() {
				nd.lock.RLock()
				defer nd.lock.RUnlock()
				readDR := func(m map[schedulingv1alpha1.DeviceType]deviceResources, into map[[4]int]int64, out *[][]int64) {
					for t, dr := range m {
						ty := c19TypeIndex(t)
						if ty < 0 {
							if len(dr) > 0 {
								unknown = true
							}
							continue
						}
						for minor, rl := range dr {
							vals, unk := c19Vals(ty, rl)
							if unk {
								unknown = true
							}
							for d := 0; d < 3; d++ {
								if vals[d] != 0 {
									into[[4]int{n, ty, minor, d}] = vals[d]
									*out = append(*out, []int64{int64(n), int64(ty), int64(minor), int64(d), vals[d]})
								}
							}
						}
					}
				}
				readDR(nd.deviceUsed, s.used, &us)
				readDR(nd.deviceFree, s.free, &fs)
				for t, podsOfType := range nd.allocateSet {
					ty := c19TypeIndex(t)
					if ty < 0 {
						if len(podsOfType) > 0 {
							unknown = true
						}
						continue
					}
					for nn, dr := range podsOfType {
						pod := c19PodIndex(nn)
						ps = append(ps, []int64{int64(n), int64(ty), int64(pod)})
						for minor, rl := range dr {
							vals, unk := c19Vals(ty, rl)
							if unk {
								unknown = true
							}
							for d := 0; d < 3; d++ {
								if vals[d] != 0 {
									as = append(as, []int64{int64(n), int64(ty), int64(pod), int64(minor), int64(d), vals[d]})
								}
							}
						}
					}
				}
				for t, va := range nd.vfAllocations {
					if va == nil {
						continue
					}
					ty := c19TypeIndex(t)
					for minor, set := range va.allocatedVFs {
						if len(set) == 0 {
							continue
						}
						if ty < 0 {
							unknown = true
						}
						ids := make([]string, 0, len(set))
						for id := range set {
							ids = append(ids, id)
						}
						sort.Strings(ids)
						s.vf[[3]int{n, ty, minor}] = strings.Join(ids, ",")
						line := []int64{int64(n), int64(ty), int64(minor)}
						for _, id := range ids {
							s.vfSet[c19VFKey(n, ty, minor, id)] = true
							bi, ok := inv.busIdx[id]
							if !ok {
								unknown = true
								bi = -1
							}
							line = append(line, int64(bi))
						}
						vs = append(vs, line)
					}
				}
			}()
		}
	}) {
		s.panicked = true
	}
	if s.panicked {
		s.lines = []string{"panic"}
	} else {
		c19SortTuples(us)
		c19SortTuples(fs)
		c19SortTuples(ps)
		c19SortTuples(as)
		sort.Slice(vs, func(i, j int) bool { // by (node, ty, minor): unique
			for k := 0; k < 3; k++ {
				if vs[i][k] != vs[j][k] {
					return vs[i][k] < vs[j][k]
				}
			}
			return false
		})
		for _, x := range us {
			s.lines = append(s.lines, "u "+vInts(x))
		}
		for _, x := range fs {
			s.lines = append(s.lines, "f "+vInts(x))
		}
		for _, x := range ps {
			s.lines = append(s.lines, "p "+vInts(x))
		}
		for _, x := range as {
			s.lines = append(s.lines, "a "+vInts(x))
		}
		for _, x := range vs { // bus ids ascending: index order = string order
			s.lines = append(s.lines, "vf "+vInts(x))
		}
		s.lines = append(s.lines, "end")
		if unknown {
			h.Tag("unknown-dim")
			h.Fail("C19:dev-unknown-resource", "a resource name / device type / VF bus id outside the case's vocabulary appeared in the cache")
		}
	}
	if emit {
		for _, l := range s.lines {
			h.Obs("%s", l)
		}
	}
	return s
}

func c19FirstDiff(a, b []string) string {
	for i := 0; i < len(a) || i < len(b); i++ {
		x, y := "<none>", "<none>"
		if i < len(a) {
			x = a[i]
		}
		if i < len(b) {
			y = b[i]
		}
		if x != y {
			return fmt.Sprintf("line %d: %q vs %q", i, x, y)
		}
	}
	return ""
}

func c19VFDiff(a, b map[[3]int]string) string {
	for k, v := range a {
		if b[k] != v {
			return fmt.Sprintf("node %d type %d minor %d: live {%s} rebuilt {%s}", k[0], k[1], k[2], v, b[k])
		}
	}
	for k, v := range b {
		if a[k] != v {
			return fmt.Sprintf("node %d type %d minor %d: live {%s} rebuilt {%s}", k[0], k[1], k[2], a[k], v)
		}
	}
	return ""
}

// ---------- replay ----------

type c19Event struct {
	upd   bool
	del   bool // a stale delete event about a pod that does not survive
	inact bool // add of a terminated (inactive) Reservation that is still listed: filtered, no op line
	pod   int
}

// c19Schedule: every survivor gets exactly one radd at a random position, plus with probability
// 1/3 each a second radd later and one or two rupd after its first radd; with 1/10 a rupd before
// its first radd.
func c19Schedule(h *vHarness, r *vRand, survivors []int) []c19Event {
	perm := r.Perm(len(survivors))
	evs := make([]c19Event, 0, 2*len(survivors))
	for _, i := range perm {
		evs = append(evs, c19Event{pod: survivors[i]})
	}
	insert := func(at int, e c19Event) {
		evs = append(evs, c19Event{})
		copy(evs[at+1:], evs[at:])
		evs[at] = e
	}
	first := func(pod int) int {
		for i, e := range evs {
			if !e.upd && !e.del && e.pod == pod {
				return i
			}
		}
		return 0
	}
	for _, i := range perm {
		pod := survivors[i]
		if r.Chance(1, 3) {
			f := first(pod)
			insert(f+1+r.Intn(len(evs)-f), c19Event{pod: pod})
			h.Tag("replay-dup-add")
		}
		if r.Chance(1, 3) {
			k := r.Range(1, 2)
			for j := 0; j < k; j++ {
				f := first(pod)
				insert(f+1+r.Intn(len(evs)-f), c19Event{upd: true, pod: pod})
			}
			h.Tag("replay-upd")
		}
		if r.Chance(1, 10) {
			f := first(pod)
			insert(r.Intn(f+1), c19Event{upd: true, pod: pod})
			h.Tag("replay-upd-before-add")
		}
	}
	return evs
}

func c19Replay(h *vHarness, r *vRand, inv *c19Inventory, apiServer map[int]*corev1.Pod, survivors []int, gone map[int]*corev1.Pod, w *c19World) *c19Snap {
	h.Op("dev fresh")
	fresh := c19NewCache(h, inv)
	evs := c19Schedule(h, r, survivors)
	if len(w.termResv) > 0 {
		ids := make([]int, 0, len(w.termResv))
		for id := range w.termResv {
			ids = append(ids, id)
		}
		sort.Ints(ids)
		for _, id := range ids {
			if r.Chance(1, 2) {
				at := r.Intn(len(evs) + 1)
				evs = append(evs, c19Event{})
				copy(evs[at+1:], evs[at:])
				evs[at] = c19Event{inact: true, pod: id}
			}
		}
	}
	if len(gone) > 0 && r.Chance(1, 4) {
		// a delete event about a pod that was deleted before the cut reaches the new scheduler
		ids := make([]int, 0, len(gone))
		for id := range gone {
			ids = append(ids, id)
		}
		sort.Ints(ids)
		at := r.Intn(len(evs) + 1)
		evs = append(evs, c19Event{})
		copy(evs[at+1:], evs[at:])
		evs[at] = c19Event{del: true, pod: ids[r.Intn(len(ids))]}
		h.Tag("replay-stale-del")
	}
	for _, e := range evs {
		if e.inact {
			// the initial list of the new scheduler contains the Succeeded / Failed Reservation: the filter drops it
			h.Tag("resv:inactive")
			if fresh != nil {
				h.Guard(func() { c19Chain(fresh).OnAdd(w.termResv[e.pod].DeepCopy(), true) })
			}
			continue
		}
		if e.del {
			h.Op("dev rdel %d", e.pod)
			if rv := w.goneResv[e.pod]; rv != nil {
				obj, _ := c19ResvDeleteObj(h, r, rv.DeepCopy())
				if fresh != nil {
					h.Guard(func() { c19Chain(fresh).OnDelete(obj) })
				}
				continue
			}
			obj, _ := c19DeleteObj(h, r, gone[e.pod].DeepCopy())
			if fresh != nil {
				h.Guard(func() { c19Handler(fresh).OnDelete(obj) })
			}
			continue
		}
		if rv := w.resv[e.pod]; rv != nil {
			if e.upd {
				h.Op("dev rupd %d", e.pod)
				if fresh != nil {
					h.Guard(func() { c19Chain(fresh).OnUpdate(rv.DeepCopy(), rv.DeepCopy()) })
				}
			} else {
				h.Op("dev radd %d", e.pod)
				if fresh != nil {
					h.Guard(func() { c19Chain(fresh).OnAdd(rv.DeepCopy(), true) })
				}
			}
			continue
		}
		obj := apiServer[e.pod].DeepCopy()
		if e.upd {
			h.Op("dev rupd %d", e.pod)
			if fresh != nil {
				h.Guard(func() { fresh.onPodUpdate(obj, obj.DeepCopy()) })
			}
		} else {
			h.Op("dev radd %d", e.pod)
			if fresh != nil {
				h.Guard(func() { fresh.onPodAdd(obj) })
			}
		}
	}
	h.Op("dev rend")
	return c19Observe(h, fresh, inv, true)
}

// ---------- the test ----------

func TestVerifC19Dev(t *testing.T) {
	h := vOpen("C19")
	if h == nil {
		t.Skip("VERIF_OUT not set")
	}
	n := h.N(400, 8000)
	for idx := 0; idx < n; idx++ {
		r := h.Begin(idx)
		if r == nil {
			continue
		}
		rx := vNewRand(h.Seed^0xC19E9, uint64(idx)) // ext9: side stream, leaves the draws of the main stream as they were

		// 1. inventory
		inv := &c19Inventory{nNodes: r.Range(1, 2), totals: map[[3]int][3]int64{}}
		remaining := map[[4]int]int64{}
		for nd := 0; nd < inv.nNodes; nd++ {
			inv.counts[nd] = [3]int{r.Range(1, 4), r.Range(0, 2), r.Range(0, 1)}
			for ty := 0; ty < 3; ty++ {
				for m := 0; m < inv.counts[nd][ty]; m++ {
					var tot [3]int64
					if ty == 0 {
						tot = [3]int64{100, r.Pick([]int64{8, 16, 32}) << 20, 100}
					} else {
						tot = [3]int64{100, r.Pick([]int64{0, 4, 100}), r.Pick([]int64{0, 2, 50})}
					}
					inv.totals[[3]int{nd, ty, m}] = tot
					for d := 0; d < 3; d++ {
						remaining[[4]int{nd, ty, m, d}] = tot[d]
					}
					h.Op("dev inv %d %d %d %d %d %d", nd, ty, m, tot[0], tot[1], tot[2])
				}
			}
		}
		h.Tag(fmt.Sprintf("nodes:%d", inv.nNodes))

		// 2. pods
		nPods := r.Range(2, 6)
		pods := make([]*c19PodDef, nPods)
		for id := 0; id < nPods; id++ {
			pods[id] = c19GenPod(h, r, id, r.Intn(inv.nNodes), inv, remaining)
		}
		var buses []string
		inv.busIdx = map[string]int{}
		for _, p := range pods {
			for _, it := range p.items {
				for _, vf := range c19ExtVFs(it.ext) {
					if _, ok := inv.busIdx[vf.BusID]; !ok {
						inv.busIdx[vf.BusID] = 0
						buses = append(buses, vf.BusID)
					}
				}
			}
		}
		sort.Strings(buses)
		for i, b := range buses {
			inv.busIdx[b] = i
		}
		for id := 0; id < nPods; id++ {
			h.Op("%s", pods[id].opLine(inv.busIdx))
		}
		h.Tag(fmt.Sprintf("pods:%d", nPods))
		w := &c19World{resv: map[int]*schedulingv1alpha1.Reservation{}, goneResv: map[int]*schedulingv1alpha1.Reservation{},
			termResv: map[int]*schedulingv1alpha1.Reservation{}}
		if r.Chance(1, 4) {
			h.Tag("stream:reservation-holder")
			for _, p := range pods {
				p.isResv = r.Bool()
			}
			// ext2: about half of the Reservation holders were created from a RUNNING pod (migration): their template
			// carries that pod's device-allocated annotation = the allocation of another pod definition of the case
			// (other minors / amounts / VFs), else a hand-made one on GPU minor 0
			for i, p := range pods {
				if !p.isResv || p.allocs() == nil || !r.Bool() {
					continue
				}
				other := pods[(i+1+r.Intn(len(pods)-1))%len(pods)]
				p.staleTpl = other.allocs()
				if p.staleTpl == nil || c19AllocsDiff(p.allocs(), p.staleTpl) == "" {
					p.staleTpl = apiext.DeviceAllocations{schedulingv1alpha1.GPU: {{Minor: 0, Resources: corev1.ResourceList{
						apiext.ResourceGPUCore: *resource.NewQuantity(100, resource.DecimalSI), apiext.ResourceGPUMemoryRatio: *resource.NewQuantity(100, resource.DecimalSI)}}}}
					if c19AllocsDiff(p.allocs(), p.staleTpl) == "" {
						p.staleTpl[schedulingv1alpha1.GPU][0].Minor = 1
					}
				}
				h.Tag("resv:stale-template")
			}
			for _, p := range pods {
				if p.isResv && r.Chance(1, 5) {
					p.waiting = true
					h.Tag("resv:waiting")
				}
			}
		}

		// 3. live history
		live := c19NewCache(h, inv)
		apiServer := map[int]*corev1.Pod{} // for a Reservation holder: its reserve pod (w.resv has the Reservation)
		inSet := func(in bool) []int {
			var out []int
			for id := 0; id < nPods; id++ {
				if _, ok := apiServer[id]; ok == in {
					out = append(out, id)
				}
			}
			return out
		}
		cacheUsed := func(p *c19PodDef, add bool) {
			nd := live.getNodeDevice(c19NodeName(p.node), false)
			nd.lock.Lock()
			defer nd.lock.Unlock()
			nd.updateCacheUsed(p.allocs(), p.base.DeepCopy(), add)
		}
		histLen := r.Range(3, 12)
		switch {
		case histLen <= 5:
			h.Tag("hist-len:3-5")
		case histLen <= 8:
			h.Tag("hist-len:6-8")
		default:
			h.Tag("hist-len:9-12")
		}
		var liveSnap *c19Snap
		gone := map[int]*corev1.Pod{}     // pods deleted before the cut -> their last object
		released := map[string]bool{}     // VFs held by a pod that was deleted
		vfDupMinorLive := false           // a pod with two VF-carrying allocations on one minor was added
		for step := 0; step < histLen; step++ {
			present, absent := inSet(true), inSet(false)
			if live != nil && len(present) > 0 && r.Chance(1, 10) {
				// degenerate tombstone about a pod the cache holds: must be ignored, ledger unchanged
				h.Tag("del:tombstone-badobj")
				vid := present[r.Intn(len(present))]
				victim := apiServer[vid].DeepCopy()
				bad := c19BadTombstone(r, victim)
				before := c19Observe(h, live, inv, false)
				if h.Guard(func() {
					if pods[vid].isResv {
						c19Chain(live).OnDelete(bad) // dropped by the filter or by the adapter's type switch
					} else {
						c19Handler(live).OnDelete(bad)
					}
				}) {
					h.Fail("C19:dev-tombstone-badobj", "a tombstone whose Obj is not a *Pod made the delete handler panic")
				} else if d := c19FirstDiff(before.lines, c19Observe(h, live, inv, false).lines); d != "" {
					h.Fail("C19:dev-tombstone-badobj", "a tombstone whose Obj is not a *Pod changed the ledger: %s", d)
				}
			}
			kind := 0 // add
			switch x := r.Intn(20); {
			case x < 11:
				kind = 0
			case x < 16:
				kind = 1
			default:
				kind = 2
			}
			if kind == 2 && len(present) == 0 {
				kind = 0
			}
			if kind == 1 && len(present) == 0 && !r.Chance(1, 4) {
				kind = 0
			}
			panicked := false
			switch kind {
			case 0:
				var target int
				isDup := false
				// allocateVF never hands out a VF that is recorded as allocated: a pod whose VFs overlap
				// those of a present pod cannot have been scheduled now
				var absentOK []int
				for _, a := range absent {
					ok := true
					for _, q := range present {
						if c19VFConflict(pods[a], pods[q]) != "" {
							ok = false
						}
					}
					if ok {
						absentOK = append(absentOK, a)
					}
				}
				if len(absentOK) < len(absent) {
					h.Tag("vf-conflict-avoided")
				}
				if len(absentOK) == 0 || (len(present) > 0 && r.Chance(1, 6)) {
					target = present[r.Intn(len(present))]
					h.Tag("dup-add")
					isDup = true
				} else {
					target = absentOK[r.Intn(len(absentOK))]
					_, norm, dm := pods[target].vfHeld()
					for k := range norm {
						if released[k] {
							h.Tag("vf-reused-after-delete")
							break
						}
					}
					if dm {
						vfDupMinorLive = true
					}
					delete(gone, target)
				}
				via := r.Intn(3)
				h.Tag(fmt.Sprintf("add-via:%d", via))
				h.Op("dev add %d %d", target, via)
				p := pods[target]
				var obj *corev1.Pod
				if p.isResv {
					rv := c19PersistResv(h, p, true)
					h.Guard(func() { obj = reservationutil.NewReservePod(rv) })
					if obj == nil || obj.Name != c19PodName(p.id) || obj.Namespace != "default" || obj.Spec.NodeName != c19NodeName(p.node) {
						h.Fail("C19:dev-harness-reserve-pod", "reserve pod of reservation %d is not default/%s on %s", p.id, c19PodName(p.id), c19NodeName(p.node))
						obj = c19Persist(h, p)
					}
					w.resv[target] = rv
					delete(w.goneResv, target)
					delete(w.termResv, target)
					panicked = live == nil || h.Guard(func() {
						switch via {
						case 0:
							cacheUsed(p, true) // Reserve of the reserve pod
						case 1:
							c19Chain(live).OnAdd(rv.DeepCopy(), false)
						default: // Pending (filtered) -> Available: the filter turns the update into an add
							c19Chain(live).OnUpdate(c19PersistResv(h, p, false), rv.DeepCopy())
						}
					})
				} else {
					obj = c19Persist(h, p)
					// ext9: ~1/5 of the first adds of a pod arrive as TWO informer events: the pod is first seen bound
					// and Pending (or phase "") carrying an EARLIER device-allocated annotation (other minor / other
					// amounts), then ONE update event changes BOTH status.phase (-> Running) and the annotation (-> the
					// pod's allocation).  updatePod must give back what the old object held and record the new one, so
					// the net effect is the plain add the model op describes (the early allocation carries no VFs).
					var first *corev1.Pod
					if early := c19EarlyAllocs(rx, inv, p); !isDup && early != nil && rx.Chance(1, 5) {
						h.Tag("add:early-alloc+phase-change-update")
						first = p.base.DeepCopy()
						if err := apiext.SetDeviceAllocations(first, early); err != nil {
							h.Fail("C19:dev-codec-roundtrip", "pod %d: SetDeviceAllocations failed on the early allocation", p.id)
						}
						first.Spec.NodeName = c19NodeName(p.node)
						first.Status.Phase = corev1.PodPending
						if rx.Chance(1, 3) {
							first.Status.Phase = ""
						}
						via = 3
					}
					panicked = live == nil || h.Guard(func() {
						switch via {
						case 3:
							live.onPodAdd(first.DeepCopy())
							live.onPodUpdate(first.DeepCopy(), obj.DeepCopy())
						case 0:
							cacheUsed(p, true)
						case 1:
							live.onPodAdd(obj.DeepCopy())
						default:
							live.onPodUpdate(p.base.DeepCopy(), obj.DeepCopy())
						}
					})
				}
				apiServer[target] = obj
			case 1:
				var target int
				var obj *corev1.Pod
				if len(present) == 0 || (len(absent) > 0 && r.Chance(1, 8)) {
					target = absent[r.Intn(len(absent))]
					obj = c19Persist(h, pods[target])
					h.Tag("del-absent")
				} else {
					target = present[r.Intn(len(present))]
					obj = apiServer[target].DeepCopy()
				}
				// via 0 = Unreserve-like, 2 = update to a terminated pod, 1 / 3 = pod delete event through the
				// registered handler (1 = the pod, 3 = a DeletedFinalStateUnknown by value)
				via := r.Intn(4)
				p := pods[target]
				var rv *schedulingv1alpha1.Reservation // the holder is a Reservation: the object the events carry
				if p.isResv {
					if rv = w.resv[target]; rv == nil {
						rv = c19PersistResv(h, p, true)
					}
					rv = rv.DeepCopy()
				}
				var delObj interface{}
				if via == 1 || via == 3 {
					var tomb bool
					if rv != nil {
						delObj, tomb = c19ResvDeleteObj(h, r, rv)
					} else {
						delObj, tomb = c19DeleteObj(h, r, obj)
					}
					via = 1
					if tomb {
						via = 3
					}
				}
				h.Tag(fmt.Sprintf("del-via:%d", via))
				h.Op("dev del %d %d", target, via)
				var doneResv *schedulingv1alpha1.Reservation
				panicked = live == nil || h.Guard(func() {
					switch {
					case via == 0:
						cacheUsed(p, false)
					case via == 2 && rv != nil:
						// Available -> Succeeded / Failed: the new object is inactive, IsObjValidActiveReservation
						// filters it and FilteringResourceEventHandler turns the update into OnDelete(old)
						h.Tag("resv:inactive")
						doneResv = rv.DeepCopy()
						doneResv.Status.Phase = schedulingv1alpha1.ReservationSucceeded
						if r.Bool() {
							doneResv.Status.Phase = schedulingv1alpha1.ReservationFailed
						}
						c19Chain(live).OnUpdate(rv, doneResv.DeepCopy())
					case via == 2:
						done := obj.DeepCopy()
						done.Status.Phase = corev1.PodSucceeded
						live.onPodUpdate(obj, done)
					case rv != nil:
						c19Chain(live).OnDelete(delObj)
					default:
						c19Handler(live).OnDelete(delObj)
					}
				})
				if rv != nil {
					if _, was := apiServer[target]; was {
						w.goneResv[target] = rv.DeepCopy()
						if doneResv != nil {
							w.termResv[target] = doneResv
						}
					}
					delete(w.resv, target)
				}
				if _, was := apiServer[target]; was {
					gone[target] = obj.DeepCopy()
					_, norm, _ := p.vfHeld()
					for k := range norm {
						released[k] = true
					}
				}
				delete(apiServer, target)
			default:
				target := present[r.Intn(len(present))]
				h.Tag("upd")
				h.Op("dev upd %d", target)
				old := apiServer[target].DeepCopy()
				cur := apiServer[target].DeepCopy()
				if cur.Labels == nil {
					cur.Labels = map[string]string{}
				}
				cur.Labels["verif/step"] = strconv.Itoa(step)
				if rv := w.resv[target]; rv != nil {
					curResv := rv.DeepCopy()
					if curResv.Labels == nil {
						curResv.Labels = map[string]string{}
					}
					curResv.Labels["verif/step"] = strconv.Itoa(step)
					panicked = live == nil || h.Guard(func() { c19Chain(live).OnUpdate(rv.DeepCopy(), curResv.DeepCopy()) })
					w.resv[target] = curResv
				} else {
					panicked = live == nil || h.Guard(func() { live.onPodUpdate(old, cur) })
				}
			}
			if panicked {
				h.Obs("panic")
				liveSnap = &c19Snap{panicked: true, lines: []string{"panic"}}
			} else {
				liveSnap = c19Observe(h, live, inv, true)
			}
			// hypothesis of the VF theorems (Lean: VWF / histOK): at every point of the history the pods the
			// API server holds have pairwise disjoint VFs.  (The other hypothesis, "every event about a pod
			// carries the same allocation", holds by construction: a pod's allocation is generated once.)
			now := inSet(true)
			for i := 0; i < len(now); i++ {
				for j := i + 1; j < len(now); j++ {
					if k := c19VFConflict(pods[now[i]], pods[now[j]]); k != "" {
						h.Fail("C19:dev-vf-hypothesis", "step %d: pods %d and %d both hold VF %s; the generator must not produce this", step, now[i], now[j], k)
					}
				}
			}
		}
		if vfDupMinorLive {
			h.Tag("vf-dup-minor-live")
		}

		// the cut: survivors = what the API server holds
		survivors := inSet(true)
		h.Tag(fmt.Sprintf("survivors:%d", len(survivors)))
		expected := map[[4]int]int64{}
		slotPods := map[[3]int]int{}
		typesCovered := map[int]bool{}
		shared := false
		for _, id := range survivors {
			p := pods[id]
			mine := map[[3]int]bool{}
			for _, it := range p.items {
				typesCovered[it.ty] = true
				for i, d := range it.dims {
					expected[[4]int{p.node, it.ty, it.minor, d}] += it.amts[i]
				}
				mine[[3]int{p.node, it.ty, it.minor}] = true
			}
			for k := range mine {
				slotPods[k]++
				if slotPods[k] >= 2 {
					shared = true
				}
			}
		}
		if shared || len(typesCovered) >= 2 {
			h.Nontrivial()
		}
		if shared {
			h.Tag("shared-device")
		}
		for k, v := range expected {
			if tot, ok := inv.totals[[3]int{k[0], k[1], k[2]}]; ok && v > tot[k[3]] {
				h.Tag("oversubscribed")
				break
			}
		}

		// 4. replay into a fresh cache, twice
		fresh1 := c19Replay(h, r, inv, apiServer, survivors, gone, w)
		fresh2 := c19Replay(h, r, inv, apiServer, survivors, gone, w)

		// oracle (ii): the rebuilt state equals the live state at the cut (the VF part has its own clause)
		if d := c19FirstDiff(c19NonVF(liveSnap.lines), c19NonVF(fresh1.lines)); d != "" {
			h.Fail("C19:dev-rebuilt-differs", "live vs rebuilt: %s", d)
		}
		if !liveSnap.panicked && !fresh1.panicked {
			if d := c19VFDiff(liveSnap.vf, fresh1.vf); d != "" {
				h.Fail("C19:dev-rebuilt-vf-differs", "%s", d)
			}
		}
		// oracle (iii): nothing a survivor holds is considered free by the rebuilt cache
		if !fresh1.panicked {
			slots := map[[4]int]bool{}
			for k := range expected {
				slots[k] = true
			}
			for k := range inv.totals {
				for d := 0; d < 3; d++ {
					slots[[4]int{k[0], k[1], k[2], d}] = true
				}
			}
			keys := make([][4]int, 0, len(slots))
			for k := range slots {
				keys = append(keys, k)
			}
			sort.Slice(keys, func(i, j int) bool {
				for x := 0; x < 4; x++ {
					if keys[i][x] != keys[j][x] {
						return keys[i][x] < keys[j][x]
					}
				}
				return false
			})
			liveStale := false
			for _, k := range keys {
				var tot int64
				if tv, ok := inv.totals[[3]int{k[0], k[1], k[2]}]; ok {
					tot = tv[k[3]]
				}
				exp := expected[k]
				maxFree := tot - exp
				if maxFree < 0 {
					maxFree = 0
				}
				if fresh1.used[k] < exp || fresh1.free[k] > maxFree {
					h.Fail("C19:dev-taken-considered-free", "node %d type %d minor %d dim %d: survivors hold %d of %d, rebuilt cache has used %d free %d",
						k[0], k[1], k[2], k[3], exp, tot, fresh1.used[k], fresh1.free[k])
					break
				}
				// ext9: the same clause for the LIVE cache at the cut ("ledger >= sum of the allocations the final
				// objects carry"): a share the annotation of a surviving pod names must not be free in the cache of
				// the scheduler that keeps running either (e.g. after an update event that changed the annotation)
				if !liveSnap.panicked && !liveStale && (liveSnap.used[k] < exp || liveSnap.free[k] > maxFree) {
					liveStale = true
					h.Fail("C19:dev-live-taken-considered-free", "node %d type %d minor %d dim %d: the final objects hold %d of %d, the live cache has used %d free %d",
						k[0], k[1], k[2], k[3], exp, tot, liveSnap.used[k], liveSnap.free[k])
				}
			}
		}
		// oracle (iii-vf): every VF a survivor holds is recorded as allocated by the rebuilt cache (allocateVF
		// skips recorded bus ids, so it is not offered again).  For a pod with two VF-carrying allocations on
		// one minor (tag vf-dup-minor; not produced by the allocator) only the last allocation's VFs are
		// demanded: theorem vf_taken_not_free assumes distinct VF-carrying minors, see
		// vf_taken_dup_minor_counterexample.
		if !fresh1.panicked {
		vfLoop:
			for _, id := range survivors {
				raw, norm, dm := pods[id].vfHeld()
				want := raw
				if dm {
					want = norm
					h.Tag("vf-dup-minor-survivor")
				}
				keys := make([]string, 0, len(want))
				for k := range want {
					keys = append(keys, k)
				}
				sort.Strings(keys)
				for _, k := range keys {
					if !fresh1.vfSet[k] {
						h.Fail("C19:dev-vf-taken-considered-free", "pod %d holds VF %s (node/type/minor/bus) but the rebuilt cache does not record it", id, k)
						break vfLoop
					}
				}
			}
		}
		// oracle (iv): the rebuilt state does not depend on the replay order / duplicates
		if d := c19FirstDiff(fresh1.lines, fresh2.lines); d != "" {
			h.Fail("C19:dev-order-dependent", "replay 1 vs replay 2: %s", d)
		}
		h.End()
	}
	h.Close("one case = 1-2 nodes (1-4 GPU, 0-2 RDMA, 0-1 FPGA each), 2-6 pods with allocator-like device allocations " +
		"(1-3 types, 1-3 minors, partial/full/zero shares, rare duplicate or unknown minors, rare oversubscription, ~1/8 pods without allocation, " +
		"RDMA VFs drawn from a pool of 4 bus ids per (node, minor) so that VFs are reused after a delete but never held by two present pods, rare duplicate bus id), " +
		"a live history of 3-12 add/del/upd ops through updateCacheUsed and the pod informer handlers (duplicate adds, deletes of absent pods, " +
		"delete events through ResourceEventHandlerFuncs.OnDelete ~40% as DeletedFinalStateUnknown by value, rare degenerate tombstones that must be ignored; " +
		"ext9: ~1/5 of the first adds of a pod = add of the bound Pending / phase-less pod with an EARLIER allocation annotation (next minor or other GPU share) " +
		"then ONE update event changing both phase (-> Running) and the annotation), " +
		"~1/4 of the cases with Reservation holders whose add / update / delete (2/5 tombstones) / Available->Succeeded|Failed update / inactive add go through " +
		"NewReservationToPodEventHandler(podHandler, IsObjValidActiveReservation) as registerPodEventHandler builds it (to the model the reserve pod is a pod), " +
		"then two shuffled replays of the surviving annotated pods (duplicate adds, same-allocation updates, update-before-add, rare stale delete of a gone pod) into fresh caches; " +
		"oracle: annotation codec round trip, rebuilt == live (ledger and VFs), nothing held is free in the rebuilt AND (ext9) in the live cache / no held VF unrecorded, replay order irrelevant, VF-theorem hypotheses hold. " +
		"non-trivial = at least two survivors hold an item on the same (node,type,minor) or the survivors together cover at least two device types")
}
